(* C05 — proofs about the model (C05/Model.v) against the spec (C05/Spec.v), part 1:
   dictionaries, state extension, the image relation, pot_transform / cell_transform and the
   cache invariant. *)
From Coq Require Import List ZArith Bool Lia.
From T4V Require Import C05.Model C05.Spec.
Import ListNotations.
Open Scope Z_scope.

(* ---- dictionaries ------------------------------------------------------------------------ *)
Lemma dget_dset_same : forall {V} k (v : V) d, dget k (dset k v d) = Some v.
Proof.
  intros V k v d. induction d as [|[k' v'] r IH]; cbn.
  - rewrite Z.eqb_refl. reflexivity.
  - destruct (k =? k') eqn:E; cbn; rewrite ?Z.eqb_refl; try reflexivity.
    rewrite E. exact IH.
Qed.

Lemma dget_dset_other : forall {V} k k' (v : V) d, k' <> k -> dget k' (dset k v d) = dget k' d.
Proof.
  intros V k k' v d Hne. induction d as [|[k0 v0] r IH]; cbn.
  - destruct (k' =? k) eqn:E; [apply Z.eqb_eq in E; contradiction | reflexivity].
  - destruct (k =? k0) eqn:E; cbn.
    + apply Z.eqb_eq in E. subst k0.
      destruct (k' =? k) eqn:E2; [apply Z.eqb_eq in E2; contradiction | reflexivity].
    + destruct (k' =? k0); [reflexivity | exact IH].
Qed.

Lemma dget_In : forall {V} k (v : V) d, dget k d = Some v -> In (k, v) d.
Proof.
  intros V k v d. induction d as [|[k' v'] r IH]; cbn; intros H; [discriminate|].
  destruct (k =? k') eqn:E.
  - apply Z.eqb_eq in E. inversion H. subst. left. reflexivity.
  - right. apply IH. exact H.
Qed.

Lemma In_dget_some : forall {V} k (v : V) d, In (k, v) d -> dget k d <> None.
Proof.
  intros V k v d. induction d as [|[k' v'] r IH]; cbn; intros H; [contradiction|].
  destruct (k =? k') eqn:E; [discriminate|].
  destruct H as [H|H]; [inversion H; subst; rewrite Z.eqb_refl in E; discriminate | apply IH; exact H].
Qed.

(* ---- generic facts on the state-threaded traversals ---------------------------------------- *)
Section Traversals.
Context {A B S : Type}.
Variable I : S -> Prop.
Variable ext : S -> S -> Prop.
Hypothesis ext_refl : forall s, ext s s.
Hypothesis ext_trans : forall a b c, ext a b -> ext b c -> ext a c.

Lemma mapM_st_spec : forall (f : A -> S -> res (B * S)) (R : S -> A -> B -> Prop),
  (forall s s' a b, ext s s' -> R s a b -> R s' a b) ->
  forall l,
  (forall a, In a l -> forall s b s', I s -> f a s = Ok (b, s') -> I s' /\ ext s s' /\ R s' a b) ->
  forall s bs s', I s -> mapM_st f l s = Ok (bs, s') ->
  I s' /\ ext s s' /\ Forall2 (R s') l bs.
Proof.
  intros f R Rmono l. induction l as [|a r IH]; intros Hf s bs s' HI H; cbn in H.
  - inversion H; subst. repeat split; auto.
  - destruct (f a s) as [[b s1]|] eqn:E1; [|discriminate].
    destruct (mapM_st f r s1) as [[bs' s2]|] eqn:E2; [|discriminate].
    inversion H; subst.
    destruct (Hf a (or_introl eq_refl) _ _ _ HI E1) as (HI1 & Hx1 & HR1).
    destruct (IH (fun a' Hin => Hf a' (or_intror Hin)) _ _ _ HI1 E2) as (HI2 & Hx2 & HR2).
    repeat split; eauto.
Qed.

Lemma concatM_st_spec : forall (f : A -> S -> res (list B * S)) (R : S -> A -> list B -> Prop),
  (forall s s' a b, ext s s' -> R s a b -> R s' a b) ->
  forall l,
  (forall a, In a l -> forall s b s', I s -> f a s = Ok (b, s') -> I s' /\ ext s s' /\ R s' a b) ->
  forall s bs s', I s -> concatM_st f l s = Ok (bs, s') ->
  I s' /\ ext s s' /\ exists bss, bs = concat bss /\ Forall2 (R s') l bss.
Proof.
  intros f R Rmono l. induction l as [|a r IH]; intros Hf s bs s' HI H; cbn in H.
  - inversion H; subst. repeat split; auto. exists []. split; auto.
  - destruct (f a s) as [[b s1]|] eqn:E1; [|discriminate].
    destruct (concatM_st f r s1) as [[bs' s2]|] eqn:E2; [|discriminate].
    inversion H; subst.
    destruct (Hf a (or_introl eq_refl) _ _ _ HI E1) as (HI1 & Hx1 & HR1).
    destruct (IH (fun a' Hin => Hf a' (or_intror Hin)) _ _ _ HI1 E2) as (HI2 & Hx2 & bss & Hc & HR2).
    repeat split; eauto. exists (b :: bss). cbn. subst bs'. split; eauto.
Qed.
End Traversals.

Lemma Forall2_imp : forall {A B} (R R' : A -> B -> Prop), (forall a b, R a b -> R' a b) ->
  forall l m, Forall2 R l m -> Forall2 R' l m.
Proof. intros A B R R' H l m HF. induction HF; constructor; auto. Qed.

(* induction on trees with the hypothesis for every argument of a node *)
Lemma tree_ind' : forall (Q : tree -> Prop),
  (forall x, Q (TSurf x)) -> (forall c, Q (TRef c)) -> (forall c, Q (TCompl c)) ->
  (forall op args, (forall a, In a args -> Q a) -> Q (TNode op args)) ->
  forall e, Q e.
Proof.
  intros Q Hs Hr Hc Hn. fix IH 1. intros [x|c|c|op args]; [apply Hs | apply Hr | apply Hc |].
  apply Hn. induction args as [|a r IHr]; intros a' Hin; [contradiction|].
  destruct Hin as [<-|Hin]; [apply IH | apply IHr; exact Hin].
Qed.

(* ---- parse_fill_kw / parse_trcl_kw: an explicit transformation never parses to the empty one -- *)
Lemma parse_tr_params_explicit : forall is_fill star trid params table l,
  params <> [] -> (forall k c, dget k table = Some c -> c <> []) ->
  parse_tr_params is_fill star trid params table = Ok (TSList l) -> l <> [].
Proof.
  intros is_fill star trid params table l Hne Htab H. unfold parse_tr_params in H.
  destruct params as [|a [|b [|c [|d r]]]]; [contradiction| | | |]; try discriminate.
  - destruct (dget trid table) as [card|] eqn:E; [|discriminate]. inversion H; subst.
    specialize (Htab _ _ E). destruct card; [contradiction | discriminate].
  - inversion H. discriminate.
Qed.

(* a FILL keyword, starred or not, without any number: no transformation *)
Lemma parse_tr_params_fill_none : forall star trid table,
  parse_tr_params true star trid [] table = Ok (TSList []).
Proof. intros star trid table. cbn. rewrite andb_false_r. reflexivity. Qed.

Section Proofs.
Variable T : Type.
Variable surf : Type.
Variable P : Type.
Variable tr_empty : T -> bool.
Variable teqb : T -> T -> bool.
Variable tr_surf : T -> surf -> surf.
Variable inv : T -> P -> P.
Variable sense : surf -> P -> bool.

(* the interface law of the numeric layer (C04): the transformed surface at p has the sense
   of the original surface at inv t p *)
Hypothesis sense_tr : forall t o p, sense (tr_surf t o) p = sense o (inv t p).
(* equal cache keys (Python: tuple(t1) == tuple(t2)) are the same motion *)
Hypothesis teqb_sound : forall a b, teqb a b = true ->
  tr_empty a = tr_empty b /\ forall p, inv a p = inv b p.

Notation state := (state T surf).
Notation cell := (cell T).
Notation Den := (Den T surf P sense).
Notation DenL := (DenL T surf P sense).
Notation cell_transform := (cell_transform T surf tr_empty teqb tr_surf).
Notation pot_transform_gen := (pot_transform_gen T surf tr_surf).
Notation pot_transform := (pot_transform T surf tr_empty teqb tr_surf).
Notation apply_trcl := (apply_trcl T surf tr_empty teqb tr_surf).
Notation transform_seq := (transform_seq T surf tr_empty teqb tr_surf).
Notation cget := (cget T teqb).
Notation cset := (cset T teqb).
Notation add_cache := (add_cache T surf teqb).

Lemma pot_transform_compl_untouched : forall fuel t c (s : state),
  pot_transform fuel t (TCompl c) s = Ok (TCompl c, s).
Proof. intros fuel t c s. unfold Model.pot_transform. destruct (tr_empty t); reflexivity. Qed.

(* ---- extension of the tables --------------------------------------------------------------- *)
Definition extends (s s' : state) : Prop :=
  (forall k v, dget k (s_cells s) = Some v -> dget k (s_cells s') = Some v) /\
  (forall k v, dget k (s_surfs s) = Some v -> dget k (s_surfs s') = Some v).

Lemma extends_refl : forall s, extends s s.
Proof. intros s. split; auto. Qed.

Lemma extends_trans : forall a b c, extends a b -> extends b c -> extends a c.
Proof. intros a b c [H1 H2] [H3 H4]. split; auto. Qed.

Lemma Den_mono : forall s s' p, extends s s' ->
  (forall e b, Den s p e b -> Den s' p e b) /\ (forall es bs, DenL s p es bs -> DenL s' p es bs).
Proof.
  intros s s' p [Hc Hs].
  apply (Den_DenL_ind T surf P sense s p
           (fun e b _ => Den s' p e b) (fun es bs _ => DenL s' p es bs)).
  - intros x o H. apply DSurf. apply Hs. exact H.
  - intros c cl b H _ IH. eapply DRef; [apply Hc; exact H | exact IH].
  - intros op args bs _ IH. apply DNode. exact IH.
  - apply DNil.
  - intros e b es bs _ IH1 _ IH2. apply DCons; assumption.
Qed.

Lemma Den_surf_inv : forall s p x b, Den s p (TSurf x) b ->
  exists o, dget (Z.abs x) (s_surfs s) = Some o /\ b = lit x (sense o p).
Proof. intros s p x b H. inversion H; subst. eauto. Qed.

Lemma Den_ref_inv : forall s p c b, Den s p (TRef c) b ->
  exists cl, dget c (s_cells s) = Some cl /\ Den s p (c_geom cl) b.
Proof. intros s p c b H. inversion H; subst. eauto. Qed.

Lemma Den_node_inv : forall s p op args b, Den s p (TNode op args) b ->
  exists bs, DenL s p args bs /\ b = combine_op op bs.
Proof. intros s p op args b H. inversion H; subst. eauto. Qed.

Lemma Den_compl_inv : forall s p c b, Den s p (TCompl c) b -> False.
Proof. intros s p c b H. inversion H. Qed.

Lemma DenL_nil_inv : forall s p bs, DenL s p [] bs -> bs = [].
Proof. intros s p bs H. inversion H. reflexivity. Qed.

Lemma DenL_cons_inv : forall s p e es bs, DenL s p (e :: es) bs ->
  exists b bs', bs = b :: bs' /\ Den s p e b /\ DenL s p es bs'.
Proof. intros s p e es bs H. inversion H; subst. eauto. Qed.

Lemma Den_fun : forall s p,
  (forall e b, Den s p e b -> forall b', Den s p e b' -> b = b') /\
  (forall es bs, DenL s p es bs -> forall bs', DenL s p es bs' -> bs = bs').
Proof.
  intros s p.
  apply (Den_DenL_ind T surf P sense s p
           (fun e b _ => forall b', Den s p e b' -> b = b')
           (fun es bs _ => forall bs', DenL s p es bs' -> bs = bs')).
  - intros x o H b' H'. destruct (Den_surf_inv _ _ _ _ H') as (o' & Ho & ->).
    rewrite H in Ho. inversion Ho; subst. reflexivity.
  - intros c cl b H _ IH b' H'. destruct (Den_ref_inv _ _ _ _ H') as (cl' & Hc & HD).
    rewrite H in Hc. inversion Hc; subst. apply IH. exact HD.
  - intros op args bs _ IH b' H'. destruct (Den_node_inv _ _ _ _ _ H') as (bs' & HD & ->).
    rewrite (IH _ HD). reflexivity.
  - intros bs' H'. rewrite (DenL_nil_inv _ _ _ H'). reflexivity.
  - intros e b es bs _ IH1 _ IH2 bs' H'.
    destruct (DenL_cons_inv _ _ _ _ _ H') as (b0 & bs0 & -> & HD1 & HD2).
    rewrite (IH1 _ HD1), (IH2 _ HD2). reflexivity.
Qed.

(* ---- the image relation: e' is e with every surface replaced by a surface whose sense at p is
   the old sense at f p, and every referenced cell replaced by a cell whose geometry is an image
   of the old one ------------------------------------------------------------------------------ *)
Inductive Img (s : state) (f : P -> P) : tree -> tree -> Prop :=
| ISurf : forall x x' o o',
    dget (Z.abs x) (s_surfs s) = Some o -> dget (Z.abs x') (s_surfs s) = Some o' ->
    (0 <=? x') = (0 <=? x) -> (forall p, sense o' p = sense o (f p)) ->
    Img s f (TSurf x) (TSurf x')
| IRef : forall c c' cl cl',
    dget c (s_cells s) = Some cl -> dget c' (s_cells s) = Some cl' ->
    Img s f (c_geom cl) (c_geom cl') -> Img s f (TRef c) (TRef c')
| ICompl : forall c, Img s f (TCompl c) (TCompl c)
| INode : forall op args args', ImgL s f args args' -> Img s f (TNode op args) (TNode op args')
with ImgL (s : state) (f : P -> P) : list tree -> list tree -> Prop :=
| INil : ImgL s f [] []
| ICons : forall e e' es es', Img s f e e' -> ImgL s f es es' -> ImgL s f (e :: es) (e' :: es').

Scheme Img_mind := Induction for Img Sort Prop
  with ImgL_mind := Induction for ImgL Sort Prop.
Combined Scheme Img_ImgL_ind from Img_mind, ImgL_mind.

Lemma Img_mono : forall s s' f, extends s s' ->
  (forall e e', Img s f e e' -> Img s' f e e') /\ (forall l l', ImgL s f l l' -> ImgL s' f l l').
Proof.
  intros s s' f [Hc Hs].
  apply (Img_ImgL_ind s f (fun e e' _ => Img s' f e e') (fun l l' _ => ImgL s' f l l')).
  - intros x x' o o' H1 H2 H3 H4. eapply ISurf; eauto.
  - intros c c' cl cl' H1 H2 _ IH. eapply IRef; eauto.
  - intros c. apply ICompl.
  - intros op args args' _ IH. apply INode. exact IH.
  - apply INil.
  - intros e e' es es' _ IH1 _ IH2. apply ICons; assumption.
Qed.

Lemma Img_ext : forall s f g, (forall p, f p = g p) ->
  (forall e e', Img s f e e' -> Img s g e e') /\ (forall l l', ImgL s f l l' -> ImgL s g l l').
Proof.
  intros s f g Hfg.
  apply (Img_ImgL_ind s f (fun e e' _ => Img s g e e') (fun l l' _ => ImgL s g l l')).
  - intros x x' o o' H1 H2 H3 H4. eapply ISurf; eauto. intros p. rewrite H4, Hfg. reflexivity.
  - intros c c' cl cl' H1 H2 _ IH. eapply IRef; eauto.
  - intros c. apply ICompl.
  - intros op args args' _ IH. apply INode. exact IH.
  - apply INil.
  - intros e e' es es' _ IH1 _ IH2. apply ICons; assumption.
Qed.

Lemma Forall2_ImgL : forall s f l l', Forall2 (Img s f) l l' -> ImgL s f l l'.
Proof. intros s f l l' H. induction H; [apply INil | apply ICons; assumption]. Qed.

(* the image at p has the value of the original at f p *)
Lemma Img_den : forall s f,
  (forall e e', Img s f e e' -> forall p b, Den s (f p) e b -> Den s p e' b) /\
  (forall l l', ImgL s f l l' -> forall p bs, DenL s (f p) l bs -> DenL s p l' bs).
Proof.
  intros s f.
  apply (Img_ImgL_ind s f (fun e e' _ => forall p b, Den s (f p) e b -> Den s p e' b)
           (fun l l' _ => forall p bs, DenL s (f p) l bs -> DenL s p l' bs)).
  - intros x x' o o' H1 H2 H3 H4 p b HD. destruct (Den_surf_inv _ _ _ _ HD) as (o0 & Ho & ->).
    rewrite H1 in Ho. inversion Ho; subst o0.
    replace (lit x (sense o (f p))) with (lit x' (sense o' p)).
    + apply DSurf. exact H2.
    + unfold lit. rewrite H3, H4. reflexivity.
  - intros c c' cl cl' H1 H2 _ IH p b HD. destruct (Den_ref_inv _ _ _ _ HD) as (cl0 & Hc & HD0).
    rewrite H1 in Hc. inversion Hc; subst cl0.
    eapply DRef; [exact H2 | apply IH; exact HD0].
  - intros c p b HD. destruct (Den_compl_inv _ _ _ _ HD).
  - intros op args args' _ IH p b HD. destruct (Den_node_inv _ _ _ _ _ HD) as (bs & HDL & ->).
    apply DNode. apply IH. exact HDL.
  - intros p bs HD. rewrite (DenL_nil_inv _ _ _ HD). apply DNil.
  - intros e e' es es' _ IH1 _ IH2 p bs HD.
    destruct (DenL_cons_inv _ _ _ _ _ HD) as (b0 & bs0 & -> & HD1 & HD2). apply DCons; auto.
Qed.

(* ---- the invariant -------------------------------------------------------------------------- *)
(* what a cache entry (k, t) -> v promises *)
Definition entry_ok (s : state) (k : Z) (t : T) (v : Z) : Prop :=
  if tr_empty t then v = k else Img s (inv t) (TRef k) (TRef v).

Definition cache_ok (s : state) : Prop :=
  forall k t v, In ((k, t), v) (s_cache s) -> entry_ok s k t v.

(* the counters are above every key in use (construct_volume_t4 starts them there) *)
Definition fresh_ok (s : state) : Prop :=
  (forall k, s_nck s < k -> dget k (s_cells s) = None) /\
  (forall k, s_nsk s < k -> dget k (s_surfs s) = None).

Definition Inv (s : state) : Prop := fresh_ok s /\ cache_ok s.

Lemma entry_ok_mono : forall s s' k t v, extends s s' -> entry_ok s k t v -> entry_ok s' k t v.
Proof.
  intros s s' k t v Hx. unfold entry_ok. destruct (tr_empty t); [auto|].
  apply (proj1 (Img_mono s s' (inv t) Hx)).
Qed.

Lemma cget_some : forall k t d v, cget k t d = Some v ->
  exists t', In ((k, t'), v) d /\ teqb t t' = true.
Proof.
  intros k t d v. induction d as [|[[k' t'] v'] r IH]; cbn; intros H; [discriminate|].
  destruct ((k =? k') && teqb t t') eqn:E.
  - apply andb_true_iff in E. destruct E as [E1 E2]. apply Z.eqb_eq in E1. subst k'.
    inversion H; subst. exists t'. split; [left; reflexivity | exact E2].
  - destruct (IH H) as (t1 & Hin & Ht). exists t1. split; [right; exact Hin | exact Ht].
Qed.

Lemma cset_In : forall k t v d k0 t0 v0, In ((k0, t0), v0) (cset k t v d) ->
  In ((k0, t0), v0) d \/ (k0 = k /\ v0 = v /\ (t0 = t \/ teqb t t0 = true)).
Proof.
  intros k t v d k0 t0 v0. induction d as [|[[k' t'] v'] r IH]; cbn; intros H.
  - destruct H as [H|[]]. inversion H; subst. right. auto.
  - destruct ((k =? k') && teqb t t') eqn:E.
    + destruct H as [H|H].
      * inversion H; subst. apply andb_true_iff in E. destruct E as [E1 E2].
        apply Z.eqb_eq in E1. right. auto.
      * left. right. exact H.
    + destruct H as [H|H]; [left; left; exact H|].
      destruct (IH H) as [H1|H1]; [left; right; exact H1 | right; exact H1].
Qed.

Lemma entry_ok_teqb : forall s k t t0 v, teqb t t0 = true -> entry_ok s k t v -> entry_ok s k t0 v.
Proof.
  intros s k t t0 v Ht. destruct (teqb_sound _ _ Ht) as [He Hp].
  unfold entry_ok. rewrite He. destruct (tr_empty t0); [auto|].
  apply (proj1 (Img_ext s (inv t) (inv t0) Hp)).
Qed.

(* a cache hit can be trusted *)
Lemma cache_hit : forall s k t v, cache_ok s -> cget k t (s_cache s) = Some v -> entry_ok s k t v.
Proof.
  intros s k t v Hc H. destruct (cget_some _ _ _ _ H) as (t' & Hin & Ht).
  specialize (Hc _ _ _ Hin). destruct (teqb_sound _ _ Ht) as [He Hp].
  unfold entry_ok in *. rewrite He. destruct (tr_empty t'); [exact Hc|].
  apply (proj1 (Img_ext s (inv t') (inv t) (fun p => eq_sym (Hp p)))). exact Hc.
Qed.

Definition same_tables (s s' : state) : Prop :=
  s_cells s' = s_cells s /\ s_surfs s' = s_surfs s /\ s_nck s' = s_nck s /\ s_nsk s' = s_nsk s.

Lemma add_cache_inv : forall s k t v, Inv s -> entry_ok s k t v -> Inv (add_cache k t v s).
Proof.
  intros s k t v [Hf Hc] He. split.
  - exact Hf.
  - intros k0 t0 v0 Hin. cbn in Hin.
    assert (Hx : extends s (add_cache k t v s)) by (split; auto).
    apply (entry_ok_mono _ _ _ _ _ Hx).
    destruct (cset_In _ _ _ _ _ _ _ Hin) as [Hold|(-> & -> & [->|Ht])].
    + apply Hc. exact Hold.
    + exact He.
    + apply (entry_ok_teqb _ _ _ _ _ Ht He).
Qed.

Lemma add_cache_extends : forall s k t v, extends s (add_cache k t v s).
Proof. intros. split; auto. Qed.

(* adding a cell / a surface under a fresh key *)
Definition add_cell (s : state) (k : Z) (c : cell) : state :=
  mkSt (dset k c (s_cells s)) (s_surfs s) k (s_nsk s) (s_cache s) (s_rcache s).

Lemma add_cell_extends : forall s c, fresh_ok s -> extends s (add_cell s (s_nck s + 1) c).
Proof.
  intros s c [Hf _]. split; cbn; auto.
  intros k v H. rewrite dget_dset_other; [exact H|].
  intros ->. rewrite Hf in H by lia. discriminate.
Qed.

Lemma add_cell_inv : forall s c, Inv s -> Inv (add_cell s (s_nck s + 1) c).
Proof.
  intros s c [Hf Hc]. split.
  - destruct Hf as [Hf1 Hf2]. split; cbn; [|exact Hf2].
    intros k Hk. rewrite dget_dset_other by lia. apply Hf1. lia.
  - intros k t v Hin. cbn in Hin.
    apply (entry_ok_mono _ _ _ _ _ (add_cell_extends s c Hf)). apply Hc. exact Hin.
Qed.

Definition add_surf (s : state) (k : Z) (o : surf) : state :=
  mkSt (s_cells s) (dset k o (s_surfs s)) (s_nck s) k (s_cache s) (s_rcache s).

Lemma add_surf_extends : forall s o, fresh_ok s -> extends s (add_surf s (s_nsk s + 1) o).
Proof.
  intros s o [_ Hf]. split; cbn; auto.
  intros k v H. rewrite dget_dset_other; [exact H|].
  intros ->. rewrite Hf in H by lia. discriminate.
Qed.

Lemma add_surf_inv : forall s o, Inv s -> Inv (add_surf s (s_nsk s + 1) o).
Proof.
  intros s o [Hf Hc]. split.
  - destruct Hf as [Hf1 Hf2]. split; cbn; [exact Hf1|].
    intros k Hk. rewrite dget_dset_other by lia. apply Hf2. lia.
  - intros k t v Hin. cbn in Hin.
    apply (entry_ok_mono _ _ _ _ _ (add_surf_extends s o Hf)). apply Hc. exact Hin.
Qed.

(* ---- pot_transform_gen over a cell_transform that keeps its promise -------------------------- *)
Lemma ptg_spec : forall (ct : Z -> state -> res (Z * state)) t,
  (forall c s k' s', Inv s -> ct c s = Ok (k', s') ->
     Inv s' /\ extends s s' /\ Img s' (inv t) (TRef c) (TRef k')) ->
  forall e s e' s', Inv s -> pot_transform_gen ct t e s = Ok (e', s') ->
  Inv s' /\ extends s s' /\ Img s' (inv t) e e'.
Proof.
  intros ct t Hct e. induction e as [x|c|c|op args IH] using tree_ind'; intros s e' s' HI H.
  - cbn in H. destruct (dget (Z.abs x) (s_surfs s)) as [o|] eqn:Eo; [|discriminate].
    inversion H; subst e' s'; clear H.
    change (mkSt (s_cells s) (dset (s_nsk s + 1) (tr_surf t o) (s_surfs s)) (s_nck s)
              (s_nsk s + 1) (s_cache s) (s_rcache s)) with (add_surf s (s_nsk s + 1) (tr_surf t o)).
    pose proof (add_surf_extends s (tr_surf t o) (proj1 HI)) as Hx.
    split; [apply add_surf_inv; exact HI|]. split; [exact Hx|].
    destruct HI as [[_ Hfs] _].
    assert (Hpos : 0 <= Z.abs x) by lia.
    assert (Hle : Z.abs x <= s_nsk s).
    { destruct (Z_lt_le_dec (s_nsk s) (Z.abs x)) as [Hlt|Hle]; [|exact Hle].
      rewrite Hfs in Eo by exact Hlt. discriminate. }
    eapply ISurf with (o := o) (o' := tr_surf t o).
    + apply (proj2 Hx). exact Eo.
    + cbn [add_surf s_surfs].
      replace (Z.abs (if 0 <=? x then s_nsk s + 1 else - (s_nsk s + 1))) with (s_nsk s + 1)
        by (destruct (0 <=? x); lia).
      apply dget_dset_same.
    + destruct (0 <=? x) eqn:E; [apply Z.leb_le; lia | apply Z.leb_gt; lia].
    + intros p. apply sense_tr.
  - cbn in H. destruct (ct c s) as [[k s1]|] eqn:E; [|discriminate].
    inversion H; subst e' s'. exact (Hct _ _ _ _ HI E).
  - cbn in H. inversion H; subst. split; [exact HI|]. split; [apply extends_refl | apply ICompl].
  - cbn in H.
    destruct (mapM_st (pot_transform_gen ct t) args s) as [[args' s1]|] eqn:E; [|discriminate].
    inversion H; subst e' s'; clear H.
    destruct (mapM_st_spec Inv extends extends_refl extends_trans (pot_transform_gen ct t)
                (fun s a b => Img s (inv t) a b)
                (fun s s' a b Hx => proj1 (Img_mono s s' (inv t) Hx) a b)
                args (fun a Hin s b s' => IH a Hin s b s') _ _ _ HI E) as (HI1 & Hx1 & HR).
    split; [exact HI1|]. split; [exact Hx1|]. apply INode. apply Forall2_ImgL. exact HR.
Qed.

(* ---- cell_transform --------------------------------------------------------------------------- *)
Lemma cell_transform_spec : forall fuel k t cache s k' s',
  Inv s -> cell_transform fuel k t cache s = Ok (k', s') ->
  Inv s' /\ extends s s' /\ entry_ok s' k t k'.
Proof.
  induction fuel as [|f IH]; intros k t cache s k' s' HI H; [discriminate|].
  cbn [Model.cell_transform] in H.
  destruct (if cache then cget k t (s_cache s) else None) as [kc|] eqn:Ehit.
  - inversion H; subst kc s'. split; [exact HI|]. split; [apply extends_refl|].
    destruct cache; [|discriminate]. apply cache_hit; [exact (proj2 HI) | exact Ehit].
  - destruct (tr_empty t) eqn:Et.
    + inversion H; subst k' s'; clear H.
      assert (He : entry_ok s k t k) by (unfold entry_ok; rewrite Et; reflexivity).
      destruct cache.
      * split; [apply add_cache_inv; auto|]. split; [apply add_cache_extends|].
        unfold entry_ok. rewrite Et. reflexivity.
      * split; [exact HI|]. split; [apply extends_refl | exact He].
    + destruct (dget k (s_cells s)) as [cl|] eqn:Ecl; [|discriminate].
      destruct (pot_transform_gen (fun c => cell_transform f c t true) t (c_geom cl) s)
        as [[g' s1]|] eqn:Eg; [|discriminate].
      assert (Hct : forall c s0 k0 s0', Inv s0 -> cell_transform f c t true s0 = Ok (k0, s0') ->
                 Inv s0' /\ extends s0 s0' /\ Img s0' (inv t) (TRef c) (TRef k0)).
      { intros c s0 k0 s0' HI0 E0. destruct (IH _ _ _ _ _ _ HI0 E0) as (A & B & C).
        split; [exact A|]. split; [exact B|]. unfold entry_ok in C. rewrite Et in C. exact C. }
      destruct (ptg_spec _ t Hct _ _ _ _ HI Eg) as (HI1 & Hx1 & Himg).
      set (nk := s_nck s1 + 1) in *.
      change (mkSt (dset nk (with_geom cl g') (s_cells s1)) (s_surfs s1) nk (s_nsk s1)
                (s_cache s1) (s_rcache s1)) with (add_cell s1 nk (with_geom cl g')) in H.
      pose proof (add_cell_extends s1 (with_geom cl g') (proj1 HI1)) as Hx2. fold nk in Hx2.
      pose proof (add_cell_inv s1 (with_geom cl g') HI1) as HI2. fold nk in HI2.
      set (s2 := add_cell s1 nk (with_geom cl g')) in *.
      assert (He : entry_ok s2 k t nk).
      { unfold entry_ok. rewrite Et.
        eapply IRef with (cl := cl) (cl' := with_geom cl g').
        - apply (proj1 Hx2). apply (proj1 Hx1). exact Ecl.
        - unfold s2. cbn [add_cell s_cells]. apply dget_dset_same.
        - cbn [with_geom c_geom]. apply (proj1 (Img_mono _ _ _ Hx2)). exact Himg. }
      assert (Hx : extends s s2) by (eapply extends_trans; eauto).
      destruct cache; inversion H; subst k' s'; clear H.
      * split.
        { apply add_cache_inv; [exact HI2 | exact He]. }
        split; [eapply extends_trans; [exact Hx | apply add_cache_extends]|].
        apply (entry_ok_mono _ _ _ _ _ (add_cache_extends s2 k t nk)). exact He.
      * split; [exact HI2|]. split; [exact Hx | exact He].
Qed.


(* ---- denotational corollaries ---------------------------------------------------------------- *)
Notation act := (act T P tr_empty inv).
Notation act_seq := (act_seq T P tr_empty inv).
Notation frame := (frame T P tr_empty inv).

Lemma cell_transform_den : forall fuel k t cache s k' s',
  Inv s -> cell_transform fuel k t cache s = Ok (k', s') ->
  Inv s' /\ extends s s' /\ forall p b, Den s (act t p) (TRef k) b -> Den s' p (TRef k') b.
Proof.
  intros fuel k t cache s k' s' HI H.
  destruct (cell_transform_spec _ _ _ _ _ _ _ HI H) as (HI' & Hx & He).
  split; [exact HI'|]. split; [exact Hx|]. intros p b HD.
  apply (proj1 (Den_mono _ _ _ Hx)) in HD. unfold entry_ok in He. unfold Spec.act in HD.
  destruct (tr_empty t).
  - subst k'. exact HD.
  - exact (proj1 (Img_den s' (inv t)) _ _ He p b HD).
Qed.

Lemma pot_transform_den : forall fuel t e s e' s',
  Inv s -> pot_transform fuel t e s = Ok (e', s') ->
  Inv s' /\ extends s s' /\ forall p b, Den s (act t p) e b -> Den s' p e' b.
Proof.
  intros fuel t e s e' s' HI H. unfold Model.pot_transform in H. unfold Spec.act.
  destruct (tr_empty t) eqn:Et.
  - inversion H; subst. split; [exact HI|]. split; [apply extends_refl | auto].
  - assert (Hct : forall c s0 k0 s0', Inv s0 -> cell_transform fuel c t true s0 = Ok (k0, s0') ->
               Inv s0' /\ extends s0 s0' /\ Img s0' (inv t) (TRef c) (TRef k0)).
    { intros c s0 k0 s0' HI0 E0. destruct (cell_transform_spec _ _ _ _ _ _ _ HI0 E0) as (A & B & C).
      split; [exact A|]. split; [exact B|]. unfold entry_ok in C. rewrite Et in C. exact C. }
    destruct (ptg_spec _ t Hct _ _ _ _ HI H) as (HI1 & Hx1 & Himg).
    split; [exact HI1|]. split; [exact Hx1|]. intros p b HD.
    apply (proj1 (Den_mono _ _ _ Hx1)) in HD.
    exact (proj1 (Img_den s' (inv t)) _ _ Himg p b HD).
Qed.

Lemma apply_trcl_den : forall fuel ts e s e' s',
  Inv s -> apply_trcl fuel ts e s = Ok (e', s') ->
  Inv s' /\ extends s s' /\ forall p b, Den s (act_seq ts p) e b -> Den s' p e' b.
Proof.
  intros fuel ts. induction ts as [|t r IH]; intros e s e' s' HI H; cbn in H.
  - inversion H; subst. split; [exact HI|]. split; [apply extends_refl | auto].
  - destruct (pot_transform fuel t e s) as [[g1 s1]|] eqn:E1; [|discriminate].
    destruct (pot_transform_den _ _ _ _ _ _ HI E1) as (HI1 & Hx1 & HD1).
    destruct (IH _ _ _ _ HI1 H) as (HI2 & Hx2 & HD2).
    split; [exact HI2|]. split; [eapply extends_trans; eauto|].
    intros p b HD. apply HD2. apply HD1. exact HD.
Qed.

Lemma transform_seq_den : forall fuel ts k cache s k' s',
  Inv s -> transform_seq fuel k ts cache s = Ok (k', s') ->
  Inv s' /\ extends s s' /\ forall p b, Den s (act_seq ts p) (TRef k) b -> Den s' p (TRef k') b.
Proof.
  intros fuel ts. induction ts as [|t r IH]; intros k cache s k' s' HI H; cbn in H.
  - inversion H; subst. split; [exact HI|]. split; [apply extends_refl | auto].
  - destruct (cell_transform fuel k t cache s) as [[k1 s1]|] eqn:E1; [|discriminate].
    destruct (cell_transform_den _ _ _ _ _ _ _ HI E1) as (HI1 & Hx1 & HD1).
    destruct (IH _ _ _ _ _ HI1 H) as (HI2 & Hx2 & HD2).
    split; [exact HI2|]. split; [eapply extends_trans; eauto|].
    intros p b HD. apply HD2. apply HD1. exact HD.
Qed.

Notation place_filler := (place_filler T surf tr_empty teqb tr_surf).

Lemma place_filler_den : forall fuel cl e cache s k' s',
  Inv s -> place_filler fuel cl e cache s = Ok (k', s') ->
  Inv s' /\ extends s s' /\ forall p b, Den s (frame cl p) (TRef e) b -> Den s' p (TRef k') b.
Proof.
  intros fuel cl e cache s k' s' HI H. unfold Model.place_filler in H. unfold Spec.frame.
  destruct (c_filltr cl) as [ft|].
  - destruct (tr_empty ft) eqn:Et.
    + exact (transform_seq_den _ _ _ _ _ _ _ HI H).
    + destruct (cell_transform_den _ _ _ _ _ _ _ HI H) as (A & B & C).
      split; [exact A|]. split; [exact B|]. intros p b HD. apply C. unfold Spec.act.
      rewrite Et. exact HD.
  - exact (transform_seq_den _ _ _ _ _ _ _ HI H).
Qed.

(* the semantic reading of the cache invariant *)
Definition cache_coherent (s : state) : Prop :=
  forall k t v, cget k t (s_cache s) = Some v ->
  forall p b, Den s (act t p) (TRef k) b -> Den s p (TRef v) b.

Lemma Inv_cache_coherent : forall s, Inv s -> cache_coherent s.
Proof.
  intros s [_ Hc] k t v H p b HD. pose proof (cache_hit _ _ _ _ Hc H) as He.
  unfold entry_ok in He. unfold Spec.act in HD. destruct (tr_empty t).
  - subst v. exact HD.
  - exact (proj1 (Img_den s (inv t)) _ _ He p b HD).
Qed.

Lemma Inv_init : forall s, fresh_ok s -> s_cache s = [] -> Inv s.
Proof. intros s Hf Hc. split; [exact Hf|]. intros k t v Hin. rewrite Hc in Hin. destruct Hin. Qed.


(* ---- pot_fill ---------------------------------------------------------------------------------- *)
Notation LocB := (LocB T surf P tr_empty inv sense).
Notation Paths := (Paths T surf).
Notation PathsL := (PathsL T surf).
Notation fill_one := (fill_one T surf tr_empty teqb tr_surf).
Notation pot_fill := (pot_fill T surf tr_empty teqb tr_surf).

Lemma LocB_head : forall s du key p ch b, LocB s du key p ch b -> exists r, ch = key :: r.
Proof. intros s du key p ch b H. destruct H; eauto. Qed.

Lemma last_cons_ne : forall (k : Z) ch, ch <> [] -> last (k :: ch) 0 = last ch 0.
Proof. intros k [|a r] H; [contradiction | reflexivity]. Qed.

Lemma prov_cons_ne : forall (k : Z) ch, ch <> [] -> prov (k :: ch) = prov ch ++ [(last ch 0, k)].
Proof. intros k [|a r] H; [contradiction | reflexivity]. Qed.

Section Fill.
Variable s0 : state.                    (* the table when FILL development starts *)
Variable du : list (Z * list Z).
Variable cf : nat.
Variables ifd ifg : bool.
(* original cells carry no provenance yet *)
Hypothesis orig_empty : forall c cl, dget c (s_cells s0) = Some cl -> c_orig cl = [].
(* the universe lists name existing cells *)
Hypothesis du_closed : forall u c, In c (du_get u du) -> exists cl, dget c (s_cells s0) = Some cl.

(* what pot_fill promises about the cell [k] it returns for the descent [ch] below [key] *)
Definition GenOK (s : state) (key k : Z) (ch : list Z) : Prop :=
  exists ncl lcl kcl r,
    ch = key :: r /\
    dget k (s_cells s) = Some ncl /\
    dget (last ch 0) (s_cells s0) = Some lcl /\
    dget key (s_cells s0) = Some kcl /\
    c_fill ncl = None /\
    c_orig ncl = prov ch /\
    head_or (c_orig ncl) k = last ch 0 /\
    c_mat ncl = c_mat lcl /\ c_rho ncl = c_rho lcl /\
    c_imp ncl = c_imp kcl /\ c_univ ncl = c_univ kcl /\
    ((r = [] /\ k = key) \/
     (r <> [] /\ exists lft rgt, c_geom ncl = TNode true [lft; rgt] /\
                  (lft = TRef key \/ lft = c_geom kcl))) /\
    (forall p b, LocB s0 du key p ch b -> Den s p (TRef k) b).

Lemma GenOK_mono : forall s s' key k ch, extends s s' -> GenOK s key k ch -> GenOK s' key k ch.
Proof.
  intros s s' key k ch Hx (ncl & lcl & kcl & r & H1 & H2 & H3 & H4 & H5 & H6 & H7 & H8 & H9 & H10 & H11 & H12 & H13).
  exists ncl, lcl, kcl, r. repeat (split; [assumption|]).
  split; [apply (proj1 Hx); exact H2|]. repeat (split; [assumption|]).
  intros p b HL. apply (proj1 (Den_mono _ _ _ Hx)). apply H13. exact HL.
Qed.

Lemma head_or_app : forall (l : list (Z * Z)) x d d', l <> [] -> head_or (l ++ x) d = head_or l d'.
Proof. intros [|[a b] r] x d d' H; [contradiction | reflexivity]. Qed.

Lemma fill_one_spec : forall key cl u c e ch s k s',
  dget key (s_cells s0) = Some cl -> c_fill cl = Some u -> In c (du_get u du) ->
  extends s0 s -> Inv s -> GenOK s c e ch ->
  fill_one cf ifd ifg key cl e s = Ok (k, s') ->
  Inv s' /\ extends s s' /\ GenOK s' key k (key :: ch).
Proof.
  intros key cl u c e ch s k s' Hkey Hfill Hc Hx0 HI HG H.
  destruct HG as (ecl & lcl & ccl & r & Hch & Hecl & Hlcl & Hccl & Hefill & Heorig & Hehead & Hemat & Herho & _ & _ & _ & HeD).
  unfold Model.fill_one in H. rewrite Hecl in H.
  destruct (place_filler cf cl e (negb ifg) s) as [[nek s1]|] eqn:Epf; [|discriminate].
  destruct (place_filler_den _ _ _ _ _ _ _ HI Epf) as (HI1 & Hx1 & HD1).
  set (rgtr := if ifg then match dget nek (s_cells s1) with
                            | Some ncl => Ok (c_geom ncl) | None => Err EKey end
               else Ok (TRef nek)) in H.
  destruct rgtr as [rgt|] eqn:Ergt; [|discriminate].
  set (lft := if ifd then c_geom cl else TRef key) in *.
  set (orig := c_orig ecl ++ [(head_or (c_orig ecl) e, head_or (c_orig cl) key)]) in *.
  set (ncell := mkCell (c_mat ecl) (c_rho ecl) (TNode true [lft; rgt]) (c_imp cl) (c_univ cl)
                       None (c_filltr cl) (c_lat cl) (c_trcl cl) orig) in *.
  change (mkSt (dset (s_nck s1 + 1) ncell (s_cells s1)) (s_surfs s1) (s_nck s1 + 1) (s_nsk s1)
            (s_cache s1) (s_rcache s1)) with (add_cell s1 (s_nck s1 + 1) ncell) in H.
  inversion H; subst k s'; clear H.
  pose proof (add_cell_extends s1 ncell (proj1 HI1)) as Hx2.
  pose proof (add_cell_inv s1 ncell HI1) as HI2.
  set (s2 := add_cell s1 (s_nck s1 + 1) ncell) in *.
  assert (Hxs : extends s s2) by (eapply extends_trans; eauto).
  split; [exact HI2|]. split; [exact Hxs|].
  assert (Hne : ch <> []) by (rewrite Hch; discriminate).
  assert (Hoc : c_orig cl = []) by (eapply orig_empty; exact Hkey).
  exists ncell, lcl, cl, ch.
  split; [reflexivity|].
  split; [unfold s2; cbn [add_cell s_cells]; apply dget_dset_same|].
  split; [rewrite (last_cons_ne _ _ Hne); exact Hlcl|].
  split; [exact Hkey|].
  split; [reflexivity|].
  assert (Horig : orig = prov ch ++ [(last ch 0, key)]).
  { unfold orig. rewrite Heorig, Hoc. cbn [head_or]. rewrite <- Heorig, Hehead. reflexivity. }
  split; [cbn [ncell c_orig]; rewrite (prov_cons_ne _ _ Hne); exact Horig|].
  split.
  { cbn [ncell c_orig]. rewrite (last_cons_ne _ _ Hne), Horig.
    destruct (prov ch) as [|[a b] q] eqn:Ep; [reflexivity|].
    rewrite <- Hehead, Heorig. rewrite ?Ep. reflexivity. }
  split; [cbn [ncell c_mat]; exact Hemat|].
  split; [cbn [ncell c_rho]; exact Herho|].
  split; [reflexivity|]. split; [reflexivity|].
  split.
  { right. split; [exact Hne|]. exists lft, rgt. split; [reflexivity|].
    unfold lft. destruct ifd; auto. }
  intros p b HL.
  eapply DRef; [unfold s2; cbn [add_cell s_cells]; apply dget_dset_same|].
  cbn [ncell c_geom].
  (* only the FILL rule can have produced a descent longer than one cell *)
  inversion HL as [key' cl' p' b' Hk' Hf' HDk Ek Ep Echn Eb
                  |key' cl' u' p' c' chain b1 b2 Hk' Hf' Hc' HD1' HL' Ek Ep Echn Eb].
  { exfalso. apply Hne. symmetry. exact Echn. }
  subst key' p' chain b. rewrite Hkey in Hk'. inversion Hk'; subst cl'.
  destruct (LocB_head _ _ _ _ _ _ HL') as (r' & Hr'). rewrite Hr' in Hch. inversion Hch; subst c' r'.
  assert (Dl : Den s2 p lft b1).
  { assert (Dg : Den s2 p (c_geom cl) b1).
    { apply (proj1 (Den_mono s0 s2 p (extends_trans _ _ _ Hx0 Hxs))). exact HD1'. }
    unfold lft. destruct ifd; [exact Dg|].
    eapply DRef; [|exact Dg]. apply (proj1 Hxs). apply (proj1 Hx0). exact Hkey. }
  assert (Dr : Den s2 p rgt b2).
  { assert (Dn : Den s1 p (TRef nek) b2) by (apply HD1; apply HeD; exact HL').
    apply (proj1 (Den_mono _ _ _ Hx2)).
    unfold rgtr in Ergt. destruct ifg.
    - destruct (dget nek (s_cells s1)) as [ncl|] eqn:En; [|discriminate]. inversion Ergt; subst rgt.
      destruct (Den_ref_inv _ _ _ _ Dn) as (ncl' & Hn' & Dn'). rewrite En in Hn'.
      inversion Hn'; subst. exact Dn'.
    - inversion Ergt; subst rgt. exact Dn. }
  replace (b1 && b2) with (combine_op true [b1; b2]) by (cbn; rewrite andb_true_r; reflexivity).
  apply DNode. apply DCons; [exact Dl|]. apply DCons; [exact Dr|]. apply DNil.
Qed.


(* an element of to_process stands for a descent below some cell of the filling universe *)
Definition ElemOK (u : Z) (s : state) (e : Z) (ch : list Z) : Prop :=
  exists c, In c (du_get u du) /\ GenOK s c e ch.

Lemma fill_loop_spec : forall key cl u,
  dget key (s_cells s0) = Some cl -> c_fill cl = Some u ->
  forall es chl s ks s',
  Forall2 (ElemOK u s) es chl ->
  extends s0 s -> Inv s ->
  mapM_st (fill_one cf ifd ifg key cl) es s = Ok (ks, s') ->
  Inv s' /\ extends s s' /\ Forall2 (GenOK s' key) ks (map (cons key) chl).
Proof.
  intros key cl u Hkey Hfill es chl s ks s' HF. revert chl s ks s' HF.
  induction es as [|e es IH]; intros chl s ks s' HF Hx0 HI H.
  - inversion HF; subst. cbn in H. inversion H; subst.
    split; [exact HI|]. split; [apply extends_refl | constructor].
  - inversion HF as [|e' ch es' chl' HE HF']; subst. cbn [mapM_st] in H.
    destruct (fill_one cf ifd ifg key cl e s) as [[k s1]|] eqn:E1; [|discriminate].
    destruct (mapM_st (fill_one cf ifd ifg key cl) es s1) as [[ks' s2]|] eqn:E2; [|discriminate].
    inversion H; subst ks s'; clear H.
    destruct HE as (c & Hc & HG).
    destruct (fill_one_spec _ _ _ _ _ _ _ _ _ Hkey Hfill Hc Hx0 HI HG E1) as (HI1 & Hx1 & HG1).
    assert (HF1 : Forall2 (ElemOK u s1) es chl').
    { eapply Forall2_imp; [|exact HF']. intros a b (c0 & Hc0 & HG0).
      exists c0. split; [exact Hc0 | eapply GenOK_mono; eauto]. }
    destruct (IH _ _ _ _ HF1 (extends_trans _ _ _ Hx0 Hx1) HI1 E2) as (HI2 & Hx2 & HG2).
    split; [exact HI2|]. split; [eapply extends_trans; eauto|].
    cbn [map]. constructor; [eapply GenOK_mono; eauto | exact HG2].
Qed.

Lemma Forall2_concat : forall {A B} (R : A -> B -> Prop) ls ms,
  Forall2 (Forall2 R) ls ms -> Forall2 R (concat ls) (concat ms).
Proof.
  intros A B R ls ms H. induction H; cbn; [constructor|]. apply Forall2_app; assumption.
Qed.

(* pot_fill: one generated cell per descent, in the order of the universe lists *)
Lemma pot_fill_spec : forall fuel key s ks s',
  extends s0 s -> Inv s -> (exists cl, dget key (s_cells s0) = Some cl) ->
  pot_fill fuel cf du ifd ifg key s = Ok (ks, s') ->
  Inv s' /\ extends s s' /\ exists chs, Paths s0 du key chs /\ Forall2 (GenOK s' key) ks chs.
Proof.
  induction fuel as [|f IH]; intros key s ks s' Hx0 HI [cl Hkey] H; [discriminate|].
  cbn [Model.pot_fill] in H.
  rewrite (proj1 Hx0 _ _ Hkey) in H.
  destruct (c_fill cl) as [u|] eqn:Efill.
  - destruct (concatM_st (pot_fill f cf du ifd ifg) (du_get u du) s) as [[tp s1]|] eqn:E1;
      [|discriminate].
    set (R := fun (s : state) (c : Z) (es : list Z) =>
                exists chs, Paths s0 du c chs /\ Forall2 (GenOK s c) es chs).
    assert (Rmono : forall s s' a b, extends s s' -> R s a b -> R s' a b).
    { intros sa sb a b Hx (chs & HP & HF). exists chs. split; [exact HP|].
      eapply Forall2_imp; [|exact HF]. intros e ch HG. eapply GenOK_mono; eauto. }
    assert (Hstep : forall c, In c (du_get u du) -> forall sa b sb,
               (extends s0 sa /\ Inv sa) -> pot_fill f cf du ifd ifg c sa = Ok (b, sb) ->
               (extends s0 sb /\ Inv sb) /\ extends sa sb /\ R sb c b).
    { intros c Hin sa b sb [Hxa HIa] E.
      destruct (IH c sa b sb Hxa HIa (du_closed u c Hin) E) as (A & B & C).
      split; [split; [eapply extends_trans; eauto | exact A]|]. split; [exact B | exact C]. }
    destruct (concatM_st_spec (fun s => extends s0 s /\ Inv s) extends extends_refl extends_trans
                (pot_fill f cf du ifd ifg) R Rmono (du_get u du) Hstep
                _ _ _ (conj Hx0 HI) E1) as ((Hx01 & HI1) & Hx1 & ess & Htp & HR).
    unfold R in HR.
    (* split the per-cell results into descents and generated cells *)
    assert (Hsplit : exists chss, PathsL s0 du (du_get u du) chss /\
                       Forall2 (ElemOK u s1) (concat ess) (concat chss)).
    { assert (Hgen : forall l, (forall c, In c l -> In c (du_get u du)) ->
                forall ess0, Forall2 (fun c es => exists chs, Paths s0 du c chs /\
                                          Forall2 (GenOK s1 c) es chs) l ess0 ->
                exists chss, PathsL s0 du l chss /\ Forall2 (ElemOK u s1) (concat ess0) (concat chss)).
      { intros l Hl ess0 HF. induction HF as [|c es l' ess' (chs & HP & HG) HF' IHF].
        - exists []. split; [apply PLNil | constructor].
        - destruct (IHF (fun c0 Hin => Hl c0 (or_intror Hin))) as (chss & HPL & HE).
          exists (chs :: chss). split; [apply PLCons; assumption|]. cbn [concat].
          apply Forall2_app; [|exact HE].
          eapply Forall2_imp; [|exact HG]. intros a b HGab. exists c.
          split; [apply Hl; left; reflexivity | exact HGab]. }
      exact (Hgen _ (fun c Hin => Hin) _ HR). }
    destruct Hsplit as (chss & HPL & HE). subst tp.
    unfold Model.fill_loop in H.
    destruct (fill_loop_spec _ _ _ Hkey Efill _ _ _ _ _ HE Hx01 HI1 H)
      as (HI2 & Hx2 & HG2).
    split; [exact HI2|]. split; [eapply extends_trans; eauto|].
    exists (map (cons key) (concat chss)). split; [|exact HG2].
    eapply PFill; eauto.
  - inversion H; subst ks s'; clear H.
    split; [exact HI|]. split; [apply extends_refl|].
    exists [[key]]. split; [eapply PLeaf; eauto|].
    constructor; [|constructor].
    exists cl, cl, cl, []. split; [reflexivity|].
    split; [apply (proj1 Hx0); exact Hkey|].
    split; [exact Hkey|]. split; [exact Hkey|]. split; [exact Efill|].
    rewrite (orig_empty _ _ Hkey).
    split; [reflexivity|]. split; [reflexivity|].
    split; [reflexivity|]. split; [reflexivity|]. split; [reflexivity|]. split; [reflexivity|].
    split; [left; auto|].
    intros p b HL.
    inversion HL as [key' cl' p' b' Hk' Hf' HDk Ek Ep Echn Eb
                    |key' cl' u' p' c' chain b1 b2 Hk' Hf' Hc' HD1' HL' Ek Ep Echn Eb].
    + rewrite Hkey in Hk'. inversion Hk'; subst cl'.
      eapply DRef; [apply (proj1 Hx0); exact Hkey|].
      apply (proj1 (Den_mono _ _ _ Hx0)). exact HDk.
    + subst chain. destruct (LocB_head _ _ _ _ _ _ HL') as (r' & Hr'). discriminate Hr'.
Qed.


(* a generated cell lies inside its container *)
Lemma GenOK_inside : forall s key k ch, extends s0 s -> GenOK s key k ch ->
  forall p, Den s p (TRef k) true -> Den s p (TRef key) true.
Proof.
  intros s key k ch Hx (ncl & lcl & kcl & r & H1 & H2 & H3 & H4 & H5 & H6 & H7 & H8 & H9 & H10 & H11 & H12 & H13) p HD.
  destruct H12 as [[_ ->]|(_ & lft & rgt & Hg & Hl)]; [exact HD|].
  destruct (Den_ref_inv _ _ _ _ HD) as (ncl' & Hn & HDg). rewrite H2 in Hn. inversion Hn; subst ncl'.
  rewrite Hg in HDg. destruct (Den_node_inv _ _ _ _ _ HDg) as (bs & HDL & Hb).
  destruct (DenL_cons_inv _ _ _ _ _ HDL) as (b1 & bs1 & -> & HD1 & _).
  cbn in Hb. symmetry in Hb. apply andb_true_iff in Hb. destruct Hb as [-> _].
  destruct Hl as [->| ->]; [exact HD1|].
  eapply DRef; [apply (proj1 Hx); exact H4 | exact HD1].
Qed.

Notation fill_each := (fill_each T surf tr_empty teqb tr_surf).

(* the loop over the level-0 cells that have a FILL *)
Lemma fill_each_spec : forall fuel keys s rs s',
  extends s0 s -> Inv s -> (forall k, In k keys -> exists cl, dget k (s_cells s0) = Some cl) ->
  fill_each fuel cf du ifd ifg keys s = Ok (rs, s') ->
  Inv s' /\ extends s s' /\
  Forall2 (fun key ks => exists chs, Paths s0 du key chs /\ Forall2 (GenOK s' key) ks chs) keys rs.
Proof.
  intros fuel keys s rs s' Hx0 HI Hkeys H. unfold Model.fill_each in H.
  set (R := fun (s : state) (key : Z) (ks : list Z) =>
              exists chs, Paths s0 du key chs /\ Forall2 (GenOK s key) ks chs).
  assert (Rmono : forall s s' a b, extends s s' -> R s a b -> R s' a b).
  { intros sa sb a b Hx (chs & HP & HF). exists chs. split; [exact HP|].
    eapply Forall2_imp; [|exact HF]. intros e ch HG. eapply GenOK_mono; eauto. }
  assert (Hstep : forall c, In c keys -> forall sa b sb,
             (extends s0 sa /\ Inv sa) -> pot_fill fuel cf du ifd ifg c sa = Ok (b, sb) ->
             (extends s0 sb /\ Inv sb) /\ extends sa sb /\ R sb c b).
  { intros c Hin sa b sb [Hxa HIa] E.
    destruct (pot_fill_spec fuel c sa b sb Hxa HIa (Hkeys c Hin) E) as (A & B & C).
    split; [split; [eapply extends_trans; eauto | exact A]|]. split; [exact B | exact C]. }
  destruct (mapM_st_spec (fun s => extends s0 s /\ Inv s) extends extends_refl extends_trans
              (pot_fill fuel cf du ifd ifg) R Rmono keys Hstep _ _ _ (conj Hx0 HI) H)
    as ((_ & HI1) & Hx1 & HR).
  split; [exact HI1|]. split; [exact Hx1 | exact HR].
Qed.

End Fill.

(* ---- the enumeration of descents is complete, and a partition makes the located one unique ----- *)
Lemma PathsL_In : forall s du l chss, PathsL s du l chss ->
  forall c, In c l -> exists chs, Paths s du c chs /\ In chs chss.
Proof.
  intros s du l chss H. induction H as [|c0 cs chs chss HP HPL IH]; intros c Hin; [destruct Hin|].
  destruct Hin as [<-|Hin].
  - exists chs. split; [exact HP | left; reflexivity].
  - destruct (IH c Hin) as (chs' & A & B). exists chs'. split; [exact A | right; exact B].
Qed.

Lemma Paths_complete : forall s du key p ch b, LocB s du key p ch b ->
  forall chs, Paths s du key chs -> In ch chs.
Proof.
  intros s du key p ch b H. induction H as [key cl p b Hk Hf HD|key cl u p c chain b1 b2 Hk Hf Hc HD HL IH];
    intros chs HP.
  - inversion HP as [key' cl' Hk' Hf' Ek Ec|key' cl' u' chss Hk' Hf' HPL Ek Ec]; subst.
    + left. reflexivity.
    + rewrite Hk in Hk'. inversion Hk'; subst cl'. rewrite Hf in Hf'. discriminate.
  - inversion HP as [key' cl' Hk' Hf' Ek Ec|key' cl' u' chss Hk' Hf' HPL Ek Ec]; subst.
    + rewrite Hk in Hk'. inversion Hk'; subst cl'. rewrite Hf in Hf'. discriminate.
    + rewrite Hk in Hk'. inversion Hk'; subst cl'. rewrite Hf in Hf'. inversion Hf'; subst u'.
      destruct (PathsL_In _ _ _ _ HPL c Hc) as (chs_c & HPc & Hin).
      apply in_map. apply in_concat. exists chs_c. split; [exact Hin | apply IH; exact HPc].
Qed.

Lemma LocB_first : forall s du key p ch b, LocB s du key p ch b ->
  exists cl b1, dget key (s_cells s) = Some cl /\ Den s p (c_geom cl) b1 /\ (b1 = false -> b = false).
Proof.
  intros s du key p ch b H. destruct H as [key cl p b Hk Hf HD|key cl u p c chain b1 b2 Hk Hf Hc HD HL].
  - exists cl, b. auto.
  - exists cl, b1. split; [exact Hk|]. split; [exact HD|]. intros ->. reflexivity.
Qed.

(* in a deck whose universes are partitions, every descent other than the located one is false *)
Lemma LocB_unique : forall s du, universe_partition T surf P sense s du ->
  forall key p ch b, LocB s du key p ch b -> b = true ->
  forall ch' b', LocB s du key p ch' b' -> ch' <> ch -> b' = false.
Proof.
  intros s du Hpart key p ch b H.
  induction H as [key cl p b Hk Hf HD|key cl u p c chain b1 b2 Hk Hf Hc HD HL IH];
    intros Hb ch' b' H' Hne.
  - inversion H' as [key' cl' p' b0 Hk' Hf' HD' Ek Ep Ec Eb
                    |key' cl' u' p' c' chain' b1' b2' Hk' Hf' Hc' HD' HL' Ek Ep Ec Eb]; subst.
    + exfalso. apply Hne. reflexivity.
    + rewrite Hk in Hk'. inversion Hk'; subst cl'. rewrite Hf in Hf'. discriminate.
  - apply andb_true_iff in Hb. destruct Hb as [-> ->].
    inversion H' as [key' cl' p' b0 Hk' Hf' HD' Ek Ep Ec Eb
                    |key' cl' u' p' c' chain' b1' b2' Hk' Hf' Hc' HD' HL' Ek Ep Ec Eb]; subst.
    + rewrite Hk in Hk'. inversion Hk'; subst cl'. rewrite Hf in Hf'. discriminate.
    + rewrite Hk in Hk'. inversion Hk'; subst cl'. rewrite Hf in Hf'. inversion Hf'; subst u'.
      destruct (Z.eq_dec c' c) as [->|Hcc].
      * rewrite (IH eq_refl chain' b2' HL'); [apply andb_false_r|].
        intros ->. apply Hne. reflexivity.
      * destruct (LocB_first _ _ _ _ _ _ HL) as (clc & bc & Hclc & HDc & Hbc).
        destruct (LocB_first _ _ _ _ _ _ HL') as (clc' & bc' & Hclc' & HDc' & Hbc').
        assert (bc = true) by (destruct bc; [reflexivity | discriminate (Hbc eq_refl)]). subst bc.
        assert (HDf : Den s (frame cl p) (c_geom clc') false).
        { eapply (Hpart u (frame cl p) c c'); eauto. }
        rewrite (proj1 (Den_fun _ _) _ _ HDc' _ HDf) in Hbc'. rewrite (Hbc' eq_refl).
        apply andb_false_r.
Qed.

(* by_universe lists existing cells *)
Lemma dappend_In : forall (k : Z) (x : Z) d u c, In c (du_get u (dappend k x d)) ->
  In c (du_get u d) \/ c = x.
Proof.
  intros k x d u c. unfold dappend, du_get.
  destruct (dget k d) as [l|] eqn:E.
  - destruct (Z.eq_dec u k) as [->|Hne].
    + rewrite dget_dset_same, E. intros H. apply in_app_or in H. destruct H as [H|[H|[]]]; auto.
    + rewrite dget_dset_other by exact Hne. auto.
  - destruct (Z.eq_dec u k) as [->|Hne].
    + rewrite dget_dset_same, E. intros [H|[]]; auto.
    + rewrite dget_dset_other by exact Hne. auto.
Qed.

Lemma by_universe_closed : forall (cells : list (Z * cell)) u c,
  In c (du_get u (by_universe cells)) -> exists cl, dget c cells = Some cl.
Proof.
  intros cells u c. unfold by_universe.
  assert (G : forall l acc, In c (du_get u (fold_left
               (fun du0 (kc : Z * cell) => dappend (c_univ (snd kc)) (fst kc) du0) l acc)) ->
             In c (du_get u acc) \/ In c (map fst l)).
  { induction l as [|[k cl] r IH]; intros acc H; cbn in *; [left; exact H|].
    destruct (IH _ H) as [H1|H1]; [|right; right; exact H1].
    destruct (dappend_In _ _ _ _ _ H1) as [H2| ->]; [left; exact H2 | right; left; reflexivity]. }
  intros H. destruct (G _ _ H) as [H1|H1]; [destruct H1|].
  apply in_map_iff in H1. destruct H1 as ([k cl] & <- & Hin). cbn.
  destruct (dget k cells) as [cl'|] eqn:E; [eauto|].
  exfalso. exact (In_dget_some _ _ _ Hin E).
Qed.


Lemma fill_keys_closed : forall (cells : list (Z * cell)) k,
  In k (fill_keys cells) -> exists cl, dget k cells = Some cl.
Proof.
  intros cells k H. unfold fill_keys in H. apply in_map_iff in H.
  destruct H as ([k' cl] & <- & Hin). apply filter_In in Hin. destruct Hin as [Hin _]. cbn.
  destruct (dget k' cells) as [cl'|] eqn:E; [eauto|]. exfalso. exact (In_dget_some _ _ _ Hin E).
Qed.

Notation fill_phase := (fill_phase T surf tr_empty teqb tr_surf).

(* the whole "treat FILL" step of construct_volume_t4 *)
Theorem fill_phase_spec : forall fuel cf ifd ifg s rs s',
  fresh_ok s -> s_cache s = [] ->
  (forall c cl, dget c (s_cells s) = Some cl -> c_orig cl = []) ->
  fill_phase fuel cf ifd ifg s = Ok (rs, s') ->
  extends s s' /\ cache_coherent s' /\
  Forall2 (fun key ks => exists chs,
             Paths s (by_universe (s_cells s)) key chs /\
             Forall2 (GenOK s (by_universe (s_cells s)) s' key) ks chs)
          (fill_keys (s_cells s)) rs.
Proof.
  intros fuel cf ifd ifg s rs s' Hf Hc Ho H. unfold Model.fill_phase in H.
  destruct (fill_each_spec s (by_universe (s_cells s)) cf ifd ifg Ho
              (fun u c Hin => by_universe_closed _ u c Hin)
              fuel _ s rs s' (extends_refl s) (Inv_init s Hf Hc)
              (fill_keys_closed (s_cells s)) H) as (HI & Hx & HR).
  split; [exact Hx|]. split; [apply Inv_cache_coherent; exact HI | exact HR].
Qed.


Notation Represents := (Represents T surf P tr_empty inv sense).
Notation Verdict := (Verdict T surf P tr_empty inv sense).

Lemma GenOK_Represents : forall s0 du s key k ch, extends s0 s ->
  GenOK s0 du s key k ch -> Represents s0 du s key k ch.
Proof.
  intros s0 du s key k ch Hx HG. pose proof (GenOK_inside _ _ _ _ _ _ Hx HG) as Hin.
  destruct HG as (ncl & lcl & kcl & r & H1 & H2 & H3 & H4 & H5 & H6 & H7 & H8 & H9 & H10 & H11 & H12 & H13).
  exists ncl, lcl. repeat (split; [assumption|]). split.
  - intros p b HL. destruct (Den_ref_inv _ _ _ _ (H13 p b HL)) as (ncl' & Hn & HD).
    rewrite H2 in Hn. inversion Hn; subst. exact HD.
  - intros p HD. apply Hin. eapply DRef; eauto.
Qed.

Lemma GenOK_Verdict : forall s0 du s key p ch k ch',
  LocB s0 du key p ch true -> GenOK s0 du s key k ch' -> Verdict s0 du s key p ch k ch'.
Proof.
  intros s0 du s key p ch k ch' HL HG.
  destruct HG as (ncl & lcl & kcl & r & H1 & H2 & H3 & H4 & H5 & H6 & H7 & H8 & H9 & H10 & H11 & H12 & H13).
  split.
  - intros ->. apply H13. exact HL.
  - intros Hpart Hne b' HL'.
    rewrite (LocB_unique s0 du Hpart key p ch true HL eq_refl ch' b' HL' Hne) in HL'.
    apply H13. exact HL'.
Qed.

Notation Outcome := (Outcome T surf P tr_empty inv sense).

Lemma GenOK_Outcome : forall s0 du s key ks chs, extends s0 s ->
  Paths s0 du key chs -> Forall2 (GenOK s0 du s key) ks chs -> Outcome s0 du s key ks.
Proof.
  intros s0 du s key ks chs Hx HP HF. exists chs. split; [exact HP|]. split.
  - eapply Forall2_imp; [|exact HF]. intros k ch HG. apply GenOK_Represents; assumption.
  - intros p ch HL. split; [eapply Paths_complete; eauto|].
    eapply Forall2_imp; [|exact HF]. intros k ch' HG. apply GenOK_Verdict; assumption.
Qed.

(* one call of pot_fill on a table whose cache invariant holds *)
Theorem pot_fill_located : forall fuel cf du ifd ifg key s ks s',
  Inv s ->
  (forall c cl, dget c (s_cells s) = Some cl -> c_orig cl = []) ->
  (forall u c, In c (du_get u du) -> exists cl, dget c (s_cells s) = Some cl) ->
  (exists cl, dget key (s_cells s) = Some cl) ->
  pot_fill fuel cf du ifd ifg key s = Ok (ks, s') ->
  Inv s' /\ extends s s' /\ Outcome s du s' key ks.
Proof.
  intros fuel cf du ifd ifg key s ks s' HI Ho Hdu Hkey H.
  destruct (pot_fill_spec s du cf ifd ifg Ho Hdu fuel key s ks s' (extends_refl s) HI Hkey H)
    as (HI' & Hx & chs & HP & HF).
  split; [exact HI'|]. split; [exact Hx|]. eapply GenOK_Outcome; eauto.
Qed.

(* the "treat FILL" loop of construct_volume_t4, from a table with fresh counters and empty caches *)
Theorem fill_phase_located : forall fuel cf ifd ifg s rs s',
  fresh_ok s -> s_cache s = [] ->
  (forall c cl, dget c (s_cells s) = Some cl -> c_orig cl = []) ->
  fill_phase fuel cf ifd ifg s = Ok (rs, s') ->
  extends s s' /\ cache_coherent s' /\
  Forall2 (Outcome s (by_universe (s_cells s)) s') (fill_keys (s_cells s)) rs.
Proof.
  intros fuel cf ifd ifg s rs s' Hf Hc Ho H.
  destruct (fill_phase_spec fuel cf ifd ifg s rs s' Hf Hc Ho H) as (Hx & Hcc & HR).
  split; [exact Hx|]. split; [exact Hcc|].
  eapply Forall2_imp; [|exact HR]. intros key ks (chs & HP & HF). eapply GenOK_Outcome; eauto.
Qed.

(* the part of a universe outside its container produces nothing, at every level of a descent *)
Lemma Located_inside : forall s du key p ch, Located T surf P tr_empty inv sense s du key p ch ->
  exists cl, dget key (s_cells s) = Some cl /\ Den s p (c_geom cl) true.
Proof.
  intros s du key p ch HL. destruct (LocB_first _ _ _ _ _ _ HL) as (cl & b1 & Hk & HD & Hb).
  exists cl. split; [exact Hk|]. destruct b1; [exact HD | discriminate (Hb eq_refl)].
Qed.


(* ---- the descents are pairwise distinct when the universe lists have no repetition ------------ *)
Lemma NoDup_app_disj : forall {A} (l m : list A), NoDup l -> NoDup m ->
  (forall x, In x l -> In x m -> False) -> NoDup (l ++ m).
Proof.
  intros A l m Hl Hm Hd. induction Hl as [|a l Ha Hl IH]; cbn; [exact Hm|].
  constructor.
  - intros Hin. apply in_app_or in Hin. destruct Hin as [Hin|Hin]; [exact (Ha Hin)|].
    exact (Hd a (or_introl eq_refl) Hin).
  - apply IH. intros x Hx Hx'. exact (Hd x (or_intror Hx) Hx').
Qed.

Lemma NoDup_map_cons : forall {A} (a : A) (l : list (list A)), NoDup l -> NoDup (map (cons a) l).
Proof.
  intros A a l H. induction H as [|x l Hx Hl IH]; cbn; constructor; [|exact IH].
  intros Hin. apply in_map_iff in Hin. destruct Hin as (y & Hy & Hin). inversion Hy; subst.
  exact (Hx Hin).
Qed.

Lemma Paths_NoDup : forall s du, (forall u, NoDup (du_get u du)) ->
  (forall key chs, Paths s du key chs ->
     NoDup chs /\ forall ch, In ch chs -> exists r, ch = key :: r) /\
  (forall l chss, PathsL s du l chss -> NoDup l ->
     NoDup (concat chss) /\ forall ch, In ch (concat chss) -> exists c r, ch = c :: r /\ In c l).
Proof.
  intros s du Hdu.
  apply (Paths_PathsL_ind T surf s du
           (fun key chs _ => NoDup chs /\ forall ch, In ch chs -> exists r, ch = key :: r)
           (fun l chss _ => NoDup l ->
              NoDup (concat chss) /\
              forall ch, In ch (concat chss) -> exists c r, ch = c :: r /\ In c l)).
  - intros key cl Hk Hf. split.
    + constructor; [intros []|constructor].
    + intros ch [<-|[]]. exists []. reflexivity.
  - intros key cl u chss Hk Hf HPL IH. destruct (IH (Hdu u)) as [Hnd _]. split.
    + apply NoDup_map_cons. exact Hnd.
    + intros ch Hin. apply in_map_iff in Hin. destruct Hin as (r & <- & _). exists r. reflexivity.
  - intros _. split; [constructor | intros ch []].
  - intros c cs chs chss HP [IH1 IH1'] HPL IH2 Hnd. inversion Hnd as [|c' cs' Hc Hcs]; subst.
    destruct (IH2 Hcs) as [IH2a IH2b]. cbn [concat]. split.
    + apply NoDup_app_disj; [exact IH1 | exact IH2a|].
      intros ch H1 H2. destruct (IH1' ch H1) as (r & ->).
      destruct (IH2b _ H2) as (c0 & r0 & E & Hin). inversion E; subst. exact (Hc Hin).
    + intros ch Hin. apply in_app_or in Hin. destruct Hin as [Hin|Hin].
      * destruct (IH1' ch Hin) as (r & ->). exists c, r. split; [reflexivity | left; reflexivity].
      * destruct (IH2b ch Hin) as (c0 & r0 & E & Hin0). exists c0, r0. split; [exact E | right; exact Hin0].
Qed.

(* by_universe lists every key at most once when the table has no duplicate key (a Python dict) *)
Lemma by_universe_NoDup : forall (cells : list (Z * cell)) u,
  NoDup (map fst cells) -> NoDup (du_get u (by_universe cells)).
Proof.
  intros cells u. unfold by_universe.
  assert (G : forall l acc, NoDup (map fst l) -> NoDup (du_get u acc) ->
                (forall c, In c (du_get u acc) -> ~ In c (map fst l)) ->
                NoDup (du_get u (fold_left
                  (fun du0 (kc : Z * cell) => dappend (c_univ (snd kc)) (fst kc) du0) l acc))).
  { induction l as [|[k cl] r IH]; intros acc Hnd Hacc Hdis; cbn in *; [exact Hacc|].
    inversion Hnd as [|k' r' Hk Hr]; subst.
    assert (Hstep : forall c, In c (du_get u (dappend (c_univ cl) k acc)) -> In c (du_get u acc) \/ c = k).
    { intros c Hc. exact (dappend_In _ _ _ _ _ Hc). }
    apply IH; [exact Hr | |].
    - unfold dappend, du_get in *.
      destruct (dget (c_univ cl) acc) as [l0|] eqn:E.
      + destruct (Z.eq_dec u (c_univ cl)) as [->|Hne].
        * rewrite dget_dset_same. rewrite E in Hacc, Hdis.
          apply NoDup_app_disj; [exact Hacc | constructor; [intros []|constructor]|].
          intros x Hx [<-|[]]. exact (Hdis k Hx (or_introl eq_refl)).
        * rewrite dget_dset_other by exact Hne. exact Hacc.
      + destruct (Z.eq_dec u (c_univ cl)) as [->|Hne].
        * rewrite dget_dset_same. constructor; [intros []|constructor].
        * rewrite dget_dset_other by exact Hne. exact Hacc.
    - intros c Hc Hin. destruct (Hstep c Hc) as [Hc'| ->].
      + exact (Hdis c Hc' (or_intror Hin)).
      + exact (Hk Hin). }
  intros Hnd. apply G; [exact Hnd | constructor | intros c []].
Qed.


(* ---- CellInlining.inline_cells keeps every value --------------------------------------------- *)
Definition set_cells (s : state) (cells : list (Z * cell)) : state :=
  mkSt cells (s_surfs s) (s_nck s) (s_nsk s) (s_cache s) (s_rcache s).

Notation inline_worker := (inline_worker T).
Notation inline_loop := (inline_loop T).
Notation inline_cells := (inline_cells T).

(* what the worker does to one argument of a node *)
Definition argfun (f : nat) (cells : list (Z * cell)) (ti : list Z) (a : tree) : res tree :=
  match a with
  | TRef c =>
      if zmem c ti then
        match dget c cells with
        | None => Err EKey
        | Some cl => inline_worker f cells ti (c_geom cl)
        end
      else Ok a
  | TNode _ _ => inline_worker f cells ti a
  | _ => Ok a
  end.

Lemma inline_worker_node : forall f cells ti op args,
  inline_worker (S f) cells ti (TNode op args) =
  match mapM_res (argfun f cells ti) args with
  | Err x => Err x
  | Ok args' => Ok (TNode op args')
  end.
Proof. reflexivity. Qed.

Lemma inline_worker_leaf : forall f cells ti e e',
  (forall op args, e <> TNode op args) -> inline_worker f cells ti e = Ok e' -> e' = e.
Proof.
  intros f cells ti e e' Hn H. destruct f as [|f]; [discriminate|].
  destruct e; cbn in H; try (inversion H; reflexivity). exfalso. eapply Hn. reflexivity.
Qed.

(* one iteration of the in-place loop: the geometry of [k] is replaced by its inlined form *)
Lemma inline_step_den : forall (s : state) ti k cl F g',
  dget k (s_cells s) = Some cl ->
  inline_worker F (s_cells s) ti (c_geom cl) = Ok g' ->
  forall p,
  (forall e b, Den s p e b ->
     Den (set_cells s (dset k (with_geom cl g') (s_cells s))) p e b /\
     (forall f e', inline_worker f (s_cells s) ti e = Ok e' ->
        Den (set_cells s (dset k (with_geom cl g') (s_cells s))) p e' b) /\
     (forall f e', argfun f (s_cells s) ti e = Ok e' ->
        Den (set_cells s (dset k (with_geom cl g') (s_cells s))) p e' b)) /\
  (forall es bs, DenL s p es bs ->
     DenL (set_cells s (dset k (with_geom cl g') (s_cells s))) p es bs /\
     (forall f es', mapM_res (argfun f (s_cells s) ti) es = Ok es' ->
        DenL (set_cells s (dset k (with_geom cl g') (s_cells s))) p es' bs)).
Proof.
  intros s ti k cl F g' Hk Hg p.
  set (s' := set_cells s (dset k (with_geom cl g') (s_cells s))).
  apply (Den_DenL_ind T surf P sense s p
    (fun e b _ => Den s' p e b /\
       (forall f e', inline_worker f (s_cells s) ti e = Ok e' -> Den s' p e' b) /\
       (forall f e', argfun f (s_cells s) ti e = Ok e' -> Den s' p e' b))
    (fun es bs _ => DenL s' p es bs /\
       (forall f es', mapM_res (argfun f (s_cells s) ti) es = Ok es' -> DenL s' p es' bs))).
  - intros x o Ho.
    assert (D : Den s' p (TSurf x) (lit x (sense o p))) by (apply DSurf; exact Ho).
    split; [exact D|]. split.
    + intros f e' H. rewrite (inline_worker_leaf f _ ti (TSurf x) e' ltac:(intros; discriminate) H). exact D.
    + intros f e' H. cbn in H. inversion H; subst. exact D.
  - intros c cl0 b Hc _ (IH1 & IH2 & IH3).
    assert (D : Den s' p (TRef c) b).
    { destruct (Z.eq_dec c k) as [->|Hne].
      - rewrite Hk in Hc. inversion Hc; subst cl0.
        eapply DRef; [unfold s'; cbn [set_cells s_cells]; apply dget_dset_same|].
        cbn [with_geom c_geom]. exact (IH2 F g' Hg).
      - eapply DRef; [unfold s'; cbn [set_cells s_cells]; rewrite dget_dset_other by exact Hne; exact Hc|].
        exact IH1. }
    split; [exact D|]. split.
    + intros f e' H. rewrite (inline_worker_leaf f _ ti (TRef c) e' ltac:(intros; discriminate) H). exact D.
    + intros f e' H. cbn [argfun] in H. destruct (zmem c ti).
      * rewrite Hc in H. exact (IH2 f e' H).
      * inversion H; subst. exact D.
  - intros op args bs _ (IH1 & IH2).
    assert (W : forall f e', inline_worker f (s_cells s) ti (TNode op args) = Ok e' ->
                Den s' p e' (combine_op op bs)).
    { intros f e' H. destruct f as [|f]; [discriminate|]. rewrite inline_worker_node in H.
      destruct (mapM_res (argfun f (s_cells s) ti) args) as [args'|] eqn:E; [|discriminate].
      inversion H; subst. apply DNode. exact (IH2 f args' E). }
    split; [apply DNode; exact IH1|]. split; [exact W|].
    intros f e' H. cbn [argfun] in H. exact (W f e' H).
  - split; [apply DNil|]. intros f es' H. cbn in H. inversion H. apply DNil.
  - intros e b es bs _ (IHe1 & IHe2 & IHe3) _ (IHs1 & IHs2).
    split; [apply DCons; assumption|].
    intros f es' H. cbn [mapM_res] in H.
    destruct (argfun f (s_cells s) ti e) as [e'|] eqn:E1; [|discriminate].
    destruct (mapM_res (argfun f (s_cells s) ti) es) as [es1|] eqn:E2; [|discriminate].
    inversion H; subst. apply DCons; [exact (IHe3 f e' E1) | exact (IHs2 f es1 E2)].
Qed.

Lemma Den_same_tables : forall (s1 s2 : state) p e b,
  s_cells s1 = s_cells s2 -> s_surfs s1 = s_surfs s2 -> Den s1 p e b -> Den s2 p e b.
Proof.
  intros s1 s2 p e b Hc Hs. apply (proj1 (Den_mono s1 s2 p ltac:(split; [rewrite Hc | rewrite Hs]; auto))).
Qed.

Lemma inline_loop_den : forall fuel ti keys (s : state) cells',
  inline_loop fuel keys ti (s_cells s) = Ok cells' ->
  forall p e b, Den s p e b -> Den (set_cells s cells') p e b.
Proof.
  intros fuel ti keys. induction keys as [|k r IH]; intros s cells' H p e b HD; cbn in H.
  - inversion H; subst. eapply Den_same_tables; [| |exact HD]; reflexivity.
  - destruct (dget k (s_cells s)) as [cl|] eqn:Ek; [|discriminate].
    destruct (inline_worker fuel (s_cells s) ti (c_geom cl)) as [g'|] eqn:Eg; [|discriminate].
    pose proof (proj1 (proj1 (inline_step_den s ti k cl fuel g' Ek Eg p) e b HD)) as HD1.
    exact (IH (set_cells s (dset k (with_geom cl g') (s_cells s))) cells' H p e b HD1).
Qed.

(* inline_cells never changes the value of anything: every tree that had a value at a point
   has the same value there once the references have been replaced *)
Theorem inline_cells_den : forall fuel num den (s : state) cells',
  inline_cells fuel num den (s_cells s) = Ok cells' ->
  forall p e b, Den s p e b -> Den (set_cells s cells') p e b.
Proof.
  intros fuel num den s cells' H p e b HD. unfold Model.inline_cells in H.
  assert (Same : Ok (s_cells s) = Ok cells' -> Den (set_cells s cells') p e b).
  { intros E. inversion E; subst. eapply Den_same_tables; [| |exact HD]; reflexivity. }
  destruct (find_occurrences T (s_cells s)) as [occ|]; [|discriminate].
  destruct occ as [|o occ']; [exact (Same H)|].
  destruct (to_inline_set T (s_cells s) num den (o :: occ')) as [ti|]; [|discriminate].
  destruct ti as [|t0 ti']; [exact (Same H)|].
  exact (inline_loop_den fuel (t0 :: ti') _ s cells' H p e b HD).
Qed.

(* ... and only geometries change *)
Lemma inline_loop_fields : forall fuel ti keys (cells cells' : list (Z * cell)),
  inline_loop fuel keys ti cells = Ok cells' ->
  forall k cl, dget k cells = Some cl -> exists g, dget k cells' = Some (with_geom cl g).
Proof.
  intros fuel ti keys. induction keys as [|k0 r IH]; intros cells cells' H k cl Hk; cbn in H.
  - inversion H; subst. exists (c_geom cl). destruct cl; exact Hk.
  - destruct (dget k0 cells) as [cl0|] eqn:Ek; [|discriminate].
    destruct (inline_worker fuel cells ti (c_geom cl0)) as [g'|] eqn:Eg; [|discriminate].
    destruct (Z.eq_dec k k0) as [->|Hne].
    + rewrite Ek in Hk. inversion Hk; subst cl0.
      destruct (IH _ _ H k0 (with_geom cl g') (dget_dset_same _ _ _)) as (g & Hg).
      exists g. exact Hg.
    + apply (IH _ _ H k cl). rewrite dget_dset_other by exact Hne. exact Hk.
Qed.


(* ---- ... and conversely: nothing gains a value or changes it ---------------------------------- *)
Lemma inline_worker_inv : forall f cells ti e e',
  inline_worker f cells ti e = Ok e' ->
  ((forall op args, e <> TNode op args) /\ e' = e) \/
  (exists f' op args args', f = S f' /\ e = TNode op args /\ e' = TNode op args' /\
                            mapM_res (argfun f' cells ti) args = Ok args').
Proof.
  intros f cells ti e e' H. destruct f as [|f]; [discriminate|].
  destruct e as [x|c|c|op args].
  - left. split; [intros; discriminate | cbn in H; inversion H; reflexivity].
  - left. split; [intros; discriminate | cbn in H; inversion H; reflexivity].
  - left. split; [intros; discriminate | cbn in H; inversion H; reflexivity].
  - right. rewrite inline_worker_node in H.
    destruct (mapM_res (argfun f cells ti) args) as [args'|] eqn:E; [|discriminate].
    inversion H; subst. exists f, op, args, args'. auto.
Qed.

(* [e'] comes from [e]: unchanged, by the worker, or as an argument of a node *)
Definition InlRel (cells : list (Z * cell)) (ti : list Z) (e e' : tree) : Prop :=
  e = e' \/ (exists f, inline_worker f cells ti e = Ok e') \/ (exists f, argfun f cells ti e = Ok e').

Lemma InlRel_elim : forall (s : state) ti p e' b,
  Den s p e' b ->
  (forall f e, inline_worker f (s_cells s) ti e = Ok e' -> Den s p e b) ->
  forall e, InlRel (s_cells s) ti e e' -> Den s p e b.
Proof.
  intros s ti p e' b D W e [->|[[f H]|[f H]]]; [exact D | exact (W f e H)|].
  destruct e as [x|c|c|op args]; cbn [argfun] in H.
  - inversion H; subst. exact D.
  - destruct (zmem c ti).
    + destruct (dget c (s_cells s)) as [cl0|] eqn:Ec; [|discriminate].
      eapply DRef; [exact Ec | exact (W f _ H)].
    + inversion H; subst. exact D.
  - inversion H; subst. exact D.
  - exact (W f _ H).
Qed.

Lemma inline_leaf_W : forall (s : state) ti p e' b,
  (forall op args, e' <> TNode op args) -> Den s p e' b ->
  forall f e, inline_worker f (s_cells s) ti e = Ok e' -> Den s p e b.
Proof.
  intros s ti p e' b Hl D f e H.
  destruct (inline_worker_inv _ _ _ _ _ H) as [[_ ->]|(f' & op & args & args' & _ & _ & -> & _)];
    [exact D | exfalso; eapply Hl; reflexivity].
Qed.

Lemma inline_step_den_conv : forall (s : state) ti k cl F g',
  dget k (s_cells s) = Some cl ->
  inline_worker F (s_cells s) ti (c_geom cl) = Ok g' ->
  forall p,
  (forall e' b, Den (set_cells s (dset k (with_geom cl g') (s_cells s))) p e' b ->
     forall e, InlRel (s_cells s) ti e e' -> Den s p e b) /\
  (forall es' bs, DenL (set_cells s (dset k (with_geom cl g') (s_cells s))) p es' bs ->
     forall es, (es = es' \/ exists f, mapM_res (argfun f (s_cells s) ti) es = Ok es') ->
     DenL s p es bs).
Proof.
  intros s ti k cl F g' Hk Hg p.
  set (s' := set_cells s (dset k (with_geom cl g') (s_cells s))).
  apply (Den_DenL_ind T surf P sense s' p
    (fun e' b _ => forall e, InlRel (s_cells s) ti e e' -> Den s p e b)
    (fun es' bs _ => forall es,
       (es = es' \/ exists f, mapM_res (argfun f (s_cells s) ti) es = Ok es') -> DenL s p es bs)).
  - intros x o Ho.
    assert (D : Den s p (TSurf x) (lit x (sense o p))) by (apply DSurf; exact Ho).
    apply InlRel_elim; [exact D|]. apply inline_leaf_W; [intros; discriminate | exact D].
  - intros c cl0 b Hc _ IH.
    assert (D : Den s p (TRef c) b).
    { unfold s' in Hc. cbn [set_cells s_cells] in Hc. destruct (Z.eq_dec c k) as [->|Hne].
      - rewrite dget_dset_same in Hc. inversion Hc; subst cl0. cbn [with_geom c_geom] in IH.
        eapply DRef; [exact Hk|]. apply IH. right. left. exists F. exact Hg.
      - rewrite dget_dset_other in Hc by exact Hne.
        eapply DRef; [exact Hc|]. apply IH. left. reflexivity. }
    apply InlRel_elim; [exact D|]. apply inline_leaf_W; [intros; discriminate | exact D].
  - intros op args' bs _ IH.
    assert (D : Den s p (TNode op args') (combine_op op bs)).
    { apply DNode. apply IH. left. reflexivity. }
    apply InlRel_elim; [exact D|].
    intros f e H.
    destruct (inline_worker_inv _ _ _ _ _ H) as [[_ E]|(f' & op0 & args & args0 & _ & -> & E & Hm)].
    + subst e. exact D.
    + inversion E; subst op0 args0. apply DNode. apply IH. right. exists f'. exact Hm.
  - intros es [->|[f H]]; [apply DNil|].
    destruct es as [|a r]; [apply DNil|]. cbn in H.
    destruct (argfun f (s_cells s) ti a); [|discriminate].
    destruct (mapM_res (argfun f (s_cells s) ti) r); discriminate.
  - intros e' b es' bs _ IHe _ IHs es [->|[f H]].
    + apply DCons; [apply IHe; left; reflexivity | apply IHs; left; reflexivity].
    + destruct es as [|a r]; [discriminate|]. cbn [mapM_res] in H.
      destruct (argfun f (s_cells s) ti a) as [a'|] eqn:E1; [|discriminate].
      destruct (mapM_res (argfun f (s_cells s) ti) r) as [r'|] eqn:E2; [|discriminate].
      inversion H; subst a' r'. apply DCons.
      * apply IHe. right. right. exists f. exact E1.
      * apply IHs. right. exists f. exact E2.
Qed.

Lemma inline_loop_den_conv : forall fuel ti keys (s : state) cells',
  inline_loop fuel keys ti (s_cells s) = Ok cells' ->
  forall p e b, Den (set_cells s cells') p e b -> Den s p e b.
Proof.
  intros fuel ti keys. induction keys as [|k r IH]; intros s cells' H p e b HD; cbn in H.
  - inversion H; subst. eapply Den_same_tables; [| |exact HD]; reflexivity.
  - destruct (dget k (s_cells s)) as [cl|] eqn:Ek; [|discriminate].
    destruct (inline_worker fuel (s_cells s) ti (c_geom cl)) as [g'|] eqn:Eg; [|discriminate].
    pose proof (IH (set_cells s (dset k (with_geom cl g') (s_cells s))) cells' H p e b HD) as HD1.
    exact (proj1 (inline_step_den_conv s ti k cl fuel g' Ek Eg p) e b HD1 e (or_introl eq_refl)).
Qed.

Theorem inline_cells_den_conv : forall fuel num den (s : state) cells',
  inline_cells fuel num den (s_cells s) = Ok cells' ->
  forall p e b, Den (set_cells s cells') p e b -> Den s p e b.
Proof.
  intros fuel num den s cells' H p e b HD. unfold Model.inline_cells in H.
  assert (Same : Ok (s_cells s) = Ok cells' -> Den s p e b).
  { intros E. inversion E; subst. eapply Den_same_tables; [| |exact HD]; reflexivity. }
  destruct (find_occurrences T (s_cells s)) as [occ|]; [|discriminate].
  destruct occ as [|o occ']; [exact (Same H)|].
  destruct (to_inline_set T (s_cells s) num den (o :: occ')) as [ti|]; [|discriminate].
  destruct ti as [|t0 ti']; [exact (Same H)|].
  exact (inline_loop_den_conv fuel (t0 :: ti') _ s cells' H p e b HD).
Qed.

(* ---- the "treat TRCL" loop: geometries are overwritten in place ------------------------------- *)
(* before FILL is developed the trees contain no CellRef *)
Fixpoint ref_free (e : tree) : bool :=
  match e with
  | TRef _ => false
  | TNode _ args => forallb ref_free args
  | _ => true
  end.

Definition surf_extends (s s' : state) : Prop :=
  forall k v, dget k (s_surfs s) = Some v -> dget k (s_surfs s') = Some v.

Lemma Den_ref_free_surfs : forall s s' p, surf_extends s s' ->
  (forall e b, Den s p e b -> ref_free e = true -> Den s' p e b) /\
  (forall es bs, DenL s p es bs -> forallb ref_free es = true -> DenL s' p es bs).
Proof.
  intros s s' p Hs.
  apply (Den_DenL_ind T surf P sense s p
           (fun e b _ => ref_free e = true -> Den s' p e b)
           (fun es bs _ => forallb ref_free es = true -> DenL s' p es bs)).
  - intros x o H _. apply DSurf. apply Hs. exact H.
  - intros c cl b _ _ _ H. discriminate H.
  - intros op args bs _ IH H. apply DNode. apply IH. exact H.
  - intros _. apply DNil.
  - intros e b es bs _ IH1 _ IH2 H. cbn in H. apply andb_true_iff in H. destruct H as [H1 H2].
    apply DCons; auto.
Qed.

Definition same_cells (s s' : state) : Prop :=
  s_cells s' = s_cells s /\ s_cache s' = s_cache s /\ s_nck s' = s_nck s.

Lemma ptg_ref_free : forall ct t e (s : state) e' s',
  ref_free e = true -> pot_transform_gen ct t e s = Ok (e', s') ->
  same_cells s s' /\ ref_free e' = true.
Proof.
  intros ct t e. induction e as [x|c|c|op args IH] using tree_ind'; intros s e' s' Hr H.
  - cbn in H. destruct (dget (Z.abs x) (s_surfs s)); [|discriminate]. inversion H; subst.
    split; [repeat split | reflexivity].
  - discriminate Hr.
  - cbn in H. inversion H; subst. split; [repeat split | reflexivity].
  - cbn in H. cbn in Hr.
    destruct (mapM_st (pot_transform_gen ct t) args s) as [[args' s1]|] eqn:E; [|discriminate].
    inversion H; subst e' s'; clear H.
    assert (G : forall l, (forall a, In a l -> In a args) -> forall s0 l' s0',
              forallb ref_free l = true -> mapM_st (pot_transform_gen ct t) l s0 = Ok (l', s0') ->
              same_cells s0 s0' /\ forallb ref_free l' = true).
    { induction l as [|a r IHl]; intros Hl s0 l' s0' Hrf Hm; cbn in Hm.
      - inversion Hm; subst. split; [repeat split | reflexivity].
      - cbn in Hrf. apply andb_true_iff in Hrf. destruct Hrf as [Ha Hrr].
        destruct (pot_transform_gen ct t a s0) as [[b sa]|] eqn:Ea; [|discriminate].
        destruct (mapM_st (pot_transform_gen ct t) r sa) as [[bs sb]|] eqn:Eb; [|discriminate].
        inversion Hm; subst.
        destruct (IH a (Hl a (or_introl eq_refl)) _ _ _ Ha Ea) as ((A1 & A2 & A3) & A4).
        destruct (IHl (fun x Hx => Hl x (or_intror Hx)) _ _ _ Hrr Eb) as ((B1 & B2 & B3) & B4).
        split; [repeat split; congruence|]. cbn. rewrite A4, B4. reflexivity. }
    destruct (G args (fun a Ha => Ha) _ _ _ Hr E) as (A & B). split; [exact A | exact B].
Qed.

Lemma apply_trcl_ref_free : forall fuel ts e (s : state) e' s',
  ref_free e = true -> apply_trcl fuel ts e s = Ok (e', s') ->
  same_cells s s' /\ ref_free e' = true.
Proof.
  intros fuel ts. induction ts as [|t r IH]; intros e s e' s' Hr H; cbn in H.
  - inversion H; subst. split; [repeat split | exact Hr].
  - destruct (pot_transform fuel t e s) as [[g1 s1]|] eqn:E1; [|discriminate].
    assert (A : same_cells s s1 /\ ref_free g1 = true).
    { unfold Model.pot_transform in E1. destruct (tr_empty t).
      - inversion E1; subst. split; [repeat split | exact Hr].
      - exact (ptg_ref_free _ _ _ _ _ _ Hr E1). }
    destruct A as ((A1 & A2 & A3) & A4).
    destruct (IH _ _ _ _ A4 H) as ((B1 & B2 & B3) & B4).
    split; [repeat split; congruence | exact B4].
Qed.

Notation trcl_phase := (trcl_phase T surf tr_empty teqb tr_surf).

Definition all_ref_free (s : state) : Prop :=
  forall k cl, dget k (s_cells s) = Some cl -> ref_free (c_geom cl) = true.

Theorem trcl_phase_den : forall fuel keys (s s' : state),
  fresh_ok s -> s_cache s = [] -> NoDup keys -> all_ref_free s ->
  trcl_phase fuel keys s = Ok s' ->
  fresh_ok s' /\ s_cache s' = [] /\ surf_extends s s' /\ all_ref_free s' /\
  (forall k cl, In k keys -> dget k (s_cells s) = Some cl ->
     exists g', dget k (s_cells s') = Some (with_geom cl g') /\
       forall p b, Den s (act_seq (c_trcl cl) p) (c_geom cl) b -> Den s' p g' b) /\
  (forall k, ~ In k keys -> dget k (s_cells s') = dget k (s_cells s)).
Proof.
  intros fuel keys. induction keys as [|k r IH]; intros s s' Hf Hc Hnd Hrf H; cbn in H.
  - inversion H; subst s'. split; [exact Hf|]. split; [exact Hc|].
    split; [intros k0 v Hk; exact Hk|]. split; [exact Hrf|]. split; [intros k cl []|].
    intros k _. reflexivity.
  - destruct (dget k (s_cells s)) as [cl|] eqn:Ek; [|discriminate].
    destruct (apply_trcl fuel (c_trcl cl) (c_geom cl) s) as [[g' s1]|] eqn:Ea; [|discriminate].
    inversion Hnd as [|k' r' Hkr Hr]; subst.
    destruct (apply_trcl_den _ _ _ _ _ _ (Inv_init s Hf Hc) Ea) as (HI1 & Hx1 & HD1).
    destruct (apply_trcl_ref_free _ _ _ _ _ _ (Hrf k cl Ek) Ea) as ((C1 & C2 & C3) & C4).
    set (s2 := mkSt (dset k (with_geom cl g') (s_cells s1)) (s_surfs s1) (s_nck s1) (s_nsk s1)
                    (s_cache s1) (s_rcache s1)) in H.
    assert (Hk_le : k <= s_nck s).
    { destruct (Z_lt_le_dec (s_nck s) k) as [Hlt|Hle]; [|exact Hle].
      rewrite (proj1 Hf k Hlt) in Ek. discriminate. }
    assert (Hf2 : fresh_ok s2).
    { destruct HI1 as [[F1 F2] _]. split; unfold s2; cbn.
      - intros k0 Hk0. rewrite dget_dset_other by lia. apply F1. exact Hk0.
      - exact F2. }
    assert (Hc2 : s_cache s2 = []) by (unfold s2; cbn; rewrite C2; exact Hc).
    assert (Hrf2 : all_ref_free s2).
    { intros k0 cl0 Hk0. unfold s2 in Hk0. cbn in Hk0. destruct (Z.eq_dec k0 k) as [->|Hne].
      - rewrite dget_dset_same in Hk0. inversion Hk0; subst. exact C4.
      - rewrite dget_dset_other in Hk0 by exact Hne. rewrite C1 in Hk0. exact (Hrf _ _ Hk0). }
    assert (Hs12 : surf_extends s s2) by (intros k0 v Hk0; unfold s2; cbn; apply (proj2 Hx1); exact Hk0).
    destruct (IH s2 s' Hf2 Hc2 Hr Hrf2 H) as (Hf' & Hc' & Hs' & Hrf' & Hin' & Hout').
    split; [exact Hf'|]. split; [exact Hc'|].
    split; [intros k0 v Hk0; apply Hs'; apply Hs12; exact Hk0|]. split; [exact Hrf'|]. split.
    + intros k0 cl0 [<-|Hin0] Hk0.
      * rewrite Ek in Hk0. inversion Hk0; subst cl0. exists g'. split.
        { rewrite (Hout' k Hkr). unfold s2. cbn. apply dget_dset_same. }
        intros p b HD. apply (proj1 (Den_ref_free_surfs s1 s' p
                                      (fun k1 v Hk1 => Hs' k1 v Hk1))); [|exact C4].
        apply HD1. exact HD.
      * assert (Hne : k0 <> k) by (intros ->; exact (Hkr Hin0)).
        assert (Hk2 : dget k0 (s_cells s2) = Some cl0).
        { unfold s2. cbn. rewrite dget_dset_other by exact Hne. rewrite C1. exact Hk0. }
        destruct (Hin' k0 cl0 Hin0 Hk2) as (g0 & Hg0 & HD0). exists g0. split; [exact Hg0|].
        intros p b HD. apply HD0.
        apply (proj1 (Den_ref_free_surfs s s2 _ Hs12)); [exact HD | exact (Hrf _ _ Hk0)].
    + intros k0 Hnin. rewrite (Hout' k0 (fun Hin0 => Hnin (or_intror Hin0))).
      unfold s2. cbn. rewrite dget_dset_other by (intros ->; apply Hnin; left; reflexivity).
      rewrite C1. reflexivity.
Qed.


(* ---- the whole chain: TRCL loop, FILL development, inlining ------------------------------------ *)
Notation LocW := (LocW T surf P tr_empty inv sense).
Notation RepresentsW := (RepresentsW T surf P tr_empty inv sense).
Notation VerdictW := (VerdictW T surf P tr_empty inv sense).
Notation OutcomeW := (OutcomeW T surf P tr_empty inv sense).

(* [s1] is [s0] with every cell moved by its TRCLs and nothing else changed *)
Definition Moved (s0 s1 : state) : Prop :=
  (forall k cl, dget k (s_cells s0) = Some cl ->
     exists g', dget k (s_cells s1) = Some (with_geom cl g') /\
       forall p b, Den s0 (act_seq (c_trcl cl) p) (c_geom cl) b -> Den s1 p g' b) /\
  (forall k cl1, dget k (s_cells s1) = Some cl1 -> exists cl, dget k (s_cells s0) = Some cl).

Lemma Moved_back : forall s0 s1 k cl1, Moved s0 s1 -> dget k (s_cells s1) = Some cl1 ->
  exists cl g', dget k (s_cells s0) = Some cl /\ cl1 = with_geom cl g'.
Proof.
  intros s0 s1 k cl1 [M1 M2] H. destruct (M2 _ _ H) as (cl & Hcl).
  destruct (M1 _ _ Hcl) as (g' & Hg & _). rewrite H in Hg. inversion Hg. eauto.
Qed.

Lemma LocW_LocB : forall s0 s1 du, Moved s0 s1 ->
  forall key p ch b, LocW s0 du key p ch b -> LocB s1 du key p ch b.
Proof.
  intros s0 s1 du HM key p ch b H.
  induction H as [key cl p b Hk Hf HD|key cl u p c chain b1 b2 Hk Hf Hc HD HL IH].
  - destruct (proj1 HM _ _ Hk) as (g' & Hg & HDg).
    eapply LBLeaf with (cl := with_geom cl g'); [exact Hg | exact Hf | apply HDg; exact HD].
  - destruct (proj1 HM _ _ Hk) as (g' & Hg & HDg).
    eapply LBFill with (cl := with_geom cl g') (u := u) (c := c);
      [exact Hg | exact Hf | exact Hc | apply HDg; exact HD | exact IH].
Qed.

Lemma Paths_back : forall s0 s1 du, Moved s0 s1 ->
  (forall key chs, Paths s1 du key chs -> Paths s0 du key chs) /\
  (forall l chss, PathsL s1 du l chss -> PathsL s0 du l chss).
Proof.
  intros s0 s1 du HM.
  apply (Paths_PathsL_ind T surf s1 du (fun key chs _ => Paths s0 du key chs)
           (fun l chss _ => PathsL s0 du l chss)).
  - intros key cl1 Hk Hf. destruct (Moved_back _ _ _ _ HM Hk) as (cl & g' & Hcl & ->).
    eapply PLeaf; [exact Hcl | exact Hf].
  - intros key cl1 u chss Hk Hf _ IH. destruct (Moved_back _ _ _ _ HM Hk) as (cl & g' & Hcl & ->).
    eapply PFill; [exact Hcl | exact Hf | exact IH].
  - apply PLNil.
  - intros c cs chs chss _ IH1 _ IH2. apply PLCons; assumption.
Qed.

Lemma LocW_first : forall s du key p ch b, LocW s du key p ch b ->
  exists cl b1, dget key (s_cells s) = Some cl /\
    Den s (act_seq (c_trcl cl) p) (c_geom cl) b1 /\ (b1 = false -> b = false).
Proof.
  intros s du key p ch b H. destruct H as [key cl p b Hk Hf HD|key cl u p c chain b1 b2 Hk Hf Hc HD HL].
  - exists cl, b. auto.
  - exists cl, b1. split; [exact Hk|]. split; [exact HD|]. intros ->. reflexivity.
Qed.

Lemma LocW_unique : forall s du, universe_partitionW T surf P tr_empty inv sense s du ->
  forall key p ch b, LocW s du key p ch b -> b = true ->
  forall ch' b', LocW s du key p ch' b' -> ch' <> ch -> b' = false.
Proof.
  intros s du Hpart key p ch b H.
  induction H as [key cl p b Hk Hf HD|key cl u p c chain b1 b2 Hk Hf Hc HD HL IH];
    intros Hb ch' b' H' Hne.
  - inversion H' as [key' cl' p' b0 Hk' Hf' HD' Ek Ep Ec Eb
                    |key' cl' u' p' c' chain' b1' b2' Hk' Hf' Hc' HD' HL' Ek Ep Ec Eb]; subst.
    + exfalso. apply Hne. reflexivity.
    + rewrite Hk in Hk'. inversion Hk'; subst cl'. rewrite Hf in Hf'. discriminate.
  - apply andb_true_iff in Hb. destruct Hb as [-> ->].
    inversion H' as [key' cl' p' b0 Hk' Hf' HD' Ek Ep Ec Eb
                    |key' cl' u' p' c' chain' b1' b2' Hk' Hf' Hc' HD' HL' Ek Ep Ec Eb]; subst.
    + rewrite Hk in Hk'. inversion Hk'; subst cl'. rewrite Hf in Hf'. discriminate.
    + rewrite Hk in Hk'. inversion Hk'; subst cl'. rewrite Hf in Hf'. inversion Hf'; subst u'.
      destruct (Z.eq_dec c' c) as [->|Hcc].
      * rewrite (IH eq_refl chain' b2' HL'); [apply andb_false_r|].
        intros ->. apply Hne. reflexivity.
      * destruct (LocW_first _ _ _ _ _ _ HL) as (clc & bc & Hclc & HDc & Hbc).
        destruct (LocW_first _ _ _ _ _ _ HL') as (clc' & bc' & Hclc' & HDc' & Hbc').
        assert (bc = true) by (destruct bc; [reflexivity | discriminate (Hbc eq_refl)]). subst bc.
        assert (HDf : Den s (act_seq (c_trcl clc') (frame cl p)) (c_geom clc') false).
        { eapply (Hpart u (frame cl p) c c'); eauto. }
        rewrite (proj1 (Den_fun _ _) _ _ HDc' _ HDf) in Hbc'. rewrite (Hbc' eq_refl).
        apply andb_false_r.
Qed.

(* by_universe and fill_keys only read the key, the universe and the FILL of each cell *)
Definition sk (kc : Z * cell) : Z * Z * option Z := (fst kc, c_univ (snd kc), c_fill (snd kc)).

Lemma by_universe_sk : forall (c1 c2 : list (Z * cell)), map sk c1 = map sk c2 ->
  by_universe c1 = by_universe c2.
Proof.
  intros c1 c2. unfold by_universe. generalize (@nil (Z * list Z)).
  revert c2. induction c1 as [|[k a] r IH]; intros [|[k' a'] r'] acc H; try discriminate; [reflexivity|].
  cbn in H. inversion H; subst. cbn. rewrite H2. apply IH. assumption.
Qed.

Lemma fill_keys_sk : forall (c1 c2 : list (Z * cell)), map sk c1 = map sk c2 ->
  fill_keys c1 = fill_keys c2.
Proof.
  intros c1. unfold fill_keys. induction c1 as [|[k a] r IH]; intros [|[k' a'] r'] H; try discriminate;
    [reflexivity|].
  cbn in H. inversion H; subst. cbn. rewrite H2, H3.
  destruct (is_some (c_fill a') && (c_univ a' =? 0)); cbn; rewrite (IH r' H4); reflexivity.
Qed.

Lemma dset_with_geom_sk : forall k (cl : cell) g cells, dget k cells = Some cl ->
  map sk (dset k (with_geom cl g) cells) = map sk cells.
Proof.
  intros k cl g cells. induction cells as [|[k' c'] r IH]; cbn; intros H; [discriminate|].
  destruct (k =? k') eqn:E.
  - apply Z.eqb_eq in E. subst k'. inversion H; subst. reflexivity.
  - cbn. rewrite (IH H). reflexivity.
Qed.

Lemma trcl_phase_sk : forall fuel keys (s s' : state),
  all_ref_free s -> trcl_phase fuel keys s = Ok s' ->
  map sk (s_cells s') = map sk (s_cells s).
Proof.
  intros fuel keys. induction keys as [|k r IH]; intros s s' Hrf H; cbn in H.
  - inversion H; reflexivity.
  - destruct (dget k (s_cells s)) as [cl|] eqn:Ek; [|discriminate].
    destruct (apply_trcl fuel (c_trcl cl) (c_geom cl) s) as [[g' s1]|] eqn:Ea; [|discriminate].
    destruct (apply_trcl_ref_free _ _ _ _ _ _ (Hrf k cl Ek) Ea) as ((C1 & C2 & C3) & C4).
    set (s2 := mkSt (dset k (with_geom cl g') (s_cells s1)) (s_surfs s1) (s_nck s1) (s_nsk s1)
                    (s_cache s1) (s_rcache s1)) in H.
    assert (Hrf2 : all_ref_free s2).
    { intros k0 cl0 Hk0. unfold s2 in Hk0. cbn [s_cells] in Hk0. destruct (Z.eq_dec k0 k) as [->|Hne].
      - rewrite dget_dset_same in Hk0. inversion Hk0; subst. exact C4.
      - rewrite dget_dset_other in Hk0 by exact Hne. rewrite C1 in Hk0. exact (Hrf _ _ Hk0). }
    rewrite (IH _ _ Hrf2 H). unfold s2. cbn [s_cells]. rewrite C1.
    apply dset_with_geom_sk. exact Ek.
Qed.

Lemma map_fst_sk : forall (c1 c2 : list (Z * cell)), map sk c1 = map sk c2 -> map fst c1 = map fst c2.
Proof.
  intros c1. induction c1 as [|[k a] r IH]; intros [|[k' a'] r'] H; try discriminate; [reflexivity|].
  cbn in H. inversion H; subst. cbn. rewrite (IH r' H4). reflexivity.
Qed.

Lemma dget_keys : forall {V} k (d : list (Z * V)),
  In k (map fst d) <-> exists v, dget k d = Some v.
Proof.
  intros V k d. induction d as [|[k' v'] r IH]; cbn.
  - split; [intros [] | intros [v H]; discriminate].
  - destruct (k =? k') eqn:E.
    + apply Z.eqb_eq in E. subst. split; eauto.
    + rewrite <- IH. split; [intros [H|H]; [subst; rewrite Z.eqb_refl in E; discriminate | exact H] | auto].
Qed.

Lemma trcl_phase_Moved : forall fuel (s0 s1 : state),
  fresh_ok s0 -> s_cache s0 = [] -> NoDup (map fst (s_cells s0)) -> all_ref_free s0 ->
  trcl_phase fuel (map fst (s_cells s0)) s0 = Ok s1 ->
  Moved s0 s1 /\ fresh_ok s1 /\ s_cache s1 = [] /\ map sk (s_cells s1) = map sk (s_cells s0).
Proof.
  intros fuel s0 s1 Hf Hc Hnd Hrf H.
  destruct (trcl_phase_den fuel _ s0 s1 Hf Hc Hnd Hrf H) as (Hf1 & Hc1 & _ & _ & Hin & _).
  pose proof (trcl_phase_sk _ _ _ _ Hrf H) as Hsk.
  split; [|auto]. split.
  - intros k cl Hk. apply Hin; [|exact Hk]. apply dget_keys. eauto.
  - intros k cl1 Hk. apply dget_keys. rewrite <- (map_fst_sk _ _ Hsk). apply dget_keys. eauto.
Qed.

Lemma inline_cells_fields : forall fuel num den (cells cells' : list (Z * cell)),
  inline_cells fuel num den cells = Ok cells' ->
  forall k cl, dget k cells = Some cl -> exists g, dget k cells' = Some (with_geom cl g).
Proof.
  intros fuel num den cells cells' H. unfold Model.inline_cells in H.
  assert (Same : Ok cells = Ok cells' ->
            forall k cl, dget k cells = Some cl -> exists g, dget k cells' = Some (with_geom cl g)).
  { intros E k cl Hk. inversion E; subst. exists (c_geom cl). destruct cl; exact Hk. }
  destruct (find_occurrences T cells) as [occ|]; [|discriminate].
  destruct occ as [|o occ']; [exact (Same H)|].
  destruct (to_inline_set T cells num den (o :: occ')) as [ti|]; [|discriminate].
  destruct ti as [|t0 ti']; [exact (Same H)|].
  exact (inline_loop_fields fuel (t0 :: ti') _ _ _ H).
Qed.

(* from what FILL development achieves on the moved table to the statement about the cards *)
Lemma Represents_W : forall s0 s1 du s2 fuel num den cells3 key k ch,
  Moved s0 s1 -> inline_cells fuel num den (s_cells s2) = Ok cells3 ->
  Represents s1 du s2 key k ch -> RepresentsW s0 du (set_cells s2 cells3) key k ch.
Proof.
  intros s0 s1 du s2 fuel num den cells3 key k ch HM Hinl
         (ncl & lcl1 & H1 & H2 & H3 & H4 & H5 & H6 & H7 & H8).
  destruct (inline_cells_fields _ _ _ _ _ Hinl k ncl H1) as (g & Hg).
  destruct (Moved_back _ _ _ _ HM H2) as (lcl & gl & Hl & ->).
  pose proof (inline_cells_den fuel num den s2 cells3 Hinl) as Fwd.
  pose proof (inline_cells_den_conv fuel num den s2 cells3 Hinl) as Bwd.
  exists (with_geom ncl g), lcl. split; [exact Hg|]. split; [exact Hl|].
  split; [exact H3|]. split; [exact H4|]. split; [exact H5|]. split; [exact H6|]. split.
  - intros p b HL. pose proof (H7 p b (LocW_LocB _ _ _ HM _ _ _ _ HL)) as D2.
    assert (D3 : Den (set_cells s2 cells3) p (TRef k) b) by (apply Fwd; eapply DRef; eauto).
    destruct (Den_ref_inv _ _ _ _ D3) as (c3 & Hc3 & D3g). cbn [set_cells s_cells] in Hc3.
    rewrite Hg in Hc3. inversion Hc3; subst c3. exact D3g.
  - intros p D3g. apply Fwd. apply H8.
    assert (D3 : Den (set_cells s2 cells3) p (TRef k) true).
    { eapply DRef; [cbn [set_cells s_cells]; exact Hg | exact D3g]. }
    destruct (Den_ref_inv _ _ _ _ (Bwd _ _ _ D3)) as (c2 & Hc2 & D2g).
    rewrite H1 in Hc2. inversion Hc2; subst c2. exact D2g.
Qed.

Lemma Represents_VerdictW : forall s0 du s3 key p ch k ch',
  LocW s0 du key p ch true -> RepresentsW s0 du s3 key k ch' -> VerdictW s0 du s3 key p ch k ch'.
Proof.
  intros s0 du s3 key p ch k ch' HL (ncl & lcl & H1 & _ & _ & _ & _ & _ & H7 & _). split.
  - intros ->. eapply DRef; [exact H1 | apply H7; exact HL].
  - intros Hpart Hne b' HL'.
    rewrite (LocW_unique s0 du Hpart key p ch true HL eq_refl ch' b' HL' Hne) in HL'.
    eapply DRef; [exact H1 | apply H7; exact HL'].
Qed.

Lemma LocW_complete : forall s0 s1 du, Moved s0 s1 ->
  forall key p ch b chs, LocW s0 du key p ch b -> Paths s1 du key chs -> In ch chs.
Proof.
  intros s0 s1 du HM key p ch b chs HL HP.
  exact (Paths_complete s1 du key p ch b (LocW_LocB _ _ _ HM _ _ _ _ HL) chs HP).
Qed.

Notation trcl_phase' := trcl_phase.

(* construct_volume_t4 from the parsed cell cards to the table that is converted: the TRCL loop
   over all cells, the FILL loop, inline_cells *)
Theorem pipeline_located : forall fuel cf ifd ifg num den (s0 s1 s2 : state) rs cells3,
  fresh_ok s0 -> s_cache s0 = [] -> NoDup (map fst (s_cells s0)) -> all_ref_free s0 ->
  (forall c cl, dget c (s_cells s0) = Some cl -> c_orig cl = []) ->
  trcl_phase fuel (map fst (s_cells s0)) s0 = Ok s1 ->
  fill_phase fuel cf ifd ifg s1 = Ok (rs, s2) ->
  inline_cells fuel num den (s_cells s2) = Ok cells3 ->
  Forall2 (OutcomeW s0 (by_universe (s_cells s0)) (set_cells s2 cells3)) (fill_keys (s_cells s0)) rs.
Proof.
  intros fuel cf ifd ifg num den s0 s1 s2 rs cells3 Hf Hc Hnd Hrf Ho Ht Hfill Hinl.
  destruct (trcl_phase_Moved fuel s0 s1 Hf Hc Hnd Hrf Ht) as (HM & Hf1 & Hc1 & Hsk).
  assert (Ho1 : forall c cl, dget c (s_cells s1) = Some cl -> c_orig cl = []).
  { intros c cl1 Hk. destruct (Moved_back _ _ _ _ HM Hk) as (cl & g' & Hcl & ->).
    cbn [with_geom c_orig]. exact (Ho _ _ Hcl). }
  destruct (fill_phase_located fuel cf ifd ifg s1 rs s2 Hf1 Hc1 Ho1 Hfill) as (_ & _ & HR).
  rewrite (by_universe_sk _ _ Hsk), (fill_keys_sk _ _ Hsk) in HR.
  eapply Forall2_imp; [|exact HR]. intros key ks (chs & HP & HRep & _).
  set (du := by_universe (s_cells s0)) in *.
  assert (HRW : Forall2 (RepresentsW s0 du (set_cells s2 cells3) key) ks chs).
  { eapply Forall2_imp; [|exact HRep]. intros k ch Hr. eapply Represents_W; eauto. }
  exists chs. split; [exact (proj1 (Paths_back _ _ du HM) _ _ HP)|]. split; [exact HRW|].
  intros p ch HL. split; [exact (LocW_complete _ _ du HM _ _ _ _ _ HL HP)|].
  eapply Forall2_imp; [|exact HRW]. intros k ch' Hr. apply Represents_VerdictW; assumption.
Qed.


(* one step down a located descent: the rest of the descent is located at the point expressed in
   the frame given by the rule above *)
Lemma LocW_head : forall s du key p ch b, LocW s du key p ch b -> exists r, ch = key :: r.
Proof. intros s du key p ch b H. destruct H; eauto. Qed.

Lemma LocW_step : forall s du key p c r b cl,
  LocW s du key p (key :: c :: r) b -> dget key (s_cells s) = Some cl ->
  exists b1 b2, b = b1 && b2 /\ Den s (act_seq (c_trcl cl) p) (c_geom cl) b1 /\
                LocW s du c (frame cl p) (c :: r) b2.
Proof.
  intros s du key p c r b cl H Hk.
  inversion H as [key' cl' p' b0 Hk' Hf' HD' Ek Ep Ec Eb
                 |key' cl' u' p' c' chain' b1' b2' Hk' Hf' Hc' HD' HL' Ek Ep Ec Eb].
  subst key' p' chain'. rewrite Hk in Hk'. inversion Hk'; subst cl'.
  destruct (LocW_head _ _ _ _ _ _ HL') as (r' & Hr'). inversion Hr'; subst c' r'.
  exists b1', b2'. split; [congruence|]. split; [exact HD' | exact HL'].
Qed.

(* ---- the returned cells are pairwise distinct --------------------------------------------------- *)
Lemma prov_closed : forall ch, prov ch = map (fun c => (last ch 0, c)) (rev (removelast ch)).
Proof.
  induction ch as [|k r IH]; [reflexivity|].
  destruct r as [|c r']; [reflexivity|].
  change (prov (k :: c :: r')) with (prov (c :: r') ++ [(last (c :: r') 0, k)]).
  rewrite IH. change (removelast (k :: c :: r')) with (k :: removelast (c :: r')).
  change (last (k :: c :: r') 0) with (last (c :: r') 0).
  cbn [rev]. rewrite map_app. reflexivity.
Qed.

Lemma prov_inj : forall k r r', prov (k :: r) = prov (k :: r') -> r = r'.
Proof.
  intros k r r' H. rewrite !prov_closed in H.
  assert (HA : rev (removelast (k :: r)) = rev (removelast (k :: r'))).
  { apply (f_equal (map snd)) in H. rewrite !map_map in H. cbn [snd] in H. rewrite !map_id in H. exact H. }
  apply (f_equal (@rev Z)) in HA. rewrite !rev_involutive in HA.
  destruct r as [|c r0], r' as [|c' r0']; try reflexivity.
  - cbn in HA. destruct r0'; discriminate.
  - cbn in HA. destruct r0; discriminate.
  - assert (HL : last (k :: c :: r0) 0 = last (k :: c' :: r0') 0).
    { rewrite HA in H. change (removelast (k :: c' :: r0')) with (k :: removelast (c' :: r0')) in H.
      cbn [rev] in H. rewrite !map_app in H. apply app_inj_tail in H. destruct H as [_ H].
      exact (f_equal fst H). }
    assert (E : k :: c :: r0 = k :: c' :: r0').
    { rewrite (app_removelast_last 0 (l := k :: c :: r0)) by discriminate.
      rewrite (app_removelast_last 0 (l := k :: c' :: r0')) by discriminate.
      rewrite HA, HL. reflexivity. }
    inversion E. reflexivity.
Qed.

Lemma Forall2_In_l : forall {A B} (R : A -> B -> Prop) l m a,
  Forall2 R l m -> In a l -> exists b, In b m /\ R a b.
Proof.
  intros A B R l m a H. induction H as [|x y l m Hxy H IH]; intros Hin; [destruct Hin|].
  destruct Hin as [<-|Hin]; [exists y; split; [left; reflexivity | exact Hxy]|].
  destruct (IH Hin) as (b & Hb & Hr). exists b. split; [right; exact Hb | exact Hr].
Qed.

Lemma returned_keys_distinct : forall s du s' key ks chs,
  Forall2 (Represents s du s' key) ks chs -> NoDup chs ->
  (forall ch, In ch chs -> exists r, ch = key :: r) -> NoDup ks.
Proof.
  intros s du s' key ks chs H. induction H as [|k ch ks chs Hr H IH]; intros Hnd Hhd; [constructor|].
  inversion Hnd as [|? ? Hnin Hnd']; subst. constructor.
  - intros Hin. destruct (Forall2_In_l _ _ _ _ H Hin) as (ch' & Hch' & Hr').
    destruct Hr as (ncl & _ & H1 & _ & _ & H4 & _). destruct Hr' as (ncl' & _ & H1' & _ & _ & H4' & _).
    rewrite H1 in H1'. inversion H1'; subst ncl'. rewrite H4 in H4'.
    destruct (Hhd ch (or_introl eq_refl)) as (r & ->).
    destruct (Hhd ch' (or_intror Hch')) as (r' & ->).
    rewrite (prov_inj _ _ _ H4') in Hnin. exact (Hnin Hch').
  - apply IH; [exact Hnd' | intros c Hc; apply Hhd; right; exact Hc].
Qed.

(* with universe lists that repeat no cell, pot_fill returns pairwise distinct cells: together
   with Verdict, exactly one returned cell stands for the located descent *)
Theorem outcome_keys_distinct : forall s du s' key ks chs,
  (forall u, NoDup (du_get u du)) ->
  Paths s du key chs -> Forall2 (Represents s du s' key) ks chs -> NoDup ks.
Proof.
  intros s du s' key ks chs Hdu HP HF.
  destruct (proj1 (Paths_NoDup s du Hdu) key chs HP) as [Hnd Hhd].
  exact (returned_keys_distinct s du s' key ks chs HF Hnd Hhd).
Qed.

(* ---- the precedence rule, from the keyword tokens ----------------------------------------------- *)
Section Precedence.
Variable mk : list Z -> T.
Variable norm : bool -> list Z -> list Z.
(* Python truthiness of the tuple *)
Hypothesis mk_empty : forall l, tr_empty (mk l) = match l with [] => true | _ => false end.
(* normalize_transform returns twelve numbers *)
Hypothesis norm_nonempty : forall star params, norm star params <> [].

Notation kw_tuple := (kw_tuple norm).
Notation cell_of_keywords := (cell_of_keywords T mk norm).

Lemma kw_tuple_explicit : forall is_fill star trid params table l,
  params <> [] -> (forall k c, dget k table = Some c -> c <> []) ->
  kw_tuple is_fill star trid params table = Ok l -> l <> [].
Proof.
  intros is_fill star trid params table l Hne Htab H. unfold Model.kw_tuple in H.
  destruct (parse_tr_params is_fill star trid params table) as [[l0|]|] eqn:E; [| |discriminate].
  - inversion H; subst. exact (parse_tr_params_explicit _ _ _ _ _ _ Hne Htab E).
  - inversion H; subst. apply norm_nonempty.
Qed.

Lemma act_mk : forall l p, act (mk l) p = match l with [] => p | _ => inv (mk l) p end.
Proof. intros l p. unfold Spec.act. rewrite mk_empty. destruct l; reflexivity. Qed.

(* the frame of the filling universe of a cell built from its keywords:
   a FILL transformation given by number / inline / starred wins, whatever the TRCL is;
   a FILL without transformation follows the cell's TRCL; without TRCL the frame is the cell's *)
Theorem precedence_from_tokens : forall table mat rho geom imp u star univ trid params trcl cl,
  (forall k c, dget k table = Some c -> c <> []) ->
  cell_of_keywords table mat rho geom imp u (Some (star, univ, trid, params)) trcl = Ok cl ->
  c_fill cl = Some univ /\
  (params <> [] ->
     exists lf, kw_tuple true star trid params table = Ok lf /\ lf <> [] /\
                forall p, frame cl p = inv (mk lf) p) /\
  (params = [] ->
     match trcl with
     | None => forall p, frame cl p = p
     | Some (tstar, ttrid, tparams) =>
         exists lt, kw_tuple false tstar ttrid tparams table = Ok lt /\
                    forall p, frame cl p = match lt with [] => p | _ => inv (mk lt) p end
     end).
Proof.
  intros table mat rho geom imp u star univ trid params trcl cl Htab H.
  unfold Model.cell_of_keywords in H.
  destruct (Model.kw_tuple norm true star trid params table) as [lf|] eqn:Ef; [|discriminate].
  destruct trcl as [[[tstar ttrid] tparams]|].
  - destruct (Model.kw_tuple norm false tstar ttrid tparams table) as [lt|] eqn:Et; [|discriminate].
    assert (Hcl : cl = mkCell mat rho geom imp (match u with Some n => Z.abs n | None => 0 end)
                         (Some univ) (Some (mk lf)) 0
                         (match lt with [] => [] | _ => [mk lt] end) []).
    { destruct lt; inversion H; reflexivity. }
    subst cl. split; [reflexivity|]. split.
    + intros Hne. exists lf. split; [reflexivity|].
      pose proof (kw_tuple_explicit _ _ _ _ _ _ Hne Htab Ef) as Hlf. split; [exact Hlf|].
      intros p. unfold Spec.frame. cbn [c_filltr]. rewrite mk_empty. destruct lf; [contradiction | reflexivity].
    + intros ->. exists lt. split; [reflexivity|].
      assert (lf = []).
      { unfold Model.kw_tuple in Ef. rewrite parse_tr_params_fill_none in Ef. inversion Ef. reflexivity. }
      subst lf. intros p. unfold Spec.frame. cbn [c_filltr c_trcl]. rewrite mk_empty.
      destruct lt as [|a r]; [reflexivity|]. cbn [Spec.act_seq]. rewrite act_mk. reflexivity.
  - inversion H; subst cl. split; [reflexivity|]. split.
    + intros Hne. exists lf. split; [reflexivity|].
      pose proof (kw_tuple_explicit _ _ _ _ _ _ Hne Htab Ef) as Hlf. split; [exact Hlf|].
      intros p. unfold Spec.frame. cbn [c_filltr]. rewrite mk_empty. destruct lf; [contradiction | reflexivity].
    + intros ->.
      assert (lf = []).
      { unfold Model.kw_tuple in Ef. rewrite parse_tr_params_fill_none in Ef. inversion Ef. reflexivity. }
      subst lf. intros p. unfold Spec.frame. cbn [c_filltr c_trcl]. rewrite mk_empty. reflexivity.
Qed.

(* ... and so for a located point: below a container built from its keywords, the rest of the
   descent is located at the point moved back by the FILL transformation when one is written
   (by number, inline or starred), else by the container's TRCL, else unmoved *)
Theorem precedence_located : forall table mat rho geom imp u star univ trid params trcl cl
                                    (s : state) du key p c r,
  (forall k cd, dget k table = Some cd -> cd <> []) ->
  cell_of_keywords table mat rho geom imp u (Some (star, univ, trid, params)) trcl = Ok cl ->
  dget key (s_cells s) = Some cl ->
  LocW s du key p (key :: c :: r) true ->
  (params <> [] ->
     exists lf, kw_tuple true star trid params table = Ok lf /\ lf <> [] /\
                LocW s du c (inv (mk lf) p) (c :: r) true) /\
  (params = [] ->
     match trcl with
     | None => LocW s du c p (c :: r) true
     | Some (tstar, ttrid, tparams) =>
         exists lt, kw_tuple false tstar ttrid tparams table = Ok lt /\
                    LocW s du c (match lt with [] => p | _ => inv (mk lt) p end) (c :: r) true
     end).
Proof.
  intros table mat rho geom imp u star univ trid params trcl cl s du key p c r Htab Hcl Hk HL.
  destruct (precedence_from_tokens _ _ _ _ _ _ _ _ _ _ _ _ Htab Hcl) as (_ & Hex & Hno).
  destruct (LocW_step _ _ _ _ _ _ _ _ HL Hk) as (b1 & b2 & Hb & _ & HL2).
  symmetry in Hb. apply andb_true_iff in Hb. destruct Hb as [_ ->]. split.
  - intros Hne. destruct (Hex Hne) as (lf & E & Hlf & Hfr). exists lf. split; [exact E|].
    split; [exact Hlf|]. rewrite <- (Hfr p). exact HL2.
  - intros Hp. specialize (Hno Hp). destruct trcl as [[[tstar ttrid] tparams]|].
    + destruct Hno as (lt & E & Hfr). exists lt. split; [exact E|]. rewrite <- (Hfr p). exact HL2.
    + rewrite <- (Hno p). exact HL2.
Qed.
End Precedence.


(* ---- FILL loop + inlining from ANY table with fresh counters, empty cache, no provenance -------
   (the table need not come from the TRCL loop: e.g. lattices may have been developed first) *)
Lemma Represents_inline : forall s du s2 fuel num den cells3 key k ch,
  inline_cells fuel num den (s_cells s2) = Ok cells3 ->
  Represents s du s2 key k ch -> Represents s du (set_cells s2 cells3) key k ch.
Proof.
  intros s du s2 fuel num den cells3 key k ch Hinl
         (ncl & lcl & H1 & H2 & H3 & H4 & H5 & H6 & H7 & H8).
  destruct (inline_cells_fields _ _ _ _ _ Hinl k ncl H1) as (g & Hg).
  pose proof (inline_cells_den fuel num den s2 cells3 Hinl) as Fwd.
  pose proof (inline_cells_den_conv fuel num den s2 cells3 Hinl) as Bwd.
  exists (with_geom ncl g), lcl. split; [exact Hg|]. split; [exact H2|].
  split; [exact H3|]. split; [exact H4|]. split; [exact H5|]. split; [exact H6|]. split.
  - intros p b HL. pose proof (H7 p b HL) as D2.
    assert (D3 : Den (set_cells s2 cells3) p (TRef k) b) by (apply Fwd; eapply DRef; eauto).
    destruct (Den_ref_inv _ _ _ _ D3) as (c3 & Hc3 & D3g). cbn [set_cells s_cells] in Hc3.
    rewrite Hg in Hc3. inversion Hc3; subst c3. exact D3g.
  - intros p D3g. apply Fwd. apply H8.
    assert (D3 : Den (set_cells s2 cells3) p (TRef k) true).
    { eapply DRef; [cbn [set_cells s_cells]; exact Hg | exact D3g]. }
    destruct (Den_ref_inv _ _ _ _ (Bwd _ _ _ D3)) as (c2 & Hc2 & D2g).
    rewrite H1 in Hc2. inversion Hc2; subst c2. exact D2g.
Qed.

Lemma Represents_Verdict : forall s du s3 key p ch k ch',
  LocB s du key p ch true -> Represents s du s3 key k ch' -> Verdict s du s3 key p ch k ch'.
Proof.
  intros s du s3 key p ch k ch' HL (ncl & lcl & H1 & _ & _ & _ & _ & _ & H7 & _). split.
  - intros ->. eapply DRef; [exact H1 | apply H7; exact HL].
  - intros Hpart Hne b' HL'.
    rewrite (LocB_unique s du Hpart key p ch true HL eq_refl ch' b' HL' Hne) in HL'.
    eapply DRef; [exact H1 | apply H7; exact HL'].
Qed.

Theorem fill_inline_located : forall fuel cf ifd ifg num den (s s2 : state) rs cells3,
  fresh_ok s -> s_cache s = [] ->
  (forall c cl, dget c (s_cells s) = Some cl -> c_orig cl = []) ->
  fill_phase fuel cf ifd ifg s = Ok (rs, s2) ->
  inline_cells fuel num den (s_cells s2) = Ok cells3 ->
  Forall2 (Outcome s (by_universe (s_cells s)) (set_cells s2 cells3)) (fill_keys (s_cells s)) rs.
Proof.
  intros fuel cf ifd ifg num den s s2 rs cells3 Hf Hc Ho Hfill Hinl.
  destruct (fill_phase_located fuel cf ifd ifg s rs s2 Hf Hc Ho Hfill) as (_ & _ & HR).
  eapply Forall2_imp; [|exact HR]. intros key ks (chs & HP & HRep & _).
  assert (HR3 : Forall2 (Represents s (by_universe (s_cells s)) (set_cells s2 cells3) key) ks chs).
  { eapply Forall2_imp; [|exact HRep]. intros k ch Hr. eapply Represents_inline; eauto. }
  exists chs. split; [exact HP|]. split; [exact HR3|].
  intros p ch HL. split; [eapply Paths_complete; eauto|].
  eapply Forall2_imp; [|exact HR3]. intros k ch' Hr. apply Represents_Verdict; assumption.
Qed.

(* ---- removing a cell that nothing refers to (develop_lattice ends with del dic[key]) ---------- *)
Fixpoint ddel {V : Type} (k : Z) (d : list (Z * V)) : list (Z * V) :=
  match d with
  | [] => []
  | (k', v) :: r => if k =? k' then ddel k r else (k', v) :: ddel k r
  end.

Lemma dget_ddel_same : forall {V} k (d : list (Z * V)), dget k (ddel k d) = None.
Proof.
  intros V k d. induction d as [|[k' v] r IH]; cbn; [reflexivity|].
  destruct (k =? k') eqn:E; [exact IH|]. cbn. rewrite E. exact IH.
Qed.

Lemma dget_ddel_other : forall {V} k k' (d : list (Z * V)), k' <> k -> dget k' (ddel k d) = dget k' d.
Proof.
  intros V k k' d Hne. induction d as [|[k0 v] r IH]; cbn; [reflexivity|].
  destruct (k =? k0) eqn:E.
  - apply Z.eqb_eq in E. subst k0.
    destruct (k' =? k) eqn:E2; [apply Z.eqb_eq in E2; contradiction | exact IH].
  - cbn. destruct (k' =? k0); [reflexivity | exact IH].
Qed.

Definition del_cell (s : state) (k : Z) : state := set_cells s (ddel k (s_cells s)).

(* on a table without CellRef, values of the remaining cells do not change *)
Lemma Den_del_cell : forall (s : state) k p, all_ref_free s ->
  forall c b, c <> k -> Den s p (TRef c) b -> Den (del_cell s k) p (TRef c) b.
Proof.
  intros s k p Hrf c b Hne HD. destruct (Den_ref_inv _ _ _ _ HD) as (cl & Hc & HDg).
  eapply DRef; [unfold del_cell; cbn [set_cells s_cells]; rewrite dget_ddel_other by exact Hne; exact Hc|].
  apply (proj1 (Den_ref_free_surfs s (del_cell s k) p (fun k0 v H => H))); [exact HDg | exact (Hrf _ _ Hc)].
Qed.


Lemma cell_transform_ref_free : forall fuel k t cache (s : state) k' s',
  all_ref_free s -> cell_transform fuel k t cache s = Ok (k', s') ->
  all_ref_free s' /\ (cache = false -> s_cache s' = s_cache s).
Proof.
  intros fuel k t cache s k' s' Hrf H. destruct fuel as [|f]; [discriminate|].
  cbn [Model.cell_transform] in H.
  destruct (if cache then cget k t (s_cache s) else None) as [kc|].
  - inversion H; subst. split; [exact Hrf | reflexivity].
  - destruct (tr_empty t).
    + inversion H; subst. destruct cache; split; try exact Hrf; try reflexivity; discriminate.
    + destruct (dget k (s_cells s)) as [cl|] eqn:Ecl; [|discriminate].
      destruct (pot_transform_gen (fun c => cell_transform f c t true) t (c_geom cl) s)
        as [[g' s1]|] eqn:Eg; [|discriminate].
      destruct (ptg_ref_free _ _ _ _ _ _ (Hrf k cl Ecl) Eg) as ((C1 & C2 & C3) & C4).
      assert (Hnew : all_ref_free (mkSt (dset (s_nck s1 + 1) (with_geom cl g') (s_cells s1)) (s_surfs s1)
                                        (s_nck s1 + 1) (s_nsk s1) (s_cache s1) (s_rcache s1))).
      { intros k0 cl0 Hk0. cbn [s_cells] in Hk0.
        destruct (Z.eq_dec k0 (s_nck s1 + 1)) as [->|Hne].
        - rewrite dget_dset_same in Hk0. inversion Hk0; subst. exact C4.
        - rewrite dget_dset_other in Hk0 by exact Hne. rewrite C1 in Hk0. exact (Hrf _ _ Hk0). }
      destruct cache; inversion H; subst k' s'.
      * split; [intros k0 cl0 Hk0; exact (Hnew k0 cl0 Hk0) | discriminate].
      * split; [exact Hnew | intros _; cbn [s_cache]; exact C2].
Qed.


(* ---- a generated cell keeps the importance and the universe of the cell it fills -------------- *)
Definition KeepsFields (s s' : state) (key : Z) (ks : list Z) : Prop :=
  exists kcl, dget key (s_cells s) = Some kcl /\
    forall k, In k ks -> exists ncl, dget k (s_cells s') = Some ncl /\
      c_imp ncl = c_imp kcl /\ c_univ ncl = c_univ kcl.

Theorem generated_keeps_importance : forall fuel cf ifd ifg (s : state) rs s',
  fresh_ok s -> s_cache s = [] ->
  (forall c cl, dget c (s_cells s) = Some cl -> c_orig cl = []) ->
  fill_phase fuel cf ifd ifg s = Ok (rs, s') ->
  Forall2 (KeepsFields s s') (fill_keys (s_cells s)) rs.
Proof.
  intros fuel cf ifd ifg s rs s' Hf Hc Ho H.
  destruct (fill_phase_spec fuel cf ifd ifg s rs s' Hf Hc Ho H) as (_ & _ & HR).
  assert (G : forall keys rs0,
            (forall k, In k keys -> exists cl, dget k (s_cells s) = Some cl) ->
            Forall2 (fun key ks => exists chs, Paths s (by_universe (s_cells s)) key chs /\
                       Forall2 (GenOK s (by_universe (s_cells s)) s' key) ks chs) keys rs0 ->
            Forall2 (KeepsFields s s') keys rs0).
  { intros keys rs0 Hk HF. induction HF as [|key ks keys' rs' (chs & _ & HG) _ IH]; constructor.
    - destruct (Hk key (or_introl eq_refl)) as (kcl & Hkcl). exists kcl. split; [exact Hkcl|].
      intros k Hin. destruct (Forall2_In_l _ _ _ _ HG Hin) as (ch & _ & G0).
      destruct G0 as (ncl & lcl & kcl' & r & _ & H2 & _ & H4 & _ & _ & _ & _ & _ & H10 & H11 & _).
      rewrite Hkcl in H4. inversion H4; subst kcl'. exists ncl. auto.
    - apply IH. intros k Hin. apply Hk. right. exact Hin. }
  exact (G _ _ (fill_keys_closed (s_cells s)) HR).
Qed.

(* the same through the whole chain: the final cell has the importance and the universe written
   on the card of the level-0 cell it fills *)
Theorem pipeline_keeps_importance : forall fuel cf ifd ifg num den (s0 s1 s2 : state) rs cells3,
  fresh_ok s0 -> s_cache s0 = [] -> NoDup (map fst (s_cells s0)) -> all_ref_free s0 ->
  (forall c cl, dget c (s_cells s0) = Some cl -> c_orig cl = []) ->
  trcl_phase fuel (map fst (s_cells s0)) s0 = Ok s1 ->
  fill_phase fuel cf ifd ifg s1 = Ok (rs, s2) ->
  inline_cells fuel num den (s_cells s2) = Ok cells3 ->
  Forall2 (KeepsFields s0 (set_cells s2 cells3)) (fill_keys (s_cells s0)) rs.
Proof.
  intros fuel cf ifd ifg num den s0 s1 s2 rs cells3 Hf Hc Hnd Hrf Ho Ht Hfill Hinl.
  destruct (trcl_phase_Moved fuel s0 s1 Hf Hc Hnd Hrf Ht) as (HM & Hf1 & Hc1 & Hsk).
  assert (Ho1 : forall c cl, dget c (s_cells s1) = Some cl -> c_orig cl = []).
  { intros c cl1 Hk. destruct (Moved_back _ _ _ _ HM Hk) as (cl & g' & Hcl & ->).
    cbn [with_geom c_orig]. exact (Ho _ _ Hcl). }
  pose proof (generated_keeps_importance fuel cf ifd ifg s1 rs s2 Hf1 Hc1 Ho1 Hfill) as HK.
  rewrite (fill_keys_sk _ _ Hsk) in HK.
  eapply Forall2_imp; [|exact HK]. intros key ks (kcl1 & Hk1 & Hall).
  destruct (Moved_back _ _ _ _ HM Hk1) as (kcl & g' & Hkcl & ->).
  exists kcl. split; [exact Hkcl|]. intros k Hin.
  destruct (Hall k Hin) as (ncl & Hn & Hi & Hu).
  destruct (inline_cells_fields _ _ _ _ _ Hinl k ncl Hn) as (g & Hg).
  exists (with_geom ncl g). split; [exact Hg|]. cbn [with_geom c_imp c_univ] in *. auto.
Qed.

End Proofs.
