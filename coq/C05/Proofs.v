(* C05 — proofs about the model (see C05/Model.v). *)
From Coq Require Import List ZArith Bool Lia.
From T4V Require Import C05.Model.
Import ListNotations.
Open Scope Z_scope.

Section Proofs.
Variable T : Type.
Variable surf : Type.
Variable tr_empty : T -> bool.
Variable teqb : T -> T -> bool.
Variable tr_surf : T -> surf -> surf.

Lemma pot_transform_compl_untouched : forall fuel t c (s : state T surf),
  pot_transform T surf tr_empty teqb tr_surf fuel t (TCompl c) s = Ok (TCompl c, s).
Proof. intros fuel t c s. unfold pot_transform. destruct (tr_empty t); reflexivity. Qed.

End Proofs.
