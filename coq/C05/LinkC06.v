(* C05 linked with C06: the chain of construct_volume_t4 with a LAT=1 lattice cell in it,
     TRCL loop  ->  develop_lattice of the lattice cell (+ del dic[key])  ->  FILL loop  ->  inline_cells,
   over C05's table.  The stateful half of develop_lattice is C06's [develop_state] (C06/LinkC05.v:
   one cell_transform(key, trnsf, cache=False) per element, then the element's fill / filltr /
   lattice = None are written into the new cell); the elements themselves (indices, translations,
   fill transformations) are C06's develop_lattice_with, about which C06_develop_lattice_located
   and C06_lattice_end_to_end_linked speak.  C06's files are only read.
   Instance: T := list R (a transformation = its 12 numbers, or the empty tuple),
   P := C06's vec R, tr_empty := is_nil; surfaces, their action and their sense stay abstract with
   the two C05 laws as hypotheses (C05/LinkC04.v discharges them in another instance; the two
   instances differ in the type of transformations, see notes). *)
From Coq Require Import List ZArith Bool Reals Lia.
From T4V Require C06.Model C06.LinkC05.
From T4V Require Import C05.Model C05.Spec C05.Proofs.
Import ListNotations.
Open Scope Z_scope.

Module M6 := T4V.C06.Model.
Module L6 := T4V.C06.LinkC05.

Section LinkLattice.
Variable surf : Type.
Variable teqb : list R -> list R -> bool.
Variable tr_surf : list R -> surf -> surf.
Variable inv : list R -> @M6.vec R -> @M6.vec R.
Variable sense : surf -> @M6.vec R -> bool.

Notation T := (list R).
Notation P := (@M6.vec R).
Notation tr_empty := (@M6.is_nil R).
Notation relem := (@M6.new_elem R).

Hypothesis sense_tr : forall t o p, sense (tr_surf t o) p = sense o (inv t p).
Hypothesis teqb_sound : forall a b, teqb a b = true ->
  tr_empty a = tr_empty b /\ forall p, inv a p = inv b p.

Notation state := (state T surf).
Notation cell := (cell T).
Notation Den := (Den T surf P sense).
Notation Inv := (Inv T surf P tr_empty inv sense).
Notation extends := (extends T surf).
Notation develop_state := (L6.develop_state surf teqb tr_surf).
Notation develop_step := (L6.develop_step surf teqb tr_surf).
Notation all_ref_free := (all_ref_free T surf).
Notation fresh_ok := (fresh_ok T surf).

Definition no_orig (s : state) : Prop := forall c cl, dget c (s_cells s) = Some cl -> c_orig cl = [].

(* one element: the table stays free of CellRef and of provenance, the cache is untouched *)
Lemma develop_step_plain : forall fuel latkey (e : relem) (s : state) k s',
  all_ref_free s -> no_orig s -> develop_step fuel latkey e s = Ok (k, s') ->
  all_ref_free s' /\ no_orig s' /\ s_cache s' = s_cache s.
Proof.
  intros fuel latkey e s k s' Hrf Hno H. unfold L6.develop_step in H.
  destruct (cell_transform T surf tr_empty teqb tr_surf fuel latkey (M6.ne_trnsf e) false s)
    as [[k1 s1]|] eqn:E; [|discriminate].
  destruct (cell_transform_ref_free T surf tr_empty teqb tr_surf _ _ _ _ _ _ _ Hrf E) as (Hrf1 & Hc1).
  (* provenance: the new cell is a copy of an old one *)
  assert (Hno1 : no_orig s1).
  { destruct fuel as [|f]; [discriminate E|]. cbn [cell_transform] in E.
    destruct (M6.is_nil (M6.ne_trnsf e)).
    - inversion E; subst. exact Hno.
    - destruct (dget latkey (s_cells s)) as [cl|] eqn:Ecl; [|discriminate].
      destruct (pot_transform_gen T surf tr_surf
                  (fun c => cell_transform T surf tr_empty teqb tr_surf f c (M6.ne_trnsf e) true)
                  (M6.ne_trnsf e) (c_geom cl) s) as [[g' s1a]|] eqn:Eg; [|discriminate].
      destruct (ptg_ref_free T surf tr_surf _ _ _ _ _ _ (Hrf _ _ Ecl) Eg) as ((C1 & _ & _) & _).
      inversion E; subst k1 s1. intros c0 cl0 H0. cbn [s_cells] in H0.
      destruct (Z.eq_dec c0 (s_nck s1a + 1)) as [->|Hne].
      + rewrite dget_dset_same in H0. inversion H0; subst. cbn [with_geom c_orig]. exact (Hno _ _ Ecl).
      + rewrite dget_dset_other in H0 by exact Hne. rewrite C1 in H0. exact (Hno _ _ H0). }
  destruct (dget k1 (s_cells s1)) as [cl1|] eqn:Ek1; [|discriminate].
  inversion H; subst k s'; clear H. split; [|split].
  - intros c0 cl0 H0. unfold L6.set_cell in H0. cbn [s_cells] in H0.
    destruct (Z.eq_dec c0 k1) as [->|Hne].
    + rewrite dget_dset_same in H0. inversion H0; subst. cbn. exact (Hrf1 _ _ Ek1).
    + rewrite dget_dset_other in H0 by exact Hne. exact (Hrf1 _ _ H0).
  - intros c0 cl0 H0. unfold L6.set_cell in H0. cbn [s_cells] in H0.
    destruct (Z.eq_dec c0 k1) as [->|Hne].
    + rewrite dget_dset_same in H0. inversion H0; subst. cbn. exact (Hno1 _ _ Ek1).
    + rewrite dget_dset_other in H0 by exact Hne. exact (Hno1 _ _ H0).
  - unfold L6.set_cell. cbn [s_cache]. exact (Hc1 eq_refl).
Qed.

Lemma develop_state_plain : forall fuel latkey (elems : list relem) (s : state) keys s',
  all_ref_free s -> no_orig s -> develop_state fuel latkey elems s = Ok (keys, s') ->
  all_ref_free s' /\ no_orig s' /\ s_cache s' = s_cache s.
Proof.
  intros fuel latkey elems. induction elems as [|e r IH]; intros s keys s' Hrf Hno H.
  - cbn in H. inversion H; subst. auto.
  - unfold L6.develop_state in H. cbn [mapM_st] in H.
    destruct (develop_step fuel latkey e s) as [[k s1]|] eqn:E1; [|discriminate].
    destruct (mapM_st (develop_step fuel latkey) r s1) as [[ks s2]|] eqn:E2; [|discriminate].
    inversion H; subst keys s'; clear H.
    destruct (develop_step_plain _ _ _ _ _ _ Hrf Hno E1) as (A1 & B1 & C1).
    destruct (IH s1 ks s2 A1 B1 E2) as (A2 & B2 & C2).
    split; [exact A2|]. split; [exact B2 | congruence].
Qed.

(* by_universe lists every cell under its universe *)
Lemma by_universe_complete : forall (cells : list (Z * cell)) k cl,
  In (k, cl) cells -> In k (du_get (c_univ cl) (by_universe cells)).
Proof.
  intros cells k cl. unfold by_universe.
  assert (G : forall l acc, (In (k, cl) l \/ In k (du_get (c_univ cl) acc)) ->
                In k (du_get (c_univ cl) (fold_left
                  (fun du0 (kc : Z * cell) => dappend (c_univ (snd kc)) (fst kc) du0) l acc))).
  { induction l as [|[k0 c0] r IH]; intros acc H; cbn [fold_left].
    - destruct H as [[]|H]; exact H.
    - apply IH. cbn [fst snd]. destruct H as [[H|H]|H].
      + inversion H; subst. right. unfold dappend, du_get.
        destruct (dget (c_univ cl) acc) as [l0|] eqn:E; rewrite dget_dset_same;
          [apply in_or_app; right; left; reflexivity | left; reflexivity].
      + left. exact H.
      + right. unfold dappend, du_get in *.
        destruct (dget (c_univ c0) acc) as [l0|] eqn:E.
        * destruct (Z.eq_dec (c_univ cl) (c_univ c0)) as [Eu|Hne].
          { rewrite Eu in *. rewrite dget_dset_same. rewrite E in H. apply in_or_app. left. exact H. }
          { rewrite dget_dset_other by exact Hne. exact H. }
        * destruct (Z.eq_dec (c_univ cl) (c_univ c0)) as [Eu|Hne].
          { rewrite Eu in *. rewrite E in H. destruct H. }
          { rewrite dget_dset_other by exact Hne. exact H. } }
  intros H. apply G. left. exact H.
Qed.

Notation trcl_phase := (trcl_phase T surf tr_empty teqb tr_surf).
Notation fill_phase := (fill_phase T surf tr_empty teqb tr_surf).
Notation Outcome := (Outcome T surf P tr_empty inv sense).
Notation del_cell := (del_cell T surf).
Notation set_cells := (set_cells T surf).

(* what an element cell of the developed table is, in terms of the table after the TRCL loop *)
Definition ElemOf (s1 : state) (latkey : Z) (lcl : cell) (sd : state) (e : relem) (k : Z) : Prop :=
  exists cl, dget k (s_cells sd) = Some cl /\ k <> latkey /\
    c_fill cl = M6.ne_fill e /\ c_filltr cl = Some (M6.ne_filltr e) /\
    c_mat cl = c_mat lcl /\ c_rho cl = c_rho lcl /\
    In k (du_get (c_univ cl) (by_universe (s_cells sd))) /\
    forall p b, Den s1 (inv (M6.ne_trnsf e) p) (TRef latkey) b -> Den sd p (TRef k) b.

Theorem pipeline_with_lattice :
  forall fuel cf ifd ifg num den (s0 s1 s2 s3 : state) rs cells4 latkey lcl
         (elems : list relem) keys,
  fresh_ok s0 -> s_cache s0 = [] -> NoDup (map fst (s_cells s0)) -> all_ref_free s0 -> no_orig s0 ->
  trcl_phase fuel (map fst (s_cells s0)) s0 = Ok s1 ->
  dget latkey (s_cells s1) = Some lcl ->
  Forall (fun e : relem => M6.is_nil (M6.ne_trnsf e) = false) elems ->
  develop_state fuel latkey elems s1 = Ok (keys, s2) ->
  fill_phase fuel cf ifd ifg (del_cell s2 latkey) = Ok (rs, s3) ->
  inline_cells T fuel num den (s_cells s3) = Ok cells4 ->
  let sd := del_cell s2 latkey in
  (* the developed table, in terms of the cards: the lattice cell is gone, ... *)
  dget latkey (s_cells sd) = None /\
  (* ... every other cell is the card's cell moved by its TRCL, ... *)
  (forall k cl, k <> latkey -> dget k (s_cells s0) = Some cl ->
     exists g', dget k (s_cells sd) = Some (with_geom cl g') /\
       forall p b, Den s0 (act_seq T P tr_empty inv (c_trcl cl) p) (c_geom cl) b -> Den sd p g' b) /\
  (* ... there is one new cell per element, listed in its universe, carrying the element's fill
     and fill transformation, whose value at p is the lattice cell's at the pulled-back point *)
  Forall2 (ElemOf s1 latkey lcl sd) elems keys /\
  (* and FILL development + inlining achieve their Outcome on that table *)
  Forall2 (Outcome sd (by_universe (s_cells sd)) (set_cells s3 cells4)) (fill_keys (s_cells sd)) rs.
Proof.
  intros fuel cf ifd ifg num den s0 s1 s2 s3 rs cells4 latkey lcl elems keys
         Hf Hc Hnd Hrf Hno Ht Hlat Hne Hdev Hfill Hinl sd.
  destruct (trcl_phase_den T surf P tr_empty teqb tr_surf inv sense sense_tr teqb_sound
              fuel _ s0 s1 Hf Hc Hnd Hrf Ht) as (Hf1 & Hc1 & _ & Hrf1 & _ & _).
  destruct (trcl_phase_Moved T surf P tr_empty teqb tr_surf inv sense sense_tr teqb_sound
              fuel s0 s1 Hf Hc Hnd Hrf Ht) as (HM & _ & _ & _).
  assert (Hno1 : no_orig s1).
  { intros c cl1 Hk. destruct (Moved_back T surf P tr_empty inv sense _ _ _ _ HM Hk) as (cl & g' & Hcl & ->).
    cbn [with_geom c_orig]. exact (Hno _ _ Hcl). }
  pose proof (Inv_init T surf P tr_empty inv sense s1 Hf1 Hc1) as HI1.
  destruct (L6.develop_state_spec surf teqb tr_surf inv sense sense_tr teqb_sound
              fuel latkey lcl elems s1 keys s2 HI1 Hlat Hne Hdev) as (HI2 & Hx12 & HF).
  destruct (develop_state_plain _ _ _ _ _ _ Hrf1 Hno1 Hdev) as (Hrf2 & Hno2 & Hc2).
  assert (Hsurf : forall k v, dget k (s_surfs s2) = Some v -> dget k (s_surfs sd) = Some v)
    by (intros k v H; exact H).
  split; [unfold sd, Proofs.del_cell; cbn [Proofs.set_cells s_cells]; apply dget_ddel_same|].
  split; [|split].
  - intros k cl Hk Hk0. destruct (proj1 HM _ _ Hk0) as (g' & Hg & HD).
    exists g'. split.
    + unfold sd, Proofs.del_cell. cbn [Proofs.set_cells s_cells]. rewrite dget_ddel_other by exact Hk.
      exact (proj1 Hx12 _ _ Hg).
    + intros p b H. apply HD in H.
      apply (proj1 (Den_ref_free_surfs T surf P sense s1 sd p
                      (fun k0 v H0 => Hsurf k0 v (proj2 Hx12 _ _ H0)))); [exact H|].
      exact (Hrf1 _ _ Hg).
  - eapply Forall2_imp; [|exact HF].
    intros e k (cl & Hk & E1 & E2 & E3 & E4 & _ & Hfresh & HD).
    assert (Hkl : k <> latkey) by (intros ->; rewrite Hlat in Hfresh; discriminate).
    assert (Hkd : dget k (s_cells sd) = Some cl).
    { unfold sd, Proofs.del_cell. cbn [Proofs.set_cells s_cells]. rewrite dget_ddel_other by exact Hkl. exact Hk. }
    exists cl. split; [exact Hkd|]. split; [exact Hkl|].
    split; [exact E1|]. split; [exact E2|]. split; [exact E3|]. split; [exact E4|]. split.
    + apply by_universe_complete. apply dget_In. exact Hkd.
    + intros p b H. apply (Den_del_cell T surf P sense s2 latkey p Hrf2 k b Hkl). apply HD. exact H.
  - assert (Hfd : fresh_ok sd).
    { destruct HI2 as [[F1 F2] _]. split.
      - intros k Hk. unfold sd, Proofs.del_cell. cbn [Proofs.set_cells s_cells s_nck].
        destruct (Z.eq_dec k latkey) as [->|Hne']; [apply dget_ddel_same|].
        rewrite dget_ddel_other by exact Hne'. apply F1. exact Hk.
      - exact F2. }
    assert (Hcd : s_cache sd = []) by (unfold sd, Proofs.del_cell; cbn; congruence).
    assert (Hnod : no_orig sd).
    { intros c cl H. unfold sd, Proofs.del_cell in H. cbn [Proofs.set_cells s_cells] in H.
      destruct (Z.eq_dec c latkey) as [->|Hne']; [rewrite dget_ddel_same in H; discriminate|].
      rewrite dget_ddel_other in H by exact Hne'. exact (Hno2 _ _ H). }
    exact (fill_inline_located T surf P tr_empty teqb tr_surf inv sense sense_tr teqb_sound
             fuel cf ifd ifg num den sd s3 rs cells4 Hfd Hcd Hnod Hfill Hinl).
Qed.


(* ---- a point located through the lattice ---------------------------------------------------------
   container [key] (level 0, FILL = the lattice's universe U) -> element cell [ke] -> either the
   element keeps the lattice cell's own material (leaf), or it is filled with universe u and the
   descent goes on below a cell c of u *)
Notation Located := (Located T surf P tr_empty inv sense).
Notation Represents := (Represents T surf P tr_empty inv sense).

Lemma Outcome_located : forall sd du sf key ks p ch,
  Outcome sd du sf key ks -> Located sd du key p ch ->
  exists k ncl lcl, In k ks /\ dget k (s_cells sf) = Some ncl /\
    Den sf p (TRef k) true /\ c_fill ncl = None /\ c_orig ncl = prov ch /\
    dget (last ch 0) (s_cells sd) = Some lcl /\ c_mat ncl = c_mat lcl /\ c_rho ncl = c_rho lcl.
Proof.
  intros sd du sf key ks p ch (chs & _ & HRep & HLoc) HL.
  destruct (HLoc p ch HL) as (Hin & HV).
  destruct (L6.Forall2_pick _ _ _ _ _ HRep HV Hin)
    as (k & Hk & (ncl & lcl & R1 & R2 & R3 & R4 & R5 & R6 & _) & (V1 & _)).
  exists k, ncl, lcl. repeat split; try assumption. apply V1. reflexivity.
Qed.

Theorem located_through_lattice :
  forall fuel cf ifd ifg num den (s0 s1 s2 s3 : state) rs cells4 latkey lcl
         (elems : list relem) keys,
  fresh_ok s0 -> s_cache s0 = [] -> NoDup (map fst (s_cells s0)) -> all_ref_free s0 -> no_orig s0 ->
  trcl_phase fuel (map fst (s_cells s0)) s0 = Ok s1 ->
  dget latkey (s_cells s1) = Some lcl ->
  Forall (fun e : relem => M6.is_nil (M6.ne_trnsf e) = false) elems ->
  develop_state fuel latkey elems s1 = Ok (keys, s2) ->
  fill_phase fuel cf ifd ifg (del_cell s2 latkey) = Ok (rs, s3) ->
  inline_cells T fuel num den (s_cells s3) = Ok cells4 ->
  let sd := del_cell s2 latkey in
  let du := by_universe (s_cells sd) in
  let sf := set_cells s3 cells4 in
  forall key kcl U (e : relem) ke ecl p,
  In key (fill_keys (s_cells sd)) ->
  dget key (s_cells sd) = Some kcl -> c_fill kcl = Some U ->
  In (e, ke) (combine elems keys) ->
  dget ke (s_cells sd) = Some ecl -> c_univ ecl = U ->
  (* p is in the container, and the point in the container's filling frame is in the element *)
  Den sd p (c_geom kcl) true ->
  Den s1 (inv (M6.ne_trnsf e) (frame T P tr_empty inv kcl p)) (TRef latkey) true ->
  exists ks, In ks rs /\
  (* own universe: the element is a leaf with the lattice cell's material *)
  (M6.ne_fill e = None ->
     exists k ncl, In k ks /\ dget k (s_cells sf) = Some ncl /\ Den sf p (TRef k) true /\
       c_fill ncl = None /\ c_orig ncl = prov [key; ke] /\
       c_mat ncl = c_mat lcl /\ c_rho ncl = c_rho lcl) /\
  (* another universe u: below a cell c of u that locates the point pulled back by the element's
     fill transformation *)
  (forall u c ch, M6.ne_fill e = Some u -> M6.is_nil (M6.ne_filltr e) = false ->
     In c (du_get u du) ->
     Located sd du c (inv (M6.ne_filltr e) (frame T P tr_empty inv kcl p)) ch ->
     exists k ncl lfl, In k ks /\ dget k (s_cells sf) = Some ncl /\ Den sf p (TRef k) true /\
       c_fill ncl = None /\ c_orig ncl = prov (key :: ke :: ch) /\
       dget (last ch 0) (s_cells sd) = Some lfl /\ c_mat ncl = c_mat lfl /\ c_rho ncl = c_rho lfl).
Proof.
  intros fuel cf ifd ifg num den s0 s1 s2 s3 rs cells4 latkey lcl elems keys
         Hf Hc Hnd Hrf Hno Ht Hlat Hne Hdev Hfill Hinl sd du sf key kcl U e ke ecl p
         Hkey Hkcl HU Hin Hecl HeU Hcont Helem.
  destruct (pipeline_with_lattice fuel cf ifd ifg num den s0 s1 s2 s3 rs cells4 latkey lcl elems keys
              Hf Hc Hnd Hrf Hno Ht Hlat Hne Hdev Hfill Hinl) as (_ & _ & HE & HO).
  fold sd in HE, HO. fold du in HO. fold sf in HO.
  destruct (Forall2_In_l _ _ _ _ HO Hkey) as (ks & Hks & HOut).
  exists ks. split; [exact Hks|].
  (* the element's record *)
  assert (HEl : ElemOf s1 latkey lcl sd e ke).
  { clear - HE Hin. induction HE as [|e0 k0 l l' H0 _ IH]; [destruct Hin|].
    cbn [combine] in Hin. destruct Hin as [E|Hin]; [inversion E; subst; exact H0 | exact (IH Hin)]. }
  destruct HEl as (cl & Hcl & _ & Ef & Eft & Em & Er & Hdu & HD).
  rewrite Hecl in Hcl. inversion Hcl; subst cl. rewrite HeU in Hdu. fold du in Hdu.
  set (p' := frame T P tr_empty inv kcl p) in *.
  assert (Hin_e : Den sd p' (c_geom ecl) true).
  { pose proof (HD p' true Helem) as D. destruct (Den_ref_inv T surf P sense _ _ _ _ D) as (c0 & Hc0 & Dg).
    rewrite Hecl in Hc0. inversion Hc0; subst. exact Dg. }
  split.
  - intros Hfe.
    assert (HL : Located sd du key p [key; ke]).
    { unfold Spec.Located. change true with (true && true).
      eapply LBFill with (cl := kcl) (u := U) (c := ke); [exact Hkcl | exact HU | exact Hdu | exact Hcont|].
      eapply LBLeaf with (cl := ecl); [exact Hecl | rewrite Ef; exact Hfe | exact Hin_e]. }
    destruct (Outcome_located _ _ _ _ _ _ _ HOut HL) as (k & ncl & lfl & A1 & A2 & A3 & A4 & A5 & A6 & A7 & A8).
    cbn [last] in A6. rewrite Hecl in A6. inversion A6; subst lfl.
    exists k, ncl. repeat split; try assumption; congruence.
  - intros u c ch Hfu Hnn Hc' HLc.
    assert (Hframe : frame T P tr_empty inv ecl p' = inv (M6.ne_filltr e) p').
    { unfold Spec.frame. rewrite Eft, Hnn. reflexivity. }
    assert (HL : Located sd du key p (key :: ke :: ch)).
    { unfold Spec.Located. change true with (true && (true && true)).
      eapply LBFill with (cl := kcl) (u := U) (c := ke); [exact Hkcl | exact HU | exact Hdu | exact Hcont|].
      eapply LBFill with (cl := ecl) (u := u) (c := c);
        [exact Hecl | rewrite Ef; exact Hfu | exact Hc' | exact Hin_e|].
      unfold Spec.Located in HLc. rewrite <- Hframe in HLc. exact HLc. }
    destruct (Outcome_located _ _ _ _ _ _ _ HOut HL) as (k & ncl & lfl & A1 & A2 & A3 & A4 & A5 & A6 & A7 & A8).
    assert (Hlast : last (key :: ke :: ch) 0 = last ch 0) by (destruct HLc; reflexivity).
    rewrite Hlast in A6. exists k, ncl, lfl. repeat split; assumption.
Qed.

End LinkLattice.

(* ---- several lattice cells: each development keeps what the next one (and the FILL loop) needs -- *)
Section Several.
Variable surf : Type.
Variable teqb : list R -> list R -> bool.
Variable tr_surf : list R -> surf -> surf.
Variable inv : list R -> @M6.vec R -> @M6.vec R.
Variable sense : surf -> @M6.vec R -> bool.
Hypothesis sense_tr : forall t o p, sense (tr_surf t o) p = sense o (inv t p).
Hypothesis teqb_sound : forall a b, teqb a b = true ->
  @M6.is_nil R a = M6.is_nil b /\ forall p, inv a p = inv b p.

Notation T := (list R).
Notation P := (@M6.vec R).
Notation state := (state T surf).
Notation Inv := (Inv T surf P (@M6.is_nil R) inv sense).

(* the "treat LAT" loop: for each lattice cell, develop it and delete it *)
Fixpoint lat_phase (fuel : nat) (lats : list (Z * list (@M6.new_elem R))) (s : state) : res state :=
  match lats with
  | [] => Ok s
  | (k, elems) :: r =>
      match L6.develop_state surf teqb tr_surf fuel k elems s with
      | Err x => Err x
      | Ok (_, s') => lat_phase fuel r (del_cell T surf s' k)
      end
  end.

Definition ready (s : state) : Prop :=
  fresh_ok T surf s /\ s_cache s = [] /\ all_ref_free T surf s /\ no_orig surf s.

Lemma develop_state_Inv : forall fuel latkey elems (s : state) keys s',
  Inv s -> L6.develop_state surf teqb tr_surf fuel latkey elems s = Ok (keys, s') -> Inv s'.
Proof.
  intros fuel latkey elems. induction elems as [|e r IH]; intros s keys s' HI H.
  - cbn in H. inversion H; subst. exact HI.
  - unfold L6.develop_state in H. cbn [mapM_st] in H.
    destruct (L6.develop_step surf teqb tr_surf fuel latkey e s) as [[k s1]|] eqn:E1; [|discriminate].
    destruct (mapM_st (L6.develop_step surf teqb tr_surf fuel latkey) r s1) as [[ks s2]|] eqn:E2; [|discriminate].
    inversion H; subst keys s'; clear H. apply (IH s1 ks s2); [|exact E2].
    unfold L6.develop_step in E1.
    destruct (cell_transform T surf (@M6.is_nil R) teqb tr_surf fuel latkey (M6.ne_trnsf e) false s)
      as [[k1 s1a]|] eqn:Ec; [|discriminate].
    destruct (cell_transform_spec T surf P (@M6.is_nil R) teqb tr_surf inv sense sense_tr teqb_sound
                _ _ _ _ _ _ _ HI Ec) as (HIa & _ & _).
    destruct (dget k1 (s_cells s1a)) as [cl|] eqn:Ek; [|discriminate]. inversion E1; subst k s1.
    exact (L6.set_cell_Inv surf inv sense s1a k1 cl (L6.elem_record cl e) Ek eq_refl HIa).
Qed.

Lemma lat_step_ready : forall fuel latkey elems (s : state) keys s',
  ready s -> L6.develop_state surf teqb tr_surf fuel latkey elems s = Ok (keys, s') ->
  ready (del_cell T surf s' latkey).
Proof.
  intros fuel latkey elems s keys s' (Hf & Hc & Hrf & Hno) H.
  pose proof (develop_state_Inv _ _ _ _ _ _ (Inv_init T surf P (@M6.is_nil R) inv sense s Hf Hc) H) as HI.
  destruct (develop_state_plain surf teqb tr_surf _ _ _ _ _ _ Hrf Hno H) as (Hrf' & Hno' & Hc').
  unfold ready, Proofs.del_cell. cbn [Proofs.set_cells s_cells s_cache s_nck s_surfs s_nsk].
  split; [|split; [congruence|split]].
  - destruct HI as [[F1 F2] _]. split; [|exact F2]. intros k Hk. unfold Proofs.set_cells in *. cbn [s_cells s_nck] in *.
    destruct (Z.eq_dec k latkey) as [->|Hne]; [apply dget_ddel_same|].
    rewrite dget_ddel_other by exact Hne. apply F1. exact Hk.
  - intros c cl H0. unfold Proofs.set_cells in H0. cbn [s_cells] in H0.
    destruct (Z.eq_dec c latkey) as [->|Hne]; [rewrite dget_ddel_same in H0; discriminate|].
    rewrite dget_ddel_other in H0 by exact Hne. exact (Hrf' _ _ H0).
  - intros c cl H0. unfold Proofs.set_cells in H0. cbn [s_cells] in H0.
    destruct (Z.eq_dec c latkey) as [->|Hne]; [rewrite dget_ddel_same in H0; discriminate|].
    rewrite dget_ddel_other in H0 by exact Hne. exact (Hno' _ _ H0).
Qed.

Lemma lat_phase_ready : forall fuel lats (s s' : state),
  ready s -> lat_phase fuel lats s = Ok s' -> ready s'.
Proof.
  intros fuel lats. induction lats as [|[k elems] r IH]; intros s s' Hr H; cbn in H.
  - inversion H; subst. exact Hr.
  - destruct (L6.develop_state surf teqb tr_surf fuel k elems s) as [[ks s1]|] eqn:E; [|discriminate].
    exact (IH _ _ (lat_step_ready _ _ _ _ _ _ Hr E) H).
Qed.

(* any number of lattice cells: TRCL loop -> LAT loop -> FILL loop -> inlining *)
Theorem pipeline_with_lattices :
  forall fuel cf ifd ifg num den (s0 s1 sd s3 : state) lats rs cells4,
  fresh_ok T surf s0 -> s_cache s0 = [] -> NoDup (map fst (s_cells s0)) ->
  all_ref_free T surf s0 -> no_orig surf s0 ->
  trcl_phase T surf (@M6.is_nil R) teqb tr_surf fuel (map fst (s_cells s0)) s0 = Ok s1 ->
  lat_phase fuel lats s1 = Ok sd ->
  fill_phase T surf (@M6.is_nil R) teqb tr_surf fuel cf ifd ifg sd = Ok (rs, s3) ->
  inline_cells T fuel num den (s_cells s3) = Ok cells4 ->
  Forall2 (Outcome T surf P (@M6.is_nil R) inv sense sd (by_universe (s_cells sd))
                   (set_cells T surf s3 cells4))
          (fill_keys (s_cells sd)) rs.
Proof.
  intros fuel cf ifd ifg num den s0 s1 sd s3 lats rs cells4 Hf Hc Hnd Hrf Hno Ht Hl Hfill Hinl.
  destruct (trcl_phase_den T surf P (@M6.is_nil R) teqb tr_surf inv sense sense_tr teqb_sound
              fuel _ s0 s1 Hf Hc Hnd Hrf Ht) as (Hf1 & Hc1 & _ & Hrf1 & _ & _).
  destruct (trcl_phase_Moved T surf P (@M6.is_nil R) teqb tr_surf inv sense sense_tr teqb_sound
              fuel s0 s1 Hf Hc Hnd Hrf Ht) as (HM & _ & _ & _).
  assert (Hno1 : no_orig surf s1).
  { intros c cl1 Hk. destruct (Moved_back T surf P (@M6.is_nil R) inv sense _ _ _ _ HM Hk) as (cl & g' & Hcl & ->).
    cbn [with_geom c_orig]. exact (Hno _ _ Hcl). }
  destruct (lat_phase_ready fuel lats s1 sd (conj Hf1 (conj Hc1 (conj Hrf1 Hno1))) Hl)
    as (Hfd & Hcd & _ & Hnod).
  exact (fill_inline_located T surf P (@M6.is_nil R) teqb tr_surf inv sense sense_tr teqb_sound
           fuel cf ifd ifg num den sd s3 rs cells4 Hfd Hcd Hnod Hfill Hinl).
Qed.

(* ---- every element of every lattice cell, in the fully developed table --------------------------- *)
Notation Den := (Den T surf P sense).
Notation nonnil := (fun e : @M6.new_elem R => M6.is_nil (M6.ne_trnsf e) = false).

(* the lattice cells to develop are distinct, present, and their elements carry transformations *)
Definition lats_ok (s : state) (lats : list (Z * list (@M6.new_elem R))) : Prop :=
  NoDup (map fst lats) /\
  forall lk elems, In (lk, elems) lats ->
    (exists lcl, dget lk (s_cells s) = Some lcl) /\ Forall nonnil elems.

Lemma lat_head_step : forall fuel lk elems r (s : state) ks s1,
  ready s -> lats_ok s ((lk, elems) :: r) ->
  L6.develop_state surf teqb tr_surf fuel lk elems s = Ok (ks, s1) ->
  ready (del_cell T surf s1 lk) /\ lats_ok (del_cell T surf s1 lk) r /\
  extends T surf s s1 /\ all_ref_free T surf s1.
Proof.
  intros fuel lk elems r s ks s1 Hr [Hnd Hall] E.
  destruct (Hall lk elems (or_introl eq_refl)) as ((lcl & Hlcl) & Hnn).
  destruct Hr as (Hf & Hc & Hrf & Hno).
  destruct (L6.develop_state_spec surf teqb tr_surf inv sense sense_tr teqb_sound fuel lk lcl elems s ks s1
              (Inv_init T surf P (@M6.is_nil R) inv sense s Hf Hc) Hlcl Hnn E) as (_ & Hx & _).
  destruct (develop_state_plain surf teqb tr_surf _ _ _ _ _ _ Hrf Hno E) as (Hrf1 & _ & _).
  split; [exact (lat_step_ready _ _ _ _ _ _ (conj Hf (conj Hc (conj Hrf Hno))) E)|].
  split; [|split; [exact Hx | exact Hrf1]].
  inversion Hnd as [|? ? Hnin Hnd']; subst. split; [exact Hnd'|].
  intros lk' elems' Hin. destruct (Hall lk' elems' (or_intror Hin)) as ((lcl' & Hl') & Hnn').
  split; [|exact Hnn']. exists lcl'.
  unfold Proofs.del_cell, Proofs.set_cells. cbn [s_cells].
  rewrite dget_ddel_other; [exact (proj1 Hx _ _ Hl')|].
  intros ->. apply Hnin. apply in_map_iff. exists (lk, elems'). auto.
Qed.

Lemma lat_phase_keeps : forall fuel lats (s sd : state),
  ready s -> lats_ok s lats -> lat_phase fuel lats s = Ok sd ->
  forall k cl, ~ In k (map fst lats) -> dget k (s_cells s) = Some cl ->
  dget k (s_cells sd) = Some cl /\ forall p b, Den s p (TRef k) b -> Den sd p (TRef k) b.
Proof.
  intros fuel lats. induction lats as [|[lk elems] r IH]; intros s sd Hr Hok H k cl Hnin Hk; cbn in H.
  - inversion H; subst. auto.
  - destruct (L6.develop_state surf teqb tr_surf fuel lk elems s) as [[ks s1]|] eqn:E; [|discriminate].
    destruct (lat_head_step _ _ _ _ _ _ _ Hr Hok E) as (Hr' & Hok' & Hx & Hrf1).
    assert (Hkl : k <> lk) by (intros ->; apply Hnin; left; reflexivity).
    assert (Hk' : dget k (s_cells (del_cell T surf s1 lk)) = Some cl).
    { unfold Proofs.del_cell, Proofs.set_cells. cbn [s_cells]. rewrite dget_ddel_other by exact Hkl.
      exact (proj1 Hx _ _ Hk). }
    destruct (IH _ _ Hr' Hok' H k cl (fun Hin => Hnin (or_intror Hin)) Hk') as (A & B).
    split; [exact A|]. intros p b HD. apply B.
    apply (Den_del_cell T surf P sense s1 lk p Hrf1 k b Hkl).
    exact (proj1 (Den_mono T surf P sense s s1 p Hx) _ _ HD).
Qed.

Theorem lat_phase_elems : forall fuel lats (s sd : state),
  ready s -> lats_ok s lats -> lat_phase fuel lats s = Ok sd ->
  forall lk elems lcl, In (lk, elems) lats -> dget lk (s_cells s) = Some lcl ->
  exists keys, Forall2 (ElemOf surf inv sense s lk lcl sd) elems keys.
Proof.
  intros fuel lats. induction lats as [|[lk0 elems0] r IH]; intros s sd Hr Hok H lk elems lcl Hin Hlcl;
    [destruct Hin|]. cbn in H.
  destruct (L6.develop_state surf teqb tr_surf fuel lk0 elems0 s) as [[ks s1]|] eqn:E; [|discriminate].
  destruct (lat_head_step _ _ _ _ _ _ _ Hr Hok E) as (Hr' & Hok' & Hx & Hrf1).
  set (s' := del_cell T surf s1 lk0) in *.
  destruct Hin as [Heq|Hin].
  - inversion Heq; subst lk0 elems0; clear Heq.
    destruct Hr as (Hf & Hc & Hrf & Hno). destruct Hok as [Hnd Hall].
    destruct (Hall lk elems (or_introl eq_refl)) as (_ & Hnn).
    destruct (L6.develop_state_spec surf teqb tr_surf inv sense sense_tr teqb_sound fuel lk lcl elems s ks s1
                (Inv_init T surf P (@M6.is_nil R) inv sense s Hf Hc) Hlcl Hnn E) as (_ & _ & HF).
    exists ks. eapply Forall2_imp; [|exact HF].
    intros e k (cl & Hk & E1 & E2 & E3 & E4 & _ & Hfresh & HD).
    assert (Hkl : k <> lk) by (intros ->; rewrite Hlcl in Hfresh; discriminate).
    assert (Hkr : ~ In k (map fst r)).
    { intros Hin. apply in_map_iff in Hin. destruct Hin as ([lk' el'] & <- & Hin').
      destruct (Hall lk' el' (or_intror Hin')) as ((c0 & Hc0) & _). cbn in Hfresh.
      rewrite Hfresh in Hc0. discriminate. }
    assert (Hk' : dget k (s_cells s') = Some cl).
    { unfold s', Proofs.del_cell, Proofs.set_cells. cbn [s_cells]. rewrite dget_ddel_other by exact Hkl.
      exact Hk. }
    destruct (lat_phase_keeps _ _ _ _ Hr' Hok' H k cl Hkr Hk') as (A & B).
    exists cl. split; [exact A|]. split; [exact Hkl|].
    split; [exact E1|]. split; [exact E2|]. split; [exact E3|]. split; [exact E4|]. split.
    + apply by_universe_complete. apply dget_In. exact A.
    + intros p b HDl. apply B. apply (Den_del_cell T surf P sense s1 lk p Hrf1 k b Hkl). apply HD. exact HDl.
  - destruct Hok as [Hnd Hall]. inversion Hnd as [|? ? Hnin _]; subst.
    assert (Hne : lk <> lk0).
    { intros ->. apply Hnin. apply in_map_iff. exists (lk0, elems). auto. }
    assert (Hl' : dget lk (s_cells s') = Some lcl).
    { unfold s', Proofs.del_cell, Proofs.set_cells. cbn [s_cells]. rewrite dget_ddel_other by exact Hne.
      exact (proj1 Hx _ _ Hlcl). }
    destruct (IH _ _ Hr' Hok' H lk elems lcl Hin Hl') as (keys & HF).
    exists keys. eapply Forall2_imp; [|exact HF].
    intros e k (cl & A1 & A2 & A3 & A4 & A5 & A6 & A7 & HD).
    exists cl. repeat (split; [assumption|]).
    intros p b HDs. apply HD.
    apply (Den_del_cell T surf P sense s1 lk0 _ Hrf1 lk b Hne).
    exact (proj1 (Den_mono T surf P sense s s1 _ Hx) _ _ HDs).
Qed.

End Several.

(* ---- non-vacuity: the hypotheses of the two theorems hold on a concrete run --------------------
   (a degenerate surface instance - every surface is its own image and everything is on its
   positive side - satisfies both laws; the table, the element and the chain are concrete) *)
Definition ex_sense (o : nat) (p : @M6.vec R) : bool := true.
Definition ex_trs (t : list R) (o : nat) : nat := o.
Definition ex_inv (t : list R) (p : @M6.vec R) : @M6.vec R := p.
Definition ex_teqb (a b : list R) : bool := false.

Definition ex_t12 : list R := [3; 0; 0; 1; 0; 0; 0; 1; 0; 0; 0; 1]%R.
Definition ex_elem : @M6.new_elem R := M6.mkElem [1] ex_t12 None ex_t12.

(* cell 1 (level 0) filled with universe 1; universe 1 = the lattice cell 5 *)
Definition ex_lat_state : state (list R) nat :=
  mkSt [ (1, mkCell 0 0 (TSurf (-1)) 1 0 (Some 1) None 0 [] []);
         (5, mkCell 7 2 (TSurf (-1)) 1 1 None None 1 [] []) ]
       [(1, 0%nat)] 5 1 [] [].

Definition ex_a1 := match trcl_phase (list R) nat (@M6.is_nil R) ex_teqb ex_trs 5
                            (map fst (s_cells ex_lat_state)) ex_lat_state
                    with Ok s => s | Err _ => ex_lat_state end.
Definition ex_a2 := match L6.develop_state nat ex_teqb ex_trs 5 5 [ex_elem] ex_a1
                    with Ok r => r | Err _ => ([], ex_a1) end.
Definition ex_a3 := match fill_phase (list R) nat (@M6.is_nil R) ex_teqb ex_trs 5 5 false false
                            (del_cell (list R) nat (snd ex_a2) 5)
                    with Ok r => r | Err _ => ([], snd ex_a2) end.
Definition ex_a4 := match inline_cells (list R) 9 1 1 (s_cells (snd ex_a3))
                    with Ok c => c | Err _ => [] end.

Lemma ex_lat_runs :
  (forall t o p, ex_sense (ex_trs t o) p = ex_sense o (ex_inv t p)) /\
  (forall a b, ex_teqb a b = true ->
     M6.is_nil a = M6.is_nil b /\ forall p, ex_inv a p = ex_inv b p) /\
  trcl_phase (list R) nat (@M6.is_nil R) ex_teqb ex_trs 5 (map fst (s_cells ex_lat_state)) ex_lat_state
    = Ok ex_a1 /\
  dget 5 (s_cells ex_a1) = Some (mkCell 7 2 (TSurf (-1)) 1 1 None None 1 [] []) /\
  L6.develop_state nat ex_teqb ex_trs 5 5 [ex_elem] ex_a1 = Ok ex_a2 /\
  fill_phase (list R) nat (@M6.is_nil R) ex_teqb ex_trs 5 5 false false
             (del_cell (list R) nat (snd ex_a2) 5) = Ok ex_a3 /\
  inline_cells (list R) 9 1 1 (s_cells (snd ex_a3)) = Ok ex_a4 /\
  fst ex_a2 = [6] /\ fst ex_a3 = [[7]].
Proof.
  split; [reflexivity|]. split; [discriminate|].
  split; [vm_compute; reflexivity|]. split; [vm_compute; reflexivity|].
  split; [vm_compute; reflexivity|]. split; [vm_compute; reflexivity|].
  split; [vm_compute; reflexivity|]. split; vm_compute; reflexivity.
Qed.
