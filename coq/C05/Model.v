(* C05 — model of the universe / FILL path (layer H), discrete and state-threaded:
     Volume/ByUniverse.py          by_universe
     Volume/CellConversion.py      pot_fill, pot_transform, cell_transform (+ cell_transform_cache /
                                   cell_transform_rcache, the [cache] flag), apply_trcl,
                                   counters new_cell_key / new_surf_key
     Volume/ConstructVolumeT4.py   the "treat TRCL" and "treat FILL" loops of construct_volume_t4
     Volume/CellMCNP.py            CellMCNP.copy (which fields a copy keeps)
   Surfaces are abstract objects of a type [surf] with an action [tr_surf : T -> surf -> surf]
   (Transformation.transformation applied to every member of the surface's list); transformations
   are values of a type [T] with the two things the code does with them: truthiness
   ([tr_empty] = Python's [not transform]) and equality of [tuple(transform)] ([teqb], the cache key).
   Python dicts are insertion-ordered association lists with Python's update semantics.
   Executable; proofs live in C05/Proofs*.v. *)
From Coq Require Import List ZArith Bool.
Import ListNotations.
Open Scope Z_scope.

(* Python exceptions the path can raise: KeyError (missing cell / surface id) and
   RecursionError (cyclic cell references or a universe filling itself); TypeError only in
   CellInlining.extract_subcells on a geometry that is a bare CellRef *)
Inductive err := EKey | EFuel | EType.
Inductive res (A : Type) := Ok (a : A) | Err (e : err).
Arguments Ok {A}. Arguments Err {A}.

(* geometry trees at this stage of the conversion: signed surface ids, CellRef(c),
   ('^', Cell c) complement nodes (present until pot_complement runs), n-ary '*' / ':' nodes *)
Inductive tree :=
| TSurf (x : Z)
| TRef (c : Z)
| TCompl (c : Z)
| TNode (inter : bool) (args : list tree).

(* ---- Python dict on integer keys --------------------------------------------------- *)
Fixpoint dget {V : Type} (k : Z) (d : list (Z * V)) : option V :=
  match d with
  | [] => None
  | (k', v) :: r => if k =? k' then Some v else dget k r
  end.

(* d[k] = v : replace in place, or append a new key *)
Fixpoint dset {V : Type} (k : Z) (v : V) (d : list (Z * V)) : list (Z * V) :=
  match d with
  | [] => [(k, v)]
  | (k', v') :: r => if k =? k' then (k, v) :: r else (k', v') :: dset k v r
  end.

(* defaultdict(list)[k] *)
Definition du_get (k : Z) (d : list (Z * list Z)) : list Z :=
  match dget k d with Some l => l | None => [] end.

(* d.setdefault(k, []).append(x) *)
Definition dappend {X : Type} (k : Z) (x : X) (d : list (Z * list X)) : list (Z * list X) :=
  match dget k d with
  | Some l => dset k (l ++ [x]) d
  | None => dset k [x] d
  end.

(* ---- state-threaded list traversals (f is a section variable so that nested recursive
   calls through them are accepted by the guard checker, as with List.map) -------------- *)
Section ListM.
Context {A B S : Type}.
Variable f : A -> S -> res (B * S).
(* [f(x) for x in l], left to right *)
Fixpoint mapM_st (l : list A) (s : S) : res (list B * S) :=
  match l with
  | [] => Ok ([], s)
  | a :: r =>
      match f a s with
      | Err x => Err x
      | Ok (b, s1) =>
          match mapM_st r s1 with
          | Err x => Err x
          | Ok (bs, s2) => Ok (b :: bs, s2)
          end
      end
  end.
End ListM.

Section ConcatM.
Context {A B S : Type}.
Variable f : A -> S -> res (list B * S).
(* tuple(y for x in l for y in f(x)) *)
Fixpoint concatM_st (l : list A) (s : S) : res (list B * S) :=
  match l with
  | [] => Ok ([], s)
  | a :: r =>
      match f a s with
      | Err x => Err x
      | Ok (bs, s1) =>
          match concatM_st r s1 with
          | Err x => Err x
          | Ok (bs', s2) => Ok (bs ++ bs', s2)
          end
      end
  end.
End ConcatM.

Section Model.
Variable T : Type.                      (* transformations (12-tuples of floats, or empty) *)
Variable surf : Type.                   (* entries of dic_surf_mcnp *)
Variable tr_empty : T -> bool.          (* Python: [not transform] *)
Variable teqb : T -> T -> bool.         (* tuple(t1) == tuple(t2) *)
Variable tr_surf : T -> surf -> surf.   (* [(transformation(t, s), side) for s, side in surfs] *)

(* CellMCNP; material, density, importance and lattice flag are opaque tokens here *)
Record cell := mkCell {
  c_mat : Z; c_rho : Z; c_geom : tree; c_imp : Z; c_univ : Z;
  c_fill : option Z;            (* fillid *)
  c_filltr : option T;          (* filltr: None, or a (possibly empty) tuple *)
  c_lat : Z;
  c_trcl : list T;
  c_orig : list (Z * Z)         (* idorigin: (filler cell, container cell) pairs *)
}.

Definition with_geom (c : cell) (g : tree) : cell :=
  mkCell (c_mat c) (c_rho c) g (c_imp c) (c_univ c) (c_fill c) (c_filltr c) (c_lat c)
         (c_trcl c) (c_orig c).

(* the part of CellConversion this path reads and writes *)
Record state := mkSt {
  s_cells : list (Z * cell);                 (* dic_cell_mcnp *)
  s_surfs : list (Z * surf);                 (* dic_surf_mcnp *)
  s_nck : Z;                                 (* new_cell_key *)
  s_nsk : Z;                                 (* new_surf_key *)
  s_cache : list ((Z * T) * Z);              (* cell_transform_cache *)
  s_rcache : list (Z * list (Z * T))         (* cell_transform_rcache *)
}.

Fixpoint cget (k : Z) (t : T) (d : list ((Z * T) * Z)) : option Z :=
  match d with
  | [] => None
  | ((k', t'), v) :: r => if (k =? k') && teqb t t' then Some v else cget k t r
  end.

Fixpoint cset (k : Z) (t : T) (v : Z) (d : list ((Z * T) * Z)) : list ((Z * T) * Z) :=
  match d with
  | [] => [((k, t), v)]
  | ((k', t'), v') :: r =>
      if (k =? k') && teqb t t' then ((k', t'), v) :: r else ((k', t'), v') :: cset k t v r
  end.

(* cache[(k,t)] = v ; rcache.setdefault(v, []).append((k,t)) *)
Definition add_cache (k : Z) (t : T) (v : Z) (s : state) : state :=
  mkSt (s_cells s) (s_surfs s) (s_nck s) (s_nsk s)
       (cset k t v (s_cache s)) (dappend v (k, t) (s_rcache s)).

(* ---- pot_transform on a non-empty transformation -------------------------------------
   [ct] is what happens at a CellRef: cell_transform(c, t) with the default cache=True *)
Fixpoint pot_transform_gen (ct : Z -> state -> res (Z * state)) (t : T) (e : tree) (s : state)
  : res (tree * state) :=
  match e with
  | TSurf x =>
      match dget (Z.abs x) (s_surfs s) with
      | None => Err EKey
      | Some o =>
          let k := s_nsk s + 1 in
          Ok (TSurf (if 0 <=? x then k else - k),
              mkSt (s_cells s) (dset k (tr_surf t o) (s_surfs s)) (s_nck s) k
                   (s_cache s) (s_rcache s))
      end
  | TRef c =>
      match ct c s with
      | Ok (k, s') => Ok (TRef k, s')
      | Err x => Err x
      end
  | TCompl _ => Ok (e, s)                 (* complements stay complements at this stage *)
  | TNode op args =>
      match mapM_st (pot_transform_gen ct t) args s with
      | Ok (args', s') => Ok (TNode op args', s')
      | Err x => Err x
      end
  end.

(* cell_transform(cell_key, transform, cache) *)
Fixpoint cell_transform (fuel : nat) (k : Z) (t : T) (cache : bool) (s : state)
  : res (Z * state) :=
  match fuel with
  | O => Err EFuel
  | S f =>
      match (if cache then cget k t (s_cache s) else None) with
      | Some k' => Ok (k', s)
      | None =>
          if tr_empty t then Ok (k, if cache then add_cache k t k s else s)
          else
            match dget k (s_cells s) with
            | None => Err EKey
            | Some cl =>
                match pot_transform_gen (fun c => cell_transform f c t true) t (c_geom cl) s with
                | Err x => Err x
                | Ok (g', s1) =>
                    let nk := s_nck s1 + 1 in
                    let s2 := mkSt (dset nk (with_geom cl g') (s_cells s1)) (s_surfs s1) nk
                                   (s_nsk s1) (s_cache s1) (s_rcache s1) in
                    Ok (nk, if cache then add_cache k t nk s2 else s2)
                end
            end
      end
  end.

(* pot_transform(p_tree, p_transf) *)
Definition pot_transform (fuel : nat) (t : T) (e : tree) (s : state) : res (tree * state) :=
  if tr_empty t then Ok (e, s)
  else pot_transform_gen (fun c => cell_transform fuel c t true) t e s.

(* apply_trcl(trcls, geometry) *)
Fixpoint apply_trcl (fuel : nat) (trcls : list T) (g : tree) (s : state) : res (tree * state) :=
  match trcls with
  | [] => Ok (g, s)
  | t :: r =>
      match pot_transform fuel t g s with
      | Err x => Err x
      | Ok (g', s') => apply_trcl fuel r g' s'
      end
  end.

(* ---- pot_fill ------------------------------------------------------------------------ *)
(* for trcl in cell.trcl: new_elt_key = cell_transform(new_elt_key, trcl, cache) *)
Fixpoint transform_seq (fuel : nat) (k : Z) (ts : list T) (cache : bool) (s : state)
  : res (Z * state) :=
  match ts with
  | [] => Ok (k, s)
  | t :: r =>
      match cell_transform fuel k t cache s with
      | Err x => Err x
      | Ok (k', s') => transform_seq fuel k' r cache s'
      end
  end.

(* the transformation step of pot_fill: a truthy filltr wins over TRCL *)
Definition place_filler (fuel : nat) (cl : cell) (element : Z) (cache : bool) (s : state)
  : res (Z * state) :=
  match c_filltr cl with
  | Some ft =>
      if tr_empty ft then transform_seq fuel element (c_trcl cl) cache s
      else cell_transform fuel element ft cache s
  | None => transform_seq fuel element (c_trcl cl) cache s
  end.

Definition head_or (l : list (Z * Z)) (d : Z) : Z :=
  match l with (a, _) :: _ => a | [] => d end.

(* one iteration of "for element in to_process"; [cl] is the container fetched on entry *)
Definition fill_one (cf : nat) (ifd ifg : bool) (key : Z) (cl : cell) (element : Z) (s : state)
  : res (Z * state) :=
  match dget element (s_cells s) with
  | None => Err EKey
  | Some ecl =>
      let orig := c_orig ecl ++ [(head_or (c_orig ecl) element, head_or (c_orig cl) key)] in
      match place_filler cf cl element (negb ifg) s with
      | Err x => Err x
      | Ok (nek, s1) =>
          let lft := if ifd then c_geom cl else TRef key in
          match (if ifg then match dget nek (s_cells s1) with
                             | Some ncl => Ok (c_geom ncl)
                             | None => Err EKey
                             end
                 else Ok (TRef nek)) with
          | Err x => Err x
          | Ok rgt =>
              let nk := s_nck s1 + 1 in
              let ncell := mkCell (c_mat ecl) (c_rho ecl) (TNode true [lft; rgt]) (c_imp cl)
                                  (c_univ cl) None (c_filltr cl) (c_lat cl) (c_trcl cl) orig in
              Ok (nk, mkSt (dset nk ncell (s_cells s1)) (s_surfs s1) nk (s_nsk s1)
                           (s_cache s1) (s_rcache s1))
          end
      end
  end.

Definition fill_loop (cf : nat) (ifd ifg : bool) (key : Z) (cl : cell) (elements : list Z) (s : state)
  : res (list Z * state) :=
  mapM_st (fill_one cf ifd ifg key cl) elements s.

(* pot_fill(key, dict_universe, inline_filled, inline_filling); [fuel] bounds the universe
   nesting, [cf] the CellRef nesting inside cell_transform *)
Fixpoint pot_fill (fuel cf : nat) (du : list (Z * list Z)) (ifd ifg : bool) (key : Z) (s : state)
  : res (list Z * state) :=
  match fuel with
  | O => Err EFuel
  | S f =>
      match dget key (s_cells s) with
      | None => Err EKey
      | Some cl =>
          match c_fill cl with
          | None => Ok ([key], s)
          | Some u =>
              match concatM_st (pot_fill f cf du ifd ifg) (du_get u du) s with
              | Err x => Err x
              | Ok (to_process, s1) => fill_loop cf ifd ifg key cl to_process s1
              end
          end
      end
  end.

(* ---- ByUniverse.by_universe ---------------------------------------------------------- *)
Definition by_universe (cells : list (Z * cell)) : list (Z * list Z) :=
  fold_left (fun du kc => dappend (c_univ (snd kc)) (fst kc) du) cells [].

(* ---- the two loops of construct_volume_t4 -------------------------------------------- *)
(* for key in trcl_keys: cell.geometry = apply_trcl(cell.trcl, cell.geometry) *)
Fixpoint trcl_phase (fuel : nat) (keys : list Z) (s : state) : res state :=
  match keys with
  | [] => Ok s
  | k :: r =>
      match dget k (s_cells s) with
      | None => Err EKey
      | Some cl =>
          match apply_trcl fuel (c_trcl cl) (c_geom cl) s with
          | Err x => Err x
          | Ok (g', s1) =>
              trcl_phase fuel r (mkSt (dset k (with_geom cl g') (s_cells s1)) (s_surfs s1)
                                      (s_nck s1) (s_nsk s1) (s_cache s1) (s_rcache s1))
          end
      end
  end.

Definition is_some {A : Type} (o : option A) : bool := match o with Some _ => true | None => false end.

Definition fill_keys (cells : list (Z * cell)) : list Z :=
  map fst (filter (fun kc => is_some (c_fill (snd kc)) && (c_univ (snd kc) =? 0)) cells).

Definition fill_each (fuel cf : nat) (du : list (Z * list Z)) (ifd ifg : bool) (keys : list Z)
           (s : state) : res (list (list Z) * state) :=
  mapM_st (pot_fill fuel cf du ifd ifg) keys s.

(* dict_universe = by_universe(mcnp_dict); fill_keys = [...]; for key in fill_keys: pot_fill *)
Definition fill_phase (fuel cf : nat) (ifd ifg : bool) (s : state) : res (list (list Z) * state) :=
  fill_each fuel cf (by_universe (s_cells s)) ifd ifg (fill_keys (s_cells s)) s.

(* ---- CellInlining.inline_cells ---------------------------------------------------------- *)
(* trees at this stage have no ('^', c) node left (pot_complement ran before FILL); the model
   leaves one untouched *)

(* extract_subcells(geometry): CellRefs among the arguments, depth first; unpacking a bare
   CellRef raises TypeError *)
Fixpoint subcells_args (e : tree) : list Z :=
  match e with
  | TNode _ args => flat_map (fun a => match a with
                                       | TRef c => [c]
                                       | TNode _ _ => subcells_args a
                                       | _ => []
                                       end) args
  | _ => []
  end.

Definition extract_subcells (e : tree) : res (list Z) :=
  match e with
  | TSurf _ => Ok []
  | TRef _ => Err EType
  | TCompl _ => Ok []
  | TNode _ _ => Ok (subcells_args e)
  end.

(* geometry_size *)
Fixpoint geometry_size (e : tree) : Z :=
  match e with
  | TNode _ args => fold_right (fun a acc => geometry_size a + acc) 0 args
  | TCompl _ => 1
  | _ => 1
  end.

Definition zmem (k : Z) (l : list Z) : bool := existsb (Z.eqb k) l.

(* "for subcell in subcells": occurrences[subcell].append(key); enqueue once *)
Fixpoint occ_push (key : Z) (subs : list Z) (stack enq : list Z) (occ : list (Z * list Z))
  : list Z * list Z * list (Z * list Z) :=
  match subs with
  | [] => (stack, enq, occ)
  | c :: r =>
      let occ' := dappend c key occ in
      if zmem c enq then occ_push key r stack enq occ'
      else occ_push key r (c :: stack) (c :: enq) occ'
  end.

(* find_occurrences: [stack] has its top first (key_stack.pop() takes the last element) *)
Fixpoint occ_loop (fuel : nat) (cells : list (Z * cell)) (stack enq : list Z)
         (occ : list (Z * list Z)) : res (list (Z * list Z)) :=
  match stack with
  | [] => Ok occ
  | key :: rest =>
      match fuel with
      | O => Err EFuel
      | S f =>
          match dget key cells with
          | None => Err EKey
          | Some cl =>
              match extract_subcells (c_geom cl) with
              | Err x => Err x
              | Ok subs =>
                  let '(st, en, oc) := occ_push key subs rest enq occ in
                  occ_loop f cells st en oc
              end
          end
      end
  end.

(* a while loop in Python: every key is enqueued at most once and must exist when popped, so
   the number of cells bounds the number of iterations *)
Definition find_occurrences (cells : list (Z * cell)) : res (list (Z * list Z)) :=
  let keys0 := map fst (filter (fun kc => c_univ (snd kc) =? 0) cells) in
  occ_loop (S (List.length cells)) cells (rev keys0) keys0 [].

(* compute_inlining_scores + the threshold test, with max_inline_score = num / den (den > 0):
   score < max  <->  0 < num  for a cell occurring at most once,
                     size * den < num * n  otherwise *)
Fixpoint to_inline_set (cells : list (Z * cell)) (num den : Z) (occ : list (Z * list Z))
  : res (list Z) :=
  match occ with
  | [] => Ok []
  | (key, occurs) :: r =>
      let n := Z.of_nat (List.length occurs) in
      match (if n <=? 1 then Ok (0 <? num)
             else match dget key cells with
                  | None => Err EKey
                  | Some cl => Ok (geometry_size (c_geom cl) * den <? num * n)
                  end) with
      | Err x => Err x
      | Ok b =>
          match to_inline_set cells num den r with
          | Err x => Err x
          | Ok l => Ok (if b then key :: l else l)
          end
      end
  end.

Section MapM.
Context {A B : Type}.
Variable f : A -> res B.
Fixpoint mapM_res (l : list A) : res (list B) :=
  match l with
  | [] => Ok []
  | a :: r => match f a with
              | Err x => Err x
              | Ok b => match mapM_res r with Err x => Err x | Ok bs => Ok (b :: bs) end
              end
  end.
End MapM.

(* inline_cells_worker(geometry, dic, to_inline) *)
Fixpoint inline_worker (fuel : nat) (cells : list (Z * cell)) (ti : list Z) (e : tree) : res tree :=
  match fuel with
  | O => Err EFuel
  | S f =>
      match e with
      | TNode op args =>
          match mapM_res (fun a =>
                   match a with
                   | TRef c =>
                       if zmem c ti then
                         match dget c cells with
                         | None => Err EKey
                         | Some cl => inline_worker f cells ti (c_geom cl)
                         end
                       else Ok a
                   | TNode _ _ => inline_worker f cells ti a
                   | _ => Ok a
                   end) args with
          | Err x => Err x
          | Ok args' => Ok (TNode op args')
          end
      | _ => Ok e
      end
  end.

(* "for key, cell in dic.items(): cell.geometry = inline_cells_worker(cell.geometry, dic, ...)":
   in place, so later cells see the geometries already rewritten *)
Fixpoint inline_loop (fuel : nat) (keys : list Z) (ti : list Z) (cells : list (Z * cell))
  : res (list (Z * cell)) :=
  match keys with
  | [] => Ok cells
  | k :: r =>
      match dget k cells with
      | None => Err EKey
      | Some cl =>
          match inline_worker fuel cells ti (c_geom cl) with
          | Err x => Err x
          | Ok g' => inline_loop fuel r ti (dset k (with_geom cl g') cells)
          end
      end
  end.

(* inline_cells(dic, max_inline_score) *)
Definition inline_cells (fuel : nat) (num den : Z) (cells : list (Z * cell)) : res (list (Z * cell)) :=
  match find_occurrences cells with
  | Err x => Err x
  | Ok occ =>
      match occ with
      | [] => Ok cells
      | _ =>
          match to_inline_set cells num den occ with
          | Err x => Err x
          | Ok ti =>
              match ti with
              | [] => Ok cells
              | _ => inline_loop fuel (map fst cells) ti cells
              end
          end
      end
  end.

End Model.

Arguments mkCell {T}.
Arguments c_mat {T}. Arguments c_rho {T}. Arguments c_geom {T}. Arguments c_imp {T}.
Arguments c_univ {T}. Arguments c_fill {T}. Arguments c_filltr {T}. Arguments c_lat {T}.
Arguments c_trcl {T}. Arguments c_orig {T}.
Arguments with_geom {T}.
Arguments mkSt {T surf}.
Arguments s_cells {T surf}. Arguments s_surfs {T surf}. Arguments s_nck {T surf}.
Arguments s_nsk {T surf}. Arguments s_cache {T surf}. Arguments s_rcache {T surf}.
Arguments by_universe {T}.
Arguments fill_keys {T}.

(* ---- ParseMCNPCell.parse_fill_kw / parse_trcl_kw: which transformation a keyword yields --------
   The numbers are abstract tokens (Z codes chosen by the harness, 0 = 0.0 and 1 = 1.0);
   [trid] = int(params[0]) is used only when there is exactly one number; [table] = the TR cards.
   Three numbers are a translation completed with the identity matrix, also for the starred
   keywords and also when the three numbers are 0 (the result is the 12-entry identity, not the
   empty tuple); a FILL / *FILL keyword without any number yields () (pot_fill then falls back
   to the TRCL; /repo c2e06ed), while a starred TRCL without any number still goes through
   normalize_transform([]) and yields the identity (harmless there); more numbers go through to_cos / normalize_transform (numeric layer: C04/C17),
   which is opaque here. *)
Inductive trshape := TSList (l : list Z) | TSNorm.

Definition identity12 : list Z := [0; 0; 0; 1; 0; 0; 0; 1; 0; 0; 0; 1].

Definition parse_tr_params (is_fill star : bool) (trid : Z) (params : list Z)
           (table : list (Z * list Z)) : res trshape :=
  match params with
  | [] => if star && negb is_fill then Ok (TSList identity12)   (* normalize_transform([]) *)
          else Ok (TSList [])
  | [_] => match dget trid table with
           | None => Err EKey
           | Some l => Ok (TSList (firstn 12 l))
           end
  | [a; b; c] => Ok (TSList [a; b; c; 1; 0; 0; 0; 1; 0; 0; 0; 1])
  | _ => Ok TSNorm
  end.

(* ---- ParseMCNPCell.parse_one_cell_worker: the fields of a CellMCNP that come from the U, FILL
   and TRCL keywords (no LAT).  [mk] = tuple(...) of the resulting numbers as a transformation,
   [norm] = to_cos + normalize_transform on four or more numbers (numeric layer, opaque). *)
Section Keywords.
Variable T : Type.
Variable mk : list Z -> T.
Variable norm : bool -> list Z -> list Z.

Definition kw_tuple (is_fill star : bool) (trid : Z) (params : list Z) (table : list (Z * list Z))
  : res (list Z) :=
  match parse_tr_params is_fill star trid params table with
  | Err x => Err x
  | Ok (TSList l) => Ok l
  | Ok TSNorm => Ok (norm star params)
  end.

(* fill = (starred, universe, int(first number), numbers); trcl = (starred, int(first number),
   numbers); u = the number after U (the code takes its absolute value) *)
Definition cell_of_keywords (table : list (Z * list Z)) (mat rho : Z) (geom : tree) (imp : Z)
           (u : option Z) (fill : option (bool * Z * Z * list Z)) (trcl : option (bool * Z * list Z))
  : res (cell T) :=
  match (match fill with
         | None => Ok (None, None)
         | Some (star, univ, trid, params) =>
             match kw_tuple true star trid params table with
             | Err x => Err x
             | Ok l => Ok (Some univ, Some (mk l))
             end
         end) with
  | Err x => Err x
  | Ok (fillid, filltr) =>
      match (match trcl with
             | None => Ok []
             | Some (star, trid, params) =>
                 match kw_tuple false star trid params table with
                 | Err x => Err x
                 | Ok [] => Ok []                     (* [] if not kws['trcl'] *)
                 | Ok l => Ok [mk l]
                 end
             end) with
      | Err x => Err x
      | Ok trcls =>
          Ok (mkCell mat rho geom imp (match u with Some n => Z.abs n | None => 0 end)
                     fillid filltr 0 trcls [])
      end
  end.
End Keywords.
