(* C05 — executable instance of the model and the comparison functions used by the generated
   correspondence files.  Transformations are small integers naming the distinct tuples of a
   case (0 = the empty tuple); surfaces are free terms recording which transformation was
   applied to which earlier surface, which the harness observes numerically on the planes of
   dic_surf_mcnp. *)
From Coq Require Import List ZArith Bool.
From T4V Require Import Base.Cases C05.Model.
Import ListNotations.
Open Scope Z_scope.

Inductive sterm := SBase (id : Z) | STr (t : Z) (s : sterm).

Fixpoint sterm_eqb (a b : sterm) : bool :=
  match a, b with
  | SBase x, SBase y => x =? y
  | STr t x, STr u y => (t =? u) && sterm_eqb x y
  | _, _ => false
  end.

Definition xcell := cell Z.
Definition xstate := state Z sterm.

Definition x_empty (t : Z) : bool := t =? 0.

Definition x_cell_transform := cell_transform Z sterm x_empty Z.eqb STr.
Definition x_pot_fill := pot_fill Z sterm x_empty Z.eqb STr.
Definition x_fill_phase := fill_phase Z sterm x_empty Z.eqb STr.
Definition x_trcl_phase := trcl_phase Z sterm x_empty Z.eqb STr.

Fixpoint tree_eqb (a b : tree) : bool :=
  match a, b with
  | TSurf x, TSurf y => x =? y
  | TRef x, TRef y => x =? y
  | TCompl x, TCompl y => x =? y
  | TNode o1 l1, TNode o2 l2 =>
      Bool.eqb o1 o2 &&
      (fix go (l1 l2 : list tree) : bool :=
         match l1, l2 with
         | [], [] => true
         | x :: r1, y :: r2 => tree_eqb x y && go r1 r2
         | _, _ => false
         end) l1 l2
  | _, _ => false
  end.

Definition zz_eqb (a b : Z * Z) : bool := (fst a =? fst b) && (snd a =? snd b).

Definition cell_eqb (a b : xcell) : bool :=
  (c_mat a =? c_mat b) && (c_rho a =? c_rho b) && tree_eqb (c_geom a) (c_geom b) &&
  (c_imp a =? c_imp b) && (c_univ a =? c_univ b) && option_eqb Z.eqb (c_fill a) (c_fill b) &&
  option_eqb Z.eqb (c_filltr a) (c_filltr b) && (c_lat a =? c_lat b) &&
  list_eqb Z.eqb (c_trcl a) (c_trcl b) && list_eqb zz_eqb (c_orig a) (c_orig b).

(* what the harness saw after the run *)
Record observed := mkObs {
  o_du : list (Z * list Z);                   (* dict(by_universe(dic_cell_mcnp)) before FILL *)
  o_results : list (list Z);                  (* what each pot_fill call returned *)
  o_cells : list (Z * xcell);                 (* dic_cell_mcnp, in dict order *)
  o_surfs : list (Z * list (Z * Z));          (* every key of dic_surf_mcnp above the base ones:
                                                 the (t, source id) pairs whose image it equals *)
  o_nck : Z; o_nsk : Z;
  o_cache : list ((Z * Z) * Z);
  o_rcache : list (Z * list (Z * Z));
  (* helper-level observations: the two cache dictionaries and the two counters are private
     attributes of CellConversion; when a rewrite of the code keeps them elsewhere the harness
     cannot read them and says so, and they are not compared (the cells, the generated surfaces
     and the returned lists, which the caches and counters determine, still are) *)
  o_cache_known : bool;
  o_counters_known : bool
}.

Inductive outcome := OErr (e : Z) (* 1 = KeyError, 2 = RecursionError, 3 = TypeError *) | OOk (o : observed).

Record tcase := mkCase {
  k_cells : list (Z * xcell);
  k_surfs : list Z;                           (* base surface ids *)
  k_nck : Z; k_nsk : Z;
  k_trcl : bool;                              (* run the TRCL loop first *)
  k_ifd : bool; k_ifg : bool;                 (* inline_filled, inline_filling *)
  k_inl : option (Z * Z);                     (* then inline_cells with max_inline_score = num/den *)
  k_out : outcome
}.

Definition fuel0 : nat := 40.

Definition init_state (c : tcase) : xstate :=
  mkSt (k_cells c) (map (fun i => (i, SBase i)) (k_surfs c)) (k_nck c) (k_nsk c) [] [].

(* by_universe is taken after the TRCL loop, as in construct_volume_t4 *)
Definition run_case (c : tcase) : res (list (Z * list Z) * list (list Z) * xstate) :=
  match (if k_trcl c then x_trcl_phase fuel0 (map fst (k_cells c)) (init_state c)
         else Ok (init_state c)) with
  | Err x => Err x
  | Ok s0 =>
      match x_fill_phase fuel0 fuel0 (k_ifd c) (k_ifg c) s0 with
      | Err x => Err x
      | Ok (rs, s1) =>
          match k_inl c with
          | None => Ok (by_universe (s_cells s0), rs, s1)
          | Some (num, den) =>
              match inline_cells Z fuel0 num den (s_cells s1) with
              | Err x => Err x
              | Ok cells' =>
                  Ok (by_universe (s_cells s0), rs,
                      mkSt cells' (s_surfs s1) (s_nck s1) (s_nsk s1) (s_cache s1) (s_rcache s1))
              end
          end
      end
  end.

(* the model's surface table explains an observed surface: one of the candidate
   (t, source) pairs is what the model recorded *)
Definition surf_ok (surfs : list (Z * sterm)) (ob : Z * list (Z * Z)) : bool :=
  match dget (fst ob) surfs with
  | None => false
  | Some term =>
      existsb (fun ts => match dget (snd ts) surfs with
                         | Some src => sterm_eqb term (STr (fst ts) src)
                         | None => false
                         end) (snd ob)
  end.

Definition ckey_eqb (a b : (Z * Z) * Z) : bool := zz_eqb (fst a) (fst b) && (snd a =? snd b).

(* equality of two dicts as finite maps (same size, every entry of one in the other) *)
Definition same_entries {A} (e : A -> A -> bool) (a b : list A) : bool :=
  (Nat.eqb (List.length a) (List.length b)) &&
  forallb (fun x => existsb (e x) b) a && forallb (fun y => existsb (fun x => e x y) a) b.

Definition check_obs (du : list (Z * list Z)) (rs : list (list Z)) (s : xstate) (nbase : nat)
           (o : observed) : bool :=
  list_eqb (pair_eqb Z.eqb (list_eqb Z.eqb)) du (o_du o) &&
  list_eqb (list_eqb Z.eqb) rs (o_results o) &&
  list_eqb (pair_eqb Z.eqb cell_eqb) (s_cells s) (o_cells o) &&
  Nat.eqb (List.length (s_surfs s)) (nbase + List.length (o_surfs o)) &&
  forallb (surf_ok (s_surfs s)) (o_surfs o) &&
  (negb (o_counters_known o) || ((s_nck s =? o_nck o) && (s_nsk s =? o_nsk o))) &&
  (negb (o_cache_known o) ||
   (same_entries ckey_eqb (s_cache s) (o_cache o) &&
    same_entries (pair_eqb Z.eqb (list_eqb zz_eqb)) (s_rcache s) (o_rcache o))).

Definition check_case (c : tcase) : bool :=
  match run_case c, k_out c with
  | Err EKey, OErr 1 => true
  | Err EFuel, OErr 2 => true
  | Err EType, OErr 3 => true
  | Ok (du, rs, s), OOk o => check_obs du rs s (List.length (k_surfs c)) o
  | _, _ => false
  end.

(* which component differs (for the replay / diagnostics): 0 = all equal *)
Definition diagnose (c : tcase) : Z :=
  match run_case c, k_out c with
  | Err EKey, OErr 1 => 0
  | Err EFuel, OErr 2 => 0
  | Err EType, OErr 3 => 0
  | Ok (du, rs, s), OOk o =>
      if negb (list_eqb (pair_eqb Z.eqb (list_eqb Z.eqb)) du (o_du o)) then 1
      else if negb (list_eqb (list_eqb Z.eqb) rs (o_results o)) then 2
      else if negb (list_eqb (pair_eqb Z.eqb cell_eqb) (s_cells s) (o_cells o)) then 3
      else if negb (Nat.eqb (List.length (s_surfs s)) (List.length (k_surfs c) + List.length (o_surfs o))
                    && forallb (surf_ok (s_surfs s)) (o_surfs o)) then 4
      else if o_counters_known o && negb ((s_nck s =? o_nck o) && (s_nsk s =? o_nsk o)) then 5
      else if o_cache_known o && negb (same_entries ckey_eqb (s_cache s) (o_cache o)) then 6
      else if o_cache_known o &&
              negb (same_entries (pair_eqb Z.eqb (list_eqb zz_eqb)) (s_rcache s) (o_rcache o)) then 7
      else 0
  | Err _, OOk _ => 8
  | Ok _, OErr _ => 9
  | _, _ => 10
  end.

(* ---- parse_fill_kw / parse_trcl_kw ------------------------------------------------------------ *)
(* observed: KeyError, or the returned tuple as codes together with the harness's independent
   numeric verdict on it (used only where the model says "normalised") *)
Inductive kw_out := KErr (e : Z) | KOk (l : list Z) (numeric_ok : bool).

Record kwcase := mkKw {
  w_fill : bool; w_star : bool; w_trid : Z; w_params : list Z; w_table : list (Z * list Z); w_out : kw_out
}.

Definition check_kw (c : kwcase) : bool :=
  match parse_tr_params (w_fill c) (w_star c) (w_trid c) (w_params c) (w_table c), w_out c with
  | Err EKey, KErr 1 => true
  | Ok (TSList l), KOk l' _ => list_eqb Z.eqb l l'
  | Ok TSNorm, KOk l' ok => Nat.eqb (List.length l') 12 && ok
  | _, _ => false
  end.

(* ---- parse_one_cell_worker: universe, fillid, filltr, trcl of the CellMCNP -------------------- *)
Inductive ck_out :=
| CErr (e : Z)
| COk (univ : Z) (fillid : option Z) (filltr : option (list Z)) (trcl : list (list Z))
      (numeric_ok : bool).

Record ckcase := mkCk {
  q_table : list (Z * list Z);
  q_u : option Z;
  q_fill : option (bool * Z * Z * list Z);
  q_trcl : option (bool * Z * list Z);
  q_norms : list (list Z * list Z);       (* what normalize_transform returned, checked
                                             numerically by the harness *)
  q_out : ck_out
}.

Fixpoint norm_lookup (norms : list (list Z * list Z)) (params : list Z) : list Z :=
  match norms with
  | [] => []
  | (ps, v) :: r => if list_eqb Z.eqb ps params then v else norm_lookup r params
  end.

Definition check_cell_kw (c : ckcase) : bool :=
  match cell_of_keywords (list Z) (fun l => l) (fun _ ps => norm_lookup (q_norms c) ps)
                         (q_table c) 0 0 (TSurf 1) 0 (q_u c) (q_fill c) (q_trcl c), q_out c with
  | Err EKey, CErr 1 => true
  | Ok cl, COk univ fillid filltr trcl ok =>
      ok && (c_univ cl =? univ) && option_eqb Z.eqb (c_fill cl) fillid &&
      option_eqb (list_eqb Z.eqb) (c_filltr cl) filltr &&
      list_eqb (list_eqb Z.eqb) (c_trcl cl) trcl
  | _, _ => false
  end.
