(* C05 — the executable instance used by the correspondence check satisfies the hypotheses of the
   theorems (with a one-dimensional reading of its free surface terms), and a concrete deck with
   two levels of universes on which every hypothesis holds. *)
From Coq Require Import List ZArith Bool Lia.
From T4V Require Import C05.Model C05.Spec C05.Proofs C05.Exec.
Import ListNotations.
Open Scope Z_scope.

(* points on a line; motion t = translation by t; SBase a = the plane x = a, positive side x > a;
   STr t s = s moved by t *)
Definition x_inv (t : Z) (p : Z) : Z := p - t.

Fixpoint x_sense (o : sterm) (p : Z) : bool :=
  match o with
  | SBase a => a <? p
  | STr t o' => x_sense o' (x_inv t p)
  end.

Lemma x_sense_tr : forall t o p, x_sense (STr t o) p = x_sense o (x_inv t p).
Proof. reflexivity. Qed.

Lemma x_teqb_sound : forall a b : Z, (a =? b) = true ->
  x_empty a = x_empty b /\ forall p, x_inv a p = x_inv b p.
Proof. intros a b H. apply Z.eqb_eq in H. subst. auto. Qed.

(* level 0: cell 1 (x < 10) filled with universe 1 moved by +5, cell 2 (x > 10);
   universe 1: cell 10 (x < 0), cell 11 (x > 0) filled with universe 2 through its TRCL (+3);
   universe 2: cell 20 (x < 2), cell 21 (x > 2) *)
Definition ex_cells : list (Z * xcell) :=
  [ (1,  mkCell 0 0 (TSurf (-1)) 1 0 (Some 1) (Some 5) 0 [] []);
    (2,  mkCell 3 1 (TSurf 1)    1 0 None     None     0 [] []);
    (10, mkCell 7 2 (TSurf (-2)) 1 1 None     None     0 [] []);
    (11, mkCell 0 0 (TSurf 2)    1 1 (Some 2) None     0 [3] []);
    (20, mkCell 8 3 (TSurf (-3)) 1 2 None     None     0 [] []);
    (21, mkCell 9 4 (TSurf 3)    1 2 None     None     0 [] []) ].

Definition ex_state : xstate :=
  mkSt ex_cells [(1, SBase 10); (2, SBase 0); (3, SBase 2)] 21 3 [] [].

Definition ex_du := by_universe (s_cells ex_state).

Lemma fresh_ok_check : forall (s : xstate),
  forallb (fun kc => fst kc <=? s_nck s) (s_cells s) = true ->
  forallb (fun kc => fst kc <=? s_nsk s) (s_surfs s) = true ->
  fresh_ok Z sterm s.
Proof.
  assert (G : forall V (d : list (Z * V)) n, forallb (fun kc => fst kc <=? n) d = true ->
                forall k, n < k -> dget k d = None).
  { intros V d n. induction d as [|[k' v] r IH]; cbn; intros H k Hk; [reflexivity|].
    apply andb_true_iff in H. destruct H as [H1 H2]. apply Z.leb_le in H1.
    destruct (k =? k') eqn:E; [apply Z.eqb_eq in E; lia | apply IH; assumption]. }
  intros s H1 H2. split; [apply G; exact H1 | apply G; exact H2].
Qed.

Lemma ex_fresh : fresh_ok Z sterm ex_state.
Proof. apply fresh_ok_check; reflexivity. Qed.

Lemma ex_orig_empty : forall c cl, dget c (s_cells ex_state) = Some cl -> c_orig cl = [].
Proof.
  intros c cl H. apply dget_In in H. cbn in H.
  repeat (destruct H as [H|H]; [inversion H; reflexivity|]). destruct H.
Qed.

Local Ltac den_surf H :=
  let o := fresh "o" in let Ho := fresh "Ho" in let Hb := fresh "Hb" in
  destruct (Den_surf_inv _ _ _ _ _ _ _ _ H) as (o & Ho & Hb); cbn in Ho; inversion Ho; subst o;
  clear Ho.

Lemma ex_partition : universe_partition Z sterm Z x_sense ex_state ex_du.
Proof.
  intros u q c c' cl cl' Hc Hc' Hne Hcl Hcl' HD.
  unfold ex_du, du_get in Hc, Hc'. cbn in Hc, Hc'.
  destruct (u =? 0) eqn:E0; [|destruct (u =? 1) eqn:E1; [|destruct (u =? 2) eqn:E2]];
    cbn in Hc, Hc';
    try (destruct Hc as [<-|[<-|[]]]; destruct Hc' as [<-|[<-|[]]]; try (exfalso; apply Hne; reflexivity);
         cbn in Hcl, Hcl'; inversion Hcl; inversion Hcl'; subst cl cl'; cbn [c_geom] in *;
         den_surf HD;
         match goal with
         | |- Den _ _ _ _ _ _ (TSurf ?x) false =>
             match goal with
             | Hb : true = lit ?y (x_sense ?o q) |- _ =>
                 replace false with (lit x (x_sense o q));
                 [apply DSurf; reflexivity
                 |unfold lit in *; cbn in *; destruct (_ <? q); cbn in *; congruence]
             end
         end).
  destruct Hc.
Qed.

(* the point x = 9 is in cell 1; in the frame of universe 1 it is x = 4, in cell 11; in the
   frame of universe 2 it is x = 1, in cell 20 *)
Lemma Den_surf_val : forall (s : xstate) p x o b,
  dget (Z.abs x) (s_surfs s) = Some o -> lit x (x_sense o p) = b ->
  Den Z sterm Z x_sense s p (TSurf x) b.
Proof. intros s p x o b H <-. apply DSurf. exact H. Qed.

Lemma ex_located : Located Z sterm Z x_empty x_inv x_sense ex_state ex_du 1 9 [1; 11; 20].
Proof.
  unfold Located.
  change true with (true && (true && true)).
  eapply LBFill with (cl := mkCell 0 0 (TSurf (-1)) 1 0 (Some 1) (Some 5) 0 [] []) (u := 1) (c := 11);
    [reflexivity | reflexivity | cbn; auto
    | eapply Den_surf_val with (o := SBase 10); reflexivity |].
  eapply LBFill with (cl := mkCell 0 0 (TSurf 2) 1 1 (Some 2) None 0 [3] []) (u := 2) (c := 20);
    [reflexivity | reflexivity | cbn; auto
    | eapply Den_surf_val with (o := SBase 0); reflexivity |].
  eapply LBLeaf with (cl := mkCell 8 3 (TSurf (-3)) 1 2 None None 0 [] []);
    [reflexivity | reflexivity | eapply Den_surf_val with (o := SBase 2); reflexivity].
Qed.

(* what the model computes on it: three cells for cell 1, with the provenance of their descents *)
Lemma ex_run : exists s',
  x_fill_phase 5 5 false false ex_state = Ok ([[27; 31; 34]], s') /\
  option_map (@c_orig Z) (dget 31 (s_cells s')) = Some (prov [1; 11; 20]) /\
  option_map (@c_mat Z) (dget 31 (s_cells s')) = Some 8.
Proof. eexists. split; [vm_compute; reflexivity|]. split; vm_compute; reflexivity. Qed.

(* the same deck read AS WRITTEN (cell 11's TRCL +3 moves it to x > 3 in universe 1): x = 9 is
   x = 4 in universe 1, in cell 11, and x = 1 in universe 2, in cell 20; the hypotheses of the
   chain theorem hold and the chain runs *)
Lemma ex_locatedW : LocW Z sterm Z x_empty x_inv x_sense ex_state ex_du 1 9 [1; 11; 20] true.
Proof.
  change true with (true && (true && true)).
  eapply LWFill with (cl := mkCell 0 0 (TSurf (-1)) 1 0 (Some 1) (Some 5) 0 [] []) (u := 1) (c := 11);
    [reflexivity | reflexivity | cbn; auto
    | eapply Den_surf_val with (o := SBase 10); reflexivity |].
  eapply LWFill with (cl := mkCell 0 0 (TSurf 2) 1 1 (Some 2) None 0 [3] []) (u := 2) (c := 20);
    [reflexivity | reflexivity | cbn; auto
    | eapply Den_surf_val with (o := SBase 0); reflexivity |].
  eapply LWLeaf with (cl := mkCell 8 3 (TSurf (-3)) 1 2 None None 0 [] []);
    [reflexivity | reflexivity | eapply Den_surf_val with (o := SBase 2); reflexivity].
Qed.

Lemma ex_ref_free : all_ref_free Z sterm ex_state.
Proof.
  intros k cl H. apply dget_In in H. cbn in H.
  repeat (destruct H as [H|H]; [inversion H; reflexivity|]). destruct H.
Qed.

Lemma ex_nodup : NoDup (map fst (s_cells ex_state)).
Proof. cbn. repeat (constructor; [cbn; intuition discriminate|]). constructor. Qed.

Lemma ex_chain : exists s1 rs s2 cells3,
  x_trcl_phase 5 (map fst (s_cells ex_state)) ex_state = Ok s1 /\
  x_fill_phase 5 5 false false s1 = Ok (rs, s2) /\
  inline_cells Z 9 1 1 (s_cells s2) = Ok cells3 /\
  rs = [[27; 31; 34]] /\
  option_map (@c_orig Z) (dget 31 cells3) = Some (prov [1; 11; 20]).
Proof.
  do 4 eexists. split; [vm_compute; reflexivity|]. split; [vm_compute; reflexivity|].
  split; [vm_compute; reflexivity|]. split; vm_compute; reflexivity.
Qed.

(* ---- why the TRCL loop is only sound on tables without CellRef ----------------------------------
   cell 1 = (CellRef 2) * (+s1) with TRCL +5, cell 2 = +s1 with TRCL +3, s1: x > 0.
   Cell 1 is treated first: CellRef 2 is copied as cell 3 = the UNMOVED cell 2 moved by +5 and
   cached as (2, +5) -> 3; then cell 2 is overwritten by its own TRCL.  The cache entry is now
   stale: cell 2 at x - 5 and cell 3 at x differ at x = 6.  (No CellRef exists before FILL in
   construct_volume_t4, so this never happens in a conversion.) *)
Definition ex2_state : xstate :=
  mkSt [ (1, mkCell 1 1 (TNode true [TRef 2; TSurf 1]) 1 0 None None 0 [5] []);
         (2, mkCell 2 2 (TSurf 1) 1 0 None None 0 [3] []) ]
       [(1, SBase 0)] 2 1 [] [].

Definition ex2_after : xstate :=
  match x_trcl_phase 5 [1; 2] ex2_state with Ok s => s | Err _ => ex2_state end.

Lemma ex2_runs : x_trcl_phase 5 [1; 2] ex2_state = Ok ex2_after.
Proof. vm_compute. reflexivity. Qed.

Lemma ex2_stale : ~ cache_coherent Z sterm Z x_empty Z.eqb x_inv x_sense ex2_after.
Proof.
  intros H.
  assert (D1 : Den Z sterm Z x_sense ex2_after (act Z Z x_empty x_inv 5 6) (TRef 2) false).
  { eapply DRef with (cl := mkCell 2 2 (TSurf 4) 1 0 None None 0 [3] []); [reflexivity|].
    eapply Den_surf_val with (o := STr 3 (SBase 0)); reflexivity. }
  assert (D2 : Den Z sterm Z x_sense ex2_after 6 (TRef 3) true).
  { eapply DRef with (cl := mkCell 2 2 (TSurf 2) 1 0 None None 0 [3] []); [reflexivity|].
    eapply Den_surf_val with (o := STr 5 (SBase 0)); reflexivity. }
  pose proof (H 2 5 3 eq_refl 6 false D1) as D3.
  pose proof (proj1 (Den_fun Z sterm Z x_sense ex2_after 6) _ _ D2 _ D3) as E. discriminate E.
Qed.
