(* C05 — what the universe / FILL path must MEAN (DESIGN section 3, "Universes"), over an abstract
   point type [P], rigid motions acting on points ([inv t p] = the coordinates, in the frame the
   motion [t] is given in, of the point whose coordinates in the moved frame's parent are [p],
   i.e. a body placed by [t] contains [p] iff the body contains [inv t p]) and an abstract sense
   function on surfaces.  Nothing here looks at pot_fill / cell_transform: the only thing shared
   with the model is the table of cells (type [state]) and the tree type. *)
From Coq Require Import List ZArith Bool.
From T4V Require Import C05.Model.
Import ListNotations.
Open Scope Z_scope.

Section Spec.
Variable T : Type.
Variable surf : Type.
Variable P : Type.
Variable tr_empty : T -> bool.
Variable inv : T -> P -> P.
Variable sense : surf -> P -> bool.          (* true = positive side *)

Notation state := (state T surf).
Notation cell := (cell T).

(* a signed surface literal *)
Definition lit (x : Z) (b : bool) : bool := if 0 <=? x then b else negb b.

Definition combine_op (op : bool) (bs : list bool) : bool :=
  if op then forallb (fun b => b) bs else existsb (fun b => b) bs.

(* [Den s p e b]: the tree [e] has the value [b] at the point [p], cell references being read
   through the table of [s].  No rule for ('^', c) nodes: they are eliminated (pot_complement)
   before FILL is developed, and a tree that still has one has no denotation here. *)
Inductive Den (s : state) (p : P) : tree -> bool -> Prop :=
| DSurf : forall x o, dget (Z.abs x) (s_surfs s) = Some o -> Den s p (TSurf x) (lit x (sense o p))
| DRef : forall c cl b, dget c (s_cells s) = Some cl -> Den s p (c_geom cl) b -> Den s p (TRef c) b
| DNode : forall op args bs, DenL s p args bs -> Den s p (TNode op args) (combine_op op bs)
with DenL (s : state) (p : P) : list tree -> list bool -> Prop :=
| DNil : DenL s p [] []
| DCons : forall e b es bs, Den s p e b -> DenL s p es bs -> DenL s p (e :: es) (b :: bs).

Scheme Den_mind := Induction for Den Sort Prop
  with DenL_mind := Induction for DenL Sort Prop.
Combined Scheme Den_DenL_ind from Den_mind, DenL_mind.

(* the point map of one motion; an empty transformation is "no transformation" *)
Definition act (t : T) (p : P) : P := if tr_empty t then p else inv t p.

(* several TRCLs applied in card order t1, t2, ...: body' = T_n(...T_1(body)), so
   p in body' iff inv t1 (inv t2 (... p)) in body *)
Fixpoint act_seq (ts : list T) (p : P) : P :=
  match ts with
  | [] => p
  | t :: r => act t (act_seq r p)
  end.

(* from the container's frame to the frame of the filling universe: the fill transformation,
   or, when the FILL has none, the container's TRCL *)
Definition frame (cl : cell) (p : P) : P :=
  match c_filltr cl with
  | Some ft => if tr_empty ft then act_seq (c_trcl cl) p else inv ft p
  | None => act_seq (c_trcl cl) p
  end.

(* [LocB s du key p chain b]: [chain] = key :: c1 :: ... :: leaf descends from cell [key] through
   the filling universes ([du] = cells by universe) to a cell without FILL, and [b] is the
   conjunction of "the point, expressed in that level's frame, is in that cell" over the chain.
   [Located] = the conjunction is true. *)
Inductive LocB (s : state) (du : list (Z * list Z)) : Z -> P -> list Z -> bool -> Prop :=
| LBLeaf : forall key cl p b,
    dget key (s_cells s) = Some cl -> c_fill cl = None -> Den s p (c_geom cl) b ->
    LocB s du key p [key] b
| LBFill : forall key cl u p c chain b1 b2,
    dget key (s_cells s) = Some cl -> c_fill cl = Some u -> In c (du_get u du) ->
    Den s p (c_geom cl) b1 -> LocB s du c (frame cl p) chain b2 ->
    LocB s du key p (key :: chain) (b1 && b2).

Definition Located s du key p chain := LocB s du key p chain true.

(* all descents below [key], in the order of the universe lists *)
Inductive Paths (s : state) (du : list (Z * list Z)) : Z -> list (list Z) -> Prop :=
| PLeaf : forall key cl, dget key (s_cells s) = Some cl -> c_fill cl = None -> Paths s du key [[key]]
| PFill : forall key cl u chss,
    dget key (s_cells s) = Some cl -> c_fill cl = Some u -> PathsL s du (du_get u du) chss ->
    Paths s du key (map (cons key) (concat chss))
with PathsL (s : state) (du : list (Z * list Z)) : list Z -> list (list (list Z)) -> Prop :=
| PLNil : PathsL s du [] []
| PLCons : forall c cs chs chss, Paths s du c chs -> PathsL s du cs chss ->
    PathsL s du (c :: cs) (chs :: chss).

Scheme Paths_mind := Induction for Paths Sort Prop
  with PathsL_mind := Induction for PathsL Sort Prop.
Combined Scheme Paths_PathsL_ind from Paths_mind, PathsL_mind.

(* the provenance the converter prints for the volume of a chain key :: c1 :: ... :: cn :: leaf:
   (leaf, cn) ... (leaf, c1) (leaf, key) *)
Fixpoint prov (chain : list Z) : list (Z * Z) :=
  match chain with
  | [] => []
  | k :: r => match r with [] => [] | _ => prov r ++ [(last r 0, k)] end
  end.

(* every universe is a partition of its frame (an MCNP validity condition): a point is in
   exactly one of its cells *)
Definition universe_partition (s : state) (du : list (Z * list Z)) : Prop :=
  forall u q c c' cl cl',
    In c (du_get u du) -> In c' (du_get u du) -> c <> c' ->
    dget c (s_cells s) = Some cl -> dget c' (s_cells s) = Some cl' ->
    Den s q (c_geom cl) true -> Den s q (c_geom cl') false.

(* what the cell [k] of the table [s'] must be to stand for the descent [ch] below [key] of the
   deck [s] (the table before FILL was developed): no FILL left, the provenance of the descent,
   material and density of the descent's last cell, the value of the descent at every point,
   and nothing outside the container *)
Definition Represents (s : state) (du : list (Z * list Z)) (s' : state) (key k : Z) (ch : list Z)
  : Prop :=
  exists ncl lcl,
    dget k (s_cells s') = Some ncl /\
    dget (last ch 0) (s_cells s) = Some lcl /\
    c_fill ncl = None /\
    c_orig ncl = prov ch /\
    c_mat ncl = c_mat lcl /\ c_rho ncl = c_rho lcl /\
    (forall p b, LocB s du key p ch b -> Den s' p (c_geom ncl) b) /\
    (forall p, Den s' p (c_geom ncl) true -> Den s' p (TRef key) true).

(* the verdict at a point [p] located along [ch]: the cell standing for [ch] is true, and, when
   universes are partitions, the cell standing for any other descent (that has a value at all)
   is false *)
Definition Verdict (s : state) (du : list (Z * list Z)) (s' : state) (key : Z) (p : P)
           (ch : list Z) (k : Z) (ch' : list Z) : Prop :=
  (ch' = ch -> Den s' p (TRef k) true) /\
  (universe_partition s du -> ch' <> ch ->
   forall b', LocB s du key p ch' b' -> Den s' p (TRef k) false).

(* what developing the FILL of [key] must achieve: one cell per descent, in the order of the
   universe lists, each standing for its descent; every located descent is among them, with the
   verdicts above *)
Definition Outcome (s : state) (du : list (Z * list Z)) (s' : state) (key : Z) (ks : list Z) : Prop :=
  exists chs,
    Paths s du key chs /\ Forall2 (Represents s du s' key) ks chs /\
    forall p ch, Located s du key p ch ->
      In ch chs /\ Forall2 (Verdict s du s' key p ch) ks chs.

(* ---- the deck as WRITTEN: a cell card's TRCL moves the cell inside its universe ----------------
   [LocW] is [LocB] with "p is in the cell" read as "the point pulled back through the cell's
   TRCLs is in the geometry written on the card" *)
Inductive LocW (s : state) (du : list (Z * list Z)) : Z -> P -> list Z -> bool -> Prop :=
| LWLeaf : forall key cl p b,
    dget key (s_cells s) = Some cl -> c_fill cl = None ->
    Den s (act_seq (c_trcl cl) p) (c_geom cl) b ->
    LocW s du key p [key] b
| LWFill : forall key cl u p c chain b1 b2,
    dget key (s_cells s) = Some cl -> c_fill cl = Some u -> In c (du_get u du) ->
    Den s (act_seq (c_trcl cl) p) (c_geom cl) b1 -> LocW s du c (frame cl p) chain b2 ->
    LocW s du key p (key :: chain) (b1 && b2).

Definition universe_partitionW (s : state) (du : list (Z * list Z)) : Prop :=
  forall u q c c' cl cl',
    In c (du_get u du) -> In c' (du_get u du) -> c <> c' ->
    dget c (s_cells s) = Some cl -> dget c' (s_cells s) = Some cl' ->
    Den s (act_seq (c_trcl cl) q) (c_geom cl) true ->
    Den s (act_seq (c_trcl cl') q) (c_geom cl') false.

(* the end of the chain TRCL -> FILL -> inlining: [s] = the table of the cell cards, [s'] = the
   final table *)
Definition RepresentsW (s : state) (du : list (Z * list Z)) (s' : state) (key k : Z) (ch : list Z)
  : Prop :=
  exists ncl lcl,
    dget k (s_cells s') = Some ncl /\
    dget (last ch 0) (s_cells s) = Some lcl /\
    c_fill ncl = None /\
    c_orig ncl = prov ch /\
    c_mat ncl = c_mat lcl /\ c_rho ncl = c_rho lcl /\
    (forall p b, LocW s du key p ch b -> Den s' p (c_geom ncl) b) /\
    (forall p, Den s' p (c_geom ncl) true -> Den s' p (TRef key) true).

Definition VerdictW (s : state) (du : list (Z * list Z)) (s' : state) (key : Z) (p : P)
           (ch : list Z) (k : Z) (ch' : list Z) : Prop :=
  (ch' = ch -> Den s' p (TRef k) true) /\
  (universe_partitionW s du -> ch' <> ch ->
   forall b', LocW s du key p ch' b' -> Den s' p (TRef k) false).

Definition OutcomeW (s : state) (du : list (Z * list Z)) (s' : state) (key : Z) (ks : list Z) : Prop :=
  exists chs,
    Paths s du key chs /\ Forall2 (RepresentsW s du s' key) ks chs /\
    forall p ch, LocW s du key p ch true ->
      In ch chs /\ Forall2 (VerdictW s du s' key p ch) ks chs.

End Spec.
