(* C05 linked with C04: the abstract parameters of the C05 theorems (point type, motions, their
   action on points, entries of the surface dictionary, the action of a motion on an entry, the
   sense of an entry) instantiated with C04's concrete model over the reals, and the two laws the
   C05 theorems assume (interface law, cache-key law) proved from C04's theorems
   (tr_all_law = C04_transformation_law on every part of an entry, to_aux_to_main,
   cols_orthonormal).

     points          R^3                                   (C04.Spec.R3)
     motions         the empty tuple, or (O, B) with orthonormal rows; as a cache key: the 12
                     numbers tr12 O B, compared entry by entry
     inv (O,B) p     to_aux O B p = B (p - O)              (C04.Spec)
     entries         lists of (part, side), every part of a kind C04 covers (part_wf: planes,
                     spheres, cylinders, cones, tori in frame form; GQ / SQ with 10 numbers)
     tr_surf         C04.Model.tr_all RS (tr12 O B)        (transformation() on every part)
     sense e p       true iff p is on the positive side of the entry in C04's sense
                     (entry_pos: outside some part)

   A negative literal of a C05 tree is "not positive"; C04's entry_neg ("strictly inside every
   part") implies it (entry_neg_not_pos); the two differ only at points that lie ON a part. *)
From Coq Require Import List ZArith Bool Reals Lra Nsatz.
From T4V Require Import Base.Scalar C04.Vec C04.Model C04.Spec C04.ProofsFrame C04.ProofsMatrix
  C04.ProofsCompose C04.ProofsTree C04.ProofsCard.
From T4V Require Import C05.Model C05.Spec C05.Proofs.
Import ListNotations.
Open Scope R_scope.

(* ---- motions -------------------------------------------------------------------------------- *)
Inductive motion :=
| MEmpty
| MRigid (o : R3) (b : M3 R) (H : rows_orthonormal b).

Definition m_empty (m : motion) : bool := match m with MEmpty => true | MRigid _ _ _ => false end.

Definition m_inv (m : motion) (p : R3) : R3 :=
  match m with MEmpty => p | MRigid o b _ => to_aux o b p end.

(* tuple(transform) *)
Definition m_tuple (m : motion) : list R :=
  match m with MEmpty => [] | MRigid o b _ => tr12 o b end.

Fixpoint rlist_eqb (a b : list R) : bool :=
  match a, b with
  | [], [] => true
  | x :: r, y :: r' => Reqb x y && rlist_eqb r r'
  | _, _ => false
  end.

Lemma rlist_eqb_true : forall a b, rlist_eqb a b = true -> a = b.
Proof.
  induction a as [|x r IH]; intros [|y r'] H; cbn in H; try discriminate; [reflexivity|].
  apply andb_true_iff in H. destruct H as [H1 H2]. apply Reqb_true in H1. subst.
  rewrite (IH _ H2). reflexivity.
Qed.

(* tuple(t1) == tuple(t2) *)
Definition m_eqb (a b : motion) : bool := rlist_eqb (m_tuple a) (m_tuple b).

Lemma tr12_inj : forall o b o' b', tr12 o b = tr12 o' b' -> o = o' /\ b = b'.
Proof.
  intros [o1 o2 o3] [[b1 b2 b3] [b4 b5 b6] [b7 b8 b9]]
         [p1 p2 p3] [[c1 c2 c3] [c4 c5 c6] [c7 c8 c9]] H.
  unfold tr12, vlist, mlist, vlist in H. cbn in H. inversion H. subst. split; reflexivity.
Qed.

(* the cache-key law *)
Lemma m_key_law : forall a b, m_eqb a b = true ->
  m_empty a = m_empty b /\ forall p, m_inv a p = m_inv b p.
Proof.
  intros a b H. unfold m_eqb in H. apply rlist_eqb_true in H.
  destruct a as [|o b1 H1], b as [|o' b2 H2]; cbn in H.
  - split; reflexivity.
  - destruct o', b2 as [[? ? ?] [? ? ?] [? ? ?]]; discriminate H.
  - destruct o, b1 as [[? ? ?] [? ? ?] [? ? ?]]; discriminate H.
  - destruct (tr12_inj _ _ _ _ H) as [-> ->]. split; reflexivity.
Qed.

Lemma to_main_to_aux : forall o b p, rows_orthonormal b -> to_main o b (to_aux o b p) = p.
Proof.
  intros o b p Hb. pose proof (cols_orthonormal b Hb) as Hc.
  destruct o as [o1 o2 o3], b as [[b1 b2 b3] [b4 b5 b6] [b7 b8 b9]], p as [p1 p2 p3].
  unfold rows_orthonormal, transpose, dot in Hb, Hc. cbn [vx vy vz] in Hb, Hc.
  destruct Hb as (H11 & H22 & H33 & H12 & H23 & H31).
  destruct Hc as (C11 & C22 & C33 & C12 & C23 & C31).
  unfold to_main, to_aux, vplus, vscale, vminus, dot. cbn [vx vy vz]. f_equal; nsatz.
Qed.

(* ---- entries of the surface dictionary -------------------------------------------------------- *)
Definition entry_wf (e : list (msurf R * Z)) : Prop := Forall (fun sd => part_wf (fst sd)) e.

Definition wfentry := { e : list (msurf R * Z) | entry_wf e }.

(* [(transformation(t, s), side) for s, side in surfs] *)
Definition tr_entry (o : R3) (b : M3 R) (e : list (msurf R * Z)) : list (msurf R * Z) :=
  match tr_all RS (tr12 o b) e with C04.Model.Ok e' => e' | C04.Model.Err _ => e end.

Lemma tr_entry_spec : forall o b e, rows_orthonormal b -> entry_wf e ->
  tr_all RS (tr12 o b) e = C04.Model.Ok (tr_entry o b e) /\ entry_wf (tr_entry o b e) /\
  forall p', (entry_neg (tr_entry o b e) (to_main o b p') <-> entry_neg e p') /\
             (entry_pos (tr_entry o b e) (to_main o b p') <-> entry_pos e p').
Proof.
  intros o b e Hb He. destruct (tr_all_law o b e Hb He) as (e' & E & Hwf & Law).
  unfold tr_entry. rewrite E. auto.
Qed.

Definition m_tr_surf (m : motion) (we : wfentry) : wfentry :=
  match m with
  | MEmpty => we
  | MRigid o b Hb =>
      exist _ (tr_entry o b (proj1_sig we))
              (proj1 (proj2 (tr_entry_spec o b (proj1_sig we) Hb (proj2_sig we))))
  end.

(* ---- the sense of an entry, as a boolean ------------------------------------------------------ *)
Lemma mpos_dec : forall s p, {mpos s p} + {~ mpos s p}.
Proof.
  intros s p. unfold mpos.
  destruct (Rlt_dec 0 (msense s p)) as [H|H]; [left; left; exact H|].
  destruct (Z.eq_dec (sheet_of s) 0) as [E|E]; [right; intros [A|[A _]]; [exact (H A) | exact (A E)]|].
  destruct (Rlt_dec (IZR (sheet_of s) * axial (mpt s) (maxis s) p) 0) as [L|L].
  - left. right. split; assumption.
  - right. intros [A|[_ A]]; [exact (H A) | exact (L A)].
Qed.

Lemma mneg_dec : forall s p, {mneg s p} + {~ mneg s p}.
Proof.
  intros s p. unfold mneg.
  destruct (Rlt_dec (msense s p) 0) as [H|H]; [|right; intros [A _]; exact (H A)].
  destruct (Z.eq_dec (sheet_of s) 0) as [E|E]; [left; split; [exact H | left; exact E]|].
  destruct (Rlt_dec 0 (IZR (sheet_of s) * axial (mpt s) (maxis s) p)) as [L|L].
  - left. split; [exact H | right; exact L].
  - right. intros [_ [A|A]]; [exact (E A) | exact (L A)].
Qed.

Lemma part_pos_dec : forall sd p, {part_pos sd p} + {~ part_pos sd p}.
Proof. intros sd p. unfold part_pos. destruct (0 <? snd sd)%Z; [apply mpos_dec | apply mneg_dec]. Qed.

Definition entry_pos_dec (e : list (msurf R * Z)) (p : R3) : {entry_pos e p} + {~ entry_pos e p} :=
  Exists_dec (fun sd => part_pos sd p) e (fun sd => part_pos_dec sd p).

Definition m_sense (we : wfentry) (p : R3) : bool :=
  if entry_pos_dec (proj1_sig we) p then true else false.

Lemma m_sense_true : forall we p, m_sense we p = true <-> entry_pos (proj1_sig we) p.
Proof.
  intros we p. unfold m_sense. destruct (entry_pos_dec (proj1_sig we) p); split; intros; try assumption;
    try reflexivity; try discriminate; contradiction.
Qed.

Lemma bool_eq_iff : forall a b : bool, (a = true <-> b = true) -> a = b.
Proof.
  intros a b [H1 H2]. destruct a, b; try reflexivity.
  - symmetry. apply H1. reflexivity.
  - apply H2. reflexivity.
Qed.

(* the interface law, from C04's transformation law on every part *)
Lemma m_sense_law : forall t o p, m_sense (m_tr_surf t o) p = m_sense o (m_inv t p).
Proof.
  intros [|ob bb Hb] [e He] p; [reflexivity|].
  apply bool_eq_iff. rewrite !m_sense_true. cbn [m_tr_surf m_inv proj1_sig].
  destruct (tr_entry_spec ob bb e Hb He) as (_ & _ & Law).
  destruct (Law (to_aux ob bb p)) as [_ Lp]. rewrite (to_main_to_aux ob bb p Hb) in Lp. exact Lp.
Qed.

(* C04's strict negative side implies the C05 negative literal *)
Lemma part_neg_not_pos : forall sd p, part_neg sd p -> ~ part_pos sd p.
Proof.
  intros [s side] p. unfold part_neg, part_pos, mneg, mpos. cbn [fst snd].
  destruct (0 <? side)%Z.
  - intros [Hn Hs] [Hp|[Hz Hp]]; [lra|]. destruct Hs as [Hs|Hs]; [exact (Hz Hs) | lra].
  - intros [Hp|[Hz Hp]] [Hn Hs]; [lra|]. destruct Hs as [Hs|Hs]; [exact (Hz Hs) | lra].
Qed.

Lemma entry_neg_not_pos : forall e p, entry_neg e p -> ~ entry_pos e p.
Proof.
  intros e p Hn Hp. unfold entry_neg, entry_pos in *. apply Exists_exists in Hp.
  destruct Hp as (sd & Hin & Hp). rewrite Forall_forall in Hn. exact (part_neg_not_pos sd p (Hn sd Hin) Hp).
Qed.

(* a surface leaf of a C05 tree against C04's [region] of the same leaf *)
Lemma Den_leaf_region : forall (s : state motion wfentry) p x (we : wfentry),
  dget (Z.abs x) (s_surfs s) = Some we ->
  (Den motion wfentry R3 m_sense s p (TSurf x) (lit x (m_sense we p))) /\
  ((0 <= x)%Z -> (lit x (m_sense we p) = true <-> entry_pos (proj1_sig we) p)) /\
  ((x < 0)%Z -> entry_neg (proj1_sig we) p -> lit x (m_sense we p) = true).
Proof.
  intros s p x we H. split; [apply DSurf; exact H|]. split.
  - intros Hx. unfold lit. apply Z.leb_le in Hx. rewrite Hx. apply m_sense_true.
  - intros Hx Hn. unfold lit. apply Z.leb_gt in Hx. rewrite Hx.
    destruct (m_sense we p) eqn:E; [|reflexivity].
    apply m_sense_true in E. destruct (entry_neg_not_pos _ _ Hn E).
Qed.

(* ---- the C05 theorems over real points -------------------------------------------------------- *)
Definition x_state := state motion wfentry.

Theorem pipeline_located_linked :
  forall fuel cf ifd ifg num den (s0 s1 s2 : x_state) rs cells3,
  fresh_ok motion wfentry s0 -> s_cache s0 = [] -> NoDup (map fst (s_cells s0)) ->
  all_ref_free motion wfentry s0 ->
  (forall c cl, dget c (s_cells s0) = Some cl -> c_orig cl = []) ->
  trcl_phase motion wfentry m_empty m_eqb m_tr_surf fuel (map fst (s_cells s0)) s0 = Ok s1 ->
  fill_phase motion wfentry m_empty m_eqb m_tr_surf fuel cf ifd ifg s1 = Ok (rs, s2) ->
  inline_cells motion fuel num den (s_cells s2) = Ok cells3 ->
  Forall2 (OutcomeW motion wfentry R3 m_empty m_inv m_sense s0 (by_universe (s_cells s0))
                    (set_cells motion wfentry s2 cells3))
          (fill_keys (s_cells s0)) rs.
Proof.
  exact (pipeline_located motion wfentry R3 m_empty m_eqb m_tr_surf m_inv m_sense
           m_sense_law m_key_law).
Qed.

Theorem fill_phase_located_linked :
  forall fuel cf ifd ifg (s : x_state) rs s',
  fresh_ok motion wfentry s -> s_cache s = [] ->
  (forall c cl, dget c (s_cells s) = Some cl -> c_orig cl = []) ->
  fill_phase motion wfentry m_empty m_eqb m_tr_surf fuel cf ifd ifg s = Ok (rs, s') ->
  extends motion wfentry s s' /\
  cache_coherent motion wfentry R3 m_empty m_eqb m_inv m_sense s' /\
  Forall2 (Outcome motion wfentry R3 m_empty m_inv m_sense s (by_universe (s_cells s)) s')
          (fill_keys (s_cells s)) rs.
Proof.
  exact (fill_phase_located motion wfentry R3 m_empty m_eqb m_tr_surf m_inv m_sense
           m_sense_law m_key_law).
Qed.

Theorem pot_transform_den_linked :
  forall fuel t e (s : x_state) e' s',
  Inv motion wfentry R3 m_empty m_inv m_sense s ->
  pot_transform motion wfentry m_empty m_eqb m_tr_surf fuel t e s = Ok (e', s') ->
  Inv motion wfentry R3 m_empty m_inv m_sense s' /\ extends motion wfentry s s' /\
  forall p b, Den motion wfentry R3 m_sense s (act motion R3 m_empty m_inv t p) e b ->
              Den motion wfentry R3 m_sense s' p e' b.
Proof.
  exact (pot_transform_den motion wfentry R3 m_empty m_eqb m_tr_surf m_inv m_sense
           m_sense_law m_key_law).
Qed.

Theorem trcl_phase_den_linked :
  forall fuel keys (s s' : x_state),
  fresh_ok motion wfentry s -> s_cache s = nil -> NoDup keys -> all_ref_free motion wfentry s ->
  trcl_phase motion wfentry m_empty m_eqb m_tr_surf fuel keys s = Ok s' ->
  fresh_ok motion wfentry s' /\ s_cache s' = nil /\ surf_extends motion wfentry s s' /\
  all_ref_free motion wfentry s' /\
  (forall k cl, In k keys -> dget k (s_cells s) = Some cl ->
     exists g', dget k (s_cells s') = Some (with_geom cl g') /\
       forall p b, Den motion wfentry R3 m_sense s (act_seq motion R3 m_empty m_inv (c_trcl cl) p)
                       (c_geom cl) b ->
                   Den motion wfentry R3 m_sense s' p g' b) /\
  (forall k, ~ In k keys -> dget k (s_cells s') = dget k (s_cells s)).
Proof.
  exact (trcl_phase_den motion wfentry R3 m_empty m_eqb m_tr_surf m_inv m_sense
           m_sense_law m_key_law).
Qed.

Theorem cell_transform_den_linked :
  forall fuel k t cache (s : x_state) k' s',
  Inv motion wfentry R3 m_empty m_inv m_sense s ->
  cell_transform motion wfentry m_empty m_eqb m_tr_surf fuel k t cache s = Ok (k', s') ->
  Inv motion wfentry R3 m_empty m_inv m_sense s' /\ extends motion wfentry s s' /\
  forall p b, Den motion wfentry R3 m_sense s (act motion R3 m_empty m_inv t p) (TRef k) b ->
              Den motion wfentry R3 m_sense s' p (TRef k') b.
Proof.
  exact (cell_transform_den motion wfentry R3 m_empty m_eqb m_tr_surf m_inv m_sense
           m_sense_law m_key_law).
Qed.

(* ---- non-vacuity: a plane, a translation, and the law at two points ---------------------------- *)
Definition idm3 : M3 R := mkV (mkV 1 0 0) (mkV 0 1 0) (mkV 0 0 1).

Lemma idm3_orthonormal : rows_orthonormal idm3.
Proof. unfold rows_orthonormal, idm3, dot. cbn [vx vy vz]. repeat split; ring. Qed.

(* MCNP "PX 0": point (0,0,0), normal (1,0,0) *)
Definition px0 : msurf R := mkMS KP (mkV 0 0 0) (mkV 1 0 0) nil None.

Definition px0_entry : list (msurf R * Z) := cons (px0, 1%Z) nil.

Lemma px0_wf : entry_wf px0_entry.
Proof. constructor; [left; reflexivity | constructor]. Qed.

Definition ex_entry : wfentry := exist _ px0_entry px0_wf.
Definition ex_motion : motion := MRigid (mkV 2 0 0) idm3 idm3_orthonormal.

Lemma ex_sense_px0 : forall x y z, m_sense ex_entry (mkV x y z) = true <-> 0 < x.
Proof.
  intros x y z. rewrite m_sense_true. cbn [ex_entry proj1_sig]. unfold entry_pos, px0_entry.
  rewrite Exists_cons, Exists_nil. unfold part_pos, mpos, msense, sheet_of, px0, dot, vminus.
  cbn [fst snd mk mpt maxis mcp mnap vx vy vz]. change (0 <? 1)%Z with true. cbv iota.
  split.
  - intros [[H|[H _]]|[]]; [lra | exfalso; apply H; reflexivity].
  - intros H. left. left. lra.
Qed.

(* the plane moved by +2 along x: (3,0,0) is on its positive side, (1,0,0) is not *)
Definition ex_p3 : R3 := mkV 3 0 0.
Definition ex_p1 : R3 := mkV 1 0 0.

Lemma ex_law :
  m_sense (m_tr_surf ex_motion ex_entry) ex_p3 = true /\
  m_sense (m_tr_surf ex_motion ex_entry) ex_p1 = false.
Proof.
  unfold ex_p3, ex_p1. rewrite !m_sense_law. cbn [ex_motion m_inv]. unfold to_aux, idm3, vminus, dot. cbn [vx vy vz].
  split.
  - apply ex_sense_px0. lra.
  - destruct (m_sense ex_entry _) eqn:E; [|reflexivity]. apply ex_sense_px0 in E. lra.
Qed.

(* a deck over real surfaces on which the chain runs: cell 1 (x < 0) filled with universe 1 moved
   by (2,0,0); universe 1 = cell 10 (x < 0), cell 11 (x > 0) *)
Definition ex_link_state : x_state :=
  mkSt (cons (1%Z, mkCell 0%Z 0%Z (TSurf (-1)) 1%Z 0%Z (Some 1%Z) (Some ex_motion) 0%Z nil nil)
       (cons (10%Z, mkCell 7%Z 2%Z (TSurf (-1)) 1%Z 1%Z None None 0%Z nil nil)
       (cons (11%Z, mkCell 8%Z 3%Z (TSurf 1) 1%Z 1%Z None None 0%Z nil nil) nil)))
       (cons (1%Z, ex_entry) nil) 11%Z 1%Z nil nil.

Definition ex_l1 : x_state :=
  match trcl_phase motion wfentry m_empty m_eqb m_tr_surf 5 (map fst (s_cells ex_link_state))
                   ex_link_state with Ok s => s | Err _ => ex_link_state end.
Definition ex_l2 : list (list Z) * x_state :=
  match fill_phase motion wfentry m_empty m_eqb m_tr_surf 5 5 false false ex_l1 with
  | Ok r => r | Err _ => (nil, ex_l1) end.
Definition ex_l3 : list (Z * cell motion) :=
  match inline_cells motion 9 1%Z 1%Z (s_cells (snd ex_l2)) with Ok c => c | Err _ => nil end.

Lemma ex_link_runs :
  trcl_phase motion wfentry m_empty m_eqb m_tr_surf 5 (map fst (s_cells ex_link_state)) ex_link_state
    = Ok ex_l1 /\
  fill_phase motion wfentry m_empty m_eqb m_tr_surf 5 5 false false ex_l1 = Ok ex_l2 /\
  inline_cells motion 9 1%Z 1%Z (s_cells (snd ex_l2)) = Ok ex_l3 /\
  fst ex_l2 = cons (cons 13%Z (cons 15%Z nil)) nil.
Proof.
  split; [vm_compute; reflexivity|]. split; [vm_compute; reflexivity|].
  split; vm_compute; reflexivity.
Qed.

(* ---- the precedence rule over real numbers, for a FILL transformation written as twelve numbers
   with exactly orthonormal, clip-ok rows (the case in which C04_inline_12 shows that the parser
   returns the numbers themselves) ------------------------------------------------------------------ *)
Lemma rows_orthonormal_dec : forall b : M3 R, {rows_orthonormal b} + {~ rows_orthonormal b}.
Proof.
  intros b. unfold rows_orthonormal.
  destruct (Req_EM_T (dot (vx b) (vx b)) 1); [|right; tauto].
  destruct (Req_EM_T (dot (vy b) (vy b)) 1); [|right; tauto].
  destruct (Req_EM_T (dot (vz b) (vz b)) 1); [|right; tauto].
  destruct (Req_EM_T (dot (vx b) (vy b)) 0); [|right; tauto].
  destruct (Req_EM_T (dot (vy b) (vz b)) 0); [|right; tauto].
  destruct (Req_EM_T (dot (vz b) (vx b)) 0); [|right; tauto].
  left. tauto.
Qed.

Definition id_motion : motion := MRigid (mkV 0 0 0) idm3 idm3_orthonormal.

(* tuple(...) of twelve real numbers as a motion; anything else that is not empty is given an
   arbitrary non-empty motion (only its truthiness matters there) *)
Definition motion_of_reals (l : list R) : motion :=
  match l with
  | nil => MEmpty
  | cons o1 (cons o2 (cons o3 (cons b1 (cons b2 (cons b3 (cons b4 (cons b5 (cons b6
      (cons b7 (cons b8 (cons b9 nil))))))))))) =>
      let b := mkV (mkV b1 b2 b3) (mkV b4 b5 b6) (mkV b7 b8 b9) in
      match rows_orthonormal_dec b with
      | left H => MRigid (mkV o1 o2 o3) b H
      | right _ => id_motion
      end
  | _ => id_motion
  end.

Lemma motion_of_reals_empty : forall l,
  m_empty (motion_of_reals l) = match l with nil => true | _ => false end.
Proof.
  intros l. unfold motion_of_reals.
  do 12 (destruct l as [|? l]; [reflexivity|]). destruct l; [|reflexivity].
  destruct (rows_orthonormal_dec _); reflexivity.
Qed.

Lemma motion_of_reals_tr12 : forall o b p, rows_orthonormal b ->
  m_inv (motion_of_reals (tr12 o b)) p = to_aux o b p.
Proof.
  intros [o1 o2 o3] [[b1 b2 b3] [b4 b5 b6] [b7 b8 b9]] p Hb.
  unfold tr12, vlist, mlist, vlist. cbn [app vx vy vz motion_of_reals].
  destruct (rows_orthonormal_dec _) as [H|H]; [reflexivity | contradiction].
Qed.

Section PrecedenceLinked.
Variable val : Z -> R.                         (* the number a token stands for *)
Variable norm : bool -> list Z -> list Z.      (* tokens of what normalize_transform returns *)
Variable trs : list (Z * list R).
Variable trid0 : Z.
(* [norm] is the token image of C04's model of the FILL parser *)
Hypothesis norm_image : forall star ps l,
  parse_fill_tr RS star (map val ps) trs trid0 = C04.Model.Ok l -> map val (norm star ps) = l.
Hypothesis norm_nonempty : forall star ps, norm star ps <> nil.

Definition mk_v (l : list Z) : motion := motion_of_reals (map val l).

Lemma mk_v_tuple_law : forall l, m_empty (mk_v l) = match l with nil => true | _ => false end.
Proof. intros l. unfold mk_v. rewrite motion_of_reals_empty. destruct l; reflexivity. Qed.

Theorem precedence_located_linked :
  forall table mat rho geom imp u univ trid params trcl (cl : cell motion)
         (s : x_state) du key p c r (o : R3) (b : M3 R),
  (forall k cd, dget k table = Some cd -> cd <> nil) ->
  cell_of_keywords motion mk_v norm table mat rho geom imp u (Some (false, univ, trid, params)) trcl
    = Ok cl ->
  map val params = tr12 o b -> rows_orthonormal b -> clip_ok_m b ->
  dget key (s_cells s) = Some cl ->
  LocW motion wfentry R3 m_empty m_inv m_sense s du key p (key :: c :: r) true ->
  LocW motion wfentry R3 m_empty m_inv m_sense s du c (to_aux o b p) (c :: r) true.
Proof.
  intros table mat rho geom imp u univ trid params trcl cl s du key p c r o b
         Htab Hcl Hval Hb Hclip Hk HL.
  assert (Hne : params <> nil).
  { intros ->. destruct o, b as [[? ? ?] [? ? ?] [? ? ?]]; discriminate Hval. }
  destruct (precedence_located motion wfentry R3 m_empty m_inv m_sense mk_v norm
              mk_v_tuple_law norm_nonempty table mat rho geom imp u false univ trid params trcl cl
              s du key p c r Htab Hcl Hk HL) as [Hex _].
  destruct (Hex Hne) as (lf & Elf & _ & HLoc).
  (* twelve numbers: the keyword goes through normalize_transform *)
  assert (Hlf : lf = norm false params).
  { unfold kw_tuple, parse_tr_params in Elf.
    assert (Hlen : List.length params = 12%nat).
    { rewrite <- (map_length val), Hval. destruct o, b as [[? ? ?] [? ? ?] [? ? ?]]. reflexivity. }
    do 12 (destruct params as [|? params]; [discriminate Hlen|]). destruct params; [|discriminate Hlen].
    inversion Elf. reflexivity. }
  subst lf.
  destruct (inline_12 o b trs trid0 Hb Hclip) as (_ & _ & E12).
  rewrite <- Hval in E12 at 1. pose proof (norm_image false params _ E12) as Himg.
  change (vlist o ++ mlist b) with (tr12 o b) in Himg.
  unfold mk_v in HLoc. rewrite Himg, (motion_of_reals_tr12 o b p Hb) in HLoc. exact HLoc.
Qed.

(* by TR number: the card's twelve numbers, no normalisation involved *)
Theorem precedence_located_linked_number :
  forall table mat rho geom imp u star univ trid n card trcl (cl : cell motion)
         (s : x_state) du key p c r (o : R3) (b : M3 R),
  (forall k cd, dget k table = Some cd -> cd <> nil) ->
  cell_of_keywords motion mk_v norm table mat rho geom imp u (Some (star, univ, trid, cons n nil)) trcl
    = Ok cl ->
  dget trid table = Some card -> map val card = tr12 o b -> rows_orthonormal b ->
  dget key (s_cells s) = Some cl ->
  LocW motion wfentry R3 m_empty m_inv m_sense s du key p (key :: c :: r) true ->
  LocW motion wfentry R3 m_empty m_inv m_sense s du c (to_aux o b p) (c :: r) true.
Proof.
  intros table mat rho geom imp u star univ trid n card trcl cl s du key p c r o b
         Htab Hcl Hcard Hval Hb Hk HL.
  destruct (precedence_located motion wfentry R3 m_empty m_inv m_sense mk_v norm
              mk_v_tuple_law norm_nonempty table mat rho geom imp u star univ trid (cons n nil) trcl cl
              s du key p c r Htab Hcl Hk HL) as [Hex _].
  destruct (Hex ltac:(discriminate)) as (lf & Elf & _ & HLoc).
  unfold kw_tuple, parse_tr_params in Elf. rewrite Hcard in Elf.
  assert (Hlf : firstn 12 card = lf) by congruence. clear Elf.
  assert (Hlen : List.length card = 12%nat).
  { rewrite <- (map_length val), Hval. destruct o, b as [[? ? ?] [? ? ?] [? ? ?]]. reflexivity. }
  assert (Hfirst : firstn 12 card = card) by (apply firstn_all2; rewrite Hlen; constructor).
  rewrite <- Hlf, Hfirst in HLoc. unfold mk_v in HLoc.
  rewrite Hval, (motion_of_reals_tr12 o b p Hb) in HLoc. exact HLoc.
Qed.

(* three numbers (also starred, also all zero): a translation *)
Theorem precedence_located_linked_translation :
  forall table mat rho geom imp u star univ trid a1 a2 a3 trcl (cl : cell motion)
         (s : x_state) du key p c r,
  val 0%Z = 0 -> val 1%Z = 1 ->
  (forall k cd, dget k table = Some cd -> cd <> nil) ->
  cell_of_keywords motion mk_v norm table mat rho geom imp u
                   (Some (star, univ, trid, cons a1 (cons a2 (cons a3 nil)))) trcl = Ok cl ->
  dget key (s_cells s) = Some cl ->
  LocW motion wfentry R3 m_empty m_inv m_sense s du key p (key :: c :: r) true ->
  LocW motion wfentry R3 m_empty m_inv m_sense s du c
       (to_aux (mkV (val a1) (val a2) (val a3)) idm3 p) (c :: r) true.
Proof.
  intros table mat rho geom imp u star univ trid a1 a2 a3 trcl cl s du key p c r
         V0 V1 Htab Hcl Hk HL.
  destruct (precedence_located motion wfentry R3 m_empty m_inv m_sense mk_v norm
              mk_v_tuple_law norm_nonempty table mat rho geom imp u star univ trid
              (cons a1 (cons a2 (cons a3 nil))) trcl cl s du key p c r Htab Hcl Hk HL) as [Hex _].
  destruct (Hex ltac:(discriminate)) as (lf & Elf & _ & HLoc).
  unfold kw_tuple, parse_tr_params in Elf. inversion Elf; subst lf.
  unfold mk_v in HLoc. cbn [map] in HLoc. rewrite V0, V1 in HLoc.
  change (cons (val a1) (cons (val a2) (cons (val a3) (cons 1 (cons 0 (cons 0 (cons 0 (cons 1
            (cons 0 (cons 0 (cons 0 (cons 1 nil))))))))))))
    with (tr12 (mkV (val a1) (val a2) (val a3)) idm3) in HLoc.
  rewrite (motion_of_reals_tr12 _ idm3 p idm3_orthonormal) in HLoc. exact HLoc.
Qed.
End PrecedenceLinked.
