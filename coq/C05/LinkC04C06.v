(* C05: the C04 instance and the C06 instance unified.  The lattice theorems of C05/LinkC06.v are
   stated for transformations = lists of reals and points = C06's triples, with surfaces abstract
   and the two laws as hypotheses; C05/LinkC04.v proves the two laws for motions = (O, B) with
   orthonormal rows and points = C04's R3 records.  Bridge:
     triple <-> record         v3_of / vec_of
     list of reals -> motion   motion_of_reals (C05/LinkC04.v): the empty tuple, twelve numbers with
                               exactly orthonormal rows, and - for any other list - the identity
                               motion (C04 has no law there; the theorems below say something about
                               the converter only for decks whose transformations are exactly
                               orthonormal, which develop_lattice preserves: C06_link_inverse_satisfiable)
   With it both laws hold for the list instance, so the lattice theorems need no interface
   hypothesis any more. *)
From Coq Require Import List ZArith Bool Reals.
From T4V Require C06.Model C06.LinkC05.
From T4V Require Import C05.Model C05.Spec C05.Proofs C05.LinkC04 C05.LinkC06.
Import ListNotations.

Module V4 := T4V.C04.Vec.
Module S4 := T4V.C04.Spec.

Definition v3_of (p : @C06.Model.vec R) : S4.R3 := let '(x, y, z) := p in V4.mkV x y z.
Definition vec_of (p : S4.R3) : @C06.Model.vec R := (V4.vx p, V4.vy p, V4.vz p).

Lemma v3_vec : forall p, v3_of (vec_of p) = p.
Proof. intros [x y z]. reflexivity. Qed.

Lemma vec_v3 : forall p, vec_of (v3_of p) = p.
Proof. intros [[x y] z]. reflexivity. Qed.

(* the list instance *)
Definition l_tr_surf (t : list R) (e : wfentry) : wfentry := m_tr_surf (motion_of_reals t) e.
Definition l_inv (t : list R) (p : @C06.Model.vec R) : @C06.Model.vec R :=
  vec_of (m_inv (motion_of_reals t) (v3_of p)).
Definition l_sense (e : wfentry) (p : @C06.Model.vec R) : bool := m_sense e (v3_of p).
Definition l_eqb (a b : list R) : bool := rlist_eqb a b.

Lemma l_sense_law : forall t o p, l_sense (l_tr_surf t o) p = l_sense o (l_inv t p).
Proof.
  intros t o p. unfold l_sense, l_tr_surf, l_inv. rewrite v3_vec. apply m_sense_law.
Qed.

Lemma l_key_law : forall a b, l_eqb a b = true ->
  @C06.Model.is_nil R a = C06.Model.is_nil b /\ forall p, l_inv a p = l_inv b p.
Proof. intros a b H. apply rlist_eqb_true in H. subst. split; reflexivity. Qed.

(* for an exactly orthonormal twelve-tuple the instance is C04's: B (p - O) on points,
   transformation() on every part of an entry *)
Lemma l_inv_tr12 : forall o b p, S4.rows_orthonormal b ->
  l_inv (C04.ProofsCompose.tr12 o b) p = vec_of (S4.to_aux o b (v3_of p)).
Proof. intros o b p Hb. unfold l_inv. rewrite motion_of_reals_tr12 by exact Hb. reflexivity. Qed.

Lemma l_inv_nil : forall p, l_inv [] p = p.
Proof. intros p. unfold l_inv. cbn. apply vec_v3. Qed.

Definition l_state := state (list R) wfentry.

Theorem pipeline_with_lattice_linked2 :
  forall fuel cf ifd ifg num den (s0 s1 s2 s3 : l_state) rs cells4 latkey lcl
         (elems : list (@C06.Model.new_elem R)) keys,
  fresh_ok _ wfentry s0 -> s_cache s0 = [] -> NoDup (map fst (s_cells s0)) ->
  all_ref_free _ wfentry s0 -> no_orig wfentry s0 ->
  trcl_phase _ wfentry (@C06.Model.is_nil R) l_eqb l_tr_surf fuel (map fst (s_cells s0)) s0 = Ok s1 ->
  dget latkey (s_cells s1) = Some lcl ->
  Forall (fun e => C06.Model.is_nil (C06.Model.ne_trnsf e) = false) elems ->
  C06.LinkC05.develop_state wfentry l_eqb l_tr_surf fuel latkey elems s1 = Ok (keys, s2) ->
  fill_phase _ wfentry (@C06.Model.is_nil R) l_eqb l_tr_surf fuel cf ifd ifg (del_cell _ wfentry s2 latkey)
    = Ok (rs, s3) ->
  inline_cells _ fuel num den (s_cells s3) = Ok cells4 ->
  let sd := del_cell _ wfentry s2 latkey in
  dget latkey (s_cells sd) = None /\
  (forall k cl, k <> latkey -> dget k (s_cells s0) = Some cl ->
     exists g', dget k (s_cells sd) = Some (with_geom cl g') /\
       forall p b, Den _ wfentry _ l_sense s0 (act_seq _ _ (@C06.Model.is_nil R) l_inv (c_trcl cl) p) (c_geom cl) b ->
                   Den _ wfentry _ l_sense sd p g' b) /\
  Forall2 (ElemOf wfentry l_inv l_sense s1 latkey lcl sd) elems keys /\
  Forall2 (Outcome _ wfentry _ (@C06.Model.is_nil R) l_inv l_sense sd (by_universe (s_cells sd))
                   (set_cells _ wfentry s3 cells4))
          (fill_keys (s_cells sd)) rs.
Proof.
  exact (pipeline_with_lattice wfentry l_eqb l_tr_surf l_inv l_sense l_sense_law l_key_law).
Qed.

Theorem pipeline_with_lattices_linked2 :
  forall fuel cf ifd ifg num den (s0 s1 sd s3 : l_state) lats rs cells4,
  fresh_ok _ wfentry s0 -> s_cache s0 = [] -> NoDup (map fst (s_cells s0)) ->
  all_ref_free _ wfentry s0 -> no_orig wfentry s0 ->
  trcl_phase _ wfentry (@C06.Model.is_nil R) l_eqb l_tr_surf fuel (map fst (s_cells s0)) s0 = Ok s1 ->
  lat_phase wfentry l_eqb l_tr_surf fuel lats s1 = Ok sd ->
  fill_phase _ wfentry (@C06.Model.is_nil R) l_eqb l_tr_surf fuel cf ifd ifg sd = Ok (rs, s3) ->
  inline_cells _ fuel num den (s_cells s3) = Ok cells4 ->
  Forall2 (Outcome _ wfentry _ (@C06.Model.is_nil R) l_inv l_sense sd (by_universe (s_cells sd))
                   (set_cells _ wfentry s3 cells4))
          (fill_keys (s_cells sd)) rs.
Proof.
  exact (pipeline_with_lattices wfentry l_eqb l_tr_surf l_inv l_sense l_sense_law l_key_law).
Qed.

(* ---- which element lists the chain theorems accept: LAT=1 (C06) and LAT=2 (C07) ------------------
   Both kinds of lattice go through C06's develop_lattice_with (C07.ProofsDevelop.develop_lattice_hex
   only supplies the hexagonal base vectors), and every element it returns carries twelve numbers:
   the hypothesis "no element has an empty transformation" of the chain theorems holds. *)
From T4V Require C06.ProofsDevelop C07.ProofsDevelop.

Lemma lattice_elems_accepted : forall (cell : @C06.Model.lat_cell R) base elems,
  C06.ProofsDevelop.cell_shape_ok cell ->
  C06.Model.develop_lattice_with Base.Scalar.RS base cell = C06.Model.Ok elems ->
  Forall (fun e => C06.Model.is_nil (C06.Model.ne_trnsf e) = false) elems.
Proof.
  intros cell base elems Hs H. destruct base as [vecs|err].
  - pose proof (C06.LinkC05.develop_lattice_is12 cell vecs elems Hs H) as H12.
    eapply Forall_impl; [|exact H12]. intros e [A _]. apply C06.LinkC05.is12_not_nil. exact A.
  - unfold C06.Model.develop_lattice_with in H. destruct (C06.Model.lc_fill cell); discriminate H.
Qed.

Lemma hex_lattice_elems_accepted : forall surfs (cell : @C06.Model.lat_cell R) elems,
  C06.ProofsDevelop.cell_shape_ok cell ->
  C07.ProofsDevelop.develop_lattice_hex surfs cell = C06.Model.Ok elems ->
  Forall (fun e => C06.Model.is_nil (C06.Model.ne_trnsf e) = false) elems.
Proof.
  intros surfs cell elems Hs H. unfold C07.ProofsDevelop.develop_lattice_hex in H.
  exact (lattice_elems_accepted cell _ elems Hs H).
Qed.
