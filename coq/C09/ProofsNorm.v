(* C09 — proofs about normalize_float (Model.v) against the spelling relation of
   Spec.v. *)
From Coq Require Import List NArith ZArith Bool String Ascii Lia.
From T4V Require Import Base.Str C09.Model C09.Spec.
Import ListNotations.
Open Scope string_scope.

(* ---- characters ---- *)
Lemma digit_not_sign c : is_digit c = true -> is_sign c = false.
Proof. destruct c as [[] [] [] [] [] [] [] []]; cbv; intros H; first [reflexivity | discriminate H]. Qed.

Lemma digit_not_marker c : is_digit c = true -> is_marker c = false.
Proof. destruct c as [[] [] [] [] [] [] [] []]; cbv; intros H; first [reflexivity | discriminate H]. Qed.

Lemma sign_not_marker c : is_sign c = true -> is_marker c = false.
Proof. destruct c as [[] [] [] [] [] [] [] []]; cbv; intros H; first [reflexivity | discriminate H]. Qed.

Lemma sign_not_digit c : is_sign c = true -> is_digit c = false.
Proof. destruct c as [[] [] [] [] [] [] [] []]; cbv; intros H; first [reflexivity | discriminate H]. Qed.

Lemma digit_not_dot c : is_digit c = true -> Ascii.eqb c "." = false.
Proof. destruct c as [[] [] [] [] [] [] [] []]; cbv; intros H; first [reflexivity | discriminate H]. Qed.

(* ---- strings ---- *)
Lemma sapp_assoc (a b c : string) : (a ++ b) ++ c = a ++ (b ++ c).
Proof. induction a as [|x a IH]; simpl; [reflexivity | now rewrite IH]. Qed.

Lemma sapp_nil_r (a : string) : a ++ "" = a.
Proof. induction a as [|x a IH]; simpl; [reflexivity | now rewrite IH]. Qed.

Lemma all_digits_app a b : all_digits (a ++ b) = all_digits a && all_digits b.
Proof. induction a as [|x a IH]; simpl; [reflexivity | now rewrite IH, andb_assoc]. Qed.

Lemma all_digits_zeros k : all_digits (zeros k) = true.
Proof. induction k; simpl; auto. Qed.

Lemma nonempty_app_l a b : nonempty a = true -> nonempty (a ++ b) = true.
Proof. destruct a; simpl; [discriminate | reflexivity]. Qed.

(* the head of a string is not a digit (or the string is empty) *)
Definition nd_head (t : string) : bool :=
  match t with String c _ => negb (is_digit c) | EmptyString => true end.

Lemma span_digits_app d t :
  all_digits d = true -> nd_head t = true -> span_digits (d ++ t) = (d, t).
Proof.
  intros Hd Ht. induction d as [|c d IH]; simpl in *.
  - destruct t as [|c r]; [reflexivity|]. simpl in Ht.
    destruct (is_digit c) eqn:E; [discriminate | simpl; rewrite E; reflexivity].
  - apply andb_true_iff in Hd. destruct Hd as [Hc Hd]. rewrite Hc, (IH Hd). reflexivity.
Qed.

Lemma span_digits_all d : all_digits d = true -> span_digits d = (d, "").
Proof. intros H. rewrite <- (sapp_nil_r d) at 1. now apply span_digits_app. Qed.

(* sign prefix *)
Definition ns_head (t : string) : bool :=
  match t with String c _ => negb (is_sign c) | EmptyString => true end.

Lemma sign_ok_cases sg : sign_ok sg = true -> sg = "" \/ sg = "-" \/ sg = "+".
Proof.
  unfold sign_ok. intros H. apply orb_true_iff in H. destruct H as [H|H].
  - apply orb_true_iff in H. destruct H as [H|H]; apply String.eqb_eq in H; auto.
  - apply String.eqb_eq in H; auto.
Qed.

Lemma strip_sign_app sg x :
  sign_ok sg = true -> ns_head x = true -> strip_sign (sg ++ x) = x.
Proof.
  intros Hs Hx. destruct (sign_ok_cases _ Hs) as [-> | [-> | ->]]; try reflexivity.
  simpl. destruct x as [|c r]; [reflexivity|]. simpl in *. destruct (is_sign c); [discriminate|reflexivity].
Qed.

Lemma sign_of_app sg x :
  sign_ok sg = true -> ns_head x = true -> sign_of (sg ++ x) = sg.
Proof.
  intros Hs Hx. destruct (sign_ok_cases _ Hs) as [-> | [-> | ->]]; try reflexivity.
  simpl. destruct x as [|c r]; [reflexivity|]. simpl in *. destruct (is_sign c); [discriminate|reflexivity].
Qed.

(* rstrip0 *)
Lemma rstrip0_zeros k : rstrip0 (zeros k) = "".
Proof. induction k; simpl; [reflexivity | now rewrite IHk]. Qed.

Lemma rstrip0_app_zeros f k : rstrip0 (f ++ zeros k) = rstrip0 f.
Proof.
  induction f as [|c f IH]; simpl.
  - apply rstrip0_zeros.
  - now rewrite IH.
Qed.

Lemma rstrip0_idem f : rstrip0 (rstrip0 f) = rstrip0 f.
Proof.
  induction f as [|c f IH]; simpl; [reflexivity|].
  destruct (rstrip0 f) as [|c' r'] eqn:E.
  - destruct (Ascii.eqb c "0") eqn:E0; simpl; [reflexivity | now rewrite E0].
  - simpl in *. rewrite IH. reflexivity.
Qed.

Lemma all_digits_rstrip0 f : all_digits f = true -> all_digits (rstrip0 f) = true.
Proof.
  induction f as [|c f IH]; simpl; [reflexivity|]. intros H.
  apply andb_true_iff in H. destruct H as [Hc Hf]. specialize (IH Hf).
  destruct (rstrip0 f) as [|c' r'].
  - destruct (Ascii.eqb c "0"); simpl; [reflexivity | now rewrite Hc].
  - simpl in *. now rewrite Hc, IH.
Qed.

(* last character *)
Lemma last_char_cons x s : s <> "" -> last_char (String x s) = last_char s.
Proof. destruct s; [intros H; now elim H | reflexivity]. Qed.

Lemma last_char_app_cons a c r : last_char (a ++ String c r) = last_char (String c r).
Proof.
  induction a as [|x a IH]; [reflexivity|].
  change (String x a ++ String c r) with (String x (a ++ String c r)).
  rewrite last_char_cons; [exact IH|]. destruct a; discriminate.
Qed.

Lemma last_char_digits d : nonempty d = true -> all_digits d = true ->
  exists c, last_char d = Some c /\ is_digit c = true.
Proof.
  induction d as [|x d IH]; [discriminate|]. intros _ H. simpl in H.
  apply andb_true_iff in H. destruct H as [Hx Hd].
  destruct d as [|y d'].
  - exists x. split; [reflexivity | exact Hx].
  - destruct (IH eq_refl Hd) as [c [Hc1 Hc2]]. exists c. split; [|exact Hc2]. exact Hc1.
Qed.

(* the last character of rstrip0 f, when there is one, is a digit other than 0 *)
Lemma last_char_rstrip0 f : all_digits f = true ->
  match last_char (rstrip0 f) with
  | Some c => is_digit c = true /\ Ascii.eqb c "0" = false
  | None => rstrip0 f = ""
  end.
Proof.
  induction f as [|x f IH]; [reflexivity|]. intros H. simpl in H.
  apply andb_true_iff in H. destruct H as [Hx Hf]. specialize (IH Hf). simpl.
  destruct (rstrip0 f) as [|y r] eqn:E.
  - destruct (Ascii.eqb x "0") eqn:E0; simpl; auto.
  - change (last_char (String x (String y r))) with (last_char (String y r)).
    destruct (last_char (String y r)); [exact IH | discriminate IH].
Qed.

(* pass3 *)
Fixpoint no_marker (s : string) : bool :=
  match s with EmptyString => true | String c r => negb (is_marker c) && no_marker r end.

Lemma pass3_app a b : pass3 (a ++ b) = pass3 a ++ pass3 b.
Proof. induction a as [|x a IH]; simpl; [reflexivity | now rewrite IH]. Qed.

Lemma pass3_plain s : no_marker s = true -> pass3 s = s.
Proof.
  induction s as [|c s IH]; simpl; [reflexivity|]. intros H.
  apply andb_true_iff in H. destruct H as [Hc Hs]. apply negb_true_iff in Hc.
  now rewrite Hc, IH.
Qed.

Lemma no_marker_digits s : all_digits s = true -> no_marker s = true.
Proof.
  induction s as [|c s IH]; simpl; [reflexivity|]. intros H.
  apply andb_true_iff in H. destruct H as [Hc Hs].
  now rewrite (digit_not_marker _ Hc), IH.
Qed.

Lemma no_marker_sign s : sign_ok s = true -> no_marker s = true.
Proof. intros H. destruct (sign_ok_cases _ H) as [-> | [-> | ->]]; reflexivity. Qed.

Lemma no_marker_app a b : no_marker (a ++ b) = no_marker a && no_marker b.
Proof. induction a as [|x a IH]; simpl; [reflexivity | now rewrite IH, andb_assoc]. Qed.

Lemma pass3_marker m : m <> Mnone -> pass3 (marker_str m) = "e".
Proof. destruct m; intros H; try reflexivity. now elim H. Qed.

(* ---- the normal form of a spelling ---- *)
Definition canon_frac (f : string) : string :=
  match rstrip0 f with EmptyString => "0" | r => r end.

Definition normal_form (n : number) (pad : nat) : string :=
  match n_exp n with
  | None => n_sign n ++ n_int n ++
            match n_frac n with Some f => "." ++ canon_frac f | None => "" end
  | Some (es, ed) => n_sign n ++ n_int n ++ frac_str n pad ++ "e" ++ es ++ ed
  end.

(* the mantissa and what follows do not start with a sign *)
Lemma ns_head_digits_app d t :
  all_digits d = true -> (nonempty d = true \/ ns_head t = true) -> ns_head (d ++ t) = true.
Proof.
  intros Hd H. destruct d as [|c d]; simpl in *.
  - destruct H as [H|H]; [discriminate | exact H].
  - apply andb_true_iff in Hd. destruct Hd as [Hc _]. now rewrite (digit_not_sign _ Hc).
Qed.

Section NoExponent.
  Variables (sg ip : string).
  Hypothesis Hsg : sign_ok sg = true.
  Hypothesis Hip : all_digits ip = true.

  (* integer spelling: unchanged *)
  Lemma norm_int : nonempty ip = true -> normalize_float (sg ++ ip) = Ok (sg ++ ip).
  Proof.
    intros Hne. unfold normalize_float.
    assert (Hns : ns_head ip = true).
    { rewrite <- (sapp_nil_r ip). apply ns_head_digits_app; auto. }
    assert (P1 : pass1 (sg ++ ip) = sg ++ ip).
    { unfold pass1. rewrite (strip_sign_app _ _ Hsg Hns), (span_digits_all _ Hip). reflexivity. }
    rewrite P1.
    assert (A : add_zero (sg ++ ip) = Ok (sg ++ ip)).
    { unfold add_zero. destruct (last_char_digits ip Hne Hip) as [c [Hc1 Hc2]].
      destruct ip as [|x r]; [discriminate|].
      rewrite last_char_app_cons, Hc1, (digit_not_dot _ Hc2). reflexivity. }
    rewrite A.
    assert (P2 : pass2 (sg ++ ip) = sg ++ ip).
    { unfold pass2. rewrite (strip_sign_app _ _ Hsg Hns), (span_digits_all _ Hip).
      destruct (nonempty ip || nonempty ""); reflexivity. }
    rewrite P2, pass3_plain; [reflexivity|].
    rewrite no_marker_app, (no_marker_sign _ Hsg), (no_marker_digits _ Hip). reflexivity.
  Qed.

  (* spelling with a point and no exponent: the fraction loses its final zeros,
     one zero is kept when nothing else is left *)
  Lemma norm_frac f k : all_digits f = true ->
    normalize_float (sg ++ ip ++ "." ++ f ++ zeros k) = Ok (sg ++ ip ++ "." ++ canon_frac f).
  Proof.
    intros Hf. unfold normalize_float.
    set (r := f ++ zeros k).
    assert (Hr : all_digits r = true) by (unfold r; now rewrite all_digits_app, Hf, all_digits_zeros).
    assert (Hns : ns_head (ip ++ "." ++ r) = true) by (apply ns_head_digits_app; auto).
    assert (Hsp : span_digits (ip ++ "." ++ r) = (ip, "." ++ r)) by (apply span_digits_app; auto).
    (* after pass1 and add_zero *)
    assert (A : add_zero (pass1 (sg ++ ip ++ "." ++ r)) = Ok (sg ++ ip ++ "." ++ canon_frac f)).
    { unfold pass1. rewrite (strip_sign_app _ _ Hsg Hns), Hsp, (sign_of_app _ _ Hsg Hns).
      change ("." ++ r) with (String "." r). cbv iota beta. rewrite Hr. cbn [andb].
      assert (Hrs : rstrip0 r = rstrip0 f) by apply rstrip0_app_zeros.
      pose proof (last_char_rstrip0 f Hf) as HL.
      assert (Hcanon : add_zero (sg ++ ip ++ "." ++ rstrip0 f) = Ok (sg ++ ip ++ "." ++ canon_frac f)).
      { unfold add_zero, canon_frac. destruct (rstrip0 f) as [|y t] eqn:E.
        - change ("." ++ "") with (String "." ""). rewrite <- sapp_assoc, last_char_app_cons.
          cbn [last_char]. rewrite Ascii.eqb_refl. rewrite !sapp_assoc. reflexivity.
        - change ("." ++ String y t) with (String "." (String y t)).
          rewrite <- sapp_assoc, last_char_app_cons.
          change (last_char (String "." (String y t))) with (last_char (String y t)).
          destruct (last_char (String y t)) as [c|] eqn:EL; [|discriminate HL].
          destruct HL as [HL1 HL2]. rewrite (digit_not_dot _ HL1). rewrite sapp_assoc. reflexivity. }
      destruct (String.eqb (rstrip0 r) r) eqn:Eq; cbn [negb].
      - apply String.eqb_eq in Eq. rewrite <- Eq at 1. rewrite Hrs. exact Hcanon.
      - rewrite Hrs. exact Hcanon. }
    fold r. rewrite A.
    assert (Hc : all_digits (canon_frac f) = true).
    { unfold canon_frac. pose proof (all_digits_rstrip0 f Hf) as H. destruct (rstrip0 f); [reflexivity | exact H]. }
    assert (Hns' : ns_head (ip ++ "." ++ canon_frac f) = true) by (apply ns_head_digits_app; auto).
    assert (P2 : pass2 (sg ++ ip ++ "." ++ canon_frac f) = sg ++ ip ++ "." ++ canon_frac f).
    { unfold pass2. rewrite (strip_sign_app _ _ Hsg Hns').
      rewrite (span_digits_app ip ("." ++ canon_frac f) Hip eq_refl).
      change ("." ++ canon_frac f) with (String "." (canon_frac f)). cbv iota beta.
      rewrite (span_digits_all _ Hc). destruct (nonempty ip || nonempty (canon_frac f)); reflexivity. }
    rewrite P2, pass3_plain; [reflexivity|].
    rewrite !no_marker_app, (no_marker_sign _ Hsg), (no_marker_digits _ Hip), (no_marker_digits _ Hc).
    reflexivity.
  Qed.
End NoExponent.

(* ---- spellings with an exponent ---- *)
Section Exponent.
  Variables (sg ip es ed : string) (F g : string).
  Hypothesis Hsg : sign_ok sg = true.
  Hypothesis Hip : all_digits ip = true.
  Hypothesis Hes : sign_ok es = true.
  Hypothesis Hed : all_digits ed = true.
  Hypothesis Hne : nonempty ed = true.
  (* F = "" (no point, integer part non-empty) or F = "." ++ g *)
  Hypothesis Hg : all_digits g = true.
  Hypothesis HF : (F = "" /\ g = "" /\ nonempty ip = true) \/
                  (F = "." ++ g /\ (nonempty ip || nonempty g) = true).


  Definition mk_ok (mk : string) : Prop :=
    mk = "e" \/ mk = "E" \/ mk = "d" \/ mk = "D" \/ (mk = "" /\ nonempty es = true).

  Lemma es_nonempty_cases : nonempty es = true -> es = "-" \/ es = "+".
  Proof. intros H. destruct (sign_ok_cases _ Hes) as [-> | [-> | ->]]; auto. discriminate. Qed.

  (* head of the exponent part: not a digit, not a point *)
  Lemma tail_head mk : mk_ok mk ->
    exists c r, mk ++ es ++ ed = String c r /\ is_digit c = false /\ Ascii.eqb c "." = false /\
                (is_sign c = true -> mk = "" /\ r = ed).
  Proof.
    intros [-> | [-> | [-> | [-> | [-> H]]]]].
    1-4: eexists; eexists; split; [reflexivity|]; repeat split; try reflexivity; cbv; discriminate.
    destruct (es_nonempty_cases H) as [-> | ->]; eexists; eexists; (split; [reflexivity|]);
      repeat split; reflexivity.
  Qed.

  Lemma mantissa_ns t : ns_head t = true \/ nonempty ip = true \/ F <> "" -> ns_head (ip ++ F ++ t) = true.
  Proof.
    intros H. apply ns_head_digits_app; [exact Hip|].
    destruct HF as [[-> [_ Hi]]|[-> _]]; [left; exact Hi | right; reflexivity].
  Qed.

  Lemma last_is_digit x : exists c, last_char (x ++ ed) = Some c /\ is_digit c = true.
  Proof.
    destruct (last_char_digits ed Hne Hed) as [c [H1 H2]]. exists c. split; [|exact H2].
    destruct ed as [|y r]; [discriminate|]. now rewrite last_char_app_cons.
  Qed.

  Lemma norm_exp mk : mk_ok mk ->
    normalize_float (sg ++ ip ++ F ++ mk ++ es ++ ed) = Ok (sg ++ ip ++ F ++ "e" ++ es ++ ed).
  Proof.
    intros Hmk. destruct (tail_head mk Hmk) as [c [r [HT [Hcd [Hcp Hcs]]]]].
    set (E := mk ++ es ++ ed) in *.
    assert (HndE : nd_head E = true) by (rewrite HT; simpl; now rewrite Hcd).
    assert (Hns : ns_head (ip ++ F ++ E) = true).
    { apply mantissa_ns. destruct HF as [[_ [_ Hi]]|[-> _]]; [right; left; exact Hi | right; right; discriminate]. }
    (* span of the mantissa *)
    assert (Hsp : span_digits (ip ++ F ++ E) = (ip, F ++ E)).
    { apply span_digits_app; [exact Hip|]. destruct HF as [[-> _]|[-> _]]; [exact HndE | reflexivity]. }
    unfold normalize_float.
    assert (P1 : pass1 (sg ++ ip ++ F ++ E) = sg ++ ip ++ F ++ E).
    { unfold pass1. rewrite (strip_sign_app _ _ Hsg Hns), Hsp.
      destruct HF as [[-> _]|[-> _]].
      - change ("" ++ E) with E. rewrite HT. destruct c as [[] [] [] [] [] [] [] []]; try reflexivity; discriminate Hcp.
      - change (("." ++ g) ++ E) with (String "." (g ++ E)). cbv iota beta.
        rewrite all_digits_app, Hg, HT. cbn [all_digits andb]. rewrite Hcd. reflexivity. }
    rewrite P1.
    assert (A : add_zero (sg ++ ip ++ F ++ E) = Ok (sg ++ ip ++ F ++ E)).
    { unfold add_zero, E. rewrite <- !sapp_assoc.
      destruct (last_is_digit ((((sg ++ ip) ++ F) ++ mk) ++ es)) as [c' [H1 H2]].
      rewrite H1, (digit_not_dot _ H2). reflexivity. }
    rewrite A.
    assert (P2 : pass2 (sg ++ ip ++ F ++ E) = sg ++ ip ++ F ++ (if is_sign c then "e" ++ E else E)).
    { unfold pass2. rewrite (strip_sign_app _ _ Hsg Hns), Hsp, (sign_of_app _ _ Hsg Hns).
      destruct HF as [[-> [-> Hi]]|[-> Hne2]].
      - change ("" ++ E) with E. rewrite HT.
        replace (match String c r with String "."%char r0 => let (d2, t2) := span_digits r0 in (".", d2, t2) | _ => ("", "", String c r) end)
          with ("", "", String c r)
          by (destruct c as [[] [] [] [] [] [] [] []]; try reflexivity; discriminate Hcp).
        rewrite Hi. cbn [orb]. destruct (is_sign c) eqn:Es; [|reflexivity].
        destruct (Hcs eq_refl) as [_ ->]. rewrite Hne, Hed. reflexivity.
      - change (("." ++ g) ++ E) with (String "." (g ++ E)). cbv iota beta.
        rewrite (span_digits_app g E Hg HndE), Hne2, HT.
        destruct (is_sign c) eqn:Es; [|reflexivity].
        destruct (Hcs eq_refl) as [_ ->]. rewrite Hne, Hed. cbn [andb].
        reflexivity. }
    rewrite P2. f_equal.
    assert (NF : no_marker F = true).
    { destruct HF as [[-> _]|[-> _]]; [reflexivity|].
      change ("." ++ g) with (String "." g). cbn [no_marker]. now rewrite (no_marker_digits _ Hg). }
    assert (NE : no_marker (es ++ ed) = true)
      by now rewrite no_marker_app, (no_marker_sign _ Hes), (no_marker_digits _ Hed).
    rewrite (pass3_app sg), (pass3_app ip), (pass3_app F).
    rewrite (pass3_plain _ (no_marker_sign _ Hsg)), (pass3_plain _ (no_marker_digits _ Hip)), (pass3_plain _ NF).
    do 3 f_equal.
    destruct (is_sign c) eqn:Es.
    - destruct (Hcs eq_refl) as [Hm _]. unfold E. rewrite Hm.
      change ("" ++ es ++ ed) with (es ++ ed).
      change ("e" ++ es ++ ed) with (String "e" (es ++ ed)). cbn [pass3].
      rewrite (pass3_plain _ NE). reflexivity.
    - unfold E. rewrite pass3_app, (pass3_plain _ NE).
      destruct Hmk as [-> | [-> | [-> | [-> | [Hm Hn]]]]]; try reflexivity.
      exfalso. unfold E in HT. rewrite Hm in HT.
      destruct (es_nonempty_cases Hn) as [He | He]; rewrite He in HT; inversion HT; subst c; discriminate Es.
  Qed.
End Exponent.

(* ---- the theorem over the spelling relation ---- *)
Lemma marker_mk_ok n m es ed : n_exp n = Some (es, ed) -> marker_ok n m = true ->
  mk_ok es (marker_str m).
Proof.
  unfold marker_ok, mk_ok. intros -> H. destruct m; simpl; auto 6.
Qed.

Theorem norm_spell n pad m :
  wf_number n = true -> marker_ok n m = true ->
  normalize_float (spell n pad m) = Ok (normal_form n pad).
Proof.
  unfold wf_number. intros W M.
  repeat (apply andb_true_iff in W; destruct W as [W ?]).
  rename H into Hexp, H0 into Hdig, H1 into Hfd, H2 into Hid. rename W into Hsg.
  unfold spell, normal_form, exp_str, frac_str, frac_digits in *.
  destruct (n_exp n) as [[es ed]|] eqn:Eexp.
  - apply andb_true_iff in Hexp. destruct Hexp as [Hexp Hed].
    apply andb_true_iff in Hexp. destruct Hexp as [Hes Hne].
    pose proof (marker_mk_ok n m es ed Eexp M) as Hmk.
    destruct (n_frac n) as [f|] eqn:Ef.
    + apply (norm_exp (n_sign n) (n_int n) es ed ("." ++ f ++ zeros pad) (f ++ zeros pad)); auto.
      * now rewrite all_digits_app, Hfd, all_digits_zeros.
      * right. split; [reflexivity|]. apply orb_true_iff in Hdig. apply orb_true_iff.
        destruct Hdig as [H|H]; [left; exact H | right; now apply nonempty_app_l].
    + simpl in Hdig. rewrite orb_false_r in Hdig.
      apply (norm_exp (n_sign n) (n_int n) es ed "" ""); auto.
  - destruct (n_frac n) as [f|] eqn:Ef.
    + rewrite !sapp_nil_r. apply norm_frac; auto.
    + simpl in Hdig. rewrite orb_false_r in Hdig. rewrite !sapp_nil_r. apply norm_int; auto.
Qed.

(* spellings of one number that differ by the marker, and — without an
   exponent — by zeros padded to the fraction, normalise alike *)
Theorem normalize_float_classes n p1 m1 p2 m2 :
  wf_number n = true -> marker_ok n m1 = true -> marker_ok n m2 = true ->
  (n_exp n = None \/ p1 = p2) ->
  normalize_float (spell n p1 m1) = normalize_float (spell n p2 m2) /\
  exists s, normalize_float (spell n p1 m1) = Ok s.
Proof.
  intros W M1 M2 G. rewrite (norm_spell n p1 m1 W M1), (norm_spell n p2 m2 W M2).
  split; [|eexists; reflexivity]. f_equal.
  destruct G as [G | ->]; [|reflexivity]. unfold normal_form. now rewrite G.
Qed.

(* the guard is needed: zeros between a fraction and an exponent stay *)
Definition witness_number : number := mkNumber "-" "1" (Some "5") (Some ("-", "3")).

Theorem normalize_float_exponent_padding_refuted :
  exists n p1 p2 m, wf_number n = true /\ marker_ok n m = true /\
    spell n p1 m = "-1.5e-3" /\ spell n p2 m = "-1.50e-3" /\
    normalize_float (spell n p1 m) <> normalize_float (spell n p2 m).
Proof.
  exists witness_number, 0%nat, 1%nat, Me. repeat split; try reflexivity. vm_compute. discriminate.
Qed.

(* ---- normal forms are fixed points ---- *)
Lemma canon_frac_idem f : canon_frac (canon_frac f) = canon_frac f.
Proof.
  unfold canon_frac. destruct (rstrip0 f) as [|c r] eqn:E; [reflexivity|].
  rewrite <- E, rstrip0_idem, E. reflexivity.
Qed.

Lemma all_digits_canon f : all_digits f = true -> all_digits (canon_frac f) = true.
Proof.
  intros H. unfold canon_frac. pose proof (all_digits_rstrip0 f H) as H'.
  destruct (rstrip0 f); [reflexivity | exact H'].
Qed.

Theorem normal_form_fixed n pad :
  wf_number n = true -> normalize_float (normal_form n pad) = Ok (normal_form n pad).
Proof.
  unfold wf_number. intros W.
  repeat (apply andb_true_iff in W; destruct W as [W ?]).
  rename H into Hexp, H0 into Hdig, H1 into Hfd, H2 into Hid. rename W into Hsg.
  unfold normal_form, frac_str, frac_digits in *.
  destruct (n_exp n) as [[es ed]|] eqn:Eexp.
  - apply andb_true_iff in Hexp. destruct Hexp as [Hexp Hed].
    apply andb_true_iff in Hexp. destruct Hexp as [Hes Hne].
    destruct (n_frac n) as [f|] eqn:Ef.
    + apply (norm_exp (n_sign n) (n_int n) es ed ("." ++ f ++ zeros pad) (f ++ zeros pad)); auto.
      * now rewrite all_digits_app, Hfd, all_digits_zeros.
      * right. split; [reflexivity|]. apply orb_true_iff in Hdig. apply orb_true_iff.
        destruct Hdig as [H|H]; [left; exact H | right; now apply nonempty_app_l].
      * left. reflexivity.
    + simpl in Hdig. rewrite orb_false_r in Hdig.
      apply (norm_exp (n_sign n) (n_int n) es ed "" ""); auto. left. reflexivity.
  - destruct (n_frac n) as [f|] eqn:Ef.
    + pose proof (norm_frac (n_sign n) (n_int n) Hsg Hid (canon_frac f) 0 (all_digits_canon f Hfd)) as H.
      cbn [zeros] in H. rewrite sapp_nil_r, canon_frac_idem in H. exact H.
    + simpl in Hdig. rewrite orb_false_r in Hdig. rewrite !sapp_nil_r. apply norm_int; auto.
Qed.

(* ---- parse_material: the density stored in a cell ---- *)
Theorem parse_material_classes mat z n p1 m1 p2 m2 rest1 rest2 :
  int_of_token mat = Some z -> z <> 0%Z ->
  wf_number n = true -> marker_ok n m1 = true -> marker_ok n m2 = true ->
  (n_exp n = None \/ p1 = p2) ->
  parse_material (mat :: spell n p1 m1 :: rest1) = Ok (mat, Some (normal_form n p1)) /\
  parse_material (mat :: spell n p2 m2 :: rest2) = parse_material (mat :: spell n p1 m1 :: rest1).
Proof.
  intros Hm Hz W M1 M2 G. unfold parse_material. rewrite Hm.
  destruct z as [|p|p]; [now elim Hz| |];
    rewrite (norm_spell n p1 m1 W M1), (norm_spell n p2 m2 W M2);
    (split; [reflexivity|]); do 3 f_equal;
    (destruct G as [G | ->]; [|reflexivity]); unfold normal_form; now rewrite G.
Qed.

(* void cells carry no density *)
Lemma parse_material_void mat rest : int_of_token mat = Some 0%Z ->
  parse_material (mat :: rest) = Ok (mat, None).
Proof. intros H. unfold parse_material. now rewrite H. Qed.

(* ---- LIKE n BUT ---- *)
(* a density given by RHO= is stored like the same spelling on a cell card *)
Theorem cell_material_rho toks m0 d0 kmat n pad m :
  parse_material toks = Ok (m0, d0) -> wf_number n = true -> marker_ok n m = true ->
  cell_material toks kmat (Some (spell n pad m)) =
    Ok (match kmat with Some x => x | None => m0 end, Some (normal_form n pad)).
Proof.
  intros H W M. unfold cell_material. rewrite H, (norm_spell n pad m W M). reflexivity.
Qed.

(* without keywords the base pair is kept *)
Lemma cell_material_plain toks : cell_material toks None None =
  match parse_material toks with Ok (m, d) => Ok (m, d) | Err e => Err e end.
Proof. unfold cell_material. destruct (parse_material toks) as [[m d]|]; reflexivity. Qed.

(* MAT=0 on a copy of a cell with a density: a void cell that keeps a density
   (finding like_but_mat_void) *)
Theorem cell_material_void_refuted :
  exists toks d, cell_material toks (Some "0") None = Ok ("0", Some d).
Proof. exists ["1"; "-1.0"], "-1.0". reflexivity. Qed.
