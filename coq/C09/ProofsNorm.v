(* C09 — proofs about normalize_float (Model.v) against the spelling relation of
   Spec.v. *)
From Coq Require Import List NArith ZArith Bool String Ascii Lia.
From T4V Require Import Base.Str C09.Model C09.Spec.
Import ListNotations.
Open Scope string_scope.

(* ---- characters ---- *)
Lemma digit_not_sign c : is_digit c = true -> is_sign c = false.
Proof. destruct c as [[] [] [] [] [] [] [] []]; cbv; intros H; first [reflexivity | discriminate H]. Qed.

Lemma digit_not_marker c : is_digit c = true -> is_marker c = false.
Proof. destruct c as [[] [] [] [] [] [] [] []]; cbv; intros H; first [reflexivity | discriminate H]. Qed.

Lemma sign_not_marker c : is_sign c = true -> is_marker c = false.
Proof. destruct c as [[] [] [] [] [] [] [] []]; cbv; intros H; first [reflexivity | discriminate H]. Qed.

Lemma sign_not_digit c : is_sign c = true -> is_digit c = false.
Proof. destruct c as [[] [] [] [] [] [] [] []]; cbv; intros H; first [reflexivity | discriminate H]. Qed.

Lemma digit_not_dot c : is_digit c = true -> Ascii.eqb c "." = false.
Proof. destruct c as [[] [] [] [] [] [] [] []]; cbv; intros H; first [reflexivity | discriminate H]. Qed.

(* ---- strings ---- *)
Lemma sapp_assoc (a b c : string) : (a ++ b) ++ c = a ++ (b ++ c).
Proof. induction a as [|x a IH]; simpl; [reflexivity | now rewrite IH]. Qed.

Lemma sapp_nil_r (a : string) : a ++ "" = a.
Proof. induction a as [|x a IH]; simpl; [reflexivity | now rewrite IH]. Qed.

Lemma all_digits_app a b : all_digits (a ++ b) = all_digits a && all_digits b.
Proof. induction a as [|x a IH]; simpl; [reflexivity | now rewrite IH, andb_assoc]. Qed.

Lemma all_digits_zeros k : all_digits (zeros k) = true.
Proof. induction k; simpl; auto. Qed.

Lemma nonempty_app_l a b : nonempty a = true -> nonempty (a ++ b) = true.
Proof. destruct a; simpl; [discriminate | reflexivity]. Qed.

(* the head of a string is not a digit (or the string is empty) *)
Definition nd_head (t : string) : bool :=
  match t with String c _ => negb (is_digit c) | EmptyString => true end.

Lemma span_digits_app d t :
  all_digits d = true -> nd_head t = true -> span_digits (d ++ t) = (d, t).
Proof.
  intros Hd Ht. induction d as [|c d IH]; simpl in *.
  - destruct t as [|c r]; [reflexivity|]. simpl in Ht.
    destruct (is_digit c) eqn:E; [discriminate | simpl; rewrite E; reflexivity].
  - apply andb_true_iff in Hd. destruct Hd as [Hc Hd]. rewrite Hc, (IH Hd). reflexivity.
Qed.

Lemma span_digits_all d : all_digits d = true -> span_digits d = (d, "").
Proof. intros H. rewrite <- (sapp_nil_r d) at 1. now apply span_digits_app. Qed.

(* sign prefix *)
Definition ns_head (t : string) : bool :=
  match t with String c _ => negb (is_sign c) | EmptyString => true end.

Lemma sign_ok_cases sg : sign_ok sg = true -> sg = "" \/ sg = "-" \/ sg = "+".
Proof.
  unfold sign_ok. intros H. apply orb_true_iff in H. destruct H as [H|H].
  - apply orb_true_iff in H. destruct H as [H|H]; apply String.eqb_eq in H; auto.
  - apply String.eqb_eq in H; auto.
Qed.

Lemma strip_sign_app sg x :
  sign_ok sg = true -> ns_head x = true -> strip_sign (sg ++ x) = x.
Proof.
  intros Hs Hx. destruct (sign_ok_cases _ Hs) as [-> | [-> | ->]]; try reflexivity.
  simpl. destruct x as [|c r]; [reflexivity|]. simpl in *. destruct (is_sign c); [discriminate|reflexivity].
Qed.

Lemma sign_of_app sg x :
  sign_ok sg = true -> ns_head x = true -> sign_of (sg ++ x) = sg.
Proof.
  intros Hs Hx. destruct (sign_ok_cases _ Hs) as [-> | [-> | ->]]; try reflexivity.
  simpl. destruct x as [|c r]; [reflexivity|]. simpl in *. destruct (is_sign c); [discriminate|reflexivity].
Qed.

(* rstrip0 *)
Lemma rstrip0_zeros k : rstrip0 (zeros k) = "".
Proof. induction k; simpl; [reflexivity | now rewrite IHk]. Qed.

Lemma rstrip0_app_zeros f k : rstrip0 (f ++ zeros k) = rstrip0 f.
Proof.
  induction f as [|c f IH]; simpl.
  - apply rstrip0_zeros.
  - now rewrite IH.
Qed.

Lemma rstrip0_idem f : rstrip0 (rstrip0 f) = rstrip0 f.
Proof.
  induction f as [|c f IH]; simpl; [reflexivity|].
  destruct (rstrip0 f) as [|c' r'] eqn:E.
  - destruct (Ascii.eqb c "0") eqn:E0; simpl; [reflexivity | now rewrite E0].
  - simpl in *. rewrite IH. reflexivity.
Qed.

Lemma all_digits_rstrip0 f : all_digits f = true -> all_digits (rstrip0 f) = true.
Proof.
  induction f as [|c f IH]; simpl; [reflexivity|]. intros H.
  apply andb_true_iff in H. destruct H as [Hc Hf]. specialize (IH Hf).
  destruct (rstrip0 f) as [|c' r'].
  - destruct (Ascii.eqb c "0"); simpl; [reflexivity | now rewrite Hc].
  - simpl in *. now rewrite Hc, IH.
Qed.

(* last character *)
Lemma last_char_cons x s : s <> "" -> last_char (String x s) = last_char s.
Proof. destruct s; [intros H; now elim H | reflexivity]. Qed.

Lemma last_char_app_cons a c r : last_char (a ++ String c r) = last_char (String c r).
Proof.
  induction a as [|x a IH]; [reflexivity|].
  change (String x a ++ String c r) with (String x (a ++ String c r)).
  rewrite last_char_cons; [exact IH|]. destruct a; discriminate.
Qed.

Lemma last_char_digits d : nonempty d = true -> all_digits d = true ->
  exists c, last_char d = Some c /\ is_digit c = true.
Proof.
  induction d as [|x d IH]; [discriminate|]. intros _ H. simpl in H.
  apply andb_true_iff in H. destruct H as [Hx Hd].
  destruct d as [|y d'].
  - exists x. split; [reflexivity | exact Hx].
  - destruct (IH eq_refl Hd) as [c [Hc1 Hc2]]. exists c. split; [|exact Hc2]. exact Hc1.
Qed.

(* the last character of rstrip0 f, when there is one, is a digit other than 0 *)
Lemma last_char_rstrip0 f : all_digits f = true ->
  match last_char (rstrip0 f) with
  | Some c => is_digit c = true /\ Ascii.eqb c "0" = false
  | None => rstrip0 f = ""
  end.
Proof.
  induction f as [|x f IH]; [reflexivity|]. intros H. simpl in H.
  apply andb_true_iff in H. destruct H as [Hx Hf]. specialize (IH Hf). simpl.
  destruct (rstrip0 f) as [|y r] eqn:E.
  - destruct (Ascii.eqb x "0") eqn:E0; simpl; auto.
  - change (last_char (String x (String y r))) with (last_char (String y r)).
    destruct (last_char (String y r)); [exact IH | discriminate IH].
Qed.

(* pass3 *)
Fixpoint no_marker (s : string) : bool :=
  match s with EmptyString => true | String c r => negb (is_marker c) && no_marker r end.

Lemma pass3_app a b : pass3 (a ++ b) = pass3 a ++ pass3 b.
Proof. induction a as [|x a IH]; simpl; [reflexivity | now rewrite IH]. Qed.

Lemma pass3_plain s : no_marker s = true -> pass3 s = s.
Proof.
  induction s as [|c s IH]; simpl; [reflexivity|]. intros H.
  apply andb_true_iff in H. destruct H as [Hc Hs]. apply negb_true_iff in Hc.
  now rewrite Hc, IH.
Qed.

Lemma no_marker_digits s : all_digits s = true -> no_marker s = true.
Proof.
  induction s as [|c s IH]; simpl; [reflexivity|]. intros H.
  apply andb_true_iff in H. destruct H as [Hc Hs].
  now rewrite (digit_not_marker _ Hc), IH.
Qed.

Lemma no_marker_sign s : sign_ok s = true -> no_marker s = true.
Proof. intros H. destruct (sign_ok_cases _ H) as [-> | [-> | ->]]; reflexivity. Qed.

Lemma no_marker_app a b : no_marker (a ++ b) = no_marker a && no_marker b.
Proof. induction a as [|x a IH]; simpl; [reflexivity | now rewrite IH, andb_assoc]. Qed.

Lemma pass3_marker m : m <> Mnone -> pass3 (marker_str m) = "e".
Proof. destruct m; intros H; try reflexivity. now elim H. Qed.

(* ---- the normal form of a spelling ---- *)
Definition canon_frac (f : string) : string :=
  match rstrip0 f with EmptyString => "0" | r => r end.

(* what is left of the fraction in front of an exponent: no final zeros; one
   digit is kept when there are no integer digits *)
Definition keep_frac (ip f : string) : string :=
  if nonempty ip then rstrip0 f else canon_frac f.

Definition normal_form (n : number) : string :=
  match n_exp n with
  | None => n_sign n ++ n_int n ++
            match n_frac n with Some f => "." ++ canon_frac f | None => "" end
  | Some (es, ed) => n_sign n ++ n_int n ++
            match n_frac n with Some f => "." ++ keep_frac (n_int n) f | None => "" end ++
            "e" ++ es ++ ed
  end.

Lemma canon_frac_idem f : canon_frac (canon_frac f) = canon_frac f.
Proof.
  unfold canon_frac. destruct (rstrip0 f) as [|c r] eqn:E; [reflexivity|].
  rewrite <- E, rstrip0_idem, E. reflexivity.
Qed.

Lemma all_digits_canon f : all_digits f = true -> all_digits (canon_frac f) = true.
Proof.
  intros H. unfold canon_frac. pose proof (all_digits_rstrip0 f H) as H'.
  destruct (rstrip0 f); [reflexivity | exact H'].
Qed.

(* the mantissa and what follows do not start with a sign *)
Lemma ns_head_digits_app d t :
  all_digits d = true -> (nonempty d = true \/ ns_head t = true) -> ns_head (d ++ t) = true.
Proof.
  intros Hd H. destruct d as [|c d]; simpl in *.
  - destruct H as [H|H]; [discriminate | exact H].
  - apply andb_true_iff in Hd. destruct Hd as [Hc _]. now rewrite (digit_not_sign _ Hc).
Qed.

(* the passes after the two zero-stripping ones *)
Definition finish (a : string) : res string :=
  match add_zero a with Err e => Err e | Ok n => Ok (pass3 (pass2 n)) end.

Lemma normalize_unfold s : normalize_float s = finish (pass1b (pass1 s)).
Proof. reflexivity. Qed.

(* pass1b leaves spellings without exponent alone *)
Lemma pass1b_int sg ip : sign_ok sg = true -> all_digits ip = true -> nonempty ip = true ->
  pass1b (sg ++ ip) = sg ++ ip.
Proof.
  intros Hsg Hip Hne. unfold pass1b.
  assert (Hns : ns_head ip = true).
  { rewrite <- (sapp_nil_r ip). apply ns_head_digits_app; auto. }
  rewrite (strip_sign_app _ _ Hsg Hns), (span_digits_all _ Hip). reflexivity.
Qed.

Lemma pass1b_frac sg ip r : sign_ok sg = true -> all_digits ip = true -> all_digits r = true ->
  pass1b (sg ++ ip ++ "." ++ r) = sg ++ ip ++ "." ++ r.
Proof.
  intros Hsg Hip Hr. unfold pass1b.
  assert (Hns : ns_head (ip ++ "." ++ r) = true) by (apply ns_head_digits_app; auto).
  rewrite (strip_sign_app _ _ Hsg Hns), (span_digits_app ip ("." ++ r) Hip eq_refl).
  change ("." ++ r) with (String "." r). cbv iota beta. rewrite (span_digits_all _ Hr). reflexivity.
Qed.

Section NoExponent.
  Variables (sg ip : string).
  Hypothesis Hsg : sign_ok sg = true.
  Hypothesis Hip : all_digits ip = true.

  (* integer spelling: unchanged *)
  Lemma norm_int : nonempty ip = true -> normalize_float (sg ++ ip) = Ok (sg ++ ip).
  Proof.
    intros Hne. unfold normalize_float.
    assert (Hns : ns_head ip = true).
    { rewrite <- (sapp_nil_r ip). apply ns_head_digits_app; auto. }
    assert (P1 : pass1 (sg ++ ip) = sg ++ ip).
    { unfold pass1. rewrite (strip_sign_app _ _ Hsg Hns), (span_digits_all _ Hip). reflexivity. }
    rewrite P1, (pass1b_int sg ip Hsg Hip Hne).
    assert (A : add_zero (sg ++ ip) = Ok (sg ++ ip)).
    { unfold add_zero. destruct (last_char_digits ip Hne Hip) as [c [Hc1 Hc2]].
      destruct ip as [|x r]; [discriminate|].
      rewrite last_char_app_cons, Hc1, (digit_not_dot _ Hc2). reflexivity. }
    rewrite A.
    assert (P2 : pass2 (sg ++ ip) = sg ++ ip).
    { unfold pass2. rewrite (strip_sign_app _ _ Hsg Hns), (span_digits_all _ Hip).
      destruct (nonempty ip || nonempty ""); reflexivity. }
    rewrite P2, pass3_plain; [reflexivity|].
    rewrite no_marker_app, (no_marker_sign _ Hsg), (no_marker_digits _ Hip). reflexivity.
  Qed.

  (* the first pass on a spelling with a point and no exponent *)
  Lemma pass1_frac f k : all_digits f = true ->
    pass1 (sg ++ ip ++ "." ++ f ++ zeros k) = sg ++ ip ++ "." ++ rstrip0 f.
  Proof.
    intros Hf. set (r := f ++ zeros k).
    assert (Hr : all_digits r = true) by (unfold r; now rewrite all_digits_app, Hf, all_digits_zeros).
    assert (Hns : ns_head (ip ++ "." ++ r) = true) by (apply ns_head_digits_app; auto).
    assert (Hsp : span_digits (ip ++ "." ++ r) = (ip, "." ++ r)) by (apply span_digits_app; auto).
    unfold pass1. rewrite (strip_sign_app _ _ Hsg Hns), Hsp, (sign_of_app _ _ Hsg Hns).
    change ("." ++ r) with (String "." r). cbv iota beta. rewrite Hr. cbn [andb].
    assert (Hrs : rstrip0 r = rstrip0 f) by apply rstrip0_app_zeros.
    destruct (String.eqb (rstrip0 r) r) eqn:Eq; cbn [negb].
    - apply String.eqb_eq in Eq. rewrite <- Eq at 1. now rewrite Hrs.
    - now rewrite Hrs.
  Qed.

  Lemma add_zero_frac f : all_digits f = true ->
    add_zero (sg ++ ip ++ "." ++ rstrip0 f) = Ok (sg ++ ip ++ "." ++ canon_frac f).
  Proof.
    intros Hf. pose proof (last_char_rstrip0 f Hf) as HL.
    unfold add_zero, canon_frac. destruct (rstrip0 f) as [|y t] eqn:E.
    - change ("." ++ "") with (String "." ""). rewrite <- sapp_assoc, last_char_app_cons.
      cbn [last_char]. rewrite Ascii.eqb_refl. rewrite !sapp_assoc. reflexivity.
    - change ("." ++ String y t) with (String "." (String y t)).
      rewrite <- sapp_assoc, last_char_app_cons.
      change (last_char (String "." (String y t))) with (last_char (String y t)).
      destruct (last_char (String y t)) as [c|] eqn:EL; [|discriminate HL].
      destruct HL as [HL1 HL2]. rewrite (digit_not_dot _ HL1). rewrite sapp_assoc. reflexivity.
  Qed.

  (* add_zero after the two stripping passes *)
  Lemma prep_frac f k : all_digits f = true ->
    add_zero (pass1b (pass1 (sg ++ ip ++ "." ++ f ++ zeros k))) = Ok (sg ++ ip ++ "." ++ canon_frac f).
  Proof.
    intros Hf. rewrite (pass1_frac f k Hf), (pass1b_frac sg ip _ Hsg Hip (all_digits_rstrip0 f Hf)).
    now apply add_zero_frac.
  Qed.

  (* spelling with a point and no exponent: the fraction loses its final zeros,
     one zero is kept when nothing else is left *)
  Lemma norm_frac f k : all_digits f = true ->
    normalize_float (sg ++ ip ++ "." ++ f ++ zeros k) = Ok (sg ++ ip ++ "." ++ canon_frac f).
  Proof.
    intros Hf. unfold normalize_float. rewrite (prep_frac f k Hf).
    assert (Hc : all_digits (canon_frac f) = true).
    { unfold canon_frac. pose proof (all_digits_rstrip0 f Hf) as H. destruct (rstrip0 f); [reflexivity | exact H]. }
    assert (Hns' : ns_head (ip ++ "." ++ canon_frac f) = true) by (apply ns_head_digits_app; auto).
    assert (P2 : pass2 (sg ++ ip ++ "." ++ canon_frac f) = sg ++ ip ++ "." ++ canon_frac f).
    { unfold pass2. rewrite (strip_sign_app _ _ Hsg Hns').
      rewrite (span_digits_app ip ("." ++ canon_frac f) Hip eq_refl).
      change ("." ++ canon_frac f) with (String "." (canon_frac f)). cbv iota beta.
      rewrite (span_digits_all _ Hc). destruct (nonempty ip || nonempty (canon_frac f)); reflexivity. }
    rewrite P2, pass3_plain; [reflexivity|].
    rewrite !no_marker_app, (no_marker_sign _ Hsg), (no_marker_digits _ Hip), (no_marker_digits _ Hc).
    reflexivity.
  Qed.
End NoExponent.

(* ---- spellings with an exponent ---- *)
Section Exponent.
  Variables (sg ip es ed : string) (F g : string).
  Hypothesis Hsg : sign_ok sg = true.
  Hypothesis Hip : all_digits ip = true.
  Hypothesis Hes : sign_ok es = true.
  Hypothesis Hed : all_digits ed = true.
  Hypothesis Hne : nonempty ed = true.
  (* F = "" (no point, integer part non-empty) or F = "." ++ g *)
  Hypothesis Hg : all_digits g = true.
  Hypothesis HF : (F = "" /\ g = "" /\ nonempty ip = true) \/
                  (F = "." ++ g /\ (nonempty ip || nonempty g) = true).


  Definition mk_ok (mk : string) : Prop :=
    mk = "e" \/ mk = "E" \/ mk = "d" \/ mk = "D" \/ (mk = "" /\ nonempty es = true).

  Lemma es_nonempty_cases : nonempty es = true -> es = "-" \/ es = "+".
  Proof. intros H. destruct (sign_ok_cases _ Hes) as [-> | [-> | ->]]; auto. discriminate. Qed.

  (* head of the exponent part: not a digit, not a point *)
  Lemma tail_head mk : mk_ok mk ->
    exists c r, mk ++ es ++ ed = String c r /\ is_digit c = false /\ Ascii.eqb c "." = false /\
                (is_sign c = true -> mk = "" /\ r = ed).
  Proof.
    intros [-> | [-> | [-> | [-> | [-> H]]]]].
    1-4: eexists; eexists; split; [reflexivity|]; repeat split; try reflexivity; cbv; discriminate.
    destruct (es_nonempty_cases H) as [-> | ->]; eexists; eexists; (split; [reflexivity|]);
      repeat split; reflexivity.
  Qed.

  Lemma mantissa_ns t : ns_head t = true \/ nonempty ip = true \/ F <> "" -> ns_head (ip ++ F ++ t) = true.
  Proof.
    intros H. apply ns_head_digits_app; [exact Hip|].
    destruct HF as [[-> [_ Hi]]|[-> _]]; [left; exact Hi | right; reflexivity].
  Qed.

  Lemma last_is_digit x : exists c, last_char (x ++ ed) = Some c /\ is_digit c = true.
  Proof.
    destruct (last_char_digits ed Hne Hed) as [c [H1 H2]]. exists c. split; [|exact H2].
    destruct ed as [|y r]; [discriminate|]. now rewrite last_char_app_cons.
  Qed.

  (* the first pass does nothing; the passes after the stripping ones write the marker e *)
  Lemma exp_old mk : mk_ok mk ->
    pass1 (sg ++ ip ++ F ++ mk ++ es ++ ed) = sg ++ ip ++ F ++ mk ++ es ++ ed /\
    finish (sg ++ ip ++ F ++ mk ++ es ++ ed) = Ok (sg ++ ip ++ F ++ "e" ++ es ++ ed).
  Proof.
    intros Hmk. destruct (tail_head mk Hmk) as [c [r [HT [Hcd [Hcp Hcs]]]]].
    set (E := mk ++ es ++ ed) in *.
    assert (HndE : nd_head E = true) by (rewrite HT; simpl; now rewrite Hcd).
    assert (Hns : ns_head (ip ++ F ++ E) = true).
    { apply mantissa_ns. destruct HF as [[_ [_ Hi]]|[-> _]]; [right; left; exact Hi | right; right; discriminate]. }
    (* span of the mantissa *)
    assert (Hsp : span_digits (ip ++ F ++ E) = (ip, F ++ E)).
    { apply span_digits_app; [exact Hip|]. destruct HF as [[-> _]|[-> _]]; [exact HndE | reflexivity]. }
    assert (P1 : pass1 (sg ++ ip ++ F ++ E) = sg ++ ip ++ F ++ E).
    { unfold pass1. rewrite (strip_sign_app _ _ Hsg Hns), Hsp.
      destruct HF as [[-> _]|[-> _]].
      - change ("" ++ E) with E. rewrite HT. destruct c as [[] [] [] [] [] [] [] []]; try reflexivity; discriminate Hcp.
      - change (("." ++ g) ++ E) with (String "." (g ++ E)). cbv iota beta.
        rewrite all_digits_app, Hg, HT. cbn [all_digits andb]. rewrite Hcd. reflexivity. }
    split; [exact P1|]. unfold finish.
    assert (A : add_zero (sg ++ ip ++ F ++ E) = Ok (sg ++ ip ++ F ++ E)).
    { unfold add_zero, E. rewrite <- !sapp_assoc.
      destruct (last_is_digit ((((sg ++ ip) ++ F) ++ mk) ++ es)) as [c' [H1 H2]].
      rewrite H1, (digit_not_dot _ H2). reflexivity. }
    rewrite A.
    assert (P2 : pass2 (sg ++ ip ++ F ++ E) = sg ++ ip ++ F ++ (if is_sign c then "e" ++ E else E)).
    { unfold pass2. rewrite (strip_sign_app _ _ Hsg Hns), Hsp, (sign_of_app _ _ Hsg Hns).
      destruct HF as [[-> [-> Hi]]|[-> Hne2]].
      - change ("" ++ E) with E. rewrite HT.
        replace (match String c r with String "."%char r0 => let (d2, t2) := span_digits r0 in (".", d2, t2) | _ => ("", "", String c r) end)
          with ("", "", String c r)
          by (destruct c as [[] [] [] [] [] [] [] []]; try reflexivity; discriminate Hcp).
        rewrite Hi. cbn [orb]. destruct (is_sign c) eqn:Es; [|reflexivity].
        destruct (Hcs eq_refl) as [_ ->]. rewrite Hne, Hed. reflexivity.
      - change (("." ++ g) ++ E) with (String "." (g ++ E)). cbv iota beta.
        rewrite (span_digits_app g E Hg HndE), Hne2, HT.
        destruct (is_sign c) eqn:Es; [|reflexivity].
        destruct (Hcs eq_refl) as [_ ->]. rewrite Hne, Hed. cbn [andb].
        reflexivity. }
    rewrite P2. f_equal.
    assert (NF : no_marker F = true).
    { destruct HF as [[-> _]|[-> _]]; [reflexivity|].
      change ("." ++ g) with (String "." g). cbn [no_marker]. now rewrite (no_marker_digits _ Hg). }
    assert (NE : no_marker (es ++ ed) = true)
      by now rewrite no_marker_app, (no_marker_sign _ Hes), (no_marker_digits _ Hed).
    rewrite (pass3_app sg), (pass3_app ip), (pass3_app F).
    rewrite (pass3_plain _ (no_marker_sign _ Hsg)), (pass3_plain _ (no_marker_digits _ Hip)), (pass3_plain _ NF).
    do 3 f_equal.
    destruct (is_sign c) eqn:Es.
    - destruct (Hcs eq_refl) as [Hm _]. unfold E. rewrite Hm.
      change ("" ++ es ++ ed) with (es ++ ed).
      change ("e" ++ es ++ ed) with (String "e" (es ++ ed)). cbn [pass3].
      rewrite (pass3_plain _ NE). reflexivity.
    - unfold E. rewrite pass3_app, (pass3_plain _ NE).
      destruct Hmk as [-> | [-> | [-> | [-> | [Hm Hn]]]]]; try reflexivity.
      exfalso. unfold E in HT. rewrite Hm in HT.
      destruct (es_nonempty_cases Hn) as [He | He]; rewrite He in HT; inversion HT; subst c; discriminate Es.
  Qed.
  (* the exponent part is one *)
  Lemma exp_ok_E mk : mk_ok mk -> exp_ok (mk ++ es ++ ed) = true.
  Proof.
    assert (Hnsd : ns_head ed = true).
    { rewrite <- (sapp_nil_r ed). apply ns_head_digits_app; auto. }
    assert (Hlet : nonempty (strip_sign (es ++ ed)) && all_digits (strip_sign (es ++ ed)) = true)
      by now rewrite (strip_sign_app _ _ Hes Hnsd), Hne, Hed.
    intros [-> | [-> | [-> | [-> | [-> H]]]]]; try exact Hlet.
    destruct (es_nonempty_cases H) as [-> | ->]; simpl; now rewrite Hne, Hed.
  Qed.

  (* what the second pass leaves of the fraction *)
  Definition strip_frac (f : string) : string :=
    if nonempty ip then rstrip0 f else canon_frac f.
  Definition F' : string := match F with EmptyString => "" | _ => "." ++ strip_frac g end.

  Lemma exp_pass1b mk : mk_ok mk ->
    pass1b (sg ++ ip ++ F ++ mk ++ es ++ ed) = sg ++ ip ++ F' ++ mk ++ es ++ ed.
  Proof.
    intros Hmk. destruct (tail_head mk Hmk) as [c [r [HT [Hcd [Hcp Hcs]]]]].
    pose proof (exp_ok_E mk Hmk) as Hok.
    set (E := mk ++ es ++ ed) in *.
    assert (HndE : nd_head E = true) by (rewrite HT; simpl; now rewrite Hcd).
    assert (Hns : ns_head (ip ++ F ++ E) = true).
    { apply mantissa_ns. destruct HF as [[_ [_ Hi]]|[-> _]]; [right; left; exact Hi | right; right; discriminate]. }
    assert (Hsp : span_digits (ip ++ F ++ E) = (ip, F ++ E)).
    { apply span_digits_app; [exact Hip|]. destruct HF as [[-> _]|[-> _]]; [exact HndE | reflexivity]. }
    unfold pass1b, F'. rewrite (strip_sign_app _ _ Hsg Hns), Hsp, (sign_of_app _ _ Hsg Hns).
    destruct HF as [[-> _]|[-> Hne2]].
    - change ("" ++ E) with E. rewrite HT. destruct c as [[] [] [] [] [] [] [] []]; try reflexivity; discriminate Hcp.
    - change (("." ++ g) ++ E) with (String "." (g ++ E)). cbv iota beta.
      rewrite (span_digits_app g E Hg HndE), Hok. cbn [andb].
      change (match "." ++ g with "" => "" | String _ _ => "." ++ strip_frac g end) with ("." ++ strip_frac g).
      unfold strip_frac.
      destruct (String.eqb (rstrip0 g) g) eqn:Eq; cbn [negb].
      + apply String.eqb_eq in Eq. destruct (nonempty ip) eqn:Ei.
        * now rewrite Eq.
        * unfold canon_frac. rewrite Eq. destruct g as [|y t]; [discriminate Hne2 | reflexivity].
      + destruct (nonempty ip) eqn:Ei.
        * rewrite !sapp_assoc. reflexivity.
        * destruct ip; [|discriminate Ei]. unfold canon_frac.
          destruct (rstrip0 g) as [|y t]; simpl; rewrite ?sapp_assoc; reflexivity.
  Qed.
End Exponent.

(* spelling with an exponent: zeros at the end of the fraction go (one digit is
   kept when there are no integer digits), the marker becomes e *)
Lemma strip_frac_idem ip g : strip_frac ip (strip_frac ip g) = strip_frac ip g.
Proof. unfold strip_frac. destruct (nonempty ip); [apply rstrip0_idem | apply canon_frac_idem]. Qed.


Lemma all_digits_strip_frac ip g : all_digits g = true -> all_digits (strip_frac ip g) = true.
Proof.
  intros H. unfold strip_frac. destruct (nonempty ip); [now apply all_digits_rstrip0 | now apply all_digits_canon].
Qed.

Lemma norm_exp sg ip es ed F g :
  sign_ok sg = true -> all_digits ip = true -> sign_ok es = true -> all_digits ed = true ->
  nonempty ed = true -> all_digits g = true ->
  ((F = "" /\ g = "" /\ nonempty ip = true) \/ (F = "." ++ g /\ (nonempty ip || nonempty g) = true)) ->
  forall mk, mk_ok es mk ->
  normalize_float (sg ++ ip ++ F ++ mk ++ es ++ ed) = Ok (sg ++ ip ++ F' ip F g ++ "e" ++ es ++ ed).
Proof.
  intros Hsg Hip Hes Hed Hne Hg HF mk Hmk.
  rewrite normalize_unfold.
  rewrite (proj1 (exp_old sg ip es ed F g Hsg Hip Hes Hed Hne Hg HF mk Hmk)).
  rewrite (exp_pass1b sg ip es ed F g Hsg Hip Hes Hed Hne Hg HF mk Hmk).
  assert (HF' : (F' ip F g = "" /\ strip_frac ip g = "" /\ nonempty ip = true) \/
                (F' ip F g = "." ++ strip_frac ip g /\ (nonempty ip || nonempty (strip_frac ip g)) = true)).
  { destruct HF as [[-> [-> Hi]]|[-> Hn]].
    - left. unfold F', strip_frac. rewrite Hi. auto.
    - right. split; [reflexivity|]. unfold strip_frac. destruct (nonempty ip) eqn:Ei; [reflexivity|].
      unfold canon_frac. destruct (rstrip0 g); reflexivity. }
  exact (proj2 (exp_old sg ip es ed (F' ip F g) (strip_frac ip g) Hsg Hip Hes Hed Hne
                  (all_digits_strip_frac ip g Hg) HF' mk Hmk)).
Qed.

(* the result is stable *)
Lemma F'_idem ip F g :
  ((F = "" /\ g = "") \/ F = "." ++ g) -> F' ip (F' ip F g) (strip_frac ip g) = F' ip F g.
Proof.
  intros [[-> ->] | ->]; [reflexivity|]. unfold F'. simpl. now rewrite strip_frac_idem.
Qed.

(* ---- the theorem over the spelling relation ---- *)
Lemma marker_mk_ok n m es ed : n_exp n = Some (es, ed) -> marker_ok n m = true ->
  mk_ok es (marker_str m).
Proof.
  unfold marker_ok, mk_ok. intros -> H. destruct m; simpl; auto 6.
Qed.

Lemma strip_frac_keep ip f : strip_frac ip f = keep_frac ip f.
Proof. reflexivity. Qed.

Lemma keep_frac_pad ip f k : keep_frac ip (f ++ zeros k) = keep_frac ip f.
Proof. unfold keep_frac, canon_frac. now rewrite rstrip0_app_zeros. Qed.

Theorem norm_spell n pad m :
  wf_number n = true -> marker_ok n m = true ->
  normalize_float (spell n pad m) = Ok (normal_form n).
Proof.
  unfold wf_number. intros W M.
  repeat (apply andb_true_iff in W; destruct W as [W ?]).
  rename H into Hexp, H0 into Hdig, H1 into Hfd, H2 into Hid. rename W into Hsg.
  unfold spell, normal_form, exp_str, frac_str, frac_digits in *.
  destruct (n_exp n) as [[es ed]|] eqn:Eexp.
  - apply andb_true_iff in Hexp. destruct Hexp as [Hexp Hed].
    apply andb_true_iff in Hexp. destruct Hexp as [Hes Hne].
    pose proof (marker_mk_ok n m es ed Eexp M) as Hmk.
    destruct (n_frac n) as [f|] eqn:Ef.
    + rewrite (norm_exp (n_sign n) (n_int n) es ed ("." ++ f ++ zeros pad) (f ++ zeros pad)
                 Hsg Hid Hes Hed Hne); auto.
      * unfold F'. simpl. now rewrite strip_frac_keep, keep_frac_pad.
      * now rewrite all_digits_app, Hfd, all_digits_zeros.
      * right. split; [reflexivity|]. apply orb_true_iff in Hdig. apply orb_true_iff.
        destruct Hdig as [H|H]; [left; exact H | right; now apply nonempty_app_l].
    + simpl in Hdig. rewrite orb_false_r in Hdig.
      rewrite (norm_exp (n_sign n) (n_int n) es ed "" "" Hsg Hid Hes Hed Hne); auto.
  - destruct (n_frac n) as [f|] eqn:Ef.
    + rewrite !sapp_nil_r. apply norm_frac; auto.
    + simpl in Hdig. rewrite orb_false_r in Hdig. rewrite !sapp_nil_r. apply norm_int; auto.
Qed.

(* all spellings of one number that differ by the marker and by zeros padded to
   the fraction — with or without exponent — normalise alike, and never raise *)
Theorem normalize_float_classes n p1 m1 p2 m2 :
  wf_number n = true -> marker_ok n m1 = true -> marker_ok n m2 = true ->
  normalize_float (spell n p1 m1) = normalize_float (spell n p2 m2) /\
  exists s, normalize_float (spell n p1 m1) = Ok s.
Proof.
  intros W M1 M2. rewrite (norm_spell n p1 m1 W M1), (norm_spell n p2 m2 W M2).
  split; [reflexivity | eexists; reflexivity].
Qed.

(* what does NOT collapse (documented behaviour, outside the property's
   spelling relation): a missing point ('1' / '1.0', '1e5' / '1.e5'), leading
   zeros of the integer part or a missing one ('01.5' / '1.5', '.5' / '0.5'), an
   explicit '+', the spelling of the exponent digits and sign ('e5' / 'e+5' /
   'e05'), a shifted point ('15' / '1.5e1') *)
Theorem normalize_float_kept_distinct :
  normalize_float "1" <> normalize_float "1.0" /\
  normalize_float "1e5" <> normalize_float "1.e5" /\
  normalize_float "01.5" <> normalize_float "1.5" /\
  normalize_float ".5" <> normalize_float "0.5" /\
  normalize_float "+1.5" <> normalize_float "1.5" /\
  normalize_float "1.5e5" <> normalize_float "1.5e+5" /\
  normalize_float "1.5e5" <> normalize_float "1.5e05" /\
  normalize_float "15" <> normalize_float "1.5e1" /\
  (* while these do *)
  normalize_float "1." = normalize_float "1.00" /\
  normalize_float "1.0e5" = normalize_float "1.D5" /\
  normalize_float ".50-3" = normalize_float ".5E-3" /\
  normalize_float ".0e5" = normalize_float ".000d5".
Proof. vm_compute. repeat split; discriminate. Qed.

(* ---- normal forms are fixed points ---- *)
Lemma keep_frac_idem ip f : keep_frac ip (keep_frac ip f) = keep_frac ip f.
Proof. apply strip_frac_idem. Qed.

Lemma all_digits_keep ip f : all_digits f = true -> all_digits (keep_frac ip f) = true.
Proof. apply all_digits_strip_frac. Qed.

Theorem normal_form_fixed n :
  wf_number n = true -> normalize_float (normal_form n) = Ok (normal_form n).
Proof.
  unfold wf_number. intros W.
  repeat (apply andb_true_iff in W; destruct W as [W ?]).
  rename H into Hexp, H0 into Hdig, H1 into Hfd, H2 into Hid. rename W into Hsg.
  unfold normal_form, frac_digits in *.
  destruct (n_exp n) as [[es ed]|] eqn:Eexp.
  - apply andb_true_iff in Hexp. destruct Hexp as [Hexp Hed].
    apply andb_true_iff in Hexp. destruct Hexp as [Hes Hne].
    destruct (n_frac n) as [f|] eqn:Ef.
    + rewrite (norm_exp (n_sign n) (n_int n) es ed ("." ++ keep_frac (n_int n) f) (keep_frac (n_int n) f)
                 Hsg Hid Hes Hed Hne (all_digits_keep _ f Hfd)).
      * unfold F'. simpl. now rewrite strip_frac_keep, keep_frac_idem.
      * right. split; [reflexivity|]. unfold keep_frac. destruct (nonempty (n_int n)); [reflexivity|].
        unfold canon_frac. destruct (rstrip0 f); reflexivity.
      * left. reflexivity.
    + simpl in Hdig. rewrite orb_false_r in Hdig.
      rewrite (norm_exp (n_sign n) (n_int n) es ed "" "" Hsg Hid Hes Hed Hne); auto.
      left. reflexivity.
  - destruct (n_frac n) as [f|] eqn:Ef.
    + pose proof (norm_frac (n_sign n) (n_int n) Hsg Hid (canon_frac f) 0 (all_digits_canon f Hfd)) as H.
      cbn [zeros] in H. rewrite sapp_nil_r, canon_frac_idem in H. exact H.
    + simpl in Hdig. rewrite orb_false_r in Hdig. rewrite !sapp_nil_r. apply norm_int; auto.
Qed.

(* ---- parse_material: the density stored in a cell ---- *)
Theorem parse_material_classes mat z n p1 m1 p2 m2 rest1 rest2 :
  int_of_token mat = Some z -> z <> 0%Z ->
  wf_number n = true -> marker_ok n m1 = true -> marker_ok n m2 = true ->
  parse_material (mat :: spell n p1 m1 :: rest1) = Ok (mat, Some (normal_form n)) /\
  parse_material (mat :: spell n p2 m2 :: rest2) = parse_material (mat :: spell n p1 m1 :: rest1).
Proof.
  intros Hm Hz W M1 M2. unfold parse_material. rewrite Hm.
  destruct z as [|p|p]; [now elim Hz| |];
    rewrite (norm_spell n p1 m1 W M1), (norm_spell n p2 m2 W M2); split; reflexivity.
Qed.

(* void cells carry no density *)
Lemma parse_material_void mat rest : int_of_token mat = Some 0%Z ->
  parse_material (mat :: rest) = Ok (mat, None).
Proof. intros H. unfold parse_material. now rewrite H. Qed.

(* ---- LIKE n BUT ---- *)
(* a density given by RHO= is stored like the same spelling on a cell card *)
Theorem cell_material_rho toks m0 d0 kmat n pad m z :
  parse_material toks = Ok (m0, d0) -> wf_number n = true -> marker_ok n m = true ->
  int_of_token (match kmat with Some x => x | None => m0 end) = Some z -> z <> 0%Z ->
  cell_material toks kmat (Some (spell n pad m)) =
    Ok (match kmat with Some x => x | None => m0 end, Some (normal_form n)).
Proof.
  intros H W M Hz Hnz. unfold cell_material. rewrite H, (norm_spell n pad m W M), Hz.
  destruct z; [now elim Hnz | reflexivity | reflexivity].
Qed.

(* MAT=0 (any spelling of 0) gives a void cell without density, whatever the
   base cell and whatever RHO= says *)
Theorem cell_material_void toks m0 d0 kmat krho :
  parse_material toks = Ok (m0, d0) -> int_of_token kmat = Some 0%Z ->
  (forall r, krho = Some r -> exists nr, normalize_float r = Ok nr) ->
  cell_material toks (Some kmat) krho = Ok (kmat, None).
Proof.
  intros H Hz Hr. unfold cell_material. rewrite H.
  destruct krho as [r|].
  - destruct (Hr r eq_refl) as [nr ->]. now rewrite Hz.
  - now rewrite Hz.
Qed.

(* without keywords the base pair is kept *)
Lemma cell_material_plain toks m d : parse_material toks = Ok (m, d) ->
  cell_material toks None None = Ok (m, d).
Proof.
  intros H. unfold cell_material. rewrite H.
  unfold parse_material in H. destruct toks as [|m1 rest]; [discriminate|].
  destruct (int_of_token m1) as [[|p|p]|] eqn:E; try discriminate.
  - inversion H; subst. now rewrite E.
  - destruct rest as [|d1 r]; [discriminate|]. destruct (normalize_float d1); [|discriminate].
    inversion H; subst. now rewrite E.
  - destruct rest as [|d1 r]; [discriminate|]. destruct (normalize_float d1); [|discriminate].
    inversion H; subst. now rewrite E.
Qed.
