(* C09 — normalize_float is idempotent on ALL strings: whatever token a cell
   carries, the density stored by parse_material is a fixed point, so that
   constructCompositionT4 (which normalises the stored string again) names the
   composition exactly as constructGeomCompT4 does. *)
From Coq Require Import List NArith ZArith Bool String Ascii Lia.
From T4V Require Import Base.Str C09.Model C09.Spec C09.ProofsNorm.
Import ListNotations.
Open Scope string_scope.

(* ---- decompositions ---- *)
Lemma is_sign_cases c : is_sign c = true -> c = "-"%char \/ c = "+"%char.
Proof.
  unfold is_sign. intros H. apply orb_true_iff in H.
  destruct H as [H|H]; apply Ascii.eqb_eq in H; auto.
Qed.

Lemma sign_decomp s : s = sign_of s ++ strip_sign s /\ sign_ok (sign_of s) = true.
Proof.
  destruct s as [|c r]; simpl; [auto|]. destruct (is_sign c) eqn:E; simpl; [|auto].
  split; [reflexivity|]. destruct (is_sign_cases c E) as [-> | ->]; reflexivity.
Qed.

Lemma span_digits_spec s :
  s = fst (span_digits s) ++ snd (span_digits s) /\
  all_digits (fst (span_digits s)) = true /\ nd_head (snd (span_digits s)) = true.
Proof.
  induction s as [|c r IH]; simpl; [auto|].
  destruct (is_digit c) eqn:E.
  - destruct (span_digits r) as [d t]. simpl in *. destruct IH as [H1 [H2 H3]].
    rewrite E, H2. repeat split; auto. now rewrite <- H1.
  - simpl. rewrite E. auto.
Qed.

(* ---- pass1 and add_zero ---- *)
Lemma pass1_shape s :
  pass1 s = s \/
  exists sg d1 r, sign_ok sg = true /\ all_digits d1 = true /\ all_digits r = true /\
                  s = sg ++ d1 ++ "." ++ r.
Proof.
  unfold pass1. destruct (sign_decomp s) as [Hs Hsg].
  destruct (span_digits_spec (strip_sign s)) as [Hx [Hd _]].
  destruct (span_digits (strip_sign s)) as [d1 t]. simpl in Hx, Hd.
  destruct t as [|c r]; [now left|].
  destruct (Ascii.eqb c ".") eqn:Ec.
  - apply Ascii.eqb_eq in Ec. subst c.
    destruct (all_digits r) eqn:Er; cbn [andb]; [|now left].
    right. exists (sign_of s), d1, r. repeat split; auto. rewrite Hs at 1. now rewrite Hx.
  - left. destruct c as [[] [] [] [] [] [] [] []]; try reflexivity; discriminate Ec.
Qed.

(* add_zero after pass1 on a spelling "sign digits . digits" *)
Lemma prep_frac sg ip f k :
  sign_ok sg = true -> all_digits ip = true -> all_digits f = true ->
  add_zero (pass1 (sg ++ ip ++ "." ++ f ++ zeros k)) = Ok (sg ++ ip ++ "." ++ canon_frac f).
Proof.
  intros Hsg Hip Hf.
  set (r := f ++ zeros k).
  assert (Hr : all_digits r = true) by (unfold r; now rewrite all_digits_app, Hf, all_digits_zeros).
  assert (Hns : ns_head (ip ++ "." ++ r) = true) by (apply ns_head_digits_app; auto).
  assert (Hsp : span_digits (ip ++ "." ++ r) = (ip, "." ++ r)) by (apply span_digits_app; auto).
  unfold pass1. rewrite (strip_sign_app _ _ Hsg Hns), Hsp, (sign_of_app _ _ Hsg Hns).
  change ("." ++ r) with (String "." r). cbv iota beta. rewrite Hr. cbn [andb].
  assert (Hrs : rstrip0 r = rstrip0 f) by apply rstrip0_app_zeros.
  pose proof (last_char_rstrip0 f Hf) as HL.
  assert (Hcanon : add_zero (sg ++ ip ++ "." ++ rstrip0 f) = Ok (sg ++ ip ++ "." ++ canon_frac f)).
  { unfold add_zero, canon_frac. destruct (rstrip0 f) as [|y t] eqn:E.
    - change ("." ++ "") with (String "." ""). rewrite <- sapp_assoc, last_char_app_cons.
      cbn [last_char]. rewrite Ascii.eqb_refl. rewrite !sapp_assoc. reflexivity.
    - change ("." ++ String y t) with (String "." (String y t)).
      rewrite <- sapp_assoc, last_char_app_cons.
      change (last_char (String "." (String y t))) with (last_char (String y t)).
      destruct (last_char (String y t)) as [c|] eqn:EL; [|discriminate HL].
      destruct HL as [HL1 HL2]. rewrite (digit_not_dot _ HL1). rewrite sapp_assoc. reflexivity. }
  destruct (String.eqb (rstrip0 r) r) eqn:Eq; cbn [negb].
  - apply String.eqb_eq in Eq. rewrite <- Eq at 1. rewrite Hrs. exact Hcanon.
  - rewrite Hrs. exact Hcanon.
Qed.

Lemma all_digits_no_dot u v : all_digits (u ++ String "." v) = false.
Proof. induction u as [|c u IH]; simpl; [reflexivity | now rewrite IH, andb_false_r]. Qed.

(* a string ending in ".0" that is "X . digits": the digits are "0" *)
Lemma tail_dot : forall u X r0, all_digits r0 = true ->
  u ++ ".0" = X ++ String "." r0 -> r0 = "0" /\ u = X.
Proof.
  induction u as [|c u IH]; intros X r0 Hr H.
  - destruct X as [|x X']; simpl in H.
    + inversion H. auto.
    + inversion H as [[Hx H']]. destruct X' as [|y X'']; simpl in H'.
      * discriminate H'.
      * inversion H' as [[Hy H'']]. destruct X''; discriminate H''.
  - destruct X as [|x X']; simpl in H.
    + inversion H as [[Hc H']]. subst r0. rewrite all_digits_no_dot in Hr. discriminate.
    + inversion H as [[Hc H']]. destruct (IH X' r0 Hr H') as [H1 H2]. subst. auto.
Qed.

Lemma add_zero_cases p a : add_zero p = Ok a ->
  (a = p /\ last_char p <> Some "."%char /\ p <> "") \/ (a = p ++ "0" /\ exists p', p = p' ++ ".").
Proof.
  unfold add_zero. destruct (last_char p) as [c|] eqn:E; [|discriminate].
  destruct (Ascii.eqb c ".") eqn:Ec; intros H; inversion H; subst a.
  - right. split; [reflexivity|]. apply Ascii.eqb_eq in Ec. subst c.
    clear H. induction p as [|x p IH]; [discriminate|].
    destruct p as [|y p'].
    + simpl in E. inversion E. exists "". reflexivity.
    + destruct (IH E) as [p'' Hp]. exists (String x p''). simpl. now rewrite <- Hp.
  - left. repeat split.
    + intros H'. inversion H'. subst. rewrite Ascii.eqb_refl in Ec. discriminate.
    + intros ->. discriminate.
Qed.

Lemma last_char_snoc p c : last_char (p ++ String c "") = Some c.
Proof. now rewrite last_char_app_cons. Qed.

Lemma add_zero_no_dot p : last_char p <> Some "."%char -> p <> "" -> add_zero p = Ok p.
Proof.
  intros H Hne. unfold add_zero. destruct (last_char p) as [c|] eqn:E.
  - destruct (Ascii.eqb c ".") eqn:Ec; [|reflexivity]. apply Ascii.eqb_eq in Ec. subst. now elim H.
  - destruct p; [now elim Hne|]. exfalso. clear -E. revert a E. induction p as [|y p IH]; intros a E; [discriminate|].
    apply (IH y). exact E.
Qed.

(* add_zero after pass1 is idempotent *)
Lemma prep_idem s a : add_zero (pass1 s) = Ok a -> add_zero (pass1 a) = Ok a.
Proof.
  intros H. destruct (pass1_shape s) as [Hp | [sg [d1 [r [Hsg [Hd [Hr ->]]]]]]].
  - rewrite Hp in H. destruct (add_zero_cases s a H) as [[-> [Hl Hne]] | [-> [p' ->]]].
    + now rewrite Hp.
    + (* s = p' ++ ".", a = s ++ "0" *)
      destruct (pass1_shape ((p' ++ ".") ++ "0")) as [Hp2 | [sg [d1 [r [Hsg [Hd [Hr He]]]]]]].
      * rewrite Hp2. apply add_zero_no_dot.
        -- rewrite last_char_snoc. discriminate.
        -- destruct (p' ++ "."); discriminate.
      * rewrite sapp_assoc in He. change ("." ++ "0") with ".0" in He.
        rewrite <- (sapp_assoc sg d1) in He. change ("." ++ r) with (String "." r) in He.
        destruct (tail_dot p' (sg ++ d1) r Hr He) as [-> ->].
        rewrite sapp_assoc. change ("." ++ "0") with ("." ++ "0" ++ zeros 0).
        rewrite sapp_assoc. rewrite (prep_frac sg d1 "0" 0 Hsg Hd eq_refl). reflexivity.
  - pose proof (prep_frac sg d1 r 0 Hsg Hd Hr) as P. cbn [zeros] in P. rewrite sapp_nil_r in P.
    rewrite P in H. inversion H; subst a.
    pose proof (prep_frac sg d1 (canon_frac r) 0 Hsg Hd (all_digits_canon r Hr)) as P2.
    cbn [zeros] in P2. rewrite sapp_nil_r, canon_frac_idem in P2. exact P2.
Qed.

(* ---- pass2 ---- *)
Lemma pass2_shape a :
  pass2 a = a \/
  exists sg ip F g es ed,
    sign_ok sg = true /\ all_digits ip = true /\ sign_ok es = true /\ all_digits ed = true /\
    nonempty ed = true /\ all_digits g = true /\
    ((F = "" /\ g = "" /\ nonempty ip = true) \/ (F = "." ++ g /\ (nonempty ip || nonempty g) = true)) /\
    nonempty es = true /\ a = sg ++ ip ++ F ++ "" ++ es ++ ed.
Proof.
  unfold pass2. destruct (sign_decomp a) as [Hs Hsg].
  destruct (span_digits_spec (strip_sign a)) as [Hx [Hd _]].
  destruct (span_digits (strip_sign a)) as [d1 t1]. simpl in Hx, Hd.
  assert (Hfin : forall dot d2 t2, all_digits d2 = true -> t1 = dot ++ d2 ++ t2 ->
            ((dot = "" /\ d2 = "") \/ dot = ".") ->
            (if nonempty d1 || nonempty d2
             then match t2 with
                  | String c r3 => if is_sign c && nonempty r3 && all_digits r3
                                   then sign_of a ++ d1 ++ dot ++ d2 ++ "e" ++ t2 else a
                  | EmptyString => a
                  end
             else a) = a \/
            exists sg ip F g es ed,
              sign_ok sg = true /\ all_digits ip = true /\ sign_ok es = true /\ all_digits ed = true /\
              nonempty ed = true /\ all_digits g = true /\
              ((F = "" /\ g = "" /\ nonempty ip = true) \/ (F = "." ++ g /\ (nonempty ip || nonempty g) = true)) /\
              nonempty es = true /\ a = sg ++ ip ++ F ++ "" ++ es ++ ed).
  { intros dot d2 t2 Hd2 Ht1 Hdot.
    destruct (nonempty d1 || nonempty d2) eqn:Ene; [|now left].
    destruct t2 as [|c r3]; [now left|].
    destruct (is_sign c && nonempty r3 && all_digits r3) eqn:Em; [|now left].
    apply andb_true_iff in Em. destruct Em as [Em Hr3]. apply andb_true_iff in Em. destruct Em as [Hc Hn3].
    right. exists (sign_of a), d1, (dot ++ d2), d2, (String c ""), r3.
    repeat split; auto.
    - destruct (is_sign_cases c Hc) as [-> | ->]; reflexivity.
    - destruct Hdot as [[-> ->] | ->].
      + left. repeat split; auto. simpl in Ene. now rewrite orb_false_r in Ene.
      + right. split; [reflexivity | exact Ene].
    - rewrite Hs at 1. rewrite Hx, Ht1. rewrite !sapp_assoc. reflexivity. }
  destruct t1 as [|c r]; [apply (Hfin "" "" ""); auto|].
  destruct (Ascii.eqb c ".") eqn:Ec.
  - apply Ascii.eqb_eq in Ec. subst c.
    destruct (span_digits_spec r) as [Hr1 [Hr2 _]]. destruct (span_digits r) as [d2 t2]. simpl in Hr1, Hr2.
    apply (Hfin "." d2 t2); auto. simpl. now rewrite <- Hr1.
  - replace (match String c r with String "."%char r0 => let (d2, t2) := span_digits r0 in (".", d2, t2)
             | _ => ("", "", String c r) end) with ("", "", String c r)
      by (destruct c as [[] [] [] [] [] [] [] []]; try reflexivity; discriminate Ec).
    apply (Hfin "" "" (String c r)); auto.
Qed.

(* ---- pass3 ---- *)
Lemma pass3_idem s : pass3 (pass3 s) = pass3 s.
Proof.
  induction s as [|c s IH]; simpl; [reflexivity|]. rewrite IH. f_equal.
  destruct (is_marker c) eqn:E; [reflexivity | now rewrite E].
Qed.

Lemma no_marker_pass3_fixed s : no_marker (pass3 s) = true -> pass3 s = s.
Proof.
  induction s as [|c s IH]; simpl; [reflexivity|]. intros H.
  apply andb_true_iff in H. destruct H as [Hc Hs]. rewrite (IH Hs).
  destruct (is_marker c) eqn:E; [discriminate Hc | reflexivity].
Qed.

Lemma last_char_pass3 s : last_char (pass3 s) = Some "."%char -> last_char s = Some "."%char.
Proof.
  induction s as [|c s IH]; simpl; [discriminate|].
  destruct s as [|y s'].
  - simpl. destruct (is_marker c) eqn:E; intros H; [discriminate H | exact H].
  - intros H. apply IH. exact H.
Qed.

Lemma pass3_nonempty s : s <> "" -> pass3 s <> "".
Proof. destruct s; [intros H; now elim H | discriminate]. Qed.

(* strings of the two shapes carry no marker letter *)
Lemma shape1_no_marker sg d1 r :
  sign_ok sg = true -> all_digits d1 = true -> all_digits r = true ->
  no_marker (sg ++ d1 ++ "." ++ r) = true.
Proof.
  intros H1 H2 H3. rewrite !no_marker_app, (no_marker_sign _ H1), (no_marker_digits _ H2).
  change ("." ++ r) with (String "." r). cbn [no_marker andb negb]. rewrite (no_marker_digits _ H3). reflexivity.
Qed.

(* ---- the theorem ---- *)
Theorem normalize_float_idempotent s n :
  normalize_float s = Ok n -> normalize_float n = Ok n.
Proof.
  unfold normalize_float. destruct (add_zero (pass1 s)) as [a|] eqn:Ea; [|discriminate].
  intros H. inversion H; subst n. clear H.
  pose proof (prep_idem s a Ea) as Hq.
  destruct (pass2_shape a) as [H2 | [sg [ip [F [g [es [ed [Hsg [Hip [Hes [Hed [Hne [Hg [HF [Hnes He]]]]]]]]]]]]]]].
  - (* pass2 leaves a alone: the result is pass3 a *)
    rewrite H2.
    destruct (pass1_shape (pass3 a)) as [P1 | [sg [d1 [r [Hsg [Hd [Hr He]]]]]]].
    + rewrite P1.
      assert (A : add_zero (pass3 a) = Ok (pass3 a)).
      { destruct (add_zero_cases _ _ Ea) as [[Hap [Hl Hn]] | [Hap [p' Hp']]].
        - rewrite Hap. apply add_zero_no_dot.
          + intros Hx. apply last_char_pass3 in Hx. now apply Hl.
          + now apply pass3_nonempty.
        - rewrite Hap. apply add_zero_no_dot.
          + intros Hx. apply last_char_pass3 in Hx. rewrite last_char_snoc in Hx. discriminate.
          + apply pass3_nonempty. destruct (pass1 s); discriminate. }
      rewrite A.
      destruct (pass2_shape (pass3 a)) as [P2 | [sg [ip [F [g [es [ed [Hsg [Hip [Hes [Hed [Hne [Hg [HF [Hnes He]]]]]]]]]]]]]]].
      * now rewrite P2, pass3_idem.
      * (* pass3 a has no marker, so it is a itself *)
        assert (NM : no_marker (pass3 a) = true).
        { rewrite He. rewrite !no_marker_app, (no_marker_sign _ Hsg), (no_marker_digits _ Hip),
            (no_marker_sign _ Hes), (no_marker_digits _ Hed).
          destruct HF as [[-> _]|[-> _]]; [reflexivity|].
          change ("." ++ g) with (String "." g). cbn [no_marker andb negb]. now rewrite (no_marker_digits _ Hg). }
        pose proof (no_marker_pass3_fixed a NM) as Hfix. rewrite Hfix, H2, Hfix. reflexivity.
    + pose proof (shape1_no_marker sg d1 r Hsg Hd Hr) as NM. rewrite <- He in NM.
      pose proof (no_marker_pass3_fixed a NM) as Hfix. rewrite Hfix, Hq, H2, Hfix. reflexivity.
  - (* pass2 inserts the marker: a spelling with a sign-only exponent *)
    pose proof (norm_exp sg ip es ed F g Hsg Hip Hes Hed Hne Hg HF "" (or_intror (or_intror (or_intror (or_intror (conj eq_refl Hnes)))))) as N1.
    unfold normalize_float in N1. rewrite <- He, Hq in N1. inversion N1 as [N1'].
    rewrite N1'.
    exact (norm_exp sg ip es ed F g Hsg Hip Hes Hed Hne Hg HF "e" (or_introl eq_refl)).
Qed.

(* consequence: whatever the density token, the (material, density) pair a
   cell stores is stable under normalisation *)
Corollary parse_material_density_fixed toks m d :
  parse_material toks = Ok (m, Some d) -> normalize_float d = Ok d.
Proof.
  unfold parse_material. destruct toks as [|m0 rest]; [discriminate|].
  destruct (int_of_token m0) as [[|p|p]|]; try discriminate;
    (destruct rest as [|d0 rest']; [discriminate|]);
    (destruct (normalize_float d0) as [nd|] eqn:E; [|discriminate]);
    intros H; inversion H; subst; eapply normalize_float_idempotent; eauto.
Qed.
