(* C09 — normalize_float is idempotent on ALL strings: whatever token a cell
   carries, the density stored by parse_material is a fixed point, so that
   constructCompositionT4 (which normalises the stored string again) names the
   composition exactly as constructGeomCompT4 does. *)
From Coq Require Import List NArith ZArith Bool String Ascii Lia.
From T4V Require Import Base.Str C09.Model C09.Spec C09.ProofsNorm.
Import ListNotations.
Open Scope string_scope.

(* ---- decompositions ---- *)
Lemma is_sign_cases c : is_sign c = true -> c = "-"%char \/ c = "+"%char.
Proof.
  unfold is_sign. intros H. apply orb_true_iff in H.
  destruct H as [H|H]; apply Ascii.eqb_eq in H; auto.
Qed.

Lemma sign_decomp s : s = sign_of s ++ strip_sign s /\ sign_ok (sign_of s) = true.
Proof.
  destruct s as [|c r]; simpl; [auto|]. destruct (is_sign c) eqn:E; simpl; [|auto].
  split; [reflexivity|]. destruct (is_sign_cases c E) as [-> | ->]; reflexivity.
Qed.

Lemma span_digits_spec s :
  s = fst (span_digits s) ++ snd (span_digits s) /\
  all_digits (fst (span_digits s)) = true /\ nd_head (snd (span_digits s)) = true.
Proof.
  induction s as [|c r IH]; simpl; [auto|].
  destruct (is_digit c) eqn:E.
  - destruct (span_digits r) as [d t]. simpl in *. destruct IH as [H1 [H2 H3]].
    rewrite E, H2. repeat split; auto. now rewrite <- H1.
  - simpl. rewrite E. auto.
Qed.

(* ---- pass1 and add_zero ---- *)
Lemma pass1_shape s :
  pass1 s = s \/
  exists sg d1 r, sign_ok sg = true /\ all_digits d1 = true /\ all_digits r = true /\
                  s = sg ++ d1 ++ "." ++ r.
Proof.
  unfold pass1. destruct (sign_decomp s) as [Hs Hsg].
  destruct (span_digits_spec (strip_sign s)) as [Hx [Hd _]].
  destruct (span_digits (strip_sign s)) as [d1 t]. simpl in Hx, Hd.
  destruct t as [|c r]; [now left|].
  destruct (Ascii.eqb c ".") eqn:Ec.
  - apply Ascii.eqb_eq in Ec. subst c.
    destruct (all_digits r) eqn:Er; cbn [andb]; [|now left].
    right. exists (sign_of s), d1, r. repeat split; auto. rewrite Hs at 1. now rewrite Hx.
  - left. destruct c as [[] [] [] [] [] [] [] []]; try reflexivity; discriminate Ec.
Qed.

Lemma all_digits_no_dot u v : all_digits (u ++ String "." v) = false.
Proof. induction u as [|c u IH]; simpl; [reflexivity | now rewrite IH, andb_false_r]. Qed.

(* a string ending in ".0" that is "X . digits": the digits are "0" *)
Lemma tail_dot : forall u X r0, all_digits r0 = true ->
  u ++ ".0" = X ++ String "." r0 -> r0 = "0" /\ u = X.
Proof.
  induction u as [|c u IH]; intros X r0 Hr H.
  - destruct X as [|x X']; simpl in H.
    + inversion H. auto.
    + inversion H as [[Hx H']]. destruct X' as [|y X'']; simpl in H'.
      * discriminate H'.
      * inversion H' as [[Hy H'']]. destruct X''; discriminate H''.
  - destruct X as [|x X']; simpl in H.
    + inversion H as [[Hc H']]. subst r0. rewrite all_digits_no_dot in Hr. discriminate.
    + inversion H as [[Hc H']]. destruct (IH X' r0 Hr H') as [H1 H2]. subst. auto.
Qed.

Lemma add_zero_cases p a : add_zero p = Ok a ->
  (a = p /\ last_char p <> Some "."%char /\ p <> "") \/ (a = p ++ "0" /\ exists p', p = p' ++ ".").
Proof.
  unfold add_zero. destruct (last_char p) as [c|] eqn:E; [|discriminate].
  destruct (Ascii.eqb c ".") eqn:Ec; intros H; inversion H; subst a.
  - right. split; [reflexivity|]. apply Ascii.eqb_eq in Ec. subst c.
    clear H. induction p as [|x p IH]; [discriminate|].
    destruct p as [|y p'].
    + simpl in E. inversion E. exists "". reflexivity.
    + destruct (IH E) as [p'' Hp]. exists (String x p''). simpl. now rewrite <- Hp.
  - left. repeat split.
    + intros H'. inversion H'. subst. rewrite Ascii.eqb_refl in Ec. discriminate.
    + intros ->. discriminate.
Qed.

Lemma last_char_snoc p c : last_char (p ++ String c "") = Some c.
Proof. now rewrite last_char_app_cons. Qed.

Lemma add_zero_no_dot p : last_char p <> Some "."%char -> p <> "" -> add_zero p = Ok p.
Proof.
  intros H Hne. unfold add_zero. destruct (last_char p) as [c|] eqn:E.
  - destruct (Ascii.eqb c ".") eqn:Ec; [|reflexivity]. apply Ascii.eqb_eq in Ec. subst. now elim H.
  - destruct p; [now elim Hne|]. exfalso. clear -E. revert a E. induction p as [|y p IH]; intros a E; [discriminate|].
    apply (IH y). exact E.
Qed.

(* ---- the exponent part ---- *)
Lemma exp_ok_decomp e : exp_ok e = true ->
  exists mk es ed, e = mk ++ es ++ ed /\ sign_ok es = true /\ all_digits ed = true /\
                   nonempty ed = true /\ mk_ok es mk.
Proof.
  destruct e as [|c r]; [discriminate|]. unfold exp_ok.
  destruct (is_marker c) eqn:Em.
  - intros H. apply andb_true_iff in H. destruct H as [Hn Hd].
    destruct (sign_decomp r) as [Hr Hs].
    exists (String c ""), (sign_of r), (strip_sign r). repeat split; auto.
    + simpl. now rewrite <- Hr.
    + unfold mk_ok. unfold is_marker in Em.
      repeat (apply orb_true_iff in Em; destruct Em as [Em|Em]); apply Ascii.eqb_eq in Em; subst c; auto 6.
  - intros H. apply andb_true_iff in H. destruct H as [H Hd]. apply andb_true_iff in H. destruct H as [Hc Hn].
    exists "", (String c ""), r. repeat split; auto.
    + destruct (is_sign_cases c Hc) as [-> | ->]; reflexivity.
    + unfold mk_ok. right. right. right. right. split; reflexivity.
Qed.

(* ---- pass1b ---- *)
Lemma pass1b_shape s :
  pass1b s = s \/
  exists sg ip g mk es ed,
    sign_ok sg = true /\ all_digits ip = true /\ sign_ok es = true /\ all_digits ed = true /\
    nonempty ed = true /\ all_digits g = true /\ (nonempty ip || nonempty g) = true /\
    mk_ok es mk /\ s = sg ++ ip ++ ("." ++ g) ++ mk ++ es ++ ed.
Proof.
  unfold pass1b. destruct (sign_decomp s) as [Hs Hsg].
  destruct (span_digits_spec (strip_sign s)) as [Hx [Hd _]].
  destruct (span_digits (strip_sign s)) as [d1 t]. simpl in Hx, Hd.
  destruct t as [|c r]; [now left|].
  destruct (Ascii.eqb c ".") eqn:Ec.
  - apply Ascii.eqb_eq in Ec. subst c.
    destruct (span_digits_spec r) as [Hr1 [Hr2 _]]. destruct (span_digits r) as [rd e]. simpl in Hr1, Hr2.
    destruct (exp_ok e) eqn:Ee; cbn [andb]; [|now left].
    destruct (String.eqb (rstrip0 rd) rd) eqn:Eq; cbn [negb]; [now left|].
    right. destruct (exp_ok_decomp e Ee) as [mk [es [ed [He [Hes [Hed [Hne Hmk]]]]]]].
    exists (sign_of s), d1, rd, mk, es, ed. repeat split; auto.
    + destruct d1; [|reflexivity]. simpl. destruct rd; [|reflexivity]. simpl in Eq. discriminate.
    + rewrite Hs at 1. rewrite Hx, Hr1, He. simpl. rewrite ?sapp_assoc. reflexivity.
  - left. destruct c as [[] [] [] [] [] [] [] []]; try reflexivity; discriminate Ec.
Qed.

(* the three passes before pass2 *)
Definition prep (s : string) : res string := add_zero (pass1b (pass1 s)).

Lemma add_zero_digits_end x ed : all_digits ed = true -> nonempty ed = true ->
  add_zero (x ++ ed) = Ok (x ++ ed).
Proof.
  intros Hed Hne. destruct (last_is_digit ed Hed Hne x) as [c [H1 H2]].
  unfold add_zero. rewrite H1, (digit_not_dot _ H2). reflexivity.
Qed.

Lemma prep_exp sg ip es ed F g :
  sign_ok sg = true -> all_digits ip = true -> sign_ok es = true -> all_digits ed = true ->
  nonempty ed = true -> all_digits g = true ->
  ((F = "" /\ g = "" /\ nonempty ip = true) \/ (F = "." ++ g /\ (nonempty ip || nonempty g) = true)) ->
  forall mk, mk_ok es mk ->
  prep (sg ++ ip ++ F ++ mk ++ es ++ ed) = Ok (sg ++ ip ++ F' ip F g ++ mk ++ es ++ ed).
Proof.
  intros Hsg Hip Hes Hed Hne Hg HF mk Hmk. unfold prep.
  rewrite (proj1 (exp_old sg ip es ed F g Hsg Hip Hes Hed Hne Hg HF mk Hmk)).
  rewrite (exp_pass1b sg ip es ed F g Hsg Hip Hes Hed Hne Hg HF mk Hmk).
  rewrite <- !sapp_assoc. now apply add_zero_digits_end.
Qed.

(* a string ending in ".0" that ends with a non-empty run of digits *)
Lemma tail_digits : forall u Y ed, all_digits ed = true -> nonempty ed = true ->
  u ++ ".0" = Y ++ ed -> ed = "0" /\ Y = u ++ ".".
Proof.
  induction u as [|c u IH]; intros Y ed Hd Hn H.
  - destruct Y as [|y Y']; simpl in H.
    + subst ed. discriminate Hd.
    + inversion H as [[Hy H']]. destruct Y' as [|z Y'']; simpl in H'.
      * subst ed. auto.
      * inversion H' as [[Hz H'']]. destruct Y''; simpl in H''; [subst ed; discriminate Hn | discriminate H''].
  - destruct Y as [|y Y']; simpl in H.
    + subst ed. simpl in Hd. apply andb_true_iff in Hd. destruct Hd as [_ Hd].
      rewrite all_digits_no_dot in Hd. discriminate.
    + inversion H as [[Hy H']]. destruct (IH Y' ed Hd Hn H') as [H1 H2]. subst. auto.
Qed.

Lemma mk_es_last es mk : sign_ok es = true -> mk_ok es mk ->
  forall x, last_char (x ++ mk ++ es) <> Some "."%char.
Proof.
  intros Hes Hmk x.
  destruct (sign_ok_cases _ Hes) as [-> | [-> | ->]];
    destruct Hmk as [-> | [-> | [-> | [-> | [-> Hn]]]]]; try discriminate Hn;
    rewrite ?sapp_nil_r; simpl;
    match goal with |- last_char (x ++ String ?c ?r) <> _ => rewrite last_char_app_cons end;
    simpl; discriminate.
Qed.

(* prep is idempotent *)
Lemma prep_idem s a : prep s = Ok a -> prep a = Ok a.
Proof.
  unfold prep. intros H.
  destruct (pass1_shape s) as [Hp | [sg [d1 [r [Hsg [Hd [Hr ->]]]]]]].
  - rewrite Hp in H.
    destruct (pass1b_shape s) as [Hb | [sg [ip [g [mk [es [ed [Hsg [Hip [Hes [Hed [Hne [Hg [Hn [Hmk ->]]]]]]]]]]]]]]].
    + rewrite Hb in H. destruct (add_zero_cases s a H) as [[-> [Hl Hne]] | [-> [p' ->]]].
      * now rewrite Hp, Hb.
      * (* s = p' ++ ".", a = s ++ "0" *)
        destruct (pass1_shape ((p' ++ ".") ++ "0")) as [Hp2 | [sg [d1 [r [Hsg [Hd [Hr He]]]]]]].
        -- rewrite Hp2.
           destruct (pass1b_shape ((p' ++ ".") ++ "0"))
             as [Hb2 | [sg [ip [g [mk [es [ed [Hsg [Hip [Hes [Hed [Hne [Hg [Hn [Hmk He]]]]]]]]]]]]]]].
           ++ rewrite Hb2. apply add_zero_no_dot.
              ** rewrite last_char_snoc. discriminate.
              ** destruct (p' ++ "."); discriminate.
           ++ exfalso. rewrite sapp_assoc in He. change ("." ++ "0") with ".0" in He.
              rewrite <- !sapp_assoc in He.
              destruct (tail_digits p' _ ed Hed Hne He) as [_ HY].
              assert (HL : last_char (p' ++ ".") = Some "."%char) by apply last_char_snoc.
              rewrite <- HY in HL. rewrite sapp_assoc in HL.
              exact (mk_es_last es mk Hes Hmk _ HL).
        -- rewrite sapp_assoc in He. change ("." ++ "0") with ".0" in He.
           rewrite <- (sapp_assoc sg d1) in He. change ("." ++ r) with (String "." r) in He.
           destruct (tail_dot p' (sg ++ d1) r Hr He) as [-> ->].
           rewrite sapp_assoc. change ("." ++ "0") with ("." ++ "0" ++ zeros 0).
           rewrite sapp_assoc. rewrite (prep_frac sg d1 Hsg Hd "0" 0 eq_refl). reflexivity.
    + (* an exponent spelling whose fraction loses zeros *)
      pose proof (prep_exp sg ip es ed ("." ++ g) g Hsg Hip Hes Hed Hne Hg (or_intror (conj eq_refl Hn)) mk Hmk) as P.
      unfold prep in P. rewrite Hp in P. rewrite P in H. inversion H; subst a.
      change (F' ip ("." ++ g) g) with ("." ++ strip_frac ip g).
      assert (Hn2 : (nonempty ip || nonempty (strip_frac ip g)) = true).
      { unfold strip_frac. destruct (nonempty ip) eqn:Ei; [reflexivity|].
        unfold canon_frac. destruct (rstrip0 g); reflexivity. }
      pose proof (prep_exp sg ip es ed ("." ++ strip_frac ip g) (strip_frac ip g) Hsg Hip Hes Hed Hne
                    (all_digits_strip_frac ip g Hg) (or_intror (conj eq_refl Hn2)) mk Hmk) as P2.
      unfold prep in P2. refine (eq_trans P2 _).
      change (F' ip ("." ++ strip_frac ip g) (strip_frac ip g)) with ("." ++ strip_frac ip (strip_frac ip g)).
      now rewrite strip_frac_idem.
  - pose proof (prep_frac sg d1 Hsg Hd r 0 Hr) as P. cbn [zeros] in P. rewrite sapp_nil_r in P.
    rewrite P in H. inversion H; subst a.
    pose proof (prep_frac sg d1 Hsg Hd (canon_frac r) 0 (all_digits_canon r Hr)) as P2.
    cbn [zeros] in P2. rewrite sapp_nil_r, canon_frac_idem in P2. exact P2.
Qed.

(* ---- pass2 ---- *)
Lemma pass2_shape a :
  pass2 a = a \/
  exists sg ip F g es ed,
    sign_ok sg = true /\ all_digits ip = true /\ sign_ok es = true /\ all_digits ed = true /\
    nonempty ed = true /\ all_digits g = true /\
    ((F = "" /\ g = "" /\ nonempty ip = true) \/ (F = "." ++ g /\ (nonempty ip || nonempty g) = true)) /\
    nonempty es = true /\ a = sg ++ ip ++ F ++ "" ++ es ++ ed.
Proof.
  unfold pass2. destruct (sign_decomp a) as [Hs Hsg].
  destruct (span_digits_spec (strip_sign a)) as [Hx [Hd _]].
  destruct (span_digits (strip_sign a)) as [d1 t1]. simpl in Hx, Hd.
  assert (Hfin : forall dot d2 t2, all_digits d2 = true -> t1 = dot ++ d2 ++ t2 ->
            ((dot = "" /\ d2 = "") \/ dot = ".") ->
            (if nonempty d1 || nonempty d2
             then match t2 with
                  | String c r3 => if is_sign c && nonempty r3 && all_digits r3
                                   then sign_of a ++ d1 ++ dot ++ d2 ++ "e" ++ t2 else a
                  | EmptyString => a
                  end
             else a) = a \/
            exists sg ip F g es ed,
              sign_ok sg = true /\ all_digits ip = true /\ sign_ok es = true /\ all_digits ed = true /\
              nonempty ed = true /\ all_digits g = true /\
              ((F = "" /\ g = "" /\ nonempty ip = true) \/ (F = "." ++ g /\ (nonempty ip || nonempty g) = true)) /\
              nonempty es = true /\ a = sg ++ ip ++ F ++ "" ++ es ++ ed).
  { intros dot d2 t2 Hd2 Ht1 Hdot.
    destruct (nonempty d1 || nonempty d2) eqn:Ene; [|now left].
    destruct t2 as [|c r3]; [now left|].
    destruct (is_sign c && nonempty r3 && all_digits r3) eqn:Em; [|now left].
    apply andb_true_iff in Em. destruct Em as [Em Hr3]. apply andb_true_iff in Em. destruct Em as [Hc Hn3].
    right. exists (sign_of a), d1, (dot ++ d2), d2, (String c ""), r3.
    repeat split; auto.
    - destruct (is_sign_cases c Hc) as [-> | ->]; reflexivity.
    - destruct Hdot as [[-> ->] | ->].
      + left. repeat split; auto. simpl in Ene. now rewrite orb_false_r in Ene.
      + right. split; [reflexivity | exact Ene].
    - rewrite Hs at 1. rewrite Hx, Ht1. rewrite !sapp_assoc. reflexivity. }
  destruct t1 as [|c r]; [apply (Hfin "" "" ""); auto|].
  destruct (Ascii.eqb c ".") eqn:Ec.
  - apply Ascii.eqb_eq in Ec. subst c.
    destruct (span_digits_spec r) as [Hr1 [Hr2 _]]. destruct (span_digits r) as [d2 t2]. simpl in Hr1, Hr2.
    apply (Hfin "." d2 t2); auto. simpl. now rewrite <- Hr1.
  - replace (match String c r with String "."%char r0 => let (d2, t2) := span_digits r0 in (".", d2, t2)
             | _ => ("", "", String c r) end) with ("", "", String c r)
      by (destruct c as [[] [] [] [] [] [] [] []]; try reflexivity; discriminate Ec).
    apply (Hfin "" "" (String c r)); auto.
Qed.

(* ---- pass3 ---- *)
Lemma pass3_idem s : pass3 (pass3 s) = pass3 s.
Proof.
  induction s as [|c s IH]; simpl; [reflexivity|]. rewrite IH. f_equal.
  destruct (is_marker c) eqn:E; [reflexivity | now rewrite E].
Qed.

Lemma no_marker_pass3_fixed s : no_marker (pass3 s) = true -> pass3 s = s.
Proof.
  induction s as [|c s IH]; simpl; [reflexivity|]. intros H.
  apply andb_true_iff in H. destruct H as [Hc Hs]. rewrite (IH Hs).
  destruct (is_marker c) eqn:E; [discriminate Hc | reflexivity].
Qed.

Lemma last_char_pass3 s : last_char (pass3 s) = Some "."%char -> last_char s = Some "."%char.
Proof.
  induction s as [|c s IH]; simpl; [discriminate|].
  destruct s as [|y s'].
  - simpl. destruct (is_marker c) eqn:E; intros H; [discriminate H | exact H].
  - intros H. apply IH. exact H.
Qed.

Lemma pass3_nonempty s : s <> "" -> pass3 s <> "".
Proof. destruct s; [intros H; now elim H | discriminate]. Qed.

(* strings of the two shapes carry no marker letter *)
Lemma shape1_no_marker sg d1 r :
  sign_ok sg = true -> all_digits d1 = true -> all_digits r = true ->
  no_marker (sg ++ d1 ++ "." ++ r) = true.
Proof.
  intros H1 H2 H3. rewrite !no_marker_app, (no_marker_sign _ H1), (no_marker_digits _ H2).
  change ("." ++ r) with (String "." r). cbn [no_marker andb negb]. rewrite (no_marker_digits _ H3). reflexivity.
Qed.

(* ---- the stripping passes do not look at marker letters ---- *)
Definition mapc (c : ascii) : ascii := if is_marker c then "e"%char else c.

Lemma mapc_sign c : is_sign (mapc c) = is_sign c.
Proof. destruct c as [[] [] [] [] [] [] [] []]; reflexivity. Qed.
Lemma mapc_digit c : is_digit (mapc c) = is_digit c.
Proof. destruct c as [[] [] [] [] [] [] [] []]; reflexivity. Qed.
Lemma mapc_dot c : Ascii.eqb (mapc c) "." = Ascii.eqb c ".".
Proof. destruct c as [[] [] [] [] [] [] [] []]; reflexivity. Qed.
Lemma mapc_marker c : is_marker (mapc c) = is_marker c.
Proof. destruct c as [[] [] [] [] [] [] [] []]; reflexivity. Qed.

Lemma pass3_cons c r : pass3 (String c r) = String (mapc c) (pass3 r).
Proof. reflexivity. Qed.

Lemma sign_of_pass3 s : sign_of (pass3 s) = sign_of s.
Proof.
  destruct s as [|c r]; [reflexivity|]. rewrite pass3_cons. cbn [sign_of]. rewrite mapc_sign.
  destruct (is_sign c) eqn:E; [|reflexivity]. unfold mapc. now rewrite (sign_not_marker _ E).
Qed.

Lemma strip_sign_pass3 s : strip_sign (pass3 s) = pass3 (strip_sign s).
Proof.
  destruct s as [|c r]; [reflexivity|]. rewrite pass3_cons. cbn [strip_sign]. rewrite mapc_sign.
  destruct (is_sign c); reflexivity.
Qed.

Lemma span_digits_pass3 s :
  span_digits (pass3 s) = (fst (span_digits s), pass3 (snd (span_digits s))).
Proof.
  induction s as [|c r IH]; [reflexivity|]. rewrite pass3_cons. cbn [span_digits]. rewrite mapc_digit.
  destruct (is_digit c) eqn:E.
  - rewrite IH. destruct (span_digits r) as [d t]. simpl. unfold mapc. now rewrite (digit_not_marker _ E).
  - reflexivity.
Qed.

Lemma all_digits_pass3 s : all_digits (pass3 s) = all_digits s.
Proof. induction s as [|c r IH]; [reflexivity|]. rewrite pass3_cons. simpl. now rewrite mapc_digit, IH. Qed.

Lemma nonempty_pass3 s : nonempty (pass3 s) = nonempty s.
Proof. destruct s; reflexivity. Qed.

Lemma pass3_digits s : all_digits s = true -> pass3 s = s.
Proof. intros H. apply pass3_plain. now apply no_marker_digits. Qed.

Lemma exp_ok_pass3 e : exp_ok (pass3 e) = exp_ok e.
Proof.
  destruct e as [|c r]; [reflexivity|]. rewrite pass3_cons. unfold exp_ok.
  rewrite mapc_marker, mapc_sign, strip_sign_pass3, !nonempty_pass3, !all_digits_pass3. reflexivity.
Qed.

Lemma pass3_sign_of s : pass3 (sign_of s) = sign_of s.
Proof. apply pass3_plain. apply no_marker_sign. apply sign_decomp. Qed.

Lemma pass3_dot_cons r : pass3 (String "." r) = String "." (pass3 r).
Proof. reflexivity. Qed.

Lemma pass1_pass3 s : pass1 (pass3 s) = pass3 (pass1 s).
Proof.
  unfold pass1. rewrite strip_sign_pass3, span_digits_pass3, sign_of_pass3.
  destruct (span_digits_spec (strip_sign s)) as [_ [Hd _]].
  destruct (sign_decomp s) as [Hs _].
  destruct (span_digits (strip_sign s)) as [d1 t]. simpl fst. simpl snd. simpl in Hd.
  destruct t as [|c r]; [reflexivity|]. rewrite pass3_cons.
  destruct (Ascii.eqb c ".") eqn:Ec.
  - apply Ascii.eqb_eq in Ec. subst c. change (mapc ".") with "."%char.
    rewrite all_digits_pass3. destruct (all_digits r) eqn:Er; cbn [andb]; [|reflexivity].
    rewrite (pass3_digits r Er).
    destruct (String.eqb (rstrip0 r) r); cbn [negb]; [reflexivity|].
    rewrite !pass3_app, pass3_sign_of, (pass3_digits d1 Hd), (pass3_digits _ (all_digits_rstrip0 r Er)).
    reflexivity.
  - destruct c as [[] [] [] [] [] [] [] []]; try discriminate Ec; reflexivity.
Qed.

Lemma pass1b_pass3 s : pass1b (pass3 s) = pass3 (pass1b s).
Proof.
  unfold pass1b. rewrite strip_sign_pass3, span_digits_pass3, sign_of_pass3.
  destruct (span_digits_spec (strip_sign s)) as [_ [Hd _]].
  destruct (span_digits (strip_sign s)) as [d1 t]. simpl fst. simpl snd. simpl in Hd.
  destruct t as [|c r]; [reflexivity|]. rewrite pass3_cons.
  destruct (Ascii.eqb c ".") eqn:Ec.
  - apply Ascii.eqb_eq in Ec. subst c. change (mapc ".") with "."%char.
    rewrite span_digits_pass3.
    destruct (span_digits_spec r) as [_ [Hrd _]].
    destruct (span_digits r) as [rd e]. simpl fst. simpl snd. simpl in Hrd.
    rewrite exp_ok_pass3.
    destruct (exp_ok e && negb (String.eqb (rstrip0 rd) rd)); [|reflexivity].
    pose proof (all_digits_rstrip0 rd Hrd) as Hrs.
    destruct (nonempty d1).
    + rewrite !pass3_app, pass3_sign_of, (pass3_digits d1 Hd), (pass3_digits _ Hrs). reflexivity.
    + destruct (rstrip0 rd) as [|y f] eqn:E.
      * rewrite !pass3_app, pass3_sign_of. reflexivity.
      * rewrite !pass3_app, pass3_sign_of, (pass3_digits _ Hrs). reflexivity.
  - destruct c as [[] [] [] [] [] [] [] []]; try discriminate Ec; reflexivity.
Qed.

Lemma last_char_pass3_map s : last_char (pass3 s) = option_map mapc (last_char s).
Proof.
  induction s as [|c r IH]; [reflexivity|]. rewrite pass3_cons.
  destruct r as [|y r']; [reflexivity|].
  change (last_char (String c (String y r'))) with (last_char (String y r')).
  rewrite <- IH. reflexivity.
Qed.

Lemma add_zero_pass3 s :
  add_zero (pass3 s) = match add_zero s with Ok x => Ok (pass3 x) | Err e => Err e end.
Proof.
  unfold add_zero. rewrite last_char_pass3_map.
  destruct (last_char s) as [c|]; [|reflexivity]. simpl. rewrite mapc_dot.
  destruct (Ascii.eqb c "."); [|reflexivity]. now rewrite pass3_app.
Qed.

Lemma prep_pass3 a : prep a = Ok a -> prep (pass3 a) = Ok (pass3 a).
Proof.
  unfold prep. intros H. now rewrite pass1_pass3, pass1b_pass3, add_zero_pass3, H.
Qed.

(* ---- the theorem ---- *)
Theorem normalize_float_idempotent s n :
  normalize_float s = Ok n -> normalize_float n = Ok n.
Proof.
  unfold normalize_float. fold (prep s). destruct (prep s) as [a|] eqn:Ea; [|discriminate].
  intros H. inversion H; subst n. clear H.
  pose proof (prep_idem s a Ea) as Hq.
  destruct (pass2_shape a) as [H2 | [sg [ip [F [g [es [ed [Hsg [Hip [Hes [Hed [Hne [Hg [HF [Hnes He]]]]]]]]]]]]]]].
  - (* pass2 leaves a alone: the result is pass3 a *)
    rewrite H2. fold (prep (pass3 a)). rewrite (prep_pass3 a Hq).
    destruct (pass2_shape (pass3 a)) as [P2 | [sg [ip [F [g [es [ed [Hsg [Hip [Hes [Hed [Hne [Hg [HF [Hnes He]]]]]]]]]]]]]]].
    + now rewrite P2, pass3_idem.
    + (* pass3 a has no marker, so it is a itself *)
      assert (NM : no_marker (pass3 a) = true).
      { rewrite He. rewrite !no_marker_app, (no_marker_sign _ Hsg), (no_marker_digits _ Hip),
          (no_marker_sign _ Hes), (no_marker_digits _ Hed).
        destruct HF as [[-> _]|[-> _]]; [reflexivity|].
        change ("." ++ g) with (String "." g). cbn [no_marker andb negb]. now rewrite (no_marker_digits _ Hg). }
      pose proof (no_marker_pass3_fixed a NM) as Hfix. rewrite Hfix, H2, Hfix. reflexivity.
  - (* pass2 inserts the marker: a spelling with a sign-only exponent, already stripped *)
    assert (Hmk : mk_ok es "") by (right; right; right; right; split; [reflexivity | exact Hnes]).
    pose proof (norm_exp sg ip es ed F g Hsg Hip Hes Hed Hne Hg HF "" Hmk) as N1.
    unfold normalize_float in N1. fold (prep (sg ++ ip ++ F ++ "" ++ es ++ ed)) in N1.
    rewrite <- He, Hq in N1. inversion N1 as [N1'].
    rewrite N1'.
    assert (HF2 : (F' ip F g = "" /\ strip_frac ip g = "" /\ nonempty ip = true) \/
                  (F' ip F g = "." ++ strip_frac ip g /\ (nonempty ip || nonempty (strip_frac ip g)) = true)).
    { destruct HF as [[-> [-> Hi]]|[-> Hn]].
      - left. unfold F', strip_frac. rewrite Hi. auto.
      - right. split; [reflexivity|]. unfold strip_frac. destruct (nonempty ip) eqn:Ei; [reflexivity|].
        unfold canon_frac. destruct (rstrip0 g); reflexivity. }
    pose proof (norm_exp sg ip es ed (F' ip F g) (strip_frac ip g) Hsg Hip Hes Hed Hne
                  (all_digits_strip_frac ip g Hg) HF2 "e" (or_introl eq_refl)) as N2.
    refine (eq_trans N2 _). f_equal. f_equal. f_equal.
    rewrite F'_idem; [reflexivity|]. destruct HF as [[-> [-> _]]|[-> _]]; auto.
Qed.

(* consequence: whatever the density token, the (material, density) pair a
   cell stores is stable under normalisation *)
Corollary parse_material_density_fixed toks m d :
  parse_material toks = Ok (m, Some d) -> normalize_float d = Ok d.
Proof.
  unfold parse_material. destruct toks as [|m0 rest]; [discriminate|].
  destruct (int_of_token m0) as [[|p|p]|]; try discriminate;
    (destruct rest as [|d0 rest']; [discriminate|]);
    (destruct (normalize_float d0) as [nd|] eqn:E; [|discriminate]);
    intros H; inversion H; subst; eapply normalize_float_idempotent; eauto.
Qed.
