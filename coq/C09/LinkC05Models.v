(* C09 — C09's material-only model of the "treat FILL" loop (Model.treat_fill) and
   C05's full model (C05.Model.fill_phase) agree on the material / provenance
   projection: run on the same table (C05's table read through [bridge]), they
   return the same number of cells, in the same order, with the same provenance
   head (the leaf of the descent), material, density, importance, universe and
   no fill.  Keys differ (C05 also allocates the transformed copies). *)
From Coq Require Import List ZArith Bool String Lia.
From T4V Require C05.Model C05.Spec C05.Proofs.
From T4V Require Import Base.Str C09.Model C09.Spec C09.ProofsFill C09.LinkC05.
Import ListNotations.
Open Scope Z_scope.

(* ---- by_universe and fill_keys read the same ---- *)
Lemma du_get_dappend k x (d : list (Z * list Z)) u :
  M5.du_get u (M5.dappend k x d) = if u =? k then M5.du_get u d ++ [x] else M5.du_get u d.
Proof.
  unfold M5.du_get, M5.dappend. destruct (u =? k) eqn:E.
  - apply Z.eqb_eq in E. subst u. destruct (M5.dget k d) as [l|] eqn:El.
    + now rewrite P5.dget_dset_same.
    + now rewrite P5.dget_dset_same.
  - apply Z.eqb_neq in E. destruct (M5.dget k d) as [l|]; now rewrite P5.dget_dset_other.
Qed.

Lemma by_universe_filter T (cells : list (Z * M5.cell T)) u :
  M5.du_get u (M5.by_universe cells) =
  map fst (filter (fun kc => M5.c_univ (snd kc) =? u) cells).
Proof.
  unfold M5.by_universe.
  assert (G : forall acc, M5.du_get u (fold_left (fun du kc => M5.dappend (M5.c_univ (snd kc)) (fst kc) du) cells acc)
                          = M5.du_get u acc ++ map fst (filter (fun kc => M5.c_univ (snd kc) =? u) cells)).
  { induction cells as [|[k c] r IH]; intros acc; simpl; [now rewrite app_nil_r|].
    rewrite IH, du_get_dappend. rewrite (Z.eqb_sym (M5.c_univ c) u).
    destruct (u =? M5.c_univ c); simpl; [now rewrite <- app_assoc | reflexivity]. }
  rewrite G. reflexivity.
Qed.

Section Agree.
  Variable T : Type.
  Variable mat_of : Z -> string.
  Variable dens_of : Z -> option string.
  Notation bridge := (bridge T mat_of dens_of).
  Notation bridge_cells := (bridge_cells T mat_of dens_of).

  Lemma by_universe_bridge (cells : list (Z * M5.cell T)) u :
    by_universe (bridge_cells cells) u = M5.du_get u (M5.by_universe cells).
  Proof.
    rewrite by_universe_filter. unfold by_universe, LinkC05.bridge_cells.
    induction cells as [|[k c] r IH]; simpl; [reflexivity|].
    destruct (M5.c_univ c =? u); simpl; now rewrite IH.
  Qed.

  Lemma fill_keys_bridge (cells : list (Z * M5.cell T)) :
    fill_keys (bridge_cells cells) = M5.fill_keys cells.
  Proof.
    unfold fill_keys, M5.fill_keys, LinkC05.bridge_cells.
    induction cells as [|[k c] r IH]; simpl; [reflexivity|].
    destruct (M5.c_fill c); simpl; [|exact IH].
    destruct (M5.c_univ c =? 0); simpl; now rewrite IH.
  Qed.

  (* ---- leaves does not depend on the fuel once it returns, nor on how the
     universe lists are presented ---- *)
  Lemma flat_map_res_ext {A} (f g : Z -> res (list A)) l :
    (forall k, In k l -> f k = g k) -> flat_map_res f l = flat_map_res g l.
  Proof.
    induction l as [|e r IH]; intros H; simpl; [reflexivity|].
    rewrite (H e (or_introl eq_refl)), IH; [reflexivity|]. intros k Hk. apply H. now right.
  Qed.

  Lemma leaves_mono byu d : forall fuel key l,
    leaves fuel byu d key = Ok l -> forall fuel', (fuel <= fuel')%nat -> leaves fuel' byu d key = Ok l.
  Proof.
    induction fuel as [|f IH]; intros key l H fuel' Hle; [discriminate|].
    destruct fuel' as [|f']; [lia|]. simpl in *.
    destruct (lookup key d) as [c|]; [|discriminate].
    destruct (c_fill c) as [u|]; [|exact H].
    revert l H. generalize (byu u). intros lst. induction lst as [|e r IHl]; intros l H; simpl in *; [exact H|].
    destruct (leaves f byu d e) as [l1|] eqn:E1; [|discriminate].
    rewrite (IH e l1 E1 f' ltac:(lia)).
    destruct (flat_map_res (leaves f byu d) r) as [l2|] eqn:E2; [|discriminate].
    now rewrite (IHl l2 eq_refl).
  Qed.

  Lemma leaves_ext byu byu' d : (forall u, byu u = byu' u) -> forall fuel key,
    leaves fuel byu d key = leaves fuel byu' d key.
  Proof.
    intros E. induction fuel as [|f IH]; intros key; [reflexivity|]. simpl.
    destruct (lookup key d) as [c|]; [|reflexivity]. destruct (c_fill c) as [u|]; [|reflexivity].
    rewrite E. apply flat_map_res_ext. intros k _. apply IH.
  Qed.

  (* ---- C05's enumeration of descents ends in C09's leaves ---- *)
  Variable surf : Type.

  Definition lasts (chs : list (list Z)) : list Z := map (fun ch => last ch 0) chs.

  Lemma paths_leaves (s : M5.state T surf) du :
    (forall key chs, S5.Paths T surf s du key chs ->
       Forall (fun ch => ch <> []) chs /\
       exists fuel, leaves fuel (fun u => M5.du_get u du) (bridge_cells (M5.s_cells s)) key = Ok (lasts chs)) /\
    (forall l chss, S5.PathsL T surf s du l chss ->
       Forall (fun ch => ch <> []) (List.concat chss) /\
       exists fuel, flat_map_res (leaves fuel (fun u => M5.du_get u du) (bridge_cells (M5.s_cells s))) l
                    = Ok (lasts (List.concat chss))).
  Proof.
    apply S5.Paths_PathsL_ind.
    - intros key cl Hk Hf. split; [constructor; [discriminate | constructor]|].
      exists 1%nat. simpl. rewrite lookup_bridge, Hk. simpl. now rewrite Hf.
    - intros key cl u chss Hk Hf _ [Hne [fuel Hl]]. split.
      + apply Forall_forall. intros ch Hin. apply in_map_iff in Hin. destruct Hin as [x [<- _]]. discriminate.
      + exists (S fuel). simpl. rewrite lookup_bridge, Hk. simpl. rewrite Hf, Hl. f_equal.
        unfold lasts. rewrite map_map. apply map_ext_in. intros ch Hin.
        rewrite Forall_forall in Hne. specialize (Hne ch Hin).
        destruct ch; [now elim Hne | reflexivity].
    - split; [constructor | exists 0%nat; reflexivity].
    - intros c cs chs chss _ [Hn1 [f1 H1]] _ [Hn2 [f2 H2]]. split.
      + simpl. apply Forall_app. auto.
      + exists (Nat.max f1 f2). simpl.
        rewrite (leaves_mono _ _ f1 c _ H1 (Nat.max f1 f2) (Nat.le_max_l _ _)).
        assert (H2' : flat_map_res (leaves (Nat.max f1 f2) (fun u => M5.du_get u du)
                                      (bridge_cells (M5.s_cells s))) cs = Ok (lasts (List.concat chss))).
        { clear -H2. revert H2. generalize (lasts (List.concat chss)). induction cs as [|e r IH]; intros l H; simpl in *; [exact H|].
          destruct (leaves f2 (fun u => M5.du_get u du) (bridge_cells (M5.s_cells s)) e) as [l1|] eqn:E1; [|discriminate].
          rewrite (leaves_mono _ _ f2 e _ E1 (Nat.max f1 f2) (Nat.le_max_r _ _)).
          destruct (flat_map_res (leaves f2 (fun u => M5.du_get u du) (bridge_cells (M5.s_cells s))) r) as [l2|] eqn:E2;
            [|discriminate].
          now rewrite (IH l2 eq_refl). }
        rewrite H2'. unfold lasts. now rewrite map_app.
  Qed.

  (* ---- the statement ---- *)
  Variable P : Type.
  Variable tr_empty : T -> bool.
  Variable teqb : T -> T -> bool.
  Variable tr_surf : T -> surf -> surf.
  Variable inv : T -> P -> P.
  Variable sense : surf -> P -> bool.
  Hypothesis Hsense : forall t o p, sense (tr_surf t o) p = sense o (inv t p).
  Hypothesis Hkey : forall a b, teqb a b = true -> tr_empty a = tr_empty b /\ forall p, inv a p = inv b p.

  (* the provenance head of a cell of C05's table *)
  Definition head5 (s : M5.state T surf) (k : Z) : Z :=
    match M5.dget k (M5.s_cells s) with Some ncl => M5.head_or (M5.c_orig ncl) k | None => k end.

  (* what is compared cell by cell *)
  Definition same_cell (c : cell) (ncl : M5.cell T) : Prop :=
    c_mat c = mat_of (M5.c_mat ncl) /\ c_dens c = dens_of (M5.c_rho ncl) /\
    c_fill c = None /\ M5.c_fill ncl = None.

  Lemma flat_map_res_fuel byu d keys : forall f1 l1 f2 l2,
    flat_map_res (leaves f1 byu d) keys = Ok l1 -> flat_map_res (leaves f2 byu d) keys = Ok l2 -> l1 = l2.
  Proof.
    induction keys as [|e r IH]; intros f1 l1 f2 l2 H1 H2; simpl in *; [congruence|].
    destruct (leaves f1 byu d e) as [a1|] eqn:E1; [|discriminate].
    destruct (leaves f2 byu d e) as [a2|] eqn:E2; [|discriminate].
    destruct (flat_map_res (leaves f1 byu d) r) as [b1|] eqn:R1; [|discriminate].
    destruct (flat_map_res (leaves f2 byu d) r) as [b2|] eqn:R2; [|discriminate].
    inversion H1; inversion H2; subst.
    pose proof (leaves_mono byu d f1 e a1 E1 (Nat.max f1 f2) (Nat.le_max_l _ _)) as M1.
    pose proof (leaves_mono byu d f2 e a2 E2 (Nat.max f1 f2) (Nat.le_max_r _ _)) as M2.
    rewrite M1 in M2. inversion M2; subst. f_equal. eapply IH; eauto.
  Qed.

  Theorem fill_models_agree :
    forall fuel cf ifd ifg (s s' : M5.state T surf) rs fuel9 next st' ks,
    P5.fresh_ok T surf s -> M5.s_cache s = [] ->
    (forall c cl, M5.dget c (M5.s_cells s) = Some cl -> M5.c_orig cl = []) ->
    M5.fill_phase T surf tr_empty teqb tr_surf fuel cf ifd ifg s = M5.Ok (rs, s') ->
    (forall k, lookup k (bridge_cells (M5.s_cells s)) <> None -> k <= next) ->
    treat_fill fuel9 (bridge_cells (M5.s_cells s)) next = Ok (st', ks) ->
    (* same provenance heads, in the same order *)
    map (head_of (fst st')) ks = map (head5 s') (List.concat rs) /\
    (* and, cell by cell, the same material, density, and no fill *)
    Forall2 (fun k k5 => exists c ncl, lookup k (fst st') = Some c /\
                                       M5.dget k5 (M5.s_cells s') = Some ncl /\ same_cell c ncl)
            ks (List.concat rs).
  Proof.
    intros fuel cf ifd ifg s s' rs fuel9 next st' ks Hf Hc Ho Hfill Hnext Htreat.
    assert (Hpr : pristine (bridge_cells (M5.s_cells s))).
    { intros k c Hk.  rewrite lookup_bridge in Hk.
      destruct (M5.dget k (M5.s_cells s)) as [cl|] eqn:E; [|discriminate].
      inversion Hk; subst. simpl. eapply Ho; eauto. }
    destruct (provenance_head_is_leaf fuel9 (bridge_cells (M5.s_cells s)) next st' ks Hpr Hnext Htreat) as [Hleaves [Hfin _]].
    destruct (P5.fill_phase_spec T surf P tr_empty teqb tr_surf inv sense Hsense Hkey
                fuel cf ifd ifg s rs s' Hf Hc Ho Hfill) as [_ [_ HF]].
    set (du := M5.by_universe (M5.s_cells s)) in *.
    (* C05's side: the heads of the returned cells are the last cells of the descents *)
    assert (H5 : exists fuel5,
               flat_map_res (leaves fuel5 (fun u => M5.du_get u du) (bridge_cells (M5.s_cells s))) (M5.fill_keys (M5.s_cells s))
               = Ok (map (head5 s') (List.concat rs)) /\
               Forall (fun k5 => exists ncl lcl, M5.dget k5 (M5.s_cells s') = Some ncl /\
                          M5.dget (head5 s' k5) (M5.s_cells s) = Some lcl /\
                          M5.c_fill ncl = None /\ M5.c_mat ncl = M5.c_mat lcl /\ M5.c_rho ncl = M5.c_rho lcl)
                      (List.concat rs)).
    { clear Hleaves Hfin Htreat Hfill. revert HF. generalize (M5.fill_keys (M5.s_cells s)) rs.
      intros keys0 rs0 HF. induction HF as [|key ks5 keys rs' [chs [HP HG]] _ IH].
      - exists 0%nat. split; [reflexivity | constructor].
      - destruct IH as [f2 [IH1 IH2]].
        destruct (proj1 (paths_leaves s du) key chs HP) as [_ [f1 Hl]].
        assert (Hheads : map (head5 s') ks5 = lasts chs /\
                         Forall (fun k5 => exists ncl lcl, M5.dget k5 (M5.s_cells s') = Some ncl /\
                            M5.dget (head5 s' k5) (M5.s_cells s) = Some lcl /\
                            M5.c_fill ncl = None /\ M5.c_mat ncl = M5.c_mat lcl /\ M5.c_rho ncl = M5.c_rho lcl) ks5).
        { clear -HG. induction HG as [|k ch ks5 chs G _ IHG]; [split; [reflexivity | constructor]|].
          destruct IHG as [I1 I2].
          destruct G as (ncl & lcl & kcl & r & _ & G2 & G3 & _ & G5 & _ & G7 & G8 & G9 & _).
          assert (Hh : head5 s' k = last ch 0) by (unfold head5; now rewrite G2).
          split; [simpl; now rewrite Hh, I1|].
          constructor; [|exact I2]. exists ncl, lcl. rewrite Hh. auto. }
        destruct Hheads as [Hh1 Hh2].
        exists (Nat.max f1 f2). split.
        + simpl. rewrite (leaves_mono _ _ f1 key _ Hl (Nat.max f1 f2) (Nat.le_max_l _ _)).
          assert (IH1' : flat_map_res (leaves (Nat.max f1 f2) (fun u => M5.du_get u du) (bridge_cells (M5.s_cells s))) keys
                         = Ok (map (head5 s') (List.concat rs'))).
          { revert IH1. generalize (map (head5 s') (List.concat rs')).
            induction keys as [|e r IHk]; intros l H; simpl in *; [exact H|].
            destruct (leaves f2 (fun u => M5.du_get u du) (bridge_cells (M5.s_cells s)) e) as [l1|] eqn:E1; [|discriminate].
            rewrite (leaves_mono _ _ f2 e _ E1 (Nat.max f1 f2) (Nat.le_max_r _ _)).
            destruct (flat_map_res (leaves f2 (fun u => M5.du_get u du) (bridge_cells (M5.s_cells s))) r) as [l2|] eqn:E2; [|discriminate].
            now rewrite (IHk l2 eq_refl). }
          rewrite IH1'. now rewrite map_app, Hh1.
        + simpl. apply Forall_app. auto. }
    destruct H5 as [fuel5 [H5a H5b]].
    (* both sides computed the same list of leaves *)
    assert (Heq : map (head_of (fst st')) ks = map (head5 s') (List.concat rs)).
    { rewrite fill_keys_bridge in Hleaves.
      assert (Hl' : flat_map_res (leaves fuel9 (fun u => M5.du_get u du) (bridge_cells (M5.s_cells s))) (M5.fill_keys (M5.s_cells s))
                    = Ok (map (head_of (fst st')) ks)).
      { rewrite <- Hleaves. apply flat_map_res_ext. intros k _. apply leaves_ext.
        intros u. symmetry. apply by_universe_bridge. }
      eapply flat_map_res_fuel; eauto. }
    split; [exact Heq|].
    (* cell by cell *)
    clear Hleaves H5a Htreat. revert Hfin H5b Heq. generalize (List.concat rs). intros l5.
    revert l5. induction ks as [|k ks IH]; intros [|k5 l5] Hfin H5b Heq; simpl in Heq; try discriminate; [constructor|].
    inversion Heq as [[Hh Ht]]. inversion Hfin as [|? ? Fk Fks]; subst. inversion H5b as [|? ? Gk Gks]; subst.
    constructor; [|apply IH; auto].
    destruct Fk as [c [L [F1 [F2 [F3 [F4 [F5 [F6 _]]]]]]]].
    destruct Gk as [ncl [lcl [G1 [G2 [G3 [G4 G5]]]]]].
    exists c, ncl. split; [exact F1|]. split; [exact G1|].
    unfold head_of in Hh. rewrite F1 in Hh. rewrite Hh in F3.
    rewrite lookup_bridge, G2 in F3. inversion F3; subst L. simpl in F5, F6.
    unfold same_cell. rewrite F5, F6, G4, G5. auto.
  Qed.
End Agree.
