(* C09 — LIKE n BUT chains: the options of a cell are those of its model cell
   followed by its own; for MAT= and RHO= the last entry met along the chain
   (from the base card to the cell) wins. *)
From Coq Require Import List NArith ZArith Bool String Ascii Lia.
From T4V Require Import Base.Str C09.Model C09.Spec C09.ProofsNorm.
Import ListNotations.
Open Scope list_scope.

(* ---- the keyword scan ---- *)
Lemma kw_mat_app a b acc : kw_mat (a ++ b) acc = kw_mat b (kw_mat a acc).
Proof. revert acc. induction a as [|[s|s|] a IH]; intros acc; simpl; auto. Qed.

Lemma kw_rho_app a b acc : kw_rho (a ++ b) acc = kw_rho b (kw_rho a acc).
Proof. revert acc. induction a as [|[s|s|] a IH]; intros acc; simpl; auto. Qed.

(* an own entry wins, otherwise what was known before is kept *)
Lemma kw_mat_acc o acc :
  kw_mat o acc = match kw_mat o None with Some x => Some x | None => acc end.
Proof.
  revert acc. induction o as [|[s|s|] o IH]; intros acc; simpl; auto.
  rewrite (IH (Some s)). destruct (kw_mat o None); reflexivity.
Qed.

Lemma kw_rho_acc o acc :
  kw_rho o acc = match kw_rho o None with Some x => Some x | None => acc end.
Proof.
  revert acc. induction o as [|[s|s|] o IH]; intros acc; simpl; auto.
  rewrite (IH (Some s)). destruct (kw_rho o None); reflexivity.
Qed.

(* ---- the path from the base card to a cell (reference reading) ---- *)
(* the option lists of the cards along the LIKE chain, base card first *)
Fixpoint chain_of (fuel : nat) (cards : idict card) (c : card) : res (list string * list (list opt)) :=
  match c with
  | Plain toks o => Ok (toks, [o])
  | Like n o =>
      match fuel with
      | O => Err EFuel
      | S f => match ilookup n cards with
               | None => Err EKey
               | Some c' => match chain_of f cards c' with
                            | Err e => Err e
                            | Ok (toks, ch) => Ok (toks, ch ++ [o])
                            end
               end
      end
  end.

(* the last Some of a list *)
Fixpoint last_some {A} (l : list (option A)) : option A :=
  match l with
  | [] => None
  | x :: r => match last_some r with Some y => Some y | None => x end
  end.

Lemma last_some_app {A} (a b : list (option A)) :
  last_some (a ++ b) = match last_some b with Some y => Some y | None => last_some a end.
Proof.
  induction a as [|x a IH]; simpl.
  - destruct (last_some b); reflexivity.
  - rewrite IH. destruct (last_some b); reflexivity.
Qed.

Lemma kw_mat_concat ch :
  kw_mat (List.concat ch) None = last_some (map (fun o => kw_mat o None) ch).
Proof.
  induction ch as [|o ch IH] using rev_ind; [reflexivity|].
  rewrite List.concat_app, map_app, last_some_app, kw_mat_app. simpl. rewrite app_nil_r.
  rewrite kw_mat_acc, IH. reflexivity.
Qed.

Lemma kw_rho_concat ch :
  kw_rho (List.concat ch) None = last_some (map (fun o => kw_rho o None) ch).
Proof.
  induction ch as [|o ch IH] using rev_ind; [reflexivity|].
  rewrite List.concat_app, map_app, last_some_app, kw_rho_app. simpl. rewrite app_nil_r.
  rewrite kw_rho_acc, IH. reflexivity.
Qed.

(* the LIKE loop concatenates the options along the path *)
Lemma like_resolve_chain : forall fuel cards c,
  like_resolve fuel cards c =
  match chain_of fuel cards c with
  | Ok (toks, ch) => Ok (toks, List.concat ch)
  | Err e => Err e
  end.
Proof.
  induction fuel as [|f IH]; intros cards c; destruct c as [toks o|n o]; simpl;
    try (now rewrite app_nil_r); try reflexivity.
  destruct (ilookup n cards) as [c'|]; [|reflexivity].
  rewrite IH. destruct (chain_of f cards c') as [[toks ch]|]; [|reflexivity].
  rewrite List.concat_app. simpl. now rewrite app_nil_r.
Qed.

(* the material and density of a cell at the end of a LIKE chain: those of the
   base card, overridden by the LAST MAT= and the LAST RHO= met along the chain *)
Theorem like_chain_last_wins fuel cards c toks ch :
  chain_of fuel cards c = Ok (toks, ch) ->
  card_material fuel cards c =
    cell_material toks (last_some (map (fun o => kw_mat o None) ch))
                       (last_some (map (fun o => kw_rho o None) ch)).
Proof.
  intros H. unfold card_material. rewrite like_resolve_chain, H, kw_mat_concat, kw_rho_concat.
  reflexivity.
Qed.

(* one hop: a LIKE card's own MAT=/RHO= win, otherwise it inherits what its
   model cell resolved to — whatever the model cell's own chain was *)
Theorem like_inherits fuel cards n o c' toks o' :
  ilookup n cards = Some c' -> like_resolve fuel cards c' = Ok (toks, o') ->
  card_material (S fuel) cards (Like n o) =
    cell_material toks
      (match kw_mat o None with Some x => Some x | None => kw_mat o' None end)
      (match kw_rho o None with Some x => Some x | None => kw_rho o' None end).
Proof.
  intros Hn Hr. unfold card_material. simpl. rewrite Hn, Hr.
  rewrite kw_mat_app, kw_rho_app, kw_mat_acc, kw_rho_acc. reflexivity.
Qed.

(* a LIKE card without MAT=/RHO= of its own is stored with exactly the material
   and density of its model cell *)
Corollary like_plain_copy fuel cards n o c' :
  ilookup n cards = Some c' -> kw_mat o None = None -> kw_rho o None = None ->
  (exists r, like_resolve fuel cards c' = Ok r) ->
  card_material (S fuel) cards (Like n o) = card_material fuel cards c'.
Proof.
  intros Hn Hm Hr [[toks o'] Hres].
  rewrite (like_inherits fuel cards n o c' toks o' Hn Hres), Hm, Hr.
  unfold card_material. now rewrite Hres.
Qed.
