(* C09 — model of the material/density path:
     Kernel/Utils.py normalize_float                      [pass1 pass1b add_zero pass2 pass3 normalize_float]
     FileHandlers/Parser/ParseMCNPCell.py parse_material  [parse_material]
     Volume/ByUniverse.py by_universe                     [by_universe]
     Volume/CellConversion.py pot_fill (material, density and idorigin copy;
       geometry and transformations abstracted away)      [pot_fill]
     Volume/CellConversion.py develop_lattice (material / fill of the element
       cells; geometry abstracted away)                   [develop_lattice]
     GeomComp/ConstructGeomCompT4.py + Writer/WriteT4GeomComp.py   [geomcomp geomcomp_lines]
     Composition/ConstructCompositionT4.py, distinct-density logic of one
       material card (names only; the blocks are C10's)   [comp_names]
   Executable; proofs live in C09/Proofs*.v. *)
From Coq Require Import List NArith ZArith Bool String Ascii.
From T4V Require Import Base.Str.
Import ListNotations.
Open Scope string_scope.

(* the newline character *)
Definition nl : string := String (ascii_of_nat 10) "".

(* Python exception classes the path can raise (EFuel: the model ran out of
   fuel, i.e. universes fill each other cyclically: Python's RecursionError) *)
Inductive err := EIndex | EValue | EKey | EType | EFuel.
Inductive res (A : Type) := Ok (a : A) | Err (e : err).
Arguments Ok {A}. Arguments Err {A}.

(* ------------------------------------------------------------------------ *)
(* normalize_float: four regex passes as explicit string functions           *)
(* ------------------------------------------------------------------------ *)

Definition is_sign (c : ascii) : bool := Ascii.eqb c "-" || Ascii.eqb c "+".

(* the optional [-+] at the start of the first two patterns *)
Definition sign_of (s : string) : string :=
  match s with String c _ => if is_sign c then String c "" else "" | EmptyString => "" end.
Definition strip_sign (s : string) : string :=
  match s with String c r => if is_sign c then r else s | EmptyString => s end.

(* greedy [0-9]* : (the digits, the rest) *)
Fixpoint span_digits (s : string) : string * string :=
  match s with
  | String c r => if is_digit c then let (d, t) := span_digits r in (String c d, t) else ("", s)
  | EmptyString => ("", "")
  end.

(* the string without its final run of '0' characters *)
Fixpoint rstrip0 (s : string) : string :=
  match s with
  | EmptyString => EmptyString
  | String c r => match rstrip0 r with
                  | EmptyString => if Ascii.eqb c "0" then EmptyString else String c EmptyString
                  | r' => String c r'
                  end
  end.

Definition nonempty (s : string) : bool := match s with EmptyString => false | _ => true end.

(* re.sub(r'^([-+]?[0-9]*\.[0-9]*?)0+$', r'\1', s): the fraction is matched
   lazily, so group 1 ends where the maximal final run of zeros starts; the
   pattern matches iff the characters after the point are all digits and end
   with '0' *)
Definition pass1 (s : string) : string :=
  let (d1, t) := span_digits (strip_sign s) in
  match t with
  | String "." r =>
      if all_digits r && negb (String.eqb (rstrip0 r) r)
      then sign_of s ++ d1 ++ "." ++ rstrip0 r else s
  | _ => s
  end.

(* the exponent part ([eEdD][-+]?|[-+])[0-9]+ up to the end of the string *)
Definition is_marker (c : ascii) : bool :=
  Ascii.eqb c "e" || Ascii.eqb c "E" || Ascii.eqb c "d" || Ascii.eqb c "D".

Definition exp_ok (e : string) : bool :=
  match e with
  | EmptyString => false
  | String c r => if is_marker c then (let r' := strip_sign r in nonempty r' && all_digits r')
                  else is_sign c && nonempty r && all_digits r
  end.

(* re.sub(r'^([-+]?(?:[0-9]+\.[0-9]*?|\.[0-9]*?[0-9]))0+((?:[eEdD][-+]?|[-+])[0-9]+)$',
          r'\1\2', s): zeros at the end of the fraction in front of an exponent
   go; a mantissa without integer digits keeps one fractional digit *)
Definition pass1b (s : string) : string :=
  let (d1, t) := span_digits (strip_sign s) in
  match t with
  | String "." r =>
      let (rd, e) := span_digits r in
      if exp_ok e && negb (String.eqb (rstrip0 rd) rd) then
        if nonempty d1 then sign_of s ++ d1 ++ "." ++ rstrip0 rd ++ e
        else match rstrip0 rd with
             | EmptyString => sign_of s ++ ".0" ++ e
             | f => sign_of s ++ "." ++ f ++ e
             end
      else s
  | _ => s
  end.

Fixpoint last_char (s : string) : option ascii :=
  match s with
  | EmptyString => None
  | String c EmptyString => Some c
  | String _ r => last_char r
  end.

(* if norm[-1] == '.': norm += '0'   (IndexError on the empty string) *)
Definition add_zero (s : string) : res string :=
  match last_char s with
  | None => Err EIndex
  | Some c => if Ascii.eqb c "." then Ok (s ++ "0") else Ok s
  end.

(* re.sub with pattern  ^([-+]?(D+(\.D* )?|D*\.D+))([-+]D+)$  (D = [0-9]) and
   replacement \1e\4 *)
Definition pass2 (s : string) : string :=
  let (d1, t1) := span_digits (strip_sign s) in
  let '(dot, d2, t2) := match t1 with
                        | String "." r => let (d2, t2) := span_digits r in (".", d2, t2)
                        | _ => ("", "", t1)
                        end in
  if nonempty d1 || nonempty d2 then
    match t2 with
    | String c r3 => if is_sign c && nonempty r3 && all_digits r3
                     then sign_of s ++ d1 ++ dot ++ d2 ++ "e" ++ t2 else s
    | EmptyString => s
    end
  else s.

(* re.sub(r'[eEdD]', 'e', s) *)
Fixpoint pass3 (s : string) : string :=
  match s with
  | EmptyString => EmptyString
  | String c r => String (if is_marker c then "e"%char else c) (pass3 r)
  end.

Definition normalize_float (s : string) : res string :=
  match add_zero (pass1b (pass1 s)) with
  | Err e => Err e
  | Ok n => Ok (pass3 (pass2 n))
  end.

(* what Python's float() accepts among strings without blanks, underscores and
   letters other than e/E: [-+]?(D+(.D* )?|.D+)([eE][-+]?D+)?  (inf/nan spellings
   are outside the alphabets the harness uses) *)
Definition float_ok (s : string) : bool :=
  let (d1, t1) := span_digits (strip_sign s) in
  let '(d2, t2) := match t1 with
                   | String "." r => span_digits r
                   | _ => ("", t1)
                   end in
  (nonempty d1 || nonempty d2) &&
  match t2 with
  | EmptyString => true
  | String c r => (Ascii.eqb c "e" || Ascii.eqb c "E") &&
                  (let r' := strip_sign r in nonempty r' && all_digits r')
  end.

(* ------------------------------------------------------------------------ *)
(* parse_material                                                            *)
(* ------------------------------------------------------------------------ *)

(* Python int() on [-+]?digits (narrower than Python's: no blanks/underscores) *)
Definition int_of_token (s : string) : option Z :=
  match int_of_string (strip_sign s) with
  | None => None
  | Some n => Some (if String.eqb (sign_of s) "-" then (- Z.of_N n)%Z else Z.of_N n)
  end.

(* material.split() is done by the caller: tokens of the material part *)
Definition parse_material (toks : list string) : res (string * option string) :=
  match toks with
  | [] => Err EIndex
  | m :: rest =>
      match int_of_token m with
      | None => Err EValue
      | Some 0%Z => Ok (m, None)
      | Some _ => match rest with
                  | [] => Err EIndex
                  | d :: _ => match normalize_float d with
                              | Ok nd => Ok (m, Some nd)
                              | Err e => Err e
                              end
                  end
      end
  end.

(* parse_one_cell_worker, material side: the pair of the (base) cell card, then
   the MAT= / RHO= keywords of LIKE n BUT override it (the density keyword is
   normalised, the material keyword is taken as written); a cell whose material
   number is then 0 has no density *)
Definition cell_material (toks : list string) (kmat krho : option string)
  : res (string * option string) :=
  match parse_material toks with
  | Err e => Err e
  | Ok (m, d) =>
      let m' := match kmat with Some x => x | None => m end in
      match (match krho with
             | None => Ok d
             | Some r => match normalize_float r with Ok nr => Ok (Some nr) | Err e => Err e end
             end) with
      | Err e => Err e
      | Ok d' => match int_of_token m' with
                 | None => Err EValue
                 | Some 0%Z => Ok (m', None)
                 | Some _ => Ok (m', d')
                 end
      end
  end.

(* ------------------------------------------------------------------------ *)
(* LIKE n BUT chains: parse_one_cell                                          *)
(* ------------------------------------------------------------------------ *)

(* an insertion-ordered Python dict with integer keys *)
Definition idict (A : Type) := list (Z * A).
Fixpoint ilookup {A} (k : Z) (d : idict A) : option A :=
  match d with
  | [] => None
  | (k', v) :: r => if (k =? k')%Z then Some v else ilookup k r
  end.

(* the keyword/value entries of a card's options as far as the material is
   concerned (the tokenizer itself — parse_keywords — is C15's) *)
Inductive opt := OMat (s : string) | ORho (s : string) | OOther.

(* a parsed cell card: (material tokens, geometry, options), or LIKE n BUT options *)
Inductive card := Plain (toks : list string) (opts : list opt) | Like (n : Z) (opts : list opt).

(* the LIKE loop: parsed_cell = apply_but(parsed_cells[n], parsed_cell[2]) until
   the geometry is no longer "like n but": the options of the model cell come
   first, the cell's own (accumulated) options after them; a missing model cell
   is a KeyError; cards that are LIKE each other make Python loop forever (EFuel) *)
Fixpoint like_resolve (fuel : nat) (cards : idict card) (c : card) : res (list string * list opt) :=
  match c with
  | Plain toks o => Ok (toks, o)
  | Like n o =>
      match fuel with
      | O => Err EFuel
      | S f => match ilookup n cards with
               | None => Err EKey
               | Some c' => match like_resolve f cards c' with
                            | Err e => Err e
                            | Ok (toks, o') => Ok (toks, (o' ++ o)%list)
                            end
               end
      end
  end.

(* parse_keywords: keywords['material'] / keywords['density'] = the LAST entry *)
Fixpoint kw_mat (o : list opt) (acc : option string) : option string :=
  match o with
  | [] => acc
  | OMat s :: r => kw_mat r (Some s)
  | _ :: r => kw_mat r acc
  end.
Fixpoint kw_rho (o : list opt) (acc : option string) : option string :=
  match o with
  | [] => acc
  | ORho s :: r => kw_rho r (Some s)
  | _ :: r => kw_rho r acc
  end.

(* parse_one_cell, material side *)
Definition card_material (fuel : nat) (cards : idict card) (c : card) : res (string * option string) :=
  match like_resolve fuel cards c with
  | Err e => Err e
  | Ok (toks, o) => cell_material toks (kw_mat o None) (kw_rho o None)
  end.

(* ------------------------------------------------------------------------ *)
(* cells, as far as material assignment is concerned                         *)
(* ------------------------------------------------------------------------ *)

Record cell := mkCell {
  c_mat : string;               (* materialID: the raw token *)
  c_dens : option string;       (* density: normalised spelling, None for void *)
  c_imp : Z;                    (* importance (integers are enough here) *)
  c_univ : Z;                   (* universe *)
  c_fill : option Z;            (* fillid (a plain universe number) *)
  c_origin : list (Z * Z)       (* idorigin *)
}.

(* an insertion-ordered Python dict with integer keys; new keys are appended *)
Definition dict (A : Type) := list (Z * A).

Fixpoint lookup {A} (k : Z) (d : dict A) : option A :=
  match d with
  | [] => None
  | (k', v) :: r => if (k =? k')%Z then Some v else lookup k r
  end.

Definition keys {A} (d : dict A) : list Z := map fst d.

(* by_universe: universe -> keys of its cells, in dictionary order; a missing
   universe gives the empty list (defaultdict) *)
Definition by_universe (d : dict cell) (u : Z) : list Z :=
  map fst (filter (fun kc => (c_univ (snd kc) =? u)%Z) d).

(* idorigin[0][0] if idorigin else key *)
Definition origin_head (k : Z) (c : cell) : Z :=
  match c_origin c with [] => k | (a, _) :: _ => a end.

(* state threaded through pot_fill: the cell dictionary and new_cell_key *)
Definition state := (dict cell * Z)%type.

(* run f over a list of keys, threading the state, concatenating the results *)
Fixpoint flat_map_state (f : state -> Z -> res (state * list Z)) (st : state) (l : list Z)
  : res (state * list Z) :=
  match l with
  | [] => Ok (st, [])
  | e :: r => match f st e with
              | Err x => Err x
              | Ok (st1, l1) => match flat_map_state f st1 r with
                                | Err x => Err x
                                | Ok (st2, l2) => Ok (st2, (l1 ++ l2)%list)
                                end
              end
  end.

(* the loop "for element in to_process" of pot_fill, container [cell] at [key] *)
Fixpoint fill_elements (key : Z) (container : cell) (st : state) (elems : list Z)
  : res (state * list Z) :=
  match elems with
  | [] => Ok (st, [])
  | e :: r =>
      let (d, next) := st in
      match lookup e d with
      | None => Err EKey
      | Some ec =>
          let nc := {| c_mat := c_mat ec; c_dens := c_dens ec; c_imp := c_imp container;
                       c_univ := c_univ container; c_fill := None;
                       c_origin := (c_origin ec ++ [(origin_head e ec, origin_head key container)])%list |} in
          let next' := (next + 1)%Z in
          match fill_elements key container ((d ++ [(next', nc)])%list, next') r with
          | Err x => Err x
          | Ok (st', l) => Ok (st', next' :: l)
          end
      end
  end.

(* CellConversion.pot_fill without transformations (cell_transform allocates
   further keys when the container carries a fill transformation or a TRCL; the
   provenance, material and density written here do not depend on it) *)
Fixpoint pot_fill (fuel : nat) (byu : Z -> list Z) (st : state) (key : Z) : res (state * list Z) :=
  match fuel with
  | O => Err EFuel
  | S f =>
      match lookup key (fst st) with
      | None => Err EKey
      | Some c =>
          match c_fill c with
          | None => Ok (st, [key])
          | Some u =>
              match flat_map_state (pot_fill f byu) st (byu u) with
              | Err x => Err x
              | Ok (st1, elems) => fill_elements key c st1 elems
              end
          end
      end
  end.

(* construct_volume_t4, "treat FILL": pot_fill for every level-0 cell with a fill *)
Definition fill_keys (d : dict cell) : list Z :=
  map fst (filter (fun kc => match c_fill (snd kc) with Some _ => (c_univ (snd kc) =? 0)%Z | None => false end) d).

Definition treat_fill (fuel : nat) (d : dict cell) (next : Z) : res (state * list Z) :=
  flat_map_state (pot_fill fuel (by_universe d)) (d, next) (fill_keys d).

(* develop_lattice, material side: the lattice cell [key] is replaced by one
   copy per array entry with a non-zero universe; an entry naming the lattice
   cell's own universe becomes a plain material cell (fill removed, material of
   the lattice cell), any other entry a cell filled with that universe *)
Fixpoint lattice_elements (c : cell) (next : Z) (univs : list Z) : dict cell * Z :=
  match univs with
  | [] => ([], next)
  | u :: r =>
      if (u =? 0)%Z then lattice_elements c next r
      else
        let next' := (next + 1)%Z in
        let nc := {| c_mat := c_mat c; c_dens := c_dens c; c_imp := c_imp c; c_univ := c_univ c;
                     c_fill := if (u =? c_univ c)%Z then None else Some u;
                     c_origin := c_origin c |} in
        let (l, n) := lattice_elements c next' r in
        ((next', nc) :: l, n)
  end.

Fixpoint remove_key {A} (k : Z) (d : dict A) : dict A :=
  match d with
  | [] => []
  | (k', v) :: r => if (k =? k')%Z then r else (k', v) :: remove_key k r
  end.

Definition develop_lattice (st : state) (key : Z) (univs : list Z) : res state :=
  let (d, next) := st in
  match lookup key d with
  | None => Err EKey
  | Some c => let (l, n) := lattice_elements c next univs in
              Ok (remove_key key (d ++ l)%list, n)
  end.

(* ------------------------------------------------------------------------ *)
(* constructGeomCompT4 + writeT4GeomComp                                     *)
(* ------------------------------------------------------------------------ *)

Record vol := mkVol { v_fictive : bool; v_origin : list (Z * Z) }.

(* name of the composition a cell refers to: str(int(materialID)), '_' and the
   density unless void — the same spelling of the material number as in
   constructCompositionT4 ([z] is int(materialID)) *)
Definition material_name (z : Z) (c : cell) : string :=
  match c_dens c with
  | None => dec_Z z
  | Some d => dec_Z z ++ "_" ++ d
  end.

(* dic_partialGeomComp[name].append(key), groups in order of first appearance *)
Fixpoint group_add (name : string) (k : Z) (g : list (string * list Z)) : list (string * list Z) :=
  match g with
  | [] => [(name, [k])]
  | (n, l) :: r => if String.eqb n name then (n, (l ++ [k])%list) :: r else (n, l) :: group_add name k r
  end.

Definition vol_source (k : Z) (v : vol) : Z :=
  match v_origin v with [] => k | (a, _) :: _ => a end.

Fixpoint geomcomp_from (vols : dict vol) (cells : dict cell) (g : list (string * list Z))
  : res (list (string * list Z)) :=
  match vols with
  | [] => Ok g
  | (k, v) :: r =>
      if v_fictive v then geomcomp_from r cells g
      else match lookup (vol_source k v) cells with
           | None => Err EKey
           | Some c => match int_of_token (c_mat c) with
                       | None => Err EValue
                       | Some z => geomcomp_from r cells (group_add (material_name z c) k g)
                       end
           end
  end.

Definition geomcomp (vols : dict vol) (cells : dict cell) : res (list (string * list Z)) :=
  geomcomp_from vols cells [].

(* the lines written between GEOMCOMP and END_GEOMCOMP: name, count, volumes *)
Definition geomcomp_lines (vols : dict vol) (cells : dict cell) : res (list (string * N * list Z)) :=
  match geomcomp vols cells with
  | Err e => Err e
  | Ok g => Ok (map (fun nl => ("m" ++ fst nl, N.of_nat (List.length (snd nl)), snd nl)) g)
  end.

(* ------------------------------------------------------------------------ *)
(* constructCompositionT4: which compositions one material card gives        *)
(* ------------------------------------------------------------------------ *)

Definition live (c : cell) : bool :=
  negb ((c_imp c <=? 0)%Z || negb (c_univ c =? 0)%Z || match c_fill c with Some _ => true | None => false end).

Fixpoint mem_string (s : string) (l : list string) : bool :=
  match l with [] => false | x :: r => String.eqb s x || mem_string s r end.

(* names 'm<key>_<normalize_float(density)>' in order; [seen] is the set of
   density STRINGS already handled *)
Fixpoint comp_scan (key : Z) (cells : dict cell) (seen : list string) : res (list string) :=
  match cells with
  | [] => Ok []
  | (_, c) :: r =>
      if negb (live c) then comp_scan key r seen else
      match int_of_token (c_mat c) with
      | None => Err EValue
      | Some m =>
          if negb (m =? key)%Z then comp_scan key r seen else
          match c_dens c with
          | None => Err EType
          | Some d =>
              if mem_string d seen then comp_scan key r seen else
              match normalize_float d with
              | Err e => Err e
              | Ok nd =>
                  if float_ok nd then
                    match comp_scan key r (d :: seen) with
                    | Err e => Err e
                    | Ok l => Ok (("m" ++ dec_Z key ++ "_" ++ nd) :: l)
                    end
                  else Err EValue
              end
          end
      end
  end.

Definition comp_names (key : Z) (cells : dict cell) : res (list string) := comp_scan key cells [].

(* ------------------------------------------------------------------------ *)
(* writeT4Composition: the COMPOSITION block as text                          *)
(* ------------------------------------------------------------------------ *)

(* what compositionConversionMCNPToT4 + extract_isotopes_fractions give for one
   material card (their contents are C10's): key, atom_fracs flag, nuclide
   names with absolute fraction strings *)
Record mcard := mkMcard { k_key : Z; k_atom : bool; k_fracs : list (string * string) }.

(* the densities (normalised) for which constructCompositionT4 makes a
   composition of material [key], in order: comp_scan without the name prefix *)
Fixpoint comp_dens (key : Z) (cells : dict cell) (seen : list string) : res (list string) :=
  match cells with
  | [] => Ok []
  | (_, c) :: r =>
      if negb (live c) then comp_dens key r seen else
      match int_of_token (c_mat c) with
      | None => Err EValue
      | Some m =>
          if negb (m =? key)%Z then comp_dens key r seen else
          match c_dens c with
          | None => Err EType
          | Some d =>
              if mem_string d seen then comp_dens key r seen else
              match normalize_float d with
              | Err e => Err e
              | Ok nd =>
                  if float_ok nd then
                    match comp_dens key r (d :: seen) with
                    | Err e => Err e
                    | Ok l => Ok (nd :: l)
                    end
                  else Err EValue
              end
          end
      end
  end.

(* float(nd) < 0.0 for a spelling float() accepts: a minus sign and a non-zero
   mantissa digit (exponents are assumed far from underflow) *)
Fixpoint has_nonzero_digit (s : string) : bool :=
  match s with
  | EmptyString => false
  | String c r => (is_digit c && negb (Ascii.eqb c "0")) || has_nonzero_digit r
  end.
Definition neg_density (nd : string) : bool :=
  match nd with
  | String "-" r => has_nonzero_digit (take_until "e" r)
  | _ => false
  end.

(* str_fabs on a string without blanks *)
Definition str_fabs (s : string) : string :=
  match s with String "-" r => r | _ => s end.

Fixpoint join_isos (l : list (string * string)) : string :=
  match l with
  | [] => ""
  | [(n, a)] => n ++ " " ++ a
  | (n, a) :: r => n ++ " " ++ a ++ nl ++ "  " ++ join_isos r
  end.

(* one block; [pw] gives the rescaled concentrations of a POINT_WISE
   composition by name (floats: C10's), used only when the card has atom fractions *)
Definition find_isos (name : string) (pw : list (string * list (string * string))) : list (string * string) :=
  match find (fun e => String.eqb (fst e) name) pw with Some e => snd e | None => [] end.

Definition block_text (mc : mcard) (pw : list (string * list (string * string))) (nd : string) : string :=
  let name := "m" ++ dec_Z (k_key mc) ++ "_" ++ nd in
  if neg_density nd then
    "DENSITY 300 " ++ name ++ " " ++ str_fabs nd ++ " " ++ (if k_atom mc then "NB_ATOM" else "") ++ " " ++
    dec (N.of_nat (List.length (k_fracs mc))) ++ nl ++ "  " ++ join_isos (k_fracs mc) ++ nl
  else
    let isos := if k_atom mc then find_isos name pw else [] in
    "POINT_WISE 300 " ++ name ++ " " ++ dec (N.of_nat (List.length isos)) ++ nl ++ "  " ++ join_isos isos ++ nl.

(* the blocks of all cards, in card order *)
Fixpoint all_blocks (mcs : list mcard) (cells : dict cell) (pw : list (string * list (string * string)))
  : res (list string) :=
  match mcs with
  | [] => Ok []
  | mc :: r => match comp_dens (k_key mc) cells [] with
               | Err e => Err e
               | Ok ds => match all_blocks r cells pw with
                          | Err e => Err e
                          | Ok t => Ok (map (block_text mc pw) ds ++ t)%list
                          end
               end
  end.

Fixpoint concat_str (l : list string) : string :=
  match l with [] => "" | x :: r => x ++ concat_str r end.

(* what writeT4Composition writes when constructCompositionT4 returns *)
Definition write_compositions (mcs : list mcard) (cells : dict cell)
  (pw : list (string * list (string * string))) : res string :=
  match all_blocks mcs cells pw with
  | Err e => Err e
  | Ok blocks =>
      Ok (nl ++ "COMPOSITION" ++ nl ++ dec (N.of_nat (List.length blocks) + 1) ++ nl ++
          concat_str blocks ++
          "POINT_WISE 300 m0 1" ++ nl ++ "  HE4 1E-30" ++ nl ++ nl ++ "END_COMPOSITION" ++ nl)
  end.
