(* C09 — link with C05 (universes and FILL): C05 proves, for the chain
   TRCL -> FILL -> inlining of construct_volume_t4, that every located point of a
   filled level-0 cell lies in exactly one returned cell, which carries the
   descent's provenance and the leaf's material and density tokens.  Here C05's
   cell records are read as C09 records (C05 keeps material and density as
   opaque integer tokens; [mat_of] / [dens_of] give their spelling) and the
   result is composed with C09's GEOMCOMP and COMPOSITION theorems.

   Nothing of C05 is modified; only theorems of coq/Properties/C05.v and
   definitions of coq/C05/{Model,Spec,Proofs}.v are used. *)
From Coq Require Import List ZArith Bool String.
From T4V Require C05.Model C05.Spec C05.Proofs Properties.C05.
From T4V Require Import Base.Str C09.Model C09.Spec C09.ProofsNorm C09.ProofsFill C09.ProofsComp.
Import ListNotations.
Open Scope Z_scope.

Module M5 := T4V.C05.Model.
Module S5 := T4V.C05.Spec.
Module P5 := T4V.C05.Proofs.
Module T5 := T4V.Properties.C05.

(* ---- small list facts ---- *)
Lemma Forall2_pick {A B} (R V : A -> B -> Prop) l1 l2 y :
  Forall2 R l1 l2 -> Forall2 V l1 l2 -> In y l2 -> exists x, In x l1 /\ R x y /\ V x y.
Proof.
  intros HR. revert V. induction HR as [|a b l1 l2 Hab _ IH]; intros V HV Hin; [destruct Hin|].
  inversion HV as [|? ? ? ? Hv HV']; subst. destruct Hin as [<-|Hin].
  - exists a. split; [now left | auto].
  - destruct (IH V HV' Hin) as [x [H1 H2]]. exists x. split; [now right | exact H2].
Qed.

Lemma Forall2_pick_pair {A B} (R : A -> B -> Prop) l1 l2 a b :
  Forall2 R l1 l2 -> In (a, b) (combine l1 l2) -> R a b.
Proof.
  intros H. induction H as [|x y l1 l2 Hxy _ IH]; simpl; [tauto|].
  intros [E|Hin]; [inversion E; subst; exact Hxy | auto].
Qed.

Lemma dget_keys {V} k (d : list (Z * V)) : In k (map fst d) -> exists v, M5.dget k d = Some v.
Proof.
  induction d as [|[k' v] r IH]; simpl; [tauto|]. intros [->|Hin].
  - rewrite Z.eqb_refl. eauto.
  - destruct (k =? k'); eauto.
Qed.

Lemma dget_in_keys {V} k (v : V) d : M5.dget k d = Some v -> In k (map fst d).
Proof. intros H. apply P5.dget_In in H. apply in_map_iff. exists (k, v). auto. Qed.

(* the provenance of a descent of two or more cells starts with its last cell *)
Lemma prov_head : forall ch a b rest, S5.prov ch = (a, b) :: rest -> a = last ch 0.
Proof.
  induction ch as [|k r IH]; intros a b rest H; [discriminate|].
  destruct r as [|c r'].
  - discriminate.
  - rewrite (P5.prov_cons_ne k (c :: r') ltac:(discriminate)) in H.
    destruct (S5.prov (c :: r')) as [|[a' b'] t] eqn:E.
    + simpl in H. inversion H. reflexivity.
    + simpl in H. inversion H; subst. apply (IH a b t eq_refl).
Qed.

Section Link.
  Variables (T surf P : Type).
  Variable tr_empty : T -> bool.
  Variable teqb : T -> T -> bool.
  Variable tr_surf : T -> surf -> surf.
  Variable inv : T -> P -> P.
  Variable sense : surf -> P -> bool.
  Hypothesis Hsense : T5.sense_law tr_surf inv sense.
  Hypothesis Hkey : T5.key_law tr_empty teqb inv.

  (* the spelling of C05's opaque material and density tokens *)
  Variable mat_of : Z -> string.
  Variable dens_of : Z -> option string.

  Definition bridge (cl : M5.cell T) : cell :=
    mkCell (mat_of (M5.c_mat cl)) (dens_of (M5.c_rho cl)) (M5.c_imp cl) (M5.c_univ cl)
           (M5.c_fill cl) (M5.c_orig cl).

  Definition bridge_cells (d : list (Z * M5.cell T)) : dict cell :=
    map (fun kc => (fst kc, bridge (snd kc))) d.

  Lemma lookup_bridge k d : lookup k (bridge_cells d) = option_map bridge (M5.dget k d).
  Proof.
    induction d as [|[k' v] r IH]; simpl; [reflexivity|]. destruct (k =? k'); [reflexivity | exact IH].
  Qed.

  (* the chain TRCL -> FILL -> inlining keeps every parsed cell, with its fields *)
  Lemma pipeline_keeps_cells fuel cf ifd ifg num den (s0 s1 s2 : M5.state T surf) rs cells3 :
    P5.fresh_ok T surf s0 -> M5.s_cache s0 = [] -> NoDup (map fst (M5.s_cells s0)) ->
    P5.all_ref_free T surf s0 ->
    (forall c cl, M5.dget c (M5.s_cells s0) = Some cl -> M5.c_orig cl = []) ->
    M5.trcl_phase T surf tr_empty teqb tr_surf fuel (map fst (M5.s_cells s0)) s0 = M5.Ok s1 ->
    M5.fill_phase T surf tr_empty teqb tr_surf fuel cf ifd ifg s1 = M5.Ok (rs, s2) ->
    M5.inline_cells T fuel num den (M5.s_cells s2) = M5.Ok cells3 ->
    forall k cl, M5.dget k (M5.s_cells s0) = Some cl ->
      exists g, M5.dget k cells3 = Some (M5.with_geom cl g).
  Proof.
    intros Hf Hc Hnd Hrf Ho Ht Hfill Hin k cl Hk.
    destruct (T5.C05_trcl_phase_den T surf P tr_empty teqb tr_surf inv sense Hsense Hkey
                fuel _ s0 s1 Hf Hc Hnd Hrf Ht) as [Hf1 [Hc1 [_ [_ [Hkeep Hother]]]]].
    assert (Ho1 : forall c cl1, M5.dget c (M5.s_cells s1) = Some cl1 -> M5.c_orig cl1 = []).
    { intros c cl1 Hc1'. destruct (in_dec Z.eq_dec c (map fst (M5.s_cells s0))) as [Hi|Hi].
      - destruct (dget_keys c _ Hi) as [cl0 Hcl0].
        destruct (Hkeep c cl0 Hi Hcl0) as [g' [Hg' _]]. rewrite Hg' in Hc1'. inversion Hc1'; subst.
        simpl. eapply Ho; eauto.
      - rewrite (Hother c Hi) in Hc1'. eapply Ho; eauto. }
    destruct (T5.C05_fill_phase_located T surf P tr_empty teqb tr_surf inv sense Hsense Hkey
                fuel cf ifd ifg s1 rs s2 Hf1 Hc1 Ho1 Hfill) as [[Hx _] _].
    destruct (Hkeep k cl (dget_in_keys k cl _ Hk) Hk) as [g1 [Hg1 _]].
    pose proof (Hx _ _ Hg1) as H2.
    destruct (T5.C05_inline_cells_den T surf P sense fuel num den s2 cells3 Hin) as [_ Hfields].
    destruct (Hfields _ _ H2) as [g3 Hg3]. exists g3. rewrite Hg3. destruct cl; reflexivity.
  Qed.

  (* the core: the volume hypothesis is only needed for a cell that contains the point *)
  Lemma point_core :
    forall fuel cf ifd ifg num den (s0 s1 s2 : M5.state T surf) rs cells3,
    P5.fresh_ok T surf s0 -> M5.s_cache s0 = [] -> NoDup (map fst (M5.s_cells s0)) ->
    P5.all_ref_free T surf s0 ->
    (forall c cl, M5.dget c (M5.s_cells s0) = Some cl -> M5.c_orig cl = []) ->
    M5.trcl_phase T surf tr_empty teqb tr_surf fuel (map fst (M5.s_cells s0)) s0 = M5.Ok s1 ->
    M5.fill_phase T surf tr_empty teqb tr_surf fuel cf ifd ifg s1 = M5.Ok (rs, s2) ->
    M5.inline_cells T fuel num den (M5.s_cells s2) = M5.Ok cells3 ->
    (* a filled level-0 cell and the cells returned for it *)
    forall key ks, In (key, ks) (combine (M5.fill_keys (M5.s_cells s0)) rs) ->
    (* every returned cell has an emitted volume that carries the cell's idorigin *)
    forall vols g p,
    (forall k, In k ks ->
       S5.Den T surf P sense (P5.set_cells T surf s2 cells3) p (M5.TRef k) true ->
       exists v ncl, In (k, v) vols /\ v_fictive v = false /\
                     M5.dget k cells3 = Some ncl /\ v_origin v = M5.c_orig ncl) ->
    geomcomp vols (bridge_cells cells3) = Ok g ->
    (* the point is located, in the deck as written, along the descent ch below key *)
    forall ch,
    S5.LocW T surf P tr_empty inv sense s0 (M5.by_universe (M5.s_cells s0)) key p ch true ->
    exists k ncl lcl z,
      In k ks /\
      (* the returned cell (volume) k contains the point ... *)
      S5.Den T surf P sense (P5.set_cells T surf s2 cells3) p (M5.TRef k) true /\
      M5.dget k cells3 = Some ncl /\ M5.c_orig ncl = S5.prov ch /\
      (* ... lcl is the innermost filler of the descent ... *)
      M5.dget (last ch 0) (M5.s_cells s0) = Some lcl /\
      (* ... and k is on the GEOMCOMP line named after lcl's material number and density *)
      int_of_token (mat_of (M5.c_mat lcl)) = Some z /\
      member g (material_name z (bridge lcl)) k /\
      (* ... whose composition is written when the cell is live and not void *)
      (forall l d, comp_names z (bridge_cells cells3) = Ok l -> dens_normal (bridge_cells cells3) ->
                   live (bridge ncl) = true -> dens_of (M5.c_rho lcl) = Some d ->
                   In ("m" ++ material_name z (bridge lcl))%string l) /\
      (* and (universes being partitions) the cells of the other descents are false at p *)
      (exists chs, Forall2 (S5.VerdictW T surf P tr_empty inv sense s0
                              (M5.by_universe (M5.s_cells s0)) (P5.set_cells T surf s2 cells3) key p ch)
                           ks chs).
  Proof.
    intros fuel cf ifd ifg num den s0 s1 s2 rs cells3 Hf Hc Hnd Hrf Ho Ht Hfill Hinl
           key ks Hpair vols g p Hvols Hg ch Hloc.
    pose proof (T5.C05_pipeline_located T surf P tr_empty teqb tr_surf inv sense Hsense Hkey
                  fuel cf ifd ifg num den s0 s1 s2 rs cells3 Hf Hc Hnd Hrf Ho Ht Hfill Hinl) as HO.
    pose proof (Forall2_pick_pair _ _ _ key ks HO Hpair) as [chs [_ [HR HV]]].
    destruct (HV p ch Hloc) as [Hin HVer].
    destruct (Forall2_pick _ _ ks chs ch HR HVer Hin) as [k [Hk [Hrep Hver]]].
    destruct Hrep as [ncl [lcl [H1 [H2 [H3 [H4 [H5 [H6 _]]]]]]]].
    change (M5.s_cells (P5.set_cells T surf s2 cells3)) with cells3 in H1.
    destruct (Hvols k Hk (proj1 Hver eq_refl)) as [v [ncl' [Hv1 [Hv2 [Hv3 Hv4]]]]].
    rewrite H1 in Hv3. inversion Hv3; subst ncl'. clear Hv3.
    destruct (geomcomp_name vols (bridge_cells cells3) g Hg) as [A _].
    destruct (A k v Hv1 Hv2) as [c [z [Hc1 [Hz Hm]]]].
    (* the cell GEOMCOMP looks at has lcl's material and density tokens *)
    assert (Hcm : c_mat c = mat_of (M5.c_mat lcl) /\ c_dens c = dens_of (M5.c_rho lcl)).
    { unfold vol_source in Hc1. rewrite Hv4, H4 in Hc1.
      destruct (S5.prov ch) as [|[a b] rest] eqn:Ep.
      - rewrite lookup_bridge, H1 in Hc1. inversion Hc1; subst c. simpl. now rewrite H5, H6.
      - pose proof (prov_head ch a b rest Ep) as Ha. subst a.
        destruct (pipeline_keeps_cells fuel cf ifd ifg num den s0 s1 s2 rs cells3
                    Hf Hc Hnd Hrf Ho Ht Hfill Hinl _ _ H2) as [g3 Hg3].
        rewrite lookup_bridge, Hg3 in Hc1. inversion Hc1; subst c. split; reflexivity. }
    destruct Hcm as [Hcm Hcd].
    assert (Hname : material_name z c = material_name z (bridge lcl)).
    { unfold material_name. now rewrite Hcd. }
    exists k, ncl, lcl, z. split; [exact Hk|]. split; [apply Hver; reflexivity|].
    split; [exact H1|]. split; [exact H4|]. split; [exact H2|].
    split; [now rewrite <- Hcm|]. split; [now rewrite <- Hname|]. split; [|exists chs; exact HVer].
    intros l d Hl Hn Hlive Hd.
    assert (Hb : material_name z (bridge lcl) = material_name z (bridge ncl)).
    { unfold material_name, bridge. simpl. now rewrite H6. }
    rewrite Hb.
    apply (geomcomp_name_has_composition z (bridge_cells cells3) l k (bridge ncl) d Hl Hn).
    - apply lookup_in. now rewrite lookup_bridge, H1.
    - exact Hlive.
    - simpl. rewrite H5. now rewrite <- Hcm.
    - simpl. now rewrite H6.
  Qed.
  (* the statement of round 2 *)
  Theorem point_gets_leaf_material_linked :
    forall fuel cf ifd ifg num den (s0 s1 s2 : M5.state T surf) rs cells3,
    P5.fresh_ok T surf s0 -> M5.s_cache s0 = [] -> NoDup (map fst (M5.s_cells s0)) ->
    P5.all_ref_free T surf s0 ->
    (forall c cl, M5.dget c (M5.s_cells s0) = Some cl -> M5.c_orig cl = []) ->
    M5.trcl_phase T surf tr_empty teqb tr_surf fuel (map fst (M5.s_cells s0)) s0 = M5.Ok s1 ->
    M5.fill_phase T surf tr_empty teqb tr_surf fuel cf ifd ifg s1 = M5.Ok (rs, s2) ->
    M5.inline_cells T fuel num den (M5.s_cells s2) = M5.Ok cells3 ->
    forall key ks, In (key, ks) (combine (M5.fill_keys (M5.s_cells s0)) rs) ->
    forall vols g,
    (forall k, In k ks -> exists v ncl, In (k, v) vols /\ v_fictive v = false /\
                                        M5.dget k cells3 = Some ncl /\ v_origin v = M5.c_orig ncl) ->
    geomcomp vols (bridge_cells cells3) = Ok g ->
    forall p ch,
    S5.LocW T surf P tr_empty inv sense s0 (M5.by_universe (M5.s_cells s0)) key p ch true ->
    exists k ncl lcl z,
      In k ks /\
      S5.Den T surf P sense (P5.set_cells T surf s2 cells3) p (M5.TRef k) true /\
      M5.dget k cells3 = Some ncl /\ M5.c_orig ncl = S5.prov ch /\
      M5.dget (last ch 0) (M5.s_cells s0) = Some lcl /\
      int_of_token (mat_of (M5.c_mat lcl)) = Some z /\
      member g (material_name z (bridge lcl)) k /\
      (forall l d, comp_names z (bridge_cells cells3) = Ok l -> dens_normal (bridge_cells cells3) ->
                   live (bridge ncl) = true -> dens_of (M5.c_rho lcl) = Some d ->
                   In ("m" ++ material_name z (bridge lcl))%string l) /\
      (exists chs, Forall2 (S5.VerdictW T surf P tr_empty inv sense s0
                              (M5.by_universe (M5.s_cells s0)) (P5.set_cells T surf s2 cells3) key p ch)
                           ks chs).
  Proof.
    intros fuel cf ifd ifg num den s0 s1 s2 rs cells3 Hf Hc Hnd Hrf Ho Ht Hfill Hinl
           key ks Hpair vols g Hvols Hg p ch Hloc.
    apply (point_core fuel cf ifd ifg num den s0 s1 s2 rs cells3 Hf Hc Hnd Hrf Ho Ht Hfill Hinl
             key ks Hpair vols g p (fun k Hk _ => Hvols k Hk) Hg ch Hloc).
  Qed.

  (* ---- the returned cells are live when their container is ---- *)
  Lemma in_dget_nodup {V} k (v : V) d : NoDup (map fst d) -> In (k, v) d -> M5.dget k d = Some v.
  Proof.
    induction d as [|[k' v'] r IH]; simpl; intros Hnd H; [tauto|].
    inversion Hnd as [|? ? Hk Hr]; subst. destruct H as [H|H].
    - inversion H; subst. now rewrite Z.eqb_refl.
    - destruct (k =? k') eqn:E; [|auto]. apply Z.eqb_eq in E. subst k'.
      elim Hk. apply in_map_iff. exists (k, v). auto.
  Qed.

  Lemma fill_keys_univ0 (cells : list (Z * M5.cell T)) key :
    NoDup (map fst cells) -> In key (M5.fill_keys cells) ->
    exists cl, M5.dget key cells = Some cl /\ M5.c_univ cl = 0.
  Proof.
    unfold M5.fill_keys. intros Hnd H. apply in_map_iff in H. destruct H as [[k cl] [E H]].
    simpl in E. subst k. apply filter_In in H. destruct H as [Hin Hf]. simpl in Hf.
    apply andb_true_iff in Hf. destruct Hf as [_ Hu]. apply Z.eqb_eq in Hu.
    exists cl. split; [now apply in_dget_nodup | exact Hu].
  Qed.

  Lemma Forall2_In_l' {A B} (R : A -> B -> Prop) l m a :
    Forall2 R l m -> In a l -> exists b, In b m /\ R a b.
  Proof.
    intros H. induction H as [|x y l m Hxy _ IH]; simpl; [tauto|].
    intros [<-|Hin]; [exists y; auto|]. destruct (IH Hin) as [b [Hb Hr]]. exists b. auto.
  Qed.

  Lemma returned_cells_live :
    forall fuel cf ifd ifg num den (s0 s1 s2 : M5.state T surf) rs cells3,
    P5.fresh_ok T surf s0 -> M5.s_cache s0 = [] -> NoDup (map fst (M5.s_cells s0)) ->
    P5.all_ref_free T surf s0 ->
    (forall c cl, M5.dget c (M5.s_cells s0) = Some cl -> M5.c_orig cl = []) ->
    M5.trcl_phase T surf tr_empty teqb tr_surf fuel (map fst (M5.s_cells s0)) s0 = M5.Ok s1 ->
    M5.fill_phase T surf tr_empty teqb tr_surf fuel cf ifd ifg s1 = M5.Ok (rs, s2) ->
    M5.inline_cells T fuel num den (M5.s_cells s2) = M5.Ok cells3 ->
    forall key ks kcl, In (key, ks) (combine (M5.fill_keys (M5.s_cells s0)) rs) ->
    M5.dget key (M5.s_cells s0) = Some kcl -> 0 < M5.c_imp kcl ->
    forall k, In k ks -> exists ncl, M5.dget k cells3 = Some ncl /\ live (bridge ncl) = true.
  Proof.
    intros fuel cf ifd ifg num den s0 s1 s2 rs cells3 Hf Hc Hnd Hrf Ho Ht Hfill Hinl
           key ks kcl Hpair Hkcl Himp k Hk.
    destruct (T5.C05_trcl_phase_den T surf P tr_empty teqb tr_surf inv sense Hsense Hkey
                fuel _ s0 s1 Hf Hc Hnd Hrf Ht) as [Hf1 [Hc1 [_ [_ [Hkeep Hother]]]]].
    assert (Ho1 : forall c cl1, M5.dget c (M5.s_cells s1) = Some cl1 -> M5.c_orig cl1 = []).
    { intros c cl1 Hc1'. destruct (in_dec Z.eq_dec c (map fst (M5.s_cells s0))) as [Hi|Hi].
      - destruct (dget_keys c _ Hi) as [cl0 Hcl0].
        destruct (Hkeep c cl0 Hi Hcl0) as [g' [Hg' _]]. rewrite Hg' in Hc1'. inversion Hc1'; subst.
        simpl. eapply Ho; eauto.
      - rewrite (Hother c Hi) in Hc1'. eapply Ho; eauto. }
    destruct (P5.fill_phase_spec T surf P tr_empty teqb tr_surf inv sense Hsense Hkey
                fuel cf ifd ifg s1 rs s2 Hf1 Hc1 Ho1 Hfill) as [_ [_ HF]].
    rewrite (P5.fill_keys_sk T _ _ (P5.trcl_phase_sk T surf tr_empty teqb tr_surf fuel _ s0 s1 Hrf Ht)) in HF.
    destruct (Forall2_pick_pair _ _ _ key ks HF Hpair) as [chs [_ HG]].
    destruct (Forall2_In_l' _ _ _ k HG Hk) as [ch [_ G]].
    destruct G as (ncl & lcl & kcl1 & r & _ & H2 & _ & H4 & H5 & _ & _ & _ & _ & H10 & H11 & _).
    destruct (Hkeep key kcl (dget_in_keys key kcl _ Hkcl) Hkcl) as [g1 [Hg1 _]].
    rewrite Hg1 in H4. inversion H4; subst kcl1. simpl in H10, H11.
    destruct (fill_keys_univ0 _ key Hnd (in_combine_l _ _ _ _ Hpair)) as [kcl' [Hk' Hu]].
    rewrite Hkcl in Hk'. inversion Hk'; subst kcl'.
    destruct (P5.inline_cells_fields T fuel num den _ _ Hinl k ncl H2) as [g3 Hg3].
    exists (M5.with_geom ncl g3). split; [exact Hg3|].
    unfold live, bridge. simpl. rewrite H5, H10, H11, Hu. simpl.
    destruct (M5.c_imp kcl <=? 0) eqn:E; [apply Z.leb_le in E; exfalso; auto with zarith | reflexivity].
  Qed.

  (* round 3: no hypothesis on the returned cell; the volume table in the shape C01_cells
     gives it (a returned cell has a non-virtual volume with its idorigin, or is empty) *)
  Theorem point_composition_written_linked :
    forall fuel cf ifd ifg num den (s0 s1 s2 : M5.state T surf) rs cells3,
    P5.fresh_ok T surf s0 -> M5.s_cache s0 = [] -> NoDup (map fst (M5.s_cells s0)) ->
    P5.all_ref_free T surf s0 ->
    (forall c cl, M5.dget c (M5.s_cells s0) = Some cl -> M5.c_orig cl = []) ->
    M5.trcl_phase T surf tr_empty teqb tr_surf fuel (map fst (M5.s_cells s0)) s0 = M5.Ok s1 ->
    M5.fill_phase T surf tr_empty teqb tr_surf fuel cf ifd ifg s1 = M5.Ok (rs, s2) ->
    M5.inline_cells T fuel num den (M5.s_cells s2) = M5.Ok cells3 ->
    (* a filled level-0 cell of positive importance and the cells returned for it *)
    forall key ks kcl, In (key, ks) (combine (M5.fill_keys (M5.s_cells s0)) rs) ->
    M5.dget key (M5.s_cells s0) = Some kcl -> 0 < M5.c_imp kcl ->
    forall vols g,
    (forall k, In k ks ->
       (exists v ncl, In (k, v) vols /\ v_fictive v = false /\
                      M5.dget k cells3 = Some ncl /\ v_origin v = M5.c_orig ncl) \/
       (forall q, ~ S5.Den T surf P sense (P5.set_cells T surf s2 cells3) q (M5.TRef k) true)) ->
    geomcomp vols (bridge_cells cells3) = Ok g ->
    forall p ch,
    S5.LocW T surf P tr_empty inv sense s0 (M5.by_universe (M5.s_cells s0)) key p ch true ->
    exists k lcl z,
      In k ks /\
      S5.Den T surf P sense (P5.set_cells T surf s2 cells3) p (M5.TRef k) true /\
      M5.dget (last ch 0) (M5.s_cells s0) = Some lcl /\
      int_of_token (mat_of (M5.c_mat lcl)) = Some z /\
      member g (material_name z (bridge lcl)) k /\
      (forall l d, comp_names z (bridge_cells cells3) = Ok l -> dens_normal (bridge_cells cells3) ->
                   dens_of (M5.c_rho lcl) = Some d ->
                   In ("m" ++ material_name z (bridge lcl))%string l).
  Proof.
    intros fuel cf ifd ifg num den s0 s1 s2 rs cells3 Hf Hc Hnd Hrf Ho Ht Hfill Hinl
           key ks kcl Hpair Hkcl Himp vols g Hvols Hg p ch Hloc.
    assert (Hv' : forall k, In k ks ->
              S5.Den T surf P sense (P5.set_cells T surf s2 cells3) p (M5.TRef k) true ->
              exists v ncl, In (k, v) vols /\ v_fictive v = false /\
                            M5.dget k cells3 = Some ncl /\ v_origin v = M5.c_orig ncl).
    { intros k Hk HD. destruct (Hvols k Hk) as [H|H]; [exact H | elim (H p HD)]. }
    destruct (point_core fuel cf ifd ifg num den s0 s1 s2 rs cells3 Hf Hc Hnd Hrf Ho Ht Hfill Hinl
                key ks Hpair vols g p Hv' Hg ch Hloc)
      as (k & ncl & lcl & z & Hk & HD & Hn & _ & Hl & Hz & Hm & Hcomp & _).
    exists k, lcl, z. repeat (split; [assumption|]).
    intros l d Hl' Hdn Hd.
    destruct (returned_cells_live fuel cf ifd ifg num den s0 s1 s2 rs cells3 Hf Hc Hnd Hrf Ho Ht Hfill Hinl
                key ks kcl Hpair Hkcl Himp k Hk) as [ncl' [Hn' Hlive]].
    rewrite Hn in Hn'. inversion Hn'; subst ncl'.
    exact (Hcomp l d Hl' Hdn Hlive Hd).
  Qed.
End Link.
