(* C09 — the COMPOSITION block as written: one block per (material card,
   stored density) asked for by a live level-0 cell, in card order; the count
   line is the number of blocks plus the void composition m0. *)
From Coq Require Import List NArith ZArith Bool String Ascii Lia.
From T4V Require Import Base.Str C09.Model C09.Spec C09.ProofsNorm C09.ProofsComp.
Import ListNotations.
Open Scope list_scope.

(* comp_scan is comp_dens with the name prefix *)
Lemma comp_scan_dens key : forall cells seen,
  comp_scan key cells seen =
  match comp_dens key cells seen with
  | Ok l => Ok (map (fun nd => ("m" ++ dec_Z key ++ "_" ++ nd)%string) l)
  | Err e => Err e
  end.
Proof.
  induction cells as [|[k c] r IH]; intros seen; simpl; [reflexivity|].
  destruct (negb (live c)); [apply IH|].
  destruct (int_of_token (c_mat c)) as [m|]; [|reflexivity].
  destruct (negb (m =? key)%Z); [apply IH|].
  destruct (c_dens c) as [d|]; [|reflexivity].
  destruct (mem_string d seen); [apply IH|].
  destruct (normalize_float d) as [nd|]; [|reflexivity].
  destruct (float_ok nd); [|reflexivity].
  rewrite IH. destruct (comp_dens key r (d :: seen)); reflexivity.
Qed.

Lemma map_prefix_inj (p : string) l1 l2 :
  map (fun d => (p ++ d)%string) l1 = map (fun d => (p ++ d)%string) l2 -> l1 = l2.
Proof.
  revert l2. induction l1 as [|a l1 IH]; intros [|b l2] H; simpl in H; try discriminate; [reflexivity|].
  inversion H as [[Ha Hl]]. apply sapp_inj_l in Ha. subst. f_equal. auto.
Qed.

(* the densities of one card: each stored density asked for, once *)
Lemma comp_dens_spec key cells ds :
  comp_dens key cells [] = Ok ds -> dens_normal cells ->
  NoDup ds /\ forall d, In d ds <-> asks key cells d.
Proof.
  intros H Hn.
  assert (Hc : comp_names key cells = Ok (map (fun d => (comp_prefix key ++ d)%string) ds)).
  { unfold comp_names. rewrite comp_scan_dens, H. f_equal. apply map_ext. intros d.
    unfold comp_prefix. simpl. now rewrite sapp_assoc. }
  destruct (comp_names_spec key cells _ Hc Hn) as [S N]. split.
  - clear -N. induction ds as [|d ds IH]; [constructor|]. simpl in N. inversion N as [|? ? Hd Hr]; subst.
    constructor; [|auto]. intros Hin. apply Hd. apply in_map_iff. exists d. auto.
  - intros d. split.
    + intros Hin. destruct (proj1 (S (comp_prefix key ++ d)%string)) as [d' [Ha He]].
      * apply in_map_iff. exists d. auto.
      * apply sapp_inj_l in He. now subst.
    + intros Ha. pose proof (proj2 (S (comp_prefix key ++ d)%string) (ex_intro _ d (conj Ha eq_refl))) as Hin.
      apply in_map_iff in Hin. destruct Hin as [d' [He Hin]]. apply sapp_inj_l in He. now subst.
Qed.

(* the blocks of all cards *)
Fixpoint blocks_of (mcs : list mcard) (dss : list (list string)) (pw : list (string * list (string * string)))
  : list string :=
  match mcs, dss with
  | mc :: r, ds :: t => map (block_text mc pw) ds ++ blocks_of r t pw
  | _, _ => []
  end.

Lemma all_blocks_spec cells pw : dens_normal cells -> forall mcs blocks,
  all_blocks mcs cells pw = Ok blocks ->
  exists dss, Forall2 (fun mc ds => NoDup ds /\ forall d, In d ds <-> asks (k_key mc) cells d) mcs dss /\
              blocks = blocks_of mcs dss pw /\
              List.length blocks = List.length (List.concat dss).
Proof.
  intros Hn. induction mcs as [|mc r IH]; intros blocks H; simpl in H.
  - inversion H; subst. exists []. repeat split; constructor.
  - destruct (comp_dens (k_key mc) cells []) as [ds|] eqn:Ed; [|discriminate].
    destruct (all_blocks r cells pw) as [t|] eqn:Er; [|discriminate].
    inversion H; subst blocks. destruct (IH t eq_refl) as [dss [F [Hb Hl]]].
    exists (ds :: dss). split; [|split].
    + constructor; [now apply comp_dens_spec | exact F].
    + simpl. now rewrite Hb.
    + simpl. rewrite !app_length, map_length, Hl. reflexivity.
Qed.

(* every block starts with its type, the temperature and the composition name *)
Lemma block_text_head mc pw nd :
  exists typ rest, (typ = "DENSITY" \/ typ = "POINT_WISE")%string /\
    block_text mc pw nd = (typ ++ " 300 m" ++ dec_Z (k_key mc) ++ "_" ++ nd ++ " " ++ rest)%string.
Proof.
  unfold block_text. destruct (neg_density nd).
  - eexists "DENSITY"%string, _. split; [now left|]. simpl. rewrite !sapp_assoc. reflexivity.
  - eexists "POINT_WISE"%string, _. split; [now right|]. simpl. rewrite !sapp_assoc. reflexivity.
Qed.

(* what is written: the count line is the number of (card, density) pairs asked
   for by live cells plus one (m0); one block per pair, in card order, then m0 *)
Theorem write_compositions_spec mcs cells pw text :
  write_compositions mcs cells pw = Ok text -> dens_normal cells ->
  exists dss,
    Forall2 (fun mc ds => NoDup ds /\ forall d, In d ds <-> asks (k_key mc) cells d) mcs dss /\
    text = (nl ++ "COMPOSITION" ++ nl ++ dec (N.of_nat (List.length (List.concat dss)) + 1) ++ nl ++
            concat_str (blocks_of mcs dss pw) ++
            "POINT_WISE 300 m0 1" ++ nl ++ "  HE4 1E-30" ++ nl ++ nl ++ "END_COMPOSITION" ++ nl)%string /\
    List.length (blocks_of mcs dss pw) = List.length (List.concat dss).
Proof.
  unfold write_compositions. intros H Hn.
  destruct (all_blocks mcs cells pw) as [blocks|] eqn:Eb; [|discriminate].
  destruct (all_blocks_spec cells pw Hn mcs blocks Eb) as [dss [F [Hb Hl]]].
  exists dss. split; [exact F|]. inversion H. subst blocks. split; [now rewrite Hl | exact Hl].
Qed.

(* ---- a composition that is asked for is written ---- *)
Lemma concat_str_app a b : concat_str (a ++ b) = (concat_str a ++ concat_str b)%string.
Proof. induction a as [|x a IH]; simpl; [reflexivity | now rewrite IH, sapp_assoc]. Qed.

Lemma blocks_of_in mcs dss pw cells mc d :
  Forall2 (fun mc ds => NoDup ds /\ forall d, In d ds <-> asks (k_key mc) cells d) mcs dss ->
  In mc mcs -> asks (k_key mc) cells d -> In (block_text mc pw d) (blocks_of mcs dss pw).
Proof.
  intros F. induction F as [|m ds mcs dss [_ Hds] _ IH]; intros Hin Ha; [destruct Hin|].
  simpl. apply in_or_app. destruct Hin as [->|Hin].
  - left. apply in_map. now apply Hds.
  - right. auto.
Qed.

Lemma split5 (a b c d e L1 x L2 tr : string) :
  (a ++ b ++ c ++ d ++ e ++ (L1 ++ x ++ L2) ++ tr = (a ++ b ++ c ++ d ++ e ++ L1) ++ x ++ L2 ++ tr)%string.
Proof. rewrite !sapp_assoc. reflexivity. Qed.

(* the text holds the block of every (card, density) pair a live cell asks for *)
Theorem block_written mcs cells pw text mc d :
  write_compositions mcs cells pw = Ok text -> dens_normal cells ->
  In mc mcs -> asks (k_key mc) cells d ->
  exists pre post, text = (pre ++ block_text mc pw d ++ post)%string.
Proof.
  intros H Hn Hin Ha. destruct (write_compositions_spec mcs cells pw text H Hn) as [dss [F [Ht _]]].
  pose proof (blocks_of_in mcs dss pw cells mc d F Hin Ha) as Hb.
  apply in_split in Hb. destruct Hb as [l1 [l2 Hb]].
  rewrite Hb, concat_str_app in Ht. cbn [concat_str] in Ht. subst text.
  eexists. eexists. apply split5.
Qed.
