(* C09 — what the property text talks about, written without looking at the
   code: the spellings of one decimal number in an MCNP deck (MCNP manual,
   "numbers are read with Fortran E-format conventions": the exponent marker
   may be E, e, D, d or omitted when the exponent carries a sign; zeros at the
   end of a fraction do not change the number), the value of a spelling as a
   rational, and the reference reading of a universe hierarchy (the cell that
   owns a point at the lowest level is a leaf of the FILL tree). *)
From Coq Require Import List NArith ZArith Bool String Ascii.
From T4V Require Import Base.Str C09.Model.
Import ListNotations.
Open Scope string_scope.

(* ---- spellings of a number ---- *)
Fixpoint zeros (k : nat) : string :=
  match k with O => "" | S k' => String "0" (zeros k') end.

Inductive marker := Me | ME | Md | MD | Mnone.
Definition marker_str (m : marker) : string :=
  match m with Me => "e" | ME => "E" | Md => "d" | MD => "D" | Mnone => "" end.

(* sign, integer digits, fraction digits (None: no decimal point), exponent
   (sign, digits) *)
Record number := mkNumber {
  n_sign : string; n_int : string; n_frac : option string; n_exp : option (string * string) }.

Definition sign_ok (s : string) : bool :=
  String.eqb s "" || String.eqb s "-" || String.eqb s "+".

Definition frac_digits (n : number) : string :=
  match n_frac n with Some f => f | None => "" end.

(* a number: at least one mantissa digit; exponent digits non-empty *)
Definition wf_number (n : number) : bool :=
  sign_ok (n_sign n) && all_digits (n_int n) && all_digits (frac_digits n) &&
  (nonempty (n_int n) || nonempty (frac_digits n)) &&
  match n_exp n with
  | Some (es, ed) => sign_ok es && nonempty ed && all_digits ed
  | None => true
  end.

(* the marker may be left out only in front of a signed exponent *)
Definition marker_ok (n : number) (m : marker) : bool :=
  match n_exp n, m with
  | Some (es, _), Mnone => nonempty es
  | _, _ => true
  end.

Definition frac_str (n : number) (pad : nat) : string :=
  match n_frac n with Some f => "." ++ f ++ zeros pad | None => "" end.

Definition exp_str (n : number) (mk : string) : string :=
  match n_exp n with Some (es, ed) => mk ++ es ++ ed | None => "" end.

(* the spelling with [pad] zeros appended to the fraction and marker [m] *)
Definition spell (n : number) (pad : nat) (m : marker) : string :=
  n_sign n ++ n_int n ++ frac_str n pad ++ exp_str n (marker_str m).

(* ---- reference reading of a FILL hierarchy ---- *)
(* the cells that own points at the lowest level below [key]: depth first, in
   the order of the universe's cell list *)
Fixpoint flat_map_res {A} (f : Z -> res (list A)) (l : list Z) : res (list A) :=
  match l with
  | [] => Ok []
  | e :: r => match f e with
              | Err x => Err x
              | Ok l1 => match flat_map_res f r with
                         | Err x => Err x
                         | Ok l2 => Ok (l1 ++ l2)%list
                         end
              end
  end.

Fixpoint leaves (fuel : nat) (byu : Z -> list Z) (d : dict cell) (key : Z) : res (list Z) :=
  match fuel with
  | O => Err EFuel
  | S f =>
      match lookup key d with
      | None => Err EKey
      | Some c =>
          match c_fill c with
          | None => Ok [key]
          | Some u => flat_map_res (leaves f byu d) (byu u)
          end
      end
  end.

(* ---- value of a number ---- *)
From Coq Require Import QArith Qpower.

Definition digits_Z (s : string) : Z := Z.of_N (parse_digits s 0).

Definition sign_Q (sg : string) : Q := if String.eqb sg "-" then (-1 # 1) else (1 # 1).

Definition exp_Z (e : option (string * string)) : Z :=
  match e with
  | None => 0%Z
  | Some (es, ed) => if String.eqb es "-" then (- digits_Z ed)%Z else digits_Z ed
  end.

(* sign * (all mantissa digits read as an integer) * 10^(exponent - number of
   fraction digits) *)
Definition number_value (n : number) : Q :=
  sign_Q (n_sign n) * inject_Z (digits_Z (n_int n ++ frac_digits n)) *
  Qpower (10 # 1) (exp_Z (n_exp n) - Z.of_nat (String.length (frac_digits n))).
