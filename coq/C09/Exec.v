(* C09 — executable comparison functions used by the generated correspondence
   files (model vs values observed on the implementation). *)
From Coq Require Import List NArith ZArith Bool String Ascii.
From Coq Require Uint63.
From T4V Require Import Base.Str Base.Cases C09.Model.
Import ListNotations.
Open Scope string_scope.

Definition err_eqb (a b : err) : bool :=
  match a, b with
  | EIndex, EIndex | EValue, EValue | EKey, EKey | EType, EType | EFuel, EFuel => true
  | _, _ => false
  end.

Definition res_eqb {A} (e : A -> A -> bool) (a b : res A) : bool :=
  match a, b with
  | Ok x, Ok y => e x y
  | Err x, Err y => err_eqb x y
  | _, _ => false
  end.

(* ---- normalize_float: explicit cases ---- *)
(* (input, normalize_float(input) or the exception, float() accepts the result) *)
Definition norm_out (s : string) : res (string * bool) :=
  match normalize_float s with
  | Ok n => Ok (n, float_ok n)
  | Err e => Err e
  end.

Definition check_norm (c : string * res (string * bool)) : bool :=
  res_eqb (pair_eqb String.eqb Bool.eqb) (norm_out (fst c)) (snd c).

(* only the string (inputs outside the alphabet on which float_ok is tied) *)
Definition check_norm_str (c : string * res string) : bool :=
  res_eqb String.eqb (normalize_float (fst c)) (snd c).

(* ---- normalize_float: exhaustive enumeration with bucketed fingerprints ---- *)
Definition alphabet : list ascii := ["0"; "1"; "2"; "."; "-"; "+"; "e"; "d"]%char.
(* second domain: upper-case markers, another digit *)
Definition alphabet_b : list ascii := ["0"; "7"; "."; "-"; "+"; "E"; "D"; "d"]%char.

(* all strings of length n over the alphabet *)
Fixpoint words_in (al : list ascii) (n : nat) : list string :=
  match n with
  | O => [""]
  | S m => flat_map (fun c => map (String c) (words_in al m)) al
  end.

Fixpoint words_upto_in (al : list ascii) (n : nat) : list string :=
  match n with
  | O => [""]
  | S m => words_upto_in al m ++ words_in al (S m)
  end.

Definition words := words_in alphabet.
Definition words_upto := words_upto_in alphabet.

Import Uint63.
Open Scope uint63_scope.

(* h <- h * 1000003 + code, modulo 2^63 *)
Fixpoint hash_string (s : string) (h : int) : int :=
  match s with
  | EmptyString => h
  | String c r => hash_string r (h * 1000003 + of_Z (Z.of_N (N_of_ascii c)))
  end.

Definition hash_case (s : string) : int :=
  let h := hash_string s 7 in
  match norm_out s with
  | Ok (n, fl) => hash_string n (h * 1000003 + (if fl then 62 else 33))
  | Err _ => h * 1000003 + 35
  end.

(* sum of the case hashes of prefix ++ w for all words w of length <= n *)
Definition bucket_hash (prefix : string) (n : nat) : int :=
  fold_left (fun acc w => acc + hash_case (prefix ++ w)) (words_upto n) 0.

Definition check_bucket (c : string * nat * int) : bool :=
  let '(prefix, n, expected) := c in eqb (bucket_hash prefix n) expected.

Definition bucket_hash_b (prefix : string) (n : nat) : int :=
  fold_left (fun acc w => acc + hash_case (prefix ++ w)) (words_upto_in alphabet_b n) 0.

Definition check_bucket_b (c : string * nat * int) : bool :=
  let '(prefix, n, expected) := c in eqb (bucket_hash_b prefix n) expected.

Close Scope uint63_scope.

(* ---- parse_material ---- *)
Definition check_parse_material (c : list string * res (string * option string)) : bool :=
  res_eqb (pair_eqb String.eqb (option_eqb String.eqb)) (parse_material (fst c)) (snd c).

(* ---- LIKE n BUT MAT= RHO= ---- *)
Definition check_cell_material
  (c : list string * option string * option string * res (string * option string)) : bool :=
  let '(toks, kmat, krho, expected) := c in
  res_eqb (pair_eqb String.eqb (option_eqb String.eqb)) (cell_material toks kmat krho) expected.

(* ---- LIKE chains ---- *)
Definition check_card_material
  (c : idict card * Z * res (string * option string)) : bool :=
  let '(cards, k, expected) := c in
  match ilookup k cards with
  | None => false
  | Some cd => res_eqb (pair_eqb String.eqb (option_eqb String.eqb))
                 (card_material (S (List.length cards)) cards cd) expected
  end.

(* ---- pot_fill on synthetic dictionaries ---- *)
Definition zpair_eqb (a b : Z * Z) : bool := (fst a =? fst b)%Z && (snd a =? snd b)%Z.

Definition cell_eqb (a b : cell) : bool :=
  String.eqb (c_mat a) (c_mat b) && option_eqb String.eqb (c_dens a) (c_dens b) &&
  (c_imp a =? c_imp b)%Z && (c_univ a =? c_univ b)%Z && option_eqb Z.eqb (c_fill a) (c_fill b) &&
  list_eqb zpair_eqb (c_origin a) (c_origin b).

Definition dict_eqb {A} (e : A -> A -> bool) (a b : dict A) : bool :=
  list_eqb (pair_eqb Z.eqb e) a b.

(* (dictionary, first free key - 1, expected: final dictionary, final
   new_cell_key, per fill key the list pot_fill returned) *)
Definition fill_out := res (dict cell * Z * list Z).

Definition run_treat_fill (d : dict cell) (next : Z) : fill_out :=
  match treat_fill (S (List.length d)) d next with
  | Err e => Err e
  | Ok (d', n', l) => Ok (d', n', l)
  end.

Definition check_fill (c : dict cell * Z * fill_out) : bool :=
  let '(d, next, expected) := c in
  res_eqb (fun x y => let '(d1, n1, l1) := x in let '(d2, n2, l2) := y in
                      dict_eqb cell_eqb d1 d2 && (n1 =? n2)%Z && list_eqb Z.eqb l1 l2)
          (run_treat_fill d next) expected.

(* ---- develop_lattice, material side ---- *)
Definition check_lattice (c : dict cell * Z * Z * list Z * res (dict cell * Z)) : bool :=
  let '(d, next, key, univs, expected) := c in
  res_eqb (fun x y => dict_eqb cell_eqb (fst x) (fst y) && (snd x =? snd y)%Z)
          (develop_lattice (d, next) key univs) expected.

(* ---- GEOMCOMP lines ---- *)
Definition line_eqb (a b : string * N * list Z) : bool :=
  let '(n1, c1, l1) := a in let '(n2, c2, l2) := b in
  String.eqb n1 n2 && (c1 =? c2)%N && list_eqb Z.eqb l1 l2.

Definition check_geomcomp (c : dict vol * dict cell * res (list (string * N * list Z))) : bool :=
  let '(vols, cells, expected) := c in
  res_eqb (list_eqb line_eqb) (geomcomp_lines vols cells) expected.

(* ---- composition names of one material card ---- *)
Definition check_comp (c : Z * dict cell * res (list string)) : bool :=
  let '(key, cells, expected) := c in
  res_eqb (list_eqb String.eqb) (comp_names key cells) expected.

(* constructCompositionT4 over the material cards in card order *)
Fixpoint comp_all (keys : list Z) (cells : dict cell) : res (list (Z * list string)) :=
  match keys with
  | [] => Ok []
  | k :: r => match comp_names k cells with
              | Err e => Err e
              | Ok l => match comp_all r cells with
                        | Err e => Err e
                        | Ok t => Ok ((k, l) :: t)
                        end
              end
  end.

Definition check_comp_all (c : list Z * dict cell * res (list (Z * list string))) : bool :=
  let '(ks, cells, expected) := c in
  res_eqb (list_eqb (pair_eqb Z.eqb (list_eqb String.eqb))) (comp_all ks cells) expected.

(* ---- parse -> develop_lattice -> pot_fill, modulo key numbering ---- *)
(* a cell made by pot_fill, keys replaced by the material/density they carry *)
Definition md := (string * option string)%type.
Definition cell_sig := (string * option string * Z * list (md * md))%type.

Definition md_of (d : dict cell) (k : Z) : md :=
  match lookup k d with Some c => (c_mat c, c_dens c) | None => ("?", None) end.

Definition sig_of (d : dict cell) (c : cell) : cell_sig :=
  (c_mat c, c_dens c, c_imp c, map (fun ab => (md_of d (fst ab), md_of d (snd ab))) (c_origin c)).

Fixpoint develop_all (st : state) (lats : list (Z * list Z)) : res state :=
  match lats with
  | [] => Ok st
  | (k, us) :: r => match develop_lattice st k us with
                    | Err e => Err e
                    | Ok st' => develop_all st' r
                    end
  end.

Definition top_new (c : cell) : bool :=
  (c_univ c =? 0)%Z && match c_fill c with None => true | Some _ => false end &&
  match c_origin c with [] => false | _ => true end.

Definition pipeline (d : dict cell) (next : Z) (lats : list (Z * list Z)) : res (list cell_sig) :=
  match develop_all (d, next) lats with
  | Err e => Err e
  | Ok (d1, n1) =>
      match treat_fill (S (List.length d1)) d1 n1 with
      | Err e => Err e
      | Ok (d2, _, _) => Ok (map (sig_of d2) (filter top_new (map snd d2)))
      end
  end.

Definition md_eqb (a b : md) : bool := String.eqb (fst a) (fst b) && option_eqb String.eqb (snd a) (snd b).

Definition sig_eqb (a b : cell_sig) : bool :=
  let '(m1, d1, i1, o1) := a in let '(m2, d2, i2, o2) := b in
  String.eqb m1 m2 && option_eqb String.eqb d1 d2 && (i1 =? i2)%Z &&
  list_eqb (pair_eqb md_eqb md_eqb) o1 o2.

Definition check_pipeline (c : dict cell * Z * list (Z * list Z) * list cell_sig) : bool :=
  let '(d, next, lats, expected) := c in
  match pipeline d next lats with
  | Ok l => list_eqb sig_eqb l expected
  | Err _ => false
  end.

(* ---- the COMPOSITION block, byte for byte ---- *)
Definition check_write_comp
  (c : list mcard * dict cell * list (string * list (string * string)) * res string) : bool :=
  let '(mcs, cells, pw, expected) := c in
  res_eqb String.eqb (write_compositions mcs cells pw) expected.
