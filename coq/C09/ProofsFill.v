(* C09 — proofs about the provenance written by pot_fill (Model.v): the head of
   idorigin of every cell it makes is a leaf of the FILL hierarchy (Spec.leaves)
   and the cell carries that leaf's material and density. *)
From Coq Require Import List NArith ZArith Bool String Ascii Lia.
From T4V Require Import Base.Str C09.Model C09.Spec.
Import ListNotations.
Open Scope list_scope.

(* ---- dictionaries ---- *)
Lemma lookup_app {A} k (d l : dict A) :
  lookup k (d ++ l) = match lookup k d with Some v => Some v | None => lookup k l end.
Proof.
  induction d as [|[k' v] d IH]; simpl; [reflexivity|].
  destruct (k =? k')%Z; [reflexivity | exact IH].
Qed.

Lemma in_lookup {A} k (v : A) d : In (k, v) d -> lookup k d <> None.
Proof.
  induction d as [|[k' v'] d IH]; simpl; [tauto|]. intros [H|H].
  - inversion H; subst. rewrite Z.eqb_refl. discriminate.
  - destruct (k =? k')%Z; [discriminate | auto].
Qed.

Lemma lookup_in {A} k (v : A) d : lookup k d = Some v -> In (k, v) d.
Proof.
  induction d as [|[k' v'] d IH]; simpl; [discriminate|].
  destruct (k =? k')%Z eqn:E; intros H.
  - apply Z.eqb_eq in E. inversion H; subst. now left.
  - right. auto.
Qed.

Lemma by_universe_in d u k : In k (by_universe d u) -> lookup k d <> None.
Proof.
  unfold by_universe. intros H. apply in_map_iff in H. destruct H as [[k' c] [H1 H2]].
  simpl in H1. subst k'. apply filter_In in H2. destruct H2 as [H2 _]. eapply in_lookup; eauto.
Qed.

Lemma fill_keys_in d k : In k (fill_keys d) -> lookup k d <> None.
Proof.
  unfold fill_keys. intros H. apply in_map_iff in H. destruct H as [[k' c] [H1 H2]].
  simpl in H1. subst k'. apply filter_In in H2. destruct H2 as [H2 _]. eapply in_lookup; eauto.
Qed.

(* ---- invariants ---- *)
Definition extends (d d' : dict cell) : Prop :=
  forall k c, lookup k d = Some c -> lookup k d' = Some c.

Definition fresh (st : state) : Prop :=
  forall k, lookup k (fst st) <> None -> (k <= snd st)%Z.

(* the cells of the parsed dictionary carry no provenance yet *)
Definition pristine (d0 : dict cell) : Prop :=
  forall k c, lookup k d0 = Some c -> c_origin c = [].

(* key [k] of dictionary [d] is a finished cell: no fill, and the head of its
   provenance is a cell of the parsed dictionary without fill whose material
   and density it carries *)
Definition leafy (d0 d : dict cell) (k : Z) : Prop :=
  exists c L, lookup k d = Some c /\ c_fill c = None /\
              lookup (origin_head k c) d0 = Some L /\ c_fill L = None /\
              c_mat c = c_mat L /\ c_dens c = c_dens L.

Definition inv (d0 d : dict cell) : Prop :=
  extends d0 d /\ forall k, lookup k d <> None -> lookup k d0 = None -> leafy d0 d k /\
                            exists c, lookup k d = Some c /\ c_origin c <> [].

Definition head_of (d : dict cell) (k : Z) : Z :=
  match lookup k d with Some c => origin_head k c | None => k end.

Lemma extends_refl d : extends d d.
Proof. intros k c H; exact H. Qed.

Lemma extends_trans a b c : extends a b -> extends b c -> extends a c.
Proof. intros H1 H2 k x H. auto. Qed.

Lemma leafy_extends d0 d d' k : extends d d' -> leafy d0 d k -> leafy d0 d' k.
Proof. intros E [c [L [H1 H]]]. exists c, L. split; [auto | exact H]. Qed.

Lemma head_of_extends d d' k : extends d d' -> lookup k d <> None -> head_of d' k = head_of d k.
Proof.
  intros E H. unfold head_of. destruct (lookup k d) as [c|] eqn:E1; [|now elim H].
  now rewrite (E _ _ E1).
Qed.

Lemma leafy_lookup d0 d k : leafy d0 d k -> lookup k d <> None.
Proof. intros [c [L [H _]]]. rewrite H. discriminate. Qed.

Lemma map_head_extends d d' ks :
  extends d d' -> Forall (fun k => lookup k d <> None) ks -> map (head_of d') ks = map (head_of d) ks.
Proof.
  intros E H. induction H as [|k ks Hk _ IH]; simpl; [reflexivity|].
  now rewrite IH, (head_of_extends d d' k E Hk).
Qed.

(* what one call establishes *)
Definition post (d0 : dict cell) (st st' : state) (ks : list Z) : Prop :=
  inv d0 (fst st') /\ fresh st' /\ extends (fst st) (fst st') /\ Forall (leafy d0 (fst st')) ks.

Lemma post_intro d0 st st' ks :
  inv d0 (fst st') -> fresh st' -> extends (fst st) (fst st') -> Forall (leafy d0 (fst st')) ks ->
  post d0 st st' ks.
Proof. unfold post. auto. Qed.

Section Fill.
  Variable d0 : dict cell.
  Variable byu : Z -> list Z.
  Hypothesis Hpr : pristine d0.
  Hypothesis Hbyu : forall u k, In k (byu u) -> lookup k d0 <> None.

  (* the loop over the elements of a universe / over the cells with a fill *)
  Lemma flat_map_state_spec (f : state -> Z -> res (state * list Z)) (g : Z -> res (list Z)) :
    (forall st key st' ks, inv d0 (fst st) -> fresh st -> lookup key d0 <> None ->
       f st key = Ok (st', ks) -> post d0 st st' ks /\ g key = Ok (map (head_of (fst st')) ks)) ->
    forall l st st' ks, inv d0 (fst st) -> fresh st -> (forall k, In k l -> lookup k d0 <> None) ->
      flat_map_state f st l = Ok (st', ks) ->
      post d0 st st' ks /\ flat_map_res g l = Ok (map (head_of (fst st')) ks).
  Proof.
    intros Hf. induction l as [|e r IH]; intros st st' ks Hinv Hfr Hl H; simpl in H.
    - inversion H; subst. split; [|reflexivity]. apply post_intro; auto using extends_refl.
    - destruct (f st e) as [[st1 l1]|] eqn:E1; [|discriminate].
      destruct (flat_map_state f st1 r) as [[st2 l2]|] eqn:E2; [|discriminate].
      inversion H; subst st' ks. clear H.
      destruct (Hf st e st1 l1 Hinv Hfr (Hl e (or_introl eq_refl)) E1) as [[I1 [F1 [X1 L1]]] G1].
      destruct (IH st1 st2 l2 I1 F1 (fun k Hk => Hl k (or_intror Hk)) E2) as [[I2 [F2 [X2 L2]]] G2].
      split.
      + apply post_intro; auto. { eapply extends_trans; eauto. }
        apply Forall_app. split; [|exact L2].
        eapply Forall_impl; [|exact L1]. intros k Hk. eapply leafy_extends; eauto.
      + simpl. rewrite G1, G2, map_app. f_equal. f_equal.
        symmetry. apply map_head_extends; [exact X2|].
        eapply Forall_impl; [|exact L1]. intros k Hk. eapply leafy_lookup; eauto.
  Qed.

  (* the loop that makes one new cell per element *)
  Lemma fill_elements_spec key container :
    lookup key d0 = Some container ->
    forall elems st st' ks, inv d0 (fst st) -> fresh st -> Forall (leafy d0 (fst st)) elems ->
      fill_elements key container st elems = Ok (st', ks) ->
      post d0 st st' ks /\ map (head_of (fst st')) ks = map (head_of (fst st)) elems /\
      Forall (fun k => lookup k d0 = None) ks.
  Proof.
    intros Hkey. induction elems as [|e r IH]; intros [d next] st' ks Hinv Hfr Hle H; simpl in H.
    - inversion H; subst. split; [|split; [reflexivity | constructor]].
      apply post_intro; auto using extends_refl.
    - destruct (lookup e d) as [ec|] eqn:Ee; [|discriminate].
      set (nc := {| c_mat := c_mat ec; c_dens := c_dens ec; c_imp := c_imp container;
                    c_univ := c_univ container; c_fill := None;
                    c_origin := (c_origin ec ++ [(origin_head e ec, origin_head key container)])%list |}) in *.
      set (next' := (next + 1)%Z) in *.
      set (d1 := (d ++ [(next', nc)])%list) in *.
      destruct (fill_elements key container (d1, next') r) as [[st2 l2]|] eqn:E2; [|discriminate].
      inversion H; subst st' ks. clear H.
      inversion Hle as [|? ? Hlee Hler]; subst.
      unfold fresh in Hfr; cbn [fst snd] in Hfr, Hinv.
      assert (Hnew : lookup next' d = None).
      { destruct (lookup next' d) eqn:E; [|reflexivity].
        assert (next' <= next)%Z by (apply (Hfr next'); rewrite E; discriminate). unfold next' in *. lia. }
      assert (X1 : extends d d1).
      { intros k c Hk. unfold d1. now rewrite lookup_app, Hk. }
      assert (Hl1 : lookup next' d1 = Some nc).
      { unfold d1. rewrite lookup_app, Hnew. simpl. now rewrite Z.eqb_refl. }
      (* head of the new provenance = head of the element's *)
      assert (Hhead : origin_head next' nc = origin_head e ec).
      { unfold origin_head at 1. simpl. unfold origin_head. destruct (c_origin ec) as [|[a b] t]; reflexivity. }
      assert (Hne : c_origin nc <> []).
      { simpl. destruct (c_origin ec); discriminate. }
      assert (Lnew : leafy d0 d1 next').
      { destruct Hlee as [c [L [H1 [H2 [H3 [H4 [H5 H6]]]]]]]. simpl in H1. rewrite Ee in H1. inversion H1; subst c.
        exists nc, L. repeat split; auto. now rewrite Hhead. }
      assert (Hnew0 : lookup next' d0 = None).
      { destruct (lookup next' d0) eqn:E; [|reflexivity].
        destruct Hinv as [Hx _]. rewrite (Hx _ _ E) in Hnew. discriminate. }
      assert (I1 : inv d0 d1).
      { destruct Hinv as [Hx Hn]. split; [eapply extends_trans; eauto|].
        intros k Hk Hk0. destruct (lookup k d) as [c|] eqn:Ek.
        - destruct (Hn k) as [Hlk [c' [Hc1 Hc2]]]; [rewrite Ek; discriminate | exact Hk0 |].
          split; [eapply leafy_extends; eauto|]. exists c'. split; [apply X1; exact Hc1 | exact Hc2].
        - unfold d1 in Hk. rewrite lookup_app, Ek in Hk. simpl in Hk.
          destruct (k =? next')%Z eqn:Ekn; [|now elim Hk]. apply Z.eqb_eq in Ekn. subst k.
          split; [exact Lnew|]. exists nc. split; [exact Hl1 | exact Hne]. }
      assert (F1 : fresh (d1, next')).
      { intros k Hk. cbn [fst snd] in *. unfold d1 in Hk. rewrite lookup_app in Hk.
        destruct (lookup k d) eqn:Ek.
        - assert (k <= next)%Z by (apply Hfr; rewrite Ek; discriminate). unfold next'. lia.
        - simpl in Hk. destruct (k =? next')%Z eqn:Ekn; [|now elim Hk]. apply Z.eqb_eq in Ekn. lia. }
      assert (Hler1 : Forall (leafy d0 (fst (d1, next'))) r).
      { eapply Forall_impl; [|exact Hler]. intros k Hk. eapply leafy_extends; eauto. }
      destruct (IH (d1, next') st2 l2 I1 F1 Hler1 E2) as [[I2 [F2 [X2 L2]]] [M2 N2]].
      simpl in X2. split; [|split].
      + apply post_intro; auto. { simpl. eapply extends_trans; eauto. }
        constructor; [|exact L2]. eapply leafy_extends; eauto.
      + simpl. f_equal.
        * rewrite (head_of_extends d1 (fst st2) next' X2); [|rewrite Hl1; discriminate].
          unfold head_of. rewrite Hl1, Ee. exact Hhead.
        * rewrite M2. apply map_head_extends; [exact X1|].
          eapply Forall_impl; [|exact Hler]. intros k Hk. eapply leafy_lookup; eauto.
      + constructor; [exact Hnew0 | exact N2].
  Qed.

  Lemma pot_fill_spec : forall fuel st key st' ks,
    inv d0 (fst st) -> fresh st -> lookup key d0 <> None ->
    pot_fill fuel byu st key = Ok (st', ks) ->
    post d0 st st' ks /\ leaves fuel byu d0 key = Ok (map (head_of (fst st')) ks).
  Proof.
    induction fuel as [|f IH]; intros st key st' ks Hinv Hfr Hkey H; [discriminate|].
    cbn [pot_fill] in H. cbn [leaves].
    destruct (lookup key d0) as [c|] eqn:E0; [|now elim Hkey].
    assert (E : lookup key (fst st) = Some c) by (apply Hinv; exact E0).
    rewrite E in H.
    destruct (c_fill c) as [u|] eqn:Ef.
    - destruct (flat_map_state (pot_fill f byu) st (byu u)) as [[st1 elems]|] eqn:E1; [|discriminate].
      destruct (flat_map_state_spec (pot_fill f byu) (leaves f byu d0) IH (byu u) st st1 elems
                  Hinv Hfr (Hbyu u) E1) as [[I1 [F1 [X1 L1]]] G1].
      destruct (fill_elements_spec key c E0 elems st1 st' ks I1 F1 L1 H) as [[I2 [F2 [X2 L2]]] [M2 _]].
      split.
      + apply post_intro; auto. eapply extends_trans; eauto.
      + rewrite G1, M2. reflexivity.
    - inversion H; subst st' ks. split.
      + apply post_intro; auto using extends_refl.
        constructor; [|constructor]. exists c, c.
        assert (Ho : origin_head key c = key) by (unfold origin_head; now rewrite (Hpr _ _ E0)).
        rewrite Ho. repeat split; auto.
      + simpl. unfold head_of. rewrite E. unfold origin_head. now rewrite (Hpr _ _ E0).
  Qed.
End Fill.

(* ---- the statement for construct_volume_t4's "treat FILL" ---- *)
Lemma inv_init d0 : inv d0 d0.
Proof.
  split; [apply extends_refl|]. intros k H1 H2. now elim H1.
Qed.

(* what is known of a key returned by pot_fill *)
Definition finished (d0 d' : dict cell) (k : Z) : Prop :=
  exists c L, lookup k d' = Some c /\ c_fill c = None /\
              lookup (origin_head k c) d0 = Some L /\ c_fill L = None /\
              c_mat c = c_mat L /\ c_dens c = c_dens L /\
              (lookup k d0 = None -> c_origin c <> []).

Lemma leafy_finished d0 d' k : inv d0 d' -> leafy d0 d' k -> finished d0 d' k.
Proof.
  intros [Hx Hn] Hl. pose proof Hl as [c [L [H1 [H2 [H3 [H4 [H5 H6]]]]]]].
  exists c, L. repeat split; auto. intros H0.
  destruct (Hn k) as [_ [c' [Hc1 Hc2]]]; [rewrite H1; discriminate | exact H0 |].
  rewrite H1 in Hc1. inversion Hc1; subst. exact Hc2.
Qed.

Theorem pot_fill_provenance : forall fuel d0 next key st' ks,
  pristine d0 -> (forall k, lookup k d0 <> None -> (k <= next)%Z) -> lookup key d0 <> None ->
  pot_fill fuel (by_universe d0) (d0, next) key = Ok (st', ks) ->
  leaves fuel (by_universe d0) d0 key = Ok (map (head_of (fst st')) ks) /\
  Forall (finished d0 (fst st')) ks /\
  (forall k c, lookup k d0 = Some c -> lookup k (fst st') = Some c).
Proof.
  intros fuel d0 next key st' ks Hpr Hfr Hkey H.
  destruct (pot_fill_spec d0 (by_universe d0) Hpr (by_universe_in d0) fuel (d0, next) key st' ks
              (inv_init d0) Hfr Hkey H) as [[I [F [X L]]] G].
  split; [exact G|]. split; [|exact X].
  eapply Forall_impl; [|exact L]. intros k Hk. now apply leafy_finished.
Qed.

Theorem provenance_head_is_leaf : forall fuel d0 next st' ks,
  pristine d0 -> (forall k, lookup k d0 <> None -> (k <= next)%Z) ->
  treat_fill fuel d0 next = Ok (st', ks) ->
  flat_map_res (leaves fuel (by_universe d0) d0) (fill_keys d0) = Ok (map (head_of (fst st')) ks) /\
  Forall (finished d0 (fst st')) ks /\
  (forall k c, lookup k d0 = Some c -> lookup k (fst st') = Some c).
Proof.
  intros fuel d0 next st' ks Hpr Hfr H. unfold treat_fill in H.
  pose proof (flat_map_state_spec d0 (pot_fill fuel (by_universe d0)) (leaves fuel (by_universe d0) d0)
                (pot_fill_spec d0 (by_universe d0) Hpr (by_universe_in d0) fuel)
                (fill_keys d0) (d0, next) st' ks (inv_init d0) Hfr (fill_keys_in d0) H) as [[I [F [X L]]] G].
  split; [exact G|]. split; [|exact X].
  eapply Forall_impl; [|exact L]. intros k Hk. now apply leafy_finished.
Qed.

(* ---- totality: acyclic universe nesting and enough fuel ---- *)
Lemma in_lookup_nodup {A} k (v : A) d : NoDup (map fst d) -> In (k, v) d -> lookup k d = Some v.
Proof.
  induction d as [|[k' v'] r IH]; simpl; intros Hnd H; [tauto|].
  inversion Hnd as [|? ? Hk Hr]; subst. destruct H as [H|H].
  - inversion H; subst. now rewrite Z.eqb_refl.
  - destruct (k =? k')%Z eqn:E; [|auto]. apply Z.eqb_eq in E. subst k'.
    elim Hk. apply in_map_iff. exists (k, v). auto.
Qed.

Lemma by_universe_univ d u k : NoDup (map fst d) -> In k (by_universe d u) ->
  exists c, lookup k d = Some c /\ c_univ c = u.
Proof.
  unfold by_universe. intros Hnd H. apply in_map_iff in H. destruct H as [[k' c] [H1 H2]].
  simpl in H1. subst k'. apply filter_In in H2. destruct H2 as [H2 H3]. simpl in H3.
  exists c. split; [now apply in_lookup_nodup | now apply Z.eqb_eq].
Qed.

Lemma fill_elements_total key container : forall elems st,
  Forall (fun k => lookup k (fst st) <> None) elems ->
  exists r, fill_elements key container st elems = Ok r.
Proof.
  induction elems as [|e r IH]; intros [d next] H; simpl.
  - eexists. reflexivity.
  - inversion H as [|? ? He Hr]; subst. simpl in He.
    destruct (lookup e d) as [ec|] eqn:Ee; [|now elim He].
    match goal with |- context [fill_elements key container ?st r] => destruct (IH st) as [[st2 l2] E2] end.
    + eapply Forall_impl; [|exact Hr]. intros k Hk. simpl in *. rewrite lookup_app.
      destruct (lookup k d); [discriminate | now elim Hk].
    + rewrite E2. eexists. reflexivity.
Qed.

Section Total.
  Variable d0 : dict cell.
  Variable rank : Z -> nat.
  Hypothesis Hnd : NoDup (map fst d0).
  Hypothesis Hpr : pristine d0.
  (* a filled cell lies in a universe of higher rank than the one it is filled with *)
  Hypothesis Hrank : forall k c u, lookup k d0 = Some c -> c_fill c = Some u ->
                                   (rank u < rank (c_univ c))%nat.

  Lemma flat_map_state_total (f : state -> Z -> res (state * list Z)) (g : Z -> res (list Z)) :
    (forall st key st' ks, inv d0 (fst st) -> fresh st -> lookup key d0 <> None ->
       f st key = Ok (st', ks) -> post d0 st st' ks /\ g key = Ok (map (head_of (fst st')) ks)) ->
    forall l, (forall st key, In key l -> inv d0 (fst st) -> fresh st -> exists r, f st key = Ok r) ->
      (forall k, In k l -> lookup k d0 <> None) ->
      forall st, inv d0 (fst st) -> fresh st -> exists r, flat_map_state f st l = Ok r.
  Proof.
    intros Hspec. induction l as [|e r IH]; intros Htot Hl st Hinv Hfr; simpl.
    - eexists. reflexivity.
    - destruct (Htot st e (or_introl eq_refl) Hinv Hfr) as [[st1 l1] E1]. rewrite E1.
      destruct (Hspec st e st1 l1 Hinv Hfr (Hl e (or_introl eq_refl)) E1) as [[I1 [F1 _]] _].
      destruct (IH (fun st key Hk => Htot st key (or_intror Hk)) (fun k Hk => Hl k (or_intror Hk)) st1 I1 F1)
        as [[st2 l2] E2].
      rewrite E2. eexists. reflexivity.
  Qed.

  Lemma pot_fill_total : forall fuel st key c,
    inv d0 (fst st) -> fresh st -> lookup key d0 = Some c -> (rank (c_univ c) < fuel)%nat ->
    exists r, pot_fill fuel (by_universe d0) st key = Ok r.
  Proof.
    induction fuel as [|f IH]; intros st key c Hinv Hfr Hkey Hlt; [lia|].
    cbn [pot_fill]. rewrite (proj1 Hinv _ _ Hkey).
    destruct (c_fill c) as [u|] eqn:Ef; [|eexists; reflexivity].
    pose proof (Hrank _ _ _ Hkey Ef) as Hr.
    assert (Hsub : forall st0 e, In e (by_universe d0 u) -> inv d0 (fst st0) -> fresh st0 ->
                     exists r, pot_fill f (by_universe d0) st0 e = Ok r).
    { intros st0 e He Hi0 Hf0. destruct (by_universe_univ d0 u e Hnd He) as [ce [Hce Hu]].
      apply (IH st0 e ce Hi0 Hf0 Hce). rewrite Hu. lia. }
    destruct (flat_map_state_total (pot_fill f (by_universe d0)) (leaves f (by_universe d0) d0)
                (pot_fill_spec d0 (by_universe d0) Hpr (by_universe_in d0) f)
                (by_universe d0 u) Hsub (by_universe_in d0 u) st Hinv Hfr) as [[st1 elems] E1].
    rewrite E1.
    destruct (flat_map_state_spec d0 (pot_fill f (by_universe d0)) (leaves f (by_universe d0) d0)
                (pot_fill_spec d0 (by_universe d0) Hpr (by_universe_in d0) f)
                (by_universe d0 u) st st1 elems Hinv Hfr (by_universe_in d0 u) E1) as [[I1 [F1 [X1 L1]]] _].
    apply fill_elements_total. eapply Forall_impl; [|exact L1]. intros k Hk. eapply leafy_lookup; eauto.
  Qed.

  (* with enough fuel the "treat FILL" loop returns *)
  Theorem treat_fill_total : forall fuel next,
    (forall k, lookup k d0 <> None -> (k <= next)%Z) ->
    (forall k c, lookup k d0 = Some c -> (rank (c_univ c) < fuel)%nat) ->
    exists r, treat_fill fuel d0 next = Ok r.
  Proof.
    intros fuel next Hfr Hfuel. unfold treat_fill.
    apply (flat_map_state_total (pot_fill fuel (by_universe d0)) (leaves fuel (by_universe d0) d0)
             (pot_fill_spec d0 (by_universe d0) Hpr (by_universe_in d0) fuel) (fill_keys d0)).
    - intros st key Hk Hi Hf. destruct (lookup key d0) as [c|] eqn:E.
      + apply (pot_fill_total fuel st key c Hi Hf E). eapply Hfuel; eauto.
      + exfalso. eapply fill_keys_in; eauto.
    - apply fill_keys_in.
    - apply inv_init.
    - exact Hfr.
  Qed.
End Total.

(* ---- develop_lattice: the element cells of a lattice ---- *)
(* what an element cell made from lattice cell [c] looks like: same material,
   density, importance, universe and (empty) provenance; no fill when the array
   entry names the lattice's own universe, else filled with the entry *)
Definition element_of (c : cell) (univs : list Z) (c' : cell) : Prop :=
  c_mat c' = c_mat c /\ c_dens c' = c_dens c /\ c_imp c' = c_imp c /\ c_univ c' = c_univ c /\
  c_origin c' = c_origin c /\
  (c_fill c' = None /\ In (c_univ c) univs \/
   exists u, c_fill c' = Some u /\ u <> c_univ c /\ u <> 0%Z /\ In u univs).

Lemma lattice_elements_spec c : forall univs next l n,
  lattice_elements c next univs = (l, n) ->
  n = (next + Z.of_nat (List.length l))%Z /\
  (forall k c', In (k, c') l -> (next < k <= n)%Z /\ element_of c univs c') /\
  map (fun kc => c_fill (snd kc)) l =
    map (fun u => if (u =? c_univ c)%Z then None else Some u) (filter (fun u => negb (u =? 0)%Z) univs).
Proof.
  induction univs as [|u r IH]; intros next l n H; simpl in H.
  - inversion H; subst. simpl. split; [lia|]. split; [intros k c' []|reflexivity].
  - destruct (u =? 0)%Z eqn:E0.
    + destruct (IH next l n H) as [H1 [H2 H3]]. split; [exact H1|]. split.
      * intros k c' Hin. destruct (H2 k c' Hin) as [Hk [A [B [C [D [E F]]]]]].
        split; [exact Hk|]. repeat split; auto.
        destruct F as [[F1 F2]|[u' [F1 [F2 [F3 F4]]]]]; [left; split; [exact F1 | now right]|].
        right. exists u'. repeat split; auto. now right.
      * simpl. rewrite E0. exact H3.
    + destruct (lattice_elements c (next + 1) r) as [l' n'] eqn:Er. inversion H; subst l n. clear H.
      destruct (IH _ _ _ Er) as [H1 [H2 H3]]. split; [|split].
      * simpl List.length. lia.
      * intros k c' [Hin|Hin].
        -- inversion Hin; subst k c'. split; [lia|]. unfold element_of. simpl.
           repeat split; auto. destruct (u =? c_univ c)%Z eqn:Eu.
           ++ apply Z.eqb_eq in Eu. left. split; [reflexivity | now left].
           ++ right. exists u. apply Z.eqb_neq in Eu. apply Z.eqb_neq in E0. repeat split; auto.
        -- destruct (H2 k c' Hin) as [Hk [A [B [C [D [E F]]]]]]. split; [lia|]. repeat split; auto.
           destruct F as [[F1 F2]|[u' [F1 [F2 [F3 F4]]]]]; [left; split; [exact F1 | now right]|].
           right. exists u'. repeat split; auto. now right.
      * simpl. rewrite E0. simpl. now rewrite H3.
Qed.

Lemma lookup_remove_other {A} key k (d : dict A) : k <> key -> lookup k (remove_key key d) = lookup k d.
Proof.
  intros Hne. induction d as [|[k' v] r IH]; simpl; [reflexivity|].
  destruct (key =? k')%Z eqn:E.
  - apply Z.eqb_eq in E. subst k'. destruct (k =? key)%Z eqn:E'; [apply Z.eqb_eq in E'; contradiction | reflexivity].
  - simpl. now rewrite IH.
Qed.

Lemma lookup_none_not_in {A} k (d : dict A) : lookup k d = None -> ~ In k (map fst d).
Proof.
  induction d as [|[k' v] r IH]; simpl; [tauto|].
  destruct (k =? k')%Z eqn:E; [discriminate|]. apply Z.eqb_neq in E. intros H [H'|H']; [now apply E | now apply IH].
Qed.

Lemma lookup_remove_same {A} key (d : dict A) : NoDup (map fst d) -> lookup key (remove_key key d) = None.
Proof.
  induction d as [|[k' v] r IH]; simpl; intros Hnd; [reflexivity|].
  inversion Hnd as [|? ? Hk Hr]; subst.
  destruct (key =? k')%Z eqn:E.
  - apply Z.eqb_eq in E. subst k'. destruct (lookup key r) eqn:El; [|reflexivity].
    elim Hk. apply lookup_in in El. apply in_map_iff. exists (key, a). auto.
  - simpl. rewrite E. auto.
Qed.

Lemma lookup_in_elements c univs next l n k :
  lattice_elements c next univs = (l, n) ->
  lookup k l <> None -> (next < k <= n)%Z.
Proof.
  intros H Hk. destruct (lookup k l) as [c'|] eqn:E; [|now elim Hk].
  apply lookup_in in E. destruct (lattice_elements_spec c univs next l n H) as [_ [H2 _]].
  now destruct (H2 k c' E).
Qed.

(* develop_lattice on a dictionary of parsed cells (distinct keys, as in a
   Python dict): the other cells stay, the new cells are elements of the
   lattice cell, the lattice cell itself is gone, and the dictionary is again
   without provenance and below the key counter, so that the provenance
   theorem applies to the developed dictionary *)
Theorem develop_lattice_spec : forall d next key univs c d' n,
  NoDup (map fst d) -> pristine d -> fresh (d, next) -> lookup key d = Some c ->
  develop_lattice (d, next) key univs = Ok (d', n) ->
  pristine d' /\ fresh (d', n) /\ lookup key d' = None /\
  (forall k, k <> key -> forall x, lookup k d = Some x -> lookup k d' = Some x) /\
  (forall k c', lookup k d' = Some c' ->
     lookup k d = Some c' \/ (lookup k d = None /\ (next < k <= n)%Z /\ element_of c univs c')) /\
  (* one element per non-zero array entry, in order *)
  (exists l, d' = remove_key key (d ++ l) /\
     map (fun kc => c_fill (snd kc)) l =
       map (fun u => if (u =? c_univ c)%Z then None else Some u) (filter (fun u => negb (u =? 0)%Z) univs)).
Proof.
  intros d next key univs c d' n Hnd Hpr Hfr Hkey H. unfold develop_lattice in H. rewrite Hkey in H.
  destruct (lattice_elements c next univs) as [l n'] eqn:El. inversion H; subst d' n'. clear H.
  destruct (lattice_elements_spec c univs next l n El) as [Hn [Hel Hfills]].
  unfold fresh in Hfr. cbn [fst snd] in Hfr.
  assert (Hkn : (key <= next)%Z) by (apply Hfr; rewrite Hkey; discriminate).
  assert (Hkl : lookup key l = None).
  { destruct (lookup key l) eqn:E; [|reflexivity].
    assert (next < key <= n)%Z by (eapply lookup_in_elements; [exact El | rewrite E; discriminate]). lia. }
  (* the lattice cell is gone *)
  assert (Hgone : lookup key (remove_key key (d ++ l)) = None).
  { clear -Hnd Hkl Hkey. induction d as [|[k' v] r IH]; simpl in *; [discriminate|].
    inversion Hnd as [|? ? Hk Hr]; subst.
    destruct (key =? k')%Z eqn:E.
    - apply Z.eqb_eq in E. subst k'. rewrite lookup_app, Hkl.
      destruct (lookup key r) eqn:E2; [|reflexivity].
      elim Hk. apply lookup_in in E2. apply in_map_iff. exists (key, c0). auto.
    - simpl. rewrite E. auto. }
  assert (Hchar : forall k c', lookup k (remove_key key (d ++ l)) = Some c' ->
            lookup k d = Some c' \/ (lookup k d = None /\ (next < k <= n)%Z /\ element_of c univs c')).
  { intros k c' Hk. destruct (Z.eq_dec k key) as [->|Hne]; [rewrite Hgone in Hk; discriminate|].
    rewrite (lookup_remove_other key k _ Hne), lookup_app in Hk.
    destruct (lookup k d) as [x|] eqn:E; [left; exact Hk|]. right. split; [reflexivity|].
    apply lookup_in in Hk. exact (Hel k c' Hk). }
  split; [|split; [|split; [|split; [|split]]]].
  - intros k c' Hk. destruct (Hchar k c' Hk) as [H|[_ [_ [_ [_ [_ [_ [Ho _]]]]]]]]; [eapply Hpr; eauto|].
    rewrite Ho. eapply Hpr; eauto.
  - intros k Hk. cbn [fst snd] in *. destruct (lookup k (remove_key key (d ++ l))) as [c'|] eqn:E; [|now elim Hk].
    destruct (Hchar k c' E) as [H|[_ [H _]]]; [|lia].
    assert (k <= next)%Z by (apply Hfr; rewrite H; discriminate). lia.
  - exact Hgone.
  - intros k Hne x Hx. rewrite (lookup_remove_other key k _ Hne), lookup_app, Hx. reflexivity.
  - exact Hchar.
  - exists l. split; [reflexivity | exact Hfills].
Qed.

(* ---- lattice + fill: who owns the points of a lattice element ---- *)
(* after develop_lattice of cell [key] and the "treat FILL" loop: the leaf at
   the head of a returned cell's chain is either a parsed cell other than the
   lattice cell (the returned cell carries its material and density) or one of
   the lattice's element cells — an element of the lattice's own universe — and
   then the returned cell carries the material and density of the lattice cell *)
Theorem lattice_leaf_material : forall d next key univs c d1 n1 fuel st' ks,
  NoDup (map fst d) -> pristine d -> fresh (d, next) -> lookup key d = Some c ->
  develop_lattice (d, next) key univs = Ok (d1, n1) ->
  treat_fill fuel d1 n1 = Ok (st', ks) ->
  Forall (fun k => exists ck, lookup k (fst st') = Some ck /\ c_fill ck = None /\
            let h := head_of (fst st') k in
            (forall L, lookup h d = Some L ->
               h <> key /\ c_fill L = None /\ c_mat ck = c_mat L /\ c_dens ck = c_dens L) /\
            (lookup h d = None ->
               (next < h <= n1)%Z /\ c_mat ck = c_mat c /\ c_dens ck = c_dens c)) ks.
Proof.
  intros d next key univs c d1 n1 fuel st' ks Hnd Hpr Hfr Hkey Hdev Ht.
  destruct (develop_lattice_spec d next key univs c d1 n1 Hnd Hpr Hfr Hkey Hdev)
    as [Hpr1 [Hfr1 [Hgone [Hkeep [Hchar _]]]]].
  destruct (provenance_head_is_leaf fuel d1 n1 st' ks Hpr1 Hfr1 Ht) as [_ [Hfin _]].
  eapply Forall_impl; [|exact Hfin]. intros k [ck [L [H1 [H2 [H3 [H4 [H5 [H6 _]]]]]]]].
  exists ck. split; [exact H1|]. split; [exact H2|]. cbv zeta.
  unfold head_of. rewrite H1.
  destruct (Hchar _ _ H3) as [Hd | [Hd [Hrange [Hm [Hdn _]]]]].
  - split.
    + intros L' HL'. rewrite Hd in HL'. inversion HL'; subst L'.
      split; [|auto]. intros He. rewrite He, Hgone in H3. discriminate.
    + intros Hn. rewrite Hd in Hn. discriminate.
  - split.
    + intros L' HL'. rewrite Hd in HL'. discriminate.
    + intros _. split; [exact Hrange|]. rewrite H5, H6, Hm, Hdn. auto.
Qed.
