(* C09 — proofs about constructGeomCompT4 / writeT4GeomComp (geomcomp,
   geomcomp_lines) and the names constructCompositionT4 emits (comp_names). *)
From Coq Require Import List NArith ZArith Bool String Ascii Lia.
From T4V Require Import Base.Str C09.Model C09.Spec C09.ProofsNorm.
Import ListNotations.
Open Scope list_scope.

(* ---- groups ---- *)
Definition groups := list (string * list Z).

(* volume k is listed on the line of name n *)
Definition member (g : groups) (n : string) (k : Z) : Prop :=
  exists l, In (n, l) g /\ In k l.

Lemma member_nil n k : ~ member [] n k.
Proof. intros [l [H _]]. exact H. Qed.

Lemma member_cons g n0 l0 n k :
  member ((n0, l0) :: g) n k <-> (n = n0 /\ In k l0) \/ member g n k.
Proof.
  unfold member. split.
  - intros [l [[H|H] Hk]].
    + inversion H; subst. left. auto.
    + right. eauto.
  - intros [[-> H]|[l [H Hk]]].
    + exists l0. split; [now left | exact H].
    + exists l. split; [now right | exact Hk].
Qed.

Lemma member_group_add name k g n k' :
  member (group_add name k g) n k' <-> member g n k' \/ (n = name /\ k' = k).
Proof.
  induction g as [|[n0 l0] r IH]; simpl.
  - rewrite member_cons. split.
    + intros [[-> [->|[]]]|H]; [right; auto | now apply member_nil in H].
    + intros [H|[-> ->]]; [now apply member_nil in H | left; split; [reflexivity | now left]].
  - destruct (String.eqb n0 name) eqn:E.
    + apply String.eqb_eq in E. subst n0. rewrite !member_cons. split.
      * intros [[-> H]|H]; [|left; right; exact H].
        apply in_app_or in H. destruct H as [H|[->|[]]]; [left; left; auto | right; auto].
      * intros [[[-> H]|H]|[-> ->]].
        -- left. split; [reflexivity | apply in_or_app; now left].
        -- right. exact H.
        -- left. split; [reflexivity | apply in_or_app; right; now left].
    + rewrite !member_cons, IH. tauto.
Qed.

Lemma names_group_add name k g :
  NoDup (map fst g) -> NoDup (map fst (group_add name k g)) /\
  (forall n, In n (map fst (group_add name k g)) <-> In n (map fst g) \/ n = name).
Proof.
  induction g as [|[n0 l0] r IH]; simpl; intros H.
  - split; [constructor; [intros [] | constructor] | intros n; split; [intros [->|[]]; auto | intros [[]| ->]; auto]].
  - inversion H as [|? ? Hn0 Hr]; subst.
    destruct (String.eqb n0 name) eqn:E.
    + apply String.eqb_eq in E. subst n0. simpl. split; [exact H|]. intros n. split; [intros Hx; now left | intros [Hx| ->]; [exact Hx | now left]].
    + destruct (IH Hr) as [IH1 IH2]. simpl. split.
      * constructor; [|exact IH1]. rewrite IH2. intros [Hin| ->]; [tauto|].
        rewrite String.eqb_refl in E. discriminate.
      * intros n. rewrite IH2. tauto.
Qed.

(* every line has at least one volume *)
Lemma nonempty_group_add name k g :
  Forall (fun nl => snd nl <> []) g -> Forall (fun nl => snd nl <> []) (group_add name k g).
Proof.
  induction g as [|[n0 l0] r IH]; simpl; intros H.
  - constructor; [discriminate | constructor].
  - inversion H; subst. destruct (String.eqb n0 name).
    + constructor; [|assumption]. simpl. destruct l0; discriminate.
    + constructor; auto.
Qed.

(* ---- constructGeomCompT4 ---- *)
(* volume k (entry v) is emitted and owned by a cell named n *)
Definition attached (vols : dict vol) (cells : dict cell) (n : string) (k : Z) : Prop :=
  exists v c z, In (k, v) vols /\ v_fictive v = false /\
                lookup (vol_source k v) cells = Some c /\ int_of_token (c_mat c) = Some z /\
                n = material_name z c.

Lemma geomcomp_from_spec cells : forall vols g g',
  geomcomp_from vols cells g = Ok g' ->
  (forall n k, member g' n k <-> member g n k \/ attached vols cells n k) /\
  (NoDup (map fst g) -> NoDup (map fst g')) /\
  (Forall (fun nl => snd nl <> []) g -> Forall (fun nl => snd nl <> []) g') /\
  (forall k v, In (k, v) vols -> v_fictive v = false ->
     exists c z, lookup (vol_source k v) cells = Some c /\ int_of_token (c_mat c) = Some z).
Proof.
  induction vols as [|[k v] r IH]; intros g g' H; simpl in H.
  - inversion H; subst. split; [|split; [|split]]; [| intros Hx; exact Hx | intros Hx; exact Hx |].
    + intros n k. split.
      * intros Hm. now left.
      * intros [Hm|[v [c [z [[] _]]]]]. exact Hm.
    + intros k v [].
  - destruct (v_fictive v) eqn:Ef.
    + destruct (IH g g' H) as [M [N [E L]]]. split; [|split; [|split]]; [| exact N | exact E |].
      * intros n k'. split.
        -- intros Hm. apply M in Hm. destruct Hm as [Hm|[v' [c [z [Hin Hr]]]]]; [now left|].
           right. exists v', c, z. split; [now right | exact Hr].
        -- intros [Hm|[v' [c [z [[Hin|Hin] [Hf Hr]]]]]]; apply M; [now left | | ].
           ++ inversion Hin; subst. rewrite Ef in Hf. discriminate.
           ++ right. exists v', c, z. auto.
      * intros k' v' [Hin|Hin] Hf; [inversion Hin; subst; rewrite Ef in Hf; discriminate | eauto].
    + destruct (lookup (vol_source k v) cells) as [c|] eqn:El; [|discriminate].
      destruct (int_of_token (c_mat c)) as [z|] eqn:Ez; [|discriminate].
      destruct (IH _ g' H) as [M [N [E L]]]. split; [|split; [|split]].
      * intros n k'. split.
        -- intros Hm. apply M in Hm. destruct Hm as [Hm|[v' [c' [z' [Hin Hr]]]]].
           ++ apply member_group_add in Hm. destruct Hm as [Hm|[-> ->]]; [now left|].
              right. exists v, c, z. split; [now left | auto].
           ++ right. exists v', c', z'. split; [now right | exact Hr].
        -- intros [Hm|[v' [c' [z' [[Hin|Hin] [Hf [Hl [Hz Hn]]]]]]]]; apply M.
           ++ left. apply member_group_add. now left.
           ++ inversion Hin; subst. rewrite El in Hl. inversion Hl; subst.
              rewrite Ez in Hz. inversion Hz; subst.
              left. apply member_group_add. right. auto.
           ++ right. exists v', c', z'. auto.
      * intros Hnd. apply N. now apply names_group_add.
      * intros Hne. apply E. now apply nonempty_group_add.
      * intros k' v' [Hin|Hin] Hf; [inversion Hin; subst; exists c, z; auto | eauto].
Qed.

Theorem geomcomp_name vols cells g :
  geomcomp vols cells = Ok g ->
  (* every emitted non-virtual volume is on the line named after the material
     NUMBER and the density of the cell at the head of its provenance *)
  (forall k v, In (k, v) vols -> v_fictive v = false ->
     exists c z, lookup (vol_source k v) cells = Some c /\ int_of_token (c_mat c) = Some z /\
                 member g (material_name z c) k) /\
  (* and the lines hold nothing else *)
  (forall n k, member g n k -> attached vols cells n k) /\
  (* one line per name, no empty line *)
  NoDup (map fst g) /\ Forall (fun nl => snd nl <> []) g.
Proof.
  unfold geomcomp. intros H. destruct (geomcomp_from_spec cells vols [] g H) as [M [N [E L]]].
  split; [|split; [|split]].
  - intros k v Hin Hf. destruct (L k v Hin Hf) as [c [z [Hc Hz]]].
    exists c, z. split; [exact Hc|]. split; [exact Hz|]. apply M. right. exists v, c, z. auto.
  - intros n k Hm. apply M in Hm. destruct Hm as [Hm|Hm]; [now apply member_nil in Hm | exact Hm].
  - apply N. constructor.
  - apply E. constructor.
Qed.

(* with distinct volume keys a volume is on one line only *)
Lemma in_dict_unique {A} (d : dict A) k v v' :
  NoDup (map fst d) -> In (k, v) d -> In (k, v') d -> v = v'.
Proof.
  induction d as [|[k0 v0] r IH]; simpl; intros Hnd H1 H2; [tauto|].
  inversion Hnd as [|? ? Hk0 Hr]; subst.
  destruct H1 as [H1|H1], H2 as [H2|H2].
  - inversion H1; inversion H2; subst; reflexivity.
  - inversion H1; subst. elim Hk0. apply in_map_iff. exists (k, v'). auto.
  - inversion H2; subst. elim Hk0. apply in_map_iff. exists (k, v). auto.
  - auto.
Qed.

Theorem geomcomp_one_line vols cells g :
  geomcomp vols cells = Ok g -> NoDup (map fst vols) ->
  forall n n' k, member g n k -> member g n' k -> n = n'.
Proof.
  intros H Hnd n n' k H1 H2. destruct (geomcomp_name vols cells g H) as [_ [A _]].
  destruct (A _ _ H1) as [v [c [z [Hin [_ [Hl [Hz ->]]]]]]].
  destruct (A _ _ H2) as [v' [c' [z' [Hin' [_ [Hl' [Hz' ->]]]]]]].
  assert (v = v') by (eapply in_dict_unique; eauto). subst v'.
  rewrite Hl in Hl'. inversion Hl'; subst c'. rewrite Hz in Hz'. inversion Hz'; reflexivity.
Qed.

(* the written lines: 'm' + name, count, volumes *)
Theorem geomcomp_lines_spec vols cells lines :
  geomcomp_lines vols cells = Ok lines ->
  exists g, geomcomp vols cells = Ok g /\
            lines = map (fun nl => (("m" ++ fst nl)%string, N.of_nat (List.length (snd nl)), snd nl)) g.
Proof.
  unfold geomcomp_lines. destruct (geomcomp vols cells) as [g|]; [|discriminate].
  intros H. inversion H. eauto.
Qed.

(* void: the material number alone (every spelling of 0 gives the line m0) *)
Lemma material_name_void z c : c_dens c = None -> material_name z c = dec_Z z.
Proof. unfold material_name. now intros ->. Qed.

Lemma material_name_dens z c d : c_dens c = Some d -> material_name z c = (dec_Z z ++ "_" ++ d)%string.
Proof. unfold material_name. now intros ->. Qed.

(* ---- composition names ---- *)
Lemma mem_string_In s l : mem_string s l = true <-> In s l.
Proof.
  induction l as [|x r IH]; simpl; [split; [discriminate | tauto]|].
  rewrite orb_true_iff, IH, String.eqb_eq. split; intros [H|H]; auto.
Qed.

Lemma sapp_inj_l (p a b : string) : (p ++ a)%string = (p ++ b)%string -> a = b.
Proof. induction p as [|c p IH]; simpl; intros H; [exact H | inversion H; auto]. Qed.

(* a cell that asks for a composition of material [key] with density string d *)
Definition asks (key : Z) (cells : dict cell) (d : string) : Prop :=
  exists k c, In (k, c) cells /\ live c = true /\ int_of_token (c_mat c) = Some key /\
              c_dens c = Some d.

Definition comp_prefix (key : Z) : string := ("m" ++ dec_Z key ++ "_")%string.

Lemma comp_scan_spec key : forall cells seen l,
  comp_scan key cells seen = Ok l ->
  exists ds, NoDup ds /\
    (forall d, In d ds <-> asks key cells d /\ ~ In d seen) /\
    Forall2 (fun d name => exists nd, normalize_float d = Ok nd /\ float_ok nd = true /\
                                      name = (comp_prefix key ++ nd)%string) ds l.
Proof.
  induction cells as [|[k c] r IH]; intros seen l H; simpl in H.
  - inversion H; subst. exists []. split; [constructor|]. split; [|constructor].
    intros d. split; [intros [] | intros [[k [c [[] _]]] _]].
  - assert (Skip : forall l', comp_scan key r seen = Ok l' ->
              (forall d, c_dens c = Some d -> live c = true -> int_of_token (c_mat c) = Some key -> In d seen) ->
              exists ds, NoDup ds /\ (forall d, In d ds <-> asks key ((k, c) :: r) d /\ ~ In d seen) /\
                Forall2 (fun d name => exists nd, normalize_float d = Ok nd /\ float_ok nd = true /\
                                                  name = (comp_prefix key ++ nd)%string) ds l').
    { intros l' H' Hc. destruct (IH seen l' H') as [ds [Hnd [Hin HF]]]. exists ds.
      split; [exact Hnd|]. split; [|exact HF]. intros d. rewrite Hin. split.
      - intros [[k' [c' [Hi Hr]]] Hs]. split; [|exact Hs]. exists k', c'. split; [now right | exact Hr].
      - intros [[k' [c' [[Hi|Hi] [Hl [Hm Hd]]]]] Hs]; split; try exact Hs.
        + inversion Hi; subst. elim Hs. now apply Hc.
        + exists k', c'. auto. }
    destruct (live c) eqn:El; cbn [negb] in H; [|apply Skip; [exact H | discriminate]].
    destruct (int_of_token (c_mat c)) as [m|] eqn:Em; [|discriminate].
    destruct (m =? key)%Z eqn:Emk; cbn [negb] in H;
      [|apply Skip; [exact H | intros d _ _ Hk; inversion Hk; subst; rewrite Z.eqb_refl in Emk; discriminate]].
    apply Z.eqb_eq in Emk. subst m.
    destruct (c_dens c) as [d0|] eqn:Ed; [|discriminate].
    destruct (mem_string d0 seen) eqn:Es.
    { apply Skip; [exact H|]. intros d Hd _ _. inversion Hd; subst. now apply mem_string_In. }
    destruct (normalize_float d0) as [nd|] eqn:En; [|discriminate].
    destruct (float_ok nd) eqn:Efl; [|discriminate].
    destruct (comp_scan key r (d0 :: seen)) as [l'|] eqn:Er; [|discriminate].
    inversion H; subst l. clear H.
    destruct (IH _ _ Er) as [ds [Hnd [Hin HF]]].
    assert (Hns : ~ In d0 seen) by (intros Hx; apply mem_string_In in Hx; rewrite Hx in Es; discriminate).
    exists (d0 :: ds). split; [|split].
    + constructor; [|exact Hnd]. intros Hx. apply Hin in Hx. destruct Hx as [_ Hx]. apply Hx. now left.
    + intros d. simpl. rewrite Hin. split.
      * intros [<-|[[k' [c' [Hi Hr]]] Hs]].
        -- split; [|exact Hns]. exists k, c. split; [now left | auto].
        -- split; [|intros Hx; apply Hs; now right]. exists k', c'. split; [now right | exact Hr].
      * intros [[k' [c' [[Hi|Hi] [Hl [Hm Hd]]]]] Hs].
        -- inversion Hi; subst. rewrite Ed in Hd. inversion Hd. now left.
        -- destruct (string_dec d0 d) as [->|Hne]; [now left|]. right. split.
           ++ exists k', c'. auto.
           ++ intros [Hx|Hx]; [now apply Hne | now apply Hs].
    + constructor; [|exact HF]. exists nd. split; [exact En|]. split; [exact Efl|].
      unfold comp_prefix. simpl. f_equal. rewrite sapp_assoc. reflexivity.
Qed.

(* densities as they are stored in the cells: already normalised *)
Definition dens_normal (cells : dict cell) : Prop :=
  forall k c d, In (k, c) cells -> c_dens c = Some d -> normalize_float d = Ok d.

Theorem comp_names_spec key cells l :
  comp_names key cells = Ok l -> dens_normal cells ->
  (* exactly the densities asked for, each once *)
  (forall name, In name l <-> exists d, asks key cells d /\ name = (comp_prefix key ++ d)%string) /\
  NoDup l.
Proof.
  unfold comp_names. intros H Hn. destruct (comp_scan_spec key cells [] l H) as [ds [Hnd [Hin HF]]].
  assert (Hl : l = map (fun d => (comp_prefix key ++ d)%string) ds).
  { assert (Hds : forall d, In d ds -> normalize_float d = Ok d).
    { intros d Hd. apply Hin in Hd. destruct Hd as [[k [c [Hi [_ [_ Hd]]]]] _]. eapply Hn; eauto. }
    clear Hin Hnd H. revert Hds. induction HF as [|d name ds' l' [nd [H1 [_ H3]]] _ IH]; intros Hds; [reflexivity|].
    simpl. rewrite (Hds d (or_introl eq_refl)) in H1. inversion H1; subst nd. rewrite H3. f_equal.
    apply IH. intros d' Hd'. apply Hds. now right. }
  subst l. split.
  - intros name. rewrite in_map_iff. split.
    + intros [d [<- Hd]]. exists d. split; [|reflexivity]. now apply Hin.
    + intros [d [Hd ->]]. exists d. split; [reflexivity|]. apply Hin. split; [exact Hd | tauto].
  - clear Hin HF H. induction Hnd as [|d ds' Hd _ IH]; simpl; [constructor|]. constructor; [|exact IH].
    rewrite in_map_iff. intros [d' [He Hd']]. apply (sapp_inj_l (comp_prefix key)) in He. subst d'. exact (Hd Hd').
Qed.

(* GEOMCOMP refers to a composition that exists, whatever the spelling of the
   material number on the cell card *)
Theorem geomcomp_name_has_composition key cells l k c d :
  comp_names key cells = Ok l -> dens_normal cells ->
  In (k, c) cells -> live c = true -> int_of_token (c_mat c) = Some key ->
  c_dens c = Some d ->
  In ("m" ++ material_name key c)%string l.
Proof.
  intros H Hn Hin Hl Hm Hd. destruct (comp_names_spec key cells l H Hn) as [S _].
  apply S. exists d. split; [exists k, c; auto|].
  rewrite (material_name_dens key c d Hd). unfold comp_prefix. simpl. f_equal.
  now rewrite sapp_assoc.
Qed.

(* same material number, different density strings: different composition names
   (a fortiori for numerically different densities, whatever the reading [value]) *)
Theorem compositions_distinct (X : Type) (value : string -> X) z c1 c2 d1 d2 :
  c_dens c1 = Some d1 -> c_dens c2 = Some d2 ->
  (value d1 <> value d2 -> material_name z c1 <> material_name z c2) /\
  (d1 = d2 -> material_name z c1 = material_name z c2).
Proof.
  intros H1 H2. rewrite (material_name_dens _ _ _ H1), (material_name_dens _ _ _ H2). split.
  - intros Hv He. apply sapp_inj_l in He. simpl in He. inversion He. subst. now apply Hv.
  - now intros ->.
Qed.

(* two spellings of one material number give one name *)
Lemma material_name_spelling z c1 c2 :
  int_of_token (c_mat c1) = Some z -> int_of_token (c_mat c2) = Some z -> c_dens c1 = c_dens c2 ->
  material_name z c1 = material_name z c2.
Proof. intros _ _ H. unfold material_name. now rewrite H. Qed.

(* ---- provenance and GEOMCOMP together ---- *)
From T4V Require Import C09.ProofsFill.

Lemma material_name_eq z c L : c_dens c = c_dens L -> material_name z c = material_name z L.
Proof. unfold material_name. now intros ->. Qed.

(* the volumes of the cells returned by the "treat FILL" loop (each volume
   carries its cell's idorigin, as pot_to_t4_cell passes it on) are attached to
   the composition named after the LEAF of the hierarchy: a parsed cell without
   fill — the filler, not the container *)
Theorem volume_gets_leaf_material : forall fuel d0 next st' ks vols g,
  pristine d0 -> (forall k, lookup k d0 <> None -> (k <= next)%Z) ->
  treat_fill fuel d0 next = Ok (st', ks) ->
  (forall k v, In (k, v) vols -> v_fictive v = false ->
     In k ks /\ exists c, lookup k (fst st') = Some c /\ v_origin v = c_origin c) ->
  geomcomp vols (fst st') = Ok g ->
  forall k v, In (k, v) vols -> v_fictive v = false ->
    exists L z, lookup (head_of (fst st') k) d0 = Some L /\ c_fill L = None /\
                int_of_token (c_mat L) = Some z /\ member g (material_name z L) k.
Proof.
  intros fuel d0 next st' ks vols g Hpr Hfr Ht Hv Hg k v Hin Hf.
  destruct (provenance_head_is_leaf fuel d0 next st' ks Hpr Hfr Ht) as [_ [Hfin Hx]].
  destruct (Hv k v Hin Hf) as [Hk [c [Hc Ho]]].
  rewrite Forall_forall in Hfin. destruct (Hfin k Hk) as [c' [L [H1 [H2 [H3 [H4 [H5 [H6 _]]]]]]]].
  rewrite Hc in H1. inversion H1; subst c'.
  destruct (geomcomp_name vols (fst st') g Hg) as [A _].
  destruct (A k v Hin Hf) as [cs [z [Hcs [Hz Hm]]]].
  assert (Hsrc : vol_source k v = origin_head k c) by (unfold vol_source, origin_head; now rewrite Ho).
  rewrite Hsrc, (Hx _ _ H3) in Hcs. inversion Hcs; subst cs.
  exists L, z. unfold head_of. rewrite Hc. repeat split; auto.
Qed.
