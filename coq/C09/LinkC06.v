(* C09 — link with C06 (lattices) through C05: C06/LinkC05.v models the stateful
   half of develop_lattice over C05's table ([develop_state]: one
   cell_transform(latkey, trnsf, cache=False) per element, then the element's
   fill and fill transformation) and proves ([develop_state_spec], [ElemCell])
   that every element cell keeps the lattice cell's material, density and
   (empty) provenance.  After it, C05's pot_fill treats the element cells as the
   cells of the lattice's universe.  Composed here with C05_pot_fill_located and
   C09's GEOMCOMP theorem: the volume containing a located point is attached to
   the composition of the last cell of its descent, and when that cell is an
   element cell (an array entry naming the lattice's own universe) this is the
   LATTICE CELL's material number and density.  Nothing of C05/C06 is modified. *)
From Coq Require Import List ZArith Bool String Reals.
From T4V Require C05.Model C05.Spec C05.Proofs Properties.C05 C06.Model C06.LinkC05.
From T4V Require Import Base.Str C09.Model C09.Spec C09.ProofsFill C09.ProofsComp C09.LinkC05.
Import ListNotations.
Open Scope Z_scope.

Module M6 := T4V.C06.Model.
Module L6 := T4V.C06.LinkC05.

Lemma Forall2_In_r {A B} (R : A -> B -> Prop) l m b :
  Forall2 R l m -> In b m -> exists a, In a l /\ R a b.
Proof.
  intros H. induction H as [|x y l m Hxy _ IH]; simpl; [tauto|].
  intros [<-|Hin]; [exists x; auto|]. destruct (IH Hin) as [a [Ha Hr]]. exists a. auto.
Qed.

Section LinkLattice.
  Variable surf : Type.
  Notation T := (list R).
  Notation P := (@M6.vec R).
  Variable teqb : T -> T -> bool.
  Variable tr_surf : T -> surf -> surf.
  Variable inv : T -> P -> P.
  Variable sense : surf -> P -> bool.
  Hypothesis Hsense : forall t o p, sense (tr_surf t o) p = sense o (inv t p).
  Hypothesis Hkey : forall a b, teqb a b = true ->
    @M6.is_nil R a = @M6.is_nil R b /\ forall p, inv a p = inv b p.

  Variable mat_of : Z -> string.
  Variable dens_of : Z -> option string.
  Notation bridge := (bridge T mat_of dens_of).
  Notation bridge_cells := (bridge_cells T mat_of dens_of).

  Theorem lattice_element_material_linked :
    forall (fuel cf : nat) (latkey : Z) (lcl : M5.cell T) (elems : list (@M6.new_elem R))
           (s0 s1 s2 : M5.state T surf) (keys : list Z) (du : list (Z * list Z))
           (ifd ifg : bool) (key : Z) (ks : list Z),
    P5.Inv T surf P (@M6.is_nil R) inv sense s0 ->
    M5.dget latkey (M5.s_cells s0) = Some lcl ->
    Forall (fun e => @M6.is_nil R (M6.ne_trnsf e) = false) elems ->
    L6.develop_state surf teqb tr_surf fuel latkey elems s0 = M5.Ok (keys, s1) ->
    (forall c cl, M5.dget c (M5.s_cells s1) = Some cl -> M5.c_orig cl = []) ->
    (forall u c, In c (M5.du_get u du) -> exists cl, M5.dget c (M5.s_cells s1) = Some cl) ->
    (exists cl, M5.dget key (M5.s_cells s1) = Some cl) ->
    M5.pot_fill T surf (@M6.is_nil R) teqb tr_surf fuel cf du ifd ifg key s1 = M5.Ok (ks, s2) ->
    forall vols g p,
    (forall k, In k ks -> S5.Den T surf P sense s2 p (M5.TRef k) true ->
       exists v ncl, In (k, v) vols /\ v_fictive v = false /\
                     M5.dget k (M5.s_cells s2) = Some ncl /\ v_origin v = M5.c_orig ncl) ->
    geomcomp vols (bridge_cells (M5.s_cells s2)) = Ok g ->
    forall ch, S5.Located T surf P (@M6.is_nil R) inv sense s1 du key p ch ->
    exists k lf z,
      In k ks /\ S5.Den T surf P sense s2 p (M5.TRef k) true /\
      M5.dget (last ch 0) (M5.s_cells s1) = Some lf /\
      int_of_token (mat_of (M5.c_mat lf)) = Some z /\
      member g (material_name z (bridge lf)) k /\
      (* the last cell of the descent is an element cell of the lattice: the
         composition is the lattice cell's *)
      (In (last ch 0) keys ->
         M5.c_mat lf = M5.c_mat lcl /\ M5.c_rho lf = M5.c_rho lcl /\
         member g (material_name z (bridge lcl)) k).
  Proof.
    intros fuel cf latkey lcl elems s0 s1 s2 keys du ifd ifg key ks HI0 Hlat Hnn Hdev Ho Hdu Hk Hpf
           vols g p Hvols Hg ch Hloc.
    destruct (L6.develop_state_spec surf teqb tr_surf inv sense Hsense Hkey fuel latkey lcl elems s0 keys s1
                HI0 Hlat Hnn Hdev) as [HI1 [_ HE]].
    destruct (T5.C05_pot_fill_located T surf P (@M6.is_nil R) teqb tr_surf inv sense Hsense Hkey
                fuel cf du ifd ifg key s1 ks s2 HI1 Ho Hdu Hk Hpf) as [_ [[Hx _] [chs [_ [HR HV]]]]].
    destruct (HV p ch Hloc) as [Hin HVer].
    destruct (Forall2_pick _ _ ks chs ch HR HVer Hin) as [k [Hkin [Hrep Hver]]].
    destruct Hrep as [ncl [lf [H1 [H2 [H3 [H4 [H5 [H6 _]]]]]]]].
    pose proof (proj1 Hver eq_refl) as HD.
    destruct (Hvols k Hkin HD) as [v [ncl' [Hv1 [Hv2 [Hv3 Hv4]]]]].
    rewrite H1 in Hv3. inversion Hv3; subst ncl'. clear Hv3.
    destruct (geomcomp_name vols (bridge_cells (M5.s_cells s2)) g Hg) as [A _].
    destruct (A k v Hv1 Hv2) as [c [z [Hc1 [Hz Hm]]]].
    assert (Hcm : c_mat c = mat_of (M5.c_mat lf) /\ c_dens c = dens_of (M5.c_rho lf)).
    { unfold vol_source in Hc1. rewrite Hv4, H4 in Hc1.
      destruct (S5.prov ch) as [|[a b] rest] eqn:Ep.
      - rewrite lookup_bridge, H1 in Hc1. inversion Hc1; subst c. simpl. now rewrite H5, H6.
      - pose proof (prov_head ch a b rest Ep) as Ha. subst a.
        rewrite lookup_bridge, (Hx _ _ H2) in Hc1. inversion Hc1; subst c. split; reflexivity. }
    destruct Hcm as [Hcm Hcd].
    assert (Hname : material_name z c = material_name z (bridge lf)).
    { unfold material_name. now rewrite Hcd. }
    exists k, lf, z. split; [exact Hkin|]. split; [exact HD|]. split; [exact H2|].
    split; [now rewrite <- Hcm|]. split; [now rewrite <- Hname|].
    intros Hel. destruct (Forall2_In_r _ _ _ _ HE Hel) as [e [_ EC]].
    destruct EC as [cl [E1 [_ [_ [E4 [E5 _]]]]]].
    rewrite H2 in E1. inversion E1; subst cl. split; [exact E4|]. split; [exact E5|].
    assert (Hb : material_name z (bridge lf) = material_name z (bridge lcl)).
    { unfold material_name, LinkC05.bridge. simpl. now rewrite E5. }
    rewrite <- Hb, <- Hname. exact Hm.
  Qed.
End LinkLattice.
