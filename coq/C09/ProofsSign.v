(* C09 — the type of a composition block: writeT4Composition writes DENSITY
   (mass density, absolute value) exactly for the densities whose VALUE is
   negative, POINT_WISE otherwise.  [neg_density] is the model of
   `float(density) < 0.0` (tied); here it is related to the rational value of
   the number spelled on the cell card. *)
From Coq Require Import List NArith ZArith QArith Qpower Lqa Bool String Ascii Lia.
From T4V Require Import Base.Str C09.Model C09.Spec C09.ProofsNorm C09.ProofsValue.
Import ListNotations.
Open Scope string_scope.

(* ---- characters and digits ---- *)
Lemma digit_not_e c : is_digit c = true -> Ascii.eqb "e" c = false.
Proof. destruct c as [[] [] [] [] [] [] [] []]; cbv; intros H; first [reflexivity | discriminate H]. Qed.

Lemma digit_val_zero c : is_digit c = true -> N.eqb (digit_val c) 0 = Ascii.eqb c "0".
Proof. destruct c as [[] [] [] [] [] [] [] []]; cbv; intros H; first [reflexivity | discriminate H]. Qed.

Lemma neg_density_head c r : Ascii.eqb c "-" = false -> neg_density (String c r) = false.
Proof. destruct c as [[] [] [] [] [] [] [] []]; intros H; try reflexivity; discriminate H. Qed.

Lemma contains_e_digits s : all_digits s = true -> contains_char "e" s = false.
Proof.
  induction s as [|c s IH]; [reflexivity|]. cbn [all_digits contains_char]. intros H.
  apply andb_true_iff in H. destruct H as [Hc Hs]. now rewrite (digit_not_e _ Hc), IH.
Qed.

Lemma contains_char_app c a b : contains_char c (a ++ b) = contains_char c a || contains_char c b.
Proof. induction a as [|x a IH]; [reflexivity|]. cbn [append contains_char]. now rewrite IH, orb_assoc. Qed.

Lemma hnz_app a b : has_nonzero_digit (a ++ b) = has_nonzero_digit a || has_nonzero_digit b.
Proof. induction a as [|x a IH]; simpl; [reflexivity | now rewrite IH, orb_assoc]. Qed.

Lemma hnz_zeros k : has_nonzero_digit (zeros k) = false.
Proof. induction k; simpl; auto. Qed.

Lemma hnz_rstrip0 f : has_nonzero_digit (rstrip0 f) = has_nonzero_digit f.
Proof.
  destruct (rstrip0_decomp f) as [j Hj]. rewrite Hj at 2. now rewrite hnz_app, hnz_zeros, orb_false_r.
Qed.

Lemma hnz_canon f : has_nonzero_digit (canon_frac f) = has_nonzero_digit f.
Proof.
  unfold canon_frac. destruct (rstrip0 f) as [|y r] eqn:E.
  - rewrite <- (hnz_rstrip0 f), E. reflexivity.
  - rewrite <- E. apply hnz_rstrip0.
Qed.

Lemma hnz_keep ip f : has_nonzero_digit (keep_frac ip f) = has_nonzero_digit f.
Proof. unfold keep_frac. destruct (nonempty ip); [apply hnz_rstrip0 | apply hnz_canon]. Qed.

(* a digit string is non-zero as a number iff it has a non-zero digit *)
Lemma parse_digits_zero s : all_digits s = true -> forall acc,
  N.eqb (parse_digits s acc) 0 = N.eqb acc 0 && negb (has_nonzero_digit s).
Proof.
  induction s as [|c s IH]; simpl; intros H acc; [now rewrite andb_true_r|].
  apply andb_true_iff in H. destruct H as [Hc Hs]. rewrite (IH Hs), Hc. cbn [andb].
  assert (E : N.eqb (acc * 10 + digit_val c) 0 = N.eqb acc 0 && N.eqb (digit_val c) 0).
  { destruct (N.eqb_spec acc 0) as [->|Ha]; simpl; [reflexivity|].
    apply N.eqb_neq. lia. }
  rewrite E, (digit_val_zero c Hc). destruct (N.eqb acc 0), (Ascii.eqb c "0"), (has_nonzero_digit s); reflexivity.
Qed.

Lemma digits_Z_pos s : all_digits s = true ->
  (has_nonzero_digit s = true <-> (0 < digits_Z s)%Z).
Proof.
  intros H. unfold digits_Z. pose proof (parse_digits_zero s H 0%N) as E. simpl in E.
  destruct (has_nonzero_digit s); simpl in E.
  - apply N.eqb_neq in E. split; [lia | reflexivity].
  - apply N.eqb_eq in E. rewrite E. split; [discriminate | simpl; lia].
Qed.

(* ---- the model's sign test on a normal form ---- *)
Lemma neg_density_normal_form n : wf_number n = true ->
  neg_density (normal_form n) =
  String.eqb (n_sign n) "-" && has_nonzero_digit (n_int n ++ frac_digits n).
Proof.
  unfold wf_number. intros W.
  repeat (apply andb_true_iff in W; destruct W as [W ?]).
  rename H into Hexp, H0 into Hdig, H1 into Hfd, H2 into Hid. rename W into Hsg.
  (* the mantissa part of the normal form *)
  set (fr := match n_frac n with
             | Some f => "." ++ match n_exp n with None => canon_frac f | Some _ => keep_frac (n_int n) f end
             | None => "" end).
  set (ex := match n_exp n with Some (es, ed) => "e" ++ es ++ ed | None => "" end).
  assert (NF : normal_form n = n_sign n ++ (n_int n ++ fr) ++ ex).
  { unfold normal_form, fr, ex. destruct (n_exp n) as [[es ed]|], (n_frac n) as [f|];
      rewrite ?sapp_nil_r, ?sapp_assoc; reflexivity. }
  assert (Hh : has_nonzero_digit (n_int n ++ fr) = has_nonzero_digit (n_int n ++ frac_digits n)).
  { unfold fr, frac_digits. rewrite !hnz_app. f_equal. destruct (n_frac n) as [f|]; [|reflexivity].
    change ("." ++ ?x) with (String "." x). cbn [has_nonzero_digit is_digit]. simpl.
    destruct (n_exp n); [apply hnz_keep | apply hnz_canon]. }
  assert (He : contains_char "e" (n_int n ++ fr) = false).
  { rewrite contains_char_app, (contains_e_digits _ Hid). unfold fr, frac_digits in *.
    destruct (n_frac n) as [f|]; [|reflexivity]. simpl.
    destruct (n_exp n); apply contains_e_digits;
      [now apply all_digits_keep | now apply all_digits_canon]. }
  assert (Ht : take_until "e" ((n_int n ++ fr) ++ ex) = n_int n ++ fr).
  { unfold ex. destruct (n_exp n) as [[es ed]|].
    - change ("e" ++ es ++ ed) with (String "e" (es ++ ed)). now apply take_until_app.
    - rewrite sapp_nil_r. now apply take_until_none. }
  rewrite NF. destruct (sign_ok_cases _ Hsg) as [E | [E | E]]; rewrite E.
  - (* no sign: the first character is a digit or the point *)
    simpl. destruct (n_int n) as [|c r] eqn:Ei.
    + unfold fr, frac_digits in *. destruct (n_frac n) as [f|]; [reflexivity|]. discriminate Hdig.
    + simpl in Hid. apply andb_true_iff in Hid. destruct Hid as [Hc _].
      apply neg_density_head. destruct c as [[] [] [] [] [] [] [] []]; try reflexivity; discriminate Hc.
  - change ("-" ++ ?x) with (String "-" x). cbn [neg_density]. now rewrite Ht, Hh.
  - reflexivity.
Qed.

(* ---- the value ---- *)
Lemma number_value_negative n : wf_number n = true ->
  ((number_value n < 0)%Q <->
   String.eqb (n_sign n) "-" = true /\ (0 < digits_Z (n_int n ++ frac_digits n))%Z).
Proof.
  intros W. unfold number_value.
  set (m := digits_Z (n_int n ++ frac_digits n)).
  set (pw := Qpower (10 # 1) (exp_Z (n_exp n) - Z.of_nat (String.length (frac_digits n)))).
  assert (Hpw : (0 < pw)%Q) by (apply Qpower_0_lt; reflexivity).
  assert (Hm : (0 <= m)%Z) by (unfold m, digits_Z; lia).
  assert (Hy0 : (0 <= inject_Z m * pw)%Q).
  { apply Qmult_le_0_compat; [|lra]. change 0%Q with (inject_Z 0). now rewrite <- Zle_Qle. }
  assert (Hy1 : (0 < m)%Z -> (0 < inject_Z m * pw)%Q).
  { intros H. apply Qmult_lt_0_compat; [|exact Hpw]. change 0%Q with (inject_Z 0). now rewrite <- Zlt_Qlt. }
  assert (Hy2 : m = 0%Z -> (inject_Z m * pw == 0)%Q) by (intros ->; ring).
  rewrite <- Qmult_assoc. unfold sign_Q.
  destruct (String.eqb (n_sign n) "-").
  - split.
    + intros H. split; [reflexivity|]. destruct (Z.eq_dec m 0) as [E|E]; [|lia].
      rewrite (Hy2 E) in H. lra.
    + intros [_ H]. specialize (Hy1 H). lra.
  - split; [intros H; lra | intros [H _]; discriminate H].
Qed.

(* DENSITY (mass density) exactly for the numbers of negative value *)
Theorem neg_density_iff_negative n pad m :
  wf_number n = true -> marker_ok n m = true ->
  exists nd, normalize_float (spell n pad m) = Ok nd /\
             (neg_density nd = true <-> (number_value n < 0)%Q).
Proof.
  intros W M. exists (normal_form n). split; [now apply norm_spell|].
  rewrite (neg_density_normal_form n W), (number_value_negative n W), andb_true_iff.
  unfold wf_number in W. repeat (apply andb_true_iff in W; destruct W as [W ?]).
  assert (Hd : all_digits (n_int n ++ frac_digits n) = true) by now rewrite all_digits_app, H2, H1.
  rewrite (digits_Z_pos _ Hd). reflexivity.
Qed.

(* ---- float() accepts every normalised density of a well-formed number ---- *)
(* so constructCompositionT4's float(normalize_float(density)) cannot raise
   ValueError on the density of a cell card that spells a number *)
Theorem float_ok_normal_form n : wf_number n = true -> float_ok (normal_form n) = true.
Proof.
  unfold wf_number. intros W.
  repeat (apply andb_true_iff in W; destruct W as [W ?]).
  rename H into Hexp, H0 into Hdig, H1 into Hfd, H2 into Hid. rename W into Hsg.
  set (g := match n_frac n with
            | Some f => match n_exp n with None => canon_frac f | Some _ => keep_frac (n_int n) f end
            | None => "" end).
  set (fr := match n_frac n with Some _ => "." ++ g | None => "" end).
  set (ex := match n_exp n with Some (es, ed) => "e" ++ es ++ ed | None => "" end).
  assert (NF : normal_form n = n_sign n ++ n_int n ++ fr ++ ex).
  { unfold normal_form, fr, g, ex. destruct (n_exp n) as [[es ed]|], (n_frac n) as [f|];
      rewrite ?sapp_nil_r, ?sapp_assoc; reflexivity. }
  assert (Hg : all_digits g = true).
  { unfold g, frac_digits in *. destruct (n_frac n) as [f|]; [|reflexivity].
    destruct (n_exp n); [now apply all_digits_keep | now apply all_digits_canon]. }
  assert (Hne : (nonempty (n_int n) || nonempty g) = true).
  { unfold g, frac_digits in *. destruct (n_frac n) as [f|].
    - destruct (n_exp n).
      + unfold keep_frac. destruct (nonempty (n_int n)) eqn:Ei; [reflexivity|].
        unfold canon_frac. destruct (rstrip0 f); reflexivity.
      + unfold canon_frac. destruct (rstrip0 f); now rewrite orb_true_r.
    - simpl in Hdig. now rewrite orb_false_r in *. }
  assert (Hex : nd_head ex = true /\ match ex with String "."%char _ => False | _ => True end /\
                match ex with
                | EmptyString => true
                | String c r => (Ascii.eqb c "e" || Ascii.eqb c "E") &&
                                (let r' := strip_sign r in nonempty r' && all_digits r')
                end = true).
  { unfold ex. destruct (n_exp n) as [[es ed]|]; [|repeat split; reflexivity].
    apply andb_true_iff in Hexp. destruct Hexp as [Hexp Hed].
    apply andb_true_iff in Hexp. destruct Hexp as [Hes Hned].
    assert (Hnsd : ns_head ed = true).
    { rewrite <- (sapp_nil_r ed). apply ns_head_digits_app; auto. }
    repeat split; try reflexivity. simpl.
    now rewrite (strip_sign_app _ _ Hes Hnsd), Hned, Hed. }
  destruct Hex as [Hx1 [Hx2 Hx3]].
  rewrite NF. unfold float_ok.
  assert (Hns : ns_head (n_int n ++ fr ++ ex) = true).
  { apply ns_head_digits_app; [exact Hid|]. unfold fr, g, frac_digits in *.
    destruct (n_frac n) as [f|]; [right; reflexivity|]. left. simpl in Hdig. now rewrite orb_false_r in Hdig. }
  rewrite (strip_sign_app _ _ Hsg Hns).
  assert (Hnd : nd_head (fr ++ ex) = true).
  { unfold fr. destruct (n_frac n); [reflexivity | exact Hx1]. }
  rewrite (span_digits_app (n_int n) (fr ++ ex) Hid Hnd).
  unfold fr. destruct (n_frac n) as [f|] eqn:Ef.
  - change (("." ++ g) ++ ex) with (String "." (g ++ ex)). cbv iota beta.
    rewrite (span_digits_app g ex Hg Hx1), Hne. exact Hx3.
  - change ("" ++ ex) with ex.
    assert (Hgn : g = "") by (unfold g; try rewrite Ef; reflexivity). rewrite Hgn in Hne.
    destruct ex as [|c r]; [now rewrite Hne|].
    destruct (Ascii.eqb c ".") eqn:Ec; [apply Ascii.eqb_eq in Ec; subst c; now elim Hx2|].
    replace (match String c r with String "."%char r0 => span_digits r0 | _ => ("", String c r) end)
      with ("", String c r)
      by (destruct c as [[] [] [] [] [] [] [] []]; try reflexivity; discriminate Ec).
    rewrite Hne. exact Hx3.
Qed.
