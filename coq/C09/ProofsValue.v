(* C09 — normalize_float keeps the value: its output on a spelling of a number
   is the e-spelling of a number with the same rational value. *)
From Coq Require Import List NArith ZArith QArith Qpower Bool String Ascii Lia.
From T4V Require Import Base.Str C09.Model C09.Spec C09.ProofsNorm.
Import ListNotations.
Open Scope string_scope.

(* ---- digits ---- *)
Lemma parse_digits_app a b acc : parse_digits (a ++ b) acc = parse_digits b (parse_digits a acc).
Proof. revert acc. induction a as [|c a IH]; intros acc; simpl; [reflexivity | apply IH]. Qed.

Lemma parse_digits_zeros k acc : parse_digits (zeros k) acc = (acc * 10 ^ N.of_nat k)%N.
Proof.
  revert acc. induction k as [|k IH]; intros acc.
  - simpl. lia.
  - cbn [zeros parse_digits]. rewrite IH. change (digit_val "0") with 0%N.
    rewrite Nat2N.inj_succ, N.pow_succ_r'. lia.
Qed.

Lemma digits_Z_pad s k : digits_Z (s ++ zeros k) = (digits_Z s * 10 ^ Z.of_nat k)%Z.
Proof.
  unfold digits_Z. rewrite parse_digits_app, parse_digits_zeros, N2Z.inj_mul, N2Z.inj_pow.
  now rewrite nat_N_Z.
Qed.

Lemma length_app_s a b : String.length (a ++ b) = (String.length a + String.length b)%nat.
Proof. induction a as [|c a IH]; simpl; [reflexivity | now rewrite IH]. Qed.

Lemma length_zeros k : String.length (zeros k) = k.
Proof. induction k; simpl; auto. Qed.

(* f is its stripped form followed by zeros *)
Lemma rstrip0_decomp f : exists j, f = rstrip0 f ++ zeros j.
Proof.
  induction f as [|c f [j IH]]; [exists 0%nat; reflexivity|]. simpl.
  destruct (rstrip0 f) as [|y r] eqn:E.
  - destruct (Ascii.eqb c "0") eqn:E0.
    + apply Ascii.eqb_eq in E0. subst c. exists (S j). simpl in *. now rewrite IH at 1.
    + exists j. simpl in *. now rewrite IH at 1.
  - exists j. simpl in *. now rewrite IH at 1.
Qed.

(* ---- the arithmetic: padding the fraction does not change the value ---- *)
Lemma ten_nz : ~ (10 # 1) == 0.
Proof. intros H. discriminate H. Qed.

Lemma scale_pad (m e : Z) (len k : nat) :
  inject_Z (m * 10 ^ Z.of_nat k) * Qpower (10 # 1) (e - Z.of_nat (len + k)) ==
  inject_Z m * Qpower (10 # 1) (e - Z.of_nat len).
Proof.
  rewrite inject_Z_mult.
  assert (Hp : inject_Z (10 ^ Z.of_nat k) == Qpower (10 # 1) (Z.of_nat k)).
  { rewrite Zpower_Qpower by lia. reflexivity. }
  rewrite Hp. rewrite <- Qmult_assoc. apply Qmult_comp; [reflexivity|].
  rewrite <- Qpower_plus by exact ten_nz.
  replace (Z.of_nat k + (e - Z.of_nat (len + k)))%Z with (e - Z.of_nat len)%Z by lia. reflexivity.
Qed.

Definition with_frac (n : number) (f : option string) : number :=
  mkNumber (n_sign n) (n_int n) f (n_exp n).

Lemma value_pad n f k : n_frac n = Some f ->
  number_value (with_frac n (Some (f ++ zeros k))) == number_value n.
Proof.
  intros Hf. unfold number_value, with_frac, frac_digits. simpl. rewrite Hf.
  rewrite <- sapp_assoc, digits_Z_pad, length_app_s, length_zeros.
  rewrite <- !Qmult_assoc. apply Qmult_comp; [reflexivity|]. apply scale_pad.
Qed.

Lemma value_strip n f : n_frac n = Some f ->
  number_value (with_frac n (Some (rstrip0 f))) == number_value n.
Proof.
  intros Hf. destruct (rstrip0_decomp f) as [j Hj].
  assert (Hn : number_value n == number_value (with_frac (with_frac n (Some (rstrip0 f))) (Some (rstrip0 f ++ zeros j)))).
  { unfold with_frac. simpl. rewrite <- Hj. destruct n; simpl in *. subst. reflexivity. }
  rewrite Hn. symmetry. apply value_pad. reflexivity.
Qed.

(* the number whose e-spelling normalize_float returns *)
Definition canon_number (n : number) : number :=
  match n_exp n, n_frac n with
  | None, Some f => with_frac n (Some (canon_frac f))
  | Some _, Some f => with_frac n (Some (keep_frac (n_int n) f))
  | _, None => n
  end.

Lemma normal_form_is_spelling n : normal_form n = spell (canon_number n) 0 Me.
Proof.
  unfold normal_form, spell, canon_number, frac_str, exp_str, with_frac.
  destruct (n_exp n) as [[es ed]|] eqn:Ee, (n_frac n) as [f|] eqn:Ef; simpl; rewrite ?Ee, ?Ef; simpl;
    rewrite ?sapp_nil_r, ?sapp_assoc; reflexivity.
Qed.

Lemma value_canon_frac n f : n_frac n = Some f ->
  number_value (with_frac n (Some (canon_frac f))) == number_value n.
Proof.
  intros Ef. unfold canon_frac. destruct (rstrip0 f) as [|y r] eqn:E.
  - (* the fraction was all zeros: "0" is "" padded once *)
    assert (H0 : number_value (with_frac n (Some "0")) == number_value (with_frac n (Some ""))).
    { apply (value_pad (with_frac n (Some "")) "" 1). reflexivity. }
    rewrite H0. rewrite <- E. now apply value_strip.
  - rewrite <- E. now apply value_strip.
Qed.

Lemma canon_number_value n : number_value (canon_number n) == number_value n.
Proof.
  unfold canon_number. destruct (n_exp n) as [[es ed]|] eqn:Ee, (n_frac n) as [f|] eqn:Ef; try reflexivity.
  - unfold keep_frac. destruct (nonempty (n_int n)); [now apply value_strip | now apply value_canon_frac].
  - now apply value_canon_frac.
Qed.

Lemma canon_number_wf n : wf_number n = true -> wf_number (canon_number n) = true.
Proof.
  unfold wf_number, canon_number, with_frac, frac_digits. intros W.
  destruct (n_exp n) as [[es ed]|] eqn:Ee, (n_frac n) as [f|] eqn:Ef; simpl; rewrite ?Ee, ?Ef; try exact W.
  - repeat (apply andb_true_iff in W; destruct W as [W ?]).
    rewrite W, H2, H, (all_digits_keep (n_int n) f H1). simpl.
    unfold keep_frac. destruct (nonempty (n_int n)) eqn:Ei; [reflexivity|].
    assert (Hc : nonempty (canon_frac f) = true) by (unfold canon_frac; destruct (rstrip0 f); reflexivity).
    now rewrite Hc.
  - repeat (apply andb_true_iff in W; destruct W as [W ?]).
    rewrite W, H2, (all_digits_canon f H1). simpl.
    assert (Hc : nonempty (canon_frac f) = true) by (unfold canon_frac; destruct (rstrip0 f); reflexivity).
    rewrite Hc. now rewrite orb_true_r.
Qed.

Theorem normalize_float_value n pad m :
  wf_number n = true -> marker_ok n m = true ->
  exists n', normalize_float (spell n pad m) = Ok (spell n' 0 Me) /\
             wf_number n' = true /\ number_value n' == number_value n /\
             n_sign n' = n_sign n /\ n_int n' = n_int n /\ n_exp n' = n_exp n.
Proof.
  intros W M. exists (canon_number n).
  rewrite (norm_spell n pad m W M), normal_form_is_spelling.
  split; [reflexivity|]. split; [now apply canon_number_wf|]. split; [apply canon_number_value|].
  unfold canon_number, with_frac. destruct (n_exp n) as [[es ed]|] eqn:Ee, (n_frac n); simpl; auto.
Qed.

(* ---- which spellings share a name: exactly those with the same canonical number ---- *)
(* reading a spelling back (reference reading, left inverse of spell . 0 Me) *)
Definition read (s : string) : number :=
  let (ip, t) := span_digits (strip_sign s) in
  let '(fr, t2) := match t with
                   | String "." r => let (f, e) := span_digits r in (Some f, e)
                   | _ => (None, t)
                   end in
  mkNumber (sign_of s) ip fr
    (match t2 with
     | String c r => if is_marker c then Some (sign_of r, strip_sign r) else None
     | EmptyString => None
     end).

Lemma read_spell n : wf_number n = true -> read (spell n 0 Me) = n.
Proof.
  destruct n as [sg ip fr ex]. unfold wf_number, spell, frac_str, exp_str, frac_digits.
  cbn [n_sign n_int n_frac n_exp marker_str]. change (zeros 0) with "".
  intros W. repeat (apply andb_true_iff in W; destruct W as [W ?]).
  rename H into Hexp, H0 into Hdig, H1 into Hfd, H2 into Hid. rename W into Hsg.
  (* the exponent part *)
  set (E := match ex with Some (es, ed) => "e" ++ es ++ ed | None => "" end).
  assert (HE : nd_head E = true /\ ns_head E = true /\
               match E with String "."%char _ => False | _ => True end /\
               match E with
               | String c r => if is_marker c then Some (sign_of r, strip_sign r) else None
               | EmptyString => None
               end = ex).
  { unfold E. destruct ex as [[es ed]|]; [|repeat split; reflexivity].
    apply andb_true_iff in Hexp. destruct Hexp as [Hexp Hed].
    apply andb_true_iff in Hexp. destruct Hexp as [Hes Hne].
    assert (Hnsd : ns_head ed = true).
    { rewrite <- (sapp_nil_r ed). apply ns_head_digits_app; auto. }
    repeat split; try reflexivity. simpl.
    now rewrite (sign_of_app _ _ Hes Hnsd), (strip_sign_app _ _ Hes Hnsd). }
  destruct HE as [HE1 [HE2 [HE3 HE4]]].
  unfold read.
  destruct fr as [f|].
  - assert (Hns : ns_head (ip ++ ("." ++ f ++ "") ++ E) = true) by (apply ns_head_digits_app; auto).
    rewrite (strip_sign_app _ _ Hsg Hns), (sign_of_app _ _ Hsg Hns).
    rewrite (span_digits_app ip (("." ++ f ++ "") ++ E) Hid eq_refl).
    change (("." ++ f ++ "") ++ E) with (String "." ((f ++ "") ++ E)). cbv iota beta.
    rewrite sapp_nil_r, (span_digits_app f E Hfd HE1). now rewrite HE4.
  - simpl in Hdig. rewrite orb_false_r in Hdig.
    assert (Hns : ns_head (ip ++ "" ++ E) = true) by (apply ns_head_digits_app; auto).
    rewrite (strip_sign_app _ _ Hsg Hns), (sign_of_app _ _ Hsg Hns).
    change ("" ++ E) with E. rewrite (span_digits_app ip E Hid HE1).
    destruct E as [|c r]; [now rewrite <- HE4|].
    destruct (Ascii.eqb c ".") eqn:Ec.
    + apply Ascii.eqb_eq in Ec. subst c. now elim HE3.
    + replace (match String c r with String "."%char r0 => let (f, e) := span_digits r0 in (Some f, e)
               | _ => (None, String c r) end) with (@None string, String c r)
        by (destruct c as [[] [] [] [] [] [] [] []]; try reflexivity; discriminate Ec).
      now rewrite HE4.
Qed.

Lemma spell_injective n1 n2 : wf_number n1 = true -> wf_number n2 = true ->
  spell n1 0 Me = spell n2 0 Me -> n1 = n2.
Proof. intros W1 W2 H. rewrite <- (read_spell n1 W1), <- (read_spell n2 W2), H. reflexivity. Qed.

(* two spellings get the same normalised string iff they spell the same
   canonical number: same sign string, same integer digits, same fraction up to
   final zeros, same exponent string *)
Theorem same_name_iff n1 p1 m1 n2 p2 m2 :
  wf_number n1 = true -> marker_ok n1 m1 = true -> wf_number n2 = true -> marker_ok n2 m2 = true ->
  (normalize_float (spell n1 p1 m1) = normalize_float (spell n2 p2 m2) <->
   canon_number n1 = canon_number n2).
Proof.
  intros W1 M1 W2 M2. rewrite (norm_spell n1 p1 m1 W1 M1), (norm_spell n2 p2 m2 W2 M2).
  rewrite !normal_form_is_spelling. split.
  - intros H. inversion H as [H']. apply spell_injective; auto using canon_number_wf.
  - now intros ->.
Qed.

(* float-free: numerically different densities never share a name *)
Theorem different_values_different_names n1 p1 m1 n2 p2 m2 :
  wf_number n1 = true -> marker_ok n1 m1 = true -> wf_number n2 = true -> marker_ok n2 m2 = true ->
  ~ number_value n1 == number_value n2 ->
  normalize_float (spell n1 p1 m1) <> normalize_float (spell n2 p2 m2).
Proof.
  intros W1 M1 W2 M2 Hv H. apply Hv.
  apply (same_name_iff n1 p1 m1 n2 p2 m2 W1 M1 W2 M2) in H.
  rewrite <- (canon_number_value n1), <- (canon_number_value n2), H. reflexivity.
Qed.
