(* C09 — normalize_float keeps the value: its output on a spelling of a number
   is the e-spelling of a number with the same rational value. *)
From Coq Require Import List NArith ZArith QArith Qpower Bool String Ascii Lia.
From T4V Require Import Base.Str C09.Model C09.Spec C09.ProofsNorm.
Import ListNotations.
Open Scope string_scope.

(* ---- digits ---- *)
Lemma parse_digits_app a b acc : parse_digits (a ++ b) acc = parse_digits b (parse_digits a acc).
Proof. revert acc. induction a as [|c a IH]; intros acc; simpl; [reflexivity | apply IH]. Qed.

Lemma parse_digits_zeros k acc : parse_digits (zeros k) acc = (acc * 10 ^ N.of_nat k)%N.
Proof.
  revert acc. induction k as [|k IH]; intros acc.
  - simpl. lia.
  - cbn [zeros parse_digits]. rewrite IH. change (digit_val "0") with 0%N.
    rewrite Nat2N.inj_succ, N.pow_succ_r'. lia.
Qed.

Lemma digits_Z_pad s k : digits_Z (s ++ zeros k) = (digits_Z s * 10 ^ Z.of_nat k)%Z.
Proof.
  unfold digits_Z. rewrite parse_digits_app, parse_digits_zeros, N2Z.inj_mul, N2Z.inj_pow.
  now rewrite nat_N_Z.
Qed.

Lemma length_app_s a b : String.length (a ++ b) = (String.length a + String.length b)%nat.
Proof. induction a as [|c a IH]; simpl; [reflexivity | now rewrite IH]. Qed.

Lemma length_zeros k : String.length (zeros k) = k.
Proof. induction k; simpl; auto. Qed.

(* f is its stripped form followed by zeros *)
Lemma rstrip0_decomp f : exists j, f = rstrip0 f ++ zeros j.
Proof.
  induction f as [|c f [j IH]]; [exists 0%nat; reflexivity|]. simpl.
  destruct (rstrip0 f) as [|y r] eqn:E.
  - destruct (Ascii.eqb c "0") eqn:E0.
    + apply Ascii.eqb_eq in E0. subst c. exists (S j). simpl in *. now rewrite IH at 1.
    + exists j. simpl in *. now rewrite IH at 1.
  - exists j. simpl in *. now rewrite IH at 1.
Qed.

(* ---- the arithmetic: padding the fraction does not change the value ---- *)
Lemma ten_nz : ~ (10 # 1) == 0.
Proof. intros H. discriminate H. Qed.

Lemma scale_pad (m e : Z) (len k : nat) :
  inject_Z (m * 10 ^ Z.of_nat k) * Qpower (10 # 1) (e - Z.of_nat (len + k)) ==
  inject_Z m * Qpower (10 # 1) (e - Z.of_nat len).
Proof.
  rewrite inject_Z_mult.
  assert (Hp : inject_Z (10 ^ Z.of_nat k) == Qpower (10 # 1) (Z.of_nat k)).
  { rewrite Zpower_Qpower by lia. reflexivity. }
  rewrite Hp. rewrite <- Qmult_assoc. apply Qmult_comp; [reflexivity|].
  rewrite <- Qpower_plus by exact ten_nz.
  replace (Z.of_nat k + (e - Z.of_nat (len + k)))%Z with (e - Z.of_nat len)%Z by lia. reflexivity.
Qed.

Definition with_frac (n : number) (f : option string) : number :=
  mkNumber (n_sign n) (n_int n) f (n_exp n).

Lemma value_pad n f k : n_frac n = Some f ->
  number_value (with_frac n (Some (f ++ zeros k))) == number_value n.
Proof.
  intros Hf. unfold number_value, with_frac, frac_digits. simpl. rewrite Hf.
  rewrite <- sapp_assoc, digits_Z_pad, length_app_s, length_zeros.
  rewrite <- !Qmult_assoc. apply Qmult_comp; [reflexivity|]. apply scale_pad.
Qed.

Lemma value_strip n f : n_frac n = Some f ->
  number_value (with_frac n (Some (rstrip0 f))) == number_value n.
Proof.
  intros Hf. destruct (rstrip0_decomp f) as [j Hj].
  assert (Hn : number_value n == number_value (with_frac (with_frac n (Some (rstrip0 f))) (Some (rstrip0 f ++ zeros j)))).
  { unfold with_frac. simpl. rewrite <- Hj. destruct n; simpl in *. subst. reflexivity. }
  rewrite Hn. symmetry. apply value_pad. reflexivity.
Qed.

(* the number whose e-spelling normalize_float returns *)
Definition canon_number (n : number) : number :=
  match n_exp n, n_frac n with
  | None, Some f => with_frac n (Some (canon_frac f))
  | Some _, Some f => with_frac n (Some (keep_frac (n_int n) f))
  | _, None => n
  end.

Lemma normal_form_is_spelling n : normal_form n = spell (canon_number n) 0 Me.
Proof.
  unfold normal_form, spell, canon_number, frac_str, exp_str, with_frac.
  destruct (n_exp n) as [[es ed]|] eqn:Ee, (n_frac n) as [f|] eqn:Ef; simpl; rewrite ?Ee, ?Ef; simpl;
    rewrite ?sapp_nil_r, ?sapp_assoc; reflexivity.
Qed.

Lemma value_canon_frac n f : n_frac n = Some f ->
  number_value (with_frac n (Some (canon_frac f))) == number_value n.
Proof.
  intros Ef. unfold canon_frac. destruct (rstrip0 f) as [|y r] eqn:E.
  - (* the fraction was all zeros: "0" is "" padded once *)
    assert (H0 : number_value (with_frac n (Some "0")) == number_value (with_frac n (Some ""))).
    { apply (value_pad (with_frac n (Some "")) "" 1). reflexivity. }
    rewrite H0. rewrite <- E. now apply value_strip.
  - rewrite <- E. now apply value_strip.
Qed.

Lemma canon_number_value n : number_value (canon_number n) == number_value n.
Proof.
  unfold canon_number. destruct (n_exp n) as [[es ed]|] eqn:Ee, (n_frac n) as [f|] eqn:Ef; try reflexivity.
  - unfold keep_frac. destruct (nonempty (n_int n)); [now apply value_strip | now apply value_canon_frac].
  - now apply value_canon_frac.
Qed.

Lemma canon_number_wf n : wf_number n = true -> wf_number (canon_number n) = true.
Proof.
  unfold wf_number, canon_number, with_frac, frac_digits. intros W.
  destruct (n_exp n) as [[es ed]|] eqn:Ee, (n_frac n) as [f|] eqn:Ef; simpl; rewrite ?Ee, ?Ef; try exact W.
  - repeat (apply andb_true_iff in W; destruct W as [W ?]).
    rewrite W, H2, H, (all_digits_keep (n_int n) f H1). simpl.
    unfold keep_frac. destruct (nonempty (n_int n)) eqn:Ei; [reflexivity|].
    assert (Hc : nonempty (canon_frac f) = true) by (unfold canon_frac; destruct (rstrip0 f); reflexivity).
    now rewrite Hc.
  - repeat (apply andb_true_iff in W; destruct W as [W ?]).
    rewrite W, H2, (all_digits_canon f H1). simpl.
    assert (Hc : nonempty (canon_frac f) = true) by (unfold canon_frac; destruct (rstrip0 f); reflexivity).
    rewrite Hc. now rewrite orb_true_r.
Qed.

Theorem normalize_float_value n pad m :
  wf_number n = true -> marker_ok n m = true ->
  exists n', normalize_float (spell n pad m) = Ok (spell n' 0 Me) /\
             wf_number n' = true /\ number_value n' == number_value n /\
             n_sign n' = n_sign n /\ n_int n' = n_int n /\ n_exp n' = n_exp n.
Proof.
  intros W M. exists (canon_number n).
  rewrite (norm_spell n pad m W M), normal_form_is_spelling.
  split; [reflexivity|]. split; [now apply canon_number_wf|]. split; [apply canon_number_value|].
  unfold canon_number, with_frac. destruct (n_exp n) as [[es ed]|] eqn:Ee, (n_frac n); simpl; auto.
Qed.
