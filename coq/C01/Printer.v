(* C01 — model of what is printed for the volumes:
     VolumeT4.__str__            print_vol
     writeT4Geometry's VOLU loop print_line / print_table (skipped cells dropped)
   as lists of tokens (the text is the tokens joined by blanks; the idorigin
   comment after ENDV is not part of the token line), and a reader of such
   lines (what TRIPOLI-4 reads: counts followed by that many numbers; an
   operand `None` is not a number, so the line is unreadable). *)
From Coq Require Import List ZArith Bool.
From T4V Require Import C01.Model.
Import ListNotations.
Open Scope Z_scope.

Fixpoint insert_by {X} (le : X -> X -> bool) (x : X) (l : list X) : list X :=
  match l with
  | [] => [x]
  | y :: r => if le x y then x :: l else y :: insert_by le x r
  end.
Definition isort {X} (le : X -> X -> bool) (l : list X) : list X :=
  fold_right (insert_by le) [] l.

(* sorted(set(...)) *)
Definition canon (l : list Z) : list Z := isort Z.leb (dedup l).

Inductive tok :=
| KVOLU | KEQUA | KPLUS | KMINUS | KUNION | KINTE | KFICTIVE | KENDV
| KNone                      (* str(None) *)
| TN (n : Z).

Definition print_ids (ids : list (option Z)) : list tok :=
  map (fun x => match x with Some k => TN k | None => KNone end) ids.

Definition print_set (kw : tok) (l : list Z) : list tok :=
  match canon l with
  | [] => []
  | c => kw :: TN (Z.of_nat (List.length c)) :: map TN c
  end.

Definition print_ops (o : option (op * list (option Z))) : list tok :=
  match o with
  | None => []
  | Some (o, ids) =>
      (match o with OInter => KINTE | OUnion => KUNION end)
      :: TN (Z.of_nat (List.length ids)) :: print_ids ids
  end.

Definition print_fict (b : bool) : list tok := if b then [KFICTIVE] else [].

Definition print_vol (v : vol) : list tok :=
  [KEQUA] ++ print_set KPLUS (v_plus v) ++ print_set KMINUS (v_minus v)
  ++ print_ops (v_ops v) ++ print_fict (v_fict v).

Definition print_line (k : Z) (v : vol) : list tok := KVOLU :: TN k :: print_vol v ++ [KENDV].

Definition print_table (skipped : list Z) (d : dict vol) : list (list tok) :=
  map (fun kv => print_line (fst kv) (snd kv)) (written skipped d).

(* ---- the reader ---- *)
Fixpoint take_nums (c : nat) (l : list tok) : option (list Z * list tok) :=
  match c with
  | O => Some ([], l)
  | S c' => match l with
            | TN n :: r => match take_nums c' r with
                           | Some (ns, rest) => Some (n :: ns, rest)
                           | None => None
                           end
            | _ => None
            end
  end.

Definition read_count (l : list tok) : option (list Z * list tok) :=
  match l with
  | TN c :: r => if 0 <=? c then take_nums (Z.to_nat c) r else None
  | _ => None
  end.

Definition tok_eqb (a b : tok) : bool :=
  match a, b with
  | KVOLU, KVOLU | KEQUA, KEQUA | KPLUS, KPLUS | KMINUS, KMINUS | KUNION, KUNION
  | KINTE, KINTE | KFICTIVE, KFICTIVE | KENDV, KENDV | KNone, KNone => true
  | TN x, TN y => x =? y
  | _, _ => false
  end.

(* an optional `kw n id...` section *)
Definition read_set (kw : tok) (l : list tok) : option (list Z * list tok) :=
  match l with
  | t :: r => if tok_eqb t kw then read_count r else Some ([], l)
  | [] => Some ([], l)
  end.

Definition read_ops (l : list tok) : option (option (op * list (option Z)) * list tok) :=
  match l with
  | KUNION :: r => match read_count r with
                   | Some (ids, r') => Some (Some (OUnion, map Some ids), r')
                   | None => None
                   end
  | KINTE :: r => match read_count r with
                  | Some (ids, r') => Some (Some (OInter, map Some ids), r')
                  | None => None
                  end
  | _ => Some (None, l)
  end.

Definition read_fict (l : list tok) : bool * list tok :=
  match l with KFICTIVE :: r => (true, r) | _ => (false, l) end.

Definition read_body (k : Z) (r1 : list tok) : option (Z * vol) :=
  match read_set KPLUS r1 with
  | None => None
  | Some (plus, r2) =>
      match read_set KMINUS r2 with
      | None => None
      | Some (minus, r3) =>
          match read_ops r3 with
          | None => None
          | Some (ops, r4) =>
              let '(fict, r5) := read_fict r4 in
              match r5 with
              | [KENDV] => Some (k, mkVol plus minus ops [] fict)
              | _ => None
              end
          end
      end
  end.

Definition read_line (l : list tok) : option (Z * vol) :=
  match l with
  | KVOLU :: TN k :: KEQUA :: r1 => read_body k r1
  | _ => None
  end.

Fixpoint read_table (lines : list (list tok)) : option (dict vol) :=
  match lines with
  | [] => Some []
  | l :: r => match read_line l, read_table r with
              | Some kv, Some d => Some (kv :: d)
              | _, _ => None
              end
  end.
