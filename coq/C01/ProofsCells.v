(* C01 — from pot_to_t4_cell to whole cells: pot_flag / pot_expand_surfs /
   pot_optimise hand pot_to_t4_cell a tree with fresh distinct node ids,
   convert_cellref satisfies the specification assumed in ProofsT4, and the final
   loop of construct_volume_t4 gives every converted cell a non-FICTIVE volume,
   numbered as the cell, that denotes the cell. *)
From Coq Require Import List ZArith Bool Lia.
From T4V Require Import C01.Model C01.Spec C01.ProofsTree C01.ProofsT4.
Import ListNotations.
Open Scope Z_scope.

(* ---- subsequences ---- *)
Inductive subseq {X} : list X -> list X -> Prop :=
| ss_nil : subseq [] []
| ss_skip x a b : subseq a b -> subseq a (x :: b)
| ss_take x a b : subseq a b -> subseq (x :: a) (x :: b).

Lemma subseq_refl {X} (l : list X) : subseq l l.
Proof. induction l; [constructor | now apply ss_take]. Qed.
Lemma subseq_nil {X} (l : list X) : subseq [] l.
Proof. induction l; [constructor | now apply ss_skip]. Qed.
Lemma subseq_In {X} (a b : list X) x : subseq a b -> In x a -> In x b.
Proof. induction 1 as [|y a b Hs IH|y a b Hs IH]; simpl; intros Hin; auto. destruct Hin; auto. Qed.
Lemma subseq_NoDup {X} (a b : list X) : subseq a b -> NoDup b -> NoDup a.
Proof.
  induction 1 as [|y a b Hs IH|y a b Hs IH]; intros Hn; auto.
  - inversion Hn; auto.
  - inversion Hn as [|? ? Hnot Hnd]; subst. constructor; auto.
    intros Hin. apply Hnot. eapply subseq_In; eauto.
Qed.
Lemma subseq_app {X} (a a' b b' : list X) : subseq a a' -> subseq b b' -> subseq (a ++ b) (a' ++ b').
Proof. induction 1; simpl; intros Hb; auto; [apply ss_skip | apply ss_take]; auto. Qed.
Lemma subseq_trans {X} (a b c : list X) : subseq a b -> subseq b c -> subseq a c.
Proof.
  intros Hab Hbc. revert a Hab. induction Hbc; intros a' Hab; auto.
  - apply ss_skip; auto.
  - inversion Hab; subst; [apply ss_skip | apply ss_take]; auto.
Qed.

(* ---- what a tree contains: node ids / leaves, by one function ---- *)
Section Gather.
  Context {A Y : Type} (gl : A -> list Y) (gn : Z -> list Y).
  Fixpoint gather (t : tree A) : list Y :=
    match t with
    | Leaf a => gl a
    | Ref _ => []
    | Node id _ args => gn id ++ flat_map gather args
    end.
End Gather.

Lemma ids_of_gather {A} (t : tree A) : ids_of t = gather (fun _ => []) (fun id => [id]) t.
Proof.
  induction t as [a|c|id o args IH] using tree_ind2; try reflexivity.
  simpl. f_equal. induction IH as [|x r Hx Hr IHr]; simpl; [reflexivity | now rewrite Hx, IHr].
Qed.

Definition all_leaves {A} (t : tree A) : list A := gather (fun a => [a]) (fun _ => []) t.

Lemma leaves_ok_all {A} (P : A -> Prop) (t : tree A) : leaves_ok P t <-> Forall P (all_leaves t).
Proof.
  induction t as [a|c|id o args IH] using tree_ind2.
  - simpl. split; intros H; [constructor; auto | now inversion H].
  - simpl. split; auto.
  - rewrite leaves_ok_node. unfold all_leaves. simpl.
    induction IH as [|x r Hx Hr IHr]; simpl.
    + split; constructor.
    + rewrite Forall_app. fold (all_leaves x). rewrite <- Hx, <- IHr.
      split; intros H; [inversion H; auto | destruct H; constructor; auto].
Qed.

(* ---- pot_optimise keeps a subsequence of the ids and of the leaves ---- *)
Section OptGather.
  Context {Y : Type} (gl : Z -> list Y) (gn : Z -> list Y).
  Notation g := (gather gl gn).

  Lemma splice_gather o x : subseq (flat_map g (splice o x)) (g x).
  Proof.
    destruct x as [a|c|id o' sub]; simpl.
    - rewrite app_nil_r; apply subseq_refl.
    - constructor.
    - destruct (op_eqb o o').
      + rewrite <- (app_nil_l (flat_map g sub)) at 1.
        apply subseq_app; [apply subseq_nil | apply subseq_refl].
      + simpl. rewrite app_nil_r. apply subseq_refl.
  Qed.

  Lemma optimise_gather t : forall t', optimise t = Some t' -> subseq (g t') (g t).
  Proof.
    induction t as [a|c|id o args IH] using tree_ind2; intros t' H.
    - inversion H; apply subseq_refl.
    - inversion H; apply subseq_refl.
    - cbn [optimise] in H.
      assert (subseq (flat_map g (flat_map (splice o) (somes (map optimise args))))
                     (flat_map g args)) as Hs.
      { clear H. induction IH as [|x r Hx Hr IHr]; simpl; [constructor|].
        destruct (optimise x) as [x'|] eqn:Ex; simpl.
        - rewrite flat_map_app. apply subseq_app; [|exact IHr].
          eapply subseq_trans; [apply splice_gather | now apply Hx].
        - rewrite <- (app_nil_l (flat_map g _)) at 1. apply subseq_app; [apply subseq_nil | exact IHr]. }
      destruct (op_eqb o OInter && existsb is_none (map optimise args)); [discriminate|].
      destruct o.
      + destruct (opposite _); [discriminate|]. inversion H; subst. simpl.
        apply subseq_app; [apply subseq_refl | exact Hs].
      + inversion H; subst. simpl. apply subseq_app; [apply subseq_refl | exact Hs].
  Qed.
End OptGather.

Lemma optimise_ids t t' : optimise t = Some t' -> subseq (ids_of t') (ids_of t).
Proof. intros H. rewrite !ids_of_gather. now apply optimise_gather. Qed.

Lemma optimise_leaves (P : Z -> Prop) t t' : optimise t = Some t' -> leaves_ok P t -> leaves_ok P t'.
Proof.
  intros H. rewrite !leaves_ok_all. intros Hf. rewrite Forall_forall in *.
  intros x Hx. apply Hf. eapply subseq_In; [|exact Hx]. now apply optimise_gather.
Qed.

(* ---- pot_flag: ids are distinct and lie in (n, n'] ---- *)
Definition ids_in (l : list Z) (lo hi : Z) : Prop := forall k, In k l -> lo < k <= hi.

Lemma flag_ids_list {A} (args : list (tree A)) :
  Forall (fun x => forall n, n <= snd (flag x n) /\ NoDup (ids_of (fst (flag x n))) /\
                             ids_in (ids_of (fst (flag x n))) n (snd (flag x n))) args ->
  forall n, n <= snd (map_state flag args n) /\
            NoDup (flat_map ids_of (fst (map_state flag args n))) /\
            ids_in (flat_map ids_of (fst (map_state flag args n))) n (snd (map_state flag args n)).
Proof.
  induction 1 as [|x r Hx Hr IH]; intros n; simpl.
  - split; [lia|]. split; [constructor | intros k []].
  - specialize (Hx n). destruct (flag x n) as [x' n1] eqn:Ex. simpl in Hx.
    specialize (IH n1). destruct (map_state flag r n1) as [r' n2] eqn:Er. simpl in *.
    destruct Hx as (H1 & H2 & H3). destruct IH as (H4 & H5 & H6).
    split; [lia|]. split.
    + apply NoDup_app_intro; auto. intros k Ha Hb. apply H3 in Ha. apply H6 in Hb. lia.
    + intros k Hk. apply in_app_or in Hk as [Hk|Hk]; [apply H3 in Hk | apply H6 in Hk]; lia.
Qed.

Lemma flag_ids {A} (t : tree A) : forall n,
  n <= snd (flag t n) /\ NoDup (ids_of (fst (flag t n))) /\
  ids_in (ids_of (fst (flag t n))) n (snd (flag t n)).
Proof.
  induction t as [a|c|id o args IH] using tree_ind2; intros n.
  - simpl. split; [lia|]. split; [constructor | intros k []].
  - simpl. split; [lia|]. split; [constructor | intros k []].
  - simpl. pose proof (flag_ids_list args IH n) as H.
    destruct (map_state flag args n) as [args' n'] eqn:E. simpl in *.
    destruct H as (H1 & H2 & H3). split; [lia|]. split.
    + constructor; [|assumption]. intros Hin. apply H3 in Hin. lia.
    + intros k [<-|Hk]; [lia|]. apply H3 in Hk. lia.
Qed.

Lemma flag_leaves_list {A} (args : list (tree A)) :
  Forall (fun x => forall n, all_leaves (fst (flag x n)) = all_leaves x) args ->
  forall n, flat_map all_leaves (fst (map_state flag args n)) = flat_map all_leaves args.
Proof.
  induction 1 as [|x r Hx Hr IH]; intros n; simpl; [reflexivity|].
  specialize (Hx n). destruct (flag x n) as [x' n1]. specialize (IH n1).
  destruct (map_state flag r n1) as [r' n2]. simpl in *. now rewrite Hx, IH.
Qed.

Lemma flag_leaves {A} (t : tree A) n : all_leaves (fst (flag t n)) = all_leaves t.
Proof.
  revert n. induction t as [a|c|id o args IH] using tree_ind2; intros n; try reflexivity.
  simpl. pose proof (flag_leaves_list args IH n) as H.
  destruct (map_state flag args n) as [args' n']. simpl in *. unfold all_leaves in *. simpl. exact H.
Qed.

(* ---- pot_expand_surfs: old ids kept, new ids in (n, n'], leaves non-zero ---- *)
Definition exp_ok (matching : dict (list Z)) (t : tree msurf) : Prop :=
  forall n t' n', expand matching t n = Ok (t', n') ->
    n <= n' /\
    (forall k, In k (ids_of t') -> In k (ids_of t) \/ n < k <= n') /\
    (NoDup (ids_of t) -> (forall k, In k (ids_of t) -> k <= n) -> NoDup (ids_of t')) /\
    (leaves_ok (msurf_ok matching) t -> leaves_ok nz t').

Lemma leaf_list_ids (f : Z -> Z) ids : flat_map ids_of (map (fun x => Leaf (f x)) ids) = [].
Proof. induction ids; simpl; auto. Qed.

Lemma leaf_list_nz (f : Z -> Z) ids : Forall (fun x => f x <> 0) ids ->
  Forall (leaves_ok nz) (map (fun x => Leaf (f x)) ids).
Proof. induction 1; simpl; constructor; auto. Qed.

Lemma expand_leaf_ok matching a : exp_ok matching (Leaf a).
Proof.
  intros n t' n' H. simpl in H. unfold expand_leaf in H. destruct a as [s sub].
  destruct (lookup (Z.abs s) matching) as [ids|] eqn:El; [|discriminate].
  assert (forall x, In x ids -> leaves_ok (msurf_ok matching) (Leaf (s, sub)) -> signed s x <> 0) as Hsg.
  { intros x Hin (Hs & Hids & _). simpl in *. specialize (Hids ids El).
    rewrite Forall_forall in Hids. specialize (Hids x Hin). unfold signed. destruct (0 <? s); lia. }
  destruct sub as [k|].
  - destruct (Z.of_nat (length ids) <? k); [discriminate|].
    destruct (py_index ids (k - 1)) as [x|] eqn:Ep; [|discriminate]. inversion H; subst.
    split; [lia|]. split; [intros j []|]. split; [constructor|].
    intros Hok. simpl. apply Hsg; auto. unfold py_index in Ep.
    destruct (0 <=? k - 1); [eapply nth_error_In; eauto|].
    destruct (0 <=? Z.of_nat (length ids) + (k - 1)); [eapply nth_error_In; eauto | discriminate].
  - assert (forall o (f : Z -> Z), (leaves_ok (msurf_ok matching) (Leaf (s, None)) -> Forall (fun x => f x <> 0) ids) ->
            n <= n + 1 /\
            (forall k, In k (ids_of (Node (n + 1) o (map (fun x => Leaf (f x)) ids))) ->
                       In k (ids_of (Leaf (s, @None Z))) \/ n < k <= n + 1) /\
            (NoDup (ids_of (Leaf (s, @None Z))) -> (forall k, In k (ids_of (Leaf (s, @None Z))) -> k <= n) ->
             NoDup (ids_of (Node (n + 1) o (map (fun x => Leaf (f x)) ids)))) /\
            (leaves_ok (msurf_ok matching) (Leaf (s, None)) ->
             leaves_ok nz (Node (n + 1) o (map (fun x => Leaf (f x)) ids)))) as Hnode.
    { intros o f Hf. split; [lia|]. cbn [ids_of]. rewrite leaf_list_ids. split; [|split].
      - intros k [<-|[]]. right; lia.
      - intros _ _. constructor; [intros [] | constructor].
      - intros Hok. apply leaves_ok_node. apply leaf_list_nz. auto. }
    assert (leaves_ok (msurf_ok matching) (Leaf (s, None)) -> Forall (fun x => x <> 0) ids) as Hnz.
    { intros (_ & Hids & _). simpl in Hids. now apply Hids. }
    destruct ids as [|x [|y r]].
    + destruct (s <? 0); inversion H; subst;
        [apply (Hnode OInter Z.opp) | apply (Hnode OUnion (fun x => x))]; intros; constructor.
    + inversion H; subst. split; [lia|]. split; [intros j []|]. split; [constructor|].
      intros Hok. simpl. apply Hsg; auto. now left.
    + destruct (s <? 0); inversion H; subst.
      * apply (Hnode OInter Z.opp). intros Hok. specialize (Hnz Hok).
        rewrite Forall_forall in *. intros z Hz. specialize (Hnz z Hz). lia.
      * apply (Hnode OUnion (fun x => x)). auto.
Qed.

Lemma expand_ids_list matching (args : list (tree msurf)) :
  Forall (exp_ok matching) args ->
  forall n args' n', map_state_res (expand matching) args n = Ok (args', n') ->
    n <= n' /\
    (forall k, In k (flat_map ids_of args') -> In k (flat_map ids_of args) \/ n < k <= n') /\
    (NoDup (flat_map ids_of args) -> (forall k, In k (flat_map ids_of args) -> k <= n) ->
     NoDup (flat_map ids_of args')) /\
    (Forall (leaves_ok (msurf_ok matching)) args -> Forall (leaves_ok nz) args').
Proof.
  induction 1 as [|x r Hx Hr IH]; intros n args' n' H; simpl in H.
  - inversion H; subst. split; [lia|]. split; [intros k []|]. split; [constructor|]. constructor.
  - destruct (expand matching x n) as [[x' n1]|] eqn:Ex; [|discriminate].
    destruct (map_state_res (expand matching) r n1) as [[r' n2]|] eqn:Er; [|discriminate].
    inversion H; subst.
    destruct (Hx n x' n1 Ex) as (A1 & A2 & A3 & A4).
    destruct (IH n1 r' n' Er) as (B1 & B2 & B3 & B4).
    split; [lia|]. split; [|split].
    + intros k Hk. simpl in Hk. apply in_app_or in Hk as [Hk|Hk].
      * destruct (A2 k Hk) as [Hq|Hq]; [left; simpl; apply in_or_app; now left | right; lia].
      * destruct (B2 k Hk) as [Hq|Hq]; [left; simpl; apply in_or_app; now right | right; lia].
    + intros Hnd Hle. simpl in *. apply NoDup_app_intro.
      * apply A3; [eapply NoDup_app_l; eauto|]. intros k Hk. apply Hle, in_or_app; now left.
      * apply B3; [eapply NoDup_app_r; eauto|]. intros k Hk.
        assert (k <= n) by (apply Hle, in_or_app; now right). lia.
      * intros k Ha Hb. destruct (A2 k Ha) as [Ha'|Ha']; destruct (B2 k Hb) as [Hb'|Hb'].
        -- eapply NoDup_app_disj; eauto.
        -- assert (k <= n) by (apply Hle, in_or_app; now left). lia.
        -- assert (k <= n) by (apply Hle, in_or_app; now right). lia.
        -- lia.
    + intros Hok. inversion Hok; subst. constructor; auto.
Qed.

Lemma expand_ok matching t : exp_ok matching t.
Proof.
  induction t as [a|c|id o args IH] using tree_ind2.
  - apply expand_leaf_ok.
  - intros n t' n' H. simpl in H. inversion H; subst.
    split; [lia|]. split; [intros k []|]. split; [constructor | auto].
  - intros n t' n' H. simpl in H.
    destruct (map_state_res (expand matching) args n) as [[args' n1]|] eqn:E; [|discriminate].
    inversion H; subst.
    destruct (expand_ids_list matching args IH n args' n' E) as (A1 & A2 & A3 & A4).
    split; [lia|]. cbn [ids_of]. split; [|split].
    + intros k [<-|Hk]; [left; now left|]. destruct (A2 k Hk); [left; now right | now right].
    + intros Hnd Hle. inversion Hnd; subst. constructor.
      * intros Hin. destruct (A2 id Hin) as [Hq|Hq]; [contradiction|].
        assert (id <= n) by (apply Hle; now left). lia.
      * apply A3; auto. intros k Hk. apply Hle. now right.
    + intros Hok. apply leaves_ok_node. apply A4. now apply leaves_ok_node in Hok.
Qed.

(* ---- every volume made by the conversion is FICTIVE ---- *)
Definition newfict (s s' : st) : Prop :=
  forall k v, lookup k (vols s') = Some v -> lookup k (vols s) = Some v \/ v_fict v = true.

Lemma newfict_refl s : newfict s s.
Proof. intros k v H; now left. Qed.
Lemma newfict_trans a b c : newfict a b -> newfict b c -> newfict a c.
Proof. intros H1 H2 k v H. destruct (H2 k v H) as [Hq|Hq]; auto. Qed.

Lemma newfict_set pid V s : v_fict V = true -> newfict s (set_vol pid V s).
Proof.
  intros Hf k v H. simpl in H. destruct (Z.eq_dec k pid) as [->|Hne].
  - rewrite lookup_dset_same in H. inversion H; subst. now right.
  - rewrite lookup_dset_other in H by assumption. now left.
Qed.

Lemma conv_all_fict {X} (f : X -> st -> res (option Z * st)) (l : list X) :
  Forall (fun x => forall s r s', f x s = Ok (r, s') -> newfict s s') l ->
  forall s rs s', conv_all f l s = Ok (rs, s') -> newfict s s'.
Proof.
  induction 1 as [|x r Hx Hr IH]; intros s rs s' H; simpl in H.
  - inversion H; subst. apply newfict_refl.
  - destruct (f x s) as [[y s1]|] eqn:Ef; [|discriminate].
    destruct (conv_all f r s1) as [[ys s2]|] eqn:Er; [|discriminate].
    inversion H; subst. eapply newfict_trans; eauto.
Qed.

Section Fict.
  Variable cref : Z -> st -> res (option Z * st).
  Variable orig : list (Z * Z).
  Variables u0 u1 : Z.
  Hypothesis cref_fict : forall c s r s', cref c s = Ok (r, s') -> newfict s s'.

  Lemma crefs_fict (l : list Z) :
    Forall (fun x => forall s r s', cref x s = Ok (r, s') -> newfict s s') l.
  Proof. induction l; constructor; auto. intros s r s' H. eapply cref_fict; eauto. Qed.

  Lemma to_t4_fict t : forall s r s', to_t4 cref orig u0 u1 t s = Ok (r, s') -> newfict s s'.
  Proof.
    induction t as [n|c|pid o args IH] using tree_ind2; intros s r s' H.
    - simpl in H. unfold convert_surface in H.
      destruct (lookup n (scache s)); [inversion H; subst; apply newfict_refl|].
      destruct (conv_equa [n]) as [p m]. inversion H; subst.
      intros k v Hl. simpl in Hl. destruct (Z.eq_dec k (cnt s + 1)) as [->|Hne].
      + rewrite lookup_dset_same in Hl. inversion Hl; subst. now right.
      + rewrite lookup_dset_other in Hl by assumption. now left.
    - simpl in H. eauto.
    - cbn [to_t4] in H.
      assert (forall sel s rs s', conv_sel (to_t4 cref orig u0 u1) sel 0 args s = Ok (rs, s') ->
                                  newfict s s') as Hsel.
      { intros sel s0 rs s0' Hc. rewrite conv_sel_select in Hc.
        eapply conv_all_fict; [|exact Hc]. now apply Forall_select. }
      assert (forall s rs s', conv_sel cref (fun _ _ => true) 0 (refs_of args) s = Ok (rs, s') ->
                              newfict s s') as Hrefs.
      { intros s0 rs s0' Hc. rewrite conv_sel_select, select_all in Hc.
        eapply conv_all_fict; [|exact Hc]. apply crefs_fict. }
      destruct o.
      + destruct (conv_equa (leaves_of args)) as [p m].
        destruct (conv_sel _ _ 0 args s) as [[ids1 s1]|] eqn:E1; [|discriminate].
        destruct (conv_sel cref _ 0 (refs_of args) s1) as [[ids2 s2]|] eqn:E2; [|discriminate].
        inversion H; subst.
        eapply newfict_trans; [eapply Hsel; eauto|].
        eapply newfict_trans; [eapply Hrefs; eauto|]. now apply newfict_set.
      + destruct (largest args) as [k|].
        * destruct (conv_sel _ (fun i _ => Nat.eqb i k) 0 args s) as [[ids0 s0]|] eqn:E0; [|discriminate].
          destruct ids0 as [|[main|] [|? ?]]; try discriminate.
          destruct (lookup main (vols s0)) as [mv|]; [|discriminate].
          destruct (conv_sel _ (fun i _ => negb (Nat.eqb i k)) 0 args s0) as [[ids1 s1]|] eqn:E1; [|discriminate].
          destruct (conv_sel cref _ 0 (refs_of args) s1) as [[ids2 s2]|] eqn:E2; [|discriminate].
          inversion H; subst.
          eapply newfict_trans; [eapply Hsel; eauto|].
          eapply newfict_trans; [eapply Hsel; eauto|].
          eapply newfict_trans; [eapply Hrefs; eauto|]. now apply newfict_set.
        * destruct (conv_sel _ _ 0 args s) as [[ids1 s1]|] eqn:E1; [|discriminate].
          destruct (conv_sel cref _ 0 (refs_of args) s1) as [[ids2 s2]|] eqn:E2; [|discriminate].
          destruct (conv_equa [u0; - u1]) as [p m]. inversion H; subst.
          eapply newfict_trans; [eapply Hsel; eauto|].
          eapply newfict_trans; [eapply Hrefs; eauto|]. now apply newfict_set.
  Qed.
End Fict.

Lemma pot_convert_fict cref matching u0 u1 cl :
  (forall c s r s', cref c s = Ok (r, s') -> newfict s s') ->
  forall s r s', pot_convert cref matching u0 u1 cl s = Ok (r, s') -> newfict s s'.
Proof.
  intros Hc s r s' H. unfold pot_convert in H. destruct cl as [g orig].
  destruct (flag g (cnt s)) as [t1 n1]. destruct (expand matching t1 n1) as [[t2 n2]|]; [|discriminate].
  destruct (optimise t2) as [t3|].
  - apply (to_t4_fict cref orig u0 u1 Hc) in H. intros k v Hl. exact (H k v Hl).
  - inversion H; subst. intros k v Hl. now left.
Qed.

Lemma convert_cellref_fict fuel cells matching u0 u1 : forall c s r s',
  convert_cellref fuel cells matching u0 u1 c s = Ok (r, s') -> newfict s s'.
Proof.
  induction fuel as [|f IH]; intros c s r s' H; simpl in H.
  - destruct (lookup c (ccache s)); [inversion H; subst; apply newfict_refl | discriminate].
  - destruct (lookup c (ccache s)); [inversion H; subst; apply newfict_refl|].
    destruct (lookup c cells) as [cl|]; [|discriminate].
    destruct (pot_convert _ matching u0 u1 cl s) as [[[id|] s1]|] eqn:Ep; [| |discriminate].
    + inversion H; subst. apply (pot_convert_fict _ _ _ _ _ IH) in Ep. exact Ep.
    + inversion H; subst. apply (pot_convert_fict _ _ _ _ _ IH) in Ep.
      eapply newfict_trans; [exact Ep|]. intros k v Hl. simpl in Hl.
      destruct (Z.eq_dec k (cnt s1 + 1)) as [->|Hne].
      * rewrite lookup_dset_same in Hl. inversion Hl; subst. now right.
      * rewrite lookup_dset_other in Hl by assumption. now left.
Qed.

(* ---- pot_convert, convert_cellref, the conversion loop ---- *)
Section Cells.
  Variable sigma : Z -> bool.
  Variable cden : Z -> bool.
  Variable cells : dict cell.
  Variable matching : dict (list Z).
  Variables u0 u1 : Z.
  Hypothesis Hu0 : 0 < u0.
  Hypothesis Hu1 : 0 < u1.
  Hypothesis Hcons : consistent sigma u0 u1.
  (* surfaces of every cell are well formed and [cden] is the region of each cell *)
  Hypothesis cells_ok : forall c g orig, lookup c cells = Some (g, orig) ->
    leaves_ok (msurf_ok matching) g /\ cden c = mden sigma cden matching g.

  Notation post := (post sigma cden).
  Notation sem := (sem sigma cden).
  Notation fspec := (fspec sigma cden).

  Lemma sem_set_cnt n s : sem (set_cnt n s) <-> sem s.
  Proof. unfold ProofsT4.sem. simpl. tauto. Qed.

  Lemma pot_convert_post cref : (forall c, fspec cref (fun _ => []) cden c) ->
    forall g orig s r s', pot_convert cref matching u0 u1 (g, orig) s = Ok (r, s') ->
    leaves_ok (msurf_ok matching) g -> inv s ->
    post [] (mden sigma cden matching g) s r s'.
  Proof.
    intros Hcref g orig s r s' H Hok Hinv. unfold pot_convert in H.
    pose proof (flag_ids g (cnt s)) as (F1 & F2 & F3).
    pose proof (flag_leaves g (cnt s)) as F4.
    pose proof (flag_den sigma cden matching g (cnt s)) as F5.
    destruct (flag g (cnt s)) as [t1 n1] eqn:Ef. simpl in F1, F2, F3, F4, F5.
    destruct (expand matching t1 n1) as [[t2 n2]|] eqn:Ee; [|discriminate].
    destruct (expand_ok matching t1 n1 t2 n2 Ee) as (E1 & E2 & E3 & E4).
    assert (leaves_ok (msurf_ok matching) t1) as Hok1.
    { apply leaves_ok_all. rewrite F4. now apply leaves_ok_all. }
    assert (tden sigma cden t2 = mden sigma cden matching g) as Hden2.
    { rewrite <- F5. eapply expand_den; eauto. }
    assert (inv (set_cnt n2 s)) as Hinv2.
    { intros k v Hl. simpl in *. apply Hinv in Hl. lia. }
    destruct (optimise t2) as [t3|] eqn:Eo.
    - destruct (optimise_den sigma cden t2) as [Hs _]. specialize (Hs t3 Eo).
      assert (NoDup (ids_of t2)) as Hnd2.
      { apply E3; auto. intros k Hk. apply F3 in Hk. lia. }
      assert (forall k, In k (ids_of t3) -> cnt s < k <= n2) as Hr3.
      { intros k Hk. apply (subseq_In _ _ _ (optimise_ids _ _ Eo)) in Hk.
        destruct (E2 k Hk) as [Hq|Hq]; [apply F3 in Hq|]; lia. }
      assert (fresh (ids_of t3) (set_cnt n2 s)) as Hfr.
      { split; [eapply subseq_NoDup; [apply optimise_ids; eauto | exact Hnd2]|].
        intros k Hk. apply Hr3 in Hk. simpl. split; [|lia].
        destruct (lookup k (vols s)) eqn:El; [|reflexivity]. apply Hinv in El. lia. }
      pose proof (to_t4_sound sigma cden cref orig u0 u1 Hu0 Hu1 Hcons Hcref t3
                    (optimise_leaves nz _ _ Eo (E4 Hok1)) _ _ _ H Hinv2 Hfr)
        as (P1 & P2 & P3 & P4 & P5).
      simpl in P1, P2. split; [exact P1|]. split; [lia|]. split; [exact P3|]. split.
      + intros k Hk. destruct (P4 k Hk) as [Hq|[Hq|Hq]]; simpl in *; auto.
        * apply Hr3 in Hq. right; right; lia.
        * right; right; lia.
      + intros Hnn Hsem. assert (sem (set_cnt n2 s)) as Hsem2 by (apply sem_set_cnt; exact Hsem).
        destruct (P5 Hnn Hsem2) as [Q1 Q2].
        split; [exact Q1|]. rewrite <- Hden2, <- Hs. exact Q2.
    - inversion H; subst. destruct (optimise_den sigma cden t2) as [_ Hn]. specialize (Hn Eo).
      split; [apply extends_refl|]. split; [simpl; lia|]. split; [exact Hinv2|]. split.
      + intros k Hk. now left.
      + intros _ Hsem. split; [now apply sem_set_cnt|]. simpl. now rewrite <- Hden2.
  Qed.

  Lemma convert_cellref_spec fuel : forall c,
    fspec (convert_cellref fuel cells matching u0 u1) (fun _ => []) cden c.
  Proof.
    assert (forall c s id, lookup c (ccache s) = Some id -> inv s ->
                           post [] (cden c) s (Some id) s) as Hhit.
    { intros c s id Hl Hinv. split; [apply extends_refl|]. split; [lia|]. split; [exact Hinv|]. split.
      - intros k Hk; now left.
      - intros _ Hsem. split; [exact Hsem|]. destruct Hsem as [_ Hc]. simpl. eauto. }
    induction fuel as [|f IH]; intros c s r s' H Hinv _; simpl in H.
    - destruct (lookup c (ccache s)) as [id|] eqn:El; [|discriminate].
      inversion H; subst. now apply Hhit.
    - destruct (lookup c (ccache s)) as [id|] eqn:El; [inversion H; subst; now apply Hhit|].
      destruct (lookup c cells) as [[g orig]|] eqn:Ec; [|discriminate].
      destruct (cells_ok c g orig Ec) as [Hok Hden].
      destruct (pot_convert _ matching u0 u1 (g, orig) s) as [[[id|] s1]|] eqn:Ep; [| |discriminate].
      + inversion H; subst.
        destruct (pot_convert_post _ IH g orig s _ _ Ep Hok Hinv) as (P1 & P2 & P3 & P4 & P5).
        split; [exact P1|]. split; [exact P2|]. split; [exact P3|]. split; [exact P4|].
        intros Hnn Hsem. simpl in Hnn. destruct (P5 Hnn Hsem) as [[Q1 Q2] Q3].
        rewrite Hden. split; [|exact Q3]. split; simpl; [exact Q1|].
        intros c' id' Hl. destruct (Z.eq_dec c' c) as [->|Hne].
        * rewrite lookup_dset_same in Hl. inversion Hl; subst. rewrite Hden. exact Q3.
        * rewrite lookup_dset_other in Hl by assumption. eauto.
      + (* the referenced cell is empty: the stand-in volume PLUS u0 MINUS u0 *)
        inversion H; subst; clear H.
        destruct (pot_convert_post _ IH g orig s _ _ Ep Hok Hinv) as (P1 & P2 & P3 & P4 & P5).
        set (id := cnt s1 + 1) in *.
        set (V := mkVol [u0] [u0] None (snd (g, orig)) true) in *.
        assert (lookup id (vols s1) = None) as Hnew.
        { destruct (lookup id (vols s1)) eqn:E; [|reflexivity]. apply P3 in E. unfold id in E. lia. }
        assert (extends (vols s1) (dset id V (vols s1))) as He by now apply extends_dset.
        assert (equa sigma V = false) as HeV.
        { unfold Spec.equa, V. simpl. destruct (sigma u0); reflexivity. }
        split; [eapply extends_trans; eauto|]. split; [simpl; unfold id; lia|]. split; [|split].
        * intros k v Hl. simpl in *. destruct (Z.eq_dec k id) as [->|Hne]; [lia|].
          rewrite lookup_dset_other in Hl by assumption. apply P3 in Hl. unfold id. lia.
        * intros k Hk. simpl in Hk. destruct (Z.eq_dec k id) as [->|Hne]; [right; right; unfold id; lia|].
          rewrite lookup_dset_other in Hk by assumption. exact (P4 k Hk).
        * intros Hnn Hsem. simpl in Hnn.
          destruct (P5 (nonone_extends _ _ He Hnn) Hsem) as [[Q1 Q2] Q3]. simpl in Q3.
          assert (Vden sigma (dset id V (vols s1)) id (cden c)) as Hv.
          { rewrite Hden, Q3, <- HeV. apply Vden_plain; [apply lookup_dset_same | reflexivity]. }
          split; [|exact Hv]. split; simpl.
          -- intros n id' Hl. destruct (Q1 n id' Hl) as (w & Hw & Ho & Hq). exists w; auto.
          -- intros c' id' Hl. destruct (Z.eq_dec c' c) as [->|Hne].
             ++ rewrite lookup_dset_same in Hl. inversion Hl; subst. exact Hv.
             ++ rewrite lookup_dset_other in Hl by assumption. eapply Vden_mono; eauto.
  Qed.

  (* copying a volume under another key keeps its denotation *)
  Lemma Vden_copy d d' j key v b :
    lookup j d = Some v -> lookup key d' = Some (unfict v) -> extends d d' ->
    Vden sigma d j b -> Vden sigma d' key b.
  Proof.
    intros Hj Hk He H.
    assert (forall ids bs, VdenL sigma d ids bs -> VdenL sigma d' ids bs) as HL.
    { intros ids bs. induction 1; constructor; auto. eapply Vden_mono; eauto. }
    inversion H as [id v0 Hl Ho|id v0 ids bs Hl Ho HLs|id v0 ids bs Hl Ho HLs]; subst;
      rewrite Hj in Hl; inversion Hl; subst v0.
    - change (equa sigma v) with (equa sigma (unfict v)). now apply Vden_plain.
    - change (equa sigma v) with (equa sigma (unfict v)). eapply Vden_inte; eauto.
    - change (equa sigma v) with (equa sigma (unfict v)). eapply Vden_union; eauto.
  Qed.

  (* what the loop leaves for one cell of the conversion list *)
  Definition cell_done (d : dict vol) (key : Z) : Prop :=
    (exists v, lookup key d = Some v /\ v_fict v = false /\ Vden sigma d key (cden key)) \/
    (lookup key d = None /\ cden key = false).

  Lemma convert_cells_sound fuel : forall todo s s',
    convert_cells fuel cells matching u0 u1 todo s = Ok s' -> inv s ->
    NoDup todo -> (forall k, In k todo -> lookup k (vols s) = None /\ k <= cnt s) ->
    extends (vols s) (vols s') /\ inv s' /\ cnt s <= cnt s' /\ bound todo s s' /\
    (forall k v, lookup k (vols s') = Some v -> v_fict v = false ->
                 In k todo \/ lookup k (vols s) = Some v) /\
    (nonone (vols s') -> sem s -> sem s' /\ forall k, In k todo -> cell_done (vols s') k).
  Proof.
    induction todo as [|key r IH]; intros s s' H Hinv Hnd Hfr; simpl in H.
    - inversion H; subst. split; [apply extends_refl|]. split; [exact Hinv|]. split; [lia|]. split.
      + intros k Hk; now left.
      + split; [intros k v Hl _; now right|]. intros _ Hs. split; [exact Hs | intros k []].
    - destruct (lookup key cells) as [[g orig]|] eqn:Ec; [|discriminate].
      destruct (cells_ok key g orig Ec) as [Hok Hden].
      destruct (pot_convert _ matching u0 u1 (g, orig) s) as [[[j|] s1]|] eqn:Ep; [| |discriminate].
      + destruct (lookup j (vols s1)) as [vj|] eqn:Ej; [|discriminate].
        destruct (pot_convert_post _ (convert_cellref_spec fuel) g orig s _ _ Ep Hok Hinv)
          as (P1 & P2 & P3 & P4 & P5).
        pose proof (pot_convert_fict _ _ _ _ _ (convert_cellref_fict fuel cells matching u0 u1) _ _ _ Ep) as Pf.
        destruct (Hfr key (or_introl eq_refl)) as [Hkn Hkle].
        assert (lookup key (vols s1) = None) as Hk1.
        { destruct (lookup key (vols s1)) eqn:El; [|reflexivity]. exfalso.
          destruct (P4 key) as [Hq|[[]|Hq]]; try congruence; lia. }
        set (s1' := set_vol key (unfict vj) s1) in *.
        assert (extends (vols s1) (vols s1')) as He1 by (simpl; now apply extends_dset).
        assert (inv s1') as Hi1.
        { intros k v Hl. simpl in Hl. destruct (Z.eq_dec k key) as [->|Hne]; [simpl; lia|].
          rewrite lookup_dset_other in Hl by assumption. apply P3 in Hl. exact Hl. }
        inversion Hnd as [|? ? Hnotin Hnd']; subst.
        assert (forall k, In k r -> lookup k (vols s1') = None /\ k <= cnt s1') as Hfr1.
        { intros k Hk. destruct (Hfr k (or_intror Hk)) as [Hn Hle]. split; [|simpl; lia].
          simpl. rewrite lookup_dset_other by (intros ->; contradiction).
          destruct (lookup k (vols s1)) eqn:El; [|reflexivity]. exfalso.
          destruct (P4 k) as [Hq|[[]|Hq]]; try congruence; lia. }
        destruct (IH s1' s' H Hi1 Hnd' Hfr1) as (I1 & I2 & I3 & I4 & I5 & I6).
        split; [eapply extends_trans; [exact P1|]; eapply extends_trans; eauto|].
        split; [exact I2|]. split; [simpl in I3; lia|]. split; [|split].
        * intros k Hk. destruct (I4 k Hk) as [Hq|[Hq|Hq]].
          -- simpl in Hq. destruct (Z.eq_dec k key) as [->|Hne]; [right; left; now left|].
             rewrite lookup_dset_other in Hq by assumption.
             destruct (P4 k Hq) as [Hq'|[[]|Hq']]; auto.
          -- right; left; now right.
          -- right; right. simpl in Hq. lia.
        * intros k v Hl Hf. destruct (I5 k v Hl Hf) as [Hq|Hq]; [left; now right|].
          simpl in Hq. destruct (Z.eq_dec k key) as [->|Hne]; [left; now left|].
          rewrite lookup_dset_other in Hq by assumption.
          destruct (Pf k v Hq) as [Hq'|Hq']; [now right | congruence].
        * intros Hnn Hsem.
          pose proof (nonone_extends _ _ I1 Hnn) as Hnn1'.
          pose proof (nonone_extends _ _ He1 Hnn1') as Hnn1.
          destruct (P5 Hnn1 Hsem) as [Q1 Q2]. simpl in Q2.
          assert (sem s1') as Hs1' by (apply (sem_extends_vols sigma cden s1 _ He1 Q1)).
          destruct (I6 Hnn Hs1') as [R1 R2]. split; [exact R1|].
          intros k [<-|Hk]; [|now apply R2].
          left. exists (unfict vj). split; [apply I1; simpl; apply lookup_dset_same|].
          split; [reflexivity|]. rewrite Hden.
          eapply Vden_mono; [exact I1|].
          eapply Vden_copy; [exact Ej | simpl; apply lookup_dset_same | exact He1 | exact Q2].
      + destruct (pot_convert_post _ (convert_cellref_spec fuel) g orig s _ _ Ep Hok Hinv)
          as (P1 & P2 & P3 & P4 & P5).
        pose proof (pot_convert_fict _ _ _ _ _ (convert_cellref_fict fuel cells matching u0 u1) _ _ _ Ep) as Pf.
        destruct (Hfr key (or_introl eq_refl)) as [Hkn Hkle].
        inversion Hnd as [|? ? Hnotin Hnd']; subst.
        assert (forall k, In k (key :: r) -> lookup k (vols s1) = None /\ k <= cnt s1) as Hfr1.
        { intros k Hk. destruct (Hfr k Hk) as [Hn Hle]. split; [|lia].
          destruct (lookup k (vols s1)) eqn:El; [|reflexivity]. exfalso.
          destruct (P4 k) as [Hq|[[]|Hq]]; try congruence; lia. }
        destruct (IH s1 s' H P3 Hnd' (fun k Hk => Hfr1 k (or_intror Hk))) as (I1 & I2 & I3 & I4 & I5 & I6).
        split; [eapply extends_trans; eauto|]. split; [exact I2|]. split; [lia|]. split; [|split].
        * intros k Hk. destruct (I4 k Hk) as [Hq|[Hq|Hq]].
          -- destruct (P4 k Hq) as [Hq'|[[]|Hq']]; auto.
          -- right; left; now right.
          -- right; right; lia.
        * intros k v Hl Hf. destruct (I5 k v Hl Hf) as [Hq|Hq]; [left; now right|].
          destruct (Pf k v Hq) as [Hq'|Hq']; [now right | congruence].
        * intros Hnn Hsem.
          destruct (P5 (nonone_extends _ _ I1 Hnn) Hsem) as [Q1 Q2]. simpl in Q2.
          destruct (I6 Hnn Q1) as [R1 R2]. split; [exact R1|].
          intros k [<-|Hk]; [|now apply R2].
          right. split; [|now rewrite Hden].
          destruct (lookup key (vols s')) eqn:El; [|reflexivity]. exfalso.
          destruct (Hfr1 key (or_introl eq_refl)) as [Hn1 Hle1].
          destruct (I4 key) as [Hq|[Hq|Hq]]; try congruence; try contradiction; lia.
  Qed.
End Cells.

(* ---- no operand is ever None (convert_cellref always returns a volume id) ---- *)
Definition is_some {X} (o : option X) : bool := match o with Some _ => true | None => false end.

Definition somespec {X} (f : X -> st -> res (option Z * st)) (x : X) : Prop :=
  forall s r s', f x s = Ok (r, s') -> nonone (vols s) -> nonone (vols s') /\ r <> None.

Lemma nonone_dset k V d : nonone d -> ops_ok (v_ops V) = true -> nonone (dset k V d).
Proof.
  intros Hn Ho k' v Hl. destruct (Z.eq_dec k' k) as [->|Hne].
  - rewrite lookup_dset_same in Hl. now inversion Hl; subst.
  - rewrite lookup_dset_other in Hl by assumption. eauto.
Qed.

Lemma conv_all_some {X} (f : X -> st -> res (option Z * st)) (l : list X) :
  Forall (somespec f) l ->
  forall s rs s', conv_all f l s = Ok (rs, s') -> nonone (vols s) ->
                  nonone (vols s') /\ forallb is_some rs = true.
Proof.
  induction 1 as [|x r Hx Hr IH]; intros s rs s' H Hn; simpl in H.
  - inversion H; subst. auto.
  - destruct (f x s) as [[y s1]|] eqn:Ef; [|discriminate].
    destruct (conv_all f r s1) as [[ys s2]|] eqn:Er; [|discriminate].
    inversion H; subst. destruct (Hx _ _ _ Ef Hn) as [Hn1 Hy].
    destruct (IH _ _ _ Er Hn1) as [Hn2 Hys]. split; [exact Hn2|]. simpl.
    destruct y; [exact Hys | congruence].
Qed.

Lemma ops_ok_mk o ids : forallb is_some ids = true -> ops_ok (mk_ops o ids) = true.
Proof. destruct ids as [|x r]; simpl; auto. Qed.

Section Some.
  Variable cref : Z -> st -> res (option Z * st).
  Variable orig : list (Z * Z).
  Variables u0 u1 : Z.
  Hypothesis cref_some : forall c, somespec cref c.

  Lemma crefs_some (l : list Z) : Forall (somespec cref) l.
  Proof. induction l; constructor; auto. Qed.

  Lemma to_t4_some t : somespec (to_t4 cref orig u0 u1) t.
  Proof.
    induction t as [n|c|pid o args IH] using tree_ind2; intros s r s' H Hn.
    - simpl in H. unfold convert_surface in H.
      destruct (lookup n (scache s)); [inversion H; subst; split; [assumption | discriminate]|].
      destruct (conv_equa [n]) as [p m]. inversion H; subst. split; [|discriminate].
      simpl. now apply nonone_dset.
    - simpl in H. exact (cref_some c s r s' H Hn).
    - cbn [to_t4] in H.
      assert (forall sel s rs s', conv_sel (to_t4 cref orig u0 u1) sel 0 args s = Ok (rs, s') ->
                nonone (vols s) -> nonone (vols s') /\ forallb is_some rs = true) as Hsel.
      { intros sel s0 rs s0' Hc. rewrite conv_sel_select in Hc.
        eapply conv_all_some; [|exact Hc]. now apply Forall_select. }
      assert (forall s rs s', conv_sel cref (fun _ _ => true) 0 (refs_of args) s = Ok (rs, s') ->
                nonone (vols s) -> nonone (vols s') /\ forallb is_some rs = true) as Hrefs.
      { intros s0 rs s0' Hc. rewrite conv_sel_select, select_all in Hc.
        eapply conv_all_some; [|exact Hc]. apply crefs_some. }
      destruct o.
      + destruct (conv_equa (leaves_of args)) as [p m].
        destruct (conv_sel _ _ 0 args s) as [[ids1 s1]|] eqn:E1; [|discriminate].
        destruct (conv_sel cref _ 0 (refs_of args) s1) as [[ids2 s2]|] eqn:E2; [|discriminate].
        inversion H; subst. split; [|discriminate].
        destruct (Hsel _ _ _ _ E1 Hn) as [N1 S1]. destruct (Hrefs _ _ _ E2 N1) as [N2 S2].
        simpl. apply nonone_dset; [exact N2|]. simpl. apply ops_ok_mk.
        now rewrite forallb_app, S1, S2.
      + destruct (largest args) as [k|].
        * destruct (conv_sel _ (fun i _ => Nat.eqb i k) 0 args s) as [[ids0 s0]|] eqn:E0; [|discriminate].
          destruct ids0 as [|[main|] [|? ?]]; try discriminate.
          destruct (lookup main (vols s0)) as [mv|]; [|discriminate].
          destruct (conv_sel _ (fun i _ => negb (Nat.eqb i k)) 0 args s0) as [[ids1 s1]|] eqn:E1; [|discriminate].
          destruct (conv_sel cref _ 0 (refs_of args) s1) as [[ids2 s2]|] eqn:E2; [|discriminate].
          inversion H; subst. split; [|discriminate].
          destruct (Hsel _ _ _ _ E0 Hn) as [N0 _]. destruct (Hsel _ _ _ _ E1 N0) as [N1 S1].
          destruct (Hrefs _ _ _ E2 N1) as [N2 S2].
          simpl. apply nonone_dset; [exact N2|]. simpl. apply ops_ok_mk.
          now rewrite forallb_app, S1, S2.
        * destruct (conv_sel _ _ 0 args s) as [[ids1 s1]|] eqn:E1; [|discriminate].
          destruct (conv_sel cref _ 0 (refs_of args) s1) as [[ids2 s2]|] eqn:E2; [|discriminate].
          destruct (conv_equa [u0; - u1]) as [p m]. inversion H; subst. split; [|discriminate].
          destruct (Hsel _ _ _ _ E1 Hn) as [N1 S1]. destruct (Hrefs _ _ _ E2 N1) as [N2 S2].
          simpl. apply nonone_dset; [exact N2|]. simpl.
          rewrite forallb_app. unfold is_some in S1, S2. now rewrite S1, S2.
  Qed.
End Some.

Lemma pot_convert_nonone cref matching u0 u1 cl : (forall c, somespec cref c) ->
  forall s r s', pot_convert cref matching u0 u1 cl s = Ok (r, s') -> nonone (vols s) -> nonone (vols s').
Proof.
  intros Hc s r s' H Hn. unfold pot_convert in H. destruct cl as [g orig].
  destruct (flag g (cnt s)) as [t1 n1]. destruct (expand matching t1 n1) as [[t2 n2]|]; [|discriminate].
  destruct (optimise t2) as [t3|].
  - exact (proj1 (to_t4_some cref orig u0 u1 Hc t3 _ _ _ H Hn)).
  - inversion H; subst. exact Hn.
Qed.

Lemma convert_cellref_some fuel cells matching u0 u1 : forall c,
  somespec (convert_cellref fuel cells matching u0 u1) c.
Proof.
  induction fuel as [|f IH]; intros c s r s' H Hn; simpl in H.
  - destruct (lookup c (ccache s)); [inversion H; subst; split; [assumption|discriminate] | discriminate].
  - destruct (lookup c (ccache s)); [inversion H; subst; split; [assumption|discriminate]|].
    destruct (lookup c cells) as [cl|]; [|discriminate].
    destruct (pot_convert _ matching u0 u1 cl s) as [[[id|] s1]|] eqn:Ep; [| |discriminate].
    + inversion H; subst. split; [|discriminate]. simpl.
      exact (pot_convert_nonone _ _ _ _ _ IH _ _ _ Ep Hn).
    + inversion H; subst. split; [|discriminate]. simpl.
      apply nonone_dset; [exact (pot_convert_nonone _ _ _ _ _ IH _ _ _ Ep Hn) | reflexivity].
Qed.

Lemma convert_cells_nonone fuel cells matching u0 u1 : forall todo s s',
  convert_cells fuel cells matching u0 u1 todo s = Ok s' -> nonone (vols s) -> nonone (vols s').
Proof.
  induction todo as [|key r IH]; intros s s' H Hn; simpl in H; [inversion H; subst; exact Hn|].
  destruct (lookup key cells) as [cl|]; [|discriminate].
  destruct (pot_convert _ matching u0 u1 cl s) as [[[j|] s1]|] eqn:Ep; [| |discriminate].
  - destruct (lookup j (vols s1)) as [vj|] eqn:Ej; [|discriminate].
    pose proof (pot_convert_nonone _ _ _ _ _ (convert_cellref_some fuel cells matching u0 u1) _ _ _ Ep Hn) as N1.
    apply (IH _ _ H). simpl. apply nonone_dset; [exact N1|]. simpl. exact (N1 j vj Ej).
  - apply (IH _ _ H).
    exact (pot_convert_nonone _ _ _ _ _ (convert_cellref_some fuel cells matching u0 u1) _ _ _ Ep Hn).
Qed.

(* pot_to_t4_cell and convert_cellref without the "no None operand" guard *)
Lemma to_t4_sound_total sigma cden cref orig u0 u1 :
  0 < u0 -> 0 < u1 -> consistent sigma u0 u1 ->
  (forall c, fspec sigma cden cref (fun _ => []) cden c) -> (forall c, somespec cref c) ->
  forall t s r s', leaves_ok nz t -> to_t4 cref orig u0 u1 t s = Ok (r, s') ->
  inv s -> fresh (ids_of t) s -> nonone (vols s) -> sem sigma cden s ->
  exists id, r = Some id /\ extends (vols s) (vols s') /\ cnt s <= cnt s' /\ inv s' /\
             bound (ids_of t) s s' /\ nonone (vols s') /\ sem sigma cden s' /\
             Vden sigma (vols s') id (tden sigma cden t).
Proof.
  intros H0 H1 Hc Hspec Hsome t s r s' Hnz H Hinv Hfr Hnn Hsem.
  destruct (to_t4_sound sigma cden cref orig u0 u1 H0 H1 Hc Hspec t Hnz s r s' H Hinv Hfr)
    as (P1 & P2 & P3 & P4 & P5).
  destruct (to_t4_some cref orig u0 u1 Hsome t s r s' H Hnn) as [N R].
  destruct (P5 N Hsem) as [Q1 Q2]. destruct r as [id|]; [|congruence].
  exists id. simpl in Q2.
  split; [reflexivity|]. split; [exact P1|]. split; [exact P2|]. split; [exact P3|].
  split; [exact P4|]. split; [exact N|]. split; [exact Q1 | exact Q2].
Qed.

Lemma convert_cellref_total sigma cden cells matching u0 u1 :
  0 < u0 -> 0 < u1 -> consistent sigma u0 u1 ->
  (forall c g orig, lookup c cells = Some (g, orig) ->
     leaves_ok (msurf_ok matching) g /\ cden c = mden sigma cden matching g) ->
  forall fuel c s r s', convert_cellref fuel cells matching u0 u1 c s = Ok (r, s') ->
  inv s -> nonone (vols s) -> sem sigma cden s ->
  exists id, r = Some id /\ extends (vols s) (vols s') /\ cnt s <= cnt s' /\ inv s' /\
             bound [] s s' /\ nonone (vols s') /\ sem sigma cden s' /\
             Vden sigma (vols s') id (cden c).
Proof.
  intros H0 H1 Hc Hok fuel c s r s' H Hinv Hnn Hsem.
  destruct (convert_cellref_spec sigma cden cells matching u0 u1 H0 H1 Hc Hok fuel c s r s' H Hinv
              (fresh_nil s)) as (P1 & P2 & P3 & P4 & P5).
  destruct (convert_cellref_some fuel cells matching u0 u1 c s r s' H Hnn) as [N R].
  destruct (P5 N Hsem) as [Q1 Q2]. destruct r as [id|]; [|congruence].
  exists id. simpl in Q2.
  split; [reflexivity|]. split; [exact P1|]. split; [exact P2|]. split; [exact P3|].
  split; [exact P4|]. split; [exact N|]. split; [exact Q1 | exact Q2].
Qed.

(* ---- the table after construct_volume_t4's loop, from the empty state ---- *)
Lemma lookup_In {V} k (v : V) d : lookup k d = Some v -> In (k, v) d.
Proof.
  induction d as [|[k' v'] r IH]; simpl; [discriminate|].
  destruct (k =? k') eqn:E; intros H.
  - apply Z.eqb_eq in E. inversion H; subst. now left.
  - right; auto.
Qed.

Lemma no_none_nonone d : no_none d = true -> nonone d.
Proof.
  unfold no_none. rewrite forallb_forall. intros H k v Hl.
  exact (H (k, v) (lookup_In _ _ _ Hl)).
Qed.

(* a volume has at most one denotation *)
Lemma Vden_fun sigma d : forall id b, Vden sigma d id b -> forall b', Vden sigma d id b' -> b = b'.
Proof.
  apply (Vden_min sigma d (fun id b => forall b', Vden sigma d id b' -> b = b')
                  (fun ids bs => forall bs', VdenL sigma d ids bs' -> bs = bs')).
  - intros id v Hl Ho b' H'. inversion H'; subst; rewrite Hl in *; congruence.
  - intros id v ids bs Hl Ho _ IH b' H'.
    inversion H' as [? v0 Hl0 Ho0|? v0 ids0 bs0 Hl0 Ho0 HL0|? v0 ids0 bs0 Hl0 Ho0 HL0]; subst;
      rewrite Hl in Hl0; inversion Hl0; subst v0; rewrite Ho in Ho0; inversion Ho0; subst.
    now rewrite (IH _ HL0).
  - intros id v ids bs Hl Ho _ IH b' H'.
    inversion H' as [? v0 Hl0 Ho0|? v0 ids0 bs0 Hl0 Ho0 HL0|? v0 ids0 bs0 Hl0 Ho0 HL0]; subst;
      rewrite Hl in Hl0; inversion Hl0; subst v0; rewrite Ho in Ho0; inversion Ho0; subst.
    now rewrite (IH _ HL0).
  - intros bs' H'. now inversion H'.
  - intros id b ids bs _ IH1 _ IH2 bs' H'. inversion H'; subst. f_equal; auto.
Qed.

Section Top.
  Variable sigma : Z -> bool.
  Variable cden : Z -> bool.
  Variable cells : dict cell.
  Variable matching : dict (list Z).
  Variables u0 u1 : Z.
  Hypothesis Hu0 : 0 < u0.
  Hypothesis Hu1 : 0 < u1.
  Hypothesis Hcons : consistent sigma u0 u1.
  Hypothesis cells_ok : forall c g orig, lookup c cells = Some (g, orig) ->
    leaves_ok (msurf_ok matching) g /\ cden c = mden sigma cden matching g.

  (* sigma lies in the emitted (non-FICTIVE) volume k *)
  Definition in_volume (d : dict vol) (k : Z) : Prop :=
    exists v, lookup k d = Some v /\ v_fict v = false /\ Vden sigma d k true.

  Lemma cells_table fuel todo cnt0 s' :
    NoDup todo -> (forall k, In k todo -> k <= cnt0) ->
    convert_cells fuel cells matching u0 u1 todo (mkSt cnt0 [] [] []) = Ok s' ->
    nonone (vols s') /\
    (forall k, In k todo -> cell_done sigma cden (vols s') k) /\
    (forall k v, lookup k (vols s') = Some v -> v_fict v = false -> In k todo).
  Proof.
    intros Hnd Hle H.
    assert (nonone (vols s')) as Hnn.
    { apply (convert_cells_nonone _ _ _ _ _ _ _ _ H). intros k v Hl. discriminate. }
    split; [exact Hnn|].
    assert (inv (mkSt cnt0 [] [] [])) as Hinv by (intros k v Hl; discriminate).
    assert (forall k, In k todo -> lookup k (vols (mkSt cnt0 [] [] [])) = None /\ k <= cnt (mkSt cnt0 [] [] []))
      as Hfr by (intros k Hk; split; [reflexivity | simpl; auto]).
    destruct (convert_cells_sound sigma cden cells matching u0 u1 Hu0 Hu1 Hcons cells_ok
                fuel todo _ _ H Hinv Hnd Hfr) as (_ & _ & _ & _ & A5 & A6).
    assert (sem sigma cden (mkSt cnt0 [] [] [])) as Hsem by (split; intros ? ? Hl; discriminate).
    destruct (A6 Hnn Hsem) as [_ A7]. split; [exact A7|].
    intros k v Hl Hf. destruct (A5 k v Hl Hf) as [Hq|Hq]; [exact Hq | discriminate].
  Qed.

  (* sigma is in volume k exactly when k is a converted cell whose region holds sigma *)
  Lemma cells_iff fuel todo cnt0 s' :
    NoDup todo -> (forall k, In k todo -> k <= cnt0) ->
    convert_cells fuel cells matching u0 u1 todo (mkSt cnt0 [] [] []) = Ok s' ->
    forall k, in_volume (vols s') k <-> (In k todo /\ cden k = true).
  Proof.
    intros Hnd Hle H k. destruct (cells_table fuel todo cnt0 s' Hnd Hle H) as (_ & A & B).
    split.
    - intros (v & Hl & Hf & Hv). pose proof (B k v Hl Hf) as Hin. split; [exact Hin|].
      destruct (A k Hin) as [(v' & Hl' & _ & Hv')|[Hn _]]; [|congruence].
      symmetry. eapply Vden_fun; eauto.
    - intros [Hin Hc]. destruct (A k Hin) as [(v & Hl & Hf & Hv)|[_ Hn]]; [|congruence].
      exists v. rewrite Hc in Hv. auto.
  Qed.

  (* partition: the one cell [c] that owns sigma *)
  Lemma partition fuel todo cnt0 s' c :
    NoDup todo -> (forall k, In k todo -> k <= cnt0) ->
    convert_cells fuel cells matching u0 u1 todo (mkSt cnt0 [] [] []) = Ok s' ->
    cden c = true -> (forall c', In c' todo -> cden c' = true -> c' = c) ->
    (In c todo -> forall k, in_volume (vols s') k <-> k = c) /\
    (~ In c todo -> forall k, ~ in_volume (vols s') k).
  Proof.
    intros Hnd Hle H Hc Huniq.
    pose proof (cells_iff fuel todo cnt0 s' Hnd Hle H) as Hiff. split.
    - intros Hin k. rewrite Hiff. split; [intros [Hk Hd]; auto | intros ->; auto].
    - intros Hnin k Hk. apply Hiff in Hk as [Hk Hd]. apply Hnin. now rewrite <- (Huniq k Hk Hd).
  Qed.
End Top.

(* ---- an example meeting every hypothesis: five cells, one of importance 0,
   one kept by reference (a filler), a union without pure-intersection member ---- *)
Definition ex_cells : dict cell :=
  [ (10, (Leaf (-1, None), []));
    (20, (Node 0 OInter [Leaf (1, None); Leaf (-2, None)], []));
    (30, (Node 0 OUnion [Node 0 OInter [Leaf (1, None); Leaf (2, None); Leaf (-3, None)];
                         Node 0 OInter [Leaf (1, None); Leaf (2, None); Leaf (3, None); Ref 50]],
          [(50, 30)]));
    (40, (Node 0 OInter [Leaf (1, None); Leaf (2, None); Leaf (3, None); Leaf (4, None)], []));
    (50, (Leaf (-4, None), [])) ].
Definition ex_matching : dict (list Z) := [ (1, [1]); (2, [-2]); (3, [3]); (4, [4]) ].
Definition ex_todo : list Z := [10; 20; 30].       (* cell 40 has importance 0 *)

Definition ex_cden (sigma : Z -> bool) (c : Z) : bool :=
  match lookup c ex_cells with
  | Some (g, _) => mden sigma (fun c' => if c' =? 50 then negb (sigma 4) else false) ex_matching g
  | None => false
  end.

Ltac ex_ok_tac :=
  simpl; unfold msurf_ok; simpl; repeat split; try lia; try discriminate;
  try (intros ids Hids; inversion Hids; subst; repeat (apply Forall_cons; [lia|]); apply Forall_nil);
  try (intros k Hk; discriminate).
Ltac ex_eq_tac := simpl; unfold ex_cden; simpl; unfold lit; simpl; rewrite ?orb_false_r; reflexivity.

Lemma ex_cells_ok sigma : forall c g orig, lookup c ex_cells = Some (g, orig) ->
  leaves_ok (msurf_ok ex_matching) g /\ ex_cden sigma c = mden sigma (ex_cden sigma) ex_matching g.
Proof.
  intros c g orig H. unfold ex_cden at 1. rewrite H. simpl in H.
  destruct (c =? 10); [inversion H; subst; clear H; split; [ex_ok_tac | ex_eq_tac]|].
  destruct (c =? 20); [inversion H; subst; clear H; split; [ex_ok_tac | ex_eq_tac]|].
  destruct (c =? 30); [inversion H; subst; clear H; split; [ex_ok_tac | ex_eq_tac]|].
  destruct (c =? 40); [inversion H; subst; clear H; split; [ex_ok_tac | ex_eq_tac]|].
  destruct (c =? 50); [inversion H; subst; clear H; split; [ex_ok_tac | ex_eq_tac]|].
  discriminate.
Qed.

Ltac ex_eval E1 E2 E3 E4 :=
  unfold ex_cden; simpl; unfold lit; simpl; rewrite ?E1, ?E2, ?E3, ?E4; simpl.
Ltac ex_eval_in H E1 E2 E3 E4 :=
  unfold ex_cden in H; simpl in H; unfold lit in H; simpl in H;
  rewrite ?E1, ?E2, ?E3, ?E4 in H; simpl in H.
Ltac ex_pick c E1 E2 E3 E4 :=
  exists c; split; [simpl; tauto|]; split; [ex_eval E1 E2 E3 E4; reflexivity|];
  let c' := fresh "c'" in let Hin := fresh "Hin" in let Hc := fresh "Hc" in
  intros c' Hin Hc;
  destruct Hin as [<-|[<-|[<-|[<-|[]]]]]; try reflexivity;
  ex_eval_in Hc E1 E2 E3 E4; discriminate.

Lemma ex_partition sigma :
  exists c, In c [10; 20; 30; 40] /\ ex_cden sigma c = true /\
            forall c', In c' [10; 20; 30; 40] -> ex_cden sigma c' = true -> c' = c.
Proof.
  destruct (sigma 1) eqn:E1; destruct (sigma 2) eqn:E2; destruct (sigma 3) eqn:E3;
    destruct (sigma 4) eqn:E4;
    first [ ex_pick 10 E1 E2 E3 E4 | ex_pick 20 E1 E2 E3 E4
          | ex_pick 30 E1 E2 E3 E4 | ex_pick 40 E1 E2 E3 E4 ].
Qed.

Lemma ex_run :
  exists s', convert_cells 6 ex_cells ex_matching 6 7 ex_todo (mkSt 50 [] [] []) = Ok s' /\
             no_none (vols s') = true /\ NoDup ex_todo /\ (forall k, In k ex_todo -> k <= 50) /\
             map fst (filter (fun kv => negb (v_fict (snd kv))) (vols s')) = [10; 20; 30].
Proof.
  eexists. split; [vm_compute; reflexivity|]. split; [vm_compute; reflexivity|].
  split; [repeat constructor; simpl; intuition lia|].
  split; [simpl; intuition lia | vm_compute; reflexivity].
Qed.
