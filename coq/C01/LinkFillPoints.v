(* C01 <- C05: the sharpened FILL theorem for POINTS of R^3 (C05's abstract point
   type instantiated with R^3): surfaces are any real functions, the helper planes
   x-1 / x+1, merged surfaces equal as functions; membership in a read-back volume
   is Pin.  Consistency of the helper planes and equal senses of merged surfaces are
   proved (ProofsPoints), not assumed. *)
From Coq Require Import List ZArith Bool Lia Reals.
From T4V Require C05.Model C05.Spec C05.Proofs.
From T4V Require Import C01.Model C01.Spec C01.Printer C01.PrinterC C01.ProofsTree C01.ProofsT4
     C01.ProofsCells C01.ProofsPrune C01.ProofsEmpty C01.ProofsWritten C01.ProofsPoints
     C01.ProofsPrinter C01.LinkC05 C01.LinkFill2 C01.LinkNode C01.LinkKey.
Import ListNotations.
Open Scope Z_scope.

Theorem partition_fill_points_linked :
  forall (fval : Z -> point -> R) (u0 u1 : Z),
  (forall q, fval u0 q = (px q - 1)%R) -> (forall q, fval u1 q = (px q + 1)%R) ->
  forall (T surf : Type) (tr_empty : T -> bool) (teqb : T -> T -> bool)
         (tr_surf : T -> surf -> surf) (inv : T -> point -> point) (sense : surf -> point -> bool)
         (Hsense : forall t o p, sense (tr_surf t o) p = sense o (inv t p))
         (Hkey : forall a b, teqb a b = true -> tr_empty a = tr_empty b /\ forall p, inv a p = inv b p)
         fuel5 cf ifd ifg num den (s0 s1 s2 : M5.state T surf) rs cells3
         (Hf : P5.fresh_ok T surf s0) (Hc : M5.s_cache s0 = []) (Hnd : NoDup (map fst (M5.s_cells s0)))
         (Hrf : P5.all_ref_free T surf s0)
         (Ho : forall c cl, M5.dget c (M5.s_cells s0) = Some cl -> M5.c_orig cl = [])
         (Ht : M5.trcl_phase T surf tr_empty teqb tr_surf fuel5 (map fst (M5.s_cells s0)) s0 = M5.Ok s1)
         (Hfill : M5.fill_phase T surf tr_empty teqb tr_surf fuel5 cf ifd ifg s1 = M5.Ok (rs, s2))
         (Hinl : M5.inline_cells T fuel5 num den (M5.s_cells s2) = M5.Ok cells3),
  let s3 := P5.set_cells T surf s2 cells3 in
  let du := M5.by_universe (M5.s_cells s0) in
  forall (key : Z) (ks : list Z) (kcl : M5.cell T) (p : point) (ch : list Z)
         matching val fuel todo cnt0 s' rn skipped d',
  off_surfaces fval p ->
  In (key, ks) (combine (M5.fill_keys (M5.s_cells s0)) rs) ->
  M5.dget key (M5.s_cells s0) = Some kcl ->
  S5.LocW T surf point tr_empty inv sense s0 du key p ch true ->
  S5.universe_partitionW T surf point tr_empty inv sense s0 du ->
  (forall chs ch', S5.Paths T surf s0 du key chs -> In ch' chs ->
     exists b', S5.LocW T surf point tr_empty inv sense s0 du key p ch' b') ->
  (* layer S: the T4 surfaces a MCNP surface became give it the same sense at p *)
  (forall k o, M5.dget k (M5.s_surfs s3) = Some o ->
     k <> 0 /\ exists ids, lookup k matching = Some ids /\
                           existsb (lit (sigma_of fval p)) ids = sense o p) ->
  (forall k ids, lookup k matching = Some ids -> Forall (fun x => x <> 0) ids) ->
  (forall c cl, M5.dget c (M5.s_cells s3) = Some cl ->
     S5.Den T surf point sense s3 p (M5.c_geom cl) (val c)) ->
  0 < u0 -> 0 < u1 ->
  NoDup todo -> (forall k, In k todo -> k <= cnt0) ->
  (forall k, In k todo <-> exists cl, M5.dget k cells3 = Some cl /\ M5.c_imp cl <> 0 /\
                                      M5.c_univ cl = 0 /\ M5.c_fill cl = None) ->
  convert_cells fuel (cells_of5 (M5.s_cells s3)) matching u0 u1 todo (mkSt cnt0 [] [] []) = Ok s' ->
  prune u0 u1 rn (vols s') = Ok d' ->
  (forall r, rn = Some r -> merged_equal fval r) ->
  (forall k, In k skipped -> k <= cnt0 /\ ~ In k todo) ->
  (forall k', In k' todo ->
     (exists cl, M5.dget k' (M5.s_cells s0) = Some cl /\ M5.c_univ cl = 0) \/
     (exists key' ks', In (key', ks') (combine (M5.fill_keys (M5.s_cells s0)) rs) /\ In k' ks')) ->
  (forall c cl, M5.dget c (M5.s_cells s0) = Some cl -> M5.c_univ cl = 0 -> c <> key -> val c = false) ->
  exists k, In k ks /\
    S5.RepresentsW T surf point tr_empty inv sense s0 du s3 key k ch /\
    (In k todo <-> M5.c_imp kcl <> 0) /\
    exists Tb, read_table_c (print_table_c skipped d') = Some Tb /\
      (M5.c_imp kcl <> 0 ->
         (forall j, pt_in fval Tb p j <-> j = k) /\
         exists v, lookup k Tb = Some v /\ v_fict v = false /\ v_orig v = S5.prov ch) /\
      (M5.c_imp kcl = 0 -> forall j, ~ pt_in fval Tb p j).
Proof.
  intros fval u0 u1 Hh0 Hh1 T surf tr_empty teqb tr_surf inv sense Hsense Hkey fuel5 cf ifd ifg num den
         s0 s1 s2 rs cells3 Hf Hc Hnd Hrf Ho Ht Hfill Hinl s3 du key ks kcl p ch matching val fuel todo cnt0 s'
         rn skipped d' Hoff Hin Hkcl Hloc Hpart Hvalued Hsurf Hwf Hval H0 H1 Hndt Hle Htodo Hrun Hpr Hmerged
         Hskip Hkinds Hlevel0.
  set (sigma := sigma_of fval p).
  assert (forall r, rn = Some r -> respects sigma r) as Hresp
      by (intros r Hr; apply sigma_respects; auto).
  pose proof (sigma_consistent fval u0 u1 Hh0 Hh1 p) as Hcons. fold sigma in Hcons.
  destruct (partition_fill_written_linked3 T surf point tr_empty teqb tr_surf inv sense Hsense Hkey
              fuel5 cf ifd ifg num den s0 s1 s2 rs cells3 Hf Hc Hnd Hrf Ho Ht Hfill Hinl key ks kcl p ch
              sigma matching val u0 u1 fuel todo cnt0 s' rn skipped d' Hin Hkcl Hloc Hpart Hvalued Hsurf Hwf Hval
              H0 H1 Hcons Hndt Hle Htodo Hrun Hpr Hresp Hskip Hkinds Hlevel0)
    as (k & Hk & Hrep & Hiff & Tb & HTb & A & B).
  exists k. split; [exact Hk|]. split; [exact Hrep|]. split; [exact Hiff|].
  exists Tb. split; [exact HTb|].
  (* the read-back table is the written table, normalised *)
  pose proof (link5_cells_ok T surf point sense s3 p sigma matching val Hsurf Hwf Hval) as Hok.
  set (W := written skipped d') in *.
  assert (Tb = dmap normc W) as ->.
  { assert (Forall (fun kv => ops_ok (v_ops (snd kv)) = true) W) as HopsW.
    { pose proof (convert_cells_keys _ _ _ _ _ _ _ _ Hrun) as Hkeys.
      destruct (prune_sound sigma u0 u1 rn (vols s') d' Hkeys Hpr Hcons Hresp) as (P1 & _).
      destruct (cells_table sigma val (cells_of5 (M5.s_cells s3)) matching u0 u1 H0 H1 Hcons Hok fuel todo cnt0 s'
                  Hndt Hle Hrun) as (Hnn & _).
      pose proof (prune_nonone u0 u1 rn (vols s') d' Hkeys Hnn Hpr) as Hn'.
      unfold W. rewrite (written_all sigma val (cells_of5 (M5.s_cells s3)) matching u0 u1 H0 H1 Hcons Hok fuel todo
                           cnt0 s' Hndt Hle Hrun rn skipped d' Hpr Hresp Hskip).
      apply Forall_forall. intros [j v] Hinj. simpl. exact (Hn' j v (In_lookup j v d' P1 Hinj)). }
    unfold print_table_c in HTb. fold W in HTb. rewrite (read_table_c_print W HopsW) in HTb.
    now inversion HTb. }
  assert (forall j, pt_in fval (dmap normc W) p j <-> in_volume sigma (dmap normc W) j) as Heq.
  { intros j. split.
    - intros (v & Hl & Hfv & Hp). rewrite lookup_dmap in Hl.
      destruct (lookup j W) as [w|] eqn:Ew; [|discriminate]. inversion Hl; subst v. simpl in Hfv.
      destruct (written_den sigma val (cells_of5 (M5.s_cells s3)) matching u0 u1 H0 H1 Hcons Hok fuel todo cnt0 s'
                  Hndt Hle Hrun rn skipped d' Hpr Hresp Hskip j w Ew Hfv) as [_ Hv].
      apply (Vden_dmap_fwd sigma normc (equa_normc sigma) (fun _ => eq_refl)) in Hv.
      pose proof (Pin_Vden fval _ p Hoff j Hp _ Hv) as Hb. rewrite Hb in Hv.
      exists (normc w). rewrite lookup_dmap. fold W. rewrite Ew. auto.
    - intros (v & Hl & Hfv & Hv). exists v. split; [exact Hl|]. split; [exact Hfv|].
      eapply Vden_Pin; eauto. }
  split.
  - intros Hi. destruct (A Hi) as [A1 A2]. split; [|exact A2].
    intros j. rewrite Heq. apply A1.
  - intros Hz j Hj. apply Heq in Hj. exact (B Hz j Hj).
Qed.
