(* C01 — the printed VOLU lines read back: the reader recovers every written
   volume (PLUS/MINUS sorted), so the partition theorem holds of what is read
   from the printed lines. *)
From Coq Require Import List ZArith Bool Lia.
From T4V Require Import C01.Model C01.Spec C01.Printer C01.ProofsTree C01.ProofsT4 C01.ProofsCells
     C01.ProofsPrune C01.ProofsEmpty C01.ProofsWritten.
Import ListNotations.
Open Scope Z_scope.

Lemma take_nums_map l rest : take_nums (length l) (map TN l ++ rest) = Some (l, rest).
Proof. induction l as [|x r IH]; simpl; [reflexivity | now rewrite IH]. Qed.

Lemma read_count_map l rest :
  read_count (TN (Z.of_nat (length l)) :: map TN l ++ rest) = Some (l, rest).
Proof.
  unfold read_count. destruct (0 <=? Z.of_nat (length l)) eqn:E;
    [|apply Z.leb_gt in E; pose proof (Zle_0_nat (length l)); lia].
  rewrite Nat2Z.id. apply take_nums_map.
Qed.

Definition nohead (kw : tok) (l : list tok) : Prop :=
  match l with t :: _ => tok_eqb t kw = false | [] => True end.

Lemma read_set_print kw l rest : tok_eqb kw kw = true -> nohead kw rest ->
  read_set kw (print_set kw l ++ rest) = Some (canon l, rest).
Proof.
  intros Hkw Hn. unfold print_set. destruct (canon l) as [|z c] eqn:E.
  - simpl. unfold read_set. destruct rest as [|t r]; [reflexivity|]. simpl in Hn. now rewrite Hn.
  - cbn [app]. unfold read_set. rewrite Hkw. apply read_count_map.
Qed.

Definition norm (v : vol) : vol :=
  mkVol (canon (v_plus v)) (canon (v_minus v)) (v_ops v) [] (v_fict v).

Lemma print_ids_some ids :
  forallb (fun x : option Z => match x with Some _ => true | None => false end) ids = true ->
  print_ids ids = map TN (somes ids) /\ map Some (somes ids) = ids /\ length (somes ids) = length ids.
Proof.
  induction ids as [|[x|] r IH]; simpl; intros H; [auto| |discriminate].
  destruct (IH H) as (A & B & C). now rewrite A, B, C.
Qed.

Lemma read_ops_print o rest : ops_ok o = true ->
  match rest with KUNION :: _ | KINTE :: _ => False | _ => True end ->
  read_ops (print_ops o ++ rest) = Some (o, rest).
Proof.
  intros Hok Hn. destruct o as [[o ids]|].
  - simpl in Hok. destruct (print_ids_some ids Hok) as (A & B & C).
    unfold print_ops. cbn [app]. rewrite A, <- C.
    destruct o; unfold read_ops; cbv beta iota; rewrite read_count_map, B; reflexivity.
  - unfold print_ops. cbn [app]. unfold read_ops. destruct rest as [|[] r]; try reflexivity; contradiction.
Qed.

Lemma read_line_print k v : ops_ok (v_ops v) = true ->
  read_line (print_line k v) = Some (k, norm v).
Proof.
  intros Hok. unfold print_line, print_vol. rewrite <- !app_assoc. cbn [app].
  unfold read_line, read_body.
  rewrite read_set_print; [|reflexivity|].
  - rewrite read_set_print; [|reflexivity|].
    + rewrite read_ops_print; [|exact Hok|].
      * unfold print_fict, read_fict, norm. destruct (v_fict v); reflexivity.
      * unfold print_fict. destruct (v_fict v); exact I.
    + unfold print_ops, print_fict, nohead.
      destruct (v_ops v) as [[[|] ids]|]; destruct (v_fict v); reflexivity.
  - unfold print_set, print_ops, print_fict, nohead.
    destruct (canon (v_minus v)); destruct (v_ops v) as [[[|] ids]|]; destruct (v_fict v); reflexivity.
Qed.

Lemma read_table_print (l : dict vol) :
  Forall (fun kv => ops_ok (v_ops (snd kv)) = true) l ->
  read_table (map (fun kv => print_line (fst kv) (snd kv)) l) = Some (dmap norm l).
Proof.
  induction 1 as [|[k v] r Hx Hr IH]; [reflexivity|].
  cbn [map read_table fst snd dmap] in *. rewrite (read_line_print k v Hx).
  unfold dmap in IH. now rewrite IH.
Qed.

(* ---- reading back does not change what the volumes denote ---- *)
Lemma forallb_insert_by (f : Z -> bool) le x l : forallb f (insert_by le x l) = f x && forallb f l.
Proof.
  induction l as [|y r IH]; simpl; [reflexivity|]. destruct (le x y); simpl; [reflexivity|].
  rewrite IH. destruct (f x); destruct (f y); reflexivity.
Qed.

Lemma forallb_canon (f : Z -> bool) l : forallb f (canon l) = forallb f l.
Proof.
  unfold canon, isort. rewrite <- (forallb_dedup f f l).
  induction (dedup l) as [|x r IH]; simpl; [reflexivity|]. now rewrite forallb_insert_by, IH.
Qed.

Lemma equa_norm sigma v : equa sigma (norm v) = equa sigma v.
Proof. unfold equa, norm. simpl. now rewrite !forallb_canon. Qed.

Section Dmap.
  Variable sigma : Z -> bool.
  Variable f : vol -> vol.
  Hypothesis Hequa : forall v, equa sigma (f v) = equa sigma v.
  Hypothesis Hops : forall v, v_ops (f v) = v_ops v.

  Lemma Vden_dmap_fwd d : forall id b, Vden sigma d id b -> Vden sigma (dmap f d) id b.
  Proof.
    apply (Vden_min sigma d (fun id b => Vden sigma (dmap f d) id b)
                    (fun ids bs => VdenL sigma (dmap f d) ids bs)).
    - intros id v Hl Ho. rewrite <- (Hequa v). apply Vden_plain; [|now rewrite Hops].
      rewrite lookup_dmap, Hl. reflexivity.
    - intros id v ids bs Hl Ho _ IH. rewrite <- (Hequa v).
      eapply Vden_inte; [rewrite lookup_dmap, Hl; reflexivity | rewrite Hops; exact Ho | exact IH].
    - intros id v ids bs Hl Ho _ IH. rewrite <- (Hequa v).
      eapply Vden_union; [rewrite lookup_dmap, Hl; reflexivity | rewrite Hops; exact Ho | exact IH].
    - constructor.
    - intros id b ids bs _ H1 _ H2. now constructor.
  Qed.

  Lemma Vden_dmap_bwd d : forall id b, Vden sigma (dmap f d) id b -> Vden sigma d id b.
  Proof.
    assert (forall id v', lookup id (dmap f d) = Some v' -> exists v, lookup id d = Some v /\ v' = f v) as Hl.
    { intros id v' H. rewrite lookup_dmap in H. destruct (lookup id d) as [v|]; [|discriminate].
      inversion H. eauto. }
    apply (Vden_min sigma (dmap f d) (fun id b => Vden sigma d id b) (fun ids bs => VdenL sigma d ids bs)).
    - intros id v' H Ho. destruct (Hl id v' H) as (v & Hv & ->). rewrite Hequa.
      apply Vden_plain; [exact Hv | now rewrite <- Hops].
    - intros id v' ids bs H Ho _ IH. destruct (Hl id v' H) as (v & Hv & ->). rewrite Hequa.
      eapply Vden_inte; [exact Hv | rewrite <- Hops; exact Ho | exact IH].
    - intros id v' ids bs H Ho _ IH. destruct (Hl id v' H) as (v & Hv & ->). rewrite Hequa.
      eapply Vden_union; [exact Hv | rewrite <- Hops; exact Ho | exact IH].
    - constructor.
    - intros id b ids bs _ H1 _ H2. now constructor.
  Qed.
End Dmap.

Lemma in_volume_norm sigma d k : in_volume sigma (dmap norm d) k <-> in_volume sigma d k.
Proof.
  unfold in_volume. split.
  - intros (v' & Hl & Hf & Hv). rewrite lookup_dmap in Hl. destruct (lookup k d) as [v|] eqn:E; [|discriminate].
    inversion Hl; subst v'. exists v. split; [reflexivity|]. split; [exact Hf|].
    eapply (Vden_dmap_bwd sigma norm); eauto using equa_norm.
  - intros (v & Hl & Hf & Hv). exists (norm v). rewrite lookup_dmap, Hl. split; [reflexivity|].
    split; [exact Hf|]. apply (Vden_dmap_fwd sigma norm); auto using equa_norm.
Qed.

(* ---- no operand None survives to the written table ---- *)
Lemma forallb_filter {X} (p q : X -> bool) l : forallb p l = true -> forallb p (filter q l) = true.
Proof.
  rewrite !forallb_forall. intros H x Hx. apply filter_In in Hx as [Hx _]. auto.
Qed.

Lemma remove_empty_nonone u0 u1 d0 : NoDup (keys d0) -> nonone d0 -> nonone (remove_empty u0 u1 d0).
Proof.
  intros Hnd Hn. destruct (remove_empty_final u0 u1 d0 Hnd) as (R & HF).
  intros k v' Hl. destruct (iA1 _ _ _ _ _ _ HF k v' Hl) as (v & Hv & Hrel).
  pose proof (Hn k v Hv) as Hok. unfold rel in Hrel.
  destruct (v_ops v) as [[[|] ids]|] eqn:E; try (subst v'; now rewrite E).
  destruct Hrel as (_ & [Ho|[_ Ho]] & _); rewrite Ho; [|reflexivity].
  simpl in *. now apply forallb_filter.
Qed.

Lemma renumber_ops rn d d' : renumber rn d = Ok d' ->
  forall k v', lookup k d' = Some v' -> exists v, lookup k d = Some v /\ v_ops v' = v_ops v.
Proof.
  intros H k v' Hl. destruct (lookup k d) as [v|] eqn:E.
  - destruct (renumber_lookup rn d d' H k v E) as (p & m & _ & _ & Hl').
    rewrite Hl in Hl'. inversion Hl'; subst. exists v. auto.
  - exfalso. apply lookup_None_keys in E. rewrite <- (keys_renumber rn d d' H) in E.
    apply lookup_None_keys in E. congruence.
Qed.

Lemma remove_unused_nonone d : NoDup (keys d) -> nonone d -> nonone (remove_unused d).
Proof.
  intros Hnd Hn k v Hl. apply remove_unused_sub in Hl. exact (Hn k v (In_lookup k v d Hnd Hl)).
Qed.

Lemma prune_nonone u0 u1 rn d d' : NoDup (keys d) -> nonone d -> prune u0 u1 rn d = Ok d' -> nonone d'.
Proof.
  intros Hnd Hn H. unfold prune in H. destruct rn as [r|].
  - destruct (renumber r d) as [dr|] eqn:Er; [|discriminate].
    destruct (lookup u0 r) as [w0|]; [|discriminate]. destruct (lookup u1 r) as [w1|]; [|discriminate].
    inversion H; subst d'.
    assert (NoDup (keys dr)) as Hndr by (rewrite (keys_renumber r d dr Er); exact Hnd).
    assert (nonone dr) as Hnr.
    { intros k v' Hl. destruct (renumber_ops r d dr Er k v' Hl) as (v & Hv & Ho). rewrite Ho. eauto. }
    apply remove_unused_nonone; [apply (remove_empty_sound w0 w1 dr Hndr)|].
    now apply remove_empty_nonone.
  - inversion H; subst d'.
    apply remove_unused_nonone; [apply (remove_empty_sound u0 u1 d Hnd)|].
    now apply remove_empty_nonone.
Qed.

(* ---- the property, about the printed lines read back ---- *)
Section File.
  Variable sigma : Z -> bool.
  Variable cden : Z -> bool.
  Variable cells : dict cell.
  Variable matching : dict (list Z).
  Variables u0 u1 : Z.
  Hypothesis Hu0 : 0 < u0.
  Hypothesis Hu1 : 0 < u1.
  Hypothesis Hcons : consistent sigma u0 u1.
  Hypothesis cells_ok : forall c g orig, lookup c cells = Some (g, orig) ->
    leaves_ok (msurf_ok matching) g /\ cden c = mden sigma cden matching g.
  Variables (fuel : nat) (todo : list Z) (cnt0 : Z) (s' : st).
  Hypothesis Hnd : NoDup todo.
  Hypothesis Hle : forall k, In k todo -> k <= cnt0.
  Hypothesis Hrun : convert_cells fuel cells matching u0 u1 todo (mkSt cnt0 [] [] []) = Ok s'.
  Variables (rn : option (dict Z)) (skipped : list Z) (d' : dict vol).
  Hypothesis Hprune : prune u0 u1 rn (vols s') = Ok d'.
  Hypothesis Hresp : forall r, rn = Some r -> respects sigma r.
  Hypothesis Hskip : forall k, In k skipped -> k <= cnt0 /\ ~ In k todo.

  (* every printed line is readable: the reader returns the written table with
     PLUS/MINUS sorted *)
  Lemma file_readable :
    read_table (print_table skipped d') = Some (dmap norm (written skipped d')).
  Proof.
    unfold print_table. apply read_table_print.
    pose proof (convert_cells_keys _ _ _ _ _ _ _ _ Hrun) as Hk.
    destruct (prune_sound sigma u0 u1 rn (vols s') d' Hk Hprune Hcons Hresp) as (P1 & _).
    destruct (cells_table sigma cden cells matching u0 u1 Hu0 Hu1 Hcons cells_ok fuel todo cnt0 s'
                Hnd Hle Hrun) as (Hnn & _).
    pose proof (prune_nonone u0 u1 rn (vols s') d' Hk Hnn Hprune) as Hn'.
    rewrite (written_all sigma cden cells matching u0 u1 Hu0 Hu1 Hcons cells_ok fuel todo cnt0 s'
               Hnd Hle Hrun rn skipped d' Hprune Hresp Hskip).
    apply Forall_forall. intros [k v] Hin. simpl. exact (Hn' k v (In_lookup k v d' P1 Hin)).
  Qed.

  Theorem file_partition c :
    cden c = true -> (forall c', In c' todo -> cden c' = true -> c' = c) ->
    exists T, read_table (print_table skipped d') = Some T /\
              (In c todo -> forall k, in_volume sigma T k <-> k = c) /\
              (~ In c todo -> forall k, ~ in_volume sigma T k).
  Proof.
    intros Hc Huniq. exists (dmap norm (written skipped d')). split; [exact file_readable|].
    destruct (written_partition sigma cden cells matching u0 u1 Hu0 Hu1 Hcons cells_ok fuel todo cnt0 s'
                Hnd Hle Hrun rn skipped d' Hprune Hresp Hskip c Hc Huniq) as [A B].
    split.
    - intros Hin k. rewrite in_volume_norm. now apply A.
    - intros Hnin k Hk. apply (proj1 (in_volume_norm sigma _ k)) in Hk. exact (B Hnin k Hk).
  Qed.

  Lemma file_den : forall k v, lookup k (dmap norm (written skipped d')) = Some v -> v_fict v = false ->
    Vden sigma (dmap norm (written skipped d')) k (cden k).
  Proof.
    intros k v Hl Hf. rewrite lookup_dmap in Hl.
    destruct (lookup k (written skipped d')) as [w|] eqn:E; [|discriminate]. inversion Hl; subst v.
    apply (Vden_dmap_fwd sigma norm); auto using equa_norm.
    exact (proj2 (written_den sigma cden cells matching u0 u1 Hu0 Hu1 Hcons cells_ok fuel todo cnt0 s'
                    Hnd Hle Hrun rn skipped d' Hprune Hresp Hskip k w E Hf)).
  Qed.
End File.
