(* C01 <- C13: the hypothesis "merged surfaces are the same function"
   (merged_equal, hence "sigma is constant on merged surfaces") is DISCHARGED for
   the renumbering that remove_duplicate_surfaces produces, by
   C13_dedup_merges_equal: two numbers are merged only if they carry the same
   descriptor.  Bridge: the surface functions fval are read off C13's descriptor
   table through ANY function of the descriptor (dval). *)
From Coq Require Import List ZArith Bool Reals.
From T4V Require Import Base.Scalar.
From T4V Require C13.Model C13.ProofsDedup.
From T4V Require Import C01.Model C01.Spec C01.Printer C01.ProofsTree C01.ProofsT4 C01.ProofsCells
     C01.ProofsPrune C01.ProofsEmpty C01.ProofsWritten C01.ProofsPoints C01.ProofsPrinter C01.ProofsFile.
Import ListNotations.
Open Scope Z_scope.

Section Link.
  Variable dval : C13.Model.desc R -> point -> R.      (* what a descriptor means: layer S *)
  Variable surfs : list (Z * C13.Model.desc R).        (* dic_surface_t4 incl. the helper planes *)
  Variable fval : Z -> point -> R.
  Hypothesis fval_table : forall k d, In (k, d) surfs -> forall p, fval k p = dval d p.

  Definition dedup_rn : dict Z := snd (C13.Model.remove_duplicate_surfaces RS surfs).

  Lemma merged_equal_dedup : merged_equal fval dedup_rn.
  Proof.
    intros x y Hl q. apply lookup_In in Hl.
    destruct (C13.ProofsDedup.dedup_merges_equal surfs x y Hl) as (d & Hx & Hy & _).
    now rewrite (fval_table x d Hx q), (fval_table y d Hy q).
  Qed.

  Lemma respects_dedup p : respects (sigma_of fval p) dedup_rn.
  Proof. apply sigma_respects. exact merged_equal_dedup. Qed.
End Link.

(* the end-to-end statement with the de-duplication's own renumbering (or none,
   --skip-deduplication) and no hypothesis on merged surfaces *)
Theorem partition_file_points_linked :
  forall (dval : C13.Model.desc R -> point -> R) (surfs : list (Z * C13.Model.desc R))
         (fval : Z -> point -> R) (u0 u1 : Z),
  (forall k d, In (k, d) surfs -> forall p, fval k p = dval d p) ->
  (forall p, fval u0 p = (px p - 1)%R) -> (forall p, fval u1 p = (px p + 1)%R) ->
  forall (skip_dedup : bool) (cden : point -> Z -> bool) cells matching fuel todo cnt0 s' skipped d' p c,
  0 < u0 -> 0 < u1 -> off_surfaces fval p ->
  (forall c g orig, lookup c cells = Some (g, orig) ->
     leaves_ok (msurf_ok matching) g /\ cden p c = mden (sigma_of fval p) (cden p) matching g) ->
  NoDup todo -> (forall k, In k todo -> k <= cnt0) ->
  convert_cells fuel cells matching u0 u1 todo (mkSt cnt0 [] [] []) = Ok s' ->
  prune u0 u1 (if skip_dedup then None else Some (dedup_rn surfs)) (vols s') = Ok d' ->
  (forall k, In k skipped -> k <= cnt0 /\ ~ In k todo) ->
  cden p c = true -> (forall c', In c' todo -> cden p c' = true -> c' = c) ->
  exists T, read_table (print_table skipped d') = Some T /\
            (In c todo -> forall k, pt_in fval T p k <-> k = c) /\
            (~ In c todo -> forall k, ~ pt_in fval T p k).
Proof.
  intros dval surfs fval u0 u1 Htab Hh0 Hh1 skip cden cells matching fuel todo cnt0 s' skipped d' p c
         H0 H1 Hoff Hok Hnd Hle Hrun Hpr Hskip Hown Huniq.
  eapply (file_partition_points fval u0 u1 Hh0 Hh1 cden cells matching fuel todo cnt0 s' _ skipped d' p c);
    eauto.
  intros r Hr. destruct skip; [discriminate|]. inversion Hr; subst r.
  eapply merged_equal_dedup; eauto.
Qed.
