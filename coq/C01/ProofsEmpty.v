(* C01 — remove_empty_volumes is sound.
   Structure: purely structural invariants of the loop relating the current
   table and the set [removed] to the ORIGINAL table d0 (step, scan, iteration,
   termination by table length), then one induction on the original Vden
   derivation: a removed volume denotes false, a surviving one keeps its
   denotation in the final table. *)
From Coq Require Import List ZArith Bool Lia.
From T4V Require Import C01.Model C01.Spec C01.ProofsTree C01.ProofsT4 C01.ProofsPrune.
Import ListNotations.
Open Scope Z_scope.

(* ---- dictionaries with distinct keys ---- *)
Lemma lookup_None_keys {V} k (d : dict V) : lookup k d = None <-> ~ In k (keys d).
Proof.
  unfold keys. induction d as [|[k' v'] r IH]; simpl; [tauto|].
  destruct (k =? k') eqn:E.
  - apply Z.eqb_eq in E. subst. split; [discriminate | intros H; exfalso; apply H; now left].
  - apply Z.eqb_neq in E. rewrite IH. split; [intros H [Hq|Hq]; [congruence | auto] | auto].
Qed.

Lemma In_lookup {V} k (v : V) d : NoDup (keys d) -> In (k, v) d -> lookup k d = Some v.
Proof.
  unfold keys. induction d as [|[k' v'] r IH]; simpl; intros Hnd Hin; [contradiction|].
  inversion Hnd as [|? ? Hnot Hnd']; subst.
  destruct Hin as [Heq|Hin].
  - inversion Heq; subst. now rewrite Z.eqb_refl.
  - destruct (k =? k') eqn:E; [|auto].
    apply Z.eqb_eq in E; subst. exfalso. apply Hnot.
    change k' with (fst (k', v)). now apply in_map.
Qed.

Lemma lookup_ddel_other {V} k k' (d : dict V) : k' <> k -> lookup k' (ddel k d) = lookup k' d.
Proof.
  intros Hne. induction d as [|[k2 v2] r IH]; simpl; [reflexivity|].
  destruct (k =? k2) eqn:E.
  - apply Z.eqb_eq in E; subst.
    destruct (k' =? k2) eqn:E2; [apply Z.eqb_eq in E2; contradiction | reflexivity].
  - simpl. destruct (k' =? k2); [reflexivity | exact IH].
Qed.

Lemma keys_ddel_In {V} k (d : dict V) x : In x (keys (ddel k d)) -> In x (keys d).
Proof.
  unfold keys. induction d as [|[k2 v2] r IH]; simpl; [auto|].
  destruct (k =? k2); simpl; [now right | intros [H|H]; auto].
Qed.

Lemma NoDup_keys_ddel {V} k (d : dict V) : NoDup (keys d) -> NoDup (keys (ddel k d)).
Proof.
  unfold keys. induction d as [|[k2 v2] r IH]; simpl; intros Hnd; [constructor|].
  inversion Hnd as [|? ? Hnot Hnd']; subst.
  destruct (k =? k2); simpl; [exact Hnd'|]. constructor; [|now apply IH].
  intros Hin. apply Hnot. now apply (keys_ddel_In k r k2).
Qed.

Lemma lookup_ddel_same {V} k (d : dict V) : NoDup (keys d) -> lookup k (ddel k d) = None.
Proof.
  unfold keys. induction d as [|[k2 v2] r IH]; simpl; intros Hnd; [reflexivity|].
  inversion Hnd as [|? ? Hnot Hnd']; subst.
  destruct (k =? k2) eqn:E.
  - apply Z.eqb_eq in E; subst. now apply lookup_None_keys.
  - simpl. rewrite E. now apply IH.
Qed.

Lemma length_ddel {V} k (d : dict V) v : lookup k d = Some v -> (length (ddel k d) < length d)%nat.
Proof.
  induction d as [|[k2 v2] r IH]; simpl; [discriminate|].
  destruct (k =? k2); intros H; simpl; [lia | specialize (IH H); lia].
Qed.

Lemma keys_dset_present {V} k (v v0 : V) d : lookup k d = Some v0 -> keys (dset k v d) = keys d.
Proof.
  unfold keys. induction d as [|[k2 v2] r IH]; simpl; [discriminate|].
  destruct (k =? k2) eqn:E; simpl; intros H.
  - apply Z.eqb_eq in E. now subst.
  - now rewrite IH.
Qed.

Lemma keys_length {V} (d : dict V) : length (keys d) = length d.
Proof. unfold keys. apply map_length. Qed.

Definition dmap {V} (f : V -> V) (d : dict V) : dict V := map (fun kv => (fst kv, f (snd kv))) d.

Lemma lookup_dmap {V} (f : V -> V) k d : lookup k (dmap f d) = option_map f (lookup k d).
Proof.
  induction d as [|[k2 v2] r IH]; simpl; [reflexivity|]. destruct (k =? k2); [reflexivity | exact IH].
Qed.

Lemma keys_dmap {V} (f : V -> V) d : keys (dmap f d) = keys d.
Proof. unfold keys, dmap. rewrite map_map. reflexivity. Qed.

(* ---- the scan is a map + a filter ---- *)
Definition keepR (R : list Z) (x : option Z) : bool := negb (in_removed R x).

Definition scanv (R : list Z) (v : vol) : vol :=
  match v_ops v with
  | Some (OUnion, ids) =>
      mkVol (v_plus v) (v_minus v) (mk_ops OUnion (filter (keepR R) ids)) (v_orig v) (v_fict v)
  | _ => v
  end.

Definition inte_removed (R : list Z) (v : vol) : bool :=
  match v_ops v with
  | Some (OInter, ids) => existsb (in_removed R) ids
  | _ => false
  end.

Lemma empty_scan_eq R d :
  empty_scan R d = (dmap (scanv R) d, map fst (filter (fun kv => inte_removed R (snd kv)) d)).
Proof.
  induction d as [|[k v] r IH]; simpl; [reflexivity|].
  rewrite IH. unfold scanv, inte_removed. simpl.
  destruct (v_ops v) as [[[|] ids]|]; simpl; try reflexivity.
  destruct (existsb (in_removed R) ids); reflexivity.
Qed.

(* ---- the [for key in to_remove] loop ---- *)
Definition helperv (u0 u1 : Z) (v : vol) : vol := mkVol [u0] [u1] (v_ops v) (v_orig v) (v_fict v).

Lemma empty_step_ok u0 u1 todo : forall d d1 now,
  empty_step u0 u1 todo d = (d1, now) -> NoDup (keys d) ->
  NoDup (keys d1) /\
  (forall k, In k now -> In k todo /\ exists v, lookup k d = Some v /\ is_union_ops (v_ops v) = false) /\
  (forall k, In k now -> lookup k d1 = None) /\
  (forall k v1, lookup k d1 = Some v1 ->
     exists v, lookup k d = Some v /\ ~ In k now /\
               (v1 = v \/ (In k todo /\ is_union_ops (v_ops v) = true /\ v1 = helperv u0 u1 v))) /\
  (forall k v, lookup k d = Some v -> lookup k d1 = None -> In k now) /\
  (length d1 <= length d)%nat /\
  ((exists k v, In k todo /\ lookup k d = Some v /\ is_union_ops (v_ops v) = false) ->
   (length d1 < length d)%nat).
Proof.
  induction todo as [|key r IH]; intros d d1 now H Hnd; simpl in H.
  - inversion H; subst. split; [exact Hnd|]. split; [intros k []|]. split; [intros k []|].
    split; [intros k v1 Hl; exists v1; auto|]. split; [intros k v H1 H2; congruence|].
    split; [apply le_n|]. intros (k & v & [] & _).
  - destruct (lookup key d) as [v|] eqn:El.
    + destruct (is_union_ops (v_ops v)) eqn:Eu.
      * (* a patently empty UNION volume: EQUA replaced *)
        set (V := helperv u0 u1 v) in *.
        assert (NoDup (keys (dset key V d))) as Hnd' by (rewrite (keys_dset_present _ _ _ _ El); exact Hnd).
        destruct (IH _ _ _ H Hnd') as (A1 & A2 & A3 & A4 & A5 & A6 & A7).
        assert (forall k, lookup k (dset key V d) = if Z.eq_dec k key then Some V else lookup k d) as Hlk.
        { intros k. destruct (Z.eq_dec k key) as [->|Hne];
            [apply lookup_dset_same | now apply lookup_dset_other]. }
        assert (length (dset key V d) = length d) as Hlen.
        { rewrite <- !keys_length. now rewrite (keys_dset_present _ _ _ _ El). }
        split; [exact A1|]. split; [|split; [exact A3|split; [|split; [|split]]]].
        -- intros k Hk. destruct (A2 k Hk) as (Hin & w & Hw & Hu). rewrite Hlk in Hw.
           destruct (Z.eq_dec k key) as [->|Hne].
           ++ inversion Hw; subst w. unfold V, helperv in Hu. simpl in Hu. congruence.
           ++ split; [now right | eauto].
        -- intros k v1 Hl. destruct (A4 k v1 Hl) as (w & Hw & Hn & Hc). rewrite Hlk in Hw.
           destruct (Z.eq_dec k key) as [->|Hne].
           ++ inversion Hw; subst w. exists v. split; [exact El|]. split; [exact Hn|]. right.
              split; [now left|]. split; [exact Eu|].
              destruct Hc as [->|(_ & _ & ->)]; reflexivity.
           ++ exists w. split; [exact Hw|]. split; [exact Hn|].
              destruct Hc as [Hc|(Hi & Hu & Hc)]; [now left | right; split; [now right | auto]].
        -- intros k w Hw Hn. apply (A5 k (if Z.eq_dec k key then V else w)); [|exact Hn].
           rewrite Hlk. destruct (Z.eq_dec k key); [reflexivity | exact Hw].
        -- rewrite <- Hlen. exact A6.
        -- intros (k & w & Hin & Hw & Hu). rewrite <- Hlen. apply A7.
           destruct Hin as [<-|Hin]; [congruence|].
           exists k, w. split; [exact Hin|]. split; [|exact Hu]. rewrite Hlk.
           destruct (Z.eq_dec k key) as [->|Hne]; [congruence | exact Hw].
      * (* deleted *)
        destruct (empty_step u0 u1 r (ddel key d)) as [d' rem] eqn:Es. inversion H; subst; clear H.
        pose proof (NoDup_keys_ddel key d Hnd) as Hnd'.
        destruct (IH _ _ _ Es Hnd') as (A1 & A2 & A3 & A4 & A5 & A6 & A7).
        assert (forall k, lookup k (ddel key d) = if Z.eq_dec k key then None else lookup k d) as Hlk.
        { intros k. destruct (Z.eq_dec k key) as [->|Hne];
            [now apply lookup_ddel_same | now apply lookup_ddel_other]. }
        pose proof (length_ddel key d v El) as Hlen.
        assert (lookup key d1 = None) as Hkey.
        { destruct (lookup key d1) as [v1|] eqn:E1; [|reflexivity].
          destruct (A4 key v1 E1) as (w & Hw & _). rewrite Hlk in Hw.
          destruct (Z.eq_dec key key); [discriminate | congruence]. }
        split; [exact A1|]. split; [|split; [|split; [|split; [|split]]]].
        -- intros k [<-|Hk]; [split; [now left | eauto]|].
           destruct (A2 k Hk) as (Hin & w & Hw & Hu). rewrite Hlk in Hw.
           destruct (Z.eq_dec k key); [discriminate|]. split; [now right | eauto].
        -- intros k [<-|Hk]; [exact Hkey | now apply A3].
        -- intros k v1 Hl. destruct (A4 k v1 Hl) as (w & Hw & Hn & Hc). rewrite Hlk in Hw.
           destruct (Z.eq_dec k key) as [->|Hne]; [discriminate|].
           exists w. split; [exact Hw|]. split; [intros [Hq|Hq]; [congruence | contradiction]|].
           destruct Hc as [Hc|(Hi & Hu & Hc)]; [now left | right; split; [now right | auto]].
        -- intros k w Hw Hn. destruct (Z.eq_dec k key) as [->|Hne]; [now left|]. right.
           apply (A5 k w); [|exact Hn]. rewrite Hlk. destruct (Z.eq_dec k key); [contradiction | exact Hw].
        -- lia.
        -- intros _. lia.
    + destruct (IH _ _ _ H Hnd) as (A1 & A2 & A3 & A4 & A5 & A6 & A7).
      split; [exact A1|]. split; [|split; [exact A3|split; [|split; [exact A5|split; [exact A6|]]]]].
      * intros k Hk. destruct (A2 k Hk) as (Hin & Hr). split; [now right | exact Hr].
      * intros k v1 Hl. destruct (A4 k v1 Hl) as (w & Hw & Hn & Hc). exists w. split; [exact Hw|].
        split; [exact Hn|]. destruct Hc as [Hc|(Hi & Hu & Hc)]; [now left | right; split; [now right | auto]].
      * intros (k & w & Hin & Hw & Hu). apply A7. destruct Hin as [<-|Hin]; [congruence|]. eauto.
Qed.

(* ---- small facts ---- *)
Lemma filter_filter_imp {X} (p q : X -> bool) l :
  (forall x, p x = true -> q x = true) -> filter p (filter q l) = filter p l.
Proof.
  intros H. induction l as [|x r IH]; simpl; [reflexivity|].
  destruct (q x) eqn:Eq; simpl.
  - destruct (p x); [now rewrite IH | exact IH].
  - destruct (p x) eqn:Ep; [rewrite (H x Ep) in Eq; discriminate | exact IH].
Qed.

Lemma in_removed_mono R R' x : incl R R' -> in_removed R x = true -> in_removed R' x = true.
Proof.
  intros Hi. destruct x as [k|]; simpl; [|auto]. rewrite !mem_In. apply Hi.
Qed.

Lemma keepR_mono R R' x : incl R R' -> keepR R' x = true -> keepR R x = true.
Proof.
  unfold keepR. intros Hi H. destruct (in_removed R x) eqn:E; [|reflexivity].
  rewrite (in_removed_mono R R' x Hi E) in H. discriminate.
Qed.

Lemma existsb_mono {X} (p q : X -> bool) l :
  (forall x, p x = true -> q x = true) -> existsb p l = true -> existsb q l = true.
Proof.
  intros H. rewrite !existsb_exists. intros (x & Hx & Hp). exists x. auto.
Qed.

Lemma inte_removed_mono R R' v : incl R R' -> inte_removed R v = true -> inte_removed R' v = true.
Proof.
  intros Hi. unfold inte_removed. destruct (v_ops v) as [[[|] ids]|]; auto.
  apply existsb_mono. intros x. now apply in_removed_mono.
Qed.

Lemma keepR_nil ids : filter (keepR []) ids = ids.
Proof.
  induction ids as [|x r IH]; simpl; [reflexivity|].
  assert (keepR [] x = true) as Hx by (destruct x; reflexivity).
  now rewrite Hx, IH.
Qed.

Section Loop.
  Variables u0 u1 : Z.
  Variable d0 : dict vol.

  Definition ops_equiv_union (o : option (op * list (option Z))) (ids : list (option Z)) : Prop :=
    o = Some (OUnion, ids) \/ (ids = [] /\ o = None).

  Lemma mk_ops_equiv ids : ops_equiv_union (mk_ops OUnion ids) ids.
  Proof. destruct ids; [right; auto | left; reflexivity]. Qed.

  (* what a surviving volume may have become *)
  Definition rel (R : list Z) (v v' : vol) : Prop :=
    match v_ops v with
    | Some (OUnion, ids) =>
        v_fict v' = v_fict v /\ ops_equiv_union (v_ops v') (filter (keepR R) ids) /\
        ((v_plus v' = v_plus v /\ v_minus v' = v_minus v) \/
         (v_plus v' = [u0] /\ v_minus v' = [u1] /\ vempty v = true))
    | _ => v' = v
    end.

  (* why a volume may be deleted *)
  Definition just (R : list Z) (v : vol) : Prop := vempty v = true \/ inte_removed R v = true.

  Lemma just_mono R R' v : incl R R' -> just R v -> just R' v.
  Proof. intros Hi [H|H]; [now left | right; eapply inte_removed_mono; eauto]. Qed.

  Record Inv (todo R : list Z) (d : dict vol) : Prop := {
    iK : NoDup (keys d);
    iA1 : forall k v', lookup k d = Some v' -> exists v, lookup k d0 = Some v /\ rel R v v';
    iA2 : forall k v, lookup k d0 = Some v -> lookup k d = None -> In k R;
    iA3 : forall k, In k R -> lookup k d = None;
    iT : forall k, In k todo -> exists v0, lookup k d0 = Some v0 /\
           ((is_union_ops (v_ops v0) = true /\ vempty v0 = true /\ lookup k d = Some v0) \/
            (is_union_ops (v_ops v0) = false /\ just R v0));
    iRm : forall k, In k R ->
           exists v, lookup k d0 = Some v /\ is_union_ops (v_ops v) = false /\ just R v;
    iS : forall k v', lookup k d = Some v' -> inte_removed R v' = true -> In k todo }.

  Definition pure (todo : list Z) (d : dict vol) : Prop :=
    forall k, In k todo -> exists v, lookup k d = Some v /\ is_union_ops (v_ops v) = false.

  Lemma rel_union_false R v v' : rel R v v' -> is_union_ops (v_ops v) = false -> v' = v.
  Proof. unfold rel. destruct (v_ops v) as [[[|] ids]|]; simpl; auto. discriminate. Qed.

  Lemma rel_union_ops R v v' : rel R v v' -> is_union_ops (v_ops v') = true -> is_union_ops (v_ops v) = true.
  Proof.
    unfold rel. destruct (v_ops v) as [[[|] ids]|] eqn:E; simpl; auto; intros ->; now rewrite E.
  Qed.

  Lemma iter todo R d d1 now d2 todo' :
    Inv todo R d -> empty_step u0 u1 todo d = (d1, now) ->
    empty_scan (now ++ R) d1 = (d2, todo') ->
    Inv todo' (now ++ R) d2 /\ pure todo' d2 /\ (length d2 <= length d)%nat /\
    (pure todo d -> todo <> [] -> (length d2 < length d)%nat).
  Proof.
    intros HI Hs Hc. set (R' := now ++ R) in *.
    destruct (empty_step_ok u0 u1 todo d d1 now Hs (iK _ _ _ HI)) as (S1 & S2 & S3 & S4 & S5 & S6 & S7).
    rewrite empty_scan_eq in Hc. inversion Hc; subst d2 todo'; clear Hc.
    assert (incl R R') as HRR by (intros x Hx; apply in_or_app; now right).
    assert (incl now R') as HnR by (intros x Hx; apply in_or_app; now left).
    assert (length (dmap (scanv R') d1) = length d1) as Hlen by (unfold dmap; apply map_length).
    (* an entry of the scanned table, traced back to d and d0 *)
    assert (forall k v2, lookup k (dmap (scanv R') d1) = Some v2 ->
              exists v1 v v0, lookup k d1 = Some v1 /\ v2 = scanv R' v1 /\ lookup k d = Some v /\
                              ~ In k now /\ lookup k d0 = Some v0 /\ rel R v0 v /\
                              (v1 = v \/ (In k todo /\ is_union_ops (v_ops v) = true /\ v1 = helperv u0 u1 v)))
      as Htrace.
    { intros k v2 Hl. rewrite lookup_dmap in Hl. destruct (lookup k d1) as [v1|] eqn:E1; [|discriminate].
      simpl in Hl. inversion Hl; subst v2. destruct (S4 k v1 E1) as (v & Hv & Hn & Hcase).
      destruct (iA1 _ _ _ HI k v Hv) as (v0 & Hv0 & Hrel). exists v1, v, v0. repeat (split; [solve [auto]|]). exact Hcase. }
    split; [constructor|split; [|split]].
    - (* keys *) rewrite keys_dmap. exact S1.
    - (* A1 *)
      intros k v2 Hl. destruct (Htrace k v2 Hl) as (v1 & v & v0 & E1 & -> & Hv & Hn & Hv0 & Hrel & Hcase).
      exists v0. split; [exact Hv0|].
      destruct (is_union_ops (v_ops v0)) eqn:Eu0.
      + (* an original UNION *)
        unfold rel in Hrel |- *. destruct (v_ops v0) as [[[|] ids]|] eqn:E0; try discriminate.
        destruct Hrel as (Hf & Heq & Hpm).
        assert (filter (keepR R') (filter (keepR R) ids) = filter (keepR R') ids) as Hff.
        { apply filter_filter_imp. intros x. now apply keepR_mono. }
        destruct Hcase as [->|(Hin & Hu & ->)].
        * destruct Heq as [Ho|[Hnil Ho]].
          -- unfold scanv. rewrite Ho. simpl. rewrite Hff.
             split; [exact Hf|]. split; [apply mk_ops_equiv | exact Hpm].
          -- unfold scanv. rewrite Ho. split; [exact Hf|]. split; [|exact Hpm].
             right. split; [|exact Ho]. rewrite <- Hff, Hnil. reflexivity.
        * destruct Heq as [Ho|[Hnil Ho]]; [|rewrite Ho in Hu; discriminate].
          unfold scanv, helperv. simpl. rewrite Ho. simpl. rewrite Hff.
          split; [exact Hf|]. split; [apply mk_ops_equiv|]. right.
          split; [reflexivity|]. split; [reflexivity|].
          destruct (iT _ _ _ HI k Hin) as (w & Hw & [(_ & He & _)|(Hu' & _)]);
            rewrite Hv0 in Hw; inversion Hw; subst w; [exact He|].
          rewrite E0 in Hu'. discriminate.
      + (* not a UNION: untouched *)
        pose proof (rel_union_false R v0 v Hrel Eu0) as ->.
        destruct Hcase as [->|(_ & Hu & _)]; [|congruence].
        assert (scanv R' v0 = v0) as ->.
        { unfold scanv. destruct (v_ops v0) as [[[|] ids]|]; try reflexivity. discriminate. }
        unfold rel. destruct (v_ops v0) as [[[|] ids]|]; try reflexivity. discriminate.
    - (* A2 *)
      intros k v0 Hv0 Hn. rewrite lookup_dmap in Hn.
      destruct (lookup k d1) as [v1|] eqn:E1; [discriminate|].
      destruct (lookup k d) as [v|] eqn:Ed.
      + apply HnR. eapply S5; eauto.
      + apply HRR. eapply (iA2 _ _ _ HI); eauto.
    - (* A3 *)
      intros k Hk. rewrite lookup_dmap.
      assert (lookup k d1 = None) as ->; [|reflexivity].
      apply in_app_or in Hk as [Hk|Hk]; [now apply S3|].
      destruct (lookup k d1) as [v1|] eqn:E1; [|reflexivity].
      destruct (S4 k v1 E1) as (v & Hv & _). rewrite (iA3 _ _ _ HI k Hk) in Hv. discriminate.
    - (* T *)
      intros k Hk. apply in_map_iff in Hk as ([k' v1] & Hfst & Hf). simpl in Hfst; subst k'.
      apply filter_In in Hf as [Hin Hir]. simpl in Hir.
      pose proof (In_lookup k v1 d1 S1 Hin) as E1.
      destruct (S4 k v1 E1) as (v & Hv & Hn & Hcase).
      destruct (iA1 _ _ _ HI k v Hv) as (v0 & Hv0 & Hrel).
      assert (is_union_ops (v_ops v1) = false) as Hu1.
      { unfold inte_removed in Hir. destruct (v_ops v1) as [[[|] ids]|]; try discriminate. reflexivity. }
      assert (v1 = v) as ->.
      { destruct Hcase as [Hc|(_ & Hu & ->)]; [exact Hc|]. unfold helperv in Hu1. simpl in Hu1. congruence. }
      destruct (is_union_ops (v_ops v0)) eqn:Eu0.
      + exfalso. unfold rel in Hrel. destruct (v_ops v0) as [[[|] ids]|]; try discriminate.
        destruct Hrel as (_ & [Ho|[_ Ho]] & _); unfold inte_removed in Hir; rewrite Ho in Hir; discriminate.
      + pose proof (rel_union_false R v0 v Hrel Eu0) as ->.
        exists v0. split; [exact Hv0|]. right. split; [exact Eu0|]. now right.
    - (* Rm *)
      intros k Hk. apply in_app_or in Hk as [Hk|Hk].
      + destruct (S2 k Hk) as (Hin & v & Hv & Hu).
        destruct (iT _ _ _ HI k Hin) as (v0 & Hv0 & [(Hu0 & _ & Hl)|(Hu0 & Hj)]).
        * rewrite Hv in Hl. inversion Hl; subst. congruence.
        * exists v0. split; [exact Hv0|]. split; [exact Hu0|]. eapply just_mono; [exact HRR | exact Hj].
      + destruct (iRm _ _ _ HI k Hk) as (v & Hv & Hu & Hj). exists v. split; [exact Hv|].
        split; [exact Hu|]. eapply just_mono; [exact HRR | exact Hj].
    - (* S *)
      intros k v2 Hl Hir. destruct (Htrace k v2 Hl) as (v1 & v & v0 & E1 & -> & _).
      apply in_map_iff. exists (k, v1). split; [reflexivity|]. apply filter_In.
      split; [now apply lookup_In'|]. simpl.
      unfold inte_removed, scanv in *. destruct (v_ops v1) as [[[|] ids]|] eqn:E; simpl in *; auto.
      * rewrite E in Hir. exact Hir.
      * destruct (filter (keepR R') ids); simpl in Hir; discriminate.
      * rewrite E in Hir. discriminate.
    - (* pure *)
      intros k Hk. apply in_map_iff in Hk as ([k' v1] & Hfst & Hf). simpl in Hfst; subst k'.
      apply filter_In in Hf as [Hin Hir]. simpl in Hir.
      pose proof (In_lookup k v1 d1 S1 Hin) as E1.
      exists v1. rewrite lookup_dmap, E1. simpl.
      unfold inte_removed in Hir. unfold scanv.
      destruct (v_ops v1) as [[[|] ids]|] eqn:E; try discriminate. split; reflexivity.
    - rewrite Hlen. exact S6.
    - intros Hp Hne. rewrite Hlen. apply S7.
      destruct todo as [|k r]; [congruence|]. destruct (Hp k (or_introl eq_refl)) as (v & Hv & Hu).
      exists k, v. split; [now left | auto].
  Qed.

  (* ---- the loop ---- *)
  Definition Final (R : list Z) (d : dict vol) : Prop := Inv [] R d.

  Lemma loop_ok fuel : forall todo R d,
    Inv todo R d -> pure todo d -> (length d < fuel)%nat ->
    exists R', Final R' (empty_loop fuel u0 u1 todo R d).
  Proof.
    induction fuel as [|f IH]; intros todo R d HI Hp Hlen; [lia|].
    destruct todo as [|k r] eqn:Et.
    - simpl. exists R. exact HI.
    - cbn [empty_loop]. rewrite <- Et in *.
      destruct (empty_step u0 u1 todo d) as [d1 now] eqn:Es.
      destruct (empty_scan (now ++ R) d1) as [d2 todo'] eqn:Ec.
      destruct (iter todo R d d1 now d2 todo' HI Es Ec) as (HI' & Hp' & _ & Hlt).
      apply (IH todo' (now ++ R) d2 HI' Hp').
      assert (todo <> []) as Hne by (rewrite Et; discriminate).
      specialize (Hlt Hp Hne). lia.
  Qed.

  Hypothesis Hnd0 : NoDup (keys d0).

  Lemma inv_init : Inv (map fst (filter (fun kv => vempty (snd kv)) d0)) [] d0.
  Proof.
    constructor.
    - exact Hnd0.
    - intros k v Hl. exists v. split; [exact Hl|]. unfold rel.
      destruct (v_ops v) as [[[|] ids]|] eqn:E; try reflexivity.
      split; [reflexivity|]. split; [left; now rewrite keepR_nil | left; auto].
    - intros k v H1 H2. congruence.
    - intros k [].
    - intros k Hk. apply in_map_iff in Hk as ([k' v] & Hfst & Hf). simpl in Hfst; subst k'.
      apply filter_In in Hf as [Hin He]. simpl in He.
      pose proof (In_lookup k v d0 Hnd0 Hin) as Hl. exists v. split; [exact Hl|].
      destruct (is_union_ops (v_ops v)) eqn:Eu; [left; auto | right; split; [reflexivity | now left]].
    - intros k [].
    - intros k v Hl Hir. exfalso. unfold inte_removed in Hir.
      destruct (v_ops v) as [[[|] ids]|]; try discriminate.
      rewrite existsb_exists in Hir. destruct Hir as ([x|] & _ & Hx); simpl in Hx; discriminate.
  Qed.

  Lemma empty_loop_step f todo R d : todo <> [] ->
    empty_loop (S f) u0 u1 todo R d =
    let '(d1, now) := empty_step u0 u1 todo d in
    let '(d2, todo') := empty_scan (now ++ R) d1 in
    empty_loop f u0 u1 todo' (now ++ R) d2.
  Proof. destruct todo; [congruence | reflexivity]. Qed.

  Lemma remove_empty_final : exists R, Final R (remove_empty u0 u1 d0).
  Proof.
    unfold remove_empty.
    set (todo := map fst (filter (fun kv => vempty (snd kv)) d0)).
    pose proof inv_init as HI. fold todo in HI.
    destruct todo as [|k r] eqn:Et.
    - simpl. exists []. exact HI.
    - rewrite <- Et in *. rewrite empty_loop_step by (rewrite Et; discriminate).
      destruct (empty_step u0 u1 todo d0) as [d1 now] eqn:Es.
      destruct (empty_scan (now ++ []) d1) as [d2 todo'] eqn:Ec.
      destruct (iter todo [] d0 d1 now d2 todo' HI Es Ec) as (HI' & Hp' & Hle & _).
      apply (loop_ok _ todo' (now ++ []) d2 HI' Hp'). lia.
  Qed.
End Loop.

(* ---- denotations: one induction on the ORIGINAL derivation ---- *)
Fixpoint filt2 (R : list Z) (ids : list (option Z)) (bs : list bool) : list bool :=
  match ids, bs with
  | x :: ids', b :: bs' => if keepR R x then b :: filt2 R ids' bs' else filt2 R ids' bs'
  | _, _ => []
  end.

Section Sem.
  Variable sigma : Z -> bool.
  Variables u0 u1 : Z.
  Hypothesis Hcons : consistent sigma u0 u1.
  Variables d0 d : dict vol.
  Variable R : list Z.
  Hypothesis HF : Final u0 u1 d0 R d.
  Notation Vden := (Vden sigma).
  Notation VdenL := (VdenL sigma).
  Notation equa := (equa sigma).

  Lemma vempty_equa v : vempty v = true -> equa v = false.
  Proof.
    unfold vempty, Spec.equa. rewrite existsb_exists. intros (p & Hp & Hm).
    apply mem_In in Hm.
    destruct (forallb sigma (v_plus v)) eqn:E1; [|reflexivity].
    destruct (forallb (fun s => negb (sigma s)) (v_minus v)) eqn:E2; [|reflexivity].
    rewrite forallb_forall in E1, E2. specialize (E1 p Hp). specialize (E2 p Hm).
    rewrite E1 in E2. discriminate.
  Qed.

  Lemma rel_equa v v' : rel u0 u1 R v v' -> equa v' = equa v.
  Proof.
    unfold rel. destruct (v_ops v) as [[[|] ids]|]; try (intros ->; reflexivity).
    intros (_ & _ & [[Hp Hm]|(Hp & Hm & He)]).
    - unfold Spec.equa. now rewrite Hp, Hm.
    - rewrite (vempty_equa v He). unfold Spec.equa. rewrite Hp, Hm. simpl.
      destruct (sigma u0) eqn:E; [|reflexivity]. now rewrite (Hcons E).
  Qed.

  Lemma survivor id v : lookup id d0 = Some v -> ~ In id R ->
    exists v', lookup id d = Some v' /\ rel u0 u1 R v v'.
  Proof.
    intros Hl Hn. destruct (lookup id d) as [v'|] eqn:E.
    - destruct (iA1 _ _ _ _ _ _ HF id v' E) as (w & Hw & Hrel). rewrite Hl in Hw.
      inversion Hw; subst w. eauto.
    - exfalso. apply Hn. eapply (iA2 _ _ _ _ _ _ HF); eauto.
  Qed.

  Lemma removed_why id v : lookup id d0 = Some v -> In id R ->
    is_union_ops (v_ops v) = false /\ just R v.
  Proof.
    intros Hl Hin. destruct (iRm _ _ _ _ _ _ HF id Hin) as (w & Hw & Hu & Hj).
    rewrite Hl in Hw. inversion Hw; subst w. auto.
  Qed.

  Definition P0 (ids : list (option Z)) (bs : list bool) : Prop :=
    VdenL d (filter (keepR R) ids) (filt2 R ids bs) /\
    existsb (fun b => b) (filt2 R ids bs) = existsb (fun b => b) bs /\
    (existsb (in_removed R) ids = true -> forallb (fun b => b) bs = false) /\
    (existsb (in_removed R) ids = false -> VdenL d ids bs).

  Lemma final_den : forall id b, Spec.Vden sigma d0 id b ->
    (In id R -> b = false) /\ (~ In id R -> Vden d id b).
  Proof.
    apply (Vden_min sigma d0 (fun id b => (In id R -> b = false) /\ (~ In id R -> Vden d id b)) P0).
    - (* plain *)
      intros id v Hl Ho. split.
      + intros Hin. destruct (removed_why id v Hl Hin) as [_ [He|Hi]]; [now apply vempty_equa|].
        unfold inte_removed in Hi. rewrite Ho in Hi. discriminate.
      + intros Hn. destruct (survivor id v Hl Hn) as (v' & Hl' & Hrel).
        assert (v' = v) as -> by (unfold rel in Hrel; now rewrite Ho in Hrel).
        now apply Vden_plain.
    - (* INTE *)
      intros id v ids bs Hl Ho _ (Ha & Hb & Hc & Hd). split.
      + intros Hin. destruct (removed_why id v Hl Hin) as [_ [He|Hi]].
        * now rewrite (vempty_equa v He).
        * unfold inte_removed in Hi. rewrite Ho in Hi. rewrite (Hc Hi). apply andb_false_r.
      + intros Hn. destruct (survivor id v Hl Hn) as (v' & Hl' & Hrel).
        assert (v' = v) as -> by (unfold rel in Hrel; now rewrite Ho in Hrel).
        destruct (existsb (in_removed R) ids) eqn:Ee.
        * exfalso. apply (iS _ _ _ _ _ _ HF id v Hl'). unfold inte_removed. now rewrite Ho.
        * eapply Vden_inte; eauto.
    - (* UNION *)
      intros id v ids bs Hl Ho _ (Ha & Hb & Hc & Hd). split.
      + intros Hin. destruct (removed_why id v Hl Hin) as [Hu _]. rewrite Ho in Hu. discriminate.
      + intros Hn. destruct (survivor id v Hl Hn) as (v' & Hl' & Hrel).
        rewrite <- (rel_equa v v' Hrel), <- Hb.
        unfold rel in Hrel. rewrite Ho in Hrel. destruct Hrel as (_ & [Hops|[Hnil Hops]] & _).
        * eapply Vden_union; eauto.
        * rewrite Hnil in Ha. inversion Ha as [Hx|]; subst. simpl. rewrite orb_false_r.
          now apply Vden_plain.
    - (* nil *)
      repeat split; simpl; try constructor; try discriminate.
    - (* cons *)
      intros id b ids bs _ [H1 H2] _ (Ha & Hb & Hc & Hd).
      assert (keepR R (Some id) = negb (mem id R)) as Hk by reflexivity.
      unfold P0. cbn [filter filt2 existsb forallb in_removed]. rewrite !Hk.
      destruct (mem id R) eqn:Em; cbn [negb orb andb].
      + assert (b = false) as -> by (apply H1; now apply mem_In).
        split; [exact Ha|]. split; [exact Hb|]. split; [reflexivity | discriminate].
      + assert (~ In id R) as Hn by (intros Hi; apply mem_In in Hi; congruence).
        split; [constructor; auto|]. split; [simpl; now rewrite Hb|]. split.
        * intros He. rewrite (Hc He). apply andb_false_r.
        * intros He. constructor; auto.
  Qed.
End Sem.

(* ---- remove_empty_volumes is sound ---- *)
Theorem remove_empty_sound u0 u1 d0 : NoDup (keys d0) ->
  NoDup (keys (remove_empty u0 u1 d0)) /\
  (* nothing new, FICTIVE flags kept *)
  (forall id v', lookup id (remove_empty u0 u1 d0) = Some v' ->
     exists v, lookup id d0 = Some v /\ v_fict v' = v_fict v) /\
  forall sigma, consistent sigma u0 u1 ->
    (* every surviving volume keeps its denotation *)
    (forall id v' b, lookup id (remove_empty u0 u1 d0) = Some v' -> Vden sigma d0 id b ->
       Vden sigma (remove_empty u0 u1 d0) id b) /\
    (* only volumes that denote false are deleted *)
    (forall id v b, lookup id d0 = Some v -> lookup id (remove_empty u0 u1 d0) = None ->
       Vden sigma d0 id b -> b = false).
Proof.
  intros Hnd. destruct (remove_empty_final u0 u1 d0 Hnd) as (R & HF).
  split; [exact (iK _ _ _ _ _ _ HF)|]. split.
  - intros id v' Hl. destruct (iA1 _ _ _ _ _ _ HF id v' Hl) as (v & Hv & Hrel). exists v.
    split; [exact Hv|]. unfold rel in Hrel.
    destruct (v_ops v) as [[[|] ids]|]; try (now rewrite Hrel). apply Hrel.
  - intros sigma Hcons. split.
    + intros id v' b Hl Hv. apply (final_den sigma u0 u1 Hcons d0 _ R HF id b Hv).
      intros Hin. rewrite (iA3 _ _ _ _ _ _ HF id Hin) in Hl. discriminate.
    + intros id v b Hl Hn Hv. apply (final_den sigma u0 u1 Hcons d0 _ R HF id b Hv).
      eapply (iA2 _ _ _ _ _ _ HF); eauto.
Qed.
