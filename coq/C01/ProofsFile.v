(* C01 — end to end: points of R^3 against the printed VOLU lines read back. *)
From Coq Require Import List ZArith Bool Lia Reals.
From T4V Require Import C01.Model C01.Spec C01.Printer C01.ProofsTree C01.ProofsT4 C01.ProofsCells
     C01.ProofsPrune C01.ProofsEmpty C01.ProofsWritten C01.ProofsPoints C01.ProofsPrinter.
Import ListNotations.
Open Scope Z_scope.

Theorem file_partition_points :
  forall (fval : Z -> point -> R) (u0 u1 : Z),
  (forall p, fval u0 p = (px p - 1)%R) -> (forall p, fval u1 p = (px p + 1)%R) ->
  forall (cden : point -> Z -> bool) cells matching fuel todo cnt0 s' rn skipped d' p c,
  0 < u0 -> 0 < u1 -> off_surfaces fval p ->
  (forall c g orig, lookup c cells = Some (g, orig) ->
     leaves_ok (msurf_ok matching) g /\ cden p c = mden (sigma_of fval p) (cden p) matching g) ->
  NoDup todo -> (forall k, In k todo -> k <= cnt0) ->
  convert_cells fuel cells matching u0 u1 todo (mkSt cnt0 [] [] []) = Ok s' ->
  prune u0 u1 rn (vols s') = Ok d' ->
  (forall r, rn = Some r -> merged_equal fval r) ->
  (forall k, In k skipped -> k <= cnt0 /\ ~ In k todo) ->
  cden p c = true -> (forall c', In c' todo -> cden p c' = true -> c' = c) ->
  exists T, read_table (print_table skipped d') = Some T /\
            (In c todo -> forall k, pt_in fval T p k <-> k = c) /\
            (~ In c todo -> forall k, ~ pt_in fval T p k).
Proof.
  intros fval u0 u1 Hh0 Hh1 cden cells matching fuel todo cnt0 s' rn skipped d' p c
         H0 H1 Hoff Hok Hnd Hle Hrun Hpr Hmerged Hskip Hown Huniq.
  assert (forall r, rn = Some r -> respects (sigma_of fval p) r) as Hresp
      by (intros r Hr; apply sigma_respects; auto).
  pose proof (sigma_consistent fval u0 u1 Hh0 Hh1 p) as Hc.
  destruct (file_partition (sigma_of fval p) (cden p) cells matching u0 u1 H0 H1 Hc Hok fuel todo cnt0 s'
              Hnd Hle Hrun rn skipped d' Hpr Hresp Hskip c Hown Huniq) as (T & HT & A & B).
  pose proof (file_readable (sigma_of fval p) (cden p) cells matching u0 u1 H0 H1 Hc Hok fuel todo cnt0 s'
                Hnd Hle Hrun rn skipped d' Hpr Hresp Hskip) as HT'.
  rewrite HT in HT'. inversion HT'; subst T.
  exists (dmap norm (written skipped d')). split; [exact HT|].
  assert (forall k, pt_in fval (dmap norm (written skipped d')) p k <->
                    in_volume (sigma_of fval p) (dmap norm (written skipped d')) k) as Heq.
  { intros k. split.
    - intros (v & Hl & Hf & Hp).
      pose proof (file_den (sigma_of fval p) (cden p) cells matching u0 u1 H0 H1 Hc Hok fuel todo cnt0 s'
                    Hnd Hle Hrun rn skipped d' Hpr Hresp Hskip k v Hl Hf) as Hv.
      pose proof (Pin_Vden fval _ p Hoff k Hp _ Hv) as Hb. rewrite Hb in Hv. exists v. auto.
    - intros (v & Hl & Hf & Hv). exists v. split; [exact Hl|]. split; [exact Hf|].
      eapply Vden_Pin; eauto. }
  split.
  - intros Hin k. rewrite Heq. now apply A.
  - intros Hnin k Hk. apply Heq in Hk. exact (B Hnin k Hk).
Qed.
