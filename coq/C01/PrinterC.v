(* C01 — the printed VOLU line WITH its provenance comment:
     writeT4Geometry:  f'VOLU {key} {val} ENDV{comment}',  comment = VolumeT4.comment()
                       = ' // ' + '; '.join(map(str, idorigin))  (nothing when idorigin is empty)
   The comment is modelled as the list of (filler, container) pairs; a reader puts
   it back into v_orig. *)
From Coq Require Import List ZArith Bool.
From T4V Require Import C01.Model C01.Printer.
Import ListNotations.
Open Scope Z_scope.

Definition cline := (list tok * list (Z * Z))%type.

Definition print_line_c (k : Z) (v : vol) : cline := (print_line k v, v_orig v).

Definition print_table_c (skipped : list Z) (d : dict vol) : list cline :=
  map (fun kv => print_line_c (fst kv) (snd kv)) (written skipped d).

Definition read_line_c (l : cline) : option (Z * vol) :=
  match read_line (fst l) with
  | Some (k, v) => Some (k, mkVol (v_plus v) (v_minus v) (v_ops v) (snd l) (v_fict v))
  | None => None
  end.

Fixpoint read_table_c (lines : list cline) : option (dict vol) :=
  match lines with
  | [] => Some []
  | l :: r => match read_line_c l, read_table_c r with
              | Some kv, Some d => Some (kv :: d)
              | _, _ => None
              end
  end.
