(* C01 — from sense assignments to points of R^3.
   Surfaces are given by ANY family of real functions fval : id -> point -> R
   (PLUS s = {fval s > 0}, MINUS s = {fval s < 0}); the two helper planes are
   PLANEX 1 and PLANEX -1, as construct_volume_t4 inserts them.  Membership of a
   point in a written volume is defined directly on the table (Pin), without
   Booleans; for a point off every surface it coincides with Vden at the sense
   assignment of the point. *)
From Coq Require Import List ZArith Bool Lia Reals Lra.
From T4V Require Import C01.Model C01.Spec C01.ProofsTree C01.ProofsT4 C01.ProofsCells
     C01.ProofsPrune C01.ProofsEmpty C01.ProofsWritten.
Import ListNotations.
Open Scope Z_scope.

Definition point := (R * R * R)%type.
Definition px (p : point) : R := fst (fst p).

Section Points.
  Variable fval : Z -> point -> R.

  (* the sense assignment of a point *)
  Definition sigma_of (p : point) (s : Z) : bool :=
    if Rlt_dec 0 (fval s p) then true else false.

  Definition off_surfaces (p : point) : Prop := forall s, fval s p <> 0%R.

  (* TRIPOLI-4: EQUA PLUS ... MINUS ... at a point *)
  Definition pequa (v : vol) (p : point) : Prop :=
    Forall (fun s => (fval s p > 0)%R) (v_plus v) /\ Forall (fun s => (fval s p < 0)%R) (v_minus v).

  (* pts(v) = EQ(v) ∪ ⋃ pts(vi)  resp.  EQ(v) ∩ ⋂ pts(vi) *)
  Inductive Pin (d : dict vol) (p : point) : Z -> Prop :=
  | Pin_plain id v : lookup id d = Some v -> v_ops v = None -> pequa v p -> Pin d p id
  | Pin_inte id v ids : lookup id d = Some v -> v_ops v = Some (OInter, ids) -> pequa v p ->
      PinAll d p ids -> Pin d p id
  | Pin_union_eq id v ids : lookup id d = Some v -> v_ops v = Some (OUnion, ids) -> pequa v p ->
      Pin d p id
  | Pin_union_op id v ids k : lookup id d = Some v -> v_ops v = Some (OUnion, ids) ->
      In (Some k) ids -> Pin d p k -> Pin d p id
  with PinAll (d : dict vol) (p : point) : list (option Z) -> Prop :=
  | PinAll_nil : PinAll d p []
  | PinAll_cons k ids : Pin d p k -> PinAll d p ids -> PinAll d p (Some k :: ids).

  Scheme Pin_min := Minimality for Pin Sort Prop
    with PinAll_min := Minimality for PinAll Sort Prop.

  Lemma sigma_pos p s : sigma_of p s = true <-> (fval s p > 0)%R.
  Proof. unfold sigma_of. destruct (Rlt_dec 0 (fval s p)); split; intros; try lra; discriminate. Qed.

  Lemma sigma_neg p s : off_surfaces p -> (negb (sigma_of p s) = true <-> (fval s p < 0)%R).
  Proof.
    intros Hoff. specialize (Hoff s). unfold sigma_of.
    destruct (Rlt_dec 0 (fval s p)); simpl; split; intros; try lra; try discriminate; reflexivity.
  Qed.

  Lemma pequa_equa p v : off_surfaces p -> (pequa v p <-> equa (sigma_of p) v = true).
  Proof.
    intros Hoff. unfold pequa, Spec.equa. rewrite andb_true_iff, !forallb_forall, !Forall_forall.
    split; intros [H1 H2]; split; intros s Hs.
    - apply sigma_pos. auto.
    - apply sigma_neg; auto.
    - apply sigma_pos. auto.
    - apply (sigma_neg p s Hoff). auto.
  Qed.

  (* Pin is Vden read at the sense assignment of the point *)
  Lemma Vden_Pin d p : off_surfaces p -> forall id b, Vden (sigma_of p) d id b -> b = true -> Pin d p id.
  Proof.
    intros Hoff.
    apply (Vden_min (sigma_of p) d (fun id b => b = true -> Pin d p id)
             (fun ids bs => (forallb (fun b => b) bs = true -> PinAll d p ids) /\
                            (existsb (fun b => b) bs = true -> exists k, In (Some k) ids /\ Pin d p k))).
    - intros id v Hl Ho Hb. eapply Pin_plain; eauto. now apply pequa_equa.
    - intros id v ids bs Hl Ho _ [IH _] Hb. apply andb_true_iff in Hb as [H1 H2].
      eapply Pin_inte; eauto. now apply pequa_equa.
    - intros id v ids bs Hl Ho _ [_ IH] Hb. apply orb_true_iff in Hb as [H1|H2].
      + eapply Pin_union_eq; eauto. now apply pequa_equa.
      + destruct (IH H2) as (k & Hk & Hp). eapply Pin_union_op; eauto.
    - split; [constructor | discriminate].
    - intros id b ids bs _ IH1 _ [IH2 IH3]. split; simpl.
      + intros H. apply andb_true_iff in H as [Hb Hbs]. constructor; auto.
      + intros H. apply orb_true_iff in H as [Hb|Hbs].
        * exists id. split; [now left | auto].
        * destruct (IH3 Hbs) as (k & Hk & Hp). exists k. split; [now right | exact Hp].
  Qed.

  Lemma VdenL_In d p ids bs k : VdenL (sigma_of p) d ids bs -> In (Some k) ids ->
    exists b, Vden (sigma_of p) d k b /\ In b bs.
  Proof.
    induction 1 as [|id b ids bs Hv Hl IH]; simpl; [contradiction|].
    intros [Hq|Hq]; [inversion Hq; subst; exists b; auto|].
    destruct (IH Hq) as (b' & H1 & H2). exists b'. auto.
  Qed.

  Lemma Pin_Vden d p : off_surfaces p -> forall id, Pin d p id ->
    forall b, Vden (sigma_of p) d id b -> b = true.
  Proof.
    intros Hoff.
    apply (Pin_min d p (fun id => forall b, Vden (sigma_of p) d id b -> b = true)
             (fun ids => forall bs, VdenL (sigma_of p) d ids bs -> forallb (fun b => b) bs = true)).
    - intros id v Hl Ho He b Hv.
      inversion Hv as [? v0 Hl0 Ho0|? v0 ids0 bs0 Hl0 Ho0 HL0|? v0 ids0 bs0 Hl0 Ho0 HL0]; subst;
        rewrite Hl in Hl0; inversion Hl0; subst v0; rewrite Ho in Ho0; try discriminate.
      now apply pequa_equa.
    - intros id v ids Hl Ho He _ IH b Hv.
      inversion Hv as [? v0 Hl0 Ho0|? v0 ids0 bs0 Hl0 Ho0 HL0|? v0 ids0 bs0 Hl0 Ho0 HL0]; subst;
        rewrite Hl in Hl0; inversion Hl0; subst v0; rewrite Ho in Ho0; try discriminate.
      inversion Ho0; subst ids0. apply andb_true_iff. split; [now apply pequa_equa | auto].
    - intros id v ids Hl Ho He b Hv.
      inversion Hv as [? v0 Hl0 Ho0|? v0 ids0 bs0 Hl0 Ho0 HL0|? v0 ids0 bs0 Hl0 Ho0 HL0]; subst;
        rewrite Hl in Hl0; inversion Hl0; subst v0; rewrite Ho in Ho0; try discriminate.
      apply orb_true_iff. left. now apply pequa_equa.
    - intros id v ids k Hl Ho Hin _ IH b Hv.
      inversion Hv as [? v0 Hl0 Ho0|? v0 ids0 bs0 Hl0 Ho0 HL0|? v0 ids0 bs0 Hl0 Ho0 HL0]; subst;
        rewrite Hl in Hl0; inversion Hl0; subst v0; rewrite Ho in Ho0; try discriminate.
      inversion Ho0; subst ids0. apply orb_true_iff. right.
      destruct (VdenL_In d p ids bs0 k HL0 Hin) as (b' & Hb' & Hinb).
      rewrite (IH b' Hb') in Hinb. apply existsb_exists. exists true. auto.
    - intros bs H. inversion H. reflexivity.
    - intros k ids _ IH1 _ IH2 bs H. inversion H; subst. simpl.
      apply andb_true_iff. split; auto.
  Qed.

  (* ---- the two facts the Boolean layer asked of a sense assignment ---- *)
  Variables u0 u1 : Z.
  Hypothesis Hh0 : forall p, fval u0 p = (px p - 1)%R.     (* PLANEX 1 *)
  Hypothesis Hh1 : forall p, fval u1 p = (px p + 1)%R.     (* PLANEX -1 *)

  Lemma sigma_consistent p : consistent (sigma_of p) u0 u1.
  Proof.
    unfold consistent. rewrite !sigma_pos, Hh0, Hh1. lra.
  Qed.

  (* surfaces merged by the de-duplication have equal descriptors, hence are the
     same function (C13) *)
  Definition merged_equal (r : dict Z) : Prop :=
    forall x y, lookup x r = Some y -> forall q, fval y q = fval x q.

  Lemma sigma_respects p r : merged_equal r -> respects (sigma_of p) r.
  Proof. intros H x y Hl. unfold sigma_of. now rewrite (H x y Hl p). Qed.

  (* the point lies in the written non-FICTIVE volume k *)
  Definition pt_in (d : dict vol) (p : point) (k : Z) : Prop :=
    exists v, lookup k d = Some v /\ v_fict v = false /\ Pin d p k.

  Theorem partition_points :
    forall (cden : point -> Z -> bool) cells matching fuel todo cnt0 s' rn skipped d' p c,
    0 < u0 -> 0 < u1 -> off_surfaces p ->
    (forall c g orig, lookup c cells = Some (g, orig) ->
       leaves_ok (msurf_ok matching) g /\ cden p c = mden (sigma_of p) (cden p) matching g) ->
    NoDup todo -> (forall k, In k todo -> k <= cnt0) ->
    convert_cells fuel cells matching u0 u1 todo (mkSt cnt0 [] [] []) = Ok s' ->
    prune u0 u1 rn (vols s') = Ok d' ->
    (forall r, rn = Some r -> merged_equal r) ->
    (forall k, In k skipped -> k <= cnt0 /\ ~ In k todo) ->
    cden p c = true -> (forall c', In c' todo -> cden p c' = true -> c' = c) ->
    (In c todo -> forall k, pt_in (written skipped d') p k <-> k = c) /\
    (~ In c todo -> forall k, ~ pt_in (written skipped d') p k).
  Proof.
    intros cden cells matching fuel todo cnt0 s' rn skipped d' p c
           H0 H1 Hoff Hok Hnd Hle Hrun Hpr Hmerged Hskip Hown Huniq.
    assert (forall r, rn = Some r -> respects (sigma_of p) r) as Hresp
        by (intros r Hr; apply sigma_respects; auto).
    pose proof (sigma_consistent p) as Hc.
    assert (forall k, pt_in (written skipped d') p k <-> in_volume (sigma_of p) (written skipped d') k) as Heq.
    { intros k. split.
      - intros (v & Hl & Hf & Hp).
        destruct (written_den (sigma_of p) (cden p) cells matching u0 u1 H0 H1 Hc Hok fuel todo cnt0 s'
                    Hnd Hle Hrun rn skipped d' Hpr Hresp Hskip k v Hl Hf) as [_ Hv].
        pose proof (Pin_Vden _ p Hoff k Hp _ Hv) as Hb. rewrite Hb in Hv. exists v. auto.
      - intros (v & Hl & Hf & Hv). exists v. split; [exact Hl|]. split; [exact Hf|].
        eapply Vden_Pin; eauto. }
    destruct (written_partition (sigma_of p) (cden p) cells matching u0 u1 H0 H1 Hc Hok fuel todo cnt0 s'
                Hnd Hle Hrun rn skipped d' Hpr Hresp Hskip c Hown Huniq) as [A B].
    split.
    - intros Hin k. rewrite Heq. now apply A.
    - intros Hnin k Hk. apply Heq in Hk. exact (B Hnin k Hk).
  Qed.
End Points.
