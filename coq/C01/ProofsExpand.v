(* C01 — pot_expand_surfs: which inputs are rejected, and with which exception.
   The success hypothesis of C01_expand_surfs_den is characterised: expansion
   succeeds iff no surface leaf is in error, and otherwise raises the error of
   the first offending leaf in left-to-right order (KeyError: surface not in
   `matching`; CellConversionError: facet number above the number of facets;
   IndexError: facet number so negative that Python's index leaves the list). *)
From Coq Require Import List ZArith Bool Lia.
From T4V Require Import C01.Model C01.Spec C01.ProofsTree C01.ProofsT4 C01.ProofsCells.
Import ListNotations.
Open Scope Z_scope.

Definition leaf_err (m : dict (list Z)) (a : msurf) : option err :=
  let '(s, sub) := a in
  match lookup (Z.abs s) m with
  | None => Some EKey
  | Some ids =>
      match sub with
      | None => None
      | Some k =>
          let len := Z.of_nat (length ids) in
          if len <? k then Some EFacet
          else if 0 <=? k - 1 then None
          else if 0 <=? len + (k - 1) then None else Some EIndex
      end
  end.

Fixpoint first_err (m : dict (list Z)) (l : list msurf) : option err :=
  match l with
  | [] => None
  | a :: r => match leaf_err m a with Some e => Some e | None => first_err m r end
  end.

Lemma first_err_app m a b :
  first_err m (a ++ b) = match first_err m a with Some e => Some e | None => first_err m b end.
Proof.
  induction a as [|x r IH]; simpl; [reflexivity|]. destruct (leaf_err m x); [reflexivity | exact IH].
Qed.

Definition agrees {X} (r : res X) (e : option err) : Prop :=
  match r with Ok _ => e = None | Err x => e = Some x end.

Lemma nth_error_some_lt {X} (l : list X) i : (i < length l)%nat -> exists x, nth_error l i = Some x.
Proof.
  intros H. destruct (nth_error l i) eqn:E; [eauto|]. apply nth_error_None in E. lia.
Qed.

Lemma expand_leaf_err m a n : agrees (expand_leaf m a n) (leaf_err m a).
Proof.
  destruct a as [s sub]. unfold expand_leaf, leaf_err, agrees.
  destruct (lookup (Z.abs s) m) as [ids|]; [|reflexivity].
  destruct sub as [k|].
  - destruct (Z.of_nat (length ids) <? k) eqn:E1; [reflexivity|].
    unfold py_index. destruct (0 <=? k - 1) eqn:E2.
    + destruct (nth_error_some_lt ids (Z.to_nat (k - 1))) as (x & ->); [lia | reflexivity].
    + destruct (0 <=? Z.of_nat (length ids) + (k - 1)) eqn:E3.
      * destruct (nth_error_some_lt ids (Z.to_nat (Z.of_nat (length ids) + (k - 1)))) as (x & ->);
          [lia | reflexivity].
      * reflexivity.
  - destruct ids as [|x [|y r]]; try reflexivity; destruct (s <? 0); reflexivity.
Qed.

Lemma expand_err_list m (args : list (tree msurf)) :
  Forall (fun x => forall n, agrees (expand m x n) (first_err m (all_leaves x))) args ->
  forall n, agrees (map_state_res (expand m) args n) (first_err m (flat_map all_leaves args)).
Proof.
  induction 1 as [|x r Hx Hr IH]; intros n; simpl; [reflexivity|].
  rewrite first_err_app. specialize (Hx n). unfold agrees in *.
  destruct (expand m x n) as [[x' n1]|e]; [|now rewrite Hx].
  rewrite Hx. specialize (IH n1). destruct (map_state_res (expand m) r n1) as [[r' n2]|e]; exact IH.
Qed.

Lemma expand_err m t : forall n, agrees (expand m t n) (first_err m (all_leaves t)).
Proof.
  induction t as [a|c|id o args IH] using tree_ind2; intros n.
  - simpl. unfold all_leaves. simpl. pose proof (expand_leaf_err m a n) as H. unfold agrees in *.
    destruct (expand_leaf m a n); destruct (leaf_err m a); congruence.
  - reflexivity.
  - simpl. pose proof (expand_err_list m args IH n) as H. unfold all_leaves in *. simpl.
    unfold agrees in *. destruct (map_state_res (expand m) args n) as [[args' n']|e]; exact H.
Qed.

(* success exactly when no leaf is in error *)
Lemma expand_ok_iff m t n :
  (exists t' n', expand m t n = Ok (t', n')) <-> first_err m (all_leaves t) = None.
Proof.
  pose proof (expand_err m t n) as H. unfold agrees in H.
  destruct (expand m t n) as [[t' n']|e]; split; intros Hx; eauto; try congruence.
  destruct Hx as (? & ? & Hx). discriminate.
Qed.

(* the quirk behind the guard "facets >= 1": s.0 is not an error, it selects the
   LAST facet (Python index -1) *)
Lemma expand_facet0 m s ids n : lookup (Z.abs s) m = Some ids -> ids <> [] ->
  exists x, nth_error ids (length ids - 1) = Some x /\
            expand_leaf m (s, Some 0) n = Ok (Leaf (signed s x), n).
Proof.
  intros Hl Hne. unfold expand_leaf. rewrite Hl.
  assert (0 < length ids)%nat as Hlen by (destruct ids; [congruence | simpl; lia]).
  destruct (Z.of_nat (length ids) <? 0) eqn:E; [lia|].
  unfold py_index. simpl (0 - 1). destruct (0 <=? -1) eqn:E2; [lia|].
  destruct (0 <=? Z.of_nat (length ids) + -1) eqn:E3; [|lia].
  replace (Z.to_nat (Z.of_nat (length ids) + -1)) with (length ids - 1)%nat by lia.
  destruct (nth_error_some_lt ids (length ids - 1)) as (x & Hx); [lia|]. rewrite Hx. eauto.
Qed.
