(* C01 <- C05: the generated cells are operator nodes after the whole chain
   (pot_fill builds ('*', left, right); inline_worker keeps the operator of a
   node), which removes the hypothesis [is_node] of the sharpened FILL theorem. *)
From Coq Require Import List ZArith Bool Lia.
From T4V Require C05.Model C05.Spec C05.Proofs.
From T4V Require Import C01.Model C01.Spec C01.Printer C01.PrinterC C01.ProofsCells C01.ProofsPrune C01.LinkC05 C01.LinkFill2.
Import ListNotations.
Open Scope Z_scope.

Definition is_tnode (e : M5.tree) : bool := match e with M5.TNode _ _ => true | _ => false end.

Lemma trF_node e : is_tnode e = true -> is_node (trF e) = true.
Proof. destruct e; simpl; try discriminate; reflexivity. Qed.

Section Node.
  Variable T : Type.

  Lemma inline_worker_node fuel cells ti e g :
    M5.inline_worker T fuel cells ti e = M5.Ok g -> is_tnode e = true -> is_tnode g = true.
  Proof.
    destruct fuel as [|f]; simpl; [discriminate|]. destruct e as [x|c|c|op args]; try discriminate.
    destruct (M5.mapM_res _ args) as [args'|]; [|discriminate]. intros H _. inversion H. reflexivity.
  Qed.

  Lemma inline_loop_node fuel ti : forall keys (cells cells' : list (Z * M5.cell T)),
    M5.inline_loop T fuel keys ti cells = M5.Ok cells' ->
    forall k cl, M5.dget k cells = Some cl -> is_tnode (M5.c_geom cl) = true ->
    exists cl', M5.dget k cells' = Some cl' /\ is_tnode (M5.c_geom cl') = true.
  Proof.
    induction keys as [|k0 r IH]; intros cells cells' H k cl Hk Hn; simpl in H.
    - inversion H; subst. eauto.
    - destruct (M5.dget k0 cells) as [cl0|] eqn:E0; [|discriminate].
      destruct (M5.inline_worker T fuel cells ti (M5.c_geom cl0)) as [g'|] eqn:Ew; [|discriminate].
      destruct (Z.eq_dec k k0) as [->|Hne].
      + rewrite E0 in Hk. inversion Hk; subst cl0.
        apply (IH _ _ H k0 (M5.with_geom cl g')); [apply P5.dget_dset_same|].
        simpl. eapply inline_worker_node; eauto.
      + apply (IH _ _ H k cl); [rewrite P5.dget_dset_other; auto | exact Hn].
  Qed.

  Lemma inline_cells_node fuel num den (cells cells' : list (Z * M5.cell T)) :
    M5.inline_cells T fuel num den cells = M5.Ok cells' ->
    forall k cl, M5.dget k cells = Some cl -> is_tnode (M5.c_geom cl) = true ->
    exists cl', M5.dget k cells' = Some cl' /\ is_tnode (M5.c_geom cl') = true.
  Proof.
    intros H k cl Hk Hn. unfold M5.inline_cells in H.
    destruct (M5.find_occurrences T cells) as [occ|]; [|discriminate].
    destruct occ as [|o occ']; [inversion H; subst; eauto|].
    destruct (M5.to_inline_set T cells num den (o :: occ')) as [ti|]; [|discriminate].
    destruct ti as [|t0 ti']; [inversion H; subst; eauto|].
    eapply inline_loop_node; eauto.
  Qed.
End Node.

(* ---- the generated cells of a filled level-0 cell are operator nodes ---- *)
Lemma in_dget_nodup {V} k (v : V) d : NoDup (map fst d) -> In (k, v) d -> M5.dget k d = Some v.
Proof.
  induction d as [|[a b] l IH]; simpl; intros Hnd Hin; [contradiction|].
  inversion Hnd as [|? ? Hnot Hnd']; subst. destruct Hin as [Hq|Hq].
  - inversion Hq; subst. now rewrite Z.eqb_refl.
  - destruct (k =? a) eqn:E; [|auto]. apply Z.eqb_eq in E; subst. exfalso. apply Hnot.
    change a with (fst (a, v)). now apply in_map.
Qed.

Lemma generated_node :
  forall (T surf P : Type) (tr_empty : T -> bool) (teqb : T -> T -> bool)
         (tr_surf : T -> surf -> surf) (inv : T -> P -> P) (sense : surf -> P -> bool),
  (forall t o p, sense (tr_surf t o) p = sense o (inv t p)) ->
  (forall a b, teqb a b = true -> tr_empty a = tr_empty b /\ forall p, inv a p = inv b p) ->
  forall fuel5 cf ifd ifg num den (s0 s1 s2 : M5.state T surf) rs cells3,
  P5.fresh_ok T surf s0 -> M5.s_cache s0 = [] -> NoDup (map fst (M5.s_cells s0)) ->
  P5.all_ref_free T surf s0 ->
  (forall c cl, M5.dget c (M5.s_cells s0) = Some cl -> M5.c_orig cl = []) ->
  M5.trcl_phase T surf tr_empty teqb tr_surf fuel5 (map fst (M5.s_cells s0)) s0 = M5.Ok s1 ->
  M5.fill_phase T surf tr_empty teqb tr_surf fuel5 cf ifd ifg s1 = M5.Ok (rs, s2) ->
  M5.inline_cells T fuel5 num den (M5.s_cells s2) = M5.Ok cells3 ->
  forall key ks k, In (key, ks) (combine (M5.fill_keys (M5.s_cells s0)) rs) -> In k ks ->
  forall ncl, M5.dget k cells3 = Some ncl -> is_node (trF (M5.c_geom ncl)) = true.
Proof.
  intros T surf P tr_empty teqb tr_surf inv sense Hsense Hkey fuel5 cf ifd ifg num den s0 s1 s2 rs cells3
         Hf Hc Hnd Hrf Ho Ht Hfill Hinl key ks k Hpair Hk ncl3 Hd3.
  destruct (P5.trcl_phase_Moved T surf P tr_empty teqb tr_surf inv sense Hsense Hkey fuel5 s0 s1 Hf Hc Hnd Hrf Ht)
    as (HM & Hf1 & Hc1 & Hsk).
  assert (Ho1 : forall c cl, M5.dget c (M5.s_cells s1) = Some cl -> M5.c_orig cl = []).
  { intros c cl1 Hk1. destruct (P5.Moved_back T surf P tr_empty inv sense _ _ _ _ HM Hk1) as (cl & g' & Hcl & ->).
    cbn [M5.with_geom M5.c_orig]. exact (Ho _ _ Hcl). }
  assert (NoDup (map fst (M5.s_cells s1))) as Hnd1 by (rewrite (P5.map_fst_sk T _ _ Hsk); exact Hnd).
  destruct (P5.fill_phase_spec T surf P tr_empty teqb tr_surf inv sense Hsense Hkey
              fuel5 cf ifd ifg s1 rs s2 Hf1 Hc1 Ho1 Hfill) as (_ & _ & HF).
  rewrite <- (P5.fill_keys_sk T _ _ Hsk) in Hpair.
  destruct (Forall2_pair _ _ _ key ks HF Hpair) as (chs & HP & HG).
  destruct (Forall2_pick_l _ _ _ k HG Hk) as (ch & Hkc & G).
  pose proof (in_combine_r _ _ _ _ Hkc) as Hch.
  (* the container has a FILL, so every descent below it has at least two cells *)
  assert (exists cl u, M5.dget key (M5.s_cells s1) = Some cl /\ M5.c_fill cl = Some u) as (kc & u & Hdk & Hfu).
  { apply in_combine_l in Hpair. unfold M5.fill_keys in Hpair.
    apply in_map_iff in Hpair as ([kk cl] & Hfst & Hfl). simpl in Hfst; subst kk.
    apply filter_In in Hfl as [Hinc Hq]. apply andb_true_iff in Hq as [Hq _]. simpl in Hq.
    destruct (M5.c_fill cl) as [u|] eqn:Eu; [|discriminate]. exists cl, u.
    split; [now apply in_dget_nodup | exact Eu]. }
  assert (forall u', NoDup (M5.du_get u' (M5.by_universe (M5.s_cells s1)))) as Hdu
      by (intros u'; apply P5.by_universe_NoDup; exact Hnd1).
  assert (exists c r', ch = key :: c :: r') as (c & r' & Hchs).
  { inversion HP as [? cl Hd Hfn|? cl u' chss Hd Hfs HPL]; subst.
    - rewrite Hdk in Hd. inversion Hd; subst. congruence.
    - apply in_map_iff in Hch as (x & <- & Hx).
      destruct (proj2 (P5.Paths_NoDup T surf s1 _ Hdu) _ _ HPL (Hdu u')) as [_ Hhd].
      destruct (Hhd x Hx) as (c & r' & -> & _). eauto. }
  destruct G as (ncl & lcl & kcl1 & r & Hr & H2 & _ & _ & _ & _ & _ & _ & _ & _ & _ & Hgeo & _).
  rewrite Hchs in Hr. inversion Hr; subst r.
  destruct Hgeo as [[Hnil _]|(_ & lft & rgt & Hg & _)]; [discriminate|].
  destruct (inline_cells_node T fuel5 num den _ _ Hinl k ncl H2) as (cl' & Hd' & Hn').
  { rewrite Hg. reflexivity. }
  rewrite Hd3 in Hd'. inversion Hd'; subst cl'. now apply trF_node.
Qed.

(* the sharpened FILL theorem without the operator-node hypothesis *)
Theorem partition_fill_written_linked2 :
  forall (T surf P : Type) (tr_empty : T -> bool) (teqb : T -> T -> bool)
         (tr_surf : T -> surf -> surf) (inv : T -> P -> P) (sense : surf -> P -> bool)
         (Hsense : forall t o p, sense (tr_surf t o) p = sense o (inv t p))
         (Hkey : forall a b, teqb a b = true -> tr_empty a = tr_empty b /\ forall p, inv a p = inv b p)
         fuel5 cf ifd ifg num den (s0 s1 s2 : M5.state T surf) rs cells3
         (Hf : P5.fresh_ok T surf s0) (Hc : M5.s_cache s0 = []) (Hnd : NoDup (map fst (M5.s_cells s0)))
         (Hrf : P5.all_ref_free T surf s0)
         (Ho : forall c cl, M5.dget c (M5.s_cells s0) = Some cl -> M5.c_orig cl = [])
         (Ht : M5.trcl_phase T surf tr_empty teqb tr_surf fuel5 (map fst (M5.s_cells s0)) s0 = M5.Ok s1)
         (Hfill : M5.fill_phase T surf tr_empty teqb tr_surf fuel5 cf ifd ifg s1 = M5.Ok (rs, s2))
         (Hinl : M5.inline_cells T fuel5 num den (M5.s_cells s2) = M5.Ok cells3),
  let s3 := P5.set_cells T surf s2 cells3 in
  let du := M5.by_universe (M5.s_cells s0) in
  forall (key : Z) (ks : list Z) (kcl : M5.cell T) (p : P) (ch : list Z)
         sigma matching val u0 u1 fuel todo cnt0 s' rn skipped d',
  In (key, ks) (combine (M5.fill_keys (M5.s_cells s0)) rs) ->
  M5.dget key (M5.s_cells s0) = Some kcl ->
  S5.LocW T surf P tr_empty inv sense s0 du key p ch true ->
  S5.universe_partitionW T surf P tr_empty inv sense s0 du ->
  (forall chs ch', S5.Paths T surf s0 du key chs -> In ch' chs ->
     exists b', S5.LocW T surf P tr_empty inv sense s0 du key p ch' b') ->
  (forall k o, M5.dget k (M5.s_surfs s3) = Some o ->
     k <> 0 /\ exists ids, lookup k matching = Some ids /\ existsb (Spec.lit sigma) ids = sense o p) ->
  (forall k ids, lookup k matching = Some ids -> Forall (fun x => x <> 0) ids) ->
  (forall c cl, M5.dget c (M5.s_cells s3) = Some cl ->
     S5.Den T surf P sense s3 p (M5.c_geom cl) (val c)) ->
  0 < u0 -> 0 < u1 -> Spec.consistent sigma u0 u1 ->
  NoDup todo -> (forall k, In k todo -> k <= cnt0) ->
  (forall k, In k todo <-> exists cl, M5.dget k cells3 = Some cl /\ M5.c_imp cl <> 0 /\
                                      M5.c_univ cl = 0 /\ M5.c_fill cl = None) ->
  convert_cells fuel (cells_of5 (M5.s_cells s3)) matching u0 u1 todo (mkSt cnt0 [] [] []) = Ok s' ->
  prune u0 u1 rn (vols s') = Ok d' ->
  (forall r, rn = Some r -> ProofsPrune.respects sigma r) ->
  (forall k, In k skipped -> k <= cnt0 /\ ~ In k todo) ->
  (forall k', In k' todo ->
     (exists cl, M5.dget k' (M5.s_cells s0) = Some cl /\ M5.c_univ cl = 0) \/
     (exists key' ks', In (key', ks') (combine (M5.fill_keys (M5.s_cells s0)) rs) /\ In k' ks')) ->
  (forall c cl, M5.dget c (M5.s_cells s0) = Some cl -> M5.c_univ cl = 0 -> c <> key -> val c = false) ->
  ~ In key todo ->
  exists k, In k ks /\
    S5.RepresentsW T surf P tr_empty inv sense s0 du s3 key k ch /\
    (In k todo <-> M5.c_imp kcl <> 0) /\
    exists Tb, PrinterC.read_table_c (PrinterC.print_table_c skipped d') = Some Tb /\
      (M5.c_imp kcl <> 0 ->
         (forall j, ProofsCells.in_volume sigma Tb j <-> j = k) /\
         exists v, lookup k Tb = Some v /\ v_fict v = false /\ v_orig v = S5.prov ch) /\
      (M5.c_imp kcl = 0 -> forall j, ~ ProofsCells.in_volume sigma Tb j).
Proof.
  intros T surf P tr_empty teqb tr_surf inv sense Hsense Hkey fuel5 cf ifd ifg num den s0 s1 s2 rs cells3
         Hf Hc Hnd Hrf Ho Ht Hfill Hinl s3 du key ks kcl p ch sigma matching val u0 u1 fuel todo cnt0 s' rn
         skipped d' Hin Hkcl Hloc Hpart Hvalued Hsurf Hwf Hval H0 H1 Hcons Hndt Hle Htodo Hrun Hpr Hresp Hskip
         Hkinds Hlevel0 Hkeynot.
  apply (partition_fill_written_linked T surf P tr_empty teqb tr_surf inv sense Hsense Hkey
           fuel5 cf ifd ifg num den s0 s1 s2 rs cells3 Hf Hc Hnd Hrf Ho Ht Hfill Hinl key ks kcl p ch
           sigma matching val u0 u1 fuel todo cnt0 s' rn skipped d' Hin Hkcl Hloc Hpart Hvalued Hsurf Hwf Hval
           H0 H1 Hcons Hndt Hle Htodo Hrun Hpr Hresp Hskip Hkinds Hlevel0 Hkeynot).
  intros k ncl Hk Hd.
  exact (generated_node T surf P tr_empty teqb tr_surf inv sense Hsense Hkey fuel5 cf ifd ifg num den
           s0 s1 s2 rs cells3 Hf Hc Hnd Hrf Ho Ht Hfill Hinl key ks k Hin Hk ncl Hd).
Qed.
