(* C01 — what the trees and the TRIPOLI-4 volume table MEAN (DESIGN §3, App. B).
   A point off every surface is, for the Boolean layer, its sense assignment
   sigma : surface id -> bool (true = positive side / PLUS). *)
From Coq Require Import List ZArith Bool.
From T4V Require Import C01.Model.
Import ListNotations.
Open Scope Z_scope.

Section Den.
  Variable sigma : Z -> bool.

  (* a signed TRIPOLI-4 surface id *)
  Definition lit (n : Z) : bool := if 0 <? n then sigma n else negb (sigma (- n)).

  (* cell references are read through [cden], the region of each MCNP cell *)
  Variable cden : Z -> bool.

  (* trees over signed T4 ids (after pot_expand_surfs) *)
  Fixpoint tden (t : tree Z) : bool :=
    match t with
    | Leaf n => lit n
    | Ref c => cden c
    | Node _ OInter args => forallb tden args
    | Node _ OUnion args => existsb tden args
    end.

  (* trees over MCNP surfaces: a surface that became a collection of T4 surfaces
     (macrobody, one-sheet cone) has positive sense iff the point is on the
     positive side of at least one member; facet s.k is the k-th member *)
  Definition msense (matching : dict (list Z)) (a : msurf) : bool :=
    let '(s, sub) := a in
    match lookup (Z.abs s) matching with
    | None => false
    | Some ids =>
        let pos := match sub with
                   | None => existsb lit ids
                   | Some k => match nth_error ids (Z.to_nat (k - 1)) with
                               | Some x => lit x
                               | None => false
                               end
                   end in
        if 0 <? s then pos else negb pos
    end.

  Fixpoint mden (matching : dict (list Z)) (t : tree msurf) : bool :=
    match t with
    | Leaf a => msense matching a
    | Ref c => cden c
    | Node _ OInter args => forallb (mden matching) args
    | Node _ OUnion args => existsb (mden matching) args
    end.

  (* EQUA: conjunction of the PLUS and MINUS senses *)
  Definition equa (v : vol) : bool :=
    forallb sigma (v_plus v) && forallb (fun s => negb (sigma s)) (v_minus v).

  (* VOLU id EQUA ... [UNION|INTE n v...]: pts(v) = EQ(v) ∪ ⋃pts(vi) resp.
     EQ(v) ∩ ⋂pts(vi).  An operand that is not a volume id (None) has no
     meaning: such a volume has no denotation. *)
  Inductive Vden (d : dict vol) : Z -> bool -> Prop :=
  | Vden_plain id v :
      lookup id d = Some v -> v_ops v = None -> Vden d id (equa v)
  | Vden_inte id v ids bs :
      lookup id d = Some v -> v_ops v = Some (OInter, ids) -> VdenL d ids bs ->
      Vden d id (equa v && forallb (fun b => b) bs)
  | Vden_union id v ids bs :
      lookup id d = Some v -> v_ops v = Some (OUnion, ids) -> VdenL d ids bs ->
      Vden d id (equa v || existsb (fun b => b) bs)
  with VdenL (d : dict vol) : list (option Z) -> list bool -> Prop :=
  | VdenL_nil : VdenL d [] []
  | VdenL_cons id b ids bs :
      Vden d id b -> VdenL d ids bs -> VdenL d (Some id :: ids) (b :: bs).
End Den.

Scheme Vden_mut := Induction for Vden Sort Prop
  with VdenL_mut := Induction for VdenL Sort Prop.

(* the one fact about the union helper planes x = 1 (u0) and x = -1 (u1) the code
   relies on: a point with x > 1 has x > -1 *)
Definition consistent (sigma : Z -> bool) (u0 u1 : Z) : Prop :=
  sigma u0 = true -> sigma u1 = true.

(* a written table has no operand that is not a volume id *)
Definition ops_ok (o : option (op * list (option Z))) : bool :=
  match o with
  | None => true
  | Some (_, ids) => forallb (fun x => match x with Some _ => true | None => false end) ids
  end.
Definition no_none (d : dict vol) : bool := forallb (fun kv => ops_ok (v_ops (snd kv))) d.
