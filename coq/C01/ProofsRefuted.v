(* C01 — the None operand: a reference to a cell that pot_optimise finds empty. *)
From Coq Require Import List ZArith Bool.
From T4V Require Import C01.Model C01.Spec.
Import ListNotations.
Open Scope Z_scope.

(* cell 1 = -1 AND (cell 2), cell 2 = 2 AND -2 (patently empty), both as
   pot_fill leaves them when cell 2 is kept by reference *)
Definition w_cells : dict cell :=
  [ (1, (Node 0 OInter [Leaf (-1, None); Ref 2], []));
    (2, (Node 0 OInter [Leaf (2, None); Leaf (-2, None)], [])) ].
Definition w_matching : dict (list Z) := [ (1, [1]); (2, [2]) ].

Definition w_state : res st :=
  convert_cells 3 w_cells w_matching 4 5 [1] (mkSt 2 [] [] []).

Lemma emptyref_refuted :
  exists s, w_state = Ok s /\ no_none (vols s) = false /\
            (exists v, lookup 1 (vols s) = Some v /\ v_fict v = false /\
                       v_ops v = Some (OInter, [None])) /\
            forall sigma b, ~ Vden sigma (vols s) 1 b.
Proof.
  eexists. split; [vm_compute; reflexivity|]. split; [vm_compute; reflexivity|]. split.
  - eexists. split; [vm_compute; reflexivity|]. split; reflexivity.
  - intros sigma b H. inversion H as [id v Hl Ho|id v ids bs Hl Ho HL|id v ids bs Hl Ho HL]; subst;
      vm_compute in Hl; inversion Hl; subst; simpl in Ho; try discriminate.
    inversion Ho; subst. inversion HL.
Qed.
