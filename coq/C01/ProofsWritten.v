(* C01 — from the table of construct_volume_t4 to the table that is WRITTEN:
   renumber_surfaces (with the helper planes), remove_empty_volumes,
   remove_unused_volumes and the writer's skipped-cells filter. *)
From Coq Require Import List ZArith Bool Lia.
From T4V Require Import C01.Model C01.Spec C01.ProofsTree C01.ProofsT4 C01.ProofsCells
     C01.ProofsPrune C01.ProofsEmpty.
Import ListNotations.
Open Scope Z_scope.

(* ---- the conversion only ever uses dict assignment: any property of the table
   that assignment keeps is kept (used for: keys are distinct) ---- *)
Section Pres.
  Variable Q : dict vol -> Prop.
  Hypothesis Qdset : forall k V d, Q d -> Q (dset k V d).

  Definition pres {X} (f : X -> st -> res (option Z * st)) (x : X) : Prop :=
    forall s r s', f x s = Ok (r, s') -> Q (vols s) -> Q (vols s').

  Lemma conv_all_pres {X} (f : X -> st -> res (option Z * st)) (l : list X) :
    Forall (pres f) l -> forall s rs s', conv_all f l s = Ok (rs, s') -> Q (vols s) -> Q (vols s').
  Proof.
    induction 1 as [|x r Hx Hr IH]; intros s rs s' H Hq; simpl in H.
    - inversion H; subst. exact Hq.
    - destruct (f x s) as [[y s1]|] eqn:Ef; [|discriminate].
      destruct (conv_all f r s1) as [[ys s2]|] eqn:Er; [|discriminate].
      inversion H; subst. eauto.
  Qed.

  Section T4.
    Variable cref : Z -> st -> res (option Z * st).
    Variable orig : list (Z * Z).
    Variables u0 u1 : Z.
    Hypothesis cref_pres : forall c, pres cref c.

    Lemma to_t4_pres t : pres (to_t4 cref orig u0 u1) t.
    Proof.
      induction t as [n|c|pid o args IH] using tree_ind2; intros s r s' H Hq.
      - simpl in H. unfold convert_surface in H.
        destruct (lookup n (scache s)); [inversion H; subst; exact Hq|].
        destruct (conv_equa [n]) as [p m]. inversion H; subst. simpl. now apply Qdset.
      - simpl in H. exact (cref_pres c s r s' H Hq).
      - cbn [to_t4] in H.
        assert (forall sel s rs s', conv_sel (to_t4 cref orig u0 u1) sel 0 args s = Ok (rs, s') ->
                  Q (vols s) -> Q (vols s')) as Hsel.
        { intros sel s0 rs s0' Hc. rewrite conv_sel_select in Hc.
          eapply conv_all_pres; [|exact Hc]. now apply Forall_select. }
        assert (forall s rs s', conv_sel cref (fun _ _ => true) 0 (refs_of args) s = Ok (rs, s') ->
                  Q (vols s) -> Q (vols s')) as Hrefs.
        { intros s0 rs s0' Hc. rewrite conv_sel_select, select_all in Hc.
          eapply conv_all_pres; [|exact Hc]. generalize (refs_of args) as l.
          induction l; constructor; auto. }
        destruct o.
        + destruct (conv_equa (leaves_of args)) as [p m].
          destruct (conv_sel _ _ 0 args s) as [[ids1 s1]|] eqn:E1; [|discriminate].
          destruct (conv_sel cref _ 0 (refs_of args) s1) as [[ids2 s2]|] eqn:E2; [|discriminate].
          inversion H; subst. simpl. apply Qdset. eauto.
        + destruct (largest args) as [k|].
          * destruct (conv_sel _ (fun i _ => Nat.eqb i k) 0 args s) as [[ids0 s0]|] eqn:E0; [|discriminate].
            destruct ids0 as [|[main|] [|? ?]]; try discriminate.
            destruct (lookup main (vols s0)) as [mv|]; [|discriminate].
            destruct (conv_sel _ (fun i _ => negb (Nat.eqb i k)) 0 args s0) as [[ids1 s1]|] eqn:E1; [|discriminate].
            destruct (conv_sel cref _ 0 (refs_of args) s1) as [[ids2 s2]|] eqn:E2; [|discriminate].
            inversion H; subst. simpl. apply Qdset. eauto.
          * destruct (conv_sel _ _ 0 args s) as [[ids1 s1]|] eqn:E1; [|discriminate].
            destruct (conv_sel cref _ 0 (refs_of args) s1) as [[ids2 s2]|] eqn:E2; [|discriminate].
            destruct (conv_equa [u0; - u1]) as [p m]. inversion H; subst. simpl. apply Qdset. eauto.
    Qed.
  End T4.

  Lemma pot_convert_pres cref matching u0 u1 cl : (forall c, pres cref c) ->
    forall s r s', pot_convert cref matching u0 u1 cl s = Ok (r, s') -> Q (vols s) -> Q (vols s').
  Proof.
    intros Hc s r s' H Hq. unfold pot_convert in H. destruct cl as [g orig].
    destruct (flag g (cnt s)) as [t1 n1]. destruct (expand matching t1 n1) as [[t2 n2]|]; [|discriminate].
    destruct (optimise t2) as [t3|].
    - exact (to_t4_pres cref orig u0 u1 Hc t3 _ _ _ H Hq).
    - inversion H; subst. exact Hq.
  Qed.

  Lemma convert_cellref_pres fuel cells matching u0 u1 : forall c,
    pres (convert_cellref fuel cells matching u0 u1) c.
  Proof.
    induction fuel as [|f IH]; intros c s r s' H Hq; simpl in H.
    - destruct (lookup c (ccache s)); [inversion H; subst; exact Hq | discriminate].
    - destruct (lookup c (ccache s)); [inversion H; subst; exact Hq|].
      destruct (lookup c cells) as [cl|]; [|discriminate].
      destruct (pot_convert _ matching u0 u1 cl s) as [[[id|] s1]|] eqn:Ep; [| |discriminate].
      + inversion H; subst. simpl. exact (pot_convert_pres _ _ _ _ _ IH _ _ _ Ep Hq).
      + inversion H; subst. simpl. apply Qdset. exact (pot_convert_pres _ _ _ _ _ IH _ _ _ Ep Hq).
  Qed.

  Lemma convert_cells_pres fuel cells matching u0 u1 : forall todo s s',
    convert_cells fuel cells matching u0 u1 todo s = Ok s' -> Q (vols s) -> Q (vols s').
  Proof.
    induction todo as [|key r IH]; intros s s' H Hq; simpl in H; [inversion H; subst; exact Hq|].
    destruct (lookup key cells) as [cl|]; [|discriminate].
    destruct (pot_convert _ matching u0 u1 cl s) as [[[j|] s1]|] eqn:Ep; [| |discriminate].
    - destruct (lookup j (vols s1)) as [vj|]; [|discriminate].
      apply (IH _ _ H). simpl. apply Qdset.
      exact (pot_convert_pres _ _ _ _ _ (convert_cellref_pres fuel cells matching u0 u1) _ _ _ Ep Hq).
    - apply (IH _ _ H).
      exact (pot_convert_pres _ _ _ _ _ (convert_cellref_pres fuel cells matching u0 u1) _ _ _ Ep Hq).
  Qed.
End Pres.

Lemma keys_dset_In k (V : vol) d x : In x (keys (dset k V d)) -> x = k \/ In x (keys d).
Proof.
  unfold keys. induction d as [|[k2 v2] r IH]; simpl.
  - intros [H|[]]; auto.
  - destruct (k =? k2) eqn:E; simpl.
    + apply Z.eqb_eq in E; subst. intros [H|H]; auto.
    + intros [H|H]; [auto|]. destruct (IH H); auto.
Qed.

Lemma NoDup_keys_dset k (V : vol) d : NoDup (keys d) -> NoDup (keys (dset k V d)).
Proof.
  induction d as [|[k2 v2] r IH]; simpl; intros Hnd.
  - constructor; [intros [] | constructor].
  - unfold keys in Hnd. simpl in Hnd. inversion Hnd as [|? ? Hnot Hnd']; subst.
    destruct (k =? k2) eqn:E.
    + apply Z.eqb_eq in E; subst. unfold keys. simpl. constructor; auto.
    + unfold keys. simpl. constructor; [|now apply IH].
      intros Hin. apply (keys_dset_In k V r k2) in Hin as [Hq|Hq]; [|contradiction].
      apply Z.eqb_neq in E. congruence.
Qed.

Lemma convert_cells_keys fuel cells matching u0 u1 todo cnt0 s' :
  convert_cells fuel cells matching u0 u1 todo (mkSt cnt0 [] [] []) = Ok s' ->
  NoDup (keys (vols s')).
Proof.
  intros H. apply (convert_cells_pres (fun d => NoDup (keys d)) NoDup_keys_dset _ _ _ _ _ _ _ _ H).
  constructor.
Qed.

(* ---- renumber_surfaces keeps keys and FICTIVE flags ---- *)
Lemma keys_renumber rn d d' : renumber rn d = Ok d' -> keys d' = keys d.
Proof.
  revert d'. induction d as [|[k v] r IH]; intros d' H; simpl in H; [inversion H; reflexivity|].
  destruct (map_opt (fun x => lookup x rn) (v_plus v)) as [p|];
    destruct (map_opt (fun x => lookup x rn) (v_minus v)) as [m|];
    destruct (renumber rn r) as [r'|e] eqn:Er; try discriminate.
  inversion H; subst. unfold keys in *. simpl. now rewrite (IH r' eq_refl).
Qed.

Lemma renumber_lookup_inv rn d d' : renumber rn d = Ok d' ->
  forall k v', lookup k d' = Some v' -> exists v, lookup k d = Some v /\ v_fict v' = v_fict v.
Proof.
  intros H k v' Hl. destruct (lookup k d) as [v|] eqn:E.
  - destruct (renumber_lookup rn d d' H k v E) as (p & m & _ & _ & Hl').
    rewrite Hl in Hl'. inversion Hl'; subst. exists v. auto.
  - exfalso. apply lookup_None_keys in E. rewrite <- (keys_renumber rn d d' H) in E.
    apply lookup_None_keys in E. congruence.
Qed.

Lemma NoDup_keys_filter {V} (p : Z * V -> bool) (d : dict V) : NoDup (keys d) -> NoDup (keys (filter p d)).
Proof.
  unfold keys. induction d as [|[k v] r IH]; simpl; intros Hnd; [constructor|].
  inversion Hnd as [|? ? Hnot Hnd']; subst. destruct (p (k, v)); simpl; [|auto].
  constructor; [|auto]. intros Hin. apply Hnot. apply in_map_iff in Hin as (kv & Hf & Hin).
  apply filter_In in Hin as [Hin _]. apply in_map_iff. eauto.
Qed.

(* ---- the two pruning passes on a table with distinct keys ---- *)
Section Core.
  Variable sigma : Z -> bool.
  Variables w0 w1 : Z.
  Hypothesis Hcons : consistent sigma w0 w1.
  Variable dr : dict vol.
  Hypothesis Hnd : NoDup (keys dr).

  Let de := remove_empty w0 w1 dr.
  Let du := remove_unused de.

  Lemma core_facts :
    NoDup (keys du) /\
    (forall id v' b, lookup id du = Some v' -> Vden sigma dr id b -> Vden sigma du id b) /\
    (forall id v b, lookup id dr = Some v -> v_fict v = false -> Vden sigma dr id b ->
       (exists v', lookup id du = Some v' /\ v_fict v' = false /\ Vden sigma du id b) \/
       (lookup id du = None /\ b = false)) /\
    (forall id v', lookup id du = Some v' -> exists v, lookup id dr = Some v /\ v_fict v' = v_fict v) /\
    (forall id v b, lookup id dr = Some v -> lookup id du = None -> Vden sigma dr id b ->
       b = false \/ v_fict v = true).
  Proof.
    destruct (remove_empty_sound w0 w1 dr Hnd) as (E1 & E2 & E3). fold de in E1, E2, E3.
    destruct (E3 sigma Hcons) as [E4 E5].
    assert (forall id v', lookup id du = Some v' -> lookup id de = Some v' /\ keep de (id, v') = true) as Hsub.
    { intros id v' Hl. unfold du, remove_unused in Hl. fold (keep de) in Hl.
      apply lookup_filter_some in Hl as [Hin Hk]. split; [now apply In_lookup | exact Hk]. }
    split; [unfold du, remove_unused; now apply NoDup_keys_filter|]. split; [|split; [|split]].
    - intros id v' b Hl Hv. destruct (Hsub id v' Hl) as [Hle Hk].
      apply remove_unused_den; [eapply E4; eauto|].
      intros v Hv'. rewrite Hle in Hv'. inversion Hv'; subst. exact Hk.
    - intros id v b Hl Hf Hv. destruct (lookup id de) as [ve|] eqn:Ee.
      + left. destruct (E2 id ve Ee) as (v0 & Hv0 & Hfe). rewrite Hl in Hv0. inversion Hv0; subst v0.
        assert (v_fict ve = false) as Hfe' by congruence.
        destruct (remove_unused_nonfictive sigma de id ve b Ee Hfe' (E4 id ve b Ee Hv)) as [H1 H2].
        exists ve. auto.
      + right. split; [|eapply E5; eauto].
        destruct (lookup id du) as [vu|] eqn:Eu; [|reflexivity].
        destruct (Hsub id vu Eu) as [Hq _]. congruence.
    - intros id v' Hl. destruct (Hsub id v' Hl) as [Hle _]. exact (E2 id v' Hle).
    - intros id v b Hl Hn Hv. destruct (lookup id de) as [ve|] eqn:Ee.
      + right. destruct (E2 id ve Ee) as (v0 & Hv0 & Hfe). rewrite Hl in Hv0. inversion Hv0; subst v0.
        destruct (remove_unused_deleted de id ve Ee Hn) as [Hf _]. congruence.
      + left. eapply E5; eauto.
  Qed.
End Core.

(* ---- prune = what convertMCNPGeometry does after construct_volume_t4 ---- *)
Theorem prune_sound sigma u0 u1 rn d d' :
  NoDup (keys d) -> prune u0 u1 rn d = Ok d' -> consistent sigma u0 u1 ->
  (forall r, rn = Some r -> respects sigma r) ->
  NoDup (keys d') /\
  (forall id v' b, lookup id d' = Some v' -> Vden sigma d id b -> Vden sigma d' id b) /\
  (forall id v b, lookup id d = Some v -> v_fict v = false -> Vden sigma d id b ->
     (exists v', lookup id d' = Some v' /\ v_fict v' = false /\ Vden sigma d' id b) \/
     (lookup id d' = None /\ b = false)) /\
  (forall id v', lookup id d' = Some v' -> exists v, lookup id d = Some v /\ v_fict v' = v_fict v) /\
  (forall id v b, lookup id d = Some v -> lookup id d' = None -> Vden sigma d id b ->
     b = false \/ v_fict v = true).
Proof.
  intros Hnd H Hcons Hresp. unfold prune in H. destruct rn as [r|].
  - destruct (renumber r d) as [dr|] eqn:Er; [|discriminate].
    destruct (lookup u0 r) as [w0|] eqn:E0; [|discriminate].
    destruct (lookup u1 r) as [w1|] eqn:E1; [|discriminate]. inversion H; subst d'; clear H.
    pose proof (Hresp r eq_refl) as Hr.
    assert (consistent sigma w0 w1) as Hc'.
    { unfold consistent. rewrite (Hr u0 w0 E0), (Hr u1 w1 E1). exact Hcons. }
    assert (NoDup (keys dr)) as Hndr by (rewrite (keys_renumber r d dr Er); exact Hnd).
    destruct (core_facts sigma w0 w1 Hc' dr Hndr) as (C1 & C2 & C3 & C4 & C5).
    pose proof (renumber_den sigma r d dr Er Hr) as Hden.
    split; [exact C1|]. split; [|split; [|split]].
    + intros id v' b Hl Hv. eapply C2; eauto.
    + intros id v b Hl Hf Hv.
      destruct (renumber_lookup r d dr Er id v Hl) as (p & m & _ & _ & Hlr).
      eapply (C3 id _ b Hlr); [exact Hf | auto].
    + intros id v' Hl. destruct (C4 id v' Hl) as (vr & Hvr & Hfr).
      destruct (renumber_lookup_inv r d dr Er id vr Hvr) as (v & Hv & Hfv).
      exists v. split; [exact Hv | congruence].
    + intros id v b Hl Hn Hv.
      destruct (renumber_lookup r d dr Er id v Hl) as (p & m & _ & _ & Hlr).
      destruct (C5 id _ b Hlr Hn (Hden id b Hv)) as [Hq|Hq]; [now left | right; exact Hq].
  - inversion H; subst d'; clear H.
    exact (core_facts sigma u0 u1 Hcons d Hnd).
Qed.

(* ---- the written table and the property ---- *)
Lemma filter_all {X} (p : X -> bool) l : (forall x, In x l -> p x = true) -> filter p l = l.
Proof.
  induction l as [|x r IH]; simpl; intros H; [reflexivity|].
  rewrite (H x (or_introl eq_refl)), IH; auto.
Qed.

Section Written.
  Variable sigma : Z -> bool.
  Variable cden : Z -> bool.
  Variable cells : dict cell.
  Variable matching : dict (list Z).
  Variables u0 u1 : Z.
  Hypothesis Hu0 : 0 < u0.
  Hypothesis Hu1 : 0 < u1.
  Hypothesis Hcons : consistent sigma u0 u1.
  Hypothesis cells_ok : forall c g orig, lookup c cells = Some (g, orig) ->
    leaves_ok (msurf_ok matching) g /\ cden c = mden sigma cden matching g.

  Variables (fuel : nat) (todo : list Z) (cnt0 : Z) (s' : st).
  Hypothesis Hnd : NoDup todo.
  Hypothesis Hle : forall k, In k todo -> k <= cnt0.
  Hypothesis Hrun : convert_cells fuel cells matching u0 u1 todo (mkSt cnt0 [] [] []) = Ok s'.

  Variables (rn : option (dict Z)) (skipped : list Z) (d' : dict vol).
  Hypothesis Hprune : prune u0 u1 rn (vols s') = Ok d'.
  Hypothesis Hresp : forall r, rn = Some r -> respects sigma r.
  (* skipped cells are MCNP cells of importance 0: numbers below the counter, not
     in the conversion list *)
  Hypothesis Hskip : forall k, In k skipped -> k <= cnt0 /\ ~ In k todo.

  Lemma table_keys : forall k v, lookup k (vols s') = Some v -> In k todo \/ cnt0 < k.
  Proof.
    assert (inv (mkSt cnt0 [] [] [])) as Hinv by (intros k v Hl; discriminate).
    assert (forall k, In k todo -> lookup k (vols (mkSt cnt0 [] [] [])) = None /\ k <= cnt (mkSt cnt0 [] [] []))
      as Hfr by (intros k Hk; split; [reflexivity | simpl; auto]).
    destruct (convert_cells_sound sigma cden cells matching u0 u1 Hu0 Hu1 Hcons cells_ok
                fuel todo _ _ Hrun Hinv Hnd Hfr) as (_ & _ & _ & A4 & _).
    intros k v Hl. destruct (A4 k) as [Hq|[Hq|Hq]]; [congruence | simpl in Hq; congruence | now left | now right].
  Qed.

  Lemma written_all : written skipped d' = d'.
  Proof.
    pose proof (convert_cells_keys _ _ _ _ _ _ _ _ Hrun) as Hk.
    destruct (prune_sound sigma u0 u1 rn (vols s') d' Hk Hprune Hcons Hresp) as (P1 & _ & _ & P4 & _).
    unfold written. apply filter_all. intros [k v] Hin. simpl.
    pose proof (In_lookup k v d' P1 Hin) as Hl. destruct (P4 k v Hl) as (v0 & Hv0 & _).
    destruct (mem k skipped) eqn:Em; [|reflexivity]. exfalso.
    apply mem_In in Em. destruct (Hskip k Em) as [H1 H2].
    destruct (table_keys k v0 Hv0); [contradiction | lia].
  Qed.

  (* sigma lies in the written non-FICTIVE volume k exactly when k is a converted
     cell whose region holds sigma *)
  Lemma written_iff : forall k,
    in_volume sigma (written skipped d') k <-> (In k todo /\ cden k = true).
  Proof.
    rewrite written_all.
    pose proof (convert_cells_keys _ _ _ _ _ _ _ _ Hrun) as Hk.
    destruct (prune_sound sigma u0 u1 rn (vols s') d' Hk Hprune Hcons Hresp) as (P1 & P2 & P3 & P4 & _).
    destruct (cells_table sigma cden cells matching u0 u1 Hu0 Hu1 Hcons cells_ok fuel todo cnt0 s'
                Hnd Hle Hrun) as (_ & A & B).
    intros k. split.
    - intros (v & Hl & Hf & Hv). destruct (P4 k v Hl) as (v0 & Hv0 & Hf0).
      assert (In k todo) as Hin by (apply (B k v0 Hv0); congruence). split; [exact Hin|].
      destruct (A k Hin) as [(v1 & Hl1 & _ & Hv1)|[Hn _]]; [|congruence].
      eapply Vden_fun; [exact (P2 k v (cden k) Hl Hv1) | exact Hv].
    - intros [Hin Hc]. destruct (A k Hin) as [(v & Hl & Hf & Hv)|[_ Hn]]; [|congruence].
      rewrite Hc in Hv. destruct (P3 k v true Hl Hf Hv) as [(v' & Hl' & Hf' & Hv')|[_ Hq]]; [|discriminate].
      exists v'. auto.
  Qed.

  (* every written non-FICTIVE volume is a listed cell and has a denotation: that
     of its cell *)
  Lemma written_den : forall k v, lookup k (written skipped d') = Some v -> v_fict v = false ->
    In k todo /\ Vden sigma (written skipped d') k (cden k).
  Proof.
    rewrite written_all.
    pose proof (convert_cells_keys _ _ _ _ _ _ _ _ Hrun) as Hk.
    destruct (prune_sound sigma u0 u1 rn (vols s') d' Hk Hprune Hcons Hresp) as (P1 & P2 & P3 & P4 & _).
    destruct (cells_table sigma cden cells matching u0 u1 Hu0 Hu1 Hcons cells_ok fuel todo cnt0 s'
                Hnd Hle Hrun) as (_ & A & B).
    intros k v Hl Hf. destruct (P4 k v Hl) as (v0 & Hv0 & Hf0).
    assert (In k todo) as Hin by (apply (B k v0 Hv0); congruence). split; [exact Hin|].
    destruct (A k Hin) as [(v1 & Hl1 & _ & Hv1)|[Hn _]]; [|congruence].
    exact (P2 k v (cden k) Hl Hv1).
  Qed.

  Lemma written_partition c :
    cden c = true -> (forall c', In c' todo -> cden c' = true -> c' = c) ->
    (In c todo -> forall k, in_volume sigma (written skipped d') k <-> k = c) /\
    (~ In c todo -> forall k, ~ in_volume sigma (written skipped d') k).
  Proof.
    intros Hc Huniq. split.
    - intros Hin k. rewrite written_iff. split; [intros [Hk Hd]; auto | intros ->; auto].
    - intros Hnin k Hk. apply written_iff in Hk as [Hk Hd]. apply Hnin. now rewrite <- (Huniq k Hk Hd).
  Qed.
End Written.

(* ---- the example deck of ProofsCells, carried to the written table ---- *)
Definition ex_rn : dict Z := [ (1, 1); (2, 2); (3, 3); (4, 4); (6, 6); (7, 7) ].

Lemma ex_rn_respects sigma : respects sigma ex_rn.
Proof.
  intros x y H. simpl in H.
  destruct (x =? 1) eqn:E1; [apply Z.eqb_eq in E1; inversion H; subst; reflexivity|].
  destruct (x =? 2) eqn:E2; [apply Z.eqb_eq in E2; inversion H; subst; reflexivity|].
  destruct (x =? 3) eqn:E3; [apply Z.eqb_eq in E3; inversion H; subst; reflexivity|].
  destruct (x =? 4) eqn:E4; [apply Z.eqb_eq in E4; inversion H; subst; reflexivity|].
  destruct (x =? 6) eqn:E6; [apply Z.eqb_eq in E6; inversion H; subst; reflexivity|].
  destruct (x =? 7) eqn:E7; [apply Z.eqb_eq in E7; inversion H; subst; reflexivity|].
  discriminate.
Qed.

Lemma ex_written :
  exists s' d', convert_cells 6 ex_cells ex_matching 6 7 ex_todo (mkSt 50 [] [] []) = Ok s' /\
                prune 6 7 (Some ex_rn) (vols s') = Ok d' /\
                map fst (filter (fun kv => negb (v_fict (snd kv))) (written [40] d')) = [10; 20; 30] /\
                (forall k, In k [40] -> k <= 50 /\ ~ In k ex_todo).
Proof.
  eexists. eexists. split; [vm_compute; reflexivity|]. split; [vm_compute; reflexivity|].
  split; [vm_compute; reflexivity|].
  intros k [<-|[]]. split; [lia|]. unfold ex_todo. simpl. intuition lia.
Qed.
