(* C01 <- C05: decks with universes.  The cells the FILL phase generates
   (TRCL -> FILL -> inlining: trees with CellRefs to filler cells) are handed to
   C01's conversion; C05_pipeline_located says what they denote (the value of the
   descent) and C01's hypothesis cells_ok is discharged from it.
   Bridge: C05's tree -> C01's tree (trF); C05 reads surfaces through an abstract
   sense(o, p) on MCNP surface objects, C01 through the TRIPOLI-4 senses sigma and
   `matching`: [surf_agree] is the statement (layers S/C02-C04) that the T4
   surfaces a MCNP surface was converted into give it the same sense at p. *)
From Coq Require Import List ZArith Bool Lia.
From T4V Require C05.Model C05.Spec C05.Proofs.
From T4V Require Import C01.Model C01.Spec C01.Printer C01.ProofsTree C01.ProofsT4 C01.ProofsCells
     C01.ProofsPrune C01.ProofsEmpty C01.ProofsWritten C01.ProofsPrinter.
Import ListNotations.
Open Scope Z_scope.

Module M5 := C05.Model.
Module S5 := C05.Spec.
Module P5 := C05.Proofs.

(* node by node: signed surface id -> Surface leaf without facet, CellRef -> Ref,
   n-ary '*' / ':' -> Node; a ('^', c) node has no image (C05's Den gives it no value) *)
Fixpoint trF (t : M5.tree) : tree msurf :=
  match t with
  | M5.TSurf x => Leaf (x, None)
  | M5.TRef c => Ref c
  | M5.TCompl _ => Node 0 OUnion []
  | M5.TNode inter args => Node 0 (if inter then OInter else OUnion) (map trF args)
  end.

Definition cells_of5 {T} (cells : list (Z * M5.cell T)) : dict cell :=
  map (fun kc => (fst kc, (trF (M5.c_geom (snd kc)), M5.c_orig (snd kc)))) cells.

Lemma lookup_cells_of5 {T} (cells : list (Z * M5.cell T)) k g orig :
  lookup k (cells_of5 cells) = Some (g, orig) ->
  exists cl, M5.dget k cells = Some cl /\ g = trF (M5.c_geom cl) /\ orig = M5.c_orig cl.
Proof.
  induction cells as [|[k' cl'] r IH]; simpl; [discriminate|].
  destruct (k =? k'); [intros H; inversion H; eauto | exact IH].
Qed.

Lemma Forall2_pick_l {A B} (R : A -> B -> Prop) l1 l2 a :
  Forall2 R l1 l2 -> In a l1 -> exists b, In (a, b) (combine l1 l2) /\ R a b.
Proof.
  induction 1 as [|x y l1 l2 Hxy HF IH]; simpl; [contradiction|].
  intros [->|Hin]; [exists y; auto|]. destruct (IH Hin) as (b & Hb & Hr). exists b; auto.
Qed.

Lemma Forall2_pick_r {A B} (R : A -> B -> Prop) l1 l2 b :
  Forall2 R l1 l2 -> In b l2 -> exists a, In (a, b) (combine l1 l2) /\ R a b.
Proof.
  induction 1 as [|x y l1 l2 Hxy HF IH]; simpl; [contradiction|].
  intros [->|Hin]; [exists x; auto|]. destruct (IH Hin) as (a & Ha & Hr). exists a; auto.
Qed.

Lemma combine_NoDup_r {A B} (l1 : list A) (l2 : list B) a a' b :
  NoDup l2 -> In (a, b) (combine l1 l2) -> In (a', b) (combine l1 l2) -> a = a'.
Proof.
  revert l2. induction l1 as [|x l1 IH]; intros [|y l2] Hnd H1 H2; simpl in *; try contradiction.
  inversion Hnd as [|? ? Hnot Hnd']; subst.
  destruct H1 as [H1|H1]; destruct H2 as [H2|H2].
  - congruence.
  - inversion H1; subst. exfalso. apply Hnot. eapply in_combine_r; eauto.
  - inversion H2; subst. exfalso. apply Hnot. eapply in_combine_r; eauto.
  - eapply IH; eauto.
Qed.

Lemma combine_In_l {A B} (l1 : list A) (l2 : list B) a b : In (a, b) (combine l1 l2) -> In a l1.
Proof. apply in_combine_l. Qed.

Section Link.
  Variables (T surf P : Type).
  Variable tr_empty : T -> bool.
  Variable teqb : T -> T -> bool.
  Variable tr_surf : T -> surf -> surf.
  Variable inv : T -> P -> P.
  Variable sense : surf -> P -> bool.
  Hypothesis sense_tr : forall t o p, sense (tr_surf t o) p = sense o (inv t p).
  Hypothesis teqb_sound : forall a b, teqb a b = true ->
    tr_empty a = tr_empty b /\ forall p, inv a p = inv b p.

  Notation state := (M5.state T surf).
  Notation Den := (S5.Den T surf P sense).
  Notation DenL := (S5.DenL T surf P sense).

  (* ---- the semantic bridge at one point ---- *)
  Variable s3 : state.                 (* the table that is converted *)
  Variable p : P.
  Variable sigma : Z -> bool.          (* the TRIPOLI-4 senses of p *)
  Variable matching : dict (list Z).
  Variable val : Z -> bool.            (* the value of every cell at p *)

  (* layer S: the T4 surfaces of MCNP surface k give it the sense C05 uses *)
  Hypothesis surf_agree : forall k o, M5.dget k (M5.s_surfs s3) = Some o ->
    k <> 0 /\ exists ids, lookup k matching = Some ids /\ existsb (lit sigma) ids = sense o p.
  Hypothesis wf_matching : forall k ids, lookup k matching = Some ids -> Forall (fun x => x <> 0) ids.
  Hypothesis val_ok : forall c cl, M5.dget c (M5.s_cells s3) = Some cl -> Den s3 p (M5.c_geom cl) (val c).

  Lemma Den_mden :
    (forall e b, Den s3 p e b ->
       mden sigma val matching (trF e) = b /\ leaves_ok (msurf_ok matching) (trF e)) /\
    (forall es bs, DenL s3 p es bs ->
       map (mden sigma val matching) (map trF es) = bs /\
       Forall (leaves_ok (msurf_ok matching)) (map trF es)).
  Proof.
    apply (S5.Den_DenL_ind T surf P sense s3 p
             (fun e b _ => mden sigma val matching (trF e) = b /\ leaves_ok (msurf_ok matching) (trF e))
             (fun es bs _ => map (mden sigma val matching) (map trF es) = bs /\
                             Forall (leaves_ok (msurf_ok matching)) (map trF es))).
    - intros x o Hd. destruct (surf_agree _ o Hd) as (Hk & ids & Hl & He).
      assert (x <> 0) as Hx by (intros ->; apply Hk; reflexivity).
      split.
      + cbn [trF mden msense]. rewrite Hl, He. unfold S5.lit.
        destruct (0 <? x) eqn:E1; destruct (0 <=? x) eqn:E2; try reflexivity; lia.
      + cbn [trF leaves_ok]. unfold msurf_ok. simpl. split; [exact Hx|].
        split; [intros ids' Hl'; rewrite Hl in Hl'; inversion Hl'; subst; eauto | intros k Hk'; discriminate].
    - intros c cl b Hd HD _. split; [|exact I].
      cbn [trF mden]. eapply (proj1 (P5.Den_fun T surf P sense s3 p)); eauto.
    - intros op args bs HL [IH1 IH2]. split.
      + cbn [trF]. destruct op; cbn [mden S5.combine_op].
        * rewrite forallb_map_id, IH1. reflexivity.
        * rewrite existsb_map_id, IH1. reflexivity.
      + cbn [trF]. apply leaves_ok_node. exact IH2.
    - split; [reflexivity | constructor].
    - intros e b es bs _ [H1 H2] _ [H3 H4]. split; [simpl; now rewrite H1, H3 | constructor; auto].
  Qed.

  (* C01's hypothesis, for every cell of the converted table *)
  Lemma link5_cells_ok : forall k g orig, lookup k (cells_of5 (M5.s_cells s3)) = Some (g, orig) ->
    leaves_ok (msurf_ok matching) g /\ val k = mden sigma val matching g.
  Proof.
    intros k g orig Hl. destruct (lookup_cells_of5 _ k g orig Hl) as (cl & Hd & -> & _).
    destruct (proj1 Den_mden _ _ (val_ok k cl Hd)) as [H1 H2]. auto.
  Qed.

  Lemma val_ref k b : Den s3 p (M5.TRef k) b -> val k = b.
  Proof.
    intros H. destruct (P5.Den_ref_inv T surf P sense s3 p k b H) as (cl & Hd & HD).
    eapply (proj1 (P5.Den_fun T surf P sense s3 p)); eauto.
  Qed.
End Link.

(* ---- the partition theorem for a deck with universes ---- *)
Theorem partition_fill_linked :
  forall (T surf P : Type) (tr_empty : T -> bool) (teqb : T -> T -> bool)
         (tr_surf : T -> surf -> surf) (inv : T -> P -> P) (sense : surf -> P -> bool),
  (forall t o p, sense (tr_surf t o) p = sense o (inv t p)) ->
  (forall a b, teqb a b = true -> tr_empty a = tr_empty b /\ forall p, inv a p = inv b p) ->
  forall fuel5 cf ifd ifg num den (s0 s1 s2 : M5.state T surf) rs cells3,
  (* C05: the parsed deck s0 goes through the TRCL loop, the FILL loop and inline_cells *)
  P5.fresh_ok T surf s0 -> M5.s_cache s0 = [] -> NoDup (map fst (M5.s_cells s0)) ->
  P5.all_ref_free T surf s0 ->
  (forall c cl, M5.dget c (M5.s_cells s0) = Some cl -> M5.c_orig cl = []) ->
  M5.trcl_phase T surf tr_empty teqb tr_surf fuel5 (map fst (M5.s_cells s0)) s0 = M5.Ok s1 ->
  M5.fill_phase T surf tr_empty teqb tr_surf fuel5 cf ifd ifg s1 = M5.Ok (rs, s2) ->
  M5.inline_cells T fuel5 num den (M5.s_cells s2) = M5.Ok cells3 ->
  let s3 := P5.set_cells T surf s2 cells3 in
  let du := M5.by_universe (M5.s_cells s0) in
  forall (key : Z) (ks : list Z) (p : P) (ch : list Z)
         sigma matching val u0 u1 fuel todo cnt0 s' rn skipped d',
  (* a level-0 cell with a FILL, and the cells generated for it *)
  In (key, ks) (combine (M5.fill_keys (M5.s_cells s0)) rs) ->
  (* the point is located along the descent ch of the deck as written; universes are partitions
     and every descent below key has a value at p *)
  S5.LocW T surf P tr_empty inv sense s0 du key p ch true ->
  S5.universe_partitionW T surf P tr_empty inv sense s0 du ->
  (forall chs ch', S5.Paths T surf s0 du key chs -> In ch' chs ->
     exists b', S5.LocW T surf P tr_empty inv sense s0 du key p ch' b') ->
  (* the bridge at p *)
  (forall k o, M5.dget k (M5.s_surfs s3) = Some o ->
     k <> 0 /\ exists ids, lookup k matching = Some ids /\ existsb (lit sigma) ids = sense o p) ->
  (forall k ids, lookup k matching = Some ids -> Forall (fun x => x <> 0) ids) ->
  (forall c cl, M5.dget c (M5.s_cells s3) = Some cl ->
     S5.Den T surf P sense s3 p (M5.c_geom cl) (val c)) ->
  (* C01: conversion of the table, prune, printer *)
  0 < u0 -> 0 < u1 -> consistent sigma u0 u1 ->
  NoDup todo -> (forall k, In k todo -> k <= cnt0) ->
  convert_cells fuel (cells_of5 (M5.s_cells s3)) matching u0 u1 todo (mkSt cnt0 [] [] []) = Ok s' ->
  prune u0 u1 rn (vols s') = Ok d' ->
  (forall r, rn = Some r -> respects sigma r) ->
  (forall k, In k skipped -> k <= cnt0 /\ ~ In k todo) ->
  (* p is in no converted cell outside those generated for key (level-0 cells are disjoint) *)
  (forall k', In k' todo -> ~ In k' ks -> val k' = false) ->
  exists k, In k ks /\
    S5.RepresentsW T surf P tr_empty inv sense s0 du s3 key k ch /\
    exists Tb, read_table (print_table skipped d') = Some Tb /\
               (In k todo -> forall j, in_volume sigma Tb j <-> j = k) /\
               (~ In k todo -> forall j, ~ in_volume sigma Tb j).
Proof.
  intros T surf P tr_empty teqb tr_surf inv sense Hsense Hkey fuel5 cf ifd ifg num den s0 s1 s2 rs cells3
         Hfresh Hcache Hnd0 Hrf Horig Htrcl Hfill Hinl s3 du key ks p ch
         sigma matching val u0 u1 fuel todo cnt0 s' rn skipped d'
         Hin Hloc Hpart Hvalued Hsurf Hwf Hval H0 H1 Hc Hnd Hle Hrun Hpr Hresp Hskip Hothers.
  pose proof (P5.pipeline_located T surf P tr_empty teqb tr_surf inv sense Hsense Hkey
                fuel5 cf ifd ifg num den s0 s1 s2 rs cells3 Hfresh Hcache Hnd0 Hrf Horig Htrcl Hfill Hinl)
    as HF.
  fold s3 du in HF.
  (* the Outcome of this container *)
  assert (S5.OutcomeW T surf P tr_empty inv sense s0 du s3 key ks) as Hout.
  { clear - HF Hin. revert Hin. induction HF as [|x y l1 l2 Hxy HF' IH]; simpl; [contradiction|].
    intros [Hq|Hq]; [inversion Hq; subst; exact Hxy | auto]. }
  destruct Hout as (chs & Hpaths & Hrep & Hver).
  destruct (Hver p ch Hloc) as [Hinch Hverd].
  assert (forall u, NoDup (M5.du_get u du)) as Hdu by (intros u; apply P5.by_universe_NoDup; exact Hnd0).
  destruct (proj1 (P5.Paths_NoDup T surf s0 du Hdu) key chs Hpaths) as [Hndchs _].
  destruct (Forall2_pick_r _ _ _ ch Hrep Hinch) as (k & Hkc & Hrk).
  destruct (Forall2_pick_r _ _ _ ch Hverd Hinch) as (k2 & Hkc2 & [Hvk _]).
  assert (k2 = k) as -> by (eapply combine_NoDup_r; eauto).
  exists k. split; [eapply combine_In_l; eauto|]. split; [exact Hrk|].
  (* values *)
  assert (val k = true) as Hown.
  { eapply (val_ref T surf P sense s3 p val Hval). apply Hvk. reflexivity. }
  assert (forall k', In k' todo -> val k' = true -> k' = k) as Huniq.
  { intros k' Hk' Hv'. destruct (in_dec Z.eq_dec k' ks) as [Hks|Hks].
    - destruct (Forall2_pick_l _ _ _ k' Hverd Hks) as (ch' & Hkc' & [_ Hv2]).
      destruct (list_eq_dec Z.eq_dec ch' ch) as [->|Hne]; [eapply combine_NoDup_r; eauto|].
      exfalso. destruct (Hvalued chs ch' Hpaths (in_combine_r _ _ _ _ Hkc')) as (b' & Hb').
      pose proof (Hv2 Hpart Hne b' Hb') as Hd.
      rewrite (val_ref T surf P sense s3 p val Hval k' false Hd) in Hv'. discriminate.
    - rewrite (Hothers k' Hk' Hks) in Hv'. discriminate. }
  pose proof (link5_cells_ok T surf P sense s3 p sigma matching val Hsurf Hwf Hval) as Hok.
  exact (file_partition sigma val (cells_of5 (M5.s_cells s3)) matching u0 u1 H0 H1 Hc Hok fuel todo cnt0 s'
           Hnd Hle Hrun rn skipped d' Hpr Hresp Hskip k Hown Huniq).
Qed.

(* the same with "p is in no other converted cell" derived from the level-0 cells
   being disjoint at p: a converted cell is a level-0 cell without FILL or a cell
   generated for some container, and a generated cell is false outside its
   container (RepresentsW, last clause) *)
Lemma combine_NoDup_l {A B} (l1 : list A) (l2 : list B) a b b' :
  NoDup l1 -> In (a, b) (combine l1 l2) -> In (a, b') (combine l1 l2) -> b = b'.
Proof.
  revert l2. induction l1 as [|x l1 IH]; intros [|y l2] Hnd H1 H2; simpl in *; try contradiction.
  inversion Hnd as [|? ? Hnot Hnd']; subst.
  destruct H1 as [H1|H1]; destruct H2 as [H2|H2].
  - congruence.
  - inversion H1; subst. exfalso. apply Hnot. eapply in_combine_l; eauto.
  - inversion H2; subst. exfalso. apply Hnot. eapply in_combine_l; eauto.
  - eapply IH; eauto.
Qed.

Lemma NoDup_map_filter {A} (f : A -> Z) (q : A -> bool) l : NoDup (map f l) -> NoDup (map f (filter q l)).
Proof.
  induction l as [|x r IH]; simpl; intros H; [constructor|].
  inversion H as [|? ? Hnot Hnd]; subst. destruct (q x); simpl; [|auto].
  constructor; [|auto]. intros Hin. apply Hnot. apply in_map_iff in Hin as (y & Hy & Hin).
  apply filter_In in Hin as [Hin _]. apply in_map_iff. eauto.
Qed.

Theorem partition_fill_level0_linked :
  forall (T surf P : Type) (tr_empty : T -> bool) (teqb : T -> T -> bool)
         (tr_surf : T -> surf -> surf) (inv : T -> P -> P) (sense : surf -> P -> bool),
  (forall t o p, sense (tr_surf t o) p = sense o (inv t p)) ->
  (forall a b, teqb a b = true -> tr_empty a = tr_empty b /\ forall p, inv a p = inv b p) ->
  forall fuel5 cf ifd ifg num den (s0 s1 s2 : M5.state T surf) rs cells3,
  P5.fresh_ok T surf s0 -> M5.s_cache s0 = [] -> NoDup (map fst (M5.s_cells s0)) ->
  P5.all_ref_free T surf s0 ->
  (forall c cl, M5.dget c (M5.s_cells s0) = Some cl -> M5.c_orig cl = []) ->
  M5.trcl_phase T surf tr_empty teqb tr_surf fuel5 (map fst (M5.s_cells s0)) s0 = M5.Ok s1 ->
  M5.fill_phase T surf tr_empty teqb tr_surf fuel5 cf ifd ifg s1 = M5.Ok (rs, s2) ->
  M5.inline_cells T fuel5 num den (M5.s_cells s2) = M5.Ok cells3 ->
  let s3 := P5.set_cells T surf s2 cells3 in
  let du := M5.by_universe (M5.s_cells s0) in
  forall (key : Z) (ks : list Z) (p : P) (ch : list Z)
         sigma matching val u0 u1 fuel todo cnt0 s' rn skipped d',
  In (key, ks) (combine (M5.fill_keys (M5.s_cells s0)) rs) ->
  S5.LocW T surf P tr_empty inv sense s0 du key p ch true ->
  S5.universe_partitionW T surf P tr_empty inv sense s0 du ->
  (forall chs ch', S5.Paths T surf s0 du key chs -> In ch' chs ->
     exists b', S5.LocW T surf P tr_empty inv sense s0 du key p ch' b') ->
  (forall k o, M5.dget k (M5.s_surfs s3) = Some o ->
     k <> 0 /\ exists ids, lookup k matching = Some ids /\ existsb (lit sigma) ids = sense o p) ->
  (forall k ids, lookup k matching = Some ids -> Forall (fun x => x <> 0) ids) ->
  (forall c cl, M5.dget c (M5.s_cells s3) = Some cl ->
     S5.Den T surf P sense s3 p (M5.c_geom cl) (val c)) ->
  0 < u0 -> 0 < u1 -> consistent sigma u0 u1 ->
  NoDup todo -> (forall k, In k todo -> k <= cnt0) ->
  convert_cells fuel (cells_of5 (M5.s_cells s3)) matching u0 u1 todo (mkSt cnt0 [] [] []) = Ok s' ->
  prune u0 u1 rn (vols s') = Ok d' ->
  (forall r, rn = Some r -> respects sigma r) ->
  (forall k, In k skipped -> k <= cnt0 /\ ~ In k todo) ->
  (* the conversion list: level-0 cells of the deck, or cells generated for a container *)
  (forall k', In k' todo ->
     (exists cl, M5.dget k' (M5.s_cells s0) = Some cl /\ M5.c_univ cl = 0) \/
     (exists key' ks', In (key', ks') (combine (M5.fill_keys (M5.s_cells s0)) rs) /\ In k' ks')) ->
  (* the level-0 cells of the deck other than the container do not contain p *)
  (forall c cl, M5.dget c (M5.s_cells s0) = Some cl -> M5.c_univ cl = 0 -> c <> key -> val c = false) ->
  (* the container itself is not converted (it has a FILL) *)
  ~ In key todo ->
  exists k, In k ks /\
    S5.RepresentsW T surf P tr_empty inv sense s0 du s3 key k ch /\
    exists Tb, read_table (print_table skipped d') = Some Tb /\
               (In k todo -> forall j, in_volume sigma Tb j <-> j = k) /\
               (~ In k todo -> forall j, ~ in_volume sigma Tb j).
Proof.
  intros T surf P tr_empty teqb tr_surf inv sense Hsense Hkey fuel5 cf ifd ifg num den s0 s1 s2 rs cells3
         Hfresh Hcache Hnd0 Hrf Horig Htrcl Hfill Hinl s3 du key ks p ch
         sigma matching val u0 u1 fuel todo cnt0 s' rn skipped d'
         Hin Hloc Hpart Hvalued Hsurf Hwf Hval H0 H1 Hc Hnd Hle Hrun Hpr Hresp Hskip Hkinds Hlevel0 Hkeynot.
  apply (partition_fill_linked T surf P tr_empty teqb tr_surf inv sense Hsense Hkey fuel5 cf ifd ifg num den
           s0 s1 s2 rs cells3 Hfresh Hcache Hnd0 Hrf Horig Htrcl Hfill Hinl key ks p ch sigma matching val
           u0 u1 fuel todo cnt0 s' rn skipped d' Hin Hloc Hpart Hvalued Hsurf Hwf Hval H0 H1 Hc Hnd Hle Hrun
           Hpr Hresp Hskip).
  intros k' Hk' Hnot. destruct (val k') eqn:Ev; [|reflexivity]. exfalso.
  destruct (Hkinds k' Hk') as [(cl & Hd & Hu)|(key' & ks' & Hin' & Hk'')].
  - destruct (Z.eq_dec k' key) as [->|Hne]; [contradiction|].
    rewrite (Hlevel0 k' cl Hd Hu Hne) in Ev. discriminate.
  - pose proof (P5.pipeline_located T surf P tr_empty teqb tr_surf inv sense Hsense Hkey
                  fuel5 cf ifd ifg num den s0 s1 s2 rs cells3 Hfresh Hcache Hnd0 Hrf Horig Htrcl Hfill Hinl)
      as HF.
    fold s3 du in HF.
    assert (S5.OutcomeW T surf P tr_empty inv sense s0 du s3 key' ks') as Hout.
    { clear - HF Hin'. revert Hin'. induction HF as [|x y l1 l2 Hxy HF' IH]; simpl; [contradiction|].
      intros [Hq|Hq]; [inversion Hq; subst; exact Hxy | auto]. }
    destruct Hout as (chs' & _ & Hrep' & _).
    destruct (Forall2_pick_l _ _ _ k' Hrep' Hk'') as (ch' & _ & (ncl & lcl & Hd' & _ & _ & _ & _ & _ & _ & Hout')).
    pose proof (Hval k' ncl Hd') as HD. rewrite Ev in HD.
    pose proof (val_ref T surf P sense s3 p val Hval key' true (Hout' p HD)) as Hvk.
    (* key' is a level-0 cell of the deck *)
    assert (exists cl, M5.dget key' (M5.s_cells s0) = Some cl /\ M5.c_univ cl = 0) as (cl & Hd & Hu).
    { apply in_combine_l in Hin'. unfold M5.fill_keys in Hin'.
      apply in_map_iff in Hin' as ([kk cl] & Hfst & Hf). simpl in Hfst; subst kk.
      apply filter_In in Hf as [Hinc Hq]. apply andb_true_iff in Hq as [_ Hq]. simpl in Hq.
      exists cl. split; [|now apply Z.eqb_eq].
      clear - Hinc Hnd0. induction (M5.s_cells s0) as [|[a b] r IH]; simpl in *; [contradiction|].
      inversion Hnd0 as [|? ? Hnot' Hnd']; subst. destruct Hinc as [Hq|Hq].
      - inversion Hq; subst. now rewrite Z.eqb_refl.
      - destruct (key' =? a) eqn:E; [|auto]. apply Z.eqb_eq in E; subst. exfalso. apply Hnot'.
        change a with (fst (a, cl)). now apply in_map. }
    destruct (Z.eq_dec key' key) as [->|Hne].
    + assert (ks' = ks) as ->; [|contradiction].
      eapply combine_NoDup_l; [|exact Hin'|exact Hin]. unfold M5.fill_keys. now apply NoDup_map_filter.
    + rewrite (Hlevel0 key' cl Hd Hu Hne) in Hvk. discriminate.
Qed.

(* ---- non-vacuity: C05's example deck (two levels of universes, fill
   transformation at level 0, TRCL-only fill at level 1) goes through the TRCL loop,
   the FILL loop and inline_cells (C05_example_chain), and the resulting table -
   generated cells 27, 31, 34 with CellRefs to filler cells - through C01's
   conversion, prune and printer: every generated cell and the plain level-0 cell 2
   are written under their own numbers ---- *)
From T4V Require C05.Exec C05.Example.

Definition ex5_table : option (list (Z * M5.cell Z) * list Z) :=
  match C05.Exec.x_trcl_phase 5 (map fst (M5.s_cells C05.Example.ex_state)) C05.Example.ex_state with
  | M5.Ok s1 =>
      match C05.Exec.x_fill_phase 5 5 false false s1 with
      | M5.Ok (rs, s2) =>
          match M5.inline_cells Z 9 1 1 (M5.s_cells s2) with
          | M5.Ok cells3 => Some (cells3, map fst (M5.s_surfs s2))
          | M5.Err _ => None
          end
      | M5.Err _ => None
      end
  | M5.Err _ => None
  end.

Lemma ex5_runs :
  exists cells3 surf_ids s' d',
    ex5_table = Some (cells3, surf_ids) /\
    convert_cells 40 (cells_of5 cells3) (map (fun k => (k, [k])) surf_ids) 100 101 [2; 27; 31; 34]
                  (mkSt 50 [] [] []) = Ok s' /\
    prune 100 101 None (vols s') = Ok d' /\
    map fst (filter (fun kv => negb (v_fict (snd kv))) (written [] d')) = [2; 27; 31; 34] /\
    option_map v_orig (lookup 31 d') = Some (S5.prov [1; 11; 20]).
Proof.
  do 4 eexists. split; [vm_compute; reflexivity|]. split; [vm_compute; reflexivity|].
  split; [vm_compute; reflexivity|]. split; vm_compute; reflexivity.
Qed.
