(* C01 — pot_to_t4_cell is sound: the volume it returns denotes the tree, the
   state stays well formed and earlier volumes keep their denotation. *)
From Coq Require Import List ZArith Bool Lia.
From T4V Require Import C01.Model C01.Spec C01.ProofsTree.
Import ListNotations.
Open Scope Z_scope.

Scheme Vden_min := Minimality for Vden Sort Prop
  with VdenL_min := Minimality for VdenL Sort Prop.

(* ---- dictionaries ---- *)
Lemma lookup_dset_same {V} k (v : V) d : lookup k (dset k v d) = Some v.
Proof.
  induction d as [|[k' v'] r IH]; simpl.
  - now rewrite Z.eqb_refl.
  - destruct (k =? k') eqn:E; simpl; [now rewrite Z.eqb_refl | now rewrite E].
Qed.

Lemma lookup_dset_other {V} k k' (v : V) d : k' <> k -> lookup k' (dset k v d) = lookup k' d.
Proof.
  intros Hne. induction d as [|[k2 v2] r IH]; simpl.
  - destruct (k' =? k) eqn:E; [apply Z.eqb_eq in E; contradiction | reflexivity].
  - destruct (k =? k2) eqn:E; simpl.
    + apply Z.eqb_eq in E; subst k2.
      destruct (k' =? k) eqn:E2; [apply Z.eqb_eq in E2; contradiction | reflexivity].
    + destruct (k' =? k2); [reflexivity | apply IH].
Qed.

Definition extends {V} (d d' : dict V) : Prop :=
  forall k v, lookup k d = Some v -> lookup k d' = Some v.

Lemma extends_refl {V} (d : dict V) : extends d d.
Proof. intros k v H; exact H. Qed.
Lemma extends_trans {V} (a b c : dict V) : extends a b -> extends b c -> extends a c.
Proof. intros H1 H2 k v H; apply H2, H1, H. Qed.
Lemma extends_dset {V} (d : dict V) k v : lookup k d = None -> extends d (dset k v d).
Proof.
  intros Hn k' v' H. rewrite lookup_dset_other; [exact H|]. intros ->. congruence.
Qed.

(* ---- selection = what conv_sel converts ---- *)
Fixpoint select {X} (sel : nat -> X -> bool) (i : nat) (l : list X) : list X :=
  match l with
  | [] => []
  | x :: r => if sel i x then x :: select sel (S i) r else select sel (S i) r
  end.

Fixpoint conv_all {X} (f : X -> st -> res (option Z * st)) (l : list X) (s : st)
  : res (list (option Z) * st) :=
  match l with
  | [] => Ok ([], s)
  | x :: r => match f x s with
              | Err e => Err e
              | Ok (y, s1) => match conv_all f r s1 with
                              | Err e => Err e
                              | Ok (ys, s2) => Ok (y :: ys, s2)
                              end
              end
  end.

Lemma conv_sel_select {X} (f : X -> st -> res (option Z * st)) sel l : forall i s,
  conv_sel f sel i l s = conv_all f (select sel i l) s.
Proof.
  induction l as [|x r IH]; intros i s; simpl; [reflexivity|].
  destruct (sel i x); simpl; [|apply IH].
  destruct (f x s) as [[y s1]|e]; [|reflexivity]. now rewrite IH.
Qed.

Lemma select_all {X} (l : list X) i : select (fun _ _ => true) i l = l.
Proof. revert i; induction l as [|x r IH]; intros i; simpl; [reflexivity | now rewrite IH]. Qed.

Lemma Forall_select {X} (P : X -> Prop) sel l : forall i, Forall P l -> Forall P (select sel i l).
Proof.
  induction l as [|x r IH]; intros i H; simpl; [constructor|].
  inversion H; subst. destruct (sel i x); [constructor|]; auto.
Qed.

Lemma In_select {X} sel (l : list X) : forall i x, In x (select sel i l) -> In x l.
Proof.
  induction l as [|y r IH]; intros i x H; simpl in *; [contradiction|].
  destruct (sel i y); [destruct H as [->|H]; [now left|]|]; right; eauto.
Qed.

Lemma In_flat_select {X} (g : X -> list Z) sel l : forall i k,
  In k (flat_map g (select sel i l)) -> In k (flat_map g l).
Proof.
  induction l as [|x r IH]; intros i k H; simpl in *; [exact H|].
  apply in_or_app. destruct (sel i x); simpl in H.
  - apply in_app_or in H as [H|H]; [now left | right; eapply IH; eauto].
  - right; eapply IH; eauto.
Qed.

Lemma NoDup_app_l {X} (a b : list X) : NoDup (a ++ b) -> NoDup a.
Proof.
  induction a as [|x r IH]; simpl; intros H; [constructor|].
  inversion H; subst. constructor; [|now apply IH].
  intros Hin; apply H2, in_or_app; now left.
Qed.
Lemma NoDup_app_r {X} (a b : list X) : NoDup (a ++ b) -> NoDup b.
Proof. induction a as [|x r IH]; simpl; intros H; [exact H|]. inversion H; subst; auto. Qed.
Lemma NoDup_app_disj {X} (a b : list X) x : NoDup (a ++ b) -> In x a -> In x b -> False.
Proof.
  induction a as [|y r IH]; simpl; intros H Ha Hb; [contradiction|].
  inversion H; subst. destruct Ha as [->|Ha]; [apply H2, in_or_app; now right | eauto].
Qed.
Lemma NoDup_app_intro {X} (a b : list X) :
  NoDup a -> NoDup b -> (forall x, In x a -> In x b -> False) -> NoDup (a ++ b).
Proof.
  induction a as [|y r IH]; simpl; intros Ha Hb Hd; [exact Hb|].
  inversion Ha; subst. constructor.
  - intros Hin. apply in_app_or in Hin as [Hin|Hin]; [contradiction | eapply Hd; eauto].
  - apply IH; eauto.
Qed.

Lemma NoDup_flat_select {X} (g : X -> list Z) sel l : forall i,
  NoDup (flat_map g l) -> NoDup (flat_map g (select sel i l)).
Proof.
  induction l as [|x r IH]; intros i H; simpl in *; [exact H|].
  destruct (sel i x); simpl.
  - apply NoDup_app_intro.
    + eapply NoDup_app_l; eauto.
    + apply IH. eapply NoDup_app_r; eauto.
    + intros k Ha Hb. apply In_flat_select in Hb. eapply NoDup_app_disj; eauto.
  - apply IH. eapply NoDup_app_r; eauto.
Qed.

Lemma select_disjoint {X} (g : X -> list Z) sel1 sel2 l :
  (forall i x, sel1 i x = true -> sel2 i x = false) ->
  forall i k, NoDup (flat_map g l) ->
  In k (flat_map g (select sel1 i l)) -> In k (flat_map g (select sel2 i l)) -> False.
Proof.
  intros Hs. induction l as [|x r IH]; intros i k Hnd H1 H2; simpl in *; [contradiction|].
  pose proof (NoDup_app_r _ _ Hnd) as Hr.
  destruct (sel1 i x) eqn:E1.
  - rewrite (Hs _ _ E1) in H2. simpl in H1. apply in_app_or in H1 as [H1|H1].
    + apply In_flat_select in H2. eapply NoDup_app_disj; eauto.
    + eapply IH; eauto.
  - destruct (sel2 i x) eqn:E2; [|eapply IH; eauto].
    simpl in H2. apply in_app_or in H2 as [H2|H2].
    + apply In_flat_select in H1. eapply NoDup_app_disj; eauto.
    + eapply IH; eauto.
Qed.

(* ---- node ids of a tree ---- *)
Fixpoint ids_of {A} (t : tree A) : list Z :=
  match t with
  | Node id _ args => id :: flat_map ids_of args
  | _ => []
  end.

Definition nz (n : Z) : Prop := n <> 0.

Section Sound.
  Variable sigma : Z -> bool.
  Variable cden : Z -> bool.
  Notation lit := (lit sigma).
  Notation tden := (tden sigma cden).
  Notation equa := (equa sigma).
  Notation Vden := (Vden sigma).
  Notation VdenL := (VdenL sigma).

  (* Vden only looks at the volumes it reaches *)
  Lemma Vden_mono d d' : extends d d' -> forall id b, Vden d id b -> Vden d' id b.
  Proof.
    intros He.
    apply (Vden_min sigma d (fun id b => Vden d' id b) (fun ids bs => VdenL d' ids bs)).
    - intros id v Hl Ho. now apply Vden_plain; [apply He|].
    - intros id v ids bs Hl Ho _ HL. eapply Vden_inte; eauto.
    - intros id v ids bs Hl Ho _ HL. eapply Vden_union; eauto.
    - constructor.
    - intros id b ids bs _ H1 _ H2. now constructor.
  Qed.

  (* ---- invariants ---- *)
  Definition inv (s : st) : Prop := forall k v, lookup k (vols s) = Some v -> k <= cnt s.

  Definition fresh (ids : list Z) (s : st) : Prop :=
    NoDup ids /\ forall k, In k ids -> lookup k (vols s) = None /\ k <= cnt s.

  Definition nonone (d : dict vol) : Prop :=
    forall k v, lookup k d = Some v -> ops_ok (v_ops v) = true.

  Definition sem (s : st) : Prop :=
    (forall n id, lookup n (scache s) = Some id ->
       exists v, lookup id (vols s) = Some v /\ v_ops v = None /\ equa v = lit n) /\
    (forall c id, lookup c (ccache s) = Some id -> Vden (vols s) id (cden c)).

  Definition rden (d : dict vol) (r : option Z) (b : bool) : Prop :=
    match r with Some id => Vden d id b | None => b = false end.

  Definition bound (ids : list Z) (s s' : st) : Prop :=
    forall k, lookup k (vols s') <> None -> lookup k (vols s) <> None \/ In k ids \/ cnt s < k.

  Definition post (ids : list Z) (b : bool) (s : st) (r : option Z) (s' : st) : Prop :=
    extends (vols s) (vols s') /\ cnt s <= cnt s' /\ inv s' /\ bound ids s s' /\
    (nonone (vols s') -> sem s -> sem s' /\ rden (vols s') r b).

  Definition fspec {X} (f : X -> st -> res (option Z * st)) (idsf : X -> list Z)
             (denf : X -> bool) (x : X) : Prop :=
    forall s r s', f x s = Ok (r, s') -> inv s -> fresh (idsf x) s ->
                   post (idsf x) (denf x) s r s'.

  Lemma nonone_extends d d' : extends d d' -> nonone d' -> nonone d.
  Proof. intros He Hn k v Hl. eapply Hn, He, Hl. Qed.

  Lemma rden_mono d d' r b : extends d d' -> rden d r b -> rden d' r b.
  Proof. intros He. destruct r; simpl; [apply Vden_mono; assumption | auto]. Qed.

  Lemma sem_extends_vols s d' :
    extends (vols s) d' -> sem s -> sem (mkSt (cnt s) d' (scache s) (ccache s)).
  Proof.
    intros He [Hs Hc]. split; simpl.
    - intros n id Hl. destruct (Hs n id Hl) as (v & Hv & Ho & Hq). exists v; auto.
    - intros c id Hl. eapply Vden_mono; eauto.
  Qed.

  Lemma fresh_app_l a b s : fresh (a ++ b) s -> fresh a s.
  Proof.
    intros [Hn Hf]. split; [eapply NoDup_app_l; eauto|].
    intros k Hk. apply Hf, in_or_app. now left.
  Qed.

  (* ---- the generic list step ---- *)
  Lemma conv_all_post {X} (f : X -> st -> res (option Z * st)) idsf denf (l : list X) :
    Forall (fspec f idsf denf) l ->
    forall s rs s', conv_all f l s = Ok (rs, s') -> inv s -> fresh (flat_map idsf l) s ->
    extends (vols s) (vols s') /\ cnt s <= cnt s' /\ inv s' /\ bound (flat_map idsf l) s s' /\
    (nonone (vols s') -> sem s -> sem s' /\ Forall2 (rden (vols s')) rs (map denf l)).
  Proof.
    induction 1 as [|x r Hx Hr IH]; intros s rs s' H Hinv Hfr; simpl in H.
    - inversion H; subst. split; [apply extends_refl|]. split; [lia|]. split; [assumption|]. split.
      + intros k Hk; now left.
      + intros _ Hs. split; [assumption | constructor].
    - destruct (f x s) as [[y s1]|e] eqn:Ef; [|discriminate].
      destruct (conv_all f r s1) as [[ys s2]|e] eqn:Er; [|discriminate].
      inversion H; subst. simpl in Hfr.
      destruct (Hx s y s1 Ef Hinv (fresh_app_l _ _ _ Hfr)) as (He1 & Hc1 & Hi1 & Hb1 & Hsem1).
      assert (fresh (flat_map idsf r) s1) as Hfr1.
      { destruct Hfr as [Hnd Hf]. split; [eapply NoDup_app_r; eauto|].
        intros k Hk. destruct (Hf k) as [Hn Hle]; [apply in_or_app; now right|].
        split; [|lia].
        destruct (lookup k (vols s1)) eqn:El; [|reflexivity]. exfalso.
        destruct (Hb1 k) as [Hc|[Hc|Hc]]; try congruence; try lia.
        eapply NoDup_app_disj; eauto. }
      destruct (IH s1 ys s' Er Hi1 Hfr1) as (He2 & Hc2 & Hi2 & Hb2 & Hsem2).
      split; [eapply extends_trans; eauto|]. split; [lia|]. split; [assumption|]. split.
      + intros k Hk. destruct (Hb2 k Hk) as [Hc|[Hc|Hc]].
        * destruct (Hb1 k Hc) as [Hd|[Hd|Hd]]; auto.
          right; left. simpl. apply in_or_app; now left.
        * right; left. simpl. apply in_or_app; now right.
        * right; right; lia.
      + intros Hnn Hs.
        destruct (Hsem1 (nonone_extends _ _ He2 Hnn) Hs) as [Hs1 Hr1].
        destruct (Hsem2 Hnn Hs1) as [Hs2 Hr2].
        split; [assumption|]. simpl. constructor; [eapply rden_mono; eauto | assumption].
  Qed.

  (* all results are volume ids: the operand list has a denotation *)
  Lemma VdenL_of_rden d rs bs :
    Forall2 (rden d) rs bs ->
    forallb (fun x => match x with Some _ => true | None => false end) rs = true ->
    VdenL d rs bs.
  Proof.
    induction 1 as [|r b rs bs Hr Hrs IH]; simpl; intros Ha; [constructor|].
    destruct r as [id|]; [|discriminate]. constructor; auto.
  Qed.

  Lemma Forall2_app_rden d r1 b1 r2 b2 :
    Forall2 (rden d) r1 b1 -> Forall2 (rden d) r2 b2 -> Forall2 (rden d) (r1 ++ r2) (b1 ++ b2).
  Proof. induction 1; simpl; auto. Qed.

  Lemma Forall2_rden_mono d d' rs bs :
    extends d d' -> Forall2 (rden d) rs bs -> Forall2 (rden d') rs bs.
  Proof. intros He. induction 1; constructor; eauto using rden_mono. Qed.

  Lemma node_den_inter d pid V rs bs :
    lookup pid d = Some V -> v_ops V = mk_ops OInter rs -> Forall2 (rden d) rs bs ->
    ops_ok (v_ops V) = true -> Vden d pid (equa V && forallb (fun b => b) bs).
  Proof.
    intros Hl Ho HF Hok. destruct rs as [|r0 rs].
    - inversion HF; subst. simpl. rewrite andb_true_r. now apply Vden_plain.
    - simpl in Ho. eapply Vden_inte; eauto. apply VdenL_of_rden; auto.
      rewrite Ho in Hok. exact Hok.
  Qed.

  Lemma node_den_union d pid V rs bs :
    lookup pid d = Some V -> v_ops V = mk_ops OUnion rs -> Forall2 (rden d) rs bs ->
    ops_ok (v_ops V) = true -> Vden d pid (equa V || existsb (fun b => b) bs).
  Proof.
    intros Hl Ho HF Hok. destruct rs as [|r0 rs].
    - inversion HF; subst. simpl. rewrite orb_false_r. now apply Vden_plain.
    - simpl in Ho. eapply Vden_union; eauto. apply VdenL_of_rden; auto.
      rewrite Ho in Hok. exact Hok.
  Qed.

  (* ---- conv_equa ---- *)
  Lemma mem_In x l : mem x l = true <-> In x l.
  Proof.
    induction l as [|y r IH]; simpl; [split; [discriminate | contradiction]|].
    rewrite orb_true_iff, IH, Z.eqb_eq. split; intros [H|H]; auto.
  Qed.

  Definition equa2 (pm : list Z * list Z) : bool :=
    forallb sigma (fst pm) && forallb (fun s => negb (sigma s)) (snd pm).

  Lemma equa2_step x p m : nz x ->
    equa2 (if x <? 0 then (p, - x :: m) else if 0 <? x then (x :: p, m) else (p, m))
    = lit x && equa2 (p, m).
  Proof.
    unfold nz, equa2, Spec.lit. intros Hx.
    destruct (x <? 0) eqn:E1; destruct (0 <? x) eqn:E2; try lia; cbn [fst snd forallb].
    - destruct (sigma (- x)); destruct (forallb sigma p); reflexivity.
    - now rewrite andb_assoc.
  Qed.

  Lemma conv_equa_from_den l : Forall nz l -> forall seen,
    forallb lit seen && equa2 (conv_equa_from seen l) = forallb lit seen && forallb lit l.
  Proof.
    induction 1 as [|x r Hx Hr IH]; intros seen; cbn [conv_equa_from forallb]; [reflexivity|].
    destruct (mem x seen) eqn:Em.
    - rewrite IH. destruct (forallb lit seen) eqn:Es; [|reflexivity]. cbn [andb].
      apply mem_In in Em. rewrite forallb_forall in Es. now rewrite (Es x Em).
    - specialize (IH (x :: seen)). cbn [forallb] in IH.
      destruct (conv_equa_from (x :: seen) r) as [p m] eqn:Ec.
      rewrite equa2_step by assumption.
      destruct (lit x); destruct (forallb lit seen); cbn [andb] in *; auto.
  Qed.

  Lemma conv_equa_den l p m : Forall nz l -> conv_equa l = (p, m) ->
    forallb sigma p && forallb (fun s => negb (sigma s)) m = forallb lit l.
  Proof.
    intros Hl Hc. pose proof (conv_equa_from_den l Hl []) as H. simpl in H.
    unfold conv_equa in Hc. rewrite Hc in H. exact H.
  Qed.

  (* ---- Boolean splittings of a node ---- *)
  Lemma leaves_nz (args : list (tree Z)) :
    Forall (leaves_ok nz) args -> Forall nz (leaves_of args).
  Proof.
    induction 1 as [|x r Hx Hr IH]; simpl; [constructor|].
    destruct x; simpl in *; auto.
  Qed.

  Lemma inter_split (args : list (tree Z)) :
    forallb tden args =
    forallb lit (leaves_of args)
    && (forallb (fun b => b) (map tden (select (fun _ x => is_node x) 0 args)
                              ++ map cden (refs_of args))).
  Proof.
    generalize 0%nat. induction args as [|x r IH]; intros i; simpl; [reflexivity|].
    rewrite (IH (S i)). destruct x as [n|c|id o sub]; simpl.
    - now rewrite andb_assoc.
    - rewrite !forallb_app. simpl.
      destruct (cden c); simpl; [reflexivity | now rewrite !andb_false_r].
    - destruct (match o with OInter => forallb tden sub | OUnion => existsb tden sub end);
        simpl; [reflexivity | now rewrite andb_false_r].
  Qed.

  Lemma union_split (args : list (tree Z)) :
    existsb tden args =
    existsb (fun b => b) (map tden (select (fun _ x => negb (is_ref x)) 0 args)
                          ++ map cden (refs_of args)).
  Proof.
    generalize 0%nat. induction args as [|x r IH]; intros i; simpl; [reflexivity|].
    rewrite (IH (S i)). destruct x as [n|c|id o sub]; simpl; try reflexivity.
    rewrite !existsb_app. simpl.
    destruct (cden c); simpl; [now rewrite !orb_true_r | reflexivity].
  Qed.

  Lemma refs_le (args : list (tree Z)) :
    existsb (fun b => b) (map cden (refs_of args)) = true -> existsb tden args = true.
  Proof.
    induction args as [|x r IH]; simpl; [discriminate|].
    destruct x as [n|c|id o sub]; simpl; intros H.
    - rewrite IH by assumption. apply orb_true_r.
    - destruct (cden c); simpl in *; auto.
    - rewrite IH by assumption. apply orb_true_r.
  Qed.

  Lemma select_split {X} (f : X -> bool) sel (l : list X) : forall i,
    existsb f l = existsb f (select sel i l) || existsb f (select (fun j x => negb (sel j x)) i l).
  Proof.
    induction l as [|x r IH]; intros i; simpl; [reflexivity|].
    rewrite (IH (S i)). destruct (sel i x); simpl.
    - now rewrite orb_assoc.
    - destruct (f x); simpl; [now rewrite !orb_true_r | reflexivity].
  Qed.

  Lemma union_largest_den args k mt :
    select (fun (i : nat) (_ : tree Z) => Nat.eqb i k) 0 args = [mt] ->
    existsb tden args =
    tden mt || existsb (fun b => b)
                 (map tden (select (fun (i : nat) (_ : tree Z) => negb (Nat.eqb i k)) 0 args)
                  ++ map cden (refs_of args)).
  Proof.
    intros Hs.
    assert (existsb tden args =
            tden mt || existsb tden (select (fun (i : nat) (_ : tree Z) => negb (Nat.eqb i k)) 0 args)) as H1.
    { rewrite (select_split tden (fun (i : nat) (_ : tree Z) => Nat.eqb i k) args 0), Hs.
      simpl. now rewrite orb_false_r. }
    rewrite existsb_app, <- existsb_map_id.
    destruct (existsb (fun b => b) (map cden (refs_of args))) eqn:Er.
    - apply refs_le in Er. rewrite Er. now rewrite !orb_true_r.
    - rewrite orb_false_r. exact H1.
  Qed.

  (* ---- largestPureIntersectionNode picks a leaf or a pure intersection ---- *)
  Definition pure (t : tree Z) : bool :=
    match t with Leaf _ => true | _ => match pure_inter t with Some _ => true | None => false end end.

  Lemma select_eq_none {X} (l : list X) : forall i k, (k < i)%nat ->
    select (fun j _ => Nat.eqb j k) i l = [].
  Proof.
    induction l as [|x r IH]; intros i k Hlt; simpl; [reflexivity|].
    destruct (Nat.eqb i k) eqn:E; [apply Nat.eqb_eq in E; lia|]. apply IH; lia.
  Qed.

  Lemma select_eq_nth {X} (l : list X) : forall i k mt, (i <= k)%nat ->
    nth_error l (k - i) = Some mt -> select (fun j _ => Nat.eqb j k) i l = [mt].
  Proof.
    induction l as [|x r IH]; intros i k mt Hle Hn; simpl.
    - destruct (k - i)%nat; discriminate.
    - destruct (Nat.eqb i k) eqn:E.
      + apply Nat.eqb_eq in E; subst. rewrite Nat.sub_diag in Hn. simpl in Hn.
        inversion Hn; subst. now rewrite select_eq_none by lia.
      + apply Nat.eqb_neq in E. apply IH; [lia|].
        replace (k - i)%nat with (S (k - S i)) in Hn by lia. exact Hn.
  Qed.

  Lemma largest_from_pure l : forall i best blen k,
    largest_from l i best blen = Some k ->
    best = Some k \/ exists mt, (i <= k)%nat /\ nth_error l (k - i) = Some mt /\ pure mt = true.
  Proof.
    induction l as [|x r IH]; intros i best blen k H; simpl in H; [now left|].
    assert (forall b' l', largest_from r (S i) b' l' = Some k ->
            (b' = best \/ (b' = Some i /\ pure x = true)) ->
            best = Some k \/
            exists mt, (i <= k)%nat /\ nth_error (x :: r) (k - i) = Some mt /\ pure mt = true) as Hstep.
    { intros b' l' Hl Hb. destruct (IH _ _ _ _ Hl) as [Hq|(mt & Hle & Hn & Hp)].
      - destruct Hb as [->|[-> Hp]]; [now left|]. inversion Hq; subst.
        right. exists x. rewrite Nat.sub_diag. simpl. auto.
      - right. exists mt. split; [lia|]. split; [|assumption].
        replace (k - i)%nat with (S (k - S i)) by lia. exact Hn. }
    destruct x as [n|c|id o sub].
    - destruct (blen <? 1); eapply Hstep; eauto.
    - simpl in H. eapply Hstep; eauto.
    - destruct (pure_inter (Node id o sub)) as [len|] eqn:Ep.
      + destruct (blen <? len); eapply Hstep; eauto.
        right. split; [reflexivity|]. unfold pure. now rewrite Ep.
      + eapply Hstep; eauto.
  Qed.

  Lemma largest_select args k : largest args = Some k ->
    exists mt, select (fun j _ => Nat.eqb j k) 0 args = [mt] /\ pure mt = true.
  Proof.
    unfold largest. intros H. apply largest_from_pure in H as [H|(mt & Hle & Hn & Hp)]; [discriminate|].
    exists mt. split; [|assumption]. apply select_eq_nth; [lia|]. now rewrite Nat.sub_0_r in Hn |- *.
  Qed.

  (* ---- the converter ---- *)
  Variable cref : Z -> st -> res (option Z * st).
  Variable orig : list (Z * Z).
  Variables u0 u1 : Z.
  Hypothesis Hu0 : 0 < u0.
  Hypothesis Hu1 : 0 < u1.
  Hypothesis Hcons : consistent sigma u0 u1.
  Hypothesis cref_ok : forall c, fspec cref (fun _ => []) cden c.

  Notation to_t4 := (to_t4 cref orig u0 u1).

  Lemma conv_equa_helpers : conv_equa [u0; - u1] = ([u0], [u1]).
  Proof.
    unfold conv_equa. simpl.
    destruct (- u1 =? u0) eqn:E; [apply Z.eqb_eq in E; lia|]. simpl.
    destruct (- u1 <? 0) eqn:E1; [|lia]. destruct (u0 <? 0) eqn:E2; [lia|].
    destruct (0 <? u0) eqn:E3; [|lia]. now rewrite Z.opp_involutive.
  Qed.

  Lemma helpers_empty v : v_plus v = [u0] -> v_minus v = [u1] -> equa v = false.
  Proof.
    intros Hp Hm. unfold Spec.equa. rewrite Hp, Hm. simpl.
    destruct (sigma u0) eqn:E; [|reflexivity]. now rewrite (Hcons E).
  Qed.

  Lemma fresh_nil s : fresh [] s.
  Proof. split; [constructor | intros k []]. Qed.

  Lemma convert_surface_post n s id s' :
    convert_surface orig n s = (id, s') -> nz n -> inv s ->
    post [] (lit n) s (Some id) s' /\
    (sem s -> exists v, lookup id (vols s') = Some v /\ v_ops v = None /\ equa v = lit n).
  Proof.
    unfold convert_surface. intros H Hn Hinv.
    destruct (lookup n (scache s)) as [id0|] eqn:El.
    - inversion H; subst. split.
      + split; [apply extends_refl|]. split; [lia|]. split; [assumption|]. split.
        * intros k Hk; now left.
        * intros _ Hsem. split; [assumption|].
          destruct Hsem as [Hs _]. destruct (Hs n id El) as (v & Hv & Ho & Hq).
          simpl. rewrite <- Hq. now apply Vden_plain.
      + intros [Hs _]. exact (Hs n id El).
    - destruct (conv_equa [n]) as [p m] eqn:Ec. inversion H; subst; clear H.
      assert (lookup (cnt s + 1) (vols s) = None) as Hnew.
      { destruct (lookup (cnt s + 1) (vols s)) eqn:E; [|reflexivity].
        apply Hinv in E. lia. }
      set (v := mkVol p m None orig true).
      assert (equa v = lit n) as Hq.
      { unfold Spec.equa; simpl. rewrite (conv_equa_den [n] p m); auto.
        simpl. now rewrite andb_true_r. }
      assert (extends (vols s) (dset (cnt s + 1) v (vols s))) as He by now apply extends_dset.
      split.
      + split; [exact He|]. split; [simpl; lia|]. split; [|split].
        * intros k w Hl. simpl in *.
          destruct (Z.eq_dec k (cnt s + 1)) as [->|Hne]; [lia|].
          rewrite lookup_dset_other in Hl by assumption. apply Hinv in Hl. lia.
        * intros k Hk. simpl in Hk.
          destruct (Z.eq_dec k (cnt s + 1)) as [->|Hne]; [right; right; lia|].
          rewrite lookup_dset_other in Hk by assumption. now left.
        * intros _ [Hs Hc]. split; [split|]; simpl.
          -- intros n' id' Hl.
             destruct (Z.eq_dec n' n) as [->|Hne].
             ++ rewrite lookup_dset_same in Hl. inversion Hl; subst.
                exists v. rewrite lookup_dset_same. auto.
             ++ rewrite lookup_dset_other in Hl by assumption.
                destruct (Hs n' id' Hl) as (w & Hw & Ho & Hqw). exists w; auto.
          -- intros c id' Hl. eapply Vden_mono; eauto.
          -- rewrite <- Hq. apply Vden_plain; [apply lookup_dset_same | reflexivity].
      + intros _. exists v. simpl. rewrite lookup_dset_same. auto.
  Qed.

  (* a stored node: the state after [set_vol pid V] on top of the sub-conversions *)
  Lemma store_post pid V ids b s s2 :
    inv s -> fresh (pid :: ids) s ->
    extends (vols s) (vols s2) -> cnt s <= cnt s2 -> inv s2 -> bound ids s s2 ->
    (nonone (vols (set_vol pid V s2)) -> sem s -> sem s2 /\ rden (vols (set_vol pid V s2)) (Some pid) b) ->
    post (pid :: ids) b s (Some pid) (set_vol pid V s2).
  Proof.
    intros Hinv [Hnd Hf] He Hc Hi2 Hb Hsem.
    destruct (Hf pid (or_introl eq_refl)) as [Hpn Hple].
    assert (lookup pid (vols s2) = None) as Hp2.
    { destruct (lookup pid (vols s2)) eqn:E; [|reflexivity]. exfalso.
      destruct (Hb pid) as [H|[H|H]]; try congruence; try lia.
      inversion Hnd; subst; contradiction. }
    assert (extends (vols s2) (vols (set_vol pid V s2))) as He2 by (simpl; now apply extends_dset).
    split; [eapply extends_trans; eauto|]. split; [simpl; lia|]. split; [|split].
    - intros k w Hl. simpl in *. destruct (Z.eq_dec k pid) as [->|Hne]; [lia|].
      rewrite lookup_dset_other in Hl by assumption. eauto.
    - intros k Hk. simpl in Hk. destruct (Z.eq_dec k pid) as [->|Hne]; [right; left; now left|].
      rewrite lookup_dset_other in Hk by assumption.
      destruct (Hb k Hk) as [H|[H|H]]; auto. right; left; now right.
    - intros Hnn Hs. destruct (Hsem Hnn Hs) as [Hs2 Hr]. split; [|exact Hr].
      apply (sem_extends_vols s2 _ He2 Hs2).
  Qed.

  Definition P (t : tree Z) : Prop := leaves_ok nz t -> fspec to_t4 ids_of tden t.

  Lemma P_list args : Forall P args -> Forall (leaves_ok nz) args ->
    Forall (fspec to_t4 ids_of tden) args.
  Proof.
    induction 1 as [|x r Hx Hr IH]; intros Hn; [constructor|].
    inversion Hn; subst. constructor; auto.
  Qed.

  Lemma crefs_spec (l : list Z) : Forall (fspec cref (fun _ => []) cden) l.
  Proof. induction l; constructor; auto. Qed.

  Lemma flat_nil (l : list Z) : flat_map (fun _ : Z => @nil Z) l = [].
  Proof. induction l; simpl; auto. Qed.

  (* converting the references of a node after something else *)
  Lemma crefs_post crefs s1 rs s2 :
    conv_sel cref (fun _ _ => true) 0 crefs s1 = Ok (rs, s2) -> inv s1 ->
    extends (vols s1) (vols s2) /\ cnt s1 <= cnt s2 /\ inv s2 /\ bound [] s1 s2 /\
    (nonone (vols s2) -> sem s1 -> sem s2 /\ Forall2 (rden (vols s2)) rs (map cden crefs)).
  Proof.
    intros H Hinv. rewrite conv_sel_select, select_all in H.
    pose proof (conv_all_post cref (fun _ => []) cden crefs (crefs_spec crefs) s1 rs s2 H Hinv) as Hp.
    rewrite flat_nil in Hp. apply Hp, fresh_nil.
  Qed.

  Lemma bound_nil_weaken ids s s' : bound [] s s' -> bound ids s s'.
  Proof. intros Hb k Hk. destruct (Hb k Hk) as [H|[[]|H]]; auto. Qed.

  Lemma bound_trans ids s s1 s2 :
    bound ids s s1 -> bound [] s1 s2 -> cnt s <= cnt s1 -> bound ids s s2.
  Proof.
    intros H1 H2 Hc k Hk. destruct (H2 k Hk) as [H|[[]|H]].
    - apply H1, H.
    - right; right; lia.
  Qed.

  Lemma ops_all_some o ids : ops_ok (Some (o, ids)) = true ->
    forallb (fun x : option Z => match x with Some _ => true | None => false end) ids = true.
  Proof. simpl. auto. Qed.

  (* to_t4 on a leaf or a pure intersection leaves an operator-free volume *)
  Lemma conv_sel_nodes_pure sub s : forallb is_leaf sub = true ->
    conv_sel to_t4 (fun _ x => is_node x) 0 sub s = Ok ([], s).
  Proof.
    generalize 0%nat. induction sub as [|x r IH]; intros i H; simpl; [reflexivity|].
    simpl in H. apply andb_true_iff in H as [Hx Hr]. destruct x; try discriminate. simpl. now apply IH.
  Qed.

  Lemma refs_of_pure (sub : list (tree Z)) : forallb is_leaf sub = true -> refs_of sub = [].
  Proof.
    induction sub as [|x r IH]; simpl; [reflexivity|]. intros H.
    apply andb_true_iff in H as [Hx Hr]. destruct x; try discriminate. now apply IH.
  Qed.

  Lemma forallb_leaves_pure (sub : list (tree Z)) : forallb is_leaf sub = true ->
    forallb lit (leaves_of sub) = forallb tden sub.
  Proof.
    induction sub as [|x r IH]; simpl; [reflexivity|]. intros H.
    apply andb_true_iff in H as [Hx Hr]. destruct x; try discriminate. simpl. now rewrite IH.
  Qed.

  Lemma to_t4_pure mt s r s0 : pure mt = true -> leaves_ok nz mt -> inv s -> sem s ->
    to_t4 mt s = Ok (r, s0) ->
    exists id v, r = Some id /\ lookup id (vols s0) = Some v /\ v_ops v = None /\ equa v = tden mt.
  Proof.
    intros Hp Hnz Hinv Hs H. destruct mt as [n|c|id o sub]; try discriminate.
    - simpl in H. destruct (convert_surface orig n s) as [id s'] eqn:Ec. inversion H; subst.
      destruct (convert_surface_post n s id s0 Ec Hnz Hinv) as [_ Hv].
      destruct (Hv Hs) as (v & H1 & H2 & H3). exists id, v. auto.
    - unfold pure in Hp. simpl in Hp. destruct o; try discriminate.
      destruct (forallb is_leaf sub) eqn:El; try discriminate.
      cbn [Model.to_t4] in H. destruct (conv_equa (leaves_of sub)) as [p m] eqn:Ec.
      rewrite conv_sel_nodes_pure in H by assumption.
      rewrite refs_of_pure in H by assumption. simpl in H. inversion H; subst.
      exists id, (mkVol p m None orig true). simpl. rewrite lookup_dset_same.
      repeat split; auto. unfold Spec.equa. simpl.
      rewrite (conv_equa_den (leaves_of sub) p m); auto.
      + now apply forallb_leaves_pure.
      + apply leaves_nz. now apply leaves_ok_node in Hnz.
  Qed.

  Lemma conv_all_single {X} (f : X -> st -> res (option Z * st)) x s rs s' :
    conv_all f [x] s = Ok (rs, s') -> exists r, rs = [r] /\ f x s = Ok (r, s').
  Proof.
    simpl. destruct (f x s) as [[r s1]|]; [|discriminate]. intros H; inversion H; subst. eauto.
  Qed.

  Lemma to_t4_sound : forall t, P t.
  Proof.
    induction t as [n|c|pid o args IH] using tree_ind2; intros Hnz s r s' H Hinv Hfr.
    - (* surface *)
      simpl in H. destruct (convert_surface orig n s) as [id s1] eqn:Ec. inversion H; subst.
      exact (proj1 (convert_surface_post n s id s' Ec Hnz Hinv)).
    - (* cell reference *)
      simpl in H. exact (cref_ok c s r s' H Hinv Hfr).
    - apply leaves_ok_node in Hnz.
      pose proof (P_list args IH Hnz) as Hspec.
      cbn [Model.to_t4] in H. cbn [ids_of] in Hfr |- *.
      assert (fresh (flat_map ids_of args) s) as Hfa.
      { destruct Hfr as [Hnd Hf]. split; [now inversion Hnd|]. intros k Hk. apply Hf. now right. }
      destruct o.
      + (* intersection *)
        destruct (conv_equa (leaves_of args)) as [p m] eqn:Ec.
        destruct (conv_sel to_t4 (fun _ x => is_node x) 0 args s) as [[ids1 s1]|e] eqn:E1; [|discriminate].
        destruct (conv_sel cref (fun _ _ => true) 0 (refs_of args) s1) as [[ids2 s2]|e] eqn:E2; [|discriminate].
        inversion H; subst; clear H.
        rewrite conv_sel_select in E1.
        set (sel := select (fun (_ : nat) (x : tree Z) => is_node x) 0 args) in *.
        assert (fresh (flat_map ids_of sel) s) as Hfs.
        { destruct Hfa as [Hnd Hf]. split; [now apply NoDup_flat_select|].
          intros k Hk. apply Hf. eapply In_flat_select; eauto. }
        destruct (conv_all_post to_t4 ids_of tden sel (Forall_select _ _ _ _ Hspec) s ids1 s1 E1 Hinv Hfs)
          as (He1 & Hc1 & Hi1 & Hb1 & Hsem1).
        destruct (crefs_post _ _ _ _ E2 Hi1) as (He2 & Hc2 & Hi2 & Hb2 & Hsem2).
        apply store_post; auto.
        * eapply extends_trans; eauto.
        * lia.
        * eapply bound_trans; eauto.
          intros k Hk. destruct (Hb1 k Hk) as [Hq|[Hq|Hq]]; auto.
          right; left. eapply In_flat_select; eauto.
        * intros Hnn Hs.
          set (V := mkVol p m (mk_ops OInter (ids1 ++ ids2)) orig true) in *.
          assert (extends (vols s2) (vols (set_vol pid V s2))) as He3.
          { simpl. apply extends_dset.
            destruct (lookup pid (vols s2)) eqn:El; [|reflexivity]. exfalso.
            destruct Hfr as [Hnd Hf]. destruct (Hf pid (or_introl eq_refl)) as [Hpn Hple].
            destruct (Hb2 pid) as [Hq|[[]|Hq]]; try congruence; try lia.
            destruct (Hb1 pid Hq) as [Hq1|[Hq1|Hq1]]; try congruence; try lia.
            inversion Hnd; subst. apply H1. eapply In_flat_select; eauto. }
          pose proof (nonone_extends _ _ He3 Hnn) as Hnn2.
          destruct (Hsem1 (nonone_extends _ _ He2 Hnn2) Hs) as [Hs1 Hr1].
          destruct (Hsem2 Hnn2 Hs1) as [Hs2 Hr2].
          split; [assumption|].
          assert (Forall2 (rden (vols (set_vol pid V s2))) (ids1 ++ ids2)
                          (map tden sel ++ map cden (refs_of args))) as HF.
          { apply Forall2_app_rden.
               - eapply Forall2_rden_mono; [|exact Hr1]. eapply extends_trans; eauto.
               - eapply Forall2_rden_mono; [|exact Hr2]. exact He3. }
          assert (lookup pid (vols (set_vol pid V s2)) = Some V) as HlV
              by (simpl; apply lookup_dset_same).
          assert (equa V = forallb lit (leaves_of args)) as HeV.
          { unfold Spec.equa, V; simpl. apply conv_equa_den; auto. now apply leaves_nz. }
          cbn [rden Spec.tden]. rewrite inter_split. fold sel. rewrite <- HeV.
          apply (node_den_inter _ pid V (ids1 ++ ids2)); auto. exact (Hnn pid V HlV).
      + (* union *)
        destruct (largest args) as [k|] eqn:Elg.
        * (* around its largest pure intersection *)
          destruct (conv_sel to_t4 (fun i _ => Nat.eqb i k) 0 args s) as [[ids0 s0]|e] eqn:E0; [|discriminate].
          destruct ids0 as [|[main|] [|? ?]]; try discriminate.
          destruct (lookup main (vols s0)) as [mv|] eqn:Emv; [|discriminate].
          destruct (conv_sel to_t4 (fun i _ => negb (Nat.eqb i k)) 0 args s0) as [[ids1 s1]|e] eqn:E1; [|discriminate].
          destruct (conv_sel cref (fun _ _ => true) 0 (refs_of args) s1) as [[ids2 s2]|e] eqn:E2; [|discriminate].
          inversion H; subst; clear H.
          rewrite conv_sel_select in E0, E1.
          destruct (largest_select args k Elg) as (mt & Hsel0 & Hpure).
          set (sel0 := select (fun (i : nat) (_ : tree Z) => Nat.eqb i k) 0 args) in *.
          set (sel1 := select (fun (i : nat) (_ : tree Z) => negb (Nat.eqb i k)) 0 args) in *.
          assert (fresh (flat_map ids_of sel0) s) as Hf0.
          { destruct Hfa as [Hnd Hf]. split; [now apply NoDup_flat_select|].
            intros j Hj. apply Hf. eapply In_flat_select; eauto. }
          destruct (conv_all_post to_t4 ids_of tden sel0 (Forall_select _ _ _ _ Hspec) s _ s0 E0 Hinv Hf0)
            as (He0 & Hc0 & Hi0 & Hb0 & Hsem0).
          assert (fresh (flat_map ids_of sel1) s0) as Hf1.
          { destruct Hfa as [Hnd Hf]. split; [now apply NoDup_flat_select|].
            intros j Hj. destruct (Hf j) as [Hjn Hjle]; [eapply In_flat_select; eauto|].
            split; [|lia].
            destruct (lookup j (vols s0)) eqn:El; [|reflexivity]. exfalso.
            destruct (Hb0 j) as [Hq|[Hq|Hq]]; try congruence; try lia.
            eapply (select_disjoint ids_of (fun i _ => Nat.eqb i k) (fun i _ => negb (Nat.eqb i k)) args);
              eauto. intros i x Hix. now rewrite Hix. }
          destruct (conv_all_post to_t4 ids_of tden sel1 (Forall_select _ _ _ _ Hspec) s0 ids1 s1 E1 Hi0 Hf1)
            as (He1 & Hc1 & Hi1 & Hb1 & Hsem1).
          destruct (crefs_post _ _ _ _ E2 Hi1) as (He2 & Hc2 & Hi2 & Hb2 & Hsem2).
          assert (bound (flat_map ids_of args) s s1) as Hb01.
          { intros j Hj. destruct (Hb1 j Hj) as [Hq|[Hq|Hq]].
            - destruct (Hb0 j Hq) as [Hq0|[Hq0|Hq0]]; auto.
              right; left. eapply In_flat_select; eauto.
            - right; left. eapply In_flat_select; eauto.
            - right; right; lia. }
          apply store_post; auto.
          -- eapply extends_trans; [|exact He2]. eapply extends_trans; eauto.
          -- lia.
          -- eapply bound_trans; eauto. lia.
          -- intros Hnn Hs.
             set (V := mkVol (v_plus mv) (v_minus mv) (mk_ops OUnion (ids1 ++ ids2)) orig true) in *.
             assert (extends (vols s2) (vols (set_vol pid V s2))) as He3.
             { simpl. apply extends_dset.
               destruct (lookup pid (vols s2)) eqn:El; [|reflexivity]. exfalso.
               destruct Hfr as [Hnd Hf]. destruct (Hf pid (or_introl eq_refl)) as [Hpn Hple].
               destruct (Hb2 pid) as [Hq|[[]|Hq]]; try congruence; try lia.
               destruct (Hb01 pid Hq) as [Hq1|[Hq1|Hq1]]; try congruence; try lia.
               inversion Hnd; subst. contradiction. }
             pose proof (nonone_extends _ _ He3 Hnn) as Hnn2.
             pose proof (nonone_extends _ _ He2 Hnn2) as Hnn1.
             pose proof (nonone_extends _ _ He1 Hnn1) as Hnn0.
             destruct (Hsem0 Hnn0 Hs) as [Hs0 Hr0].
             destruct (Hsem1 Hnn1 Hs0) as [Hs1 Hr1].
             destruct (Hsem2 Hnn2 Hs1) as [Hs2 Hr2].
             split; [assumption|].
             (* the main volume is operator free and denotes the chosen member *)
             assert (equa mv = tden mt) as Hmv.
             { assert (conv_all to_t4 [mt] s = Ok ([Some main], s0)) as E0'
                   by (rewrite <- Hsel0; exact E0).
               apply conv_all_single in E0' as (r0 & Hr & Hto). inversion Hr; subst r0.
               assert (leaves_ok nz mt) as Hnzm.
               { assert (In mt args) as Hin.
                 { assert (In mt sel0) as Hin0 by (rewrite Hsel0; now left).
                   unfold sel0 in Hin0. eapply In_select; eauto. }
                 rewrite Forall_forall in Hnz. now apply Hnz. }
               destruct (to_t4_pure mt s _ s0 Hpure Hnzm Hinv Hs Hto) as (id' & v' & Hid & Hlv & Hov & Hqv).
               inversion Hid; subst id'. rewrite Hlv in Emv. now inversion Emv; subst. }
             assert (Forall2 (rden (vols (set_vol pid V s2))) (ids1 ++ ids2)
                             (map tden sel1 ++ map cden (refs_of args))) as HF.
             { apply Forall2_app_rden.
               - eapply Forall2_rden_mono; [|exact Hr1]. eapply extends_trans; eauto.
               - eapply Forall2_rden_mono; [|exact Hr2]. exact He3. }
             assert (lookup pid (vols (set_vol pid V s2)) = Some V) as HlV
                 by (simpl; apply lookup_dset_same).
             assert (equa V = tden mt) as HeV by (rewrite <- Hmv; reflexivity).
             pose proof (union_largest_den args k mt Hsel0) as Hden.
             cbn [rden Spec.tden]. rewrite Hden, <- HeV.
             apply (node_den_union _ pid V (ids1 ++ ids2)); auto. exact (Hnn pid V HlV).
        * (* on the helper planes *)
          destruct (conv_sel to_t4 (fun _ x => negb (is_ref x)) 0 args s) as [[ids1 s1]|e] eqn:E1; [|discriminate].
          destruct (conv_sel cref (fun _ _ => true) 0 (refs_of args) s1) as [[ids2 s2]|e] eqn:E2; [|discriminate].
          rewrite conv_equa_helpers in H. inversion H; subst; clear H.
          rewrite conv_sel_select in E1.
          set (sel := select (fun (_ : nat) (x : tree Z) => negb (is_ref x)) 0 args) in *.
          assert (fresh (flat_map ids_of sel) s) as Hfs.
          { destruct Hfa as [Hnd Hf]. split; [now apply NoDup_flat_select|].
            intros j Hj. apply Hf. eapply In_flat_select; eauto. }
          destruct (conv_all_post to_t4 ids_of tden sel (Forall_select _ _ _ _ Hspec) s ids1 s1 E1 Hinv Hfs)
            as (He1 & Hc1 & Hi1 & Hb1 & Hsem1).
          destruct (crefs_post _ _ _ _ E2 Hi1) as (He2 & Hc2 & Hi2 & Hb2 & Hsem2).
          apply store_post; auto.
          -- eapply extends_trans; eauto.
          -- lia.
          -- eapply bound_trans; eauto.
             intros j Hj. destruct (Hb1 j Hj) as [Hq|[Hq|Hq]]; auto.
             right; left. eapply In_flat_select; eauto.
          -- intros Hnn Hs.
             set (V := mkVol [u0] [u1] (Some (OUnion, ids1 ++ ids2)) orig true) in *.
             assert (extends (vols s2) (vols (set_vol pid V s2))) as He3.
             { simpl. apply extends_dset.
               destruct (lookup pid (vols s2)) eqn:El; [|reflexivity]. exfalso.
               destruct Hfr as [Hnd Hf]. destruct (Hf pid (or_introl eq_refl)) as [Hpn Hple].
               destruct (Hb2 pid) as [Hq|[[]|Hq]]; try congruence; try lia.
               destruct (Hb1 pid Hq) as [Hq1|[Hq1|Hq1]]; try congruence; try lia.
               inversion Hnd; subst. apply H1. eapply In_flat_select; eauto. }
             pose proof (nonone_extends _ _ He3 Hnn) as Hnn2.
             destruct (Hsem1 (nonone_extends _ _ He2 Hnn2) Hs) as [Hs1 Hr1].
             destruct (Hsem2 Hnn2 Hs1) as [Hs2 Hr2].
             split; [assumption|].
             assert (Forall2 (rden (vols (set_vol pid V s2))) (ids1 ++ ids2)
                             (map tden sel ++ map cden (refs_of args))) as HF.
             { apply Forall2_app_rden.
               - eapply Forall2_rden_mono; [|exact Hr1]. eapply extends_trans; eauto.
               - eapply Forall2_rden_mono; [|exact Hr2]. exact He3. }
             assert (lookup pid (vols (set_vol pid V s2)) = Some V) as HlV
                 by (simpl; apply lookup_dset_same).
             cbn [rden Spec.tden]. rewrite union_split. fold sel.
             replace (existsb (fun b => b) (map tden sel ++ map cden (refs_of args)))
               with (equa V || existsb (fun b => b) (map tden sel ++ map cden (refs_of args)))
               by (rewrite (helpers_empty V) by reflexivity; reflexivity).
             eapply Vden_union; [exact HlV | reflexivity |].
             apply VdenL_of_rden; [exact HF|].
             apply (ops_all_some OUnion). exact (Hnn pid V HlV).
  Qed.
End Sound.
