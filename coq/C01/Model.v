(* C01 — executable model of the Boolean half of the cell conversion:
     Kernel/Volume/CellConversion.py   pot_flag, pot_expand_surfs, pot_optimise,
                                       conv_equa, conv_union_helpers, convert_surface,
                                       convert_cellref, pot_to_t4_cell, pot_convert
     Kernel/Volume/TreeFunctions.py    largestPureIntersectionNode (+ isLeaf/isSurface/...)
     Kernel/Volume/ConstructVolumeT4.py  final loop of construct_volume_t4,
                                       remove_empty_volumes, remove_unused_volumes
     Kernel/Surface/Duplicates.py      renumber_surfaces
     Kernel/Volume/VolumeT4.py         VolumeT4 (pluses/minuses sets, ops, fictive, empty())
     Writer/WriteT4Geometry.py         the skipped_cells filter of the VOLU loop
   The model reproduces what the code DOES (id allocation, caches, order of the
   volume table, the None operand).  No proofs here. *)
From Coq Require Import List ZArith Bool.
Import ListNotations.
Open Scope Z_scope.

(* ---- results ---- *)
Inductive err := EKey | EFacet | EIndex | EFuel | EInternal.
Inductive res (A : Type) := Ok (a : A) | Err (e : err).
Arguments Ok {A}. Arguments Err {A}.

(* ---- Python dict with int keys: insertion ordered, update in place ---- *)
Definition dict (V : Type) := list (Z * V).

Fixpoint lookup {V} (k : Z) (d : dict V) : option V :=
  match d with
  | [] => None
  | (k', v) :: r => if k =? k' then Some v else lookup k r
  end.

Fixpoint dset {V} (k : Z) (v : V) (d : dict V) : dict V :=
  match d with
  | [] => [(k, v)]
  | (k', v') :: r => if k =? k' then (k, v) :: r else (k', v') :: dset k v r
  end.

Fixpoint ddel {V} (k : Z) (d : dict V) : dict V :=
  match d with
  | [] => []
  | (k', v') :: r => if k =? k' then r else (k', v') :: ddel k r
  end.

Definition keys {V} (d : dict V) : list Z := map fst d.

Fixpoint mem (x : Z) (l : list Z) : bool :=
  match l with [] => false | y :: r => (x =? y) || mem x r end.

(* ---- trees ----
   One type for the three stages; [A] is the type of a surface leaf:
     msurf  before pot_expand_surfs   (Surface(surface, sub) objects)
     Z      after  pot_expand_surfs   (signed TRIPOLI-4 surface ids)
   [Node id o args] is the Python list [id, op, *args]; before pot_flag the
   Python tuple is (op, *args) and the id field is ignored (pot_flag overwrites it). *)
Inductive op := OInter | OUnion.

Inductive tree (A : Type) :=
| Leaf (a : A)
| Ref (c : Z)                                   (* CellRef(c) *)
| Node (id : Z) (o : op) (args : list (tree A)).
Arguments Leaf {A}. Arguments Ref {A}. Arguments Node {A}.

Definition msurf := (Z * option Z)%type.        (* Surface.surface (signed), Surface.sub *)

Definition op_eqb (a b : op) : bool :=
  match a, b with OInter, OInter | OUnion, OUnion => true | _, _ => false end.

Definition is_ref {A} (t : tree A) : bool := match t with Ref _ => true | _ => false end.
Definition is_leaf {A} (t : tree A) : bool := match t with Leaf _ => true | _ => false end.
Definition is_node {A} (t : tree A) : bool := match t with Node _ _ _ => true | _ => false end.

(* ---- pot_flag: post-order numbering from the running counter ---- *)
Section MapState.
  Context {X Y S : Type} (f : X -> S -> Y * S).
  Fixpoint map_state (l : list X) (s : S) : list Y * S :=
    match l with
    | [] => ([], s)
    | x :: r => let '(y, s1) := f x s in
                let '(ys, s2) := map_state r s1 in (y :: ys, s2)
    end.
End MapState.

Fixpoint flag {A} (t : tree A) (n : Z) : tree A * Z :=
  match t with
  | Leaf a => (Leaf a, n)
  | Ref c => (Ref c, n)
  | Node _ o args =>
      let '(args', n') := map_state flag args n in
      (Node (n' + 1) o args', n' + 1)
  end.

(* ---- pot_expand_surfs ---- *)
(* Python list indexing, negative indices count from the end *)
Definition py_index {X} (l : list X) (i : Z) : option X :=
  let len := Z.of_nat (List.length l) in
  if 0 <=? i then nth_error l (Z.to_nat i)
  else if 0 <=? len + i then nth_error l (Z.to_nat (len + i)) else None.

Section MapStateRes.
  Context {X Y S : Type} (f : X -> S -> res (Y * S)).
  Fixpoint map_state_res (l : list X) (s : S) : res (list Y * S) :=
    match l with
    | [] => Ok ([], s)
    | x :: r => match f x s with
                | Err e => Err e
                | Ok (y, s1) => match map_state_res r s1 with
                                | Err e => Err e
                                | Ok (ys, s2) => Ok (y :: ys, s2)
                                end
                end
    end.
End MapStateRes.

Definition signed (s x : Z) : Z := if 0 <? s then x else - x.

Definition expand_leaf (matching : dict (list Z)) (a : msurf) (n : Z) : res (tree Z * Z) :=
  let '(s, sub) := a in
  match lookup (Z.abs s) matching with
  | None => Err EKey
  | Some ids =>
      match sub with
      | Some k =>
          if Z.of_nat (List.length ids) <? k then Err EFacet
          else match py_index ids (k - 1) with
               | None => Err EIndex
               | Some x => Ok (Leaf (signed s x), n)
               end
      | None =>
          match ids with
          | [x] => Ok (Leaf (signed s x), n)
          | _ => if s <? 0 then Ok (Node (n + 1) OInter (map (fun x => Leaf (- x)) ids), n + 1)
                 else Ok (Node (n + 1) OUnion (map (fun x => Leaf x) ids), n + 1)
          end
      end
  end.

Fixpoint expand (matching : dict (list Z)) (t : tree msurf) (n : Z) : res (tree Z * Z) :=
  match t with
  | Leaf a => expand_leaf matching a n
  | Ref c => Ok (Ref c, n)
  | Node id o args =>
      match map_state_res (expand matching) args n with
      | Err e => Err e
      | Ok (args', n') => Ok (Node id o args', n')
      end
  end.

(* ---- pot_optimise ---- *)
Fixpoint somes {X} (l : list (option X)) : list X :=
  match l with [] => [] | Some x :: r => x :: somes r | None :: r => somes r end.

Definition is_none {X} (o : option X) : bool := match o with None => true | _ => false end.

(* one level of flattening: children with the parent's operator are spliced *)
Definition splice (o : op) (node : tree Z) : list (tree Z) :=
  match node with
  | Node _ o' sub => if op_eqb o o' then sub else [node]
  | _ => [node]
  end.

Definition has_leaf (n : Z) (l : list (tree Z)) : bool :=
  existsb (fun b => match b with Leaf m => m =? n | _ => false end) l.

(* pluses & minuses non-empty *)
Definition opposite (l : list (tree Z)) : bool :=
  existsb (fun a => match a with Leaf n => (0 <? n) && has_leaf (- n) l | _ => false end) l.

Fixpoint optimise (t : tree Z) : option (tree Z) :=
  match t with
  | Node id o args =>
      let new_args := map optimise args in
      if op_eqb o OInter && existsb is_none new_args then None
      else
        let flat := flat_map (splice o) (somes new_args) in
        match o with
        | OUnion => Some (Node id o flat)
        | OInter => if opposite flat then None else Some (Node id o flat)
        end
  | _ => Some t
  end.

(* ---- TreeFunctions.largestPureIntersectionNode ---- *)
Definition pure_inter (t : tree Z) : option Z :=     (* Some (len(node)) *)
  match t with
  | Node _ OInter sub => if forallb is_leaf sub then Some (2 + Z.of_nat (List.length sub)) else None
  | _ => None
  end.

Fixpoint largest_from (l : list (tree Z)) (i : nat) (best : option nat) (blen : Z) : option nat :=
  match l with
  | [] => best
  | x :: r =>
      match x with
      | Leaf _ => if blen <? 1 then largest_from r (S i) (Some i) 1
                  else largest_from r (S i) best blen
      | _ => match pure_inter x with
             | Some len => if blen <? len then largest_from r (S i) (Some i) len
                           else largest_from r (S i) best blen
             | None => largest_from r (S i) best blen
             end
      end
  end.

Definition largest (l : list (tree Z)) : option nat := largest_from l 0%nat None 0.

(* ---- VolumeT4 and the state of CellConversion ---- *)
Record vol := mkVol {
  v_plus : list Z;                         (* set; order of first insertion kept here *)
  v_minus : list Z;
  v_ops : option (op * list (option Z));   (* ('INTE'|'UNION', ids); an id may be None *)
  v_orig : list (Z * Z);                   (* idorigin *)
  v_fict : bool }.

Record st := mkSt {
  cnt : Z;                                 (* new_cell_key *)
  vols : dict vol;                         (* dic_vol_t4 *)
  scache : dict Z;                         (* convert_surface_cache: signed surface -> id *)
  ccache : dict Z }.                       (* convert_cellref_cache (None entries = absent) *)

(* conv_equa with its [seen] set *)
Fixpoint conv_equa_from (seen l : list Z) : list Z * list Z :=
  match l with
  | [] => ([], [])
  | x :: r =>
      if mem x seen then conv_equa_from seen r
      else let '(p, m) := conv_equa_from (x :: seen) r in
           if x <? 0 then (p, (- x) :: m) else if 0 <? x then (x :: p, m) else (p, m)
  end.
Definition conv_equa (l : list Z) : list Z * list Z := conv_equa_from [] l.

Definition set_vol (k : Z) (v : vol) (s : st) : st :=
  mkSt (cnt s) (dset k v (vols s)) (scache s) (ccache s).
Definition set_cnt (n : Z) (s : st) : st := mkSt n (vols s) (scache s) (ccache s).

Definition convert_surface (orig : list (Z * Z)) (n : Z) (s : st) : Z * st :=
  match lookup n (scache s) with
  | Some id => (id, s)
  | None =>
      let id := cnt s + 1 in
      let '(p, m) := conv_equa [n] in
      (id, mkSt id (dset id (mkVol p m None orig true) (vols s)) (dset n id (scache s)) (ccache s))
  end.

Fixpoint leaves_of {A} (l : list (tree A)) : list A :=
  match l with [] => [] | Leaf a :: r => a :: leaves_of r | _ :: r => leaves_of r end.
Fixpoint refs_of {A} (l : list (tree A)) : list Z :=
  match l with [] => [] | Ref c :: r => c :: refs_of r | _ :: r => refs_of r end.

(* convert, in order, the elements of [l] selected by [sel] (position, element) *)
Section ConvSel.
  Context {X : Type} (f : X -> st -> res (option Z * st)) (sel : nat -> X -> bool).
  Fixpoint conv_sel (i : nat) (l : list X) (s : st) : res (list (option Z) * st) :=
    match l with
    | [] => Ok ([], s)
    | x :: r =>
        if sel i x then
          match f x s with
          | Err e => Err e
          | Ok (y, s1) => match conv_sel (S i) r s1 with
                          | Err e => Err e
                          | Ok (ys, s2) => Ok (y :: ys, s2)
                          end
          end
        else conv_sel (S i) r s
    end.
End ConvSel.

Definition mk_ops (o : op) (ids : list (option Z)) : option (op * list (option Z)) :=
  match ids with [] => None | _ => Some (o, ids) end.    (* conv_intersection / conv_union *)

Section ToT4.
  Variable cref : Z -> st -> res (option Z * st).     (* convert_cellref *)
  Variable orig : list (Z * Z).
  Variables u0 u1 : Z.                                (* union_ids *)

  Fixpoint to_t4 (t : tree Z) (s : st) {struct t} : res (option Z * st) :=
    match t with
    | Leaf n => let '(id, s') := convert_surface orig n s in Ok (Some id, s')
    | Ref c => cref c s
    | Node pid o args =>
        let surfs := leaves_of args in
        let crefs := refs_of args in
        match o with
        | OInter =>
            let '(p, m) := conv_equa surfs in
            match conv_sel to_t4 (fun _ x => is_node x) 0 args s with
            | Err e => Err e
            | Ok (ids1, s1) =>
                match conv_sel cref (fun _ _ => true) 0 crefs s1 with
                | Err e => Err e
                | Ok (ids2, s2) =>
                    Ok (Some pid,
                        set_vol pid (mkVol p m (mk_ops OInter (ids1 ++ ids2)) orig true) s2)
                end
            end
        | OUnion =>
            match largest args with
            | None =>
                match conv_sel to_t4 (fun _ x => negb (is_ref x)) 0 args s with
                | Err e => Err e
                | Ok (ids1, s1) =>
                    match conv_sel cref (fun _ _ => true) 0 crefs s1 with
                    | Err e => Err e
                    | Ok (ids2, s2) =>
                        let '(p, m) := conv_equa [u0; - u1] in
                        Ok (Some pid,
                            set_vol pid (mkVol p m (Some (OUnion, ids1 ++ ids2)) orig true) s2)
                    end
                end
            | Some k =>
                match conv_sel to_t4 (fun i _ => Nat.eqb i k) 0 args s with
                | Err e => Err e
                | Ok ([Some main], s0) =>
                    match lookup main (vols s0) with
                    | None => Err EKey
                    | Some mv =>
                        match conv_sel to_t4 (fun i _ => negb (Nat.eqb i k)) 0 args s0 with
                        | Err e => Err e
                        | Ok (ids1, s1) =>
                            match conv_sel cref (fun _ _ => true) 0 crefs s1 with
                            | Err e => Err e
                            | Ok (ids2, s2) =>
                                Ok (Some pid,
                                    set_vol pid (mkVol (v_plus mv) (v_minus mv)
                                                       (mk_ops OUnion (ids1 ++ ids2)) orig true) s2)
                            end
                        end
                    end
                | Ok _ => Err EInternal
                end
            end
        end
    end.
End ToT4.

(* ---- pot_convert / convert_cellref ---- *)
Definition cell := (tree msurf * list (Z * Z))%type.   (* geometry, idorigin *)

Definition pot_convert (cref : Z -> st -> res (option Z * st)) (matching : dict (list Z))
           (u0 u1 : Z) (c : cell) (s : st) : res (option Z * st) :=
  let '(g, orig) := c in
  let '(t1, n1) := flag g (cnt s) in
  match expand matching t1 n1 with
  | Err e => Err e
  | Ok (t2, n2) =>
      let s' := set_cnt n2 s in
      match optimise t2 with
      | None => Ok (None, s')
      | Some t3 => to_t4 cref orig u0 u1 t3 s'
      end
  end.

(* recursion through cell references: explicit fuel (Python recurses; a cyclic
   reference is a RecursionError there) *)
Fixpoint convert_cellref (fuel : nat) (cells : dict cell) (matching : dict (list Z))
         (u0 u1 : Z) (c : Z) (s : st) : res (option Z * st) :=
  match lookup c (ccache s) with
  | Some id => Ok (Some id, s)
  | None =>
      match fuel with
      | O => Err EFuel
      | S f =>
          match lookup c cells with
          | None => Err EKey
          | Some cl =>
              match pot_convert (convert_cellref f cells matching u0 u1) matching u0 u1 cl s with
              | Err e => Err e
              | Ok (Some id, s') =>
                  Ok (Some id, mkSt (cnt s') (vols s') (scache s') (dset c id (ccache s')))
              | Ok (None, s') =>
                  (* the referenced cell is empty: a patently empty stand-in volume
                     (PLUS u0 MINUS u0), cached like any other reference *)
                  let id := cnt s' + 1 in
                  Ok (Some id, mkSt id (dset id (mkVol [u0] [u0] None (snd cl) true) (vols s'))
                                    (scache s') (dset c id (ccache s')))
              end
          end
      end
  end.

(* ---- final loop of construct_volume_t4 ----
   for key, val in conv_keys: j = pot_convert(val); if j is None: continue
       dic_vol_t4[key] = dic_vol_t4[j].copy(); dic_vol_t4[key].fictive = False *)
Definition unfict (v : vol) : vol := mkVol (v_plus v) (v_minus v) (v_ops v) (v_orig v) false.

Fixpoint convert_cells (fuel : nat) (cells : dict cell) (matching : dict (list Z)) (u0 u1 : Z)
         (todo : list Z) (s : st) : res st :=
  match todo with
  | [] => Ok s
  | key :: r =>
      match lookup key cells with
      | None => Err EKey
      | Some cl =>
          match pot_convert (convert_cellref fuel cells matching u0 u1) matching u0 u1 cl s with
          | Err e => Err e
          | Ok (None, s1) => convert_cells fuel cells matching u0 u1 r s1
          | Ok (Some j, s1) =>
              match lookup j (vols s1) with
              | None => Err EKey
              | Some v => convert_cells fuel cells matching u0 u1 r (set_vol key (unfict v) s1)
              end
          end
      end
  end.

(* ---- Duplicates.renumber_surfaces ---- *)
Fixpoint map_opt {X Y} (f : X -> option Y) (l : list X) : option (list Y) :=
  match l with
  | [] => Some []
  | x :: r => match f x, map_opt f r with Some y, Some ys => Some (y :: ys) | _, _ => None end
  end.

Fixpoint dedup (l : list Z) : list Z :=
  match l with [] => [] | x :: r => if mem x r then dedup r else x :: dedup r end.

Fixpoint renumber (rn : dict Z) (d : dict vol) : res (dict vol) :=
  match d with
  | [] => Ok []
  | (k, v) :: r =>
      match map_opt (fun x => lookup x rn) (v_plus v), map_opt (fun x => lookup x rn) (v_minus v),
            renumber rn r with
      | Some p, Some m, Ok r' => Ok ((k, mkVol (dedup p) (dedup m) (v_ops v) (v_orig v) (v_fict v)) :: r')
      | _, _, Err e => Err e
      | _, _, _ => Err EKey
      end
  end.

(* ---- remove_empty_volumes ---- *)
Definition vempty (v : vol) : bool := existsb (fun p => mem p (v_minus v)) (v_plus v).

Definition is_union_ops (o : option (op * list (option Z))) : bool :=
  match o with Some (OUnion, _) => true | _ => false end.

(* the [for key in to_remove] loop: returns the table and the keys deleted *)
Fixpoint empty_step (u0 u1 : Z) (todo : list Z) (d : dict vol) : dict vol * list Z :=
  match todo with
  | [] => (d, [])
  | key :: r =>
      match lookup key d with
      | None => empty_step u0 u1 r d           (* cannot happen: keys are distinct *)
      | Some v =>
          if is_union_ops (v_ops v) then
            empty_step u0 u1 r (dset key (mkVol [u0] [u1] (v_ops v) (v_orig v) (v_fict v)) d)
          else
            let '(d', rem) := empty_step u0 u1 r (ddel key d) in (d', key :: rem)
      end
  end.

Definition in_removed (removed : list Z) (x : option Z) : bool :=
  match x with Some k => mem k removed | None => false end.

(* the scan that rebuilds [to_remove] and filters UNION operands *)
Fixpoint empty_scan (removed : list Z) (d : dict vol) : dict vol * list Z :=
  match d with
  | [] => ([], [])
  | (k, v) :: r =>
      let '(r', todo) := empty_scan removed r in
      match v_ops v with
      | None => ((k, v) :: r', todo)
      | Some (OInter, ids) =>
          if existsb (in_removed removed) ids then ((k, v) :: r', k :: todo)
          else ((k, v) :: r', todo)
      | Some (OUnion, ids) =>
          let ids' := filter (fun x => negb (in_removed removed x)) ids in
          ((k, mkVol (v_plus v) (v_minus v) (mk_ops OUnion ids') (v_orig v) (v_fict v)) :: r', todo)
      end
  end.

Fixpoint empty_loop (fuel : nat) (u0 u1 : Z) (todo removed : list Z) (d : dict vol) : dict vol :=
  match todo with
  | [] => d
  | _ =>
      match fuel with
      | O => d
      | S f =>
          let '(d1, now) := empty_step u0 u1 todo d in
          let removed' := now ++ removed in
          let '(d2, todo') := empty_scan removed' d1 in
          empty_loop f u0 u1 todo' removed' d2
      end
  end.

Definition remove_empty (u0 u1 : Z) (d : dict vol) : dict vol :=
  let todo := map fst (filter (fun kv => vempty (snd kv)) d) in
  empty_loop (S (S (List.length d))) u0 u1 todo [] d.

(* ---- remove_unused_volumes ---- *)
Definition used_ids (d : dict vol) : list Z :=
  flat_map (fun kv => match v_ops (snd kv) with Some (_, ids) => somes ids | None => [] end) d.

Definition remove_unused (d : dict vol) : dict vol :=
  let used := used_ids d in
  filter (fun kv => negb (v_fict (snd kv) && negb (mem (fst kv) used))) d.

(* ---- the writer's VOLU loop ---- *)
Definition written (skipped : list Z) (d : dict vol) : dict vol :=
  filter (fun kv => negb (mem (fst kv) skipped)) d.

(* ---- convertMCNPGeometry after construct_volume_t4: the de-duplication
   renumbers the volumes AND the helper planes, then the two pruning passes ---- *)
Definition prune (u0 u1 : Z) (rn : option (dict Z)) (d : dict vol) : res (dict vol) :=
  match rn with
  | None => Ok (remove_unused (remove_empty u0 u1 d))
  | Some r =>
      match renumber r d with
      | Err e => Err e
      | Ok d' =>
          match lookup u0 r, lookup u1 r with
          | Some v0, Some v1 => Ok (remove_unused (remove_empty v0 v1 d'))
          | _, _ => Err EKey
          end
      end
  end.

(* ---- whole Boolean pipeline ---- *)
Definition pipeline (fuel : nat) (cells : dict cell) (matching : dict (list Z)) (u0 u1 : Z)
           (todo : list Z) (cnt0 : Z) (rn : option (dict Z)) : res (st * dict vol) :=
  match convert_cells fuel cells matching u0 u1 todo (mkSt cnt0 [] [] []) with
  | Err e => Err e
  | Ok s =>
      match prune u0 u1 rn (vols s) with
      | Err e => Err e
      | Ok d => Ok (s, d)
      end
  end.
