(* C01 — the three tree rewrites preserve the denotation. *)
From Coq Require Import List ZArith Bool Lia.
From T4V Require Import C01.Model C01.Spec.
Import ListNotations.
Open Scope Z_scope.

(* induction principle for the nested list recursion *)
Lemma tree_ind2 {A} (P : tree A -> Prop) :
  (forall a, P (Leaf a)) -> (forall c, P (Ref c)) ->
  (forall id o args, Forall P args -> P (Node id o args)) -> forall t, P t.
Proof.
  intros HL HR HN. fix IH 1. intros [a|c|id o args].
  - apply HL.
  - apply HR.
  - apply HN. induction args as [|x r IHr]; constructor; [apply IH | apply IHr].
Qed.

Lemma forallb_map_id {X} (f : X -> bool) l : forallb f l = forallb (fun b => b) (map f l).
Proof. induction l as [|x r IH]; simpl; [reflexivity | now rewrite IH]. Qed.
Lemma existsb_map_id {X} (f : X -> bool) l : existsb f l = existsb (fun b => b) (map f l).
Proof. induction l as [|x r IH]; simpl; [reflexivity | now rewrite IH]. Qed.

Section Sigma.
  Variable sigma : Z -> bool.
  Variable cden : Z -> bool.
  Notation lit := (lit sigma).
  Notation tden := (tden sigma cden).
  Notation mden := (mden sigma cden).

  Lemma lit_opp x : x <> 0 -> lit (- x) = negb (lit x).
  Proof.
    intros Hx. unfold Spec.lit.
    destruct (0 <? x) eqn:E1; destruct (0 <? - x) eqn:E2; try lia.
    - now rewrite Z.opp_involutive.
    - now rewrite negb_involutive.
  Qed.

  (* ---- pot_flag ---- *)
  Lemma flag_den_list {A} (den : tree A -> bool) (args : list (tree A)) :
    Forall (fun x => forall n, den (fst (flag x n)) = den x) args ->
    forall n, map den (fst (map_state flag args n)) = map den args.
  Proof.
    induction 1 as [|x r Hx Hr IH]; intros n; simpl; [reflexivity|].
    specialize (Hx n). destruct (flag x n) as [x' n1] eqn:Ex.
    specialize (IH n1). destruct (map_state flag r n1) as [r' n2] eqn:Er.
    simpl in *. now rewrite Hx, IH.
  Qed.

  Lemma flag_den matching (t : tree msurf) n : mden matching (fst (flag t n)) = mden matching t.
  Proof.
    revert n. induction t as [a|c|id o args IH] using tree_ind2; intros n; try reflexivity.
    simpl. pose proof (flag_den_list (mden matching) args IH n) as H.
    destruct (map_state flag args n) as [args' n'] eqn:E. simpl in *.
    destruct o; [rewrite (forallb_map_id _ args'), (forallb_map_id _ args)
                | rewrite (existsb_map_id _ args'), (existsb_map_id _ args)]; now rewrite H.
  Qed.

  Lemma flag_tden (t : tree Z) n : tden (fst (flag t n)) = tden t.
  Proof.
    revert n. induction t as [a|c|id o args IH] using tree_ind2; intros n; try reflexivity.
    simpl. pose proof (flag_den_list tden args IH n) as H.
    destruct (map_state flag args n) as [args' n'] eqn:E. simpl in *.
    destruct o; [rewrite (forallb_map_id _ args'), (forallb_map_id _ args)
                | rewrite (existsb_map_id _ args'), (existsb_map_id _ args)]; now rewrite H.
  Qed.

  (* ---- pot_expand_surfs ---- *)
  (* hypotheses on the surface leaves: non-zero ids on both sides, facet
     numbers from 1 (s.0 selects the LAST facet in the code: Python index -1) *)
  Definition msurf_ok (matching : dict (list Z)) (a : msurf) : Prop :=
    fst a <> 0 /\
    (forall ids, lookup (Z.abs (fst a)) matching = Some ids -> Forall (fun x => x <> 0) ids) /\
    (forall k, snd a = Some k -> 1 <= k).

  Fixpoint leaves_ok {A} (P : A -> Prop) (t : tree A) : Prop :=
    match t with
    | Leaf a => P a
    | Ref _ => True
    | Node _ _ args => (fix go l := match l with [] => True | x :: r => leaves_ok P x /\ go r end) args
    end.

  Lemma leaves_ok_node {A} (P : A -> Prop) id o (args : list (tree A)) :
    leaves_ok P (Node id o args) <-> Forall (leaves_ok P) args.
  Proof.
    simpl. induction args as [|x r IH].
    - split; intros; [constructor | exact I].
    - split; intros H.
      + destruct H as [H1 H2]. constructor; [exact H1 | now apply IH].
      + inversion H; subst. split; [assumption | now apply IH].
  Qed.

  Lemma signed_lit s x : s <> 0 -> x <> 0 ->
    lit (signed s x) = if 0 <? s then lit x else negb (lit x).
  Proof.
    intros Hs Hx. unfold signed. destruct (0 <? s); [reflexivity | now apply lit_opp].
  Qed.

  Lemma forallb_lit_opp ids : Forall (fun x => x <> 0) ids ->
    forallb tden (map (fun x => Leaf (- x)) ids) = negb (existsb lit ids).
  Proof.
    induction 1 as [|x r Hx Hr IH]; simpl; [reflexivity|].
    rewrite IH, lit_opp by assumption. now rewrite negb_orb.
  Qed.

  Lemma existsb_lit_leaf ids : existsb tden (map (fun x => Leaf x) ids) = existsb lit ids.
  Proof. induction ids as [|x r IH]; simpl; [reflexivity | now rewrite IH]. Qed.

  Lemma expand_leaf_den matching a n t' n' :
    expand_leaf matching a n = Ok (t', n') -> msurf_ok matching a ->
    tden t' = msense sigma matching a.
  Proof.
    destruct a as [s sub]. unfold expand_leaf, msense, msurf_ok. simpl fst; simpl snd.
    intros H (Hs & Hids & Hk).
    destruct (lookup (Z.abs s) matching) as [ids|] eqn:El; [|discriminate].
    specialize (Hids ids eq_refl).
    destruct sub as [k|].
    - specialize (Hk k eq_refl).
      destruct (Z.of_nat (length ids) <? k) eqn:Ek; [discriminate|].
      unfold py_index in H. destruct (0 <=? k - 1) eqn:E0; [|lia].
      destruct (nth_error ids (Z.to_nat (k - 1))) as [x|] eqn:En; [|discriminate].
      inversion H; subst. simpl.
      assert (x <> 0) as Hx.
      { apply nth_error_In in En. rewrite Forall_forall in Hids. now apply Hids. }
      now apply signed_lit.
    - destruct ids as [|x [|y r]].
      + destruct (s <? 0) eqn:E; inversion H; subst; simpl;
          destruct (0 <? s) eqn:E2; try reflexivity; lia.
      + inversion H; subst. simpl. rewrite orb_false_r.
        inversion Hids; subst. now apply signed_lit.
      + destruct (s <? 0) eqn:E; inversion H; subst.
        * pose proof (forallb_lit_opp (x :: y :: r) Hids) as HH.
          cbn [Spec.tden map] in HH |- *. rewrite HH.
          destruct (0 <? s) eqn:E2; [lia | reflexivity].
        * pose proof (existsb_lit_leaf (x :: y :: r)) as HH.
          cbn [Spec.tden map] in HH |- *. rewrite HH.
          destruct (0 <? s) eqn:E2; [reflexivity | lia].
  Qed.

  Lemma expand_den_list matching (args : list (tree msurf)) :
    Forall (fun x => forall n t' n', expand matching x n = Ok (t', n') ->
                     leaves_ok (msurf_ok matching) x -> tden t' = mden matching x) args ->
    forall n args' n', map_state_res (expand matching) args n = Ok (args', n') ->
    Forall (leaves_ok (msurf_ok matching)) args ->
    map tden args' = map (mden matching) args.
  Proof.
    induction 1 as [|x r Hx Hr IH]; intros n args' n' H Hok; simpl in H.
    - inversion H; reflexivity.
    - inversion Hok; subst.
      destruct (expand matching x n) as [[x' n1]|] eqn:Ex; [|discriminate].
      destruct (map_state_res (expand matching) r n1) as [[r' n2]|] eqn:Er; [|discriminate].
      inversion H; subst. simpl. erewrite Hx, IH; eauto.
  Qed.

  Lemma expand_den matching (t : tree msurf) : forall n t' n',
    expand matching t n = Ok (t', n') -> leaves_ok (msurf_ok matching) t ->
    tden t' = mden matching t.
  Proof.
    induction t as [a|c|id o args IH] using tree_ind2; intros n t' n' H Hok.
    - simpl in H. eapply expand_leaf_den; eauto.
    - simpl in H. inversion H; reflexivity.
    - simpl in H.
      destruct (map_state_res (expand matching) args n) as [[args' n1]|] eqn:E; [|discriminate].
      inversion H; subst. apply leaves_ok_node in Hok.
      pose proof (expand_den_list matching args IH n args' n' E Hok) as Hm.
      cbn [Spec.tden Spec.mden].
      destruct o; [rewrite (forallb_map_id _ args'), (forallb_map_id _ args)
                  | rewrite (existsb_map_id _ args'), (existsb_map_id _ args)]; now rewrite Hm.
  Qed.

  (* ---- pot_optimise ---- *)
  Lemma splice_inter node : forallb tden (splice OInter node) = tden node.
  Proof.
    destruct node as [a|c|id [|] sub]; simpl; try now rewrite andb_true_r.
    reflexivity.
  Qed.
  Lemma splice_union node : existsb tden (splice OUnion node) = tden node.
  Proof.
    destruct node as [a|c|id [|] sub]; simpl; try now rewrite orb_false_r.
    reflexivity.
  Qed.

  Lemma forallb_flat_splice l :
    forallb tden (flat_map (splice OInter) l) = forallb tden l.
  Proof.
    induction l as [|x r IH]; simpl; [reflexivity|].
    now rewrite forallb_app, splice_inter, IH.
  Qed.
  Lemma existsb_flat_splice l :
    existsb tden (flat_map (splice OUnion) l) = existsb tden l.
  Proof.
    induction l as [|x r IH]; simpl; [reflexivity|].
    now rewrite existsb_app, splice_union, IH.
  Qed.

  Definition opt_ok (t : tree Z) : Prop :=
    (forall t', optimise t = Some t' -> tden t' = tden t) /\
    (optimise t = None -> tden t = false).

  Lemma somes_forallb args : Forall opt_ok args ->
    existsb is_none (map optimise args) = false ->
    forallb tden (somes (map optimise args)) = forallb tden args.
  Proof.
    induction 1 as [|x r [Hs Hn] Hr IH]; simpl; intros He; [reflexivity|].
    destruct (optimise x) as [x'|] eqn:Ex; simpl in He; [|discriminate].
    simpl. rewrite (Hs x' eq_refl), IH; auto.
  Qed.

  Lemma nones_forallb args : Forall opt_ok args ->
    existsb is_none (map optimise args) = true -> forallb tden args = false.
  Proof.
    induction 1 as [|x r [Hs Hn] Hr IH]; simpl; intros He; [discriminate|].
    destruct (optimise x) as [x'|] eqn:Ex; simpl in He.
    - rewrite IH by assumption. apply andb_false_r.
    - now rewrite Hn.
  Qed.

  Lemma somes_existsb args : Forall opt_ok args ->
    existsb tden (somes (map optimise args)) = existsb tden args.
  Proof.
    induction 1 as [|x r [Hs Hn] Hr IH]; simpl; [reflexivity|].
    destruct (optimise x) as [x'|] eqn:Ex; simpl.
    - now rewrite (Hs x' eq_refl), IH.
    - now rewrite Hn, IH.
  Qed.

  Lemma has_leaf_in n l : has_leaf n l = true -> In (Leaf n) l.
  Proof.
    unfold has_leaf. rewrite existsb_exists. intros ([m|c|i o s] & Hin & Hm); try discriminate.
    apply Z.eqb_eq in Hm. now subst.
  Qed.

  Lemma opposite_false l : opposite l = true -> forallb tden l = false.
  Proof.
    unfold opposite. rewrite existsb_exists.
    intros ([n|c|i o s] & Hin & Hn); try discriminate.
    apply andb_true_iff in Hn as [Hpos Hneg]. apply has_leaf_in in Hneg.
    apply Z.ltb_lt in Hpos.
    destruct (forallb tden l) eqn:Ef; [|reflexivity].
    rewrite forallb_forall in Ef.
    pose proof (Ef _ Hin) as H1. pose proof (Ef _ Hneg) as H2. simpl in H1, H2.
    rewrite lit_opp in H2 by lia. rewrite H1 in H2. discriminate.
  Qed.

  Lemma optimise_den t : opt_ok t.
  Proof.
    induction t as [a|c|id o args IH] using tree_ind2.
    - split; simpl; [intros t' H; now inversion H | discriminate].
    - split; simpl; [intros t' H; now inversion H | discriminate].
    - unfold opt_ok. cbn [optimise]. destruct o.
      + cbn [op_eqb andb].
        destruct (existsb is_none (map optimise args)) eqn:En.
        * split; [discriminate | intros _; cbn [Spec.tden]; now apply nones_forallb].
        * destruct (opposite (flat_map (splice OInter) (somes (map optimise args)))) eqn:Eo.
          -- split; [discriminate|]. intros _. cbn [Spec.tden].
             apply opposite_false in Eo. rewrite forallb_flat_splice in Eo.
             now rewrite <- somes_forallb.
          -- split; [|discriminate]. intros t' H; inversion H; subst. cbn [Spec.tden].
             rewrite forallb_flat_splice. now apply somes_forallb.
      + cbn [op_eqb andb]. split; [|discriminate].
        intros t' H; inversion H; subst. cbn [Spec.tden].
        rewrite existsb_flat_splice. now apply somes_existsb.
  Qed.
End Sigma.
