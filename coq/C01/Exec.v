(* C01 — comparison functions used by the generated correspondence files. *)
From Coq Require Import List ZArith Bool.
From T4V Require Import Base.Cases C01.Model C01.Printer.
Import ListNotations.
Open Scope Z_scope.

Definition canon_dict (d : dict Z) : dict Z := isort (fun a b => fst a <=? fst b) d.

(* canonical volume: sorted PLUS, sorted MINUS, operator + operands in order,
   idorigin, FICTIVE *)
Definition cvol := (list Z * list Z * option (op * list (option Z)) * list (Z * Z) * bool)%type.

Definition cvol_of (v : vol) : cvol :=
  (canon (v_plus v), canon (v_minus v), v_ops v, v_orig v, v_fict v).

Definition zz_eqb (a b : Z * Z) : bool := (fst a =? fst b) && (snd a =? snd b).

Definition ops_eqb (a b : option (op * list (option Z))) : bool :=
  option_eqb (fun x y => op_eqb (fst x) (fst y)
                         && list_eqb (option_eqb Z.eqb) (snd x) (snd y)) a b.

Definition cvol_eqb (a b : cvol) : bool :=
  let '(p1, m1, o1, g1, f1) := a in
  let '(p2, m2, o2, g2, f2) := b in
  list_eqb Z.eqb p1 p2 && list_eqb Z.eqb m1 m2 && ops_eqb o1 o2
  && list_eqb zz_eqb g1 g2 && Bool.eqb f1 f2.

Definition table_eqb (a b : list (Z * cvol)) : bool :=
  list_eqb (fun x y => (fst x =? fst y) && cvol_eqb (snd x) (snd y)) a b.

Definition ctable (d : dict vol) : list (Z * cvol) := map (fun kv => (fst kv, cvol_of (snd kv))) d.

Definition err_eqb (a b : err) : bool :=
  match a, b with
  | EKey, EKey | EFacet, EFacet | EIndex, EIndex | EFuel, EFuel | EInternal, EInternal => true
  | _, _ => false
  end.

(* what was observed on the implementation *)
Inductive observed :=
| OErr (e : err)
| OOk (cnt : option Z)                   (* new_cell_key after the conversion loop; None
                                            when the attribute could not be read *)
      (before : list (Z * cvol))         (* dic_vol_t4 after construct_volume_t4's loop *)
      (sc cc : option (list (Z * Z)))    (* the two caches, sorted by key; None when the
                                            cache attributes could not be read *)
      (final : list (Z * cvol))          (* after renumber/remove_empty/remove_unused *)
      (file : option (list (Z * cvol)))  (* what the writer emits (skipped cells dropped);
                                            None when the writer was not run *)
      (lines : option (list (list tok))). (* the VOLU lines as printed, token by token *)

(* one case = a whole run of the Boolean pipeline *)
Definition case :=
  (dict cell * dict (list Z) * (Z * Z) * list Z * Z * option (dict Z) * list Z * observed)%type.

(* an observation that could not be made (None) is not compared *)
Definition opt_cmp (a b : option (list (Z * Z))) : bool :=
  match a, b with
  | _, None => true
  | Some x, Some y => list_eqb zz_eqb x y
  | None, Some _ => false
  end.

(* the model's own answer, for replays *)
Definition run_case (c : case) :=
  let '(cells, matching, (u0, u1), todo, cnt0, rn, skipped, obs) := c in
  let fuel := S (List.length cells) in
  match convert_cells fuel cells matching u0 u1 todo (mkSt cnt0 [] [] []) with
  | Err e => OErr e
  | Ok s =>
      match prune u0 u1 rn (vols s) with
      | Err e => OErr e
      | Ok fin =>
          OOk (Some (cnt s)) (ctable (vols s)) (Some (canon_dict (scache s))) (Some (canon_dict (ccache s)))
              (ctable fin) (Some (ctable (written skipped fin))) (Some (print_table skipped fin))
      end
  end.

Definition check_case (c : case) : bool :=
  match run_case c, snd c with
  | OErr e, OErr e' => err_eqb e e'
  | OOk n1 b1 sc1 cc1 f1 w1 l1, OOk n2 b2 sc2 cc2 f2 w2 l2 =>
      match n1, n2 with _, None => true | Some x, Some y => x =? y | None, Some _ => false end
      && table_eqb b1 b2 && opt_cmp sc1 sc2 && opt_cmp cc1 cc2
      && table_eqb f1 f2
      && match w1, w2 with
         | _, None => true
         | Some a, Some b => table_eqb a b
         | None, Some _ => false
         end
      && match l1, l2 with
         | _, None => true
         | Some a, Some b => list_eqb (list_eqb tok_eqb) a b
         | None, Some _ => false
         end
  | _, _ => false
  end.
