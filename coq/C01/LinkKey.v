(* C01 <- C05: the container itself is never in the conversion list (it keeps its
   FILL through the TRCL loop, the FILL loop and inline_cells), which removes the
   hypothesis [~ In key todo] of the sharpened FILL theorem. *)
From Coq Require Import List ZArith Bool Lia.
From T4V Require C05.Model C05.Spec C05.Proofs.
From T4V Require Import C01.Model C01.Spec C01.Printer C01.PrinterC C01.ProofsCells C01.ProofsPrune
     C01.LinkC05 C01.LinkFill2 C01.LinkNode.
Import ListNotations.
Open Scope Z_scope.

Lemma container_keeps_fill :
  forall (T surf P : Type) (tr_empty : T -> bool) (teqb : T -> T -> bool)
         (tr_surf : T -> surf -> surf) (inv : T -> P -> P) (sense : surf -> P -> bool),
  (forall t o p, sense (tr_surf t o) p = sense o (inv t p)) ->
  (forall a b, teqb a b = true -> tr_empty a = tr_empty b /\ forall p, inv a p = inv b p) ->
  forall fuel5 cf ifd ifg num den (s0 s1 s2 : M5.state T surf) rs cells3,
  P5.fresh_ok T surf s0 -> M5.s_cache s0 = [] -> NoDup (map fst (M5.s_cells s0)) ->
  P5.all_ref_free T surf s0 ->
  (forall c cl, M5.dget c (M5.s_cells s0) = Some cl -> M5.c_orig cl = []) ->
  M5.trcl_phase T surf tr_empty teqb tr_surf fuel5 (map fst (M5.s_cells s0)) s0 = M5.Ok s1 ->
  M5.fill_phase T surf tr_empty teqb tr_surf fuel5 cf ifd ifg s1 = M5.Ok (rs, s2) ->
  M5.inline_cells T fuel5 num den (M5.s_cells s2) = M5.Ok cells3 ->
  forall k cl, M5.dget k (M5.s_cells s0) = Some cl ->
  exists g, M5.dget k cells3 = Some (M5.with_geom cl g).
Proof.
  intros T surf P tr_empty teqb tr_surf inv sense Hsense Hkey fuel5 cf ifd ifg num den s0 s1 s2 rs cells3
         Hf Hc Hnd Hrf Ho Ht Hfill Hinl k cl Hk.
  destruct (P5.trcl_phase_Moved T surf P tr_empty teqb tr_surf inv sense Hsense Hkey fuel5 s0 s1 Hf Hc Hnd Hrf Ht)
    as (HM & Hf1 & Hc1 & Hsk).
  assert (Ho1 : forall c cl1, M5.dget c (M5.s_cells s1) = Some cl1 -> M5.c_orig cl1 = []).
  { intros c cl1 Hk1. destruct (P5.Moved_back T surf P tr_empty inv sense _ _ _ _ HM Hk1) as (cl0 & g' & Hcl & ->).
    cbn [M5.with_geom M5.c_orig]. exact (Ho _ _ Hcl). }
  destruct (proj1 HM k cl Hk) as (g1 & Hg1 & _).
  destruct (P5.fill_phase_spec T surf P tr_empty teqb tr_surf inv sense Hsense Hkey
              fuel5 cf ifd ifg s1 rs s2 Hf1 Hc1 Ho1 Hfill) as ([Hx _] & _ & _).
  pose proof (Hx _ _ Hg1) as H2.
  destruct (P5.inline_cells_fields T fuel5 num den _ _ Hinl k _ H2) as (g3 & Hg3).
  exists g3. rewrite Hg3. destruct cl; reflexivity.
Qed.

Theorem partition_fill_written_linked3 :
  forall (T surf P : Type) (tr_empty : T -> bool) (teqb : T -> T -> bool)
         (tr_surf : T -> surf -> surf) (inv : T -> P -> P) (sense : surf -> P -> bool)
         (Hsense : forall t o p, sense (tr_surf t o) p = sense o (inv t p))
         (Hkey : forall a b, teqb a b = true -> tr_empty a = tr_empty b /\ forall p, inv a p = inv b p)
         fuel5 cf ifd ifg num den (s0 s1 s2 : M5.state T surf) rs cells3
         (Hf : P5.fresh_ok T surf s0) (Hc : M5.s_cache s0 = []) (Hnd : NoDup (map fst (M5.s_cells s0)))
         (Hrf : P5.all_ref_free T surf s0)
         (Ho : forall c cl, M5.dget c (M5.s_cells s0) = Some cl -> M5.c_orig cl = [])
         (Ht : M5.trcl_phase T surf tr_empty teqb tr_surf fuel5 (map fst (M5.s_cells s0)) s0 = M5.Ok s1)
         (Hfill : M5.fill_phase T surf tr_empty teqb tr_surf fuel5 cf ifd ifg s1 = M5.Ok (rs, s2))
         (Hinl : M5.inline_cells T fuel5 num den (M5.s_cells s2) = M5.Ok cells3),
  let s3 := P5.set_cells T surf s2 cells3 in
  let du := M5.by_universe (M5.s_cells s0) in
  forall (key : Z) (ks : list Z) (kcl : M5.cell T) (p : P) (ch : list Z)
         sigma matching val u0 u1 fuel todo cnt0 s' rn skipped d',
  In (key, ks) (combine (M5.fill_keys (M5.s_cells s0)) rs) ->
  M5.dget key (M5.s_cells s0) = Some kcl ->
  S5.LocW T surf P tr_empty inv sense s0 du key p ch true ->
  S5.universe_partitionW T surf P tr_empty inv sense s0 du ->
  (forall chs ch', S5.Paths T surf s0 du key chs -> In ch' chs ->
     exists b', S5.LocW T surf P tr_empty inv sense s0 du key p ch' b') ->
  (forall k o, M5.dget k (M5.s_surfs s3) = Some o ->
     k <> 0 /\ exists ids, lookup k matching = Some ids /\ existsb (Spec.lit sigma) ids = sense o p) ->
  (forall k ids, lookup k matching = Some ids -> Forall (fun x => x <> 0) ids) ->
  (forall c cl, M5.dget c (M5.s_cells s3) = Some cl ->
     S5.Den T surf P sense s3 p (M5.c_geom cl) (val c)) ->
  0 < u0 -> 0 < u1 -> Spec.consistent sigma u0 u1 ->
  NoDup todo -> (forall k, In k todo -> k <= cnt0) ->
  (forall k, In k todo <-> exists cl, M5.dget k cells3 = Some cl /\ M5.c_imp cl <> 0 /\
                                      M5.c_univ cl = 0 /\ M5.c_fill cl = None) ->
  convert_cells fuel (cells_of5 (M5.s_cells s3)) matching u0 u1 todo (mkSt cnt0 [] [] []) = Ok s' ->
  prune u0 u1 rn (vols s') = Ok d' ->
  (forall r, rn = Some r -> ProofsPrune.respects sigma r) ->
  (forall k, In k skipped -> k <= cnt0 /\ ~ In k todo) ->
  (forall k', In k' todo ->
     (exists cl, M5.dget k' (M5.s_cells s0) = Some cl /\ M5.c_univ cl = 0) \/
     (exists key' ks', In (key', ks') (combine (M5.fill_keys (M5.s_cells s0)) rs) /\ In k' ks')) ->
  (forall c cl, M5.dget c (M5.s_cells s0) = Some cl -> M5.c_univ cl = 0 -> c <> key -> val c = false) ->
  exists k, In k ks /\
    S5.RepresentsW T surf P tr_empty inv sense s0 du s3 key k ch /\
    (In k todo <-> M5.c_imp kcl <> 0) /\
    exists Tb, PrinterC.read_table_c (PrinterC.print_table_c skipped d') = Some Tb /\
      (M5.c_imp kcl <> 0 ->
         (forall j, ProofsCells.in_volume sigma Tb j <-> j = k) /\
         exists v, lookup k Tb = Some v /\ v_fict v = false /\ v_orig v = S5.prov ch) /\
      (M5.c_imp kcl = 0 -> forall j, ~ ProofsCells.in_volume sigma Tb j).
Proof.
  intros T surf P tr_empty teqb tr_surf inv sense Hsense Hkey fuel5 cf ifd ifg num den s0 s1 s2 rs cells3
         Hf Hc Hnd Hrf Ho Ht Hfill Hinl s3 du key ks kcl p ch sigma matching val u0 u1 fuel todo cnt0 s' rn
         skipped d' Hin Hkcl Hloc Hpart Hvalued Hsurf Hwf Hval H0 H1 Hcons Hndt Hle Htodo Hrun Hpr Hresp Hskip
         Hkinds Hlevel0.
  apply (partition_fill_written_linked2 T surf P tr_empty teqb tr_surf inv sense Hsense Hkey
           fuel5 cf ifd ifg num den s0 s1 s2 rs cells3 Hf Hc Hnd Hrf Ho Ht Hfill Hinl key ks kcl p ch
           sigma matching val u0 u1 fuel todo cnt0 s' rn skipped d' Hin Hkcl Hloc Hpart Hvalued Hsurf Hwf Hval
           H0 H1 Hcons Hndt Hle Htodo Hrun Hpr Hresp Hskip Hkinds Hlevel0).
  (* the container keeps its FILL, so conv_keys does not select it *)
  intros Hkt. apply Htodo in Hkt as (cl & Hd & _ & _ & Hfl).
  destruct (container_keeps_fill T surf P tr_empty teqb tr_surf inv sense Hsense Hkey fuel5 cf ifd ifg num den
              s0 s1 s2 rs cells3 Hf Hc Hnd Hrf Ho Ht Hfill Hinl key kcl Hkcl) as (g & Hg).
  rewrite Hg in Hd. inversion Hd; subst cl. cbn [M5.with_geom M5.c_fill] in Hfl.
  apply in_combine_l in Hin. unfold M5.fill_keys in Hin.
  apply in_map_iff in Hin as ([kk cl] & Hfst & Hq). simpl in Hfst; subst kk.
  apply filter_In in Hq as [Hinc Hq]. apply andb_true_iff in Hq as [Hq _]. simpl in Hq.
  rewrite (in_dget_nodup key cl _ Hnd Hinc) in Hkcl. inversion Hkcl; subst cl.
  rewrite Hfl in Hq. discriminate.
Qed.
