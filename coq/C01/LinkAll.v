(* C01 — both links at once: from the CELL CARDS (C11: parsing + complement
   elimination) through the conversion, the de-duplication's own renumbering (C13)
   and the pruning passes to the PRINTED VOLU LINES read back, for POINTS of R^3. *)
From Coq Require Import List ZArith NArith Bool Lia Reals.
From T4V Require Import Base.Scalar.
From T4V Require C13.Model C11.Model C11.Spec C11.Pipeline C11.EndToEnd.
From T4V Require Import C01.Model C01.Spec C01.Printer C01.ProofsTree C01.ProofsT4 C01.ProofsCells
     C01.ProofsPrune C01.ProofsEmpty C01.ProofsWritten C01.ProofsPoints C01.ProofsPrinter C01.ProofsFile
     C01.LinkC13 C01.LinkC11.
Import ListNotations.
Open Scope Z_scope.

Theorem partition_linked : forall (cs : list C11.EndToEnd.card) rk,
  Forall C11.EndToEnd.card_ok cs -> C11.Pipeline.table_ranked (C11.EndToEnd.deck_mc cs) rk ->
  exists tbl F tbl',
    C11.EndToEnd.build_table (C11.EndToEnd.deck_cards cs) = C11.Model.Ok tbl /\
    (forall f, (F <= f)%nat -> C11.Model.eliminate_all f tbl = C11.Model.Ok tbl') /\
    forall (dval : C13.Model.desc R -> point -> R) (surfs : list (Z * C13.Model.desc R))
           (fval : Z -> point -> R) (u0 u1 : Z) (skip_dedup : bool) matching
           (cd : point -> N -> bool) fuel todo cnt0 s' skipped d' p (c : N),
      (forall k d, In (k, d) surfs -> forall q, fval k q = dval d q) ->
      (forall q, fval u0 q = (px q - 1)%R) -> (forall q, fval u1 q = (px q + 1)%R) ->
      0 < u0 -> 0 < u1 -> off_surfaces fval p ->
      (* cd p is MCNP's membership of p: cell n holds p iff its card expression does *)
      C11.Pipeline.mcnp_meaning (C11.EndToEnd.deck_mc cs) (sg_of (sigma_of fval p) matching) (cd p) ->
      (forall k ids, lookup k matching = Some ids -> Forall (fun x => x <> 0) ids) ->
      (forall n c', C11.Model.lookup tbl' n = Some c' -> a_known matching (C11.Model.c_geom c') = true) ->
      NoDup todo -> (forall k, In k todo -> k <= cnt0) ->
      convert_cells fuel (cells_of tbl') matching u0 u1 todo (mkSt cnt0 [] [] []) = Ok s' ->
      prune u0 u1 (if skip_dedup then None
                   else Some (snd (C13.Model.remove_duplicate_surfaces RS surfs))) (vols s') = Ok d' ->
      (forall k, In k skipped -> k <= cnt0 /\ ~ In k todo) ->
      cd p c = true -> (forall k, In k todo -> cd p (Z.to_N k) = true -> k = Z.of_N c) ->
      exists T, read_table (print_table skipped d') = Some T /\
                (In (Z.of_N c) todo -> forall k, pt_in fval T p k <-> k = Z.of_N c) /\
                (~ In (Z.of_N c) todo -> forall k, ~ pt_in fval T p k).
Proof.
  intros cs rk Hcs Hrk.
  destruct (link_cells_ok cs rk Hcs Hrk) as (tbl & F & tbl' & Eb & Ef & Hlink).
  exists tbl, F, tbl'. split; [exact Eb|]. split; [exact Ef|].
  intros dval surfs fval u0 u1 skip matching cd fuel todo cnt0 s' skipped d' p c
         Htab Hh0 Hh1 H0 H1 Hoff Hm Hwf Hknown Hnd Hle Hrun Hpr Hskip Hown Huniq.
  pose proof (Hlink (sigma_of fval p) matching (cd p) Hm Hwf Hknown) as Hok.
  assert ((fun (q : point) (k : Z) => cd q (Z.to_N k)) p (Z.of_N c) = true) as Hown'
      by (now rewrite N2Z.id).
  exact (partition_file_points_linked dval surfs fval u0 u1 Htab Hh0 Hh1 skip
           (fun q k => cd q (Z.to_N k)) (cells_of tbl') matching fuel todo cnt0 s' skipped d' p (Z.of_N c)
           H0 H1 Hoff Hok Hnd Hle Hrun Hpr Hskip Hown' Huniq).
Qed.
