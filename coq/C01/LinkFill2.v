(* C01 <- C05 (+ C13's provenance lemmas): the FILL theorem sharpened.
   (b) "the generated cell is converted iff the CONTAINER has importance <> 0":
       pot_fill's new_cell = cell.copy() keeps the container's importance and
       universe (C05's fill_phase_spec, GenOK), the TRCL loop and inline_cells keep
       the fields; conv_keys selects importance <> 0, universe 0, no FILL.
   (c) the written line carries the provenance of the descent: the printer with
       its `// idorigin` comment (PrinterC.v) read back; C13's convert_cells_orig /
       written_orig (proved over C01's own definitions) carry v_orig from the
       cell to the written volume. *)
From Coq Require Import List ZArith Bool Lia.
From T4V Require C05.Model C05.Spec C05.Proofs.
From T4V Require C13.LinkC01Orig.
From T4V Require Import C01.Model C01.Spec C01.Printer C01.PrinterC C01.ProofsTree C01.ProofsT4
     C01.ProofsCells C01.ProofsPrune C01.ProofsEmpty C01.ProofsWritten C01.ProofsPrinter C01.LinkC05.
Import ListNotations.
Open Scope Z_scope.

(* ---- the reader of lines with comments ---- *)
Definition normc (v : vol) : vol :=
  mkVol (canon (v_plus v)) (canon (v_minus v)) (v_ops v) (v_orig v) (v_fict v).

Lemma read_line_c_print k v : ops_ok (v_ops v) = true ->
  read_line_c (print_line_c k v) = Some (k, normc v).
Proof.
  intros H. unfold read_line_c, print_line_c. simpl fst. rewrite (read_line_print k v H). reflexivity.
Qed.

Lemma read_table_c_print (l : dict vol) :
  Forall (fun kv => ops_ok (v_ops (snd kv)) = true) l ->
  read_table_c (map (fun kv => print_line_c (fst kv) (snd kv)) l) = Some (dmap normc l).
Proof.
  induction 1 as [|[k v] r Hx Hr IH]; [reflexivity|].
  cbn [map read_table_c fst snd dmap] in *. rewrite (read_line_c_print k v Hx).
  unfold dmap in IH. now rewrite IH.
Qed.

Lemma equa_normc sigma v : equa sigma (normc v) = equa sigma v.
Proof. unfold equa, normc. simpl. now rewrite !forallb_canon. Qed.

Lemma in_volume_normc sigma d k : in_volume sigma (dmap normc d) k <-> in_volume sigma d k.
Proof.
  unfold in_volume. split.
  - intros (v' & Hl & Hf & Hv). rewrite lookup_dmap in Hl. destruct (lookup k d) as [v|] eqn:E; [|discriminate].
    inversion Hl; subst v'. exists v. split; [reflexivity|]. split; [exact Hf|].
    eapply (Vden_dmap_bwd sigma normc); eauto using equa_normc.
  - intros (v & Hl & Hf & Hv). exists (normc v). rewrite lookup_dmap, Hl. split; [reflexivity|].
    split; [exact Hf|]. apply (Vden_dmap_fwd sigma normc); auto using equa_normc.
Qed.

Module M5 := C05.Model.
Module S5 := C05.Spec.
Module P5 := C05.Proofs.

Lemma Forall2_pair {A B} (R : A -> B -> Prop) l1 l2 a b :
  Forall2 R l1 l2 -> In (a, b) (combine l1 l2) -> R a b.
Proof.
  induction 1 as [|x y l1 l2 Hxy HF IH]; simpl; [contradiction|].
  intros [Hq|Hq]; [inversion Hq; subst; exact Hxy | auto].
Qed.

(* ---- (b) the fields of a generated cell after the whole chain ---- *)
Lemma generated_fields :
  forall (T surf P : Type) (tr_empty : T -> bool) (teqb : T -> T -> bool)
         (tr_surf : T -> surf -> surf) (inv : T -> P -> P) (sense : surf -> P -> bool),
  (forall t o p, sense (tr_surf t o) p = sense o (inv t p)) ->
  (forall a b, teqb a b = true -> tr_empty a = tr_empty b /\ forall p, inv a p = inv b p) ->
  forall fuel5 cf ifd ifg num den (s0 s1 s2 : M5.state T surf) rs cells3,
  P5.fresh_ok T surf s0 -> M5.s_cache s0 = [] -> NoDup (map fst (M5.s_cells s0)) ->
  P5.all_ref_free T surf s0 ->
  (forall c cl, M5.dget c (M5.s_cells s0) = Some cl -> M5.c_orig cl = []) ->
  M5.trcl_phase T surf tr_empty teqb tr_surf fuel5 (map fst (M5.s_cells s0)) s0 = M5.Ok s1 ->
  M5.fill_phase T surf tr_empty teqb tr_surf fuel5 cf ifd ifg s1 = M5.Ok (rs, s2) ->
  M5.inline_cells T fuel5 num den (M5.s_cells s2) = M5.Ok cells3 ->
  forall key ks kcl k, In (key, ks) (combine (M5.fill_keys (M5.s_cells s0)) rs) ->
  M5.dget key (M5.s_cells s0) = Some kcl -> In k ks ->
  exists cl3, M5.dget k cells3 = Some cl3 /\ M5.c_imp cl3 = M5.c_imp kcl /\
              M5.c_univ cl3 = 0 /\ M5.c_fill cl3 = None.
Proof.
  intros T surf P tr_empty teqb tr_surf inv sense Hsense Hkey fuel5 cf ifd ifg num den s0 s1 s2 rs cells3
         Hf Hc Hnd Hrf Ho Ht Hfill Hinl key ks kcl k Hpair Hkcl Hk.
  destruct (P5.trcl_phase_Moved T surf P tr_empty teqb tr_surf inv sense Hsense Hkey fuel5 s0 s1 Hf Hc Hnd Hrf Ht)
    as (HM & Hf1 & Hc1 & Hsk).
  assert (Ho1 : forall c cl, M5.dget c (M5.s_cells s1) = Some cl -> M5.c_orig cl = []).
  { intros c cl1 Hk1. destruct (P5.Moved_back T surf P tr_empty inv sense _ _ _ _ HM Hk1) as (cl & g' & Hcl & ->).
    cbn [M5.with_geom M5.c_orig]. exact (Ho _ _ Hcl). }
  destruct (P5.fill_phase_spec T surf P tr_empty teqb tr_surf inv sense Hsense Hkey
              fuel5 cf ifd ifg s1 rs s2 Hf1 Hc1 Ho1 Hfill) as (_ & _ & HF).
  rewrite (P5.fill_keys_sk T _ _ Hsk) in HF.
  destruct (Forall2_pair _ _ _ key ks HF Hpair) as (chs & _ & HG).
  destruct (Forall2_pick_l _ _ _ k HG Hk) as (ch & _ & G).
  destruct G as (ncl & lcl & kcl1 & r & _ & H2 & _ & H4 & H5 & _ & _ & _ & _ & H10 & H11 & _).
  destruct (P5.Moved_back T surf P tr_empty inv sense _ _ _ _ HM H4) as (kcl0 & g' & Hk0 & ->).
  rewrite Hkcl in Hk0. inversion Hk0; subst kcl0. cbn [M5.with_geom M5.c_imp M5.c_univ] in H10, H11.
  destruct (P5.inline_cells_fields T fuel5 num den _ _ Hinl k ncl H2) as (g3 & Hg3).
  exists (M5.with_geom ncl g3). split; [exact Hg3|]. cbn [M5.with_geom M5.c_imp M5.c_univ M5.c_fill].
  split; [exact H10|]. split; [|exact H5]. rewrite H11.
  (* a key of fill_keys has universe 0 *)
  apply in_combine_l in Hpair. unfold M5.fill_keys in Hpair.
  apply in_map_iff in Hpair as ([kk cl] & Hfst & Hfl). simpl in Hfst; subst kk.
  apply filter_In in Hfl as [Hinc Hq]. apply andb_true_iff in Hq as [_ Hq]. simpl in Hq.
  assert (M5.dget key (M5.s_cells s0) = Some cl) as Hd.
  { clear - Hinc Hnd. induction (M5.s_cells s0) as [|[a b] l IH]; simpl in *; [contradiction|].
    inversion Hnd as [|? ? Hnot Hnd']; subst. destruct Hinc as [Hq|Hq].
    - inversion Hq; subst. now rewrite Z.eqb_refl.
    - destruct (key =? a) eqn:E; [|auto]. apply Z.eqb_eq in E; subst. exfalso. apply Hnot.
      change a with (fst (a, cl)). now apply in_map. }
  rewrite Hkcl in Hd. inversion Hd; subst cl. now apply Z.eqb_eq.
Qed.

(* ---- the sharpened theorem ---- *)
Theorem partition_fill_written_linked :
  forall (T surf P : Type) (tr_empty : T -> bool) (teqb : T -> T -> bool)
         (tr_surf : T -> surf -> surf) (inv : T -> P -> P) (sense : surf -> P -> bool),
  (forall t o p, sense (tr_surf t o) p = sense o (inv t p)) ->
  (forall a b, teqb a b = true -> tr_empty a = tr_empty b /\ forall p, inv a p = inv b p) ->
  forall fuel5 cf ifd ifg num den (s0 s1 s2 : M5.state T surf) rs cells3,
  P5.fresh_ok T surf s0 -> M5.s_cache s0 = [] -> NoDup (map fst (M5.s_cells s0)) ->
  P5.all_ref_free T surf s0 ->
  (forall c cl, M5.dget c (M5.s_cells s0) = Some cl -> M5.c_orig cl = []) ->
  M5.trcl_phase T surf tr_empty teqb tr_surf fuel5 (map fst (M5.s_cells s0)) s0 = M5.Ok s1 ->
  M5.fill_phase T surf tr_empty teqb tr_surf fuel5 cf ifd ifg s1 = M5.Ok (rs, s2) ->
  M5.inline_cells T fuel5 num den (M5.s_cells s2) = M5.Ok cells3 ->
  let s3 := P5.set_cells T surf s2 cells3 in
  let du := M5.by_universe (M5.s_cells s0) in
  forall (key : Z) (ks : list Z) (kcl : M5.cell T) (p : P) (ch : list Z)
         sigma matching val u0 u1 fuel todo cnt0 s' rn skipped d',
  In (key, ks) (combine (M5.fill_keys (M5.s_cells s0)) rs) ->
  M5.dget key (M5.s_cells s0) = Some kcl ->
  S5.LocW T surf P tr_empty inv sense s0 du key p ch true ->
  S5.universe_partitionW T surf P tr_empty inv sense s0 du ->
  (forall chs ch', S5.Paths T surf s0 du key chs -> In ch' chs ->
     exists b', S5.LocW T surf P tr_empty inv sense s0 du key p ch' b') ->
  (forall k o, M5.dget k (M5.s_surfs s3) = Some o ->
     k <> 0 /\ exists ids, lookup k matching = Some ids /\ existsb (lit sigma) ids = sense o p) ->
  (forall k ids, lookup k matching = Some ids -> Forall (fun x => x <> 0) ids) ->
  (forall c cl, M5.dget c (M5.s_cells s3) = Some cl ->
     S5.Den T surf P sense s3 p (M5.c_geom cl) (val c)) ->
  0 < u0 -> 0 < u1 -> consistent sigma u0 u1 ->
  NoDup todo -> (forall k, In k todo -> k <= cnt0) ->
  (* the conversion list is conv_keys of construct_volume_t4 *)
  (forall k, In k todo <-> exists cl, M5.dget k cells3 = Some cl /\ M5.c_imp cl <> 0 /\
                                      M5.c_univ cl = 0 /\ M5.c_fill cl = None) ->
  convert_cells fuel (cells_of5 (M5.s_cells s3)) matching u0 u1 todo (mkSt cnt0 [] [] []) = Ok s' ->
  prune u0 u1 rn (vols s') = Ok d' ->
  (forall r, rn = Some r -> respects sigma r) ->
  (forall k, In k skipped -> k <= cnt0 /\ ~ In k todo) ->
  (forall k', In k' todo ->
     (exists cl, M5.dget k' (M5.s_cells s0) = Some cl /\ M5.c_univ cl = 0) \/
     (exists key' ks', In (key', ks') (combine (M5.fill_keys (M5.s_cells s0)) rs) /\ In k' ks')) ->
  (forall c cl, M5.dget c (M5.s_cells s0) = Some cl -> M5.c_univ cl = 0 -> c <> key -> val c = false) ->
  ~ In key todo ->
  (* what pot_fill builds for a generated cell is an operator node; inline_worker keeps it *)
  (forall k ncl, In k ks -> M5.dget k cells3 = Some ncl -> is_node (trF (M5.c_geom ncl)) = true) ->
  exists k, In k ks /\
    S5.RepresentsW T surf P tr_empty inv sense s0 du s3 key k ch /\
    (In k todo <-> M5.c_imp kcl <> 0) /\
    exists Tb, read_table_c (print_table_c skipped d') = Some Tb /\
      (M5.c_imp kcl <> 0 ->
         (forall j, in_volume sigma Tb j <-> j = k) /\
         exists v, lookup k Tb = Some v /\ v_fict v = false /\ v_orig v = S5.prov ch) /\
      (M5.c_imp kcl = 0 -> forall j, ~ in_volume sigma Tb j).
Proof.
  intros T surf P tr_empty teqb tr_surf inv sense Hsense Hkey fuel5 cf ifd ifg num den s0 s1 s2 rs cells3
         Hfresh Hcache Hnd0 Hrf Horig Htrcl Hfill Hinl s3 du key ks kcl p ch
         sigma matching val u0 u1 fuel todo cnt0 s' rn skipped d'
         Hin Hkcl Hloc Hpart Hvalued Hsurf Hwf Hval H0 H1 Hc Hnd Hle Htodo Hrun Hpr Hresp Hskip
         Hkinds Hlevel0 Hkeynot Hnode.
  destruct (partition_fill_level0_linked T surf P tr_empty teqb tr_surf inv sense Hsense Hkey
              fuel5 cf ifd ifg num den s0 s1 s2 rs cells3 Hfresh Hcache Hnd0 Hrf Horig Htrcl Hfill Hinl
              key ks p ch sigma matching val u0 u1 fuel todo cnt0 s' rn skipped d'
              Hin Hloc Hpart Hvalued Hsurf Hwf Hval H0 H1 Hc Hnd Hle Hrun Hpr Hresp Hskip
              Hkinds Hlevel0 Hkeynot) as (k & Hk & Hrep & Tb0 & HT0 & A & B).
  exists k. split; [exact Hk|]. split; [exact Hrep|].
  (* (b) *)
  destruct (generated_fields T surf P tr_empty teqb tr_surf inv sense Hsense Hkey fuel5 cf ifd ifg num den
              s0 s1 s2 rs cells3 Hfresh Hcache Hnd0 Hrf Horig Htrcl Hfill Hinl key ks kcl k Hin Hkcl Hk)
    as (cl3 & Hd3 & Himp & Hun & Hfl).
  assert (In k todo <-> M5.c_imp kcl <> 0) as Hiff.
  { rewrite Htodo. split.
    - intros (cl & Hd & Hi & _). rewrite Hd3 in Hd. inversion Hd; subst cl. now rewrite <- Himp.
    - intros Hi. exists cl3. rewrite Himp. auto. }
  split; [exact Hiff|].
  (* the table read back, with comments *)
  pose proof (link5_cells_ok T surf P sense s3 p sigma matching val Hsurf Hwf Hval) as Hok.
  pose proof (file_readable sigma val (cells_of5 (M5.s_cells s3)) matching u0 u1 H0 H1 Hc Hok fuel todo cnt0 s'
                Hnd Hle Hrun rn skipped d' Hpr Hresp Hskip) as HT0'.
  rewrite HT0 in HT0'. inversion HT0'; subst Tb0; clear HT0'.
  set (W := written skipped d') in *.
  assert (Forall (fun kv => ops_ok (v_ops (snd kv)) = true) W) as HopsW.
  { pose proof (convert_cells_keys _ _ _ _ _ _ _ _ Hrun) as Hkeys.
    destruct (prune_sound sigma u0 u1 rn (vols s') d' Hkeys Hpr Hc Hresp) as (P1 & _).
    destruct (cells_table sigma val (cells_of5 (M5.s_cells s3)) matching u0 u1 H0 H1 Hc Hok fuel todo cnt0 s'
                Hnd Hle Hrun) as (Hnn & _).
    pose proof (prune_nonone u0 u1 rn (vols s') d' Hkeys Hnn Hpr) as Hn'.
    unfold W. rewrite (written_all sigma val (cells_of5 (M5.s_cells s3)) matching u0 u1 H0 H1 Hc Hok fuel todo cnt0 s'
               Hnd Hle Hrun rn skipped d' Hpr Hresp Hskip).
    apply Forall_forall. intros [j v] Hinj. simpl. exact (Hn' j v (In_lookup j v d' P1 Hinj)). }
  exists (dmap normc W). split; [unfold print_table_c; fold W; now apply read_table_c_print|].
  split.
  - intros Hi. pose proof (proj2 Hiff Hi) as Hkt. split.
    + intros j. rewrite in_volume_normc, <- (in_volume_norm sigma W j). now apply A.
    + (* provenance *)
      destruct (proj2 (A Hkt k) eq_refl) as (vt & Hlt & Hft & _).
      rewrite lookup_dmap in Hlt. destruct (lookup k W) as [w|] eqn:Ew; [|discriminate].
      inversion Hlt; subst vt. simpl in Hft.
      exists (normc w). rewrite lookup_dmap, Ew. split; [reflexivity|]. split; [exact Hft|].
      cbn [normc v_orig].
      pose proof (convert_cells_keys _ _ _ _ _ _ _ _ Hrun) as Hkeys.
      destruct (C13.LinkC01Orig.written_orig u0 u1 rn skipped (vols s') d' k w Hkeys Hpr Ew) as (v & Hv & Eo).
      rewrite Eo.
      destruct Hrep as (ncl & lcl & R1 & _ & _ & R4 & _).
      assert (lookup k (cells_of5 (M5.s_cells s3)) = Some (trF (M5.c_geom ncl), M5.c_orig ncl)) as Hlc.
      { clear - R1. unfold s3 in *. simpl in *. induction cells3 as [|[a b] r IH]; simpl in *; [discriminate|].
        destruct (k =? a); [inversion R1; reflexivity | auto]. }
      rewrite <- R4.
      assert (ProofsT4.inv (mkSt cnt0 [] [] [])) as Hinv0 by (intros x y Hl; discriminate).
      refine (C13.LinkC01Orig.convert_cells_orig sigma val (cells_of5 (M5.s_cells s3)) matching u0 u1 H0 H1 Hc Hok
                fuel todo _ _ Hrun Hinv0 Hnd _ k v _ _ Hkt Hv Hlc _).
      * intros x Hx. split; [reflexivity | simpl; auto].
      * apply (Hnode k ncl Hk). exact R1.
  - intros Hz j Hj. apply (proj1 (in_volume_normc sigma W j)) in Hj.
    apply (proj2 (in_volume_norm sigma W j)) in Hj.
    apply (B (fun Hkt => proj1 Hiff Hkt Hz) j). exact Hj.
Qed.
