(* C01 — the passes after construct_volume_t4: renumber_surfaces and
   remove_unused_volumes keep the denotation of every surviving volume, and
   remove_unused_volumes deletes only unreferenced FICTIVE volumes.
   (remove_empty_volumes: ProofsEmpty.v; the composition: ProofsWritten.v.) *)
From Coq Require Import List ZArith Bool Lia.
From T4V Require Import C01.Model C01.Spec C01.ProofsTree C01.ProofsT4.
Import ListNotations.
Open Scope Z_scope.

Lemma lookup_In' {V} k (v : V) d : lookup k d = Some v -> In (k, v) d.
Proof.
  induction d as [|[k' v'] r IH]; simpl; [discriminate|].
  destruct (k =? k') eqn:E; intros H.
  - apply Z.eqb_eq in E. inversion H; subst. now left.
  - right; auto.
Qed.

Lemma lookup_filter_keep {V} (p : Z * V -> bool) k v d :
  lookup k d = Some v -> p (k, v) = true -> lookup k (filter p d) = Some v.
Proof.
  induction d as [|[k' v'] r IH]; simpl; [discriminate|].
  destruct (k =? k') eqn:E; intros H Hp.
  - apply Z.eqb_eq in E. inversion H; subst. rewrite Hp. simpl. now rewrite Z.eqb_refl.
  - destruct (p (k', v')); simpl; [rewrite E|]; auto.
Qed.

Lemma lookup_filter_some {V} (p : Z * V -> bool) k v d :
  lookup k (filter p d) = Some v -> In (k, v) d /\ p (k, v) = true.
Proof.
  intros H. apply lookup_In' in H. apply filter_In in H. exact H.
Qed.

Section Prune.
  Variable sigma : Z -> bool.
  Notation Vden := (Vden sigma).
  Notation VdenL := (VdenL sigma).
  Notation equa := (equa sigma).

  (* ---- remove_unused_volumes ---- *)
  Definition keep (d : dict vol) (kv : Z * vol) : bool :=
    negb (v_fict (snd kv) && negb (mem (fst kv) (used_ids d))).

  Lemma used_ids_in d id v o ids x :
    lookup id d = Some v -> v_ops v = Some (o, ids) -> In (Some x) ids -> mem x (used_ids d) = true.
  Proof.
    intros Hl Ho Hx. apply mem_In. unfold used_ids. apply in_flat_map.
    exists (id, v). split; [now apply lookup_In'|]. simpl. rewrite Ho.
    clear - Hx. induction ids as [|[y|] r IH]; simpl in *; [contradiction| |].
    - destruct Hx as [Hx|Hx]; [inversion Hx; now left | right; auto].
    - destruct Hx as [Hx|Hx]; [discriminate | auto].
  Qed.

  Lemma remove_unused_den d : forall id b, Vden d id b ->
    (forall v, lookup id d = Some v -> keep d (id, v) = true) -> Vden (remove_unused d) id b.
  Proof.
    unfold remove_unused. fold (keep d).
    apply (Vden_min sigma d
             (fun id b => (forall v, lookup id d = Some v -> keep d (id, v) = true) ->
                          Vden (filter (keep d) d) id b)
             (fun ids bs => (forall x, In (Some x) ids -> mem x (used_ids d) = true) ->
                            VdenL (filter (keep d) d) ids bs)).
    - intros id v Hl Ho Hk. apply Vden_plain; [|exact Ho]. apply lookup_filter_keep; auto.
    - intros id v ids bs Hl Ho _ IH Hk. eapply Vden_inte; [apply lookup_filter_keep; eauto | exact Ho |].
      apply IH. intros x Hx. eapply used_ids_in; eauto.
    - intros id v ids bs Hl Ho _ IH Hk. eapply Vden_union; [apply lookup_filter_keep; eauto | exact Ho |].
      apply IH. intros x Hx. eapply used_ids_in; eauto.
    - intros _. constructor.
    - intros id b ids bs Hv IH1 _ IH2 Hu. constructor.
      + apply IH1. intros v Hl. unfold keep. simpl. rewrite (Hu id (or_introl eq_refl)).
        now rewrite andb_false_r.
      + apply IH2. intros x Hx. apply Hu. now right.
  Qed.

  (* every non-FICTIVE volume survives with its denotation *)
  Lemma remove_unused_nonfictive d id v b :
    lookup id d = Some v -> v_fict v = false -> Vden d id b ->
    lookup id (remove_unused d) = Some v /\ Vden (remove_unused d) id b.
  Proof.
    intros Hl Hf Hv.
    assert (forall v', lookup id d = Some v' -> keep d (id, v') = true) as Hk.
    { intros v' Hl'. rewrite Hl in Hl'. inversion Hl'; subst. unfold keep. simpl. now rewrite Hf. }
    split; [|now apply remove_unused_den].
    unfold remove_unused. fold (keep d). apply lookup_filter_keep; auto.
  Qed.

  (* what is deleted is FICTIVE and referenced by nothing; nothing is added *)
  Lemma remove_unused_deleted d id v :
    lookup id d = Some v -> lookup id (remove_unused d) = None ->
    v_fict v = true /\ mem id (used_ids d) = false.
  Proof.
    intros Hl Hn. unfold remove_unused in Hn. fold (keep d) in Hn.
    destruct (keep d (id, v)) eqn:Ek.
    - rewrite (lookup_filter_keep _ _ _ _ Hl Ek) in Hn. discriminate.
    - unfold keep in Ek. simpl in Ek. apply negb_false_iff, andb_true_iff in Ek as [H1 H2].
      split; [exact H1 | now apply negb_true_iff].
  Qed.

  Lemma remove_unused_sub d id v : lookup id (remove_unused d) = Some v -> In (id, v) d.
  Proof. intros H. apply lookup_filter_some in H. apply H. Qed.

  (* ---- renumber_surfaces ---- *)
  Lemma In_dedup x l : In x (dedup l) <-> In x l.
  Proof.
    induction l as [|y r IH]; simpl; [tauto|].
    destruct (mem y r) eqn:E.
    - rewrite IH. apply mem_In in E. split; [auto|]. intros [->|H]; auto.
    - simpl. rewrite IH. tauto.
  Qed.

  Lemma forallb_dedup (f : Z -> bool) l : forallb f (dedup l) = forallb f l.
  Proof.
    destruct (forallb f l) eqn:E.
    - rewrite forallb_forall in *. intros x Hx. apply E. now apply In_dedup.
    - destruct (forallb f (dedup l)) eqn:E2; [|reflexivity].
      rewrite forallb_forall in E2. rewrite <- E. symmetry. apply forallb_forall.
      intros x Hx. apply E2. now apply In_dedup.
  Qed.

  Lemma map_opt_forallb (rn : dict Z) (f : Z -> bool) l l' :
    (forall x y, lookup x rn = Some y -> f y = f x) ->
    map_opt (fun x => lookup x rn) l = Some l' -> forallb f l' = forallb f l.
  Proof.
    intros Hrn. revert l'. induction l as [|x r IH]; intros l' H; simpl in H.
    - inversion H; reflexivity.
    - destruct (lookup x rn) as [y|] eqn:Ex; [|discriminate].
      destruct (map_opt (fun x => lookup x rn) r) as [ys|]; [|discriminate].
      inversion H; subst. simpl. now rewrite (Hrn x y Ex), (IH ys eq_refl).
  Qed.

  Lemma renumber_lookup rn d d' : renumber rn d = Ok d' ->
    forall k v, lookup k d = Some v ->
    exists p m, map_opt (fun x => lookup x rn) (v_plus v) = Some p /\
                map_opt (fun x => lookup x rn) (v_minus v) = Some m /\
                lookup k d' = Some (mkVol (dedup p) (dedup m) (v_ops v) (v_orig v) (v_fict v)).
  Proof.
    revert d'. induction d as [|[k0 v0] r IH]; intros d' H k v Hl; simpl in *; [discriminate|].
    destruct (map_opt (fun x => lookup x rn) (v_plus v0)) as [p|] eqn:Ep;
      destruct (map_opt (fun x => lookup x rn) (v_minus v0)) as [m|] eqn:Em;
      destruct (renumber rn r) as [r'|e] eqn:Er; try discriminate.
    inversion H; subst. simpl. destruct (k =? k0) eqn:E.
    - inversion Hl; subst. eauto.
    - eapply IH; eauto.
  Qed.

  (* sigma respects the renumbering: merged surfaces are the same surface *)
  Definition respects (rn : dict Z) : Prop := forall x y, lookup x rn = Some y -> sigma y = sigma x.

  Lemma renumber_den rn d d' : renumber rn d = Ok d' -> respects rn ->
    forall id b, Vden d id b -> Vden d' id b.
  Proof.
    intros H Hrn.
    assert (forall k v, lookup k d = Some v ->
            exists v', lookup k d' = Some v' /\ v_ops v' = v_ops v /\ equa v' = equa v) as Hlk.
    { intros k v Hl. destruct (renumber_lookup rn d d' H k v Hl) as (p & m & Hp & Hm & Hl').
      eexists. split; [exact Hl'|]. split; [reflexivity|]. unfold Spec.equa. simpl.
      rewrite !forallb_dedup.
      rewrite (map_opt_forallb rn sigma _ _ Hrn Hp).
      rewrite (map_opt_forallb rn (fun s => negb (sigma s)) _ _ (fun x y Hxy => f_equal negb (Hrn x y Hxy)) Hm).
      reflexivity. }
    apply (Vden_min sigma d (fun id b => Vden d' id b) (fun ids bs => VdenL d' ids bs)).
    - intros id v Hl Ho. destruct (Hlk id v Hl) as (v' & Hl' & Ho' & He). rewrite <- He.
      apply Vden_plain; congruence.
    - intros id v ids bs Hl Ho _ IH. destruct (Hlk id v Hl) as (v' & Hl' & Ho' & He). rewrite <- He.
      eapply Vden_inte; eauto. congruence.
    - intros id v ids bs Hl Ho _ IH. destruct (Hlk id v Hl) as (v' & Hl' & Ho' & He). rewrite <- He.
      eapply Vden_union; eauto. congruence.
    - constructor.
    - intros id b ids bs _ H1 _ H2. now constructor.
  Qed.
End Prune.
