(* C01 <- C11: the cells handed to pot_flag are the trees C11 proves to come out
   of parsing + complement elimination.  Translation of C11's ast into C01's
   [tree msurf], preservation of the denotation (C11's sense of an MCNP surface /
   facet is read off the TRIPOLI-4 senses through `matching`), and the partition
   theorem restated from the CELL-CARD EXPRESSIONS: the owner of a sense
   assignment is defined by C11's mden of the MCNP expression of the card. *)
From Coq Require Import List ZArith NArith Bool Lia.
From T4V Require C11.Model C11.Spec C11.Proofs C11.Pipeline C11.Loop C11.Handover C11.EndToEnd.
From T4V Require Import C01.Model C01.Spec C01.Printer C01.ProofsTree C01.ProofsT4 C01.ProofsCells
     C01.ProofsPrune C01.ProofsEmpty C01.ProofsWritten C01.ProofsPrinter.
Import ListNotations.
Open Scope Z_scope.

Module M11 := C11.Model.
Module S11 := C11.Spec.
Module P11 := C11.Proofs.

(* C11's tree, node by node: ('*', l, r) / (':', l, r) tuples and the raw ['*', l, r]
   list become binary Node's (the id field is filled by pot_flag), Surface(z, sub)
   a leaf.  A '^' node has no image (never reached: a_plain). *)
Fixpoint tr (a : M11.ast) : tree msurf :=
  match a with
  | M11.ASurf z sub => Leaf (z, option_map Z.of_N sub)
  | M11.AAnd l r => Node 0 OInter [tr l; tr r]
  | M11.AOr l r => Node 0 OUnion [tr l; tr r]
  | M11.ARawAnd l r => Node 0 OInter [tr l; tr r]
  | M11.ACompl _ => Node 0 OUnion []
  end.

(* every surface of the tree has an entry in `matching`; facet numbers from 1 *)
Fixpoint a_known (matching : dict (list Z)) (a : M11.ast) : bool :=
  match a with
  | M11.ASurf z sub =>
      match lookup (Z.abs z) matching with Some _ => true | None => false end
      && match sub with Some k => (1 <=? k)%N | None => true end
  | M11.AAnd l r | M11.AOr l r | M11.ARawAnd l r => a_known matching l && a_known matching r
  | M11.ACompl _ => true
  end.

Section Sense.
  Variable sigma : Z -> bool.
  Variable matching : dict (list Z).

  (* C11's sense of MCNP surface n (facet k), read off the T4 senses *)
  Definition sg_of : S11.sense := fun n sub =>
    match lookup (Z.of_N n) matching with
    | None => false
    | Some ids =>
        match sub with
        | None => existsb (lit sigma) ids
        | Some k => match nth_error ids (Z.to_nat (Z.of_N k - 1)) with
                    | Some x => lit sigma x
                    | None => false
                    end
        end
    end.

  Lemma tr_den a : P11.a_plain a = true -> a_known matching a = true ->
    forall cd cden, mden sigma cden matching (tr a) = S11.aden cd sg_of a.
  Proof.
    induction a as [z sub|l IHl r IHr|l IHl r IHr|n|l IHl r IHr]; simpl; intros Hp Hk cd cden;
      try discriminate.
    - apply andb_true_iff in Hk as [Hk _]. unfold S11.lit_den, sg_of.
      rewrite N2Z.inj_abs_N.
      destruct (lookup (Z.abs z) matching) as [ids|]; [|discriminate].
      destruct sub as [k|]; simpl; reflexivity.
    - apply andb_true_iff in Hp as [H1 H2]. apply andb_true_iff in Hk as [K1 K2].
      now rewrite (IHl H1 K1 cd cden), (IHr H2 K2 cd cden), andb_true_r.
    - apply andb_true_iff in Hp as [H1 H2]. apply andb_true_iff in Hk as [K1 K2].
      now rewrite (IHl H1 K1 cd cden), (IHr H2 K2 cd cden), orb_false_r.
  Qed.

  Hypothesis wf_matching : forall k ids, lookup k matching = Some ids -> Forall (fun x => x <> 0) ids.

  Lemma tr_leaves_ok a : P11.a_plain a = true -> P11.a_nonzero a = true -> a_known matching a = true ->
    leaves_ok (msurf_ok matching) (tr a).
  Proof.
    induction a as [z sub|l IHl r IHr|l IHl r IHr|n|l IHl r IHr]; simpl; intros Hp Hz Hk;
      try discriminate.
    - unfold msurf_ok. simpl. apply andb_true_iff in Hk as [_ Hk].
      split; [apply negb_true_iff, Z.eqb_neq in Hz; exact Hz|]. split; [intros ids Hl; eauto|].
      intros k Hs. destruct sub as [kn|]; [|discriminate]. inversion Hs; subst k.
      apply N.leb_le in Hk. lia.
    - apply andb_true_iff in Hp as [H1 H2]. apply andb_true_iff in Hz as [Z1 Z2].
      apply andb_true_iff in Hk as [K1 K2]. auto.
    - apply andb_true_iff in Hp as [H1 H2]. apply andb_true_iff in Hz as [Z1 Z2].
      apply andb_true_iff in Hk as [K1 K2]. auto.
  Qed.
End Sense.

(* the cell table C01 starts from: C11's table after complement elimination *)
Definition cells_of (tbl : M11.table) : dict cell :=
  map (fun p => (Z.of_N (fst p), (tr (M11.c_geom (snd p)), @nil (Z * Z)))) tbl.

Lemma lookup_cells_of tbl k g orig : lookup k (cells_of tbl) = Some (g, orig) ->
  exists n c', k = Z.of_N n /\ M11.lookup tbl n = Some c' /\ g = tr (M11.c_geom c') /\ orig = [].
Proof.
  unfold M11.lookup. induction tbl as [|[m c] r IH]; simpl; [discriminate|].
  destruct (k =? Z.of_N m) eqn:E.
  - apply Z.eqb_eq in E. intros H. inversion H; subst. exists m, c. rewrite N.eqb_refl. auto.
  - intros H. destruct (IH H) as (n & c' & Hk & Hl & Hg & Ho). exists n, c'.
    split; [exact Hk|]. split; [|auto].
    destruct (N.eqb m n) eqn:E2; [|exact Hl].
    apply N.eqb_eq in E2. subst. rewrite Z.eqb_refl in E. discriminate.
Qed.

(* ---- the bridge: C11's end-to-end theorem gives C01's hypothesis cells_ok ---- *)
Lemma link_cells_ok : forall (cs : list C11.EndToEnd.card) rk,
  Forall C11.EndToEnd.card_ok cs -> C11.Pipeline.table_ranked (C11.EndToEnd.deck_mc cs) rk ->
  exists tbl F tbl',
    C11.EndToEnd.build_table (C11.EndToEnd.deck_cards cs) = M11.Ok tbl /\
    (forall f, (F <= f)%nat -> M11.eliminate_all f tbl = M11.Ok tbl') /\
    forall sigma matching (cd : N -> bool),
      C11.Pipeline.mcnp_meaning (C11.EndToEnd.deck_mc cs) (sg_of sigma matching) cd ->
      (forall k ids, lookup k matching = Some ids -> Forall (fun x => x <> 0) ids) ->
      (forall n c', M11.lookup tbl' n = Some c' -> a_known matching (M11.c_geom c') = true) ->
      forall k g orig, lookup k (cells_of tbl') = Some (g, orig) ->
        leaves_ok (msurf_ok matching) g /\
        cd (Z.to_N k) = mden sigma (fun k => cd (Z.to_N k)) matching g.
Proof.
  intros cs rk Hcs Hrk.
  destruct (C11.EndToEnd.deck_end_to_end cs rk Hcs Hrk) as (tbl & F & tbl' & Eb & Ef & Hall).
  destruct (C11.EndToEnd.build_table_ok cs Hcs) as (tbl2 & Eb2 & Hparsed).
  rewrite Eb in Eb2. inversion Eb2; subst tbl2; clear Eb2.
  exists tbl, F, tbl'. split; [exact Eb|]. split; [exact Ef|].
  intros sigma matching cd Hm Hwf Hknown k g orig Hl.
  destruct (lookup_cells_of tbl' k g orig Hl) as (n & c' & -> & Hl' & -> & _).
  assert (exists e, C11.EndToEnd.deck_mc cs n = Some e) as (e & He).
  { unfold M11.eliminate_all in Ef. specialize (Ef F (le_n F)).
    destruct (C11.Handover.eliminate_loop_keys F _ _ _ n c' Ef Hl') as (c0 & Hc0).
    pose proof (Hparsed n) as Hp. destruct (C11.EndToEnd.deck_mc cs n) as [e|]; [eauto | congruence]. }
  destruct (Hall n e He) as (c'' & Hl'' & Hplain & Hnz & Hden). rewrite Hl' in Hl''. inversion Hl''; subst c''.
  pose proof (Hknown n c' Hl') as Hk.
  split; [now apply tr_leaves_ok|].
  rewrite N2Z.id. rewrite (tr_den sigma matching _ Hplain Hk cd (fun k => cd (Z.to_N k))).
  rewrite (Hden _ cd Hm). exact (Hm n e He).
Qed.

(* the table of the conversion loop, from the cell cards: the volume numbered n
   denotes the MCNP expression of card n *)
Theorem cells_linked : forall (cs : list C11.EndToEnd.card) rk,
  Forall C11.EndToEnd.card_ok cs -> C11.Pipeline.table_ranked (C11.EndToEnd.deck_mc cs) rk ->
  exists tbl F tbl',
    C11.EndToEnd.build_table (C11.EndToEnd.deck_cards cs) = M11.Ok tbl /\
    (forall f, (F <= f)%nat -> M11.eliminate_all f tbl = M11.Ok tbl') /\
    forall sigma matching u0 u1 (cd : N -> bool) fuel todo cnt0 s',
      0 < u0 -> 0 < u1 -> consistent sigma u0 u1 ->
      C11.Pipeline.mcnp_meaning (C11.EndToEnd.deck_mc cs) (sg_of sigma matching) cd ->
      (forall k ids, lookup k matching = Some ids -> Forall (fun x => x <> 0) ids) ->
      (forall n c', M11.lookup tbl' n = Some c' -> a_known matching (M11.c_geom c') = true) ->
      NoDup todo -> (forall k, In k todo -> k <= cnt0) ->
      convert_cells fuel (cells_of tbl') matching u0 u1 todo (mkSt cnt0 [] [] []) = Ok s' ->
      nonone (vols s') /\
      (forall n e, C11.EndToEnd.deck_mc cs n = Some e -> In (Z.of_N n) todo ->
         (exists v, lookup (Z.of_N n) (vols s') = Some v /\ v_fict v = false /\
                    Vden sigma (vols s') (Z.of_N n) (S11.mden cd (sg_of sigma matching) e)) \/
         (lookup (Z.of_N n) (vols s') = None /\ S11.mden cd (sg_of sigma matching) e = false)) /\
      (forall k v, lookup k (vols s') = Some v -> v_fict v = false -> In k todo).
Proof.
  intros cs rk Hcs Hrk.
  destruct (link_cells_ok cs rk Hcs Hrk) as (tbl & F & tbl' & Eb & Ef & Hlink).
  exists tbl, F, tbl'. split; [exact Eb|]. split; [exact Ef|].
  intros sigma matching u0 u1 cd fuel todo cnt0 s' H0 H1 Hc Hm Hwf Hknown Hnd Hle Hrun.
  pose proof (Hlink sigma matching cd Hm Hwf Hknown) as Hok.
  destruct (cells_table sigma (fun k => cd (Z.to_N k)) (cells_of tbl') matching u0 u1 H0 H1 Hc Hok
              fuel todo cnt0 s' Hnd Hle Hrun) as (Hnn & A & B).
  split; [exact Hnn|]. split; [|exact B].
  intros n e He Hin. specialize (A (Z.of_N n) Hin). unfold cell_done in A.
  rewrite N2Z.id in A. rewrite (Hm n e He) in A. exact A.
Qed.

(* ---- the partition theorem from the cell cards ---- *)
Theorem partition_file_linked : forall (cs : list C11.EndToEnd.card) rk,
  Forall C11.EndToEnd.card_ok cs -> C11.Pipeline.table_ranked (C11.EndToEnd.deck_mc cs) rk ->
  exists tbl F tbl',
    C11.EndToEnd.build_table (C11.EndToEnd.deck_cards cs) = M11.Ok tbl /\
    (forall f, (F <= f)%nat -> M11.eliminate_all f tbl = M11.Ok tbl') /\
    forall sigma matching u0 u1 (cd : N -> bool) fuel todo cnt0 s' rn skipped d' (c : N),
      0 < u0 -> 0 < u1 -> consistent sigma u0 u1 ->
      (* cd is MCNP's membership: cell n holds the point iff its card expression does *)
      C11.Pipeline.mcnp_meaning (C11.EndToEnd.deck_mc cs) (sg_of sigma matching) cd ->
      (forall k ids, lookup k matching = Some ids -> Forall (fun x => x <> 0) ids) ->
      (forall n c', M11.lookup tbl' n = Some c' -> a_known matching (M11.c_geom c') = true) ->
      NoDup todo -> (forall k, In k todo -> k <= cnt0) ->
      convert_cells fuel (cells_of tbl') matching u0 u1 todo (mkSt cnt0 [] [] []) = Ok s' ->
      prune u0 u1 rn (vols s') = Ok d' ->
      (forall r, rn = Some r -> respects sigma r) ->
      (forall k, In k skipped -> k <= cnt0 /\ ~ In k todo) ->
      cd c = true -> (forall k, In k todo -> cd (Z.to_N k) = true -> k = Z.of_N c) ->
      exists T, read_table (print_table skipped d') = Some T /\
                (In (Z.of_N c) todo -> forall k, in_volume sigma T k <-> k = Z.of_N c) /\
                (~ In (Z.of_N c) todo -> forall k, ~ in_volume sigma T k).
Proof.
  intros cs rk Hcs Hrk.
  destruct (C11.EndToEnd.deck_end_to_end cs rk Hcs Hrk) as (tbl & F & tbl' & Eb & Ef & Hall).
  destruct (C11.EndToEnd.build_table_ok cs Hcs) as (tbl2 & Eb2 & Hparsed).
  rewrite Eb in Eb2. inversion Eb2; subst tbl2; clear Eb2.
  exists tbl, F, tbl'. split; [exact Eb|]. split; [exact Ef|].
  intros sigma matching u0 u1 cd fuel todo cnt0 s' rn skipped d' c
         H0 H1 Hc Hm Hwf Hknown Hnd Hle Hrun Hpr Hresp Hskip Hown Huniq.
  set (cden := fun k : Z => cd (Z.to_N k)).
  assert (forall k g orig, lookup k (cells_of tbl') = Some (g, orig) ->
            leaves_ok (msurf_ok matching) g /\ cden k = mden sigma cden matching g) as Hok.
  { intros k g orig Hl. destruct (lookup_cells_of tbl' k g orig Hl) as (n & c' & -> & Hl' & -> & _).
    (* the cell comes from a card *)
    assert (exists e, C11.EndToEnd.deck_mc cs n = Some e) as (e & He).
    { unfold M11.eliminate_all in Ef. specialize (Ef F (le_n F)).
      destruct (C11.Handover.eliminate_loop_keys F _ _ _ n c' Ef Hl') as (c0 & Hc0).
      pose proof (Hparsed n) as Hp. destruct (C11.EndToEnd.deck_mc cs n) as [e|]; [eauto | congruence]. }
    destruct (Hall n e He) as (c'' & Hl'' & Hplain & Hnz & Hden). rewrite Hl' in Hl''. inversion Hl''; subst c''.
    pose proof (Hknown n c' Hl') as Hk.
    split; [now apply tr_leaves_ok|].
    unfold cden at 1. rewrite N2Z.id. rewrite (tr_den sigma matching _ Hplain Hk cd cden).
    rewrite (Hden _ cd Hm). exact (Hm n e He). }
  assert (cden (Z.of_N c) = true) as Hown' by (unfold cden; now rewrite N2Z.id).
  exact (file_partition sigma cden (cells_of tbl') matching u0 u1 H0 H1 Hc Hok fuel todo cnt0 s'
           Hnd Hle Hrun rn skipped d' Hpr Hresp Hskip (Z.of_N c) Hown' Huniq).
Qed.

(* ---- non-vacuity: the table C11_example_deck computes for the deck
   "1 0 -1 2 imp:n=1" / "2 3 -2.7 #1:3", handed to the conversion ---- *)
Definition exl_tbl : M11.table :=
  [ (1%N, M11.mkCell (M11.AAnd (M11.ASurf (-1) None) (M11.ASurf 2 None)) false);
    (2%N, M11.mkCell (M11.AOr (M11.AOr (M11.ASurf 1 None) (M11.ASurf (-2) None)) (M11.ASurf 3 None)) false) ].
Definition exl_matching : dict (list Z) := [ (1, [1]); (2, [2]); (3, [3]) ].

Lemma exl_ok :
  (forall n c', M11.lookup exl_tbl n = Some c' -> a_known exl_matching (M11.c_geom c') = true) /\
  (forall k ids, lookup k exl_matching = Some ids -> Forall (fun x => x <> 0) ids) /\
  exists s' d', convert_cells 3 (cells_of exl_tbl) exl_matching 5 6 [1; 2] (mkSt 2 [] [] []) = Ok s' /\
                prune 5 6 None (vols s') = Ok d' /\
                map fst (filter (fun kv => negb (v_fict (snd kv))) (written [] d')) = [1; 2].
Proof.
  split; [|split].
  - intros n c' H. unfold M11.lookup, exl_tbl in H. cbn [find fst snd] in H.
    destruct (N.eqb 1 n); [inversion H; reflexivity|].
    destruct (N.eqb 2 n); [inversion H; reflexivity | discriminate].
  - intros k ids H. simpl in H.
    destruct (k =? 1); [inversion H; repeat constructor; lia|].
    destruct (k =? 2); [inversion H; repeat constructor; lia|].
    destruct (k =? 3); [inversion H; repeat constructor; lia | discriminate].
  - eexists. eexists. split; [vm_compute; reflexivity|]. split; vm_compute; reflexivity.
Qed.
