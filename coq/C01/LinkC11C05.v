(* C01: composing the C11 link and the C05 link.
   C05's parsed deck s0 is BUILT from C11's table after complement elimination:
   every C11 tree is translated into C05's tree type (tr5), the other fields of a
   cell card (material, density, importance, universe, FILL, fill transformation)
   come from an attribute function.  Then (i) the trees C05 starts from denote,
   in C05's own Den, C11's mden of the MCNP expressions written on the cards, and
   (ii) the sharpened FILL theorem (LinkFill2) applies to this s0 with its
   structural hypotheses discharged.
   Faithfulness: the converter runs TRCL -> complement -> FILL; C11's elimination
   has no TRCL and C05's TRCL loop has no complement elimination, so the composed
   deck is required to carry no TRCL on its cell cards (fill transformations are
   allowed): for such decks the two orders coincide. *)
From Coq Require Import List ZArith NArith Bool Lia.
From T4V Require C11.Model C11.Spec C11.Proofs C11.Pipeline C11.Handover C11.EndToEnd.
From T4V Require C05.Model C05.Spec C05.Proofs.
From T4V Require Import C01.Model C01.Spec C01.Printer C01.PrinterC C01.ProofsTree C01.ProofsT4
     C01.ProofsCells C01.ProofsPrune C01.ProofsEmpty C01.ProofsWritten C01.ProofsPrinter
     C01.LinkC05 C01.LinkFill2.
Import ListNotations.
Open Scope Z_scope.

Module A11 := C11.Model.
Module S11 := C11.Spec.
Module P11 := C11.Proofs.

(* C11's tree -> C05's tree (no facets in C05's trees) *)
Fixpoint tr5 (a : A11.ast) : M5.tree :=
  match a with
  | A11.ASurf z _ => M5.TSurf z
  | A11.AAnd l r => M5.TNode true [tr5 l; tr5 r]
  | A11.AOr l r => M5.TNode false [tr5 l; tr5 r]
  | A11.ARawAnd l r => M5.TNode true [tr5 l; tr5 r]
  | A11.ACompl n => M5.TCompl (Z.of_N n)
  end.

Fixpoint a_nofacet (a : A11.ast) : bool :=
  match a with
  | A11.ASurf _ sub => match sub with None => true | Some _ => false end
  | A11.AAnd l r | A11.AOr l r | A11.ARawAnd l r => a_nofacet l && a_nofacet r
  | A11.ACompl _ => true
  end.

Section Bridge.
  Variables (T surf P : Type).
  Variable sense : surf -> P -> bool.

  (* the deck C05 starts from *)
  Definition cells5 (tbl : A11.table) (attr : N -> M5.cell T) : list (Z * M5.cell T) :=
    map (fun nc => (Z.of_N (fst nc), M5.with_geom (attr (fst nc)) (tr5 (A11.c_geom (snd nc))))) tbl.

  Definition s0_of (tbl : A11.table) (attr : N -> M5.cell T) (surfs : list (Z * surf)) (nck nsk : Z)
    : M5.state T surf := @M5.mkSt T surf (cells5 tbl attr) surfs nck nsk [] [].

  Lemma dget_cells5 tbl attr k cl : M5.dget k (cells5 tbl attr) = Some cl ->
    exists n c, k = Z.of_N n /\ A11.lookup tbl n = Some c /\
                cl = M5.with_geom (attr n) (tr5 (A11.c_geom c)).
  Proof.
    unfold A11.lookup. induction tbl as [|[m c] r IH]; simpl; [discriminate|].
    destruct (k =? Z.of_N m) eqn:E.
    - apply Z.eqb_eq in E. intros H. inversion H; subst. exists m, c. rewrite N.eqb_refl. auto.
    - intros H. destruct (IH H) as (n & c' & Hk & Hl & Hc). exists n, c'. split; [exact Hk|]. split; [|exact Hc].
      destruct (N.eqb m n) eqn:E2; [|exact Hl]. apply N.eqb_eq in E2. subst.
      rewrite Z.eqb_refl in E. discriminate.
  Qed.

  Lemma tr5_ref_free a : P5.ref_free (tr5 a) = true.
  Proof. induction a; simpl; try reflexivity; now rewrite ?IHa1, ?IHa2. Qed.

  (* C11's sense of MCNP surface n at p, read off C05's surface table *)
  Definition sg5 (surfs : list (Z * surf)) (p : P) : S11.sense := fun n _ =>
    match M5.dget (Z.of_N n) surfs with Some o => sense o p | None => false end.

  Fixpoint a_known5 (surfs : list (Z * surf)) (a : A11.ast) : bool :=
    match a with
    | A11.ASurf z _ => match M5.dget (Z.abs z) surfs with Some _ => true | None => false end
    | A11.AAnd l r | A11.AOr l r | A11.ARawAnd l r => a_known5 surfs l && a_known5 surfs r
    | A11.ACompl _ => true
    end.

  (* C05's value of the translated tree is C11's value of the tree *)
  Lemma Den_tr5 (s : M5.state T surf) p a cd :
    P11.a_plain a = true -> P11.a_nonzero a = true -> a_known5 (M5.s_surfs s) a = true ->
    S5.Den T surf P sense s p (tr5 a) (S11.aden cd (sg5 (M5.s_surfs s) p) a).
  Proof.
    induction a as [z sub|l IHl r IHr|l IHl r IHr|n|l IHl r IHr]; simpl; intros Hp Hz Hk; try discriminate.
    - destruct (M5.dget (Z.abs z) (M5.s_surfs s)) as [o|] eqn:Ed; [|discriminate].
      apply negb_true_iff, Z.eqb_neq in Hz.
      replace (S11.lit_den (sg5 (M5.s_surfs s) p) z sub) with (S5.lit z (sense o p)).
      + now apply S5.DSurf.
      + unfold S5.lit, S11.lit_den, sg5. rewrite N2Z.inj_abs_N, Ed.
        destruct (0 <=? z) eqn:E1; destruct (0 <? z) eqn:E2; try reflexivity; lia.
    - apply andb_true_iff in Hp as [H1 H2]. apply andb_true_iff in Hz as [Z1 Z2].
      apply andb_true_iff in Hk as [K1 K2].
      replace (S11.aden cd _ l && S11.aden cd _ r) with
          (S5.combine_op true [S11.aden cd (sg5 (M5.s_surfs s) p) l; S11.aden cd (sg5 (M5.s_surfs s) p) r])
        by (simpl; now rewrite andb_true_r).
      apply S5.DNode. repeat constructor; auto.
    - apply andb_true_iff in Hp as [H1 H2]. apply andb_true_iff in Hz as [Z1 Z2].
      apply andb_true_iff in Hk as [K1 K2].
      replace (S11.aden cd _ l || S11.aden cd _ r) with
          (S5.combine_op false [S11.aden cd (sg5 (M5.s_surfs s) p) l; S11.aden cd (sg5 (M5.s_surfs s) p) r])
        by (simpl; now rewrite orb_false_r).
      apply S5.DNode. repeat constructor; auto.
  Qed.
End Bridge.

(* ---- the composed statement ---- *)
Theorem cards_fill_linked : forall (cs : list C11.EndToEnd.card) rk,
  Forall C11.EndToEnd.card_ok cs -> C11.Pipeline.table_ranked (C11.EndToEnd.deck_mc cs) rk ->
  exists tbl F tbl',
    C11.EndToEnd.build_table (C11.EndToEnd.deck_cards cs) = A11.Ok tbl /\
    (forall f, (F <= f)%nat -> A11.eliminate_all f tbl = A11.Ok tbl') /\
    forall (T surf P : Type) (sense : surf -> P -> bool) (attr : N -> M5.cell T)
           (surfs : list (Z * surf)) (nck nsk : Z),
      let s0 := s0_of T surf tbl' attr surfs nck nsk in
      (forall n, M5.c_orig (attr n) = []) ->
      (* structural hypotheses of C05's chain, discharged for this s0 *)
      M5.s_cache s0 = [] /\ P5.all_ref_free T surf s0 /\
      (forall c cl, M5.dget c (M5.s_cells s0) = Some cl -> M5.c_orig cl = []) /\
      (* the trees C05 starts from denote the MCNP expressions of the cards *)
      (forall n e p (cd : N -> bool), C11.EndToEnd.deck_mc cs n = Some e ->
         C11.Pipeline.mcnp_meaning (C11.EndToEnd.deck_mc cs) (sg5 surf P sense surfs p) cd ->
         exists c' cl, A11.lookup tbl' n = Some c' /\
           M5.dget (Z.of_N n) (M5.s_cells s0) = Some cl /\
           M5.c_geom cl = tr5 (A11.c_geom c') /\
           (a_known5 surf surfs (A11.c_geom c') = true ->
            S5.Den T surf P sense s0 p (M5.c_geom cl) (S11.mden cd (sg5 surf P sense surfs p) e))).
Proof.
  intros cs rk Hcs Hrk.
  destruct (C11.EndToEnd.deck_end_to_end cs rk Hcs Hrk) as (tbl & F & tbl' & Eb & Ef & Hall).
  exists tbl, F, tbl'. split; [exact Eb|]. split; [exact Ef|].
  intros T surf P sense attr surfs nck nsk s0 Horig.
  split; [reflexivity|]. split; [|split].
  - intros k cl Hd. simpl in Hd. destruct (dget_cells5 T tbl' attr k cl Hd) as (n & c & _ & _ & ->).
    simpl. apply tr5_ref_free.
  - intros k cl Hd. simpl in Hd. destruct (dget_cells5 T tbl' attr k cl Hd) as (n & c & _ & _ & ->).
    simpl. apply Horig.
  - intros n e p cd He Hm. destruct (Hall n e He) as (c' & Hl & Hplain & Hnz & Hden).
    assert (M5.dget (Z.of_N n) (cells5 T tbl' attr) =
            Some (M5.with_geom (attr n) (tr5 (A11.c_geom c')))) as Hd.
    { clear - Hl. unfold A11.lookup in Hl. induction tbl' as [|[m c] r IH]; simpl in *; [discriminate|].
      destruct (N.eqb m n) eqn:E.
      - apply N.eqb_eq in E; subst. inversion Hl; subst. now rewrite Z.eqb_refl.
      - destruct (Z.of_N n =? Z.of_N m) eqn:E2; [|auto].
        apply Z.eqb_eq, N2Z.inj in E2. subst. rewrite N.eqb_refl in E. discriminate. }
    exists c', (M5.with_geom (attr n) (tr5 (A11.c_geom c'))). split; [exact Hl|]. split; [exact Hd|].
    split; [reflexivity|]. intros Hk. simpl. rewrite <- (Hden _ cd Hm).
    apply (Den_tr5 T surf P sense s0 p (A11.c_geom c') cd Hplain Hnz). exact Hk.
Qed.
