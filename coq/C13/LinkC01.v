(* C13 — link with C01 (cell trees -> TRIPOLI-4 volumes -> written table).
   Stage 1 (C13): the cell tables left by cell_stage under two option vectors have
   the same cells with the same provenance / material and the same denotations.
   Stage 2 + 3 (C01): C01_partition, applied to each of the two tables through the
   embedding below, with the renumbering of either option vector (None for
   --skip-deduplication, the de-duplication map otherwise; that such a map gives
   merged surfaces equal senses is C13_dedup_merges_equal, see
   [merged_surfaces_equal_senses]).
   C01's files are used read-only and never imported unqualified (both models
   have a lookup, a res, an equa ...). *)
From Coq Require Import List ZArith Bool Lia Reals Permutation.
From T4V Require C01.Model C01.Spec C01.ProofsTree C01.ProofsT4 C01.ProofsCells C01.ProofsPrune
                 C01.ProofsWritten Properties.C01.
From T4V Require Import Base.Scalar C13.Model C13.Spec C13.Proofs C13.ProofsDedup C13.ProofsFill.
Import ListNotations.
Open Scope Z_scope.

Module M := T4V.C01.Model.
Module S1 := T4V.C01.Spec.

(* ---------- the two dictionaries are the same data structure ---------- *)
Lemma lookup_same {V} (k : Z) (d : list (Z * V)) : M.lookup k d = lookup k d.
Proof.
  induction d as [|[k' v] r IH]; cbn [M.lookup lookup]; [reflexivity|].
  rewrite Z.eqb_sym. destruct (Z.eqb k' k); [reflexivity|exact IH].
Qed.

(* ---------- embedding of C13's cell records into C01's ---------- *)
Fixpoint embed (g : geom) : M.tree M.msurf :=
  match g with
  | GSurf s => M.Leaf (s, None)
  | GRef c => M.Ref c
  | GNode op args => M.Node 0 (if op then M.OInter else M.OUnion) (map embed args)
  end.

Definition embed_cells (d : list (Z * mcell)) : M.dict M.cell :=
  map (fun kv => (fst kv, (embed (cgeom (snd kv)), corigin (snd kv)))) d.

Lemma lookup_embed k d :
  M.lookup k (embed_cells d) = option_map (fun c => (embed (cgeom c), corigin c)) (lookup k d).
Proof.
  induction d as [|[k' c] r IH]; cbn [embed_cells map M.lookup lookup fst snd option_map]; [reflexivity|].
  rewrite Z.eqb_sym. destruct (Z.eqb k' k); [reflexivity|exact IH].
Qed.

(* the sense of an MCNP surface number, read off the TRIPOLI-4 senses through
   `matching` (a collection is positive iff one member is) *)
Definition sigmaM (sigma : Z -> bool) (matching : M.dict (list Z)) (s : Z) : bool :=
  S1.msense sigma matching (s, None).

(* surface leaves C01 accepts, and that `matching` knows (no KeyError) *)
Fixpoint good_geom (matching : M.dict (list Z)) (g : geom) : Prop :=
  match g with
  | GSurf s => C01.ProofsTree.msurf_ok matching (s, None) /\ M.lookup (Z.abs s) matching <> None
  | GRef _ => True
  | GNode _ args => (fix go l := match l with [] => True | x :: r => good_geom matching x /\ go r end) args
  end.

Lemma good_geom_node matching op args :
  good_geom matching (GNode op args) <-> Forall (good_geom matching) args.
Proof.
  cbn [good_geom]. induction args as [|x r IH]; [split; intros; [constructor|exact I]|].
  split; intros H.
  - destruct H as [H1 H2]. constructor; [exact H1|apply IH; exact H2].
  - inversion H; subst. split; [assumption|apply IH; assumption].
Qed.

Lemma embed_leaves_ok matching g : good_geom matching g ->
  C01.ProofsTree.leaves_ok (C01.ProofsTree.msurf_ok matching) (embed g).
Proof.
  induction g as [s|c|op args IH] using geom_ind'; intros H; cbn [embed].
  - exact (proj1 H).
  - exact I.
  - apply C01.ProofsTree.leaves_ok_node. apply good_geom_node in H.
    rewrite Forall_forall in *. intros x Hx. apply in_map_iff in Hx. destruct Hx as [a [<- Ha]]. auto.
Qed.

(* the two readings of a tree agree *)
Lemma embed_den sigma rho matching g : good_geom matching g ->
  S1.mden sigma rho matching (embed g) = geval (sigmaM sigma matching) rho g.
Proof.
  induction g as [s|c|op args IH] using geom_ind'; intros H; cbn [embed S1.mden geval].
  - destruct H as [[Hnz _] Hin]. cbn [fst] in Hnz. unfold lit, sigmaM, S1.msense.
    destruct (Z.leb 0 s) eqn:E.
    + reflexivity.
    + apply Z.leb_gt in E. rewrite Z.abs_opp.
      destruct (M.lookup (Z.abs s) matching) as [ids|]; [|congruence].
      assert (E1 : (0 <? s) = false) by (apply Z.ltb_ge; lia).
      assert (E2 : (0 <? - s) = true) by (apply Z.ltb_lt; lia). rewrite E1, E2. reflexivity.
  - reflexivity.
  - apply good_geom_node in H.
    assert (Hall : forall a, In a args -> S1.mden sigma rho matching (embed a) = geval (sigmaM sigma matching) rho a).
    { intros a Ha. rewrite Forall_forall in IH, H. apply IH; auto. }
    clear IH H. destruct op; cbn [S1.mden geval]; induction args as [|a l IHl]; cbn; try reflexivity;
      rewrite (Hall a (or_introl eq_refl)), IHl; auto; intros; apply Hall; right; auto.
Qed.

Definition good_cells (matching : M.dict (list Z)) (d : list (Z * mcell)) : Prop :=
  forall k c, lookup k d = Some c -> good_geom matching (cgeom c).

(* a model of a C13 cell table is what C01 asks of its [cden] *)
Lemma model_is_c01_cden sigma rho matching d : good_cells matching d ->
  is_model (sigmaM sigma matching) rho d ->
  forall c g orig, M.lookup c (embed_cells d) = Some (g, orig) ->
    C01.ProofsTree.leaves_ok (C01.ProofsTree.msurf_ok matching) g /\ rho c = S1.mden sigma rho matching g.
Proof.
  intros Hg Hm c g orig Hl. rewrite lookup_embed in Hl.
  destruct (lookup c d) as [cl|] eqn:E; [|discriminate]. cbn [option_map] in Hl. injection Hl as <- <-.
  split; [apply embed_leaves_ok; exact (Hg _ _ E)|].
  rewrite (embed_den _ _ _ _ (Hg _ _ E)). exact (Hm _ _ E).
Qed.

(* ---------- what C13 offers C01: merged surfaces have equal senses ---------- *)
(* C01's hypothesis [respects sigma rn] for the renumbering the de-duplication
   returns, for the senses induced by ANY function of the surface descriptors *)
Theorem merged_surfaces_equal_senses (sense : desc R -> bool) (surfs : list (Z * desc R)) :
  NoDup (map fst surfs) ->
  C01.ProofsPrune.respects (sense_of sense surfs) (snd (remove_duplicate_surfaces RS surfs)).
Proof.
  intros Hn x y Hl. rewrite lookup_same in Hl. apply lookup_In in Hl.
  destruct (dedup_merges_equal surfs x y Hl) as [d [Hx [Hy _]]].
  unfold sense_of. rewrite (In_lookup _ _ _ Hn Hx), (In_lookup _ _ _ Hn Hy). reflexivity.
Qed.

(* ---------- inlining keeps everything of a cell but its geometry ---------- *)
Lemma inline_loop_tags fuel ti : forall keys d d', inline_loop fuel ti keys d = Ok d' ->
  forall k c', lookup k d' = Some c' -> exists c, lookup k d = Some c /\ tag c' = tag c.
Proof.
  induction keys as [|k0 r IH]; intros d d' H k c' Hl; cbn [inline_loop] in H.
  - injection H as <-. eauto.
  - destruct (lookup k0 d) as [c0|] eqn:E0; [|discriminate].
    destruct (inline_worker fuel d ti (cgeom c0)) as [g'|e]; [|discriminate].
    destruct (IH _ _ H _ _ Hl) as [c1 [H1 Ht]]. rewrite lookup_update in H1.
    destruct (Z.eqb k0 k) eqn:E.
    + apply Z.eqb_eq in E; subst k0. injection H1 as <-. exists c0. split; [exact E0|]. rewrite Ht. reflexivity.
    + exists c1. auto.
Qed.

Lemma inline_cells_tags fuel ti d d' : inline_cells fuel ti d = Ok d' ->
  forall k c', lookup k d' = Some c' -> exists c, lookup k d = Some c /\ tag c' = tag c.
Proof.
  unfold inline_cells. destruct ti; [intros H; injection H as <-; eauto|apply inline_loop_tags].
Qed.

(* stage 1 with provenance: same cells, same tags, same denotations *)
Lemma cell_stage_same fuel (o1 o2 : options) dic counter d1 c1 d2 c2 :
  (forall k, lookup k dic <> None -> k <= counter) -> (exists rank, acyclic rank dic) ->
  cell_stage fuel o1 dic counter = Ok (d1, c1) -> cell_stage fuel o2 dic counter = Ok (d2, c2) ->
  (forall k a b, lookup k d1 = Some a -> lookup k d2 = Some b -> tag a = tag b) /\
  (forall k, lookup k d1 <> None <-> lookup k d2 <> None) /\
  exists r1 r2, acyclic r1 d1 /\ acyclic r2 d2 /\
    forall sigma k, lookup k d1 <> None -> cden r1 sigma d1 k = cden r2 sigma d2 k.
Proof.
  intros Hb Hac H1 H2.
  destruct (options_same_cells fuel o1 o2 dic counter d1 c1 d2 c2 Hb Hac H1 H2) as [_ [Hk Hrest]].
  split; [|split; [|exact Hrest]].
  - unfold cell_stage in H1, H2.
    pose proof (fill_flags_lockstep fuel (inline_filled o1) (inline_filling o1) (inline_filled o2)
                  (inline_filling o2) dic counter Hb) as Hl.
    destruct (fill_loop fuel (inline_filled o1) (inline_filling o1) dic (fill_keys dic) (dic, counter))
      as [[p1 q1]|e1]; [|discriminate].
    destruct (fill_loop fuel (inline_filled o2) (inline_filling o2) dic (fill_keys dic) (dic, counter))
      as [[p2 q2]|e2]; [|discriminate].
    destruct Hl as [_ [Hsh _]].
    destruct (inline_cells fuel (to_inline o1) p1) as [i1|] eqn:I1; [|discriminate].
    destruct (inline_cells fuel (to_inline o2) p2) as [i2|] eqn:I2; [|discriminate].
    injection H1 as -> _. injection H2 as -> _.
    intros k a b Ha Hb'. destruct (inline_cells_tags _ _ _ _ I1 _ _ Ha) as [a0 [Ha0 Hta]].
    destruct (inline_cells_tags _ _ _ _ I2 _ _ Hb') as [b0 [Hb0 Htb]].
    pose proof (shape_lookup p1 p2 k Hsh) as Hs. rewrite Ha0, Hb0 in Hs. congruence.
  - intros k. rewrite !lookup_keys, Hk. tauto.
Qed.

(* ---------- the linked statement ---------- *)
(* For any two option vectors: stage 1 gives the cell tables d1, d2; C01's
   conversion loop runs on each (embedded), then C01's prune with the renumbering
   of that option vector (any map that gives merged surfaces equal senses, or
   none), then the writer's skipped-cells filter.  If cell c owns the sense
   assignment sigma (its denotation is true and no other listed cell contains
   sigma), then in BOTH written tables sigma lies in exactly the same non-FICTIVE
   volumes - the one numbered c when c is listed, none otherwise - and cell c
   carries the same provenance and material in both cell tables. *)
Theorem options_same_written_linked
  fuel (o1 o2 : options) dic counter d1 c1 d2 c2
  sigma matching u0 u1 cfuel todo cnt0 s1 s2 rn1 rn2 skipped w1 w2 c :
  (forall k, lookup k dic <> None -> k <= counter) -> (exists rank, acyclic rank dic) ->
  cell_stage fuel o1 dic counter = Ok (d1, c1) -> cell_stage fuel o2 dic counter = Ok (d2, c2) ->
  0 < u0 -> 0 < u1 -> S1.consistent sigma u0 u1 ->
  good_cells matching d1 -> good_cells matching d2 ->
  NoDup todo -> (forall k, In k todo -> k <= cnt0) -> (forall k, In k todo -> lookup k d1 <> None) ->
  M.convert_cells cfuel (embed_cells d1) matching u0 u1 todo (M.mkSt cnt0 [] [] []) = M.Ok s1 ->
  M.convert_cells cfuel (embed_cells d2) matching u0 u1 todo (M.mkSt cnt0 [] [] []) = M.Ok s2 ->
  M.prune u0 u1 rn1 (M.vols s1) = M.Ok w1 -> M.prune u0 u1 rn2 (M.vols s2) = M.Ok w2 ->
  (forall r, rn1 = Some r -> C01.ProofsPrune.respects sigma r) ->
  (forall r, rn2 = Some r -> C01.ProofsPrune.respects sigma r) ->
  (forall k, In k skipped -> k <= cnt0 /\ ~ In k todo) ->
  lookup c d1 <> None ->
  exists r1, acyclic r1 d1 /\
  (cden r1 (sigmaM sigma matching) d1 c = true ->
   (forall c', In c' todo -> cden r1 (sigmaM sigma matching) d1 c' = true -> c' = c) ->
   (forall k, C01.ProofsCells.in_volume sigma (M.written skipped w1) k <->
              C01.ProofsCells.in_volume sigma (M.written skipped w2) k) /\
   (In c todo -> forall k, C01.ProofsCells.in_volume sigma (M.written skipped w1) k <-> k = c) /\
   (~ In c todo -> forall k, ~ C01.ProofsCells.in_volume sigma (M.written skipped w1) k) /\
   (forall a b, lookup c d1 = Some a -> lookup c d2 = Some b ->
      corigin a = corigin b /\ cmat a = cmat b)).
Proof.
  intros Hb Hac H1 H2 Hu0 Hu1 Hcons Hg1 Hg2 Hnd Hle Hin Hc1 Hc2 Hp1 Hp2 Hr1 Hr2 Hsk Hc.
  destruct (cell_stage_same fuel o1 o2 dic counter d1 c1 d2 c2 Hb Hac H1 H2)
    as [Htag [Hdom [r1 [r2 [Ha1 [Ha2 Hden]]]]]].
  exists r1. split; [exact Ha1|]. intros Hown Huniq.
  set (sM := sigmaM sigma matching) in *.
  set (rho1 := cden r1 sM d1). set (rho2 := cden r2 sM d2).
  pose proof (model_is_c01_cden sigma rho1 matching d1 Hg1 (cden_model r1 sM d1 Ha1)) as Hok1.
  pose proof (model_is_c01_cden sigma rho2 matching d2 Hg2 (cden_model r2 sM d2 Ha2)) as Hok2.
  assert (Hown2 : rho2 c = true) by (unfold rho2; rewrite <- (Hden sM c Hc); exact Hown).
  assert (Huniq2 : forall c', In c' todo -> rho2 c' = true -> c' = c).
  { intros c' Hi Ht. apply (Huniq c' Hi). unfold rho2 in Ht. rewrite <- (Hden sM c' (Hin _ Hi)) in Ht. exact Ht. }
  destruct (T4V.Properties.C01.C01_partition sigma rho1 (embed_cells d1) matching u0 u1 cfuel todo cnt0 s1 rn1
              skipped w1 c Hu0 Hu1 Hcons Hok1 Hnd Hle Hc1 Hp1 Hr1 Hsk Hown Huniq) as [P1 N1].
  destruct (T4V.Properties.C01.C01_partition sigma rho2 (embed_cells d2) matching u0 u1 cfuel todo cnt0 s2 rn2
              skipped w2 c Hu0 Hu1 Hcons Hok2 Hnd Hle Hc2 Hp2 Hr2 Hsk Hown2 Huniq2) as [P2 N2].
  split; [|split; [exact P1|split; [exact N1|]]].
  - intros k. destruct (in_dec Z.eq_dec c todo) as [Hi|Hn].
    + rewrite (P1 Hi k), (P2 Hi k). tauto.
    + split; intros Hk; exfalso; [exact (N1 Hn k Hk)|exact (N2 Hn k Hk)].
  - intros a b Ha Hb'. pose proof (Htag c a b Ha Hb') as Ht. unfold tag in Ht. split; congruence.
Qed.

(* ---------- the surfaces of the tables after stage 1 are those before ---------- *)
Lemma worker_good matching dic ti : good_cells matching dic ->
  forall fuel g g', inline_worker fuel dic ti g = Ok g' -> good_geom matching g -> good_geom matching g'.
Proof.
  intros Hd. induction fuel as [|f IH]; intros g g' H Hg; cbn [inline_worker] in H; [discriminate|].
  destruct g as [s|c|op args]; try (injection H as <-; exact Hg).
  destruct (map_res _ args) as [args'|e] eqn:Em; [|discriminate]. injection H as <-.
  apply map_res_ok in Em. apply good_geom_node in Hg. apply good_geom_node.
  induction Em as [|a b r r' Hab _ IHr]; [constructor|].
  inversion Hg as [|? ? Ha Hr]; subst. constructor; [|exact (IHr Hr)].
  destruct a as [s|c|op' l]; cbn [inline_arg] in Hab.
  - injection Hab as <-. exact Ha.
  - destruct (memZ c ti); [|injection Hab as <-; exact Ha].
    destruct (lookup c dic) as [sub|] eqn:El; [|discriminate]. exact (IH _ _ Hab (Hd _ _ El)).
  - exact (IH _ _ Hab Ha).
Qed.

Lemma inline_loop_good matching fuel ti : forall keys d d', inline_loop fuel ti keys d = Ok d' ->
  good_cells matching d -> good_cells matching d'.
Proof.
  induction keys as [|k0 r IH]; intros d d' H Hg; cbn [inline_loop] in H.
  - injection H as <-. exact Hg.
  - destruct (lookup k0 d) as [c0|] eqn:E0; [|discriminate].
    destruct (inline_worker fuel d ti (cgeom c0)) as [g'|e] eqn:Ew; [|discriminate].
    apply (IH _ _ H). intros k c Hl. rewrite lookup_update in Hl. destruct (Z.eqb k0 k); [|exact (Hg _ _ Hl)].
    injection Hl as <-. cbn [set_geom cgeom]. exact (worker_good matching d ti Hg _ _ _ Ew (Hg _ _ E0)).
Qed.

Lemma make_cells_good matching fd fg key cell : forall elts st acc ks st',
  make_cells fd fg key cell elts st acc = Ok (ks, st') ->
  good_geom matching (cgeom cell) -> good_cells matching (fst st) -> good_cells matching (fst st').
Proof.
  induction elts as [|e r IH]; intros st acc ks st' H Hc Hg; cbn [make_cells] in H.
  - injection H as _ <-. exact Hg.
  - destruct (lookup e (fst st)) as [ec|] eqn:Ee; [|discriminate].
    apply (IH _ _ _ _ H Hc). cbn [fst]. intros k c Hl. rewrite lookup_update in Hl.
    destruct (Z.eqb (snd st + 1) k); [|exact (Hg _ _ Hl)].
    injection Hl as <-. unfold filled_cell, fill_geometry. cbn [cgeom]. apply good_geom_node.
    constructor; [destruct fd; [exact Hc|exact I]|]. constructor; [|constructor].
    destruct fg; [exact (Hg _ _ Ee)|exact I].
Qed.

Lemma fill_each_good matching rec :
  (forall e s ks s', rec e s = Ok (ks, s') -> good_cells matching (fst s) -> good_cells matching (fst s')) ->
  forall elts st ks st', fill_each rec elts st = Ok (ks, st') ->
  good_cells matching (fst st) -> good_cells matching (fst st').
Proof.
  intros Hrec. induction elts as [|e r IH]; intros st ks st' H Hg; cbn [fill_each] in H.
  - injection H as _ <-. exact Hg.
  - destruct (rec e st) as [[ks1 st1]|er] eqn:E1; [|discriminate].
    destruct (fill_each rec r st1) as [[ks2 st2]|er] eqn:E2; [|discriminate].
    injection H as _ <-. exact (IH _ _ _ E2 (Hrec _ _ _ _ E1 Hg)).
Qed.

Lemma pot_fill_good matching fd fg dic0 : forall fuel key st ks st',
  pot_fill fuel fd fg dic0 key st = Ok (ks, st') -> (forall k, lookup k (fst st) <> None -> k <= snd st) ->
  good_cells matching (fst st) -> good_cells matching (fst st').
Proof.
  induction fuel as [|f IH]; intros key st ks st' H Hb Hg; cbn [pot_fill] in H; [discriminate|].
  destruct (lookup key (fst st)) as [cell|] eqn:Ek; [|discriminate].
  destruct (cfill cell) as [u|]; [|injection H as _ <-; exact Hg].
  destruct (fill_each _ _ st) as [[tp st1]|er] eqn:E1; [|discriminate].
  apply (make_cells_good matching _ _ _ _ _ _ _ _ _ H (Hg _ _ Ek)).
  (* bounded is carried along by ext *)
  assert (Hgen : forall elts s ks0 s0, fill_each (pot_fill f fd fg dic0) elts s = Ok (ks0, s0) ->
             bounded s -> good_cells matching (fst s) -> good_cells matching (fst s0)).
  { induction elts as [|e r IHr]; intros s ks0 s0 He Hbs Hgs; cbn [fill_each] in He.
    - injection He as _ <-. exact Hgs.
    - destruct (pot_fill f fd fg dic0 e s) as [[ks1 s1]|er] eqn:Ep; [|discriminate].
      destruct (fill_each (pot_fill f fd fg dic0) r s1) as [[ks2 s2]|er] eqn:Er; [|discriminate].
      injection He as _ <-. apply (IHr _ _ _ Er).
      + exact (proj1 (pot_fill_ext _ _ _ _ _ _ _ _ Ep Hbs)).
      + exact (IH _ _ _ _ Ep Hbs Hgs). }
  exact (Hgen _ _ _ _ E1 Hb Hg).
Qed.

Lemma cell_stage_good matching fuel o dic counter d c :
  (forall k, lookup k dic <> None -> k <= counter) -> good_cells matching dic ->
  cell_stage fuel o dic counter = Ok (d, c) -> good_cells matching d.
Proof.
  intros Hb Hg H. unfold cell_stage in H.
  destruct (fill_loop fuel (inline_filled o) (inline_filling o) dic (fill_keys dic) (dic, counter))
    as [[p q]|e] eqn:F; [|discriminate].
  destruct (inline_cells fuel (to_inline o) p) as [i|] eqn:I; [|discriminate]. injection H as <- _.
  assert (Hp : good_cells matching p).
  { assert (Hgen : forall keys st st', fill_loop fuel (inline_filled o) (inline_filling o) dic keys st = Ok st' ->
               bounded st -> good_cells matching (fst st) -> good_cells matching (fst st')).
    { induction keys as [|k r IH]; intros st st' Hf Hbs Hgs; cbn [fill_loop] in Hf.
      - injection Hf as <-. exact Hgs.
      - destruct (pot_fill fuel (inline_filled o) (inline_filling o) dic k st) as [[ks s1]|e] eqn:Ep; [|discriminate].
        apply (IH _ _ Hf).
        + exact (proj1 (pot_fill_ext _ _ _ _ _ _ _ _ Ep Hbs)).
        + exact (pot_fill_good matching _ _ _ _ _ _ _ _ Ep Hbs Hgs). }
    exact (Hgen _ _ _ F Hb Hg). }
  unfold inline_cells in I. destruct (to_inline o); [injection I as <-; exact Hp|].
  exact (inline_loop_good matching _ _ _ _ _ I Hp).
Qed.

(* the linked statement with the surface hypothesis on the INPUT table only *)
Theorem options_same_written_linked_input
  fuel (o1 o2 : options) dic counter d1 c1 d2 c2
  sigma matching u0 u1 cfuel todo cnt0 s1 s2 rn1 rn2 skipped w1 w2 c :
  (forall k, lookup k dic <> None -> k <= counter) -> (exists rank, acyclic rank dic) ->
  good_cells matching dic ->
  cell_stage fuel o1 dic counter = Ok (d1, c1) -> cell_stage fuel o2 dic counter = Ok (d2, c2) ->
  0 < u0 -> 0 < u1 -> S1.consistent sigma u0 u1 ->
  NoDup todo -> (forall k, In k todo -> k <= cnt0) -> (forall k, In k todo -> lookup k d1 <> None) ->
  M.convert_cells cfuel (embed_cells d1) matching u0 u1 todo (M.mkSt cnt0 [] [] []) = M.Ok s1 ->
  M.convert_cells cfuel (embed_cells d2) matching u0 u1 todo (M.mkSt cnt0 [] [] []) = M.Ok s2 ->
  M.prune u0 u1 rn1 (M.vols s1) = M.Ok w1 -> M.prune u0 u1 rn2 (M.vols s2) = M.Ok w2 ->
  (forall r, rn1 = Some r -> C01.ProofsPrune.respects sigma r) ->
  (forall r, rn2 = Some r -> C01.ProofsPrune.respects sigma r) ->
  (forall k, In k skipped -> k <= cnt0 /\ ~ In k todo) ->
  lookup c d1 <> None ->
  exists r1, acyclic r1 d1 /\
  (cden r1 (sigmaM sigma matching) d1 c = true ->
   (forall c', In c' todo -> cden r1 (sigmaM sigma matching) d1 c' = true -> c' = c) ->
   (forall k, C01.ProofsCells.in_volume sigma (M.written skipped w1) k <->
              C01.ProofsCells.in_volume sigma (M.written skipped w2) k) /\
   (In c todo -> forall k, C01.ProofsCells.in_volume sigma (M.written skipped w1) k <-> k = c) /\
   (~ In c todo -> forall k, ~ C01.ProofsCells.in_volume sigma (M.written skipped w1) k) /\
   (forall a b, lookup c d1 = Some a -> lookup c d2 = Some b ->
      corigin a = corigin b /\ cmat a = cmat b)).
Proof.
  intros Hb Hac Hg H1 H2 Hu0 Hu1 Hcons Hnd Hle Hin Hc1 Hc2 Hp1 Hp2 Hr1 Hr2 Hsk Hc.
  exact (options_same_written_linked fuel o1 o2 dic counter d1 c1 d2 c2
           sigma matching u0 u1 cfuel todo cnt0 s1 s2 rn1 rn2 skipped w1 w2 c
           Hb Hac H1 H2 Hu0 Hu1 Hcons
           (cell_stage_good matching fuel o1 dic counter d1 c1 Hb Hg H1)
           (cell_stage_good matching fuel o2 dic counter d2 c2 Hb Hg H2)
           Hnd Hle Hin Hc1 Hc2 Hp1 Hp2 Hr1 Hr2 Hsk Hc).
Qed.

(* non-vacuity: the table of C13_example_options (container 1 with FILL=1, cell 2,
   fillers 10 and 11), default options against both inline flags + {1, 10} inlined,
   converted by C01's loop and pruned without / with a renumbering *)
Definition ex_dic : list (Z * mcell) :=
  [(1, mkCell 0 (Some 1) (GNode true [GSurf (-1)])); (2, mkCell 0 None (GNode true [GSurf 1]));
   (10, mkCell 1 None (GNode true [GSurf (-2)])); (11, mkCell 1 None (GNode true [GSurf 2]))].
Definition ex_matching : M.dict (list Z) := [(1, [1]); (2, [2])].

Lemma ex_good : good_cells ex_matching ex_dic.
Proof.
  intros k c H. unfold ex_dic in H. cbn [lookup] in H.
  repeat (match type of H with
          | (if ?b then _ else _) = _ => destruct b; [injection H as <-|]
          end); try discriminate;
  cbn; (split; [|exact I]); (split; [|discriminate]);
  (split; [cbn; lia|]); (split; [|intros ? ?; discriminate]);
  intros ids Hi; cbn in Hi; injection Hi as <-; repeat constructor; lia.
Qed.

Lemma ex_linked_runs :
  exists d1 d2 s1 s2 w1 w2,
    cell_stage 10 (mkOptions false false false []) ex_dic 11 = Ok (d1, 13) /\
    cell_stage 10 (mkOptions true true true [1; 10]) ex_dic 11 = Ok (d2, 13) /\
    M.convert_cells 6 (embed_cells d1) ex_matching 3 4 [2; 12; 13] (M.mkSt 13 [] [] []) = M.Ok s1 /\
    M.convert_cells 6 (embed_cells d2) ex_matching 3 4 [2; 12; 13] (M.mkSt 13 [] [] []) = M.Ok s2 /\
    M.prune 3 4 (Some [(1, 1); (2, 2); (3, 3); (4, 4)]) (M.vols s1) = M.Ok w1 /\
    M.prune 3 4 None (M.vols s2) = M.Ok w2 /\
    map fst (filter (fun kv => negb (M.v_fict (snd kv))) w1) = [2; 12; 13] /\
    map fst (filter (fun kv => negb (M.v_fict (snd kv))) w2) = [2; 12; 13].
Proof. do 6 eexists. repeat split; vm_compute; reflexivity. Qed.

(* the renumbering of an option vector: none with --skip-deduplication, else the
   map remove_duplicate_surfaces returns for the surface table *)
Definition renumbering_of (o : options) (surfs : list (Z * desc R)) : option (M.dict Z) :=
  if skip_dedup o then None else Some (snd (remove_duplicate_surfaces RS surfs)).

(* ... with C01's [respects] hypotheses discharged by C13's de-duplication theorem:
   sigma is the sense assignment induced on the TRIPOLI-4 surface table by any
   function of the descriptors (the sign of the implicit function at a point) *)
Theorem options_same_written_dedup_linked
  (sense : desc R -> bool) surfs
  fuel (o1 o2 : options) dic counter d1 c1 d2 c2
  matching u0 u1 cfuel todo cnt0 s1 s2 skipped w1 w2 c :
  NoDup (map fst surfs) ->
  (forall k, lookup k dic <> None -> k <= counter) -> (exists rank, acyclic rank dic) ->
  good_cells matching dic ->
  cell_stage fuel o1 dic counter = Ok (d1, c1) -> cell_stage fuel o2 dic counter = Ok (d2, c2) ->
  0 < u0 -> 0 < u1 -> S1.consistent (sense_of sense surfs) u0 u1 ->
  NoDup todo -> (forall k, In k todo -> k <= cnt0) -> (forall k, In k todo -> lookup k d1 <> None) ->
  M.convert_cells cfuel (embed_cells d1) matching u0 u1 todo (M.mkSt cnt0 [] [] []) = M.Ok s1 ->
  M.convert_cells cfuel (embed_cells d2) matching u0 u1 todo (M.mkSt cnt0 [] [] []) = M.Ok s2 ->
  M.prune u0 u1 (renumbering_of o1 surfs) (M.vols s1) = M.Ok w1 ->
  M.prune u0 u1 (renumbering_of o2 surfs) (M.vols s2) = M.Ok w2 ->
  (forall k, In k skipped -> k <= cnt0 /\ ~ In k todo) ->
  lookup c d1 <> None ->
  exists r1, acyclic r1 d1 /\
  (cden r1 (sigmaM (sense_of sense surfs) matching) d1 c = true ->
   (forall c', In c' todo -> cden r1 (sigmaM (sense_of sense surfs) matching) d1 c' = true -> c' = c) ->
   (forall k, C01.ProofsCells.in_volume (sense_of sense surfs) (M.written skipped w1) k <->
              C01.ProofsCells.in_volume (sense_of sense surfs) (M.written skipped w2) k) /\
   (In c todo -> forall k, C01.ProofsCells.in_volume (sense_of sense surfs) (M.written skipped w1) k <-> k = c) /\
   (~ In c todo -> forall k, ~ C01.ProofsCells.in_volume (sense_of sense surfs) (M.written skipped w1) k) /\
   (forall a b, lookup c d1 = Some a -> lookup c d2 = Some b ->
      corigin a = corigin b /\ cmat a = cmat b)).
Proof.
  intros Hns Hb Hac Hg H1 H2 Hu0 Hu1 Hcons Hnd Hle Hin Hc1 Hc2 Hp1 Hp2 Hsk Hc.
  assert (Hresp : forall o r, renumbering_of o surfs = Some r ->
                    C01.ProofsPrune.respects (sense_of sense surfs) r).
  { intros o r Hr. unfold renumbering_of in Hr. destruct (skip_dedup o); [discriminate|].
    injection Hr as <-. apply merged_surfaces_equal_senses. exact Hns. }
  exact (options_same_written_linked_input fuel o1 o2 dic counter d1 c1 d2 c2
           (sense_of sense surfs) matching u0 u1 cfuel todo cnt0 s1 s2
           (renumbering_of o1 surfs) (renumbering_of o2 surfs) skipped w1 w2 c
           Hb Hac Hg H1 H2 Hu0 Hu1 Hcons Hnd Hle Hin Hc1 Hc2 Hp1 Hp2 (Hresp o1) (Hresp o2) Hsk Hc).
Qed.

(* ---------- provenance and composition of the WRITTEN volumes ---------- *)
From T4V Require C13.LinkC01Orig C01.ProofsWritten.

Definition is_gnode (g : geom) : Prop := match g with GNode _ _ => True | _ => False end.

(* Under the hypotheses of the linked theorem, for the owner cell c (listed, its
   geometry an operator node in both tables, as pot_fill builds them): both
   written tables contain a non-FICTIVE volume numbered c, sigma lies in it, and
   its idorigin (the comment written after ENDV) is the provenance of cell c - the
   same in both; the material (GEOMCOMP is keyed by the volume number c) is the
   same too. *)
Theorem options_same_written_provenance
  fuel (o1 o2 : options) dic counter d1 c1 d2 c2
  sigma matching u0 u1 cfuel todo cnt0 s1 s2 rn1 rn2 skipped w1 w2 c a b :
  (forall k, lookup k dic <> None -> k <= counter) -> (exists rank, acyclic rank dic) ->
  good_cells matching dic ->
  cell_stage fuel o1 dic counter = Ok (d1, c1) -> cell_stage fuel o2 dic counter = Ok (d2, c2) ->
  0 < u0 -> 0 < u1 -> S1.consistent sigma u0 u1 ->
  NoDup todo -> (forall k, In k todo -> k <= cnt0) -> (forall k, In k todo -> lookup k d1 <> None) ->
  M.convert_cells cfuel (embed_cells d1) matching u0 u1 todo (M.mkSt cnt0 [] [] []) = M.Ok s1 ->
  M.convert_cells cfuel (embed_cells d2) matching u0 u1 todo (M.mkSt cnt0 [] [] []) = M.Ok s2 ->
  M.prune u0 u1 rn1 (M.vols s1) = M.Ok w1 -> M.prune u0 u1 rn2 (M.vols s2) = M.Ok w2 ->
  (forall r, rn1 = Some r -> C01.ProofsPrune.respects sigma r) ->
  (forall r, rn2 = Some r -> C01.ProofsPrune.respects sigma r) ->
  (forall k, In k skipped -> k <= cnt0 /\ ~ In k todo) ->
  In c todo -> lookup c d1 = Some a -> lookup c d2 = Some b ->
  is_gnode (cgeom a) -> is_gnode (cgeom b) ->
  exists r1, acyclic r1 d1 /\
  (cden r1 (sigmaM sigma matching) d1 c = true ->
   (forall c', In c' todo -> cden r1 (sigmaM sigma matching) d1 c' = true -> c' = c) ->
   exists v1 v2,
     M.lookup c (M.written skipped w1) = Some v1 /\ M.lookup c (M.written skipped w2) = Some v2 /\
     M.v_fict v1 = false /\ M.v_fict v2 = false /\
     C01.ProofsCells.in_volume sigma (M.written skipped w1) c /\
     C01.ProofsCells.in_volume sigma (M.written skipped w2) c /\
     M.v_orig v1 = corigin a /\ M.v_orig v2 = corigin a /\ cmat a = cmat b).
Proof.
  intros Hb Hac Hg H1 H2 Hu0 Hu1 Hcons Hnd Hle Hin Hc1 Hc2 Hp1 Hp2 Hr1 Hr2 Hsk Hct Ha Hbb Hna Hnb.
  assert (Hc : lookup c d1 <> None) by congruence.
  destruct (cell_stage_same fuel o1 o2 dic counter d1 c1 d2 c2 Hb Hac H1 H2)
    as [Htag [Hdom [r1 [r2 [Ha1 [Ha2 Hden]]]]]].
  exists r1. split; [exact Ha1|]. intros Hown Huniq.
  set (sM := sigmaM sigma matching) in *.
  set (rho1 := cden r1 sM d1). set (rho2 := cden r2 sM d2).
  pose proof (cell_stage_good matching fuel o1 dic counter d1 c1 Hb Hg H1) as Hg1.
  pose proof (cell_stage_good matching fuel o2 dic counter d2 c2 Hb Hg H2) as Hg2.
  pose proof (model_is_c01_cden sigma rho1 matching d1 Hg1 (cden_model r1 sM d1 Ha1)) as Hok1.
  pose proof (model_is_c01_cden sigma rho2 matching d2 Hg2 (cden_model r2 sM d2 Ha2)) as Hok2.
  assert (Hown2 : rho2 c = true) by (unfold rho2; rewrite <- (Hden sM c Hc); exact Hown).
  assert (Huniq2 : forall c', In c' todo -> rho2 c' = true -> c' = c).
  { intros c' Hi Ht. apply (Huniq c' Hi). unfold rho2 in Ht. rewrite <- (Hden sM c' (Hin _ Hi)) in Ht. exact Ht. }
  destruct (T4V.Properties.C01.C01_partition sigma rho1 (embed_cells d1) matching u0 u1 cfuel todo cnt0 s1 rn1
              skipped w1 c Hu0 Hu1 Hcons Hok1 Hnd Hle Hc1 Hp1 Hr1 Hsk Hown Huniq) as [P1 _].
  destruct (T4V.Properties.C01.C01_partition sigma rho2 (embed_cells d2) matching u0 u1 cfuel todo cnt0 s2 rn2
              skipped w2 c Hu0 Hu1 Hcons Hok2 Hnd Hle Hc2 Hp2 Hr2 Hsk Hown2 Huniq2) as [P2 _].
  pose proof (proj2 (P1 Hct c) eq_refl) as I1. pose proof (proj2 (P2 Hct c) eq_refl) as I2.
  destruct I1 as [v1 [L1 [F1 D1]]]. destruct I2 as [v2 [L2 [F2 D2]]].
  exists v1, v2. split; [exact L1|]. split; [exact L2|]. split; [exact F1|]. split; [exact F2|].
  split; [exists v1; auto|]. split; [exists v2; auto|].
  (* provenance: back through prune/written to the conversion loop, then to the cell *)
  assert (Horig : forall d rho s rn w v (cl : mcell),
            (forall c0 g orig, M.lookup c0 (embed_cells d) = Some (g, orig) ->
               C01.ProofsTree.leaves_ok (C01.ProofsTree.msurf_ok matching) g /\
               rho c0 = S1.mden sigma rho matching g) ->
            M.convert_cells cfuel (embed_cells d) matching u0 u1 todo (M.mkSt cnt0 [] [] []) = M.Ok s ->
            M.prune u0 u1 rn (M.vols s) = M.Ok w ->
            M.lookup c (M.written skipped w) = Some v ->
            lookup c d = Some cl -> is_gnode (cgeom cl) -> M.v_orig v = corigin cl).
  { intros d rho s rn w v cl Hok Hrun Hpr Hl Hcl Hn.
    pose proof (C01.ProofsWritten.convert_cells_keys _ _ _ _ _ _ _ _ Hrun) as Hk.
    destruct (T4V.C13.LinkC01Orig.written_orig u0 u1 rn skipped (M.vols s) w c v Hk Hpr Hl) as [v0 [L0 E0]].
    rewrite E0.
    apply (T4V.C13.LinkC01Orig.convert_cells_orig sigma rho (embed_cells d) matching u0 u1 Hu0 Hu1 Hcons Hok
             cfuel todo _ _ Hrun) with (k := c) (g := embed (cgeom cl)).
    - intros k0 v00 Hl0. discriminate.
    - exact Hnd.
    - intros k0 Hk0. split; [reflexivity|cbn; auto].
    - exact Hct.
    - exact L0.
    - rewrite lookup_embed, Hcl. reflexivity.
    - destruct (cgeom cl); try contradiction. reflexivity. }
  pose proof (Htag c a b Ha Hbb) as Ht. unfold tag in Ht.
  split; [exact (Horig d1 rho1 s1 rn1 w1 v1 a Hok1 Hc1 Hp1 L1 Ha Hna)|].
  split; [|congruence].
  rewrite (Horig d2 rho2 s2 rn2 w2 v2 b Hok2 Hc2 Hp2 L2 Hbb Hnb). congruence.
Qed.
