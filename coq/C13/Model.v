(* C13 — model of the code that the de-duplication and inlining options reach:
     Kernel/Surface/SurfaceT4.py      __eq__/__hash__             [desc_eqb]
     Kernel/Surface/Duplicates.py     remove_duplicate_surfaces   [remove_duplicate_surfaces]
                                      renumber_surfaces           [renumber_surfaces]
     Kernel/Volume/ConstructVolumeT4.py remove_empty_volumes      [remove_empty_volumes]
                                      remove_unused_volumes       [remove_unused_volumes]
                                      extract_used_surfaces + the writer's
                                      dic_surface_t4[key] lookups [written_surfaces]
     Kernel/FileHandlers/Writer/WriteT4Geometry.py convertMCNPGeometry, the part
                                      after construct_volume_t4   [finish]
     Kernel/Volume/CellInlining.py    extract_subcells, geometry_size,
                                      find_occurrences, inline_cells(_worker)
     Kernel/Volume/CellConversion.py  pot_fill: the four inline branches and the
                                      recursion over universes (cells without
                                      transformations)            [fill_geometry, pot_fill]
   Python dicts are association lists in insertion order, Python sets of ints
   are strictly increasing lists (what sorted(set) prints).  The float score of
   compute_inlining_scores is NOT modelled: inline_cells takes the to_inline set
   as a parameter.  Executable; proofs live in C13/Proofs*.v. *)
From Coq Require Import List ZArith NArith Bool.
From T4V Require Import Base.Scalar Base.Cases.
Import ListNotations.
Open Scope Z_scope.

(* Python exceptions the modelled paths can raise; EFuel = the model ran out of
   explicit fuel (Python: RecursionError on a cyclic cell table) *)
Inductive err := EKey | EFuel | EValue.
Inductive res (A : Type) := Ok (a : A) | Err (e : err).
Arguments Ok {A}. Arguments Err {A}.

(* ---------- dict: association list in insertion order ---------- *)
Fixpoint lookup {V : Type} (k : Z) (d : list (Z * V)) : option V :=
  match d with
  | [] => None
  | (k', v) :: r => if Z.eqb k' k then Some v else lookup k r
  end.

(* d[k] = v for an existing key (position kept) or a new one (appended) *)
Fixpoint update {V : Type} (k : Z) (v : V) (d : list (Z * V)) : list (Z * V) :=
  match d with
  | [] => [(k, v)]
  | (k', v') :: r => if Z.eqb k' k then (k, v) :: r else (k', v') :: update k v r
  end.

Fixpoint remove_key {V : Type} (k : Z) (d : list (Z * V)) : list (Z * V) :=
  match d with
  | [] => []
  | (k', v') :: r => if Z.eqb k' k then r else (k', v') :: remove_key k r
  end.

Definition memZ (x : Z) (l : list Z) : bool := existsb (Z.eqb x) l.

(* ---------- set of ints: strictly increasing list ---------- *)
Fixpoint zset_add (x : Z) (s : list Z) : list Z :=
  match s with
  | [] => [x]
  | y :: r => if Z.ltb x y then x :: s else if Z.eqb x y then s else y :: zset_add x r
  end.

Definition zset_of_list (l : list Z) : list Z := fold_right zset_add [] l.

(* ---------- SurfaceT4: the descriptor that __eq__/__hash__ look at ---------- *)
(* dtype: index of the ESurfaceTypeT4 member (PLANEX = 0 ... TORUSZ = 16);
   dtrans: (translation, matrix) flattened, None when there is no TRANSFORM;
   idorigin is "intentionally omitted" by the code and is absent here *)
Record desc (T : Type) := mkDesc {
  dtype : N;
  dparams : list T;
  dtrans : option (list T * list T) }.
Arguments mkDesc {T}. Arguments dtype {T}. Arguments dparams {T}. Arguments dtrans {T}.

Section Dedup.
Context {T : Type} (S : Scalar T).

(* tuple == tuple / np.all(a == b): element-wise ==, equal lengths *)
Definition all_eq (a b : list T) : bool := list_eqb (seqb S) a b.

(* SurfaceT4.__eq__(self = a, other = b) *)
Definition desc_eqb (a b : desc T) : bool :=
  match dtrans a with
  | None =>
      N.eqb (dtype a) (dtype b) && all_eq (dparams a) (dparams b)
      && match dtrans b with None => true | Some _ => false end
  | Some (ta, ra) =>
      match dtrans b with
      | None => false
      | Some (tb, rb) =>
          N.eqb (dtype a) (dtype b) && all_eq (dparams a) (dparams b)
          && all_eq ta tb && all_eq ra rb
      end
  end.

(* SurfaceT4.__hash__: the hash of the tuple (type, params) resp.
   (type, params, tuple(t.flat), tuple(R.flat)); [h] hashes one number, [mix] is
   the tuple hash (both are Python's; only their being functions matters) *)
Definition desc_hash (h : T -> Z) (mix : list Z -> Z) (d : desc T) : Z :=
  match dtrans d with
  | None => mix [Z.of_N (dtype d); mix (map h (dparams d))]
  | Some (t, r) => mix [Z.of_N (dtype d); mix (map h (dparams d)); mix (map h t); mix (map h r)]
  end.

(* sorted(surfs.items()): keys of a dict are distinct, so the tuple comparison
   never reaches the surfaces *)
Fixpoint insert_sorted {V : Type} (kv : Z * V) (l : list (Z * V)) : list (Z * V) :=
  match l with
  | [] => [kv]
  | x :: r => if Z.leb (fst kv) (fst x) then kv :: l else x :: insert_sorted kv r
  end.
Definition sort_items {V : Type} (l : list (Z * V)) : list (Z * V) := fold_right insert_sorted [] l.

(* `surf in surf_to_id` / surf_to_id[surf]: the stored key equal to surf
   (CPython evaluates stored == probe); surf_to_id holds exactly the entries of
   new_surfs, in the same order *)
Fixpoint find_id (d : desc T) (seen : list (Z * desc T)) : option Z :=
  match seen with
  | [] => None
  | (k, d') :: r => if desc_eqb d' d then Some k else find_id d r
  end.

Fixpoint dedup_loop (items seen : list (Z * desc T)) (ren : list (Z * Z))
  : list (Z * desc T) * list (Z * Z) :=
  match items with
  | [] => (seen, ren)
  | (k, d) :: r =>
      match find_id d seen with
      | Some k' => dedup_loop r seen (ren ++ [(k, k')])
      | None => dedup_loop r (seen ++ [(k, d)]) (ren ++ [(k, k)])
      end
  end.

(* returns (new_surfs, renumbering) *)
Definition remove_duplicate_surfaces (surfs : list (Z * desc T)) : list (Z * desc T) * list (Z * Z) :=
  dedup_loop (sort_items surfs) [] [].
End Dedup.

(* ---------- VolumeT4 ---------- *)
Inductive opk := OUnion | OInte.
Record volu := MkVolu {
  pluses : list Z;                 (* set *)
  minuses : list Z;                (* set *)
  ops : option (opk * list Z);
  fictive : bool;
  vorigin : list (Z * Z) }.        (* idorigin: the provenance printed after ENDV *)

(* a volume without provenance (level-0 cells, helper volumes) *)
Definition mkVolu (p m : list Z) (o : option (opk * list Z)) (f : bool) : volu := MkVolu p m o f [].

(* set(renumbering[s] for s in l) *)
Fixpoint renumber_ids (ren : list (Z * Z)) (l : list Z) : res (list Z) :=
  match l with
  | [] => Ok []
  | s :: r =>
      match lookup s ren with
      | None => Err EKey
      | Some s' => match renumber_ids ren r with Ok r' => Ok (s' :: r') | Err e => Err e end
      end
  end.

Definition renumber_volu (ren : list (Z * Z)) (v : volu) : res volu :=
  match renumber_ids ren (pluses v) with
  | Err e => Err e
  | Ok p =>
      match renumber_ids ren (minuses v) with
      | Err e => Err e
      | Ok m => Ok (MkVolu (zset_of_list p) (zset_of_list m) (ops v) (fictive v) (vorigin v))
      end
  end.

Fixpoint renumber_all (volus : list (Z * volu)) (ren : list (Z * Z)) : res (list (Z * volu)) :=
  match volus with
  | [] => Ok []
  | (k, v) :: r =>
      match renumber_volu ren v with
      | Err e => Err e
      | Ok v' => match renumber_all r ren with Ok r' => Ok ((k, v') :: r') | Err e => Err e end
      end
  end.

(* max(volus) of the progress meter: ValueError on an empty table *)
Definition renumber_surfaces (volus : list (Z * volu)) (ren : list (Z * Z)) : res (list (Z * volu)) :=
  match volus with
  | [] => Err EValue
  | _ => renumber_all volus ren
  end.

(* VolumeT4.empty(): the same surface with both signs *)
Definition volu_empty (v : volu) : bool := existsb (fun s => memZ s (minuses v)) (pluses v).

(* one pass over to_remove: plain/INTE volumes are deleted, UNION volumes get the
   empty equation  PLUS u0 MINUS u1 *)
Fixpoint remove_step (u0 u1 : Z) (to_remove : list Z) (dic : list (Z * volu)) (gone : list Z)
  : res (list (Z * volu) * list Z) :=
  match to_remove with
  | [] => Ok (dic, gone)
  | k :: r =>
      match lookup k dic with
      | None => Err EKey
      | Some v =>
          match ops v with
          | Some (OUnion, _) =>
              remove_step u0 u1 r (update k (MkVolu [u0] [u1] (ops v) (fictive v) (vorigin v)) dic) gone
          | _ => remove_step u0 u1 r (remove_key k dic) (gone ++ [k])
          end
      end
  end.

(* the second half of the while body: new to_remove list, UNION arguments pruned *)
Fixpoint prune_ops (removed : list Z) (dic : list (Z * volu)) : list (Z * volu) * list Z :=
  match dic with
  | [] => ([], [])
  | (k, v) :: r =>
      let '(r', tr) := prune_ops removed r in
      match ops v with
      | None => ((k, v) :: r', tr)
      | Some (OInte, args) =>
          if existsb (fun x => memZ x removed) args then ((k, v) :: r', k :: tr) else ((k, v) :: r', tr)
      | Some (OUnion, args) =>
          let args' := filter (fun c => negb (memZ c removed)) args in
          let o := match args' with [] => None | _ => Some (OUnion, args') end in
          ((k, MkVolu (pluses v) (minuses v) o (fictive v) (vorigin v)) :: r', tr)
      end
  end.

Fixpoint remove_loop (fuel : nat) (u0 u1 : Z) (dic : list (Z * volu)) (removed to_remove : list Z)
  : res (list (Z * volu)) :=
  match to_remove with
  | [] => Ok dic
  | _ =>
      match fuel with
      | O => Err EFuel
      | S f =>
          match remove_step u0 u1 to_remove dic [] with
          | Err e => Err e
          | Ok (dic1, gone) =>
              let removed' := removed ++ gone in
              let '(dic2, tr) := prune_ops removed' dic1 in
              remove_loop f u0 u1 dic2 removed' tr
          end
      end
  end.

Definition remove_empty_volumes (dic : list (Z * volu)) (u0 u1 : Z) : res (list (Z * volu)) :=
  remove_loop (S (S (length dic))) u0 u1 dic []
    (map fst (filter (fun kv => volu_empty (snd kv)) dic)).

(* FICTIVE volumes that no operator mentions are deleted *)
Definition remove_unused_volumes (dic : list (Z * volu)) : list (Z * volu) :=
  let used := flat_map (fun kv => match ops (snd kv) with Some (_, args) => args | None => [] end) dic in
  filter (fun kv => negb (fictive (snd kv) && negb (memZ (fst kv) used))) dic.

(* writeT4Geometry: sorted(extract_used_surfaces(...)), each looked up in the
   surface dictionary (KeyError when it is not there); max(surf_used) of the
   progress meter is a ValueError when no surface is used *)
Definition used_surfaces (dic : list (Z * volu)) : list Z :=
  zset_of_list (flat_map (fun kv => pluses (snd kv) ++ minuses (snd kv)) dic).

Definition written_surfaces {T : Type} (surfs : list (Z * desc T)) (dic : list (Z * volu)) : res (list Z) :=
  let used := used_surfaces dic in
  match used with [] => Err EValue | _ =>
  if forallb (fun s => match lookup s surfs with Some _ => true | None => false end) used
  then Ok used else Err EKey end.

(* convertMCNPGeometry: `if not args.skip_deduplication:` - surfaces
   de-duplicated, volumes renumbered, and the two union helper planes mapped
   through the renumbering as well (KeyError if they are not in the table) *)
Definition dedup_stage {T : Type} (S : Scalar T) (skip_dedup : bool)
    (surfs : list (Z * desc T)) (volus : list (Z * volu)) (u0 u1 : Z)
  : res (list (Z * desc T) * list (Z * volu) * (Z * Z)) :=
  if skip_dedup then Ok (surfs, volus, (u0, u1))
  else let '(s', ren) := remove_duplicate_surfaces S surfs in
       match renumber_surfaces volus ren with
       | Err e => Err e
       | Ok v' =>
           match lookup u0 ren, lookup u1 ren with
           | Some a, Some b => Ok (s', v', (a, b))
           | _, _ => Err EKey
           end
       end.

(* convertMCNPGeometry after construct_volume_t4, then the SURF lines of
   writeT4Geometry: (surfaces, volumes, ids of the SURF lines written) *)
Definition finish {T : Type} (S : Scalar T) (skip_dedup : bool)
    (surfs : list (Z * desc T)) (volus : list (Z * volu)) (u0 u1 : Z)
  : res (list (Z * desc T) * list (Z * volu) * list Z) :=
  match dedup_stage S skip_dedup surfs volus u0 u1 with
  | Err e => Err e
  | Ok (s', v', (a, b)) =>
      match remove_empty_volumes v' a b with
      | Err e => Err e
      | Ok v'' =>
          let v3 := remove_unused_volumes v'' in
          match written_surfaces s' v3 with
          | Err e => Err e
          | Ok w => Ok (s', v3, w)
          end
      end
  end.

(* exact integer scalar (only seqb matters for descriptors): used for concrete
   witnesses with integer parameters *)
Definition ZS : Scalar Z := {|
  s0 := 0; s1 := 1; sadd := Z.add; ssub := Z.sub; smul := Z.mul; sdiv := Z.div;
  sneg := Z.opp; sabs := Z.abs; ssqrt := Z.sqrt; satan := fun x => x; scos := fun x => x;
  ssin := fun x => x; spi := 3; sltb := Z.ltb; sleb := Z.leb; seqb := Z.eqb; sofZ := fun z => z |}.

(* ---------- cell geometry at inlining time ---------- *)
(* op: true = '*', false = ':' (complements have been eliminated before) *)
Inductive geom :=
| GSurf (s : Z)
| GRef (c : Z)
| GNode (op : bool) (args : list geom).

(* what inlining and pot_fill read of a CellMCNP *)
Record mcell := MkCell {
  cuniv : Z;
  cfill : option Z;        (* fillid (plain universe number) *)
  cgeom : geom;
  corigin : list (Z * Z);  (* idorigin: (filler, container) pairs, innermost first *)
  cmat : Z }.              (* stands for (materialID, density): what GEOMCOMP uses *)

(* a cell as parsed: no provenance, material tag 0 *)
Definition mkCell (u : Z) (f : option Z) (g : geom) : mcell := MkCell u f g [] 0.

Definition set_geom (c : mcell) (g : geom) : mcell := MkCell (cuniv c) (cfill c) g (corigin c) (cmat c).

(* every CellRef of a tree, left to right *)
Fixpoint refs (g : geom) : list Z :=
  match g with
  | GSurf _ => []
  | GRef c => [c]
  | GNode _ args => flat_map refs args
  end.

(* extract_subcells: a top-level leaf has no subcells (a bare CellRef at the top
   never occurs: pot_fill always builds ('*', ., .)) *)
Definition extract_subcells (g : geom) : list Z :=
  match g with
  | GNode _ _ => refs g
  | _ => []
  end.

(* geometry_size: number of leaves *)
Fixpoint geometry_size (g : geom) : N :=
  match g with
  | GNode _ args => fold_right (fun a n => (geometry_size a + n)%N) 0%N args
  | _ => 1%N
  end.

(* find_occurrences: LIFO work list; occurrences[sub] lists the cells whose
   geometry mentions sub, one entry per mention, in processing order *)
Definition occ_append (sub key : Z) (occ : list (Z * list Z)) : list (Z * list Z) :=
  match lookup sub occ with
  | Some l => update sub (l ++ [key]) occ
  | None => occ ++ [(sub, [key])]
  end.

Fixpoint occ_visit (key : Z) (subs : list Z) (stack enq : list Z) (occ : list (Z * list Z))
  : list Z * list Z * list (Z * list Z) :=
  match subs with
  | [] => (stack, enq, occ)
  | s :: r =>
      let occ' := occ_append s key occ in
      if memZ s enq then occ_visit key r stack enq occ'
      else occ_visit key r (s :: stack) (s :: enq) occ'
  end.

Fixpoint occ_loop (fuel : nat) (dic : list (Z * mcell)) (stack enq : list Z) (occ : list (Z * list Z))
  : res (list (Z * list Z)) :=
  match stack with
  | [] => Ok occ
  | key :: rest =>
      match fuel with
      | O => Err EFuel
      | S f =>
          match lookup key dic with
          | None => Err EKey
          | Some c =>
              let '(stack', enq', occ') := occ_visit key (extract_subcells (cgeom c)) rest enq occ in
              occ_loop f dic stack' enq' occ'
          end
      end
  end.

Definition find_occurrences (dic : list (Z * mcell)) : res (list (Z * list Z)) :=
  let roots := map fst (filter (fun kv => Z.eqb (cuniv (snd kv)) 0) dic) in
  occ_loop (S (length dic)) dic (rev roots) roots [].

(* inline_cells_worker; fuel bounds the Python recursion depth.  [rec] is the
   recursive call: one argument of a node is either kept (surface, CellRef that
   is not inlined), replaced by the rewritten geometry of the cell it refers to,
   or rewritten recursively *)
Definition inline_arg (rec : geom -> res geom) (dic : list (Z * mcell)) (ti : list Z) (a : geom)
  : res geom :=
  match a with
  | GRef c =>
      if memZ c ti then
        match lookup c dic with
        | None => Err EKey
        | Some sub => rec (cgeom sub)
        end
      else Ok a
  | GSurf _ => Ok a
  | GNode _ _ => rec a
  end.

Fixpoint map_res {A B : Type} (f : A -> res B) (l : list A) : res (list B) :=
  match l with
  | [] => Ok []
  | a :: r =>
      match f a with
      | Err e => Err e
      | Ok b => match map_res f r with Err e => Err e | Ok r' => Ok (b :: r') end
      end
  end.

Fixpoint inline_worker (fuel : nat) (dic : list (Z * mcell)) (ti : list Z) (g : geom) : res geom :=
  match fuel with
  | O => Err EFuel
  | S f =>
      match g with
      | GNode op args =>
          match map_res (inline_arg (inline_worker f dic ti) dic ti) args with
          | Err e => Err e
          | Ok args' => Ok (GNode op args')
          end
      | _ => Ok g
      end
  end.

(* the loop of inline_cells: cells are rewritten one after the other, later
   cells see the already rewritten geometry of earlier ones *)
Fixpoint inline_loop (fuel : nat) (ti : list Z) (keys : list Z) (dic : list (Z * mcell))
  : res (list (Z * mcell)) :=
  match keys with
  | [] => Ok dic
  | k :: r =>
      match lookup k dic with
      | None => Err EKey
      | Some c =>
          match inline_worker fuel dic ti (cgeom c) with
          | Err e => Err e
          | Ok g' => inline_loop fuel ti r (update k (set_geom c g') dic)
          end
      end
  end.

(* inline_cells with the decision (the to_inline set) given from outside *)
Definition inline_cells (fuel : nat) (ti : list Z) (dic : list (Z * mcell)) : res (list (Z * mcell)) :=
  match ti with
  | [] => Ok dic
  | _ => inline_loop fuel ti (map fst dic) dic
  end.

(* compute_inlining_scores + the selection in inline_cells: score 0 for a cell
   mentioned at most once, else geometry_size / number of mentions (float
   division of two ints); selected iff score < max_inline_score *)
Fixpoint select_to_inline {T : Type} (S : Scalar T) (max_score : T) (dic : list (Z * mcell))
    (occ : list (Z * list Z)) : res (list Z) :=
  match occ with
  | [] => Ok []
  | (key, occurs) :: r =>
      let n := List.length occurs in
      let chosen :=
        if Nat.leb n 1 then Ok (sltb S (sofZ S 0) max_score)
        else match lookup key dic with
             | None => Err EKey
             | Some c => Ok (sltb S (sdiv S (sofZ S (Z.of_N (geometry_size (cgeom c))))
                                            (sofZ S (Z.of_nat n))) max_score)
             end in
      match chosen with
      | Err e => Err e
      | Ok b => match select_to_inline S max_score dic r with
                | Err e => Err e
                | Ok l => Ok (if b then key :: l else l)
                end
      end
  end.

(* inline_cells(dic, max_inline_score) as a whole *)
Definition inline_cells_score {T : Type} (S : Scalar T) (fuel : nat) (max_score : T)
    (dic : list (Z * mcell)) : res (list (Z * mcell)) :=
  match find_occurrences dic with
  | Err e => Err e
  | Ok [] => Ok dic
  | Ok occ =>
      match select_to_inline S max_score dic occ with
      | Err e => Err e
      | Ok ti => inline_cells fuel ti dic
      end
  end.

(* ---------- pot_fill ---------- *)
(* geometry of the new cell: container part and filler part *)
Definition fill_geometry (inline_filled inline_filling : bool)
    (key : Z) (cell_geom : geom) (elt_key : Z) (elt_geom : geom) : geom :=
  GNode true [if inline_filled then cell_geom else GRef key;
              if inline_filling then elt_geom else GRef elt_key].

(* by_universe: cells of each universe in dict order *)
Definition cells_of_universe (dic : list (Z * mcell)) (u : Z) : list Z :=
  map fst (filter (fun kv => Z.eqb (cuniv (snd kv)) u) dic).

(* pot_fill for cells without FILL/TRCL transformations (cell_transform is then
   the identity on keys).  dict_universe is computed once, before the first
   call, from the original table [dic0]; new cells go to the end of the
   table with keys counter+1, counter+2, ...  Returns the keys that replace
   [key], the table and the counter. *)
Definition fstate := (list (Z * mcell) * Z)%type.

(* to_process: pot_fill ([rec]) of every cell of the filling universe *)
Fixpoint fill_each (rec : Z -> fstate -> res (list Z * fstate)) (elts : list Z) (st : fstate)
  : res (list Z * fstate) :=
  match elts with
  | [] => Ok ([], st)
  | e :: r =>
      match rec e st with
      | Err er => Err er
      | Ok (ks, st1) =>
          match fill_each rec r st1 with
          | Err er => Err er
          | Ok (ks', st2) => Ok (ks ++ ks', st2)
          end
      end
  end.

(* new_cell = cell.copy() with the filler's material and provenance:
   idorigin = filler's idorigin + [(innermost filler, outermost container)] *)
Definition origin_head (o : list (Z * Z)) (dflt : Z) : Z :=
  match o with [] => dflt | (a, _) :: _ => a end.

Definition filled_cell (key : Z) (cell : mcell) (e : Z) (ec : mcell) (g : geom) : mcell :=
  MkCell (cuniv cell) None g
         (corigin ec ++ [(origin_head (corigin ec) e, origin_head (corigin cell) key)])
         (cmat ec).

(* one new cell per element of to_process *)
Fixpoint make_cells (fd fg : bool) (key : Z) (cell : mcell) (elts : list Z) (st : fstate) (acc : list Z)
  : res (list Z * fstate) :=
  match elts with
  | [] => Ok (acc, st)
  | e :: r =>
      match lookup e (fst st) with
      | None => Err EKey
      | Some ec =>
          let g := fill_geometry fd fg key (cgeom cell) e (cgeom ec) in
          let k' := snd st + 1 in
          make_cells fd fg key cell r (update k' (filled_cell key cell e ec g) (fst st), k') (acc ++ [k'])
      end
  end.

Fixpoint pot_fill (fuel : nat) (fd fg : bool) (dic0 : list (Z * mcell)) (key : Z) (st : fstate)
  : res (list Z * fstate) :=
  match fuel with
  | O => Err EFuel
  | S f =>
      match lookup key (fst st) with
      | None => Err EKey
      | Some cell =>
          match cfill cell with
          | None => Ok ([key], st)
          | Some u =>
              match fill_each (pot_fill f fd fg dic0) (cells_of_universe dic0 u) st with
              | Err er => Err er
              | Ok (to_process, st1) => make_cells fd fg key cell to_process st1 []
              end
          end
      end
  end.

(* the FILL loop of construct_volume_t4: pot_fill on every level-0 cell that has
   a FILL, in dict order (the list is computed before the loop) *)
Definition fill_keys (dic : list (Z * mcell)) : list Z :=
  map fst (filter (fun kv => match cfill (snd kv) with
                             | Some _ => Z.eqb (cuniv (snd kv)) 0
                             | None => false end) dic).

Fixpoint fill_loop (fuel : nat) (fd fg : bool) (dic0 : list (Z * mcell)) (keys : list Z) (st : fstate)
  : res fstate :=
  match keys with
  | [] => Ok st
  | k :: r =>
      match pot_fill fuel fd fg dic0 k st with
      | Err e => Err e
      | Ok (_, st') => fill_loop fuel fd fg dic0 r st'
      end
  end.

(* ---------- the option vector and the cell-level stage it controls ---------- *)
(* max_inline_score acts only through the set of cells it selects; the set is a
   free parameter here (one per option vector) *)
Record options := mkOptions {
  skip_dedup : bool;          (* --skip-deduplication *)
  inline_filled : bool;       (* --always-inline-filled *)
  inline_filling : bool;      (* --always-inline-filling *)
  to_inline : list Z }.       (* what --max-inline-score selects *)

(* construct_volume_t4 between "treat FILL" and "consider inlining cells" *)
Definition cell_stage (fuel : nat) (o : options) (dic : list (Z * mcell)) (counter : Z)
  : res fstate :=
  match fill_loop fuel (inline_filled o) (inline_filling o) dic (fill_keys dic) (dic, counter) with
  | Err e => Err e
  | Ok (d1, c1) =>
      match inline_cells fuel (to_inline o) d1 with
      | Err e => Err e
      | Ok d2 => Ok (d2, c1)
      end
  end.
