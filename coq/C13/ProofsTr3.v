(* C13 — the surface environment of a run is determined by the environment of the
   deck's own surfaces: every surface made by pot_transform is given the meaning
   the interface law prescribes ([extend]).  The environment so built satisfies
   [surfs_ok] for the final state of any run of the FILL loop and coincides with
   the deck's environment on the deck's surfaces, so two runs started from the
   same table read the parsed cells alike ([surf_agree]): these two facts are no
   longer hypotheses of the linked statement. *)
From Coq Require Import List ZArith Bool Lia.
From T4V Require Import C13.Model C13.ModelTr C13.Spec C13.Proofs C13.ProofsTr C13.ProofsTr2.
Import ListNotations.
Open Scope Z_scope.

Section Ext.
Context {Tr P : Type} (tr_eqb : Tr -> Tr -> bool) (act : Tr -> P -> P).
Notation tstate := (@tstate Tr).

(* definitions are applied in the order of creation *)
Fixpoint extend (senv : Z -> P -> bool) (defs : list (Z * (Z * Tr))) : Z -> P -> bool :=
  match defs with
  | [] => senv
  | (k, (s, t)) :: r =>
      extend (fun x p => if Z.eqb x k then senv s (act t p) else senv x p) r
  end.

(* increasing new numbers, each made from a smaller, non-negative number *)
Fixpoint dok (lo : Z) (l : list (Z * (Z * Tr))) : Prop :=
  match l with
  | [] => True
  | (k, (s, _)) :: r => lo < k /\ 0 <= s < k /\ dok k r
  end.

Lemma dok_app lo l top k s t : dok lo l -> Forall (fun d => fst d <= top) l -> lo <= top -> top < k ->
  0 <= s < k -> dok lo (l ++ [(k, (s, t))]).
Proof.
  revert lo. induction l as [|[k0 [s0 t0]] r IH]; intros lo Hd Hf Hlo Hk Hs; cbn [app dok] in *.
  - repeat split; lia.
  - destruct Hd as [A [B C]]. inversion Hf as [|? ? Hk0 Hr]; subst. cbn [fst] in Hk0.
    split; [exact A|]. split; [exact B|]. apply IH; auto.
Qed.

Lemma extend_spec : forall l lo senv, dok lo l ->
  (forall x, x <= lo -> forall p, extend senv l x p = senv x p) /\
  (forall k s t, In (k, (s, t)) l -> forall p, extend senv l k p = extend senv l s (act t p)).
Proof.
  induction l as [|[k0 [s0 t0]] r IH]; intros lo senv Hd; cbn [extend dok] in *.
  - split; [reflexivity|intros ? ? ? []].
  - destruct Hd as [A [B C]].
    destruct (IH k0 (fun x p => if Z.eqb x k0 then senv s0 (act t0 p) else senv x p) C) as [I1 I2].
    split.
    + intros x Hx p. rewrite (I1 x) by lia. destruct (Z.eqb x k0) eqn:E; [apply Z.eqb_eq in E; lia|reflexivity].
    + intros k s t [Heq|Hin] p; [|exact (I2 k s t Hin p)].
      injection Heq as <- <- <-. rewrite (I1 k0) by lia. rewrite (I1 s0) by lia.
      rewrite Z.eqb_refl. destruct (Z.eqb s0 k0) eqn:E; [apply Z.eqb_eq in E; lia|reflexivity].
Qed.

(* ---------- invariants on the surface numbers of a state ---------- *)
Fixpoint leaves (g : geom) : list Z :=
  match g with
  | GSurf s => [s]
  | GRef _ => []
  | GNode _ args => flat_map leaves args
  end.

Definition gb (top : Z) (g : geom) : Prop := forall s, In s (leaves g) -> Z.abs s <= top.

Lemma gb_mono top top' g : top <= top' -> gb top g -> gb top' g.
Proof. intros H Hg s Hs. specialize (Hg s Hs). lia. Qed.

Lemma gb_node top op args : gb top (GNode op args) <-> Forall (gb top) args.
Proof.
  unfold gb. cbn [leaves]. rewrite Forall_forall. split.
  - intros H a Ha s Hs. apply H. apply in_flat_map. eauto.
  - intros H s Hs. apply in_flat_map in Hs. destruct Hs as [a [Ha Hs]]. exact (H a Ha s Hs).
Qed.

Definition sinv (b : Z) (st : tstate) : Prop :=
  0 <= b <= tskey st /\ dok b (tsdefs st) /\ Forall (fun d => fst d <= tskey st) (tsdefs st) /\
  forall k c, lookup k (tcells st) = Some c -> gb (tskey st) (cgeom c).

Definition rec_inv (b : Z) (rec : Z -> tstate -> res (Z * tstate)) : Prop :=
  forall c s k s', sinv b s -> rec c s = Ok (k, s') -> sinv b s' /\ tskey s <= tskey s'.

Lemma Forall_le_mono (l : list (Z * (Z * Tr))) top top' : top <= top' ->
  Forall (fun d => fst d <= top) l -> Forall (fun d => fst d <= top') l.
Proof. intros H. apply Forall_impl. intros d Hd. cbv beta in *. lia. Qed.

Lemma ptrans_inv b t rec : rec_inv b rec ->
  forall g st g' st', sinv b st -> gb (tskey st) g -> ptrans rec t g st = Ok (g', st') ->
  sinv b st' /\ tskey st <= tskey st' /\ gb (tskey st') g'.
Proof.
  intros Hrec. induction g as [s|c|op args IH] using geom_ind'; intros st g' st' Hi Hg H; cbn [ptrans] in H.
  - injection H as <- <-. destruct Hi as [Hb [Hd [Hf Hc]]]. unfold sinv. cbn [tskey tsdefs tcells].
    assert (Hs : Z.abs s <= tskey st) by (apply Hg; left; reflexivity).
    split; [|split; [lia|]].
    + split; [lia|]. split; [apply (dok_app b _ (tskey st)); auto; lia|]. split.
      * apply Forall_app. split; [apply (Forall_le_mono _ (tskey st)); [lia|exact Hf]|constructor; [cbn; lia|constructor]].
      * intros k c Hl. apply (gb_mono (tskey st)); [lia|exact (Hc _ _ Hl)].
    + intros x [<-|[]]. destruct (Z.leb 0 s); lia.
  - destruct (rec c st) as [[k s1]|e] eqn:Er; [|discriminate]. injection H as <- <-.
    destruct (Hrec _ _ _ _ Hi Er) as [A B]. split; [exact A|]. split; [exact B|intros x []].
  - destruct (map_st (ptrans rec t) args st) as [[args' s1]|e] eqn:Em; [|discriminate]. injection H as <- <-.
    apply gb_node in Hg.
    assert (Hl : sinv b s1 /\ tskey st <= tskey s1 /\ Forall (gb (tskey s1)) args').
    { clear -IH Hi Hg Em. revert st args' s1 Hi Hg Em.
      induction args as [|a r IHr]; intros st args' s1 Hi Hg Em; cbn [map_st] in Em.
      - injection Em as <- <-. split; [exact Hi|]. split; [lia|constructor].
      - inversion IH as [|? ? Ha Hr]; subst. inversion Hg as [|? ? Hga Hgr]; subst.
        destruct (ptrans rec t a st) as [[a' sa]|e] eqn:Ea; [|discriminate].
        destruct (map_st (ptrans rec t) r sa) as [[r' sr]|e] eqn:Erl; [|discriminate].
        injection Em as <- <-. destruct (Ha _ _ _ Hi Hga Ea) as [Ia [La Ga]].
        assert (Hgr' : Forall (gb (tskey sa)) r).
        { apply (Forall_impl _ (fun g H0 => gb_mono _ _ g La H0) Hgr). }
        destruct (IHr Hr _ _ _ Ia Hgr' Erl) as [Ir [Lr Gr]].
        split; [exact Ir|]. split; [lia|]. constructor; [apply (gb_mono (tskey sa)); [exact Lr|exact Ga]|exact Gr]. }
    destruct Hl as [A [B C]]. split; [exact A|]. split; [exact B|]. apply gb_node. exact C.
Qed.

Lemma add_cell_sinv b (st : tstate) k c ck ca :
  sinv b st -> gb (tskey st) (cgeom c) ->
  sinv b (MkT (update k c (tcells st)) ck (tskey st) (tsdefs st) ca).
Proof.
  intros [Hb [Hd [Hf Hc]]] Hg. split; [exact Hb|]. split; [exact Hd|]. split; [exact Hf|].
  cbn [tcells tskey]. intros j cj Hl. rewrite lookup_update in Hl. destruct (Z.eqb k j).
  - injection Hl as <-. exact Hg.
  - exact (Hc _ _ Hl).
Qed.

Lemma ctransform_inv b : forall fuel t uc, rec_inv b (ctransform tr_eqb fuel t uc).
Proof.
  induction fuel as [|f IH]; intros t uc c st k st' Hi H; cbn [ctransform] in H; [discriminate|].
  destruct (if uc then cache_get tr_eqb c t (tcache st) else None) as [k0|].
  - injection H as <- <-. split; [exact Hi|lia].
  - destruct (lookup c (tcells st)) as [cell|] eqn:El; [|discriminate].
    destruct (ptrans (ctransform tr_eqb f t true) t (cgeom cell) st) as [[g' s1]|e] eqn:Ep; [|discriminate].
    injection H as <- <-.
    destruct (ptrans_inv b t _ (IH t true) _ _ _ _ Hi (proj2 (proj2 (proj2 Hi)) _ _ El) Ep) as [I1 [L1 G1]].
    split; [|cbn [tskey]; exact L1]. apply add_cell_sinv; [exact I1|exact G1].
Qed.

Lemma chain_inv b fuel uc : forall ts c st k st', sinv b st ->
  ctransform_chain tr_eqb fuel ts uc c st = Ok (k, st') -> sinv b st' /\ tskey st <= tskey st'.
Proof.
  induction ts as [|t r IH]; intros c st k st' Hi H; cbn [ctransform_chain] in H.
  - injection H as <- <-. split; [exact Hi|lia].
  - destruct (ctransform tr_eqb fuel t uc c st) as [[k1 s1]|e] eqn:E1; [|discriminate].
    destruct (ctransform_inv b fuel t uc _ _ _ _ Hi E1) as [I1 L1].
    destruct (IH _ _ _ _ I1 H) as [I2 L2]. split; [exact I2|lia].
Qed.

Lemma make_cells_inv b fuel fd fg ts key cell : forall elts st acc ks st', sinv b st ->
  gb (tskey st) (cgeom cell) ->
  make_cells_tr tr_eqb fuel fd fg ts key cell elts st acc = Ok (ks, st') ->
  sinv b st' /\ tskey st <= tskey st'.
Proof.
  induction elts as [|e r IH]; intros st acc ks st' Hi Hg H; cbn [make_cells_tr] in H.
  - injection H as _ <-. split; [exact Hi|lia].
  - destruct (lookup e (tcells st)) as [ec|]; [|discriminate].
    destruct (ctransform_chain tr_eqb fuel ts (negb fg) e st) as [[e' s1]|er] eqn:Ec; [|discriminate].
    destruct (lookup e' (tcells s1)) as [ec'|] eqn:Ee'; [|discriminate].
    destruct (chain_inv b fuel (negb fg) _ _ _ _ _ Hi Ec) as [I1 L1].
    assert (Hg1 : gb (tskey s1) (cgeom cell)) by (apply (gb_mono (tskey st)); [exact L1|exact Hg]).
    destruct (IH _ _ _ _ (add_cell_sinv b s1 (tckey s1 + 1)
                            (filled_cell key cell e ec (fill_geometry fd fg key (cgeom cell) e' (cgeom ec')))
                            (tckey s1 + 1) (tcache s1) I1
                            ltac:(unfold filled_cell, fill_geometry; cbn [cgeom]; apply gb_node;
                                  constructor; [destruct fd; [exact Hg1|intros x []]|];
                                  constructor; [destruct fg; [exact (proj2 (proj2 (proj2 I1)) _ _ Ee')|intros x []]|constructor]))
                Hg1 H) as [I2 L2].
    split; [exact I2|]. cbn [tskey] in L2. lia.
Qed.

Lemma fill_each_inv b (rec : Z -> tstate -> res (list Z * tstate)) :
  (forall e s ks s', sinv b s -> rec e s = Ok (ks, s') -> sinv b s' /\ tskey s <= tskey s') ->
  forall elts st ks st', sinv b st -> fill_each_tr rec elts st = Ok (ks, st') ->
  sinv b st' /\ tskey st <= tskey st'.
Proof.
  intros Hrec. induction elts as [|e r IH]; intros st ks st' Hi H; cbn [fill_each_tr] in H.
  - injection H as _ <-. split; [exact Hi|lia].
  - destruct (rec e st) as [[ks1 st1]|er] eqn:E1; [|discriminate].
    destruct (fill_each_tr rec r st1) as [[ks2 st2]|er] eqn:E2; [|discriminate].
    injection H as _ <-. destruct (Hrec _ _ _ _ Hi E1) as [I1 L1]. destruct (IH _ _ _ I1 E2) as [I2 L2].
    split; [exact I2|lia].
Qed.

Theorem pot_fill_tr_inv b fd fg dic0 tinfo : forall fuel key st ks st', sinv b st ->
  pot_fill_tr tr_eqb fuel fd fg dic0 tinfo key st = Ok (ks, st') -> sinv b st' /\ tskey st <= tskey st'.
Proof.
  induction fuel as [|f IH]; intros key st ks st' Hi H; cbn [pot_fill_tr] in H; [discriminate|].
  destruct (lookup key (tcells st)) as [cell|] eqn:Ek; [|discriminate].
  destruct (cfill cell) as [u|]; [|injection H as _ <-; split; [exact Hi|lia]].
  destruct (fill_each_tr _ _ st) as [[tp st1]|er] eqn:E1; [|discriminate].
  destruct (fill_each_inv b _ IH _ _ _ _ Hi E1) as [I1 L1].
  assert (Hg : gb (tskey st1) (cgeom cell)).
  { apply (gb_mono (tskey st)); [exact L1|exact (proj2 (proj2 (proj2 Hi)) _ _ Ek)]. }
  destruct (make_cells_inv b _ _ _ _ _ _ _ _ _ _ _ I1 Hg H) as [I2 L2]. split; [exact I2|lia].
Qed.

(* ---------- the environment of a run ---------- *)
Definition senv_of (senv0 : Z -> P -> bool) (st : tstate) : Z -> P -> bool := extend senv0 (tsdefs st).

Theorem senv_of_ok b senv0 st : sinv b st ->
  surfs_ok act (senv_of senv0 st) st /\ forall x, x <= b -> forall p, senv_of senv0 st x p = senv0 x p.
Proof.
  intros [_ [Hd _]]. destruct (extend_spec _ b senv0 Hd) as [A B]. split.
  - intros k s t Hin p. exact (B k s t Hin p).
  - exact A.
Qed.

(* the state the FILL loop starts from *)
Lemma sinv_init dic ckey skey : 0 <= skey ->
  (forall k c, lookup k dic = Some c -> gb skey (cgeom c)) -> sinv skey (MkT dic ckey skey [] []).
Proof. intros Hs Hg. split; [cbn; lia|]. split; [exact I|]. split; [constructor|exact Hg]. Qed.

Lemma geval_bounded (s1 s2 rho : Z -> bool) top g : gb top g ->
  (forall x, 0 <= x <= top -> s1 x = s2 x) -> geval s1 rho g = geval s2 rho g.
Proof.
  induction g as [s|c|op args IH] using geom_ind'; intros Hg H; cbn [geval].
  - unfold lit. assert (Hs : Z.abs s <= top) by (apply Hg; left; reflexivity).
    destruct (Z.leb 0 s) eqn:E; [apply Z.leb_le in E; rewrite H by lia; reflexivity|].
    apply Z.leb_gt in E. rewrite H by lia. reflexivity.
  - reflexivity.
  - apply gb_node in Hg. assert (Hall : forall a, In a args -> geval s1 rho a = geval s2 rho a).
    { intros a Ha. rewrite Forall_forall in IH, Hg. apply IH; auto. }
    clear IH Hg. destruct op; induction args as [|a l IHl]; cbn; try reflexivity;
      rewrite (Hall a (or_introl eq_refl)), IHl; auto; intros; apply Hall; right; auto.
Qed.

(* two runs from the same table: their environments read the parsed cells alike *)
Theorem runs_surf_agree b senv0 dic0 (sa sb : tstate) : sinv b sa -> sinv b sb ->
  (forall k c, lookup k dic0 = Some c -> gb b (cgeom c)) ->
  surf_agree dic0 (senv_of senv0 sa) (senv_of senv0 sb).
Proof.
  intros Ha Hb Hg k c Hl p. unfold own_den. apply (geval_bounded _ _ _ b); [exact (Hg _ _ Hl)|].
  intros x Hx. rewrite (proj2 (senv_of_ok b senv0 sa Ha) x) by lia.
  rewrite (proj2 (senv_of_ok b senv0 sb Hb) x) by lia. reflexivity.
Qed.
End Ext.
