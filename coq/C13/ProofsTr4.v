(* C13 — the cell table stays acyclic through pot_fill with transformations, so
   the final state of every run has a denotation of its cells (cden), unique on
   the cells of the table: the "model D of the final cell table" of the linked
   statement exists and is determined by the surface environment. *)
From Coq Require Import List ZArith Bool Lia.
From T4V Require Import C13.Model C13.ModelTr C13.Spec C13.Proofs C13.ProofsTr.
Import ListNotations.
Open Scope Z_scope.

Section Acyc.
Context {Tr : Type} (tr_eqb : Tr -> Tr -> bool).
Notation tstate := (@tstate Tr).

Definition cb (st : tstate) : Prop := forall k, lookup k (tcells st) <> None -> k <= tckey st.

(* bounded keys + acyclic *)
Definition cache_res (st : tstate) : Prop :=
  forall c t k, In (c, t, k) (tcache st) -> lookup k (tcells st) <> None.

Definition jinv (st : tstate) : Prop := cb st /\ cache_res st /\ exists rank, acyclic rank (tcells st).

Definition grows (s s' : tstate) : Prop :=
  (forall j c, lookup j (tcells s) = Some c -> lookup j (tcells s') = Some c) /\ tckey s <= tckey s'.

Lemma grows_refl s : grows s s. Proof. split; [auto|lia]. Qed.
Lemma grows_trans a b c : grows a b -> grows b c -> grows a c.
Proof. intros [A1 B1] [A2 B2]. split; [auto|lia]. Qed.

Lemma max_ge (rank : Z -> nat) l r : In r l ->
  (rank r <= fold_right (fun x n => Nat.max (rank x) n) O l)%nat.
Proof. induction l as [|a l IH]; intros []; [subst; cbn; lia|cbn; specialize (IH H); lia]. Qed.

(* adding a cell under a fresh key whose references resolve keeps the table acyclic *)
Lemma acyclic_add (d : list (Z * mcell)) k c rank :
  acyclic rank d -> lookup k d = None -> (forall r, In r (refs (cgeom c)) -> lookup r d <> None) ->
  exists rank', acyclic rank' (update k c d).
Proof.
  intros Hac Hk Hr.
  set (m := fold_right (fun r n => Nat.max (rank r) n) O (refs (cgeom c))).
  assert (Hm : forall r, In r (refs (cgeom c)) -> (rank r <= m)%nat) by (intros r Hin; apply max_ge; exact Hin).
  exists (fun j => if Z.eqb j k then S m else rank j).
  assert (Hold : forall y, lookup y d <> None -> (if Z.eqb y k then S m else rank y) = rank y).
  { intros y Hy. destruct (Z.eqb y k) eqn:E; [|reflexivity]. apply Z.eqb_eq in E; subst. congruence. }
  intros j cj Hj x Hx. rewrite lookup_update in Hj. destruct (Z.eqb k j) eqn:E.
  - apply Z.eqb_eq in E; subst j. injection Hj as <-. rewrite Z.eqb_refl.
    rewrite (Hold x (Hr x Hx)). split; [specialize (Hm x Hx); lia|].
    rewrite lookup_update. destruct (Z.eqb k x); [discriminate|exact (Hr x Hx)].
  - destruct (Hac _ _ Hj x Hx) as [Hlt Hl]. assert (Hjd : lookup j d <> None) by congruence.
    rewrite (Hold x Hl), (Hold j Hjd). split; [exact Hlt|].
    rewrite lookup_update. destruct (Z.eqb k x); [discriminate|exact Hl].
Qed.

Lemma add_cell_jinv (st : tstate) c sk sd (extra : list (Z * Tr * Z)) :
  jinv st -> (forall r, In r (refs (cgeom c)) -> lookup r (tcells st) <> None) ->
  (forall c0 t0 k0, In (c0, t0, k0) extra -> k0 = tckey st + 1) ->
  jinv (MkT (update (tckey st + 1) c (tcells st)) (tckey st + 1) sk sd (tcache st ++ extra)) /\
  grows st (MkT (update (tckey st + 1) c (tcells st)) (tckey st + 1) sk sd (tcache st ++ extra)).
Proof.
  intros [Hb [Hca [rank Hac]]] Hr Hex.
  assert (Hf : lookup (tckey st + 1) (tcells st) = None).
  { destruct (lookup (tckey st + 1) (tcells st)) eqn:E; [|reflexivity].
    assert (tckey st + 1 <= tckey st) by (apply Hb; congruence). lia. }
  split; [split; [|split]|].
  - intros k Hk. cbn [tcells tckey] in *. rewrite lookup_update in Hk.
    destruct (Z.eqb (tckey st + 1) k) eqn:E; [apply Z.eqb_eq in E; lia|]. specialize (Hb k Hk). lia.
  - intros c0 t0 k0 Hin. cbn [tcache tcells] in *. rewrite lookup_update.
    destruct (Z.eqb (tckey st + 1) k0) eqn:E; [discriminate|].
    apply in_app_or in Hin. destruct Hin as [Hin|Hin]; [exact (Hca _ _ _ Hin)|].
    rewrite (Hex _ _ _ Hin), Z.eqb_refl in E. discriminate.
  - cbn [tcells]. exact (acyclic_add _ _ c rank Hac Hf Hr).
  - split; [|cbn; lia]. intros j cj Hj. cbn [tcells]. rewrite lookup_update.
    destruct (Z.eqb (tckey st + 1) j) eqn:E; [|exact Hj]. apply Z.eqb_eq in E. subst j. congruence.
Qed.

Definition rec_j (rec : Z -> tstate -> res (Z * tstate)) : Prop :=
  forall c s k s', jinv s -> rec c s = Ok (k, s') -> jinv s' /\ grows s s' /\ lookup k (tcells s') <> None.

Lemma ptrans_j t rec : rec_j rec ->
  forall g st g' st', jinv st -> ptrans rec t g st = Ok (g', st') ->
  jinv st' /\ grows st st' /\ forall r, In r (refs g') -> lookup r (tcells st') <> None.
Proof.
  intros Hrec. induction g as [s|c|op args IH] using geom_ind'; intros st g' st' Hj H; cbn [ptrans] in H.
  - injection H as <- <-. destruct Hj as [A [B C]].
    split; [split; [exact A|split; [exact B|exact C]]|]. split; [split; [auto|cbn; lia]|intros r []].
  - destruct (rec c st) as [[k s1]|e] eqn:Er; [|discriminate]. injection H as <- <-.
    destruct (Hrec _ _ _ _ Hj Er) as [A [B C]]. split; [exact A|]. split; [exact B|].
    intros r [<-|[]]. exact C.
  - destruct (map_st (ptrans rec t) args st) as [[args' s1]|e] eqn:Em; [|discriminate]. injection H as <- <-.
    assert (Hl : jinv s1 /\ grows st s1 /\ forall a r, In a args' -> In r (refs a) -> lookup r (tcells s1) <> None).
    { clear -IH Hj Em. revert st args' s1 Hj Em.
      induction args as [|a l IHl]; intros st args' s1 Hj Em; cbn [map_st] in Em.
      - injection Em as <- <-. split; [exact Hj|]. split; [apply grows_refl|intros ? ? []].
      - inversion IH as [|? ? Ha Hr]; subst.
        destruct (ptrans rec t a st) as [[a' sa]|e] eqn:Ea; [|discriminate].
        destruct (map_st (ptrans rec t) l sa) as [[l' sl]|e] eqn:El; [|discriminate].
        injection Em as <- <-. destruct (Ha _ _ _ Hj Ea) as [Ja [Ga Ra]].
        destruct (IHl Hr _ _ _ Ja El) as [Jl [Gl Rl]].
        split; [exact Jl|]. split; [apply (grows_trans _ _ _ Ga Gl)|].
        intros x r [<-|Hx] Hr0; [|exact (Rl x r Hx Hr0)].
        destruct (lookup r (tcells sa)) as [cr|] eqn:E; [|exfalso; exact (Ra r Hr0 E)].
        rewrite (proj1 Gl _ _ E). discriminate. }
    destruct Hl as [A [B C]]. split; [exact A|]. split; [exact B|].
    intros r Hr. apply refs_node in Hr. destruct Hr as [a [Ha Hra]]. exact (C a r Ha Hra).
Qed.

Lemma cache_get_in' c t l k : cache_get tr_eqb c t l = Some k -> exists c0 t0, In (c0, t0, k) l.
Proof.
  induction l as [|[[c0 t0] k0] r IH]; cbn [cache_get]; [discriminate|].
  destruct (Z.eqb c0 c && tr_eqb t0 t); intros H.
  - injection H as <-. exists c0, t0. left; reflexivity.
  - destruct (IH H) as [c1 [t1 Hin]]. exists c1, t1. right; exact Hin.
Qed.

Lemma ctransform_j : forall fuel t uc, rec_j (ctransform tr_eqb fuel t uc).
Proof.
  induction fuel as [|f IH]; intros t uc c st k st' Hj H; cbn [ctransform] in H; [discriminate|].
  destruct (if uc then cache_get tr_eqb c t (tcache st) else None) as [k0|] eqn:Ec.
  - injection H as <- <-. split; [exact Hj|]. split; [apply grows_refl|].
    destruct uc; [|discriminate]. destruct (cache_get_in' _ _ _ _ Ec) as [c0 [t0 Hin]].
    exact (proj1 (proj2 Hj) _ _ _ Hin).
  - destruct (lookup c (tcells st)) as [cell|] eqn:El; [|discriminate].
    destruct (ptrans (ctransform tr_eqb f t true) t (cgeom cell) st) as [[g' s1]|e] eqn:Ep; [|discriminate].
    injection H as <- <-.
    destruct (ptrans_j t _ (IH t true) _ _ _ _ Hj Ep) as [J1 [G1 R1]].
    assert (Hextra : forall c0 t0 k0, In (c0, t0, k0) (if uc then [(c, t, tckey s1 + 1)] else []) -> k0 = tckey s1 + 1).
    { intros c0 t0 k0 Hin. destruct uc; [destruct Hin as [Heq|[]]; congruence|destruct Hin]. }
    destruct (add_cell_jinv s1 (set_geom cell g') (tskey s1) (tsdefs s1)
                (if uc then [(c, t, tckey s1 + 1)] else []) J1 R1 Hextra) as [J2 G2].
    assert (Hst : MkT (update (tckey s1 + 1) (set_geom cell g') (tcells s1)) (tckey s1 + 1) (tskey s1) (tsdefs s1)
                      (if uc then tcache s1 ++ [(c, t, tckey s1 + 1)] else tcache s1)
                = MkT (update (tckey s1 + 1) (set_geom cell g') (tcells s1)) (tckey s1 + 1) (tskey s1) (tsdefs s1)
                      (tcache s1 ++ (if uc then [(c, t, tckey s1 + 1)] else []))).
    { destruct uc; [reflexivity|rewrite app_nil_r; reflexivity]. }
    rewrite Hst. split; [exact J2|]. split; [apply (grows_trans _ _ _ G1 G2)|].
    cbn [tcells]. rewrite lookup_update, Z.eqb_refl. discriminate.
Qed.

Lemma chain_j fuel uc : forall ts c st k st', jinv st -> lookup c (tcells st) <> None ->
  ctransform_chain tr_eqb fuel ts uc c st = Ok (k, st') ->
  jinv st' /\ grows st st' /\ lookup k (tcells st') <> None.
Proof.
  induction ts as [|t r IH]; intros c st k st' Hj Hc H; cbn [ctransform_chain] in H.
  - injection H as <- <-. split; [exact Hj|]. split; [apply grows_refl|exact Hc].
  - destruct (ctransform tr_eqb fuel t uc c st) as [[k1 s1]|e] eqn:E1; [|discriminate].
    destruct (ctransform_j fuel t uc _ _ _ _ Hj E1) as [J1 [G1 L1]].
    destruct (IH _ _ _ _ J1 L1 H) as [J2 [G2 L2]]. split; [exact J2|]. split; [apply (grows_trans _ _ _ G1 G2)|exact L2].
Qed.

Lemma make_cells_j fuel fd fg ts key cell : forall elts st acc ks st', jinv st ->
  lookup key (tcells st) = Some cell ->
  make_cells_tr tr_eqb fuel fd fg ts key cell elts st acc = Ok (ks, st') -> jinv st' /\ grows st st'.
Proof.
  induction elts as [|e r IH]; intros st acc ks st' Hj Hk H; cbn [make_cells_tr] in H.
  - injection H as _ <-. split; [exact Hj|apply grows_refl].
  - destruct (lookup e (tcells st)) as [ec|] eqn:Ee; [|discriminate].
    destruct (ctransform_chain tr_eqb fuel ts (negb fg) e st) as [[e' s1]|er] eqn:Ec; [|discriminate].
    destruct (lookup e' (tcells s1)) as [ec'|] eqn:Ee'; [|discriminate].
    assert (Hee : lookup e (tcells st) <> None) by (rewrite Ee; discriminate).
    destruct (chain_j fuel (negb fg) _ _ _ _ _ Hj Hee Ec) as [J1 [G1 _]].
    pose proof (proj1 G1 _ _ Hk) as Hk1.
    assert (Hrefs : forall x, In x (refs (cgeom (filled_cell key cell e ec
                       (fill_geometry fd fg key (cgeom cell) e' (cgeom ec'))))) -> lookup x (tcells s1) <> None).
    { destruct J1 as [_ [_ [rank Hac]]]. unfold filled_cell, fill_geometry. cbn [cgeom refs flat_map].
      intros x Hx. rewrite app_nil_r in Hx. apply in_app_or in Hx. destruct Hx as [Hx|Hx].
      - destruct fd; cbn [refs] in Hx; [exact (proj2 (Hac _ _ Hk1 x Hx))|destruct Hx as [<-|[]]; congruence].
      - destruct fg; cbn [refs] in Hx; [exact (proj2 (Hac _ _ Ee' x Hx))|destruct Hx as [<-|[]]; congruence]. }
    destruct (add_cell_jinv s1 _ (tskey s1) (tsdefs s1) [] J1 Hrefs ltac:(intros ? ? ? [])) as [J2 G2].
    rewrite app_nil_r in J2, G2.
    destruct (IH _ _ _ _ J2 (proj1 G2 _ _ Hk1) H) as [J3 G3].
    split; [exact J3|]. apply (grows_trans _ _ _ G1 (grows_trans _ _ _ G2 G3)).
Qed.

Lemma fill_each_j (rec : Z -> tstate -> res (list Z * tstate)) :
  (forall e s ks s', jinv s -> rec e s = Ok (ks, s') -> jinv s' /\ grows s s') ->
  forall elts st ks st', jinv st -> fill_each_tr rec elts st = Ok (ks, st') -> jinv st' /\ grows st st'.
Proof.
  intros Hrec. induction elts as [|e r IH]; intros st ks st' Hj H; cbn [fill_each_tr] in H.
  - injection H as _ <-. split; [exact Hj|apply grows_refl].
  - destruct (rec e st) as [[ks1 st1]|er] eqn:E1; [|discriminate].
    destruct (fill_each_tr rec r st1) as [[ks2 st2]|er] eqn:E2; [|discriminate].
    injection H as _ <-. destruct (Hrec _ _ _ _ Hj E1) as [J1 G1]. destruct (IH _ _ _ J1 E2) as [J2 G2].
    split; [exact J2|apply (grows_trans _ _ _ G1 G2)].
Qed.

(* the whole recursion keeps the table acyclic *)
Theorem pot_fill_tr_j fd fg dic0 tinfo : forall fuel key st ks st', jinv st ->
  pot_fill_tr tr_eqb fuel fd fg dic0 tinfo key st = Ok (ks, st') -> jinv st' /\ grows st st'.
Proof.
  induction fuel as [|f IH]; intros key st ks st' Hj H; cbn [pot_fill_tr] in H; [discriminate|].
  destruct (lookup key (tcells st)) as [cell|] eqn:Ek; [|discriminate].
  destruct (cfill cell) as [u|]; [|injection H as _ <-; split; [exact Hj|apply grows_refl]].
  destruct (fill_each_tr _ _ st) as [[tp st1]|er] eqn:E1; [|discriminate].
  destruct (fill_each_j _ IH _ _ _ _ Hj E1) as [J1 G1].
  destruct (make_cells_j _ _ _ _ _ _ _ _ _ _ _ J1 (proj1 G1 _ _ Ek) H) as [J2 G2].
  split; [exact J2|apply (grows_trans _ _ _ G1 G2)].
Qed.
End Acyc.

(* hence: for every surface environment the final state has a denotation of its
   cells, and it is the only one on the cells of the table *)
Theorem final_state_model {Tr P : Type} (act : Tr -> P -> P) (st : @tstate Tr) (senv : Z -> P -> bool) :
  jinv st ->
  exists D, cells_ok senv D st /\
    forall D', cells_ok senv D' st -> forall k, lookup k (tcells st) <> None -> forall p, D' k p = D k p.
Proof.
  intros [_ [_ [rank Hac]]].
  exists (fun c p => cden rank (fun s => senv s p) (tcells st) c). split.
  - intros p. apply (cden_model rank (fun s => senv s p) (tcells st) Hac).
  - intros D' HD k Hk p. apply (model_unique rank (fun s => senv s p) (tcells st) (fun c => D' c p) Hac (HD p) k Hk).
Qed.
