(* C13 — proofs about the de-duplication half of the model
   (SurfaceT4.__eq__, remove_duplicate_surfaces, renumber_surfaces). *)
From Coq Require Import List ZArith NArith Bool Lia Reals Permutation Sorted.
From T4V Require Import Base.Scalar Base.Cases C13.Model C13.Spec C13.Proofs.
Import ListNotations.
Open Scope Z_scope.

(* ---------- descriptor equality at R is equality ---------- *)
Lemma all_eq_RS (a b : list R) : all_eq RS a b = true -> a = b.
Proof.
  unfold all_eq. revert b; induction a as [|x a IH]; intros [|y b] H; cbn in H; try discriminate; auto.
  apply andb_true_iff in H. destruct H as [Hx Hr]. apply Reqb_true in Hx. subst. f_equal. auto.
Qed.

Lemma desc_eqb_RS (a b : desc R) : desc_eqb RS a b = true -> a = b.
Proof.
  destruct a as [ta pa tra], b as [tb pb trb]. unfold desc_eqb. cbn [dtype dparams dtrans].
  destruct tra as [[t1 r1]|], trb as [[t2 r2]|]; intros H; try discriminate.
  2: { rewrite andb_false_r in H. discriminate. }
  - repeat (apply andb_true_iff in H; destruct H as [H ?]).
    apply N.eqb_eq in H. apply all_eq_RS in H0, H1, H2. subst. reflexivity.
  - apply andb_true_iff in H; destruct H as [H _].
    apply andb_true_iff in H; destruct H as [H H0].
    apply N.eqb_eq in H. apply all_eq_RS in H0. subst. reflexivity.
Qed.

Lemma all_eq_RS_refl (a : list R) : all_eq RS a a = true.
Proof.
  unfold all_eq. induction a as [|x a IH]; cbn [list_eqb]; auto. rewrite IH, andb_true_r.
  apply Reqb_true. reflexivity.
Qed.

Lemma desc_eqb_RS_refl (a : desc R) : desc_eqb RS a a = true.
Proof.
  destruct a as [ta pa [[t r]|]]; unfold desc_eqb; cbn [dtype dparams dtrans];
    rewrite N.eqb_refl, ?all_eq_RS_refl; reflexivity.
Qed.

(* ---------- __hash__ is consistent with __eq__ ---------- *)
Lemma all_eq_map_hash {T} (S : Scalar T) (h : T -> Z) :
  (forall x y, seqb S x y = true -> h x = h y) ->
  forall a b, all_eq S a b = true -> map h a = map h b.
Proof.
  intros Hh. unfold all_eq. induction a as [|x a IH]; intros [|y b] H; cbn [list_eqb] in H; try discriminate; [reflexivity|].
  apply andb_true_iff in H. destruct H as [Hx Hr]. cbn [map]. rewrite (Hh _ _ Hx), (IH _ Hr). reflexivity.
Qed.

Theorem desc_hash_consistent {T} (S : Scalar T) (h : T -> Z) (mix : list Z -> Z) :
  (forall x y, seqb S x y = true -> h x = h y) ->
  forall a b, desc_eqb S a b = true -> desc_hash h mix a = desc_hash h mix b.
Proof.
  intros Hh [ta pa tra] [tb pb trb]. unfold desc_eqb, desc_hash. cbn [dtype dparams dtrans].
  destruct tra as [[t1 r1]|], trb as [[t2 r2]|]; intros H; try discriminate.
  2: { rewrite andb_false_r in H. discriminate. }
  - repeat (apply andb_true_iff in H; destruct H as [H ?]).
    apply N.eqb_eq in H. subst.
    rewrite (all_eq_map_hash S h Hh _ _ H0), (all_eq_map_hash S h Hh _ _ H1), (all_eq_map_hash S h Hh _ _ H2). reflexivity.
  - apply andb_true_iff in H; destruct H as [H _].
    apply andb_true_iff in H; destruct H as [H H0].
    apply N.eqb_eq in H. subst. rewrite (all_eq_map_hash S h Hh _ _ H0). reflexivity.
Qed.

(* ---------- sorting by key ---------- *)
Lemma insert_sorted_perm {V} (x : Z * V) l : Permutation (x :: l) (insert_sorted x l).
Proof.
  induction l as [|y r IH]; cbn [insert_sorted]; [apply Permutation_refl|].
  destruct (Z.leb (fst x) (fst y)); [apply Permutation_refl|].
  eapply perm_trans; [apply perm_swap|]. apply perm_skip. exact IH.
Qed.

Lemma sort_items_perm {V} (l : list (Z * V)) : Permutation l (sort_items l).
Proof.
  induction l as [|x r IH]; cbn; [constructor|].
  eapply perm_trans; [apply perm_skip; exact IH|]. apply insert_sorted_perm.
Qed.

Definition key_le {V} (a b : Z * V) : Prop := fst a <= fst b.

Lemma insert_sorted_sorted {V} (x : Z * V) l :
  StronglySorted key_le l -> StronglySorted key_le (insert_sorted x l).
Proof.
  induction 1 as [|y r Hs IH Hall]; cbn [insert_sorted]; [repeat constructor|].
  destruct (Z.leb (fst x) (fst y)) eqn:E.
  - apply Z.leb_le in E. constructor; [constructor; auto|].
    constructor; [exact E|]. rewrite Forall_forall in *. intros z Hz. specialize (Hall z Hz).
    unfold key_le in *. lia.
  - apply Z.leb_gt in E. constructor; [exact IH|].
    rewrite Forall_forall in *. intros z Hz.
    apply (Permutation_in _ (Permutation_sym (insert_sorted_perm x r))) in Hz.
    destruct Hz as [<-|Hz]; [unfold key_le; lia|auto].
Qed.

Lemma sort_items_sorted {V} (l : list (Z * V)) : StronglySorted key_le (sort_items l).
Proof. induction l as [|x r IH]; cbn; [constructor|]. apply insert_sorted_sorted; exact IH. Qed.

Lemma sort_items_id {V} (l : list (Z * V)) : StronglySorted key_le l -> sort_items l = l.
Proof.
  induction 1 as [|y r Hs IH Hall]; cbn [sort_items fold_right]; [reflexivity|].
  fold (sort_items r). rewrite IH. destruct r as [|z r']; cbn [insert_sorted]; [reflexivity|].
  inversion Hall as [|? ? Hz _]; subst. unfold key_le in Hz.
  destruct (Z.leb (fst y) (fst z)) eqn:E; [reflexivity|]. apply Z.leb_gt in E. lia.
Qed.

Section Dedup.
Context {T : Type} (S : Scalar T).

(* the loop without accumulators: (entries added to new_surfs, renumbering) *)
Fixpoint dedup_run (items seen : list (Z * desc T)) : list (Z * desc T) * list (Z * Z) :=
  match items with
  | [] => ([], [])
  | (k, d) :: r =>
      match find_id S d seen with
      | Some k' => let '(n, rn) := dedup_run r seen in (n, (k, k') :: rn)
      | None => let '(n, rn) := dedup_run r (seen ++ [(k, d)]) in ((k, d) :: n, (k, k) :: rn)
      end
  end.

Lemma dedup_loop_run items : forall seen ren,
  dedup_loop S items seen ren
  = (seen ++ fst (dedup_run items seen), ren ++ snd (dedup_run items seen)).
Proof.
  induction items as [|[k d] r IH]; intros seen ren; cbn [dedup_loop dedup_run].
  - rewrite !app_nil_r. reflexivity.
  - destruct (find_id S d seen) as [k'|].
    + rewrite IH. destruct (dedup_run r seen) as [n rn]. cbn [fst snd]. rewrite <- app_assoc. reflexivity.
    + rewrite IH. destruct (dedup_run r (seen ++ [(k, d)])) as [n rn]. cbn [fst snd].
      rewrite <- !app_assoc. reflexivity.
Qed.

Lemma rds_run surfs :
  remove_duplicate_surfaces S surfs = dedup_run (sort_items surfs) [].
Proof.
  unfold remove_duplicate_surfaces. rewrite dedup_loop_run. cbn [app].
  destruct (dedup_run (sort_items surfs) []); reflexivity.
Qed.

Lemma find_id_some d seen k' : find_id S d seen = Some k' ->
  exists d', In (k', d') seen /\ desc_eqb S d' d = true.
Proof.
  induction seen as [|[j dj] r IH]; cbn [find_id]; [discriminate|].
  destruct (desc_eqb S dj d) eqn:E; intros H.
  - injection H as <-. exists dj. split; [left; reflexivity|exact E].
  - destruct (IH H) as [d' [Hin He]]. exists d'. split; [right; exact Hin|exact He].
Qed.

Lemma find_id_none d seen : find_id S d seen = None ->
  forall j dj, In (j, dj) seen -> desc_eqb S dj d = false.
Proof.
  induction seen as [|[j0 d0] r IH]; cbn [find_id]; intros H j dj Hin; [destruct Hin|].
  destruct (desc_eqb S d0 d) eqn:E; [discriminate|].
  destruct Hin as [Heq|Hin]; [injection Heq as <- <-; exact E|eauto].
Qed.

(* what a renumbering entry means *)
Lemma run_ren items : forall seen k k',
  In (k, k') (snd (dedup_run items seen)) ->
  exists d d', In (k, d) items /\ In (k', d') (seen ++ fst (dedup_run items seen))
               /\ (desc_eqb S d' d = true \/ (k' = k /\ d' = d)).
Proof.
  induction items as [|[k0 d0] r IH]; intros seen k k' H; cbn [dedup_run] in *; [destruct H|].
  destruct (find_id S d0 seen) as [k1|] eqn:Ef.
  - destruct (dedup_run r seen) as [n rn] eqn:Er. cbn [fst snd] in *.
    destruct H as [Heq|H].
    + injection Heq as <- <-. destruct (find_id_some _ _ _ Ef) as [d' [Hin He]].
      exists d0, d'. split; [left; reflexivity|]. split; [apply in_or_app; left; exact Hin|left; exact He].
    + specialize (IH seen k k'). rewrite Er in IH. destruct (IH H) as [d [d' [H1 [H2 H3]]]].
      exists d, d'. split; [right; exact H1|]. split; [exact H2|exact H3].
  - destruct (dedup_run r (seen ++ [(k0, d0)])) as [n rn] eqn:Er. cbn [fst snd] in *.
    destruct H as [Heq|H].
    + injection Heq as <- <-. exists d0, d0. split; [left; reflexivity|].
      split; [apply in_or_app; right; left; reflexivity|right; split; reflexivity].
    + specialize (IH (seen ++ [(k0, d0)]) k k'). rewrite Er in IH.
      destruct (IH H) as [d [d' [H1 [H2 H3]]]].
      exists d, d'. split; [right; exact H1|]. split; [|exact H3].
      rewrite <- app_assoc in H2. exact H2.
Qed.

(* the kept entries are entries of the input, in the input's order *)
Lemma run_new_incl items : forall seen e, In e (fst (dedup_run items seen)) -> In e items.
Proof.
  induction items as [|[k0 d0] r IH]; intros seen e H; cbn [dedup_run] in *; [destruct H|].
  destruct (find_id S d0 seen).
  - specialize (IH seen e). destruct (dedup_run r seen). cbn [fst] in *. right; auto.
  - specialize (IH (seen ++ [(k0, d0)]) e). destruct (dedup_run r (seen ++ [(k0, d0)])). cbn [fst] in *.
    destruct H as [<-|H]; [left; reflexivity|right; auto].
Qed.

Lemma run_new_sorted items : forall seen, StronglySorted key_le items ->
  StronglySorted key_le (fst (dedup_run items seen)).
Proof.
  induction items as [|[k0 d0] r IH]; intros seen Hs; cbn [dedup_run]; [constructor|].
  inversion Hs as [|? ? Hs' Hall]; subst.
  destruct (find_id S d0 seen).
  - specialize (IH seen Hs'). destruct (dedup_run r seen). exact IH.
  - pose proof (run_new_incl r (seen ++ [(k0, d0)])) as Hincl.
    specialize (IH (seen ++ [(k0, d0)]) Hs'). destruct (dedup_run r (seen ++ [(k0, d0)])) as [n rn].
    cbn [fst] in *. constructor; [exact IH|]. rewrite Forall_forall in *. intros e He. auto.
Qed.

Lemma run_new_nodup items : forall seen, NoDup (map fst items) ->
  NoDup (map fst (fst (dedup_run items seen))).
Proof.
  induction items as [|[k0 d0] r IH]; intros seen Hn; cbn [dedup_run]; [constructor|].
  cbn [map fst] in Hn. inversion Hn as [|? ? Hnot Hn']; subst.
  destruct (find_id S d0 seen).
  - specialize (IH seen Hn'). destruct (dedup_run r seen). exact IH.
  - pose proof (run_new_incl r (seen ++ [(k0, d0)])) as Hincl.
    specialize (IH (seen ++ [(k0, d0)]) Hn'). destruct (dedup_run r (seen ++ [(k0, d0)])) as [n rn].
    cbn [fst map] in *. constructor; [|exact IH].
    intros Hin. apply Hnot. apply in_map_iff in Hin. destruct Hin as [e [He Hine]].
    apply in_map_iff. exists e. split; [exact He|auto].
Qed.

(* the renumbering has one entry per input surface, in sorted order *)
Lemma run_ren_keys items : forall seen, map fst (snd (dedup_run items seen)) = map fst items.
Proof.
  induction items as [|[k0 d0] r IH]; intros seen; cbn [dedup_run]; [reflexivity|].
  destruct (find_id S d0 seen).
  - specialize (IH seen). destruct (dedup_run r seen). cbn [snd map fst] in *. f_equal; exact IH.
  - specialize (IH (seen ++ [(k0, d0)])). destruct (dedup_run r (seen ++ [(k0, d0)])).
    cbn [snd map fst] in *. f_equal; exact IH.
Qed.

(* the survivor never has a larger number *)
Lemma run_ren_le items : forall seen, StronglySorted key_le items ->
  (forall e x, In e seen -> In x items -> fst e <= fst x) ->
  forall k k', In (k, k') (snd (dedup_run items seen)) -> k' <= k.
Proof.
  induction items as [|[k0 d0] r IH]; intros seen Hs Hle k k' H; cbn [dedup_run] in *; [destruct H|].
  inversion Hs as [|? ? Hs' Hall]; subst. rewrite Forall_forall in Hall.
  destruct (find_id S d0 seen) as [k1|] eqn:Ef.
  - destruct (dedup_run r seen) as [n rn] eqn:Er. cbn [snd] in *.
    destruct H as [Heq|H].
    + injection Heq as <- <-. destruct (find_id_some _ _ _ Ef) as [d' [Hin _]].
      apply (Hle (k1, d') (k0, d0) Hin (or_introl eq_refl)).
    + specialize (IH seen Hs'). rewrite Er in IH. apply IH; [|exact H].
      intros e x He Hx. apply Hle; [exact He|right; exact Hx].
  - destruct (dedup_run r (seen ++ [(k0, d0)])) as [n rn] eqn:Er. cbn [snd] in *.
    destruct H as [Heq|H].
    + injection Heq as <- <-. lia.
    + specialize (IH (seen ++ [(k0, d0)]) Hs'). rewrite Er in IH. apply IH; [|exact H].
      intros e x He Hx. apply in_app_or in He. destruct He as [He|[<-|[]]].
      * apply Hle; [exact He|right; exact Hx].
      * apply (Hall x Hx).
Qed.

(* no kept surface equals an earlier kept surface; running again changes nothing *)
Fixpoint fresh_chain (seen n : list (Z * desc T)) : Prop :=
  match n with
  | [] => True
  | (k, d) :: r => find_id S d seen = None /\ fresh_chain (seen ++ [(k, d)]) r
  end.

Lemma run_fresh items : forall seen, fresh_chain seen (fst (dedup_run items seen)).
Proof.
  induction items as [|[k0 d0] r IH]; intros seen; cbn [dedup_run]; [exact I|].
  destruct (find_id S d0 seen) eqn:Ef.
  - specialize (IH seen). destruct (dedup_run r seen). exact IH.
  - specialize (IH (seen ++ [(k0, d0)])). destruct (dedup_run r (seen ++ [(k0, d0)])).
    cbn [fst fresh_chain] in *. split; [exact Ef|exact IH].
Qed.

Lemma fresh_run n : forall seen, fresh_chain seen n ->
  dedup_run n seen = (n, map (fun e => (fst e, fst e)) n).
Proof.
  induction n as [|[k d] r IH]; intros seen H; cbn [dedup_run map]; [reflexivity|].
  destruct H as [Hf Hc]. rewrite Hf, (IH _ Hc). reflexivity.
Qed.
End Dedup.

(* ---------- theorems on remove_duplicate_surfaces ---------- *)

(* general scalar: a merged pair passed the implementation's equality test *)
Theorem dedup_merges_tested {T} (S : Scalar T) surfs k k' :
  In (k, k') (snd (remove_duplicate_surfaces S surfs)) ->
  exists d d', In (k, d) surfs /\ In (k', d') surfs
    /\ In (k', d') (fst (remove_duplicate_surfaces S surfs))
    /\ (desc_eqb S d' d = true \/ (k' = k /\ d' = d)).
Proof.
  rewrite rds_run. intros H. destruct (run_ren S _ _ _ _ H) as [d [d' [H1 [H2 H3]]]].
  cbn [app] in H2. exists d, d'.
  split; [apply (Permutation_in _ (Permutation_sym (sort_items_perm surfs))); exact H1|].
  split; [|split; [exact H2|exact H3]].
  apply (Permutation_in _ (Permutation_sym (sort_items_perm surfs))).
  apply (run_new_incl S _ _ _ H2).
Qed.

(* at R: r k = k' -> desc k = desc k', the survivor is kept with that
   descriptor, hence every function of the descriptor (the sense of any point)
   agrees on k and k' *)
Theorem dedup_merges_equal (surfs : list (Z * desc R)) k k' :
  In (k, k') (snd (remove_duplicate_surfaces RS surfs)) ->
  exists d, In (k, d) surfs /\ In (k', d) surfs
            /\ In (k', d) (fst (remove_duplicate_surfaces RS surfs)).
Proof.
  intros H. destruct (dedup_merges_tested RS surfs k k' H) as [d [d' [H1 [H2 [H3 H4]]]]].
  assert (d' = d) as -> by (destruct H4 as [He|[_ He]]; [apply desc_eqb_RS; exact He|exact He]).
  exists d. auto.
Qed.

Theorem dedup_survivor_smallest {T} (S : Scalar T) surfs k k' :
  In (k, k') (snd (remove_duplicate_surfaces S surfs)) -> k' <= k.
Proof.
  rewrite rds_run. apply run_ren_le; [apply sort_items_sorted|intros e x []].
Qed.

Theorem dedup_covers {T} (S : Scalar T) surfs :
  Permutation (map fst (snd (remove_duplicate_surfaces S surfs))) (map fst surfs).
Proof.
  rewrite rds_run, run_ren_keys. apply Permutation_map. apply Permutation_sym, sort_items_perm.
Qed.

Theorem dedup_idempotent {T} (S : Scalar T) surfs :
  let new := fst (remove_duplicate_surfaces S surfs) in
  remove_duplicate_surfaces S new = (new, map (fun e => (fst e, fst e)) new).
Proof.
  cbv zeta. rewrite (rds_run S surfs). rewrite rds_run.
  rewrite sort_items_id by (apply run_new_sorted; apply sort_items_sorted).
  apply fresh_run. apply run_fresh.
Qed.

Lemma NoDup_app_one {A} (l : list A) x : NoDup l -> ~ In x l -> NoDup (l ++ [x]).
Proof.
  induction l as [|y r IH]; intros Hn Hx; cbn [app]; [repeat constructor; auto|].
  inversion Hn as [|? ? Hy Hr]; subst. constructor.
  - intros Hin. apply in_app_or in Hin. destruct Hin as [Hin|[<-|[]]]; [auto|]. apply Hx. left; reflexivity.
  - apply IH; [exact Hr|]. intros Hin. apply Hx. right; exact Hin.
Qed.

(* at R the survivor is the smallest number carrying that descriptor *)
Lemma run_min (items : list (Z * desc R)) : forall seen,
  StronglySorted key_le items ->
  (forall e x, In e seen -> In x items -> fst e <= fst x) ->
  NoDup (map snd seen) ->
  forall k k', In (k, k') (snd (dedup_run RS items seen)) ->
  forall d, In (k, d) items -> NoDup (map fst items) ->
  forall j, In (j, d) (seen ++ items) -> k' <= j.
Proof.
  induction items as [|[k0 d0] r IH]; intros seen Hs Hle Hnd k k' H d Hd Hnk j Hj; cbn [dedup_run] in *; [destruct H|].
  inversion Hs as [|? ? Hs' Hall]; subst. rewrite Forall_forall in Hall.
  cbn [map fst] in Hnk. inversion Hnk as [|? ? Hnot Hnk']; subst.
  assert (Hfind : forall dd kk, find_id RS dd seen = Some kk -> In (kk, dd) seen).
  { intros dd kk Hf. destruct (find_id_some RS _ _ _ Hf) as [d' [Hin He]].
    apply desc_eqb_RS in He. subst. exact Hin. }
  assert (Huniq : forall a b dd, In (a, dd) seen -> In (b, dd) seen -> a = b).
  { clear -Hnd. induction seen as [|[a0 d1] s IHs]; intros a b dd Ha Hb; [destruct Ha|].
    cbn [map snd] in Hnd. inversion Hnd as [|? ? Hn1 Hn2]; subst.
    destruct Ha as [Ha|Ha], Hb as [Hb|Hb].
    - congruence.
    - injection Ha as -> ->. exfalso. apply Hn1. apply in_map_iff. exists (b, dd). auto.
    - injection Hb as -> ->. exfalso. apply Hn1. apply in_map_iff. exists (a, dd). auto.
    - eauto. }
  destruct (find_id RS d0 seen) as [k1|] eqn:Ef.
  - destruct (dedup_run RS r seen) as [n rn] eqn:Er. cbn [snd] in *.
    destruct H as [Heq|H].
    + injection Heq as <- <-.
      assert (d = d0) as ->.
      { destruct Hd as [Hd|Hd]; [congruence|]. exfalso. apply Hnot. apply in_map_iff. exists (k0, d). auto. }
      pose proof (Hfind _ _ Ef) as Hin1.
      apply in_app_or in Hj. destruct Hj as [Hj|Hj].
      * rewrite (Huniq _ _ _ Hin1 Hj). lia.
      * apply (Hle (k1, d0) (j, d0) Hin1 Hj).
    + destruct Hd as [Hd|Hd].
      { injection Hd as <- <-. exfalso. apply Hnot.
        pose proof (run_ren_keys RS r seen) as Hk. rewrite Er in Hk. cbn [snd] in Hk. rewrite <- Hk.
        apply in_map_iff. exists (k0, k'). auto. }
      specialize (IH seen Hs'). rewrite Er in IH.
      apply in_app_or in Hj. destruct Hj as [Hj|[Hj|Hj]].
      * apply (IH (fun e x He Hx => Hle e x He (or_intror Hx)) Hnd k k' H d Hd Hnk' j).
        apply in_or_app; left; exact Hj.
      * injection Hj as <- <-. (* the head item has the same descriptor: its survivor k1 is in seen *)
        pose proof (Hfind _ _ Ef) as Hin1.
        assert (k' <= k1).
        { apply (IH (fun e x He Hx => Hle e x He (or_intror Hx)) Hnd k k' H d0 Hd Hnk' k1).
          apply in_or_app; left; exact Hin1. }
        pose proof (Hle (k1, d0) (k0, d0) Hin1 (or_introl eq_refl)). cbn [fst] in *. lia.
      * apply (IH (fun e x He Hx => Hle e x He (or_intror Hx)) Hnd k k' H d Hd Hnk' j).
        apply in_or_app; right; exact Hj.
  - destruct (dedup_run RS r (seen ++ [(k0, d0)])) as [n rn] eqn:Er. cbn [snd] in *.
    destruct H as [Heq|H].
    + injection Heq as <- <-.
      assert (d = d0) as ->.
      { destruct Hd as [Hd|Hd]; [congruence|]. exfalso. apply Hnot. apply in_map_iff. exists (k0, d). auto. }
      apply in_app_or in Hj. destruct Hj as [Hj|[Hj|Hj]].
      * exfalso. pose proof (find_id_none RS _ _ Ef _ _ Hj) as Hne.
        rewrite desc_eqb_RS_refl in Hne. discriminate.
      * injection Hj as <-. lia.
      * apply (Hall (j, d0) Hj).
    + destruct Hd as [Hd|Hd].
      { injection Hd as <- <-. exfalso. apply Hnot.
        pose proof (run_ren_keys RS r (seen ++ [(k0, d0)])) as Hk. rewrite Er in Hk. cbn [snd] in Hk.
        rewrite <- Hk. apply in_map_iff. exists (k0, k'). auto. }
      specialize (IH (seen ++ [(k0, d0)]) Hs'). rewrite Er in IH.
      apply (IH) with (k := k) (d := d); auto.
      * intros e x He Hx. apply in_app_or in He. destruct He as [He|[<-|[]]].
        -- apply Hle; [exact He|right; exact Hx].
        -- apply (Hall x Hx).
      * rewrite map_app. cbn [map snd]. apply NoDup_app_one.
        -- exact Hnd.
        -- intros Hin. apply in_map_iff in Hin. destruct Hin as [[j0 dj] [He Hin]]. cbn [snd] in He. subst dj.
           pose proof (find_id_none RS _ _ Ef _ _ Hin) as Hne. rewrite desc_eqb_RS_refl in Hne. discriminate.
      * rewrite <- app_assoc. exact Hj.
Qed.

Theorem dedup_survivor_minimal (surfs : list (Z * desc R)) k k' d j :
  NoDup (map fst surfs) ->
  In (k, k') (snd (remove_duplicate_surfaces RS surfs)) ->
  In (k, d) surfs -> In (j, d) surfs -> k' <= j.
Proof.
  intros Hn H Hd Hj. rewrite rds_run in H.
  pose proof (sort_items_perm surfs) as Hp.
  apply (run_min (sort_items surfs) [] (sort_items_sorted surfs)) with (k := k) (d := d); auto.
  - intros e x [].
  - constructor.
  - apply (Permutation_in _ Hp); exact Hd.
  - apply (Permutation_NoDup (Permutation_map fst Hp)); exact Hn.
  - cbn [app]. apply (Permutation_in _ Hp); exact Hj.
Qed.

(* ---------- renumbering by a sense-preserving map ---------- *)
Lemma forallb_zset_add f x s : forallb f (zset_add x s) = f x && forallb f s.
Proof.
  induction s as [|y r IH]; cbn [zset_add forallb]; [reflexivity|].
  destruct (Z.ltb x y); [reflexivity|]. destruct (Z.eqb x y) eqn:E.
  - apply Z.eqb_eq in E; subst. cbn [forallb]. destruct (f y); reflexivity.
  - cbn [forallb]. rewrite IH. destruct (f x), (f y); reflexivity.
Qed.

Lemma forallb_zset_of_list f l : forallb f (zset_of_list l) = forallb f l.
Proof.
  induction l as [|x r IH]; cbn [zset_of_list fold_right forallb]; [reflexivity|].
  fold (zset_of_list r). rewrite forallb_zset_add, IH. reflexivity.
Qed.

Lemma renumber_ids_ok ren l l' : renumber_ids ren l = Ok l' ->
  Forall2 (fun s s' => lookup s ren = Some s') l l'.
Proof.
  revert l'; induction l as [|s r IH]; intros l' H; cbn [renumber_ids] in H.
  - injection H as <-; constructor.
  - destruct (lookup s ren) as [s'|] eqn:El; [|discriminate].
    destruct (renumber_ids ren r) as [r'|e]; [|discriminate]. injection H as <-. constructor; auto.
Qed.

Section Renumber.
Variables (sigma sigma' : Z -> bool) (ren : list (Z * Z)).
Hypothesis Hsense : forall s s', lookup s ren = Some s' -> sigma' s' = sigma s.

Lemma renumber_volu_equa v v' : renumber_volu ren v = Ok v' ->
  equa sigma' v' = equa sigma v /\ ops v' = ops v /\ fictive v' = fictive v.
Proof.
  unfold renumber_volu. destruct (renumber_ids ren (pluses v)) as [p|e] eqn:Ep; [|discriminate].
  destruct (renumber_ids ren (minuses v)) as [m|e] eqn:Em; [|discriminate].
  intros H; injection H as <-. cbn [ops fictive]. split; [|auto].
  unfold equa. cbn [pluses minuses]. rewrite !forallb_zset_of_list.
  apply renumber_ids_ok in Ep, Em. f_equal.
  - induction Ep as [|s s' r r' Hs _ IH]; cbn [forallb]; [reflexivity|]. rewrite (Hsense _ _ Hs), IH. reflexivity.
  - induction Em as [|s s' r r' Hs _ IH]; cbn [forallb]; [reflexivity|]. rewrite (Hsense _ _ Hs), IH. reflexivity.
Qed.

Lemma renumber_all_lookup volus : forall volus', renumber_all volus ren = Ok volus' ->
  forall k, match lookup k volus with
            | Some v => exists v', lookup k volus' = Some v' /\ renumber_volu ren v = Ok v'
            | None => lookup k volus' = None
            end.
Proof.
  induction volus as [|[k0 v0] r IH]; intros volus' H k; cbn [renumber_all] in H.
  - injection H as <-. reflexivity.
  - destruct (renumber_volu ren v0) as [v0'|e] eqn:Ev; [|discriminate].
    destruct (renumber_all r ren) as [r'|e] eqn:Er; [|discriminate]. injection H as <-.
    cbn [lookup]. destruct (Z.eqb k0 k); [eauto|]. apply (IH _ eq_refl).
Qed.

(* renumbering by a sense-preserving map preserves every volume's denotation *)
Theorem renumber_den volus volus' : renumber_surfaces volus ren = Ok volus' ->
  forall fuel k, vden fuel sigma' volus' k = vden fuel sigma volus k.
Proof.
  intros H. assert (Ha : renumber_all volus ren = Ok volus').
  { unfold renumber_surfaces in H. destruct volus; [discriminate|exact H]. }
  clear H. induction fuel as [|f IH]; intros k; cbn [vden]; [reflexivity|].
  pose proof (renumber_all_lookup _ _ Ha k) as Hl.
  destruct (lookup k volus) as [v|].
  - destruct Hl as [v' [Hl Hv]]. rewrite Hl.
    destruct (renumber_volu_equa _ _ Hv) as [He [Ho _]]. rewrite Ho, He.
    destruct (ops v) as [[[|] args]|]; try reflexivity;
      rewrite (map_ext _ _ IH); reflexivity.
  - rewrite Hl. reflexivity.
Qed.
End Renumber.

(* ---------- de-duplication as a whole, at R ---------- *)
(* sense assignment induced by a table of descriptors: any function of the
   descriptor (e.g. the sign of its implicit function at a point) *)
Definition sense_of {T} (sense : desc T -> bool) (surfs : list (Z * desc T)) (k : Z) : bool :=
  match lookup k surfs with Some d => sense d | None => false end.

Lemma In_lookup {V} k (v : V) d : NoDup (map fst d) -> In (k, v) d -> lookup k d = Some v.
Proof.
  induction d as [|[k0 v0] r IH]; intros Hn Hin; [destruct Hin|].
  cbn [map fst] in Hn. inversion Hn as [|? ? Hnot Hn']; subst. cbn [lookup].
  destruct Hin as [Heq|Hin].
  - injection Heq as -> ->. rewrite Z.eqb_refl. reflexivity.
  - destruct (Z.eqb k0 k) eqn:E; [|auto]. apply Z.eqb_eq in E; subst. exfalso. apply Hnot.
    apply in_map_iff. exists (k, v). auto.
Qed.

(* any scalar: it is enough that the sense function respects the equality test
   (at binary64: PrimFloat.eqb true means the same real or +-0, Flocq) *)
Theorem dedup_den_gen {T} (S : Scalar T) (sense : desc T -> bool) surfs volus new ren volus' :
  (forall a b, desc_eqb S a b = true -> sense a = sense b) ->
  NoDup (map fst surfs) ->
  remove_duplicate_surfaces S surfs = (new, ren) ->
  renumber_surfaces volus ren = Ok volus' ->
  forall fuel k, vden fuel (sense_of sense new) volus' k = vden fuel (sense_of sense surfs) volus k.
Proof.
  intros Hresp Hn Hr Hv. apply (renumber_den _ _ ren); [|exact Hv].
  intros s s' Hl. apply lookup_In in Hl.
  assert (Hin : In (s, s') (snd (remove_duplicate_surfaces S surfs))) by (rewrite Hr; exact Hl).
  destruct (dedup_merges_tested S surfs s s' Hin) as [d [d' [H1 [H2 [H3 H4]]]]]. rewrite Hr in H3. cbn [fst] in H3.
  unfold sense_of. rewrite (In_lookup _ _ _ Hn H1).
  assert (Hnn : NoDup (map fst new)).
  { pose proof (rds_run S surfs) as E. rewrite Hr in E.
    replace new with (fst (dedup_run S (sort_items surfs) [])) by (rewrite <- E; reflexivity).
    apply run_new_nodup. apply (Permutation_NoDup (Permutation_map fst (sort_items_perm surfs))). exact Hn. }
  rewrite (In_lookup _ _ _ Hnn H3). destruct H4 as [He|[_ ->]]; [apply Hresp; exact He|reflexivity].
Qed.

Theorem dedup_den (sense : desc R -> bool) surfs volus new ren volus' :
  NoDup (map fst surfs) ->
  remove_duplicate_surfaces RS surfs = (new, ren) ->
  renumber_surfaces volus ren = Ok volus' ->
  forall fuel k, vden fuel (sense_of sense new) volus' k = vden fuel (sense_of sense surfs) volus k.
Proof.
  apply dedup_den_gen. intros a b H. apply desc_eqb_RS in H. subst. reflexivity.
Qed.

(* ---------- the union helper planes take part in de-duplication ---------- *)
(* surfaces 1 = PX 1 (user), 2, 3 = PY 0 (duplicates), 5, 6 = the helper planes
   PLANEX 1 / PLANEX -1; the volume table is the one construct_volume_t4 returns
   for the cell (2 -3) : -1 (the harness compares it with the captured one):
   4 = EQUA PLUS 2 MINUS 3, 6 = EQUA MINUS 1, 5 = 1 = EQUA PLUS 2 MINUS 3 UNION 6.
   De-duplication merges helper 5 into the user plane 1 and 3 into 2; volume 1
   becomes patently empty and gets the helper equation, written with the
   RENUMBERED helper (PLUS 1 MINUS 6): both option settings write a file.
   (Before the fix "renumber the union helper planes together with the other
   surfaces" the stale number 5 was used and the writer raised KeyError.) *)
Definition helper_surfs : list (Z * desc Z) :=
  [(1, mkDesc 0%N [1] None); (2, mkDesc 1%N [0] None); (3, mkDesc 1%N [0] None);
   (5, mkDesc 0%N [1] None); (6, mkDesc 0%N [-1] None)].
Definition helper_volus : list (Z * volu) :=
  [(4, mkVolu [2] [3] None true); (6, mkVolu [] [1] None true);
   (5, mkVolu [2] [3] (Some (OUnion, [6])) true); (1, mkVolu [2] [3] (Some (OUnion, [6])) false)].

Lemma helper_merge_example :
  finish ZS false helper_surfs helper_volus 5 6 =
    Ok ([(1, mkDesc 0%N [1] None); (2, mkDesc 1%N [0] None); (6, mkDesc 0%N [-1] None)],
        [(6, mkVolu [] [1] None true); (1, mkVolu [1] [6] (Some (OUnion, [6])) false)],
        [1; 6]) /\
  exists out, finish ZS true helper_surfs helper_volus 5 6 = Ok out.
Proof. split; [vm_compute; reflexivity|eexists; vm_compute; reflexivity]. Qed.

(* second witness: the only live cell  -1 2  with 1, 2 both PX 2 (tables as
   construct_volume_t4 builds them; helper planes 4, 5).  After de-duplication every
   volume is patently empty and is removed; the writer's progress meter then takes
   max() of an empty set (ValueError).  Without de-duplication the (geometrically
   empty) volume is written. *)
Definition empty_surfs : list (Z * desc Z) :=
  [(1, mkDesc 0%N [2] None); (2, mkDesc 0%N [2] None); (4, mkDesc 0%N [1] None); (5, mkDesc 0%N [-1] None)].
Definition empty_volus : list (Z * volu) :=
  [(4, mkVolu [2] [1] None true); (1, mkVolu [2] [1] None false)].

Theorem dedup_all_empty_refuted :
  finish ZS false empty_surfs empty_volus 4 5 = Err EValue /\
  exists out, finish ZS true empty_surfs empty_volus 4 5 = Ok out.
Proof. split; [vm_compute; reflexivity|eexists; vm_compute; reflexivity]. Qed.

(* ---------- the guarded statement: when the helper planes survive
   de-duplication, the writer finds every surface it looks up ---------- *)
Definition ids_in (K : Z -> Prop) (dic : list (Z * volu)) : Prop :=
  forall k v, In (k, v) dic -> forall s, In s (pluses v ++ minuses v) -> K s.

Lemma zset_add_in x l s : In s (zset_add x l) -> s = x \/ In s l.
Proof.
  induction l as [|y r IH]; cbn [zset_add]; [intros [<-|[]]; auto|].
  destruct (Z.ltb x y); [intros [<-|H]; auto|]. destruct (Z.eqb x y); [auto|].
  intros [<-|H]; [right; left; reflexivity|]. destruct (IH H); [auto|right; right; auto].
Qed.

Lemma zset_of_list_in l s : In s (zset_of_list l) -> In s l.
Proof.
  induction l as [|x r IH]; cbn [zset_of_list fold_right]; [auto|]. fold (zset_of_list r).
  intros H. destruct (zset_add_in _ _ _ H) as [->|H']; [left; reflexivity|right; auto].
Qed.

Lemma renumber_ids_values ren l l' : renumber_ids ren l = Ok l' ->
  forall s', In s' l' -> exists s, lookup s ren = Some s'.
Proof.
  intros H. apply renumber_ids_ok in H. induction H as [|s t r r' Hst _ IH]; intros s' [].
  - subst. eauto.
  - auto.
Qed.

Lemma renumber_all_ids ren volus : forall volus', renumber_all volus ren = Ok volus' ->
  ids_in (fun s' => exists s, lookup s ren = Some s') volus'.
Proof.
  induction volus as [|[k0 v0] r IH]; intros volus' H; cbn [renumber_all] in H.
  - injection H as <-. intros k v [].
  - destruct (renumber_volu ren v0) as [v0'|e] eqn:Ev; [|discriminate].
    destruct (renumber_all r ren) as [r'|e] eqn:Er; [|discriminate]. injection H as <-.
    intros k v [Heq|Hin] s Hs; [|exact (IH _ eq_refl k v Hin s Hs)].
    injection Heq as <- <-. unfold renumber_volu in Ev.
    destruct (renumber_ids ren (pluses v0)) as [p|e] eqn:Ep; [|discriminate].
    destruct (renumber_ids ren (minuses v0)) as [m|e] eqn:Em; [|discriminate].
    injection Ev as <-. cbn [pluses minuses] in Hs. apply in_app_or in Hs.
    destruct Hs as [Hs|Hs]; apply zset_of_list_in in Hs;
      [exact (renumber_ids_values _ _ _ Ep _ Hs)|exact (renumber_ids_values _ _ _ Em _ Hs)].
Qed.

Lemma update_in {V} k (v : V) d e : In e (update k v d) -> e = (k, v) \/ In e d.
Proof.
  induction d as [|[k' v'] r IH]; cbn [update]; [intros [<-|[]]; auto|].
  destruct (Z.eqb k' k); intros [<-|H]; auto.
  - right; right; exact H.
  - right; left; reflexivity.
  - destruct (IH H); [auto|right; right; auto].
Qed.

Lemma remove_key_in {V} k (d : list (Z * V)) e : In e (remove_key k d) -> In e d.
Proof.
  induction d as [|[k' v'] r IH]; cbn [remove_key]; [auto|].
  destruct (Z.eqb k' k); [intros H; right; exact H|intros [<-|H]; [left; reflexivity|right; auto]].
Qed.

Section Guard.
Variable K : Z -> Prop.
Variables u0 u1 : Z.
Hypothesis Hu0 : K u0.
Hypothesis Hu1 : K u1.

Lemma remove_step_ids : forall to_remove dic gone dic' gone',
  remove_step u0 u1 to_remove dic gone = Ok (dic', gone') -> ids_in K dic -> ids_in K dic'.
Proof.
  induction to_remove as [|k r IH]; intros dic gone dic' gone' H Hi; cbn [remove_step] in H.
  - injection H as <- _. exact Hi.
  - destruct (lookup k dic) as [v|]; [|discriminate].
    assert (Hdel : ids_in K (remove_key k dic)).
    { intros k' v' Hin. apply (Hi k' v'). apply (remove_key_in _ _ _ Hin). }
    destruct (ops v) as [[[|] args]|].
    + apply (IH _ _ _ _ H). intros k' v' Hin s Hs. destruct (update_in _ _ _ _ Hin) as [Heq|Hin'].
      * injection Heq as E1 E2. subst k' v'. cbn [pluses minuses app] in Hs. destruct Hs as [<-|[<-|[]]]; assumption.
      * exact (Hi _ _ Hin' s Hs).
    + exact (IH _ _ _ _ H Hdel).
    + exact (IH _ _ _ _ H Hdel).
Qed.

Lemma prune_ops_ids removed : forall dic, ids_in K dic -> ids_in K (fst (prune_ops removed dic)).
Proof.
  induction dic as [|[k v] r IH]; intros Hi; cbn [prune_ops]; [intros ? ? []|].
  assert (Hr : ids_in K r) by (intros k' v' Hin; apply (Hi k' v'); right; exact Hin).
  specialize (IH Hr). destruct (prune_ops removed r) as [r' tr]. cbn [fst] in *.
  assert (Hv : forall s, In s (pluses v ++ minuses v) -> K s) by (apply (Hi k v); left; reflexivity).
  destruct (ops v) as [[[|] args]|].
  - cbn [fst]. intros k' v' [Heq|Hin] s Hs; [injection Heq as <- <-; cbn [pluses minuses] in Hs; auto|exact (IH _ _ Hin s Hs)].
  - destruct (existsb _ args); cbn [fst]; intros k' v' [Heq|Hin] s Hs;
      try (injection Heq as <- <-; auto); exact (IH _ _ Hin s Hs).
  - cbn [fst]. intros k' v' [Heq|Hin] s Hs; [injection Heq as <- <-; auto|exact (IH _ _ Hin s Hs)].
Qed.

Lemma remove_loop_ids : forall fuel dic removed to_remove dic',
  remove_loop fuel u0 u1 dic removed to_remove = Ok dic' -> ids_in K dic -> ids_in K dic'.
Proof.
  induction fuel as [|f IH]; intros dic removed to_remove dic' H Hi; cbn [remove_loop] in H.
  - destruct to_remove; [injection H as <-; exact Hi|discriminate].
  - destruct to_remove as [|t tr]; [injection H as <-; exact Hi|].
    destruct (remove_step u0 u1 (t :: tr) dic []) as [[dic1 gone]|e] eqn:Es; [|discriminate].
    pose proof (prune_ops_ids (removed ++ gone) dic1 (remove_step_ids _ _ _ _ _ Es Hi)) as Hp.
    destruct (prune_ops (removed ++ gone) dic1) as [dic2 tr2]. cbn [fst] in Hp.
    exact (IH _ _ _ _ H Hp).
Qed.
End Guard.

Lemma used_surfaces_in dic s : In s (used_surfaces dic) ->
  exists k v, In (k, v) dic /\ In s (pluses v ++ minuses v).
Proof.
  unfold used_surfaces. intros H. apply zset_of_list_in in H. apply in_flat_map in H.
  destruct H as [[k v] [Hin Hs]]. exists k, v. split; [exact Hin|exact Hs].
Qed.

(* the renumbered helper planes are kept surfaces *)
Theorem dedup_helpers_survive {T} (S : Scalar T) surfs volus u0 u1 s' v' a b :
  dedup_stage S false surfs volus u0 u1 = Ok (s', v', (a, b)) ->
  lookup a s' <> None /\ lookup b s' <> None /\
  In (u0, a) (snd (remove_duplicate_surfaces S surfs)) /\
  In (u1, b) (snd (remove_duplicate_surfaces S surfs)).
Proof.
  intros Hd. unfold dedup_stage in Hd.
  destruct (remove_duplicate_surfaces S surfs) as [new ren] eqn:Er.
  destruct (renumber_surfaces volus ren) as [vv|e]; [|discriminate].
  destruct (lookup u0 ren) as [a0|] eqn:E0; [|discriminate].
  destruct (lookup u1 ren) as [b0|] eqn:E1; [|discriminate].
  injection Hd as <- <- <- <-. apply lookup_In in E0, E1. cbn [snd].
  assert (Hk : forall u x, In (u, x) ren -> lookup x new <> None).
  { intros u x Hin.
    assert (Hin2 : In (u, x) (snd (remove_duplicate_surfaces S surfs))) by (rewrite Er; exact Hin).
    destruct (dedup_merges_tested S surfs u x Hin2) as [d [d' [_ [_ [H3 _]]]]]. rewrite Er in H3.
    apply lookup_keys. apply in_map_iff. exists (x, d'). split; [reflexivity|exact H3]. }
  split; [exact (Hk _ _ E0)|]. split; [exact (Hk _ _ E1)|]. split; assumption.
Qed.

(* the writer finds every surface it looks up - for every table, every scalar
   (no guard: the helper planes are renumbered with the other surfaces) *)
Theorem dedup_writer_finds_surfaces {T} (S : Scalar T) surfs volus s' v' u0 u1 a b v'' :
  dedup_stage S false surfs volus u0 u1 = Ok (s', v', (a, b)) ->
  remove_empty_volumes v' a b = Ok v'' ->
  written_surfaces s' (remove_unused_volumes v'') <> Err EKey.
Proof.
  intros Hd He. destruct (dedup_helpers_survive S _ _ _ _ _ _ _ _ Hd) as [Hg0 [Hg1 _]].
  unfold dedup_stage in Hd.
  destruct (remove_duplicate_surfaces S surfs) as [new ren] eqn:Er.
  destruct (renumber_surfaces volus ren) as [vv|e] eqn:Ev; [|discriminate].
  destruct (lookup u0 ren) as [a0|]; [|discriminate].
  destruct (lookup u1 ren) as [b0|]; [|discriminate].
  injection Hd as <- <- <- <-.
  assert (Ha : renumber_all volus ren = Ok vv).
  { unfold renumber_surfaces in Ev. destruct volus; [discriminate|exact Ev]. }
  set (K := fun s => lookup s new <> None).
  assert (Hi : ids_in K vv).
  { intros k v Hin s Hs. destruct (renumber_all_ids _ _ _ Ha k v Hin s Hs) as [s0 Hl].
    apply lookup_In in Hl.
    assert (Hin2 : In (s0, s) (snd (remove_duplicate_surfaces S surfs))) by (rewrite Er; exact Hl).
    destruct (dedup_merges_tested S surfs s0 s Hin2) as [d [d' [_ [_ [H3 _]]]]]. rewrite Er in H3.
    unfold K. apply lookup_keys. apply in_map_iff. exists (s, d'). split; [reflexivity|exact H3]. }
  unfold remove_empty_volumes in He.
  pose proof (remove_loop_ids K a0 b0 Hg0 Hg1 _ _ _ _ _ He Hi) as Hi2.
  unfold written_surfaces. destruct (used_surfaces (remove_unused_volumes v'')) as [|x l] eqn:Eu; [discriminate|].
  rewrite <- Eu.
  assert (Hall : forallb (fun s => match lookup s new with Some _ => true | None => false end)
                   (used_surfaces (remove_unused_volumes v'')) = true).
  { apply forallb_forall. intros s Hs. destruct (used_surfaces_in _ _ Hs) as [k [v [Hin Hsv]]].
    unfold remove_unused_volumes in Hin. apply filter_In in Hin. destruct Hin as [Hin _].
    pose proof (Hi2 k v Hin s Hsv) as Hk. unfold K in Hk. destruct (lookup s new); [reflexivity|congruence]. }
  rewrite Hall. discriminate.
Qed.
