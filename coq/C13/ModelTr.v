(* C13 — pot_fill WITH transformations (FILL=n (tr), TRCL on the filled cell):
     Kernel/Volume/CellConversion.py  pot_transform   [ptrans]
                                      cell_transform  [ctransform] (with its cache)
                                      pot_fill        [pot_fill_tr, make_cells_tr]
   A transformation is an abstract value of type Tr (the tuple of 12 floats in
   the code); the cache key is (cell, tuple(transform)) compared with ==
   ([tr_eqb]).  A transformed surface is a NEW surface number (new_surf_key + 1)
   recorded in [tsdefs] with the surface it was made from and the transformation:
   what transformation() and conversion_surface_params compute numerically is
   the business of C04; here only the interface law matters (Spec in ProofsTr.v).
   Facet references (s.k) and unknown surface numbers (KeyError) are outside the
   model.  Executable; proofs in C13/ProofsTr.v. *)
From Coq Require Import List ZArith NArith Bool.
From T4V Require Import C13.Model.
Import ListNotations.
Open Scope Z_scope.

Section Tr.
Context {Tr : Type} (tr_eqb : Tr -> Tr -> bool).

Record tstate := MkT {
  tcells : list (Z * mcell);          (* dic_cell_mcnp *)
  tckey : Z;                          (* new_cell_key *)
  tskey : Z;                          (* new_surf_key *)
  tsdefs : list (Z * (Z * Tr));       (* surfaces made by pot_transform: new -> (old, tr) *)
  tcache : list (Z * Tr * Z) }.       (* cell_transform_cache: (cell, tr) -> new cell *)

Fixpoint cache_get (c : Z) (t : Tr) (l : list (Z * Tr * Z)) : option Z :=
  match l with
  | [] => None
  | (c', t', k) :: r => if Z.eqb c' c && tr_eqb t' t then Some k else cache_get c t r
  end.

(* a function over a list of subtrees, threading the state left to right *)
Section MapSt.
Context {A B S : Type} (f : A -> S -> res (B * S)).
Fixpoint map_st (l : list A) (st : S) : res (list B * S) :=
  match l with
  | [] => Ok ([], st)
  | a :: r =>
      match f a st with
      | Err e => Err e
      | Ok (b, st1) =>
          match map_st r st1 with
          | Err e => Err e
          | Ok (r', st2) => Ok (b :: r', st2)
          end
      end
  end.
End MapSt.

(* pot_transform: surfaces get fresh numbers (sign kept), CellRefs are
   transformed through [rec] = cell_transform (cache on), nodes left to right *)
Fixpoint ptrans (rec : Z -> tstate -> res (Z * tstate)) (t : Tr) (g : geom) (st : tstate) {struct g}
  : res (geom * tstate) :=
  match g with
  | GSurf s =>
      let k := tskey st + 1 in
      Ok (GSurf (if Z.leb 0 s then k else - k),
          MkT (tcells st) (tckey st) k (tsdefs st ++ [(k, (Z.abs s, t))]) (tcache st))
  | GRef c =>
      match rec c st with
      | Err e => Err e
      | Ok (k, st') => Ok (GRef k, st')
      end
  | GNode op args =>
      match map_st (ptrans rec t) args st with
      | Err e => Err e
      | Ok (args', st') => Ok (GNode op args', st')
      end
  end.

(* cell_transform(cell_key, transform, cache) for a non-empty transform *)
Fixpoint ctransform (fuel : nat) (t : Tr) (use_cache : bool) (c : Z) (st : tstate)
  : res (Z * tstate) :=
  match fuel with
  | O => Err EFuel
  | S f =>
      match (if use_cache then cache_get c t (tcache st) else None) with
      | Some k => Ok (k, st)
      | None =>
          match lookup c (tcells st) with
          | None => Err EKey
          | Some cell =>
              match ptrans (ctransform f t true) t (cgeom cell) st with
              | Err e => Err e
              | Ok (g', st1) =>
                  let k := tckey st1 + 1 in
                  Ok (k, MkT (update k (set_geom cell g') (tcells st1)) k (tskey st1) (tsdefs st1)
                             (if use_cache then tcache st1 ++ [(c, t, k)] else tcache st1))
              end
          end
      end
  end.

(* the transformation(s) pot_fill applies to a filler: the FILL transformation
   if there is one, else the TRCLs of the filled cell one after the other *)
Fixpoint ctransform_chain (fuel : nat) (ts : list Tr) (use_cache : bool) (c : Z) (st : tstate)
  : res (Z * tstate) :=
  match ts with
  | [] => Ok (c, st)
  | t :: r =>
      match ctransform fuel t use_cache c st with
      | Err e => Err e
      | Ok (k, st1) => ctransform_chain fuel r use_cache k st1
      end
  end.

Definition fill_transforms (filltr : option Tr) (trcl : list Tr) : list Tr :=
  match filltr with Some t => [t] | None => trcl end.

(* the loop over to_process in pot_fill *)
Fixpoint make_cells_tr (fuel : nat) (fd fg : bool) (ts : list Tr) (key : Z) (cell : mcell)
    (elts : list Z) (st : tstate) (acc : list Z) : res (list Z * tstate) :=
  match elts with
  | [] => Ok (acc, st)
  | e :: r =>
      match lookup e (tcells st) with
      | None => Err EKey
      | Some ec =>
          match ctransform_chain fuel ts (negb fg) e st with
          | Err er => Err er
          | Ok (e', st1) =>
              match lookup e' (tcells st1) with
              | None => Err EKey
              | Some ec' =>
                  let g := fill_geometry fd fg key (cgeom cell) e' (cgeom ec') in
                  let k' := tckey st1 + 1 in
                  make_cells_tr fuel fd fg ts key cell r
                    (MkT (update k' (filled_cell key cell e ec g) (tcells st1)) k'
                         (tskey st1) (tsdefs st1) (tcache st1))
                    (acc ++ [k'])
              end
          end
      end
  end.

Fixpoint fill_each_tr (rec : Z -> tstate -> res (list Z * tstate)) (elts : list Z) (st : tstate)
  : res (list Z * tstate) :=
  match elts with
  | [] => Ok ([], st)
  | e :: r =>
      match rec e st with
      | Err er => Err er
      | Ok (ks, st1) =>
          match fill_each_tr rec r st1 with
          | Err er => Err er
          | Ok (ks', st2) => Ok (ks ++ ks', st2)
          end
      end
  end.

(* tinfo: (filltr, trcl) of the cells that have one *)
Definition tinfo_of (tinfo : list (Z * (option Tr * list Tr))) (key : Z) : list Tr :=
  match lookup key tinfo with
  | Some (ft, tc) => fill_transforms ft tc
  | None => []
  end.

Fixpoint pot_fill_tr (fuel : nat) (fd fg : bool) (dic0 : list (Z * mcell))
    (tinfo : list (Z * (option Tr * list Tr))) (key : Z) (st : tstate) : res (list Z * tstate) :=
  match fuel with
  | O => Err EFuel
  | S f =>
      match lookup key (tcells st) with
      | None => Err EKey
      | Some cell =>
          match cfill cell with
          | None => Ok ([key], st)
          | Some u =>
              match fill_each_tr (pot_fill_tr f fd fg dic0 tinfo) (cells_of_universe dic0 u) st with
              | Err er => Err er
              | Ok (to_process, st1) =>
                  make_cells_tr fuel fd fg (tinfo_of tinfo key) key cell to_process st1 []
              end
          end
      end
  end.

Fixpoint fill_loop_tr (fuel : nat) (fd fg : bool) (dic0 : list (Z * mcell))
    (tinfo : list (Z * (option Tr * list Tr))) (keys : list Z) (st : tstate) : res tstate :=
  match keys with
  | [] => Ok st
  | k :: r =>
      match pot_fill_tr fuel fd fg dic0 tinfo k st with
      | Err e => Err e
      | Ok (_, st') => fill_loop_tr fuel fd fg dic0 tinfo r st'
      end
  end.
End Tr.
