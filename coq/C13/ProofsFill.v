(* C13 — the cell-level stage under two option vectors: pot_fill under any two
   (inline_filled, inline_filling) pairs runs in lock-step (same keys, same
   counter, tables with the same shape and the same models), inlining any set
   afterwards keeps the models; on acyclic tables the denotations coincide. *)
From Coq Require Import List ZArith Bool Lia Arith.
From Coq Require Import Reals.
From T4V Require Import Base.Scalar C13.Model C13.Spec C13.Proofs C13.ProofsDedup.
Import ListNotations.
Open Scope Z_scope.

(* everything of a cell but its geometry: universe, FILL mark, provenance, material *)
Definition tag (c : mcell) : Z * option Z * list (Z * Z) * Z := (cuniv c, cfill c, corigin c, cmat c).

Definition shape (d : list (Z * mcell)) : list (Z * (Z * option Z * list (Z * Z) * Z)) :=
  map (fun kv => (fst kv, tag (snd kv))) d.

Definition bounded (st : fstate) : Prop := forall k, lookup k (fst st) <> None -> k <= snd st.

Definition same_models (d1 d2 : list (Z * mcell)) : Prop :=
  forall sigma rho, is_model sigma rho d1 <-> is_model sigma rho d2.

Lemma shape_lookup d1 : forall d2 k, shape d1 = shape d2 ->
  match lookup k d1, lookup k d2 with
  | Some c1, Some c2 => tag c1 = tag c2
  | None, None => True
  | _, _ => False
  end.
Proof.
  induction d1 as [|[k1 c1] r1 IH]; intros [|[k2 c2] r2] k H; cbn [shape map] in H; try discriminate.
  - exact I.
  - injection H as Hk H1 H2 H3 H4 Hr. cbn [fst snd] in *. subst k2. cbn [lookup].
    destruct (Z.eqb k1 k); [unfold tag; congruence|]. apply IH. exact Hr.
Qed.

Lemma shape_update d1 : forall d2 k c1 c2, shape d1 = shape d2 -> tag c1 = tag c2 ->
  shape (update k c1 d1) = shape (update k c2 d2).
Proof.
  induction d1 as [|[k1 x1] r1 IH]; intros [|[k2 x2] r2] k c1 c2 H Ht; cbn [shape map] in H; try discriminate.
  - cbn. rewrite Ht. reflexivity.
  - injection H as Hk H1 H2 H3 H4 Hr. cbn [fst snd] in *. subst k2. cbn [update].
    assert (Ht' : tag x1 = tag x2) by (unfold tag; congruence).
    destruct (Z.eqb k1 k).
    + cbn [shape map fst snd]. rewrite Ht. f_equal. exact Hr.
    + cbn [shape map fst snd]. rewrite Ht'. f_equal. apply IH; assumption.
Qed.

Lemma shape_keys d1 d2 : shape d1 = shape d2 -> map fst d1 = map fst d2.
Proof.
  intros H. assert (E : forall d, map fst d = map fst (shape d)).
  { intros d. unfold shape. rewrite map_map. reflexivity. }
  rewrite (E d1), (E d2), H. reflexivity.
Qed.

Lemma is_model_update_fresh sigma rho k c d : lookup k d = None ->
  (is_model sigma rho (update k c d) <-> is_model sigma rho d /\ rho k = geval sigma rho (cgeom c)).
Proof.
  intros Hf. split.
  - intros Hm. split.
    + intros j cj Hj. apply Hm. rewrite lookup_update. destruct (Z.eqb k j) eqn:E; [|exact Hj].
      apply Z.eqb_eq in E; subst j. congruence.
    + apply Hm. rewrite lookup_update, Z.eqb_refl. reflexivity.
  - intros [Hm Hk] j cj Hj. rewrite lookup_update in Hj. destruct (Z.eqb k j) eqn:E.
    + apply Z.eqb_eq in E; subst j. injection Hj as <-. exact Hk.
    + apply (Hm _ _ Hj).
Qed.

(* ---------- single run: the table only grows, by fresh keys ---------- *)
Definition ext (s s' : fstate) : Prop :=
  bounded s -> bounded s' /\ snd s <= snd s'
               /\ forall j c, lookup j (fst s) = Some c -> lookup j (fst s') = Some c.

Lemma ext_refl s : ext s s.
Proof. intros H. split; [exact H|]. split; [lia|auto]. Qed.

Lemma ext_trans s1 s2 s3 : ext s1 s2 -> ext s2 s3 -> ext s1 s3.
Proof.
  intros H12 H23 Hb. destruct (H12 Hb) as [Hb2 [Hle2 Hl2]]. destruct (H23 Hb2) as [Hb3 [Hle3 Hl3]].
  split; [exact Hb3|]. split; [lia|auto].
Qed.

Lemma ext_step d c cell' : ext (d, c) (update (c + 1) cell' d, c + 1).
Proof.
  intros Hb. cbn [fst snd] in *. split; [|split; [lia|]].
  - intros k Hk. cbn [fst snd] in *. rewrite lookup_update in Hk. destruct (Z.eqb (c + 1) k) eqn:E.
    + apply Z.eqb_eq in E. lia.
    + specialize (Hb k Hk). cbn [snd] in Hb. lia.
  - intros j cj Hj. rewrite lookup_update. destruct (Z.eqb (c + 1) j) eqn:E; [|exact Hj].
    apply Z.eqb_eq in E. subst j. assert (c + 1 <= c) by (apply (Hb (c + 1)); cbn [fst]; congruence). lia.
Qed.

Lemma make_cells_ext fd fg key cell : forall elts st acc ks st',
  make_cells fd fg key cell elts st acc = Ok (ks, st') -> ext st st'.
Proof.
  induction elts as [|e r IH]; intros st acc ks st' H; cbn [make_cells] in H.
  - injection H as _ <-. apply ext_refl.
  - destruct (lookup e (fst st)) as [ec|]; [|discriminate].
    eapply ext_trans; [|apply (IH _ _ _ _ H)]. destruct st as [d c]. apply ext_step.
Qed.

Lemma fill_each_ext rec : (forall e s ks s', rec e s = Ok (ks, s') -> ext s s') ->
  forall elts st ks st', fill_each rec elts st = Ok (ks, st') -> ext st st'.
Proof.
  intros Hrec. induction elts as [|e r IH]; intros st ks st' H; cbn [fill_each] in H.
  - injection H as _ <-. apply ext_refl.
  - destruct (rec e st) as [[ks1 st1]|er] eqn:E1; [|discriminate].
    destruct (fill_each rec r st1) as [[ks2 st2]|er] eqn:E2; [|discriminate].
    injection H as _ <-. eapply ext_trans; [apply (Hrec _ _ _ _ E1)|apply (IH _ _ _ E2)].
Qed.

Lemma pot_fill_ext fd fg dic0 : forall fuel key st ks st',
  pot_fill fuel fd fg dic0 key st = Ok (ks, st') -> ext st st'.
Proof.
  induction fuel as [|f IH]; intros key st ks st' H; cbn [pot_fill] in H; [discriminate|].
  destruct (lookup key (fst st)) as [cell|]; [|discriminate].
  destruct (cfill cell) as [u|].
  - destruct (fill_each _ _ st) as [[tp st1]|er] eqn:E1; [|discriminate].
    eapply ext_trans; [apply (fill_each_ext _ (IH) _ _ _ _ E1)|apply (make_cells_ext _ _ _ _ _ _ _ _ _ H)].
  - injection H as _ <-. apply ext_refl.
Qed.

(* ---------- two runs in lock-step ---------- *)
Definition srel (s1 s2 : fstate) : Prop :=
  snd s1 = snd s2 /\ shape (fst s1) = shape (fst s2) /\ same_models (fst s1) (fst s2)
  /\ bounded s1 /\ bounded s2.

Definition rrel (r1 r2 : res (list Z * fstate)) : Prop :=
  match r1, r2 with
  | Ok (ks1, s1), Ok (ks2, s2) => ks1 = ks2 /\ srel s1 s2
  | Err e1, Err e2 => e1 = e2
  | _, _ => False
  end.

Lemma make_cells_rel fd1 fg1 fd2 fg2 key cell1 cell2 : forall elts st1 st2 acc,
  srel st1 st2 ->
  lookup key (fst st1) = Some cell1 -> lookup key (fst st2) = Some cell2 ->
  rrel (make_cells fd1 fg1 key cell1 elts st1 acc) (make_cells fd2 fg2 key cell2 elts st2 acc).
Proof.
  induction elts as [|e r IH]; intros [d1 c1] [d2 c2] acc Hs Hk1 Hk2; cbn [make_cells].
  - split; [reflexivity|exact Hs].
  - destruct Hs as [Hc [Hsh [Hm [Hb1 Hb2]]]]. cbn [fst snd] in *. subst c2.
    pose proof (shape_lookup d1 d2 e Hsh) as He.
    destruct (lookup e d1) as [ec1|] eqn:E1, (lookup e d2) as [ec2|] eqn:E2; try contradiction; [|reflexivity].
    pose proof (shape_lookup d1 d2 key Hsh) as Hkk. rewrite Hk1, Hk2 in Hkk.
    assert (Htag : forall g1 g2, tag (filled_cell key cell1 e ec1 g1) = tag (filled_cell key cell2 e ec2 g2)).
    { intros g1 g2. unfold tag, filled_cell in *. cbn [cuniv cfill corigin cmat].
      injection Hkk as Hu _ Ho _. injection He as _ _ Hoe Hme. rewrite Hu, Ho, Hoe, Hme. reflexivity. }
    assert (Hf1 : lookup (c1 + 1) d1 = None).
    { destruct (lookup (c1 + 1) d1) eqn:E; [|reflexivity].
      assert (c1 + 1 <= c1) by (apply (Hb1 (c1 + 1)); cbn [fst]; congruence). lia. }
    assert (Hf2 : lookup (c1 + 1) d2 = None).
    { destruct (lookup (c1 + 1) d2) eqn:E; [|reflexivity].
      assert (c1 + 1 <= c1) by (apply (Hb2 (c1 + 1)); cbn [fst]; congruence). lia. }
    apply IH.
    + split; [reflexivity|]. cbn [fst snd]. split; [apply shape_update; auto|].
      split; [|split].
      * intros sigma rho. rewrite !is_model_update_fresh by assumption. unfold filled_cell. cbn [cgeom].
        split; intros [H0 H1].
        -- pose proof (proj1 (Hm sigma rho) H0) as H0'. split; [exact H0'|].
           rewrite (fill_geometry_den sigma rho d2 fd2 fg2 key cell2 e ec2 H0' Hk2 E2).
           rewrite <- (fill_geometry_den sigma rho d1 fd1 fg1 key cell1 e ec1 H0 Hk1 E1). exact H1.
        -- pose proof (proj2 (Hm sigma rho) H0) as H0'. split; [exact H0'|].
           rewrite (fill_geometry_den sigma rho d1 fd1 fg1 key cell1 e ec1 H0' Hk1 E1).
           rewrite <- (fill_geometry_den sigma rho d2 fd2 fg2 key cell2 e ec2 H0 Hk2 E2). exact H1.
      * apply (ext_step d1 c1 _ Hb1).
      * apply (ext_step d2 c1 _ Hb2).
    + cbn [fst]. apply (ext_step d1 c1 _ Hb1). exact Hk1.
    + cbn [fst]. apply (ext_step d2 c1 _ Hb2). exact Hk2.
Qed.

Lemma fill_each_rel rec1 rec2 :
  (forall e s1 s2, srel s1 s2 -> rrel (rec1 e s1) (rec2 e s2)) ->
  forall elts s1 s2, srel s1 s2 -> rrel (fill_each rec1 elts s1) (fill_each rec2 elts s2).
Proof.
  intros Hrec. induction elts as [|e r IH]; intros s1 s2 Hs; cbn [fill_each].
  - split; [reflexivity|exact Hs].
  - pose proof (Hrec e s1 s2 Hs) as H1. unfold rrel in H1.
    destruct (rec1 e s1) as [[ks1 t1]|e1], (rec2 e s2) as [[ks2 t2]|e2]; try contradiction; [|exact H1].
    destruct H1 as [-> Ht]. pose proof (IH t1 t2 Ht) as H2. unfold rrel in H2.
    destruct (fill_each rec1 r t1) as [[ks1' u1]|e1], (fill_each rec2 r t2) as [[ks2' u2]|e2];
      try contradiction; [|exact H2].
    destruct H2 as [-> Hu]. split; [reflexivity|exact Hu].
Qed.

Lemma pot_fill_rel fd1 fg1 fd2 fg2 dic0 : forall fuel key s1 s2, srel s1 s2 ->
  rrel (pot_fill fuel fd1 fg1 dic0 key s1) (pot_fill fuel fd2 fg2 dic0 key s2).
Proof.
  induction fuel as [|f IH]; intros key s1 s2 Hs; cbn [pot_fill]; [reflexivity|].
  pose proof Hs as [Hc [Hsh [Hm [Hb1 Hb2]]]].
  pose proof (shape_lookup _ _ key Hsh) as Hk.
  destruct (lookup key (fst s1)) as [c1|] eqn:E1, (lookup key (fst s2)) as [c2|] eqn:E2;
    try contradiction; [|reflexivity].
  assert (Hf : cfill c1 = cfill c2) by (unfold tag in Hk; congruence).
  rewrite Hf. destruct (cfill c2) as [u|]; [|split; [reflexivity|exact Hs]].
  pose proof (fill_each_rel _ _ (IH) (cells_of_universe dic0 u) s1 s2 Hs) as H1. unfold rrel in H1.
  destruct (fill_each (pot_fill f fd1 fg1 dic0) _ s1) as [[tp1 t1]|e1] eqn:F1,
           (fill_each (pot_fill f fd2 fg2 dic0) _ s2) as [[tp2 t2]|e2] eqn:F2; try contradiction; [|exact H1].
  destruct H1 as [-> Ht]. apply make_cells_rel; [exact Ht| |].
  - apply (fill_each_ext _ (pot_fill_ext fd1 fg1 dic0 f) _ _ _ _ F1 Hb1). exact E1.
  - apply (fill_each_ext _ (pot_fill_ext fd2 fg2 dic0 f) _ _ _ _ F2 Hb2). exact E2.
Qed.

Lemma fill_loop_rel fd1 fg1 fd2 fg2 dic0 fuel : forall keys s1 s2, srel s1 s2 ->
  match fill_loop fuel fd1 fg1 dic0 keys s1, fill_loop fuel fd2 fg2 dic0 keys s2 with
  | Ok t1, Ok t2 => srel t1 t2
  | Err e1, Err e2 => e1 = e2
  | _, _ => False
  end.
Proof.
  induction keys as [|k r IH]; intros s1 s2 Hs; cbn [fill_loop]; [exact Hs|].
  pose proof (pot_fill_rel fd1 fg1 fd2 fg2 dic0 fuel k s1 s2 Hs) as H. unfold rrel in H.
  destruct (pot_fill fuel fd1 fg1 dic0 k s1) as [[ks1 t1]|e1], (pot_fill fuel fd2 fg2 dic0 k s2) as [[ks2 t2]|e2];
    try contradiction; [|exact H].
  destruct H as [_ Ht]. apply IH. exact Ht.
Qed.

(* ---------- FILL keeps the table acyclic ---------- *)
Lemma make_cells_acyclic fd fg key cell : forall elts st acc ks st',
  make_cells fd fg key cell elts st acc = Ok (ks, st') ->
  bounded st -> lookup key (fst st) = Some cell ->
  (exists rank, acyclic rank (fst st)) -> exists rank, acyclic rank (fst st').
Proof.
  induction elts as [|e r IH]; intros [d c] acc ks st' H Hb Hk [rank Hac]; cbn [make_cells] in H.
  - injection H as _ <-. exists rank. exact Hac.
  - cbn [fst snd] in *. destruct (lookup e d) as [ec|] eqn:Ee; [|discriminate].
    pose proof (ext_step d c (filled_cell key cell e ec (fill_geometry fd fg key (cgeom cell) e (cgeom ec))) Hb)
      as [Hb' [_ Hl']].
    apply (IH _ _ _ _ H Hb'); [apply Hl'; exact Hk|]. cbn [fst].
    assert (Hfresh : lookup (c + 1) d = None).
    { destruct (lookup (c + 1) d) eqn:E; [|reflexivity].
      assert (c + 1 <= c) by (apply (Hb (c + 1)); cbn [fst]; congruence). lia. }
    exists (fun j => if Z.eqb j (c + 1) then S (Nat.max (rank key) (rank e)) else rank j).
    intros j cj Hj x Hx. rewrite lookup_update in Hj.
    assert (Hold : forall y, lookup y d <> None ->
              (if Z.eqb y (c + 1) then S (Nat.max (rank key) (rank e)) else rank y) = rank y).
    { intros y Hy. destruct (Z.eqb y (c + 1)) eqn:E; [|reflexivity].
      apply Z.eqb_eq in E; subst y. congruence. }
    assert (Hres : forall y, lookup y d <> None -> lookup y (update (c + 1) (filled_cell key cell e ec
                     (fill_geometry fd fg key (cgeom cell) e (cgeom ec))) d) <> None).
    { intros y Hy. rewrite lookup_update. destruct (Z.eqb (c + 1) y); [discriminate|exact Hy]. }
    destruct (Z.eqb (c + 1) j) eqn:Ej.
    + apply Z.eqb_eq in Ej; subst j. injection Hj as <-. unfold filled_cell in Hx. cbn [cgeom] in Hx.
      rewrite Z.eqb_refl.
      assert (Hx' : (rank x <= Nat.max (rank key) (rank e))%nat /\ lookup x d <> None).
      { unfold fill_geometry in Hx. cbn [refs flat_map] in Hx. rewrite app_nil_r in Hx.
        apply in_app_or in Hx. destruct Hx as [Hx|Hx].
        - destruct fd; cbn [refs] in Hx.
          + destruct (Hac _ _ Hk x Hx) as [Hlt Hr]. split; [lia|exact Hr].
          + destruct Hx as [<-|[]]. split; [lia|congruence].
        - destruct fg; cbn [refs] in Hx.
          + destruct (Hac _ _ Ee x Hx) as [Hlt Hr]. split; [lia|exact Hr].
          + destruct Hx as [<-|[]]. split; [lia|congruence]. }
      destruct Hx' as [Hle Hr]. rewrite (Hold x Hr). split; [lia|apply Hres; exact Hr].
    + destruct (Hac _ _ Hj x Hx) as [Hlt Hr].
      assert (Hjd : lookup j d <> None) by congruence.
      rewrite (Hold x Hr), (Hold j Hjd). split; [exact Hlt|apply Hres; exact Hr].
Qed.

Lemma fill_each_acyclic rec :
  (forall e s ks s', rec e s = Ok (ks, s') -> ext s s') ->
  (forall e s ks s', rec e s = Ok (ks, s') -> bounded s ->
     (exists rank, acyclic rank (fst s)) -> exists rank, acyclic rank (fst s')) ->
  forall elts st ks st', fill_each rec elts st = Ok (ks, st') -> bounded st ->
  (exists rank, acyclic rank (fst st)) -> exists rank, acyclic rank (fst st').
Proof.
  intros Hext Hrec. induction elts as [|e r IH]; intros st ks st' H Hb Hac; cbn [fill_each] in H.
  - injection H as _ <-. exact Hac.
  - destruct (rec e st) as [[ks1 st1]|er] eqn:E1; [|discriminate].
    destruct (fill_each rec r st1) as [[ks2 st2]|er] eqn:E2; [|discriminate].
    injection H as _ <-. apply (IH _ _ _ E2).
    + apply (Hext _ _ _ _ E1 Hb).
    + apply (Hrec _ _ _ _ E1 Hb Hac).
Qed.

Lemma pot_fill_acyclic fd fg dic0 : forall fuel key st ks st',
  pot_fill fuel fd fg dic0 key st = Ok (ks, st') -> bounded st ->
  (exists rank, acyclic rank (fst st)) -> exists rank, acyclic rank (fst st').
Proof.
  induction fuel as [|f IH]; intros key st ks st' H Hb Hac; cbn [pot_fill] in H; [discriminate|].
  destruct (lookup key (fst st)) as [cell|] eqn:Ek; [|discriminate].
  destruct (cfill cell) as [u|].
  - destruct (fill_each _ _ st) as [[tp st1]|er] eqn:E1; [|discriminate].
    pose proof (fill_each_ext _ (pot_fill_ext fd fg dic0 f) _ _ _ _ E1 Hb) as [Hb1 [_ Hl1]].
    apply (make_cells_acyclic _ _ _ _ _ _ _ _ _ H Hb1 (Hl1 _ _ Ek)).
    apply (fill_each_acyclic _ (pot_fill_ext fd fg dic0 f) IH _ _ _ _ E1 Hb Hac).
  - injection H as _ <-. exact Hac.
Qed.

Lemma fill_loop_acyclic fd fg dic0 fuel : forall keys st st',
  fill_loop fuel fd fg dic0 keys st = Ok st' -> bounded st ->
  (exists rank, acyclic rank (fst st)) -> exists rank, acyclic rank (fst st').
Proof.
  induction keys as [|k r IH]; intros st st' H Hb Hac; cbn [fill_loop] in H.
  - injection H as <-. exact Hac.
  - destruct (pot_fill fuel fd fg dic0 k st) as [[ks st1]|e] eqn:E; [|discriminate].
    apply (IH _ _ H).
    + apply (pot_fill_ext _ _ _ _ _ _ _ _ E Hb).
    + apply (pot_fill_acyclic _ _ _ _ _ _ _ _ E Hb Hac).
Qed.

(* ---------- the cell-level stage under two option vectors ---------- *)
Theorem options_same_cells fuel (o1 o2 : options) dic counter d1 c1 d2 c2 :
  (forall k, lookup k dic <> None -> k <= counter) ->
  (exists rank, acyclic rank dic) ->
  cell_stage fuel o1 dic counter = Ok (d1, c1) ->
  cell_stage fuel o2 dic counter = Ok (d2, c2) ->
  c1 = c2 /\ map fst d1 = map fst d2 /\
  exists r1 r2, acyclic r1 d1 /\ acyclic r2 d2 /\
    forall sigma k, lookup k d1 <> None -> cden r1 sigma d1 k = cden r2 sigma d2 k.
Proof.
  intros Hb Hac H1 H2. unfold cell_stage in H1, H2.
  assert (Hs : srel (dic, counter) (dic, counter)).
  { split; [reflexivity|]. split; [reflexivity|]. split; [intros s r; tauto|split; exact Hb]. }
  pose proof (fill_loop_rel (inline_filled o1) (inline_filling o1) (inline_filled o2) (inline_filling o2)
                dic fuel (fill_keys dic) _ _ Hs) as Hrel.
  destruct (fill_loop fuel (inline_filled o1) (inline_filling o1) dic (fill_keys dic) (dic, counter))
    as [[p1 q1]|e1] eqn:F1; [|discriminate].
  destruct (fill_loop fuel (inline_filled o2) (inline_filling o2) dic (fill_keys dic) (dic, counter))
    as [[p2 q2]|e2] eqn:F2; [|discriminate].
  destruct Hrel as [Hq [Hsh [Hm _]]]. cbn [fst snd] in *.
  destruct (inline_cells fuel (to_inline o1) p1) as [i1|] eqn:I1; [|discriminate].
  destruct (inline_cells fuel (to_inline o2) p2) as [i2|] eqn:I2; [|discriminate].
  injection H1 as -> ->. injection H2 as -> ->.
  destruct (fill_loop_acyclic _ _ _ _ _ _ _ F1 Hb Hac) as [r1 Ha1].
  destruct (fill_loop_acyclic _ _ _ _ _ _ _ F2 Hb Hac) as [r2 Ha2]. cbn [fst] in *.
  destruct (inline_cells_acyclic r1 _ _ _ _ I1 Ha1) as [Hai1 Hdom1].
  destruct (inline_cells_acyclic r2 _ _ _ _ I2 Ha2) as [Hai2 Hdom2].
  assert (Hkeys : forall k, lookup k d1 <> None <-> lookup k d2 <> None).
  { intros k. rewrite <- Hdom1, <- Hdom2, !lookup_keys, (shape_keys _ _ Hsh). tauto. }
  split; [exact Hq|]. split.
  - (* inline_cells keeps the key list *)
    assert (Hk : forall fuel ti keys d d', inline_loop fuel ti keys d = Ok d' -> map fst d' = map fst d).
    { clear. intros fuel ti. induction keys as [|k r IH]; intros d d' H; cbn [inline_loop] in H.
      - injection H as <-; reflexivity.
      - destruct (lookup k d) as [c|] eqn:Ek; [|discriminate].
        destruct (inline_worker fuel d ti (cgeom c)); [|discriminate].
        rewrite (IH _ _ H). clear -Ek. induction d as [|[k0 v0] d IHd]; cbn [lookup update map fst] in *; [discriminate|].
        destruct (Z.eqb k0 k) eqn:E; cbn [map fst].
        + apply Z.eqb_eq in E; subst; reflexivity.
        + f_equal. apply IHd. exact Ek. }
    assert (Hk' : forall fuel ti d d', inline_cells fuel ti d = Ok d' -> map fst d' = map fst d).
    { intros f ti d d' H. unfold inline_cells in H. destruct ti; [injection H as <-; reflexivity|].
      apply (Hk _ _ _ _ _ H). }
    rewrite (Hk' _ _ _ _ I1), (Hk' _ _ _ _ I2). apply shape_keys. exact Hsh.
  - exists r1, r2. split; [exact Hai1|]. split; [exact Hai2|]. intros sigma k Hk.
    (* the model of the post-fill table of run 1 is a model of everything *)
    pose (rho := cden r1 sigma p1).
    assert (M1 : is_model sigma rho p1) by (apply cden_model; exact Ha1).
    assert (M2 : is_model sigma rho p2) by (apply Hm; exact M1).
    pose proof (inline_cells_model _ _ _ _ _ _ I1 M1) as N1.
    pose proof (inline_cells_model _ _ _ _ _ _ I2 M2) as N2.
    rewrite <- (model_unique r1 sigma d1 rho Hai1 N1 k Hk).
    apply (model_unique r2 sigma d2 rho Hai2 N2 k). apply Hkeys. exact Hk.
Qed.

(* ---------- the T4-level stage: --skip-deduplication on or off ---------- *)
Theorem dedup_stage_den (sense : desc R -> bool) skip surfs volus u0 u1 s' v' u' :
  NoDup (map fst surfs) ->
  dedup_stage RS skip surfs volus u0 u1 = Ok (s', v', u') ->
  forall fuel k, vden fuel (sense_of sense s') v' k = vden fuel (sense_of sense surfs) volus k.
Proof.
  intros Hn H. unfold dedup_stage in H. destruct skip.
  - injection H as <- <- _. reflexivity.
  - destruct (remove_duplicate_surfaces RS surfs) as [new ren] eqn:Er.
    destruct (renumber_surfaces volus ren) as [vv|e] eqn:Ev; [|discriminate].
    destruct (lookup u0 ren); [|discriminate]. destruct (lookup u1 ren); [|discriminate].
    injection H as <- <- _. apply (dedup_den sense surfs volus new ren vv Hn Er Ev).
Qed.

(* the helper planes after the stage are the same planes as before: equal senses *)
Theorem dedup_stage_helpers (sense : desc R -> bool) skip surfs volus u0 u1 s' v' a b :
  NoDup (map fst surfs) ->
  dedup_stage RS skip surfs volus u0 u1 = Ok (s', v', (a, b)) ->
  sense_of sense s' a = sense_of sense surfs u0 /\ sense_of sense s' b = sense_of sense surfs u1.
Proof.
  intros Hn H. destruct skip.
  - unfold dedup_stage in H. injection H as <- _ <- <-. split; reflexivity.
  - destruct (dedup_helpers_survive RS _ _ _ _ _ _ _ _ H) as [_ [_ [Ha Hb]]].
    unfold dedup_stage in H.
    destruct (remove_duplicate_surfaces RS surfs) as [new ren] eqn:Er.
    destruct (renumber_surfaces volus ren) as [vv|e]; [|discriminate].
    destruct (lookup u0 ren); [|discriminate]. destruct (lookup u1 ren); [|discriminate].
    injection H as <- _ _ _.
    assert (Hnn : NoDup (map fst new)).
    { pose proof (rds_run RS surfs) as E. rewrite Er in E.
      replace new with (fst (dedup_run RS (sort_items surfs) [])) by (rewrite <- E; reflexivity).
      apply run_new_nodup. apply (Permutation.Permutation_NoDup (Permutation.Permutation_map fst (sort_items_perm surfs))). exact Hn. }
    assert (Hone : forall u x, In (u, x) (snd (new, ren)) ->
                   sense_of sense new x = sense_of sense surfs u).
    { intros u x Hin. rewrite <- Er in Hin.
      destruct (dedup_merges_equal surfs u x Hin) as [d [H1 [_ H3]]]. rewrite Er in H3.
      unfold sense_of. rewrite (In_lookup _ _ _ Hn H1), (In_lookup _ _ _ Hnn H3). reflexivity. }
    split; [exact (Hone _ _ Ha)|exact (Hone _ _ Hb)].
Qed.

(* both stages the options control, for any two option vectors *)
Theorem options_same_geometry :
  (* cells: FILL under the inline flags, then inlining of any set *)
  (forall fuel (o1 o2 : options) dic counter d1 c1 d2 c2,
     (forall k, lookup k dic <> None -> k <= counter) ->
     (exists rank, acyclic rank dic) ->
     cell_stage fuel o1 dic counter = Ok (d1, c1) ->
     cell_stage fuel o2 dic counter = Ok (d2, c2) ->
     c1 = c2 /\ map fst d1 = map fst d2 /\
     exists r1 r2, acyclic r1 d1 /\ acyclic r2 d2 /\
       forall sigma k, lookup k d1 <> None -> cden r1 sigma d1 k = cden r2 sigma d2 k)
  /\
  (* volumes: de-duplication or not, over whatever tables the conversion built;
     the helper planes handed to remove_empty_volumes keep their senses *)
  (forall (sense : desc R -> bool) (o1 o2 : options) surfs volus u0 u1 s1 v1 a1 b1 s2 v2 a2 b2,
     NoDup (map fst surfs) ->
     dedup_stage RS (skip_dedup o1) surfs volus u0 u1 = Ok (s1, v1, (a1, b1)) ->
     dedup_stage RS (skip_dedup o2) surfs volus u0 u1 = Ok (s2, v2, (a2, b2)) ->
     (forall fuel k, vden fuel (sense_of sense s1) v1 k = vden fuel (sense_of sense s2) v2 k) /\
     sense_of sense s1 a1 = sense_of sense s2 a2 /\ sense_of sense s1 b1 = sense_of sense s2 b2).
Proof.
  split.
  - exact options_same_cells.
  - intros sense o1 o2 surfs volus u0 u1 s1 v1 a1 b1 s2 v2 a2 b2 Hn H1 H2.
    destruct (dedup_stage_helpers sense _ _ _ _ _ _ _ _ _ Hn H1) as [Ha1 Hb1].
    destruct (dedup_stage_helpers sense _ _ _ _ _ _ _ _ _ Hn H2) as [Ha2 Hb2].
    split; [|split; congruence]. intros fuel k.
    rewrite (dedup_stage_den sense _ _ _ _ _ _ _ _ Hn H1), (dedup_stage_den sense _ _ _ _ _ _ _ _ Hn H2). reflexivity.
Qed.

(* the inline flags never change whether the FILL loop succeeds, nor the keys,
   universes, FILL marks and the counter; the two tables have the same models *)
Theorem fill_flags_lockstep fuel fd1 fg1 fd2 fg2 dic counter :
  (forall k, lookup k dic <> None -> k <= counter) ->
  match fill_loop fuel fd1 fg1 dic (fill_keys dic) (dic, counter),
        fill_loop fuel fd2 fg2 dic (fill_keys dic) (dic, counter) with
  | Ok (d1, c1), Ok (d2, c2) => c1 = c2 /\ shape d1 = shape d2 /\ same_models d1 d2
  | Err e1, Err e2 => e1 = e2
  | _, _ => False
  end.
Proof.
  intros Hb.
  assert (Hs : srel (dic, counter) (dic, counter)).
  { split; [reflexivity|]. split; [reflexivity|]. split; [intros s r; tauto|split; exact Hb]. }
  pose proof (fill_loop_rel fd1 fg1 fd2 fg2 dic fuel (fill_keys dic) _ _ Hs) as H.
  destruct (fill_loop fuel fd1 fg1 dic (fill_keys dic) (dic, counter)) as [[d1 c1]|e1],
           (fill_loop fuel fd2 fg2 dic (fill_keys dic) (dic, counter)) as [[d2 c2]|e2]; try exact H.
  destruct H as [Hc [Hsh [Hm _]]]. cbn [fst snd] in *. auto.
Qed.
