(* C13 — executable comparison functions used by the generated correspondence
   files (model evaluated at binary64 / on integers vs values observed on the
   implementation). *)
From Coq Require Import List ZArith NArith Bool PrimFloat.
From T4V Require Import Base.Scalar Base.Cases C13.Model C13.ModelTr.
Import ListNotations.
Open Scope Z_scope.

Definition err_eqb (a b : err) : bool :=
  match a, b with EKey, EKey | EFuel, EFuel | EValue, EValue => true | _, _ => false end.

Definition res_eqb {A} (e : A -> A -> bool) (a b : res A) : bool :=
  match a, b with
  | Ok x, Ok y => e x y
  | Err x, Err y => err_eqb x y
  | _, _ => false
  end.

Definition zlist_eqb := list_eqb Z.eqb.
Definition zpair_eqb := pair_eqb Z.eqb Z.eqb.

(* (a) SurfaceT4.__eq__ on a pair of descriptors *)
Definition check_eq (c : desc float * desc float * bool) : bool :=
  let '(a, b, expected) := c in Bool.eqb (desc_eqb FS a b) expected.

(* (b) remove_duplicate_surfaces: keys of new_surfs in iteration order and the
   renumbering dict in iteration order *)
Definition check_dedup (c : list (Z * desc float) * (list Z * list (Z * Z))) : bool :=
  let '(surfs, (keys, ren)) := c in
  let '(new_surfs, ren') := remove_duplicate_surfaces FS surfs in
  zlist_eqb (map fst new_surfs) keys && list_eqb zpair_eqb ren' ren
  && forallb (fun kd => match lookup (fst kd) surfs with
                        | Some d => desc_eqb FS d (snd kd) | None => false end) new_surfs.

Definition ops_eqb (a b : option (opk * list Z)) : bool :=
  match a, b with
  | None, None => true
  | Some (OUnion, x), Some (OUnion, y) | Some (OInte, x), Some (OInte, y) => zlist_eqb x y
  | _, _ => false
  end.

Definition volu_eqb (a b : volu) : bool :=
  zlist_eqb (pluses a) (pluses b) && zlist_eqb (minuses a) (minuses b)
  && ops_eqb (ops a) (ops b) && Bool.eqb (fictive a) (fictive b)
  && list_eqb zpair_eqb (vorigin a) (vorigin b).

Definition volus_eqb := list_eqb (pair_eqb Z.eqb volu_eqb).

(* (c) renumber_surfaces with an arbitrary renumbering *)
Definition check_renumber (c : list (Z * volu) * list (Z * Z) * res (list (Z * volu))) : bool :=
  let '(volus, ren, expected) := c in
  res_eqb volus_eqb (renumber_surfaces volus ren) expected.

(* (d) the tail of convertMCNPGeometry + the SURF lines of the writer *)
Definition check_finish
  (c : bool * list (Z * desc float) * list (Z * volu) * Z * Z
       * res (list Z * list (Z * volu) * list Z)) : bool :=
  let '(skip, surfs, volus, u0, u1, expected) := c in
  let got := match finish FS skip surfs volus u0 u1 with
             | Ok (s, v, w) => Ok (map fst s, v, w)
             | Err e => Err e
             end in
  res_eqb (fun x y => let '(s, v, w) := x in let '(s', v', w') := y in
                      zlist_eqb s s' && volus_eqb v v' && zlist_eqb w w') got expected.

(* geometry trees *)
Fixpoint geom_eqb (a b : geom) : bool :=
  match a, b with
  | GSurf x, GSurf y => Z.eqb x y
  | GRef x, GRef y => Z.eqb x y
  | GNode o1 l1, GNode o2 l2 =>
      Bool.eqb o1 o2 &&
      (fix go (l1 l2 : list geom) : bool :=
         match l1, l2 with
         | [], [] => true
         | x :: r1, y :: r2 => geom_eqb x y && go r1 r2
         | _, _ => false
         end) l1 l2
  | _, _ => false
  end.

Definition mcell_eqb (a b : mcell) : bool :=
  Z.eqb (cuniv a) (cuniv b) && option_eqb Z.eqb (cfill a) (cfill b) && geom_eqb (cgeom a) (cgeom b)
  && list_eqb zpair_eqb (corigin a) (corigin b) && Z.eqb (cmat a) (cmat b).

Definition dic_eqb := list_eqb (pair_eqb Z.eqb mcell_eqb).

(* (e) geometry_size and extract_subcells *)
Definition check_size (c : geom * N * list Z) : bool :=
  let '(g, n, subs) := c in N.eqb (geometry_size g) n && zlist_eqb (extract_subcells g) subs.

(* (f) find_occurrences *)
Definition check_occ (c : list (Z * mcell) * res (list (Z * list Z))) : bool :=
  let '(dic, expected) := c in
  res_eqb (list_eqb (pair_eqb Z.eqb zlist_eqb)) (find_occurrences dic) expected.

(* (g) inline_cells with the implementation's own to_inline set *)
Definition check_inline (c : list (Z * mcell) * list Z * res (list (Z * mcell))) : bool :=
  let '(dic, ti, expected) := c in
  res_eqb dic_eqb (inline_cells 60 ti dic) expected.

(* (g') inline_cells with the score: nothing captured *)
Definition check_inline_score (c : list (Z * mcell) * float * res (list (Z * mcell))) : bool :=
  let '(dic, score, expected) := c in
  res_eqb dic_eqb (inline_cells_score FS 60 score dic) expected.

(* (h) pot_fill on every level-0 cell with a FILL, in dict order *)
Definition check_fill (c : bool * bool * list (Z * mcell) * Z * res (list (Z * mcell) * Z)) : bool :=
  let '(fd, fg, dic, counter, expected) := c in
  res_eqb (pair_eqb dic_eqb Z.eqb) (fill_loop 40 fd fg dic (fill_keys dic) (dic, counter)) expected.

(* (i) the FILL loop with transformations: cells, (filltr, trcl) per cell,
   new_cell_key, new_surf_key before; cells and the two counters after *)
Definition ftr_eqb : list float -> list float -> bool := list_eqb PrimFloat.eqb.

Definition check_fill_tr
  (c : bool * bool * list (Z * mcell) * list (Z * (option (list float) * list (list float))) * Z * Z
       * res (list (Z * mcell) * Z * Z)) : bool :=
  let '(fd, fg, dic, tinfo, ckey, skey, expected) := c in
  let got := match fill_loop_tr ftr_eqb 40 fd fg dic tinfo (fill_keys dic) (MkT dic ckey skey [] []) with
             | Ok st => Ok (tcells st, tckey st, tskey st)
             | Err e => Err e
             end in
  res_eqb (fun x y => let '(d, a, b) := x in let '(d', a', b') := y in
                      dic_eqb d d' && Z.eqb a a' && Z.eqb b b') got expected.
