(* C13 — proofs about the inlining half of the model (CellInlining, pot_fill). *)
From Coq Require Import List ZArith Bool Lia.
From T4V Require Import C13.Model C13.Spec.
Import ListNotations.
Open Scope Z_scope.

(* the four shapes pot_fill can give to a filled cell mean the same *)
Lemma fill_geometry_den sigma rho dic fd fg key cell elt ec :
  is_model sigma rho dic ->
  lookup key dic = Some cell -> lookup elt dic = Some ec ->
  geval sigma rho (fill_geometry fd fg key (cgeom cell) elt (cgeom ec))
  = rho key && rho elt.
Proof.
  intros Hm Hk He. unfold fill_geometry. cbn [geval forallb].
  rewrite andb_true_r.
  rewrite (Hm _ _ Hk), (Hm _ _ He).
  destruct fd, fg; cbn [geval]; rewrite <- ?(Hm _ _ Hk), <- ?(Hm _ _ He); reflexivity.
Qed.
